/-
  C49 — ACME request signing (acme/jws.go: jwsEncodeJSON, jwsSign, jwkEncode, jwsHasher, jwsWithMAC,
  JWKThumbprint; acme/rfc8555.go: encodeExternalAccountBinding).

  Model of the code as written.  Strings are ASCII byte strings (`Bytes`).
  Parameters (stdlib, not modelled): the key pair and the signature primitive itself (RSA PKCS#1 v1.5,
  ECDSA; `encoding/asn1` parsing of the DER signature — the model starts from the integers r, s),
  `encoding/json` (modelled for printable-ASCII strings only).  SHA-2 / HMAC come from XC.Prim.
-/
import XC.Basic
import XC.Prim.Hmac
namespace XC.C49
open XC

/-! ## base64url without padding (RFC 4648 §5, `base64.RawURLEncoding`) -/

/-- the 64-character URL-safe alphabet -/
def b64Char (n : Nat) : UInt8 :=
  if n < 26 then UInt8.ofNat (65 + n)        -- A–Z
  else if n < 52 then UInt8.ofNat (71 + n)   -- a–z
  else if n < 62 then UInt8.ofNat (n - 4)    -- 0–9
  else if n = 62 then 45                     -- '-'
  else 95                                    -- '_'

def b64Val (c : UInt8) : Option Nat :=
  let v := c.toNat
  if 65 ≤ v ∧ v ≤ 90 then some (v - 65)
  else if 97 ≤ v ∧ v ≤ 122 then some (v - 71)
  else if 48 ≤ v ∧ v ≤ 57 then some (v + 4)
  else if v = 45 then some 62
  else if v = 95 then some 63
  else none

/-- bytes → 6-bit groups (the last group is zero-padded on the right) -/
def sextets : Bytes → List Nat
  | a :: b :: c :: r =>
    (a.toNat / 4) :: ((a.toNat % 4) * 16 + b.toNat / 16) :: ((b.toNat % 16) * 4 + c.toNat / 64) :: (c.toNat % 64) :: sextets r
  | [a, b] => [a.toNat / 4, (a.toNat % 4) * 16 + b.toNat / 16, (b.toNat % 16) * 4]
  | [a] => [a.toNat / 4, (a.toNat % 4) * 16]
  | [] => []

/-- 6-bit groups → bytes; a single trailing group is malformed, trailing bits are dropped -/
def unsextets : List Nat → Option Bytes
  | x :: y :: z :: w :: r =>
    (unsextets r).map fun t =>
      UInt8.ofNat (x * 4 + y / 16) :: UInt8.ofNat ((y % 16) * 16 + z / 4) :: UInt8.ofNat ((z % 4) * 64 + w) :: t
  | [x, y, z] => some [UInt8.ofNat (x * 4 + y / 16), UInt8.ofNat ((y % 16) * 16 + z / 4)]
  | [x, y] => some [UInt8.ofNat (x * 4 + y / 16)]
  | [_] => none
  | [] => some []

def b64Enc (bs : Bytes) : Bytes := (sextets bs).map b64Char
def b64Dec (s : Bytes) : Option Bytes := (s.mapM b64Val).bind unsextets

/-! ## integers as big-endian byte strings (`big.Int.Bytes`) -/

/-- number of base-256 digits; 0 for 0 -/
def byteLen (n : Nat) : Nat := if h : n = 0 then 0 else byteLen (n / 256) + 1
decreasing_by omega

/-- `big.Int.Bytes()`: minimal big-endian, empty for 0 -/
def natBytes (n : Nat) : Bytes := natToBE (byteLen n) n

/-- `append(make([]byte, n-len(x)), x...)` when `n > len(x)`, else `x` unchanged -/
def leftPad (n : Nat) (x : Bytes) : Bytes := if n > x.length then zeros (n - x.length) ++ x else x

/-! ## keys -/

/-- ASCII string literal as bytes -/
def asc (s : String) : Bytes := s.toList.map fun c => UInt8.ofNat c.toNat

inductive Curve | p256 | p384 | p521 | p224
deriving DecidableEq, Repr

def Curve.bits : Curve → Nat
  | .p256 => 256 | .p384 => 384 | .p521 => 521 | .p224 => 224

def Curve.name : Curve → Bytes
  | .p256 => asc "P-256" | .p384 => asc "P-384"
  | .p521 => asc "P-521" | .p224 => asc "P-224"

inductive Pub
  | rsa (n e : Nat)
  | ec (c : Curve) (x y : Nat)
deriving Repr

inductive Hash | sha256 | sha384 | sha512
deriving DecidableEq, Repr

def Hash.run : Hash → Bytes → Bytes
  | .sha256 => XC.Prim.sha256 | .sha384 => XC.Prim.sha384 | .sha512 => XC.Prim.sha512


/-- `jwsHasher`: algorithm name and hash; none = unsupported key -/
def jwsHasher : Pub → Option (Bytes × Hash)
  | .rsa _ _ => some (asc "RS256", .sha256)
  | .ec .p256 _ _ => some (asc "ES256", .sha256)
  | .ec .p384 _ _ => some (asc "ES384", .sha384)
  | .ec .p521 _ _ => some (asc "ES512", .sha512)
  | .ec .p224 _ _ => none

/-- one JSON object member with a string value, or a raw (already JSON) value -/
inductive JVal | str (s : Bytes) | raw (j : Bytes)
deriving DecidableEq, Repr

abbrev Members := List (Bytes × JVal)

/-- coordinate size of `jwkEncode`: ⌈BitSize/8⌉ -/
def coordSize (c : Curve) : Nat := if c.bits % 8 != 0 then c.bits / 8 + 1 else c.bits / 8

/-- members of the JWK in the order `jwkEncode` writes them -/
def jwkMembers : Pub → Members
  | .rsa n e => [(asc "e", .str (b64Enc (natBytes e))), (asc "kty", .str (asc "RSA")), (asc "n", .str (b64Enc (natBytes n)))]
  | .ec c x y =>
    [(asc "crv", .str c.name), (asc "kty", .str (asc "EC")),
     (asc "x", .str (b64Enc (leftPad (coordSize c) (natBytes x)))),
     (asc "y", .str (b64Enc (leftPad (coordSize c) (natBytes y))))]

/-! ## JSON text (printable ASCII strings only) -/

def hex4 (n : Nat) : Bytes := asc "\\u00" ++ [(hexDigit (n / 16)).toUInt8, (hexDigit (n % 16)).toUInt8]

/-- `encoding/json` string escaping with HTML escaping on, for bytes 0x20–0x7e -/
def jsonEscByte (b : UInt8) : Bytes :=
  if b == 0x22 then asc "\\\""
  else if b == 0x5c then asc "\\\\"
  else if b == 0x3c || b == 0x3e || b == 0x26 then hex4 b.toNat
  else [b]

def printable (s : Bytes) : Bool := s.all fun b => 0x20 ≤ b && b ≤ 0x7e

def jsonStr (s : Bytes) : Bytes := [0x22] ++ (s.map jsonEscByte).flatten ++ [0x22]

def jsonMember : Bytes × JVal → Bytes
  | (k, .str s) => jsonStr k ++ [0x3a] ++ jsonStr s
  | (k, .raw j) => jsonStr k ++ [0x3a] ++ j

def intercalateB (sep : Bytes) : List Bytes → Bytes
  | [] => []
  | [x] => x
  | x :: r => x ++ sep ++ intercalateB sep r

def jsonObj (ms : Members) : Bytes := [0x7b] ++ intercalateB [0x2c] (ms.map jsonMember) ++ [0x7d]

/-- `jwkEncode`: the JSON text (member values are base64url / fixed names: no escaping arises) -/
def jwkEncode (p : Pub) : Bytes := jsonObj (jwkMembers p)

/-- `JWKThumbprint` -/
def thumbprint (p : Pub) : Bytes := b64Enc (XC.Prim.sha256 (jwkEncode p))

/-! ## protected header, signing input -/

/-- members of the protected header of `jwsEncodeJSON` (struct order, `omitempty` applied) -/
def headerMembers (alg : Bytes) (p : Pub) (kid nonce url : Bytes) : Members :=
  [(asc "alg", .str alg)] ++
  (if kid.isEmpty then [] else [(asc "kid", .str kid)]) ++
  (if kid.isEmpty then [(asc "jwk", .raw (jwkEncode p))] else []) ++
  (if nonce.isEmpty then [] else [(asc "nonce", .str nonce)]) ++
  [(asc "url", .str url)]

inductive Payload
  | str (s : Bytes)       -- a Go string: inserted as it is
  | json (j : Bytes)      -- anything else: `json.Marshal` output, then base64url
deriving Repr

def payloadField : Payload → Bytes
  | .str s => s
  | .json j => b64Enc j

def signingInput (phead payload : Bytes) : Bytes := phead ++ [0x2e] ++ payload

/-! ## ECDSA: DER (r, s) → fixed-width R‖S, as written in `jwsSign` -/

/-- `size := BitSize/8; if size%8 > 0 { size++ }` — note: tests `size`, not `BitSize` -/
def sigSize (c : Curve) : Nat :=
  let size := c.bits / 8
  if size % 8 > 0 then size + 1 else size

/-- `copy(dst[off:], src)` on a list; caller guarantees `off ≤ dst.length` -/
def copyAt (dst : Bytes) (off : Nat) (src : Bytes) : Bytes :=
  dst.take off ++ (src.take (dst.length - off)) ++ dst.drop (off + min src.length (dst.length - off))

/-- `sig := make([]byte, size*2); copy(sig[size-len(rb):], rb); copy(sig[size*2-len(sb):], sb)`;
    none = the slice expression panics (negative start) -/
def rsFixed (size r s : Nat) : Option Bytes :=
  let rb := natBytes r
  let sb := natBytes s
  if rb.length > size then none
  else if sb.length > size * 2 then none
  else
    let sig := zeros (size * 2)
    let sig := copyAt sig (size - rb.length) rb
    some (copyAt sig (size * 2 - sb.length) sb)

/-- what the signer hands back -/
inductive SigScript
  | der (r s : Nat)       -- ECDSA: DER SEQUENCE { r, s } (non-negative)
  | raw (b : Bytes)       -- RSA: the signature bytes
  | fail                  -- Sign returns an error, or DER that does not parse
deriving Repr

inductive Out
  | ok (alg protectedJSON payload digest sig : Bytes)
  | err
  | panic
deriving Repr

/-- `jwsEncodeJSON`; `digest` is what the signer is asked to sign -/
def jwsEncode (p : Pub) (kid nonce url : Bytes) (pl : Payload) (sg : SigScript) : Out :=
  match jwsHasher p with
  | none => .err
  | some (alg, h) =>
    let hj := jsonObj (headerMembers alg p kid nonce url)
    let phead := b64Enc hj
    let payload := payloadField pl
    let digest := h.run (signingInput phead payload)
    match p, sg with
    | _, .fail => .err
    | .rsa _ _, .raw b => .ok alg hj payload digest b
    | .rsa _ _, .der _ _ => .err     -- not produced by the harness
    | .ec c _ _, .der r s =>
      match rsFixed (sigSize c) r s with
      | none => .panic
      | some sig => .ok alg hj payload digest sig
    | .ec _ _ _, .raw _ => .err      -- bytes that are not DER: asn1.Unmarshal fails

/-- `json.Marshal(&jsonWebSignature{…})`: the flattened JWS JSON serialization that is sent -/
def jwsJSON (phead payload sig : Bytes) : Bytes :=
  jsonObj [(asc "protected", .str phead), (asc "payload", .str payload), (asc "signature", .str (b64Enc sig))]

/-- the complete output of `jwsEncodeJSON` -/
def Out.json : Out → Option Bytes
  | .ok _ hj payload _ sig => some (jwsJSON (b64Enc hj) payload sig)
  | _ => none

/-! ## account key rollover (RFC 8555 §7.3.5, `accountKeyRollover`) -/

/-- `json.Marshal(struct{Account string; OldKey json.RawMessage})` -/
def rolloverPayload (kid : Bytes) (old : Pub) : Bytes :=
  jsonObj [(asc "account", .str kid), (asc "oldKey", .raw (jwkEncode old))]

/-- inner JWS: signed by the NEW key in JWK form, no nonce, `url` = keyChange -/
def rolloverInner (old new : Pub) (kid url : Bytes) (sg : SigScript) : Out :=
  jwsEncode new [] [] url (.json (rolloverPayload kid old)) sg

/-- the body POSTed to keyChange: outer JWS by the OLD (account) key in KID form whose payload is the
    base64url of the inner JWS JSON (a Go string, hence inserted as it is); none = an error, nothing sent -/
def rollover (old new : Pub) (kid nonce url : Bytes) (sgInner sgOuter : SigScript) : Option Bytes :=
  match (rolloverInner old new kid url sgInner).json with
  | none => none
  | some inner => (jwsEncode old kid nonce url (.str (b64Enc inner)) sgOuter).json

/-! ## HS256 (external account binding) -/

/-- `jwsWithMAC`: none = error (empty key); else (protected JSON, payload, signature bytes) -/
def jwsWithMAC (key kid url raw : Bytes) : Option (Bytes × Bytes × Bytes) :=
  if key.isEmpty then none else
  let hj := jsonObj ([(asc "alg", .str (asc "HS256")), (asc "kid", .str kid)] ++
                     (if url.isEmpty then [] else [(asc "url", .str url)]))
  let phead := b64Enc hj
  let payload := b64Enc raw
  some (hj, payload, XC.Prim.hmacSha256 key (signingInput phead payload))

/-- `encodeExternalAccountBinding`: HS256 over the account key's JWK, `url` = newAccount URL -/
def eab (acct : Pub) (regURL eabKID eabKey : Bytes) : Option (Bytes × Bytes × Bytes) :=
  jwsWithMAC eabKey eabKID regURL (jwkEncode acct)

/-! ## the request bodies of the signing methods of `acme.Client` -/

def natDigits (n : Nat) : Bytes := (toString n).toList.map fun c => UInt8.ofNat c.toNat

def jsonArr (items : List Bytes) : Bytes := [0x5b] ++ intercalateB [0x2c] items ++ [0x5d]

/-- what each public method signs (the `json.Marshal` of its request struct) -/
inductive ApiReq
  | register (tos : Bool) (contact : List Bytes) (eab : Option (Bytes × Bytes))   -- EAB: kid, MAC key
  | updateReg (contact : List Bytes)
  | getReg
  | deactivateReg
  | newOrder (ids : List (Bytes × Bytes)) (notBefore notAfter : Bytes)             -- RFC 3339 texts, "" = not given
  | postAsGet                                                                      -- GetOrder, WaitOrder, FetchCert, GetAuthorization, …
  | finalize (csr : Bytes)
  | revokeCert (cert : Bytes) (reason : Nat)
  | accept (payload : Bytes)                                                       -- Challenge.Payload, "" = none
  | revokeAuthz
  | authorize (typ val : Bytes)
deriving Repr

def identJSON (tv : Bytes × Bytes) : Bytes :=
  jsonObj [(asc "type", .str tv.1), (asc "value", .str tv.2)]

/-- request body; `regURL` and the account key matter for the external account binding only -/
def apiPayload (acct : Pub) (regURL : Bytes) : ApiReq → Option Payload
  | .register tos contact eab =>
    let eabM : Option (Option Members) := match eab with
      | none => some none
      | some (kid, key) =>
        match jwsWithMAC key kid regURL (jwkEncode acct) with
        | none => none                                     -- empty MAC key: Register fails before sending
        | some (hj, payload, sig) => some (some [(asc "externalAccountBinding", .raw (jwsJSON (b64Enc hj) payload sig))])
    eabM.map fun e =>
      .json (jsonObj ((if tos then [(asc "termsOfServiceAgreed", .raw (asc "true"))] else []) ++
                      (if contact.isEmpty then [] else [(asc "contact", .raw (jsonArr (contact.map jsonStr)))]) ++
                      (e.getD [])))
  | .updateReg contact =>
    some (.json (jsonObj (if contact.isEmpty then [] else [(asc "contact", .raw (jsonArr (contact.map jsonStr)))])))
  | .getReg => some (.json (asc "{\"onlyReturnExisting\":true}"))
  | .deactivateReg => some (.json (asc "{\"status\":\"deactivated\"}"))
  | .newOrder ids nb na =>
    some (.json (jsonObj ([(asc "identifiers", .raw (if ids.isEmpty then asc "null" else jsonArr (ids.map identJSON)))] ++
                          (if nb.isEmpty then [] else [(asc "notBefore", .str nb)]) ++
                          (if na.isEmpty then [] else [(asc "notAfter", .str na)]))))
  | .postAsGet => some (.str [])
  | .finalize csr => some (.json (jsonObj [(asc "csr", .str (b64Enc csr))]))
  | .revokeCert cert reason =>
    some (.json (jsonObj [(asc "certificate", .str (b64Enc cert)), (asc "reason", .raw (natDigits reason))]))
  | .accept payload => some (.json (if payload.isEmpty then asc "{}" else payload))
  | .revokeAuthz =>
    some (.json (jsonObj [(asc "resource", .str (asc "authz")), (asc "status", .str (asc "deactivated")),
                          (asc "delete", .raw (asc "true"))]))
  | .authorize typ val =>
    some (.json (jsonObj [(asc "resource", .str (asc "new-authz")), (asc "identifier", .raw (identJSON (typ, val)))]))

/-- signed in JWK form with an explicitly given key (the account key for the two account lookups, the
    certificate key for RevokeCert with a key); everything else in KID form with the account key -/
def apiJWKForm : ApiReq → Bool
  | .register .. | .getReg => true
  | _ => false

/-- the request one API call signs: `signer` = the key that signs (account key, or the certificate key
    for `RevokeCert(key ≠ nil)`), `explicitKey` = it was passed explicitly -/
def apiEncode (acct signer : Pub) (explicitKey : Bool) (kid nonce url regURL : Bytes) (r : ApiReq) (sg : SigScript) : Out :=
  match apiPayload acct regURL r with
  | none => .err
  | some pl => jwsEncode signer (if explicitKey || apiJWKForm r then [] else kid) nonce url pl sg

/-! ## key authorizations (challenge responses built on the thumbprint) -/

/-- `keyAuth` = `HTTP01ChallengeResponse`: token "." thumbprint -/
def keyAuth (p : Pub) (token : Bytes) : Bytes := token ++ [0x2e] ++ thumbprint p

/-- `DNS01ChallengeRecord` -/
def dns01Record (p : Pub) (token : Bytes) : Bytes := b64Enc (XC.Prim.sha256 (keyAuth p token))

/-- the value of the id-pe-acmeIdentifier extension of `TLSALPN01ChallengeCert`: SHA-256 of the key
    authorization (wrapped as a DER OCTET STRING by encoding/asn1) -/
def alpnDigest (p : Pub) (token : Bytes) : Bytes := XC.Prim.sha256 (keyAuth p token)

end XC.C49
