/-
  Public key wire formats (ssh/keys.go): parsePubKey for the eight plain key algorithms,
  parseRSA / parseDSA / parseECDSA / parseSKECDSA / parseED25519 / parseSKEd25519 and the matching
  Marshal methods.  Elliptic-curve point validation (`elliptic.Unmarshal`: length, leading 4,
  coordinates < p, on curve) is stdlib code: it is the oracle `validPt curveBits bytes`.
  A parsed point is represented by its (uncompressed, fixed-width) encoding, which is what
  `elliptic.Marshal` writes back.
-/
import XC.Model.C38_Wire
namespace XC.C38
open XC

inductive PubKey where
  | rsa (e n : Int)
  | dsa (p q g y : Int)
  | ecdsa (bits : Nat) (pt : Bytes)          -- bits ∈ {256, 384, 521}
  | skecdsa (pt app : Bytes)
  | ed25519 (k : Bytes)
  | sked25519 (k app : Bytes)
deriving DecidableEq, Repr

/-- stdlib oracle: `elliptic.Unmarshal(curve, bytes)` succeeds -/
abbrev PtOracle := Nat → Bytes → Bool

def curveName : Nat → Bytes
  | 256 => nm "nistp256"
  | 384 => nm "nistp384"
  | 521 => nm "nistp521"
  | _ => []

def curveOfName (c : Bytes) : Option Nat :=
  if c = nm "nistp256" then some 256
  else if c = nm "nistp384" then some 384
  else if c = nm "nistp521" then some 521
  else none

def algoRSA := nm "ssh-rsa"
def algoDSA := nm "ssh-dss"
def algoECDSA256 := nm "ecdsa-sha2-nistp256"
def algoECDSA384 := nm "ecdsa-sha2-nistp384"
def algoECDSA521 := nm "ecdsa-sha2-nistp521"
def algoSKECDSA := nm "sk-ecdsa-sha2-nistp256@openssh.com"
def algoED25519 := nm "ssh-ed25519"
def algoSKED25519 := nm "sk-ssh-ed25519@openssh.com"
def algoRSASHA256 := nm "rsa-sha2-256"
def algoRSASHA512 := nm "rsa-sha2-512"

/-- `PublicKey.Type()` -/
def PubKey.type : PubKey → Bytes
  | .rsa .. => algoRSA
  | .dsa .. => algoDSA
  | .ecdsa bits _ => nm "ecdsa-sha2-" ++ curveName bits
  | .skecdsa .. => algoSKECDSA
  | .ed25519 .. => algoED25519
  | .sked25519 .. => algoSKED25519

/-- parseRSA: E, N mpints, rest; N.BitLen ≤ 16384, E.BitLen ≤ 24, e ≥ 3, e odd -/
def parseRSA (b : Bytes) : Option (PubKey × Bytes) :=
  match parseMpint b with
  | none => none
  | some (e, r) =>
    match parseMpint r with
    | none => none
    | some (n, r') =>
      if bitLen n > 16384 then none
      else if bitLen e > 24 then none
      else if e < 3 ∨ e % 2 = 0 then none
      else some (.rsa e n, r')

/-- parseDSA: P, Q, G, Y; |P| = 1024 bits, |Q| = 160 bits, 0 < G < P, 0 < Y < P -/
def parseDSA (b : Bytes) : Option (PubKey × Bytes) :=
  match parseMpint b with
  | none => none
  | some (p, r1) =>
  match parseMpint r1 with
  | none => none
  | some (q, r2) =>
  match parseMpint r2 with
  | none => none
  | some (g, r3) =>
  match parseMpint r3 with
  | none => none
  | some (y, r4) =>
    if bitLen p ≠ 1024 then none
    else if bitLen q ≠ 160 then none
    else if g ≥ p then none
    else if g ≤ 0 then none
    else if y ≤ 0 ∨ y ≥ p then none
    else some (.dsa p q g y, r4)

/-- parseECDSA: curve id must match the algorithm name; point validity is the oracle -/
def parseECDSA (o : PtOracle) (expected : Bytes) (b : Bytes) : Option (PubKey × Bytes) :=
  match parseString b with
  | none => none
  | some (curve, r) =>
    match parseString r with
    | none => none
    | some (kb, r') =>
      if expected ≠ nm "ecdsa-sha2-" ++ curve then none else
      match curveOfName curve with
      | none => none
      | some bits => if o bits kb then some (.ecdsa bits kb, r') else none

def parseSKECDSA (o : PtOracle) (b : Bytes) : Option (PubKey × Bytes) :=
  match parseString b with
  | none => none
  | some (curve, r) =>
    match parseString r with
    | none => none
    | some (kb, r1) =>
      match parseString r1 with
      | none => none
      | some (app, r2) =>
        if curve ≠ nm "nistp256" then none
        else if o 256 kb then some (.skecdsa kb app, r2) else none

def parseED25519 (b : Bytes) : Option (PubKey × Bytes) :=
  match parseString b with
  | none => none
  | some (kb, r) => if kb.length ≠ 32 then none else some (.ed25519 kb, r)

def parseSKEd25519 (b : Bytes) : Option (PubKey × Bytes) :=
  match parseString b with
  | none => none
  | some (kb, r) =>
    match parseString r with
    | none => none
    | some (app, r') => if kb.length ≠ 32 then none else some (.sked25519 kb app, r')

/-- the plain-key arms of `parsePubKey` (certificate arms are in the C41 model) -/
def parsePlain (o : PtOracle) (algo : Bytes) (b : Bytes) : Option (PubKey × Bytes) :=
  if algo = algoRSA then parseRSA b
  else if algo = algoDSA then parseDSA b
  else if algo = algoECDSA256 ∨ algo = algoECDSA384 ∨ algo = algoECDSA521 then parseECDSA o algo b
  else if algo = algoSKECDSA then parseSKECDSA o b
  else if algo = algoED25519 then parseED25519 b
  else if algo = algoSKED25519 then parseSKEd25519 b
  else none

/-- key body: `Marshal()` without the leading type-name string -/
def PubKey.body : PubKey → Bytes
  | .rsa e n => putMpint e ++ putMpint n
  | .dsa p q g y => putMpint p ++ putMpint q ++ putMpint g ++ putMpint y
  | .ecdsa bits pt => putString (curveName bits) ++ putString pt
  | .skecdsa pt app => putString (nm "nistp256") ++ putString pt ++ putString app
  | .ed25519 k => putString k
  | .sked25519 k app => putString k ++ putString app

/-- `PublicKey.Marshal()` -/
def PubKey.marshal (k : PubKey) : Bytes := putString k.type ++ k.body

/-- `ParsePublicKey` restricted to plain keys: type name, body, no trailing bytes -/
def parsePlainKey (o : PtOracle) (b : Bytes) : Option PubKey :=
  match parseString b with
  | none => none
  | some (algo, r) =>
    match parsePlain o algo r with
    | none => none
    | some (k, rest) => if rest.isEmpty then some k else none

end XC.C38
