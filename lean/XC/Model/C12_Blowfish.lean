/-
  C12 / Blowfish — blowfish/cipher.go + block.go as written.
  The cipher state (`p [18]uint32`, `s0..s3 [256]uint32`) is ONE `Array UInt32` of 1042 words
  (`p` at 0..17, `s0` at 18.., `s1` at 274.., `s2` at 530.., `s3` at 786..): the key schedule
  overwrites `p, s0, s1, s2, s3` in exactly that order, two words per block encryption, so the five
  Go loops are one loop over pair index 0..520.
-/
import XC.Model.C12_Util
import XC.Model.C12_Tables_Blowfish
namespace XC.C12.Blowfish

abbrev Box := Array UInt32

/-- `initCipher`: the pi digits -/
def initBox : Box := p0 ++ sInit0 ++ sInit1 ++ sInit2 ++ sInit3

/-- `((s0[byte(x>>24)] + s1[byte(x>>16)]) ^ s2[byte(x>>8)]) + s3[byte(x)]` -/
@[inline] def F (c : Box) (x : UInt32) : UInt32 :=
  ((c[18 + (x >>> 24).toNat]! + c[274 + ((x >>> 16) &&& 255).toNat]!) ^^^ c[530 + ((x >>> 8) &&& 255).toNat]!)
    + c[786 + (x &&& 255).toNat]!

/-- `encryptBlock`, the 18 lines as written (Go: `+` and `^` have the same precedence, left-assoc,
    so `… + s3[…] ^ p[i]` is `(… + s3[…]) ^ p[i]`). -/
def encryptBlock (c : Box) (l r : UInt32) : UInt32 × UInt32 :=
  let xl := l ^^^ c[0]!
  let xr := r ^^^ (F c xl ^^^ c[1]!)
  let xl := xl ^^^ (F c xr ^^^ c[2]!)
  let xr := xr ^^^ (F c xl ^^^ c[3]!)
  let xl := xl ^^^ (F c xr ^^^ c[4]!)
  let xr := xr ^^^ (F c xl ^^^ c[5]!)
  let xl := xl ^^^ (F c xr ^^^ c[6]!)
  let xr := xr ^^^ (F c xl ^^^ c[7]!)
  let xl := xl ^^^ (F c xr ^^^ c[8]!)
  let xr := xr ^^^ (F c xl ^^^ c[9]!)
  let xl := xl ^^^ (F c xr ^^^ c[10]!)
  let xr := xr ^^^ (F c xl ^^^ c[11]!)
  let xl := xl ^^^ (F c xr ^^^ c[12]!)
  let xr := xr ^^^ (F c xl ^^^ c[13]!)
  let xl := xl ^^^ (F c xr ^^^ c[14]!)
  let xr := xr ^^^ (F c xl ^^^ c[15]!)
  let xl := xl ^^^ (F c xr ^^^ c[16]!)
  let xr := xr ^^^ c[17]!
  (xr, xl)

def decryptBlock (c : Box) (l r : UInt32) : UInt32 × UInt32 :=
  let xl := l ^^^ c[17]!
  let xr := r ^^^ (F c xl ^^^ c[16]!)
  let xl := xl ^^^ (F c xr ^^^ c[15]!)
  let xr := xr ^^^ (F c xl ^^^ c[14]!)
  let xl := xl ^^^ (F c xr ^^^ c[13]!)
  let xr := xr ^^^ (F c xl ^^^ c[12]!)
  let xl := xl ^^^ (F c xr ^^^ c[11]!)
  let xr := xr ^^^ (F c xl ^^^ c[10]!)
  let xl := xl ^^^ (F c xr ^^^ c[9]!)
  let xr := xr ^^^ (F c xl ^^^ c[8]!)
  let xl := xl ^^^ (F c xr ^^^ c[7]!)
  let xr := xr ^^^ (F c xl ^^^ c[6]!)
  let xl := xl ^^^ (F c xr ^^^ c[5]!)
  let xr := xr ^^^ (F c xl ^^^ c[4]!)
  let xl := xl ^^^ (F c xr ^^^ c[3]!)
  let xr := xr ^^^ (F c xl ^^^ c[2]!)
  let xl := xl ^^^ (F c xr ^^^ c[1]!)
  let xr := xr ^^^ c[0]!
  (xr, xl)

/-! ### spec shape: a 16-round Feistel network over a list of round keys -/

/-- one Feistel round with round function `f` and round key `k`: `(x, y) ↦ (y ^ f x ^ k, x)` -/
def round (f : UInt32 → UInt32) (s : UInt32 × UInt32) (k : UInt32) : UInt32 × UInt32 :=
  (s.2 ^^^ (f s.1 ^^^ k), s.1)

/-- whiten with `pre`, run the rounds, whiten the other half with `post`, swap -/
def feistel (f : UInt32 → UInt32) (pre : UInt32) (mid : List UInt32) (post : UInt32) (l r : UInt32) : UInt32 × UInt32 :=
  let s := mid.foldl (round f) (l ^^^ pre, r)
  (s.2 ^^^ post, s.1)

def pMid (c : Box) : List UInt32 := (List.range 16).map (fun i => c[i+1]!)

def encryptSpec (c : Box) (l r : UInt32) := feistel (F c) c[0]! (pMid c) c[17]! l r
def decryptSpec (c : Box) (l r : UInt32) := feistel (F c) c[17]! (pMid c).reverse c[0]! l r

/-! ### key schedule -/

/-- `c.p[i] ^= next key word` for i = 0..17 (both `ExpandKey`'s inlined loop and `getNextWord`) -/
def xorKey (key : Array UInt8) (c : Box) : Box :=
  ((List.range 18).foldl (fun (st : Box × Nat) i =>
      let (w, j) := nextWord key st.2
      (st.1.set! i (st.1[i]! ^^^ w), j)) (c, 0)).1

/-- `ExpandKey` after the P-array xor: 521 chained encryptions of (l, r), each result stored -/
def fill (c : Box) : Box :=
  ((List.range 521).foldl (fun (st : Box × UInt32 × UInt32) i =>
      let (l, r) := encryptBlock st.1 st.2.1 st.2.2
      ((st.1.set! (2*i) l).set! (2*i+1) r, l, r)) (c, 0, 0)).1

/-- `expandKeyWithSalt` after the P-array xor: the same, xoring two cyclic salt words first -/
def fillSalt (salt : Array UInt8) (c : Box) : Box :=
  ((List.range 521).foldl (fun (st : Box × UInt32 × UInt32 × Nat) i =>
      let (w1, j) := nextWord salt st.2.2.2
      let (w2, j) := nextWord salt j
      let (l, r) := encryptBlock st.1 (st.2.1 ^^^ w1) (st.2.2.1 ^^^ w2)
      ((st.1.set! (2*i) l).set! (2*i+1) r, l, r, j)) (c, 0, 0, 0)).1

/-- `ExpandKey(key, c)`; Go panics on an empty key (index out of range) -/
def expandKey (key : Array UInt8) (c : Box) : Box := fill (xorKey key c)
def expandKeyWithSalt (key salt : Array UInt8) (c : Box) : Box := fillSalt salt (xorKey key c)

/-! ### spec shape of the key schedule (Schneier): xor the P-array with the key repeated cyclically,
    then replace P and the four S-boxes, two words at a time, by successive encryptions of the running
    block (starting from the all-zero block), xoring the cyclic salt stream into the block first in
    the salted (bcrypt "eksblowfish") variant -/

def xorKeySpec (key : Array UInt8) (c : Box) : Box :=
  (List.range 18).foldl (fun c i => c.set! i (c[i]! ^^^ streamWord key i)) c

/-- step `i`: encrypt the running block (xored with stream words 2i, 2i+1), store it at words 2i, 2i+1 -/
def specStep (w : Nat → UInt32) (st : Box × UInt32 × UInt32) (i : Nat) : Box × UInt32 × UInt32 :=
  let (l, r) := encryptBlock st.1 (st.2.1 ^^^ w (2*i)) (st.2.2 ^^^ w (2*i+1))
  ((st.1.set! (2*i) l).set! (2*i+1) r, l, r)

def fillSpec (w : Nat → UInt32) (c : Box) : Box := ((List.range 521).foldl (specStep w) (c, 0, 0)).1

def expandKeySpec (key : Array UInt8) (c : Box) : Box := fillSpec (fun _ => 0) (xorKeySpec key c)
def expandKeyWithSaltSpec (key salt : Array UInt8) (c : Box) : Box := fillSpec (streamWord salt) (xorKeySpec key c)

/-- `NewCipher`: 1 ≤ len(key) ≤ 56 -/
def newCipher (key : Bytes) : Option Box :=
  if key.length < 1 || key.length > 56 then none else some (expandKey key.toArray initBox)

/-- `NewSaltedCipher`: empty salt → `NewCipher`; else only `len(key) ≥ 1` is required -/
def newSaltedCipher (key salt : Bytes) : Option Box :=
  if salt.length == 0 then newCipher key
  else if key.length < 1 then none
  else some (expandKeyWithSalt key.toArray salt.toArray initBox)

def encrypt (c : Box) (src : Bytes) : Bytes :=
  let (l, r) := split8 src
  join8 (encryptBlock c l r)
def decrypt (c : Box) (src : Bytes) : Bytes :=
  let (l, r) := split8 src
  join8 (decryptBlock c l r)

end XC.C12.Blowfish
