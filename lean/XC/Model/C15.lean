/-
  C15 — Argon2i / Argon2id (argon2/argon2.go, argon2/blake2b.go, argon2/blamka_generic.go), version 0x13.
  The model follows deriveKey: initHash (H0 over the *requested* memory value), memory rounding,
  initBlocks, processBlocks (segments; lanes of a slice run one after the other here, in goroutines in Go),
  indexAlpha / phi in the code's uint32 / uint64 arithmetic, processBlock(XOR) = BLAMKA rows then columns,
  extractKey, blake2bHash = the variable-length hash H′.  BLAKE2b is the C05 digest.
-/
import XC.Model.C05
namespace XC.C15
open XC.C05

/-! ## H′ (argon2/blake2b.go) -/

def le32 (n : Nat) : Bytes := natToLE 4 n

/-- `blake2b.New(n, nil)` / `New512(nil)`, Write, Sum, Reset — as the Go code drives them.
    `none` = `blake2b.New(0, nil)` failed, the nil hash is dereferenced (panic). -/
def blake2bHashGo (outLen : Nat) (inp : Bytes) : Option Bytes :=
  match newDigest B (if outLen < 64 then outLen else 64) [] with
  | none => none
  | some b2 =>
    let b2 := (b2.write (le32 outLen)).write inp
    if outLen ≤ 64 then some b2.sum
    else
      let buffer := b2.sum
      let b2 := b2.reset
      let rec loop (fuel : Nat) (b2 : Digest B) (buffer : Bytes) (out : Bytes) (remaining : Nat) :
          Digest B × Bytes × Bytes × Nat :=
        match fuel with
        | 0 => (b2, buffer, out, remaining)
        | fuel+1 =>
          if remaining > 64 then
            let b2 := b2.write buffer
            let buffer := b2.sum
            loop fuel b2.reset buffer (out ++ buffer.take 32) (remaining - 32)
          else (b2, buffer, out, remaining)
      let (b2, buffer, out, _) := loop outLen b2 buffer (buffer.take 32) (outLen - 32)
      let b2? : Option (Digest B) :=
        if outLen % 64 > 0 then
          let r := (outLen + 31) / 32 - 2
          newDigest B (outLen - 32 * r) []
        else some b2
      match b2? with
      | none => none
      | some b2 => some (out ++ (b2.write buffer).sum)

/-- RFC 9106 §3.3: variable-length hash H′^T(A) over H = BLAKE2b -/
def hPrimeTail (r : Nat) (T : Nat) : Nat → Bytes → Bytes
  | 0, v => blake2Spec B (T - 32 * r) [] v                        -- V_{r+1} = H^(T-32r)(V_r)
  | k+1, v =>
    let v' := blake2Spec B 64 [] v                                -- V_{i+1} = H^64(V_i)
    v'.take 32 ++ hPrimeTail r T k v'

def hPrime (T : Nat) (a : Bytes) : Bytes :=
  if T ≤ 64 then blake2Spec B T [] (le32 T ++ a)
  else
    let r := (T + 31) / 32 - 2
    let v1 := blake2Spec B 64 [] (le32 T ++ a)
    v1.take 32 ++ hPrimeTail r T (r - 1) v1

/-! ## BLAMKA and the block function (blamka_generic.go) -/

abbrev Block := Array UInt64

@[inline] def lo32 (x : UInt64) : UInt64 := x &&& 0xFFFFFFFF
@[inline] def rotr (x : UInt64) (n : UInt64) : UInt64 := (x >>> n) ||| (x <<< (64 - n))

/-- `a += b + 2*uint64(uint32(a))*uint64(uint32(b))` -/
@[inline] def fBlaMka (a b : UInt64) : UInt64 := a + (b + 2 * lo32 a * lo32 b)

@[inline] def gB (a b c d : UInt64) : UInt64 × UInt64 × UInt64 × UInt64 :=
  let a := fBlaMka a b
  let d := rotr (d ^^^ a) 32
  let c := fBlaMka c d
  let b := rotr (b ^^^ c) 24
  let a := fBlaMka a b
  let d := rotr (d ^^^ a) 16
  let c := fBlaMka c d
  let b := rotr (b ^^^ c) 63
  (a, b, c, d)

/-- `blamkaGeneric` on the 16 words at the given indices of `t` -/
def blamka (t : Block) (i0 i1 i2 i3 i4 i5 i6 i7 i8 i9 i10 i11 i12 i13 i14 i15 : Nat) : Block :=
  let g := fun i => t.getD i 0
  let (v0, v4, v8, v12) := gB (g i0) (g i4) (g i8) (g i12)
  let (v1, v5, v9, v13) := gB (g i1) (g i5) (g i9) (g i13)
  let (v2, v6, v10, v14) := gB (g i2) (g i6) (g i10) (g i14)
  let (v3, v7, v11, v15) := gB (g i3) (g i7) (g i11) (g i15)
  let (v0, v5, v10, v15) := gB v0 v5 v10 v15
  let (v1, v6, v11, v12) := gB v1 v6 v11 v12
  let (v2, v7, v8, v13) := gB v2 v7 v8 v13
  let (v3, v4, v9, v14) := gB v3 v4 v9 v14
  ((((((((((((((((t.setIfInBounds i0 v0).setIfInBounds i1 v1).setIfInBounds i2 v2).setIfInBounds i3 v3).setIfInBounds i4 v4).setIfInBounds i5 v5).setIfInBounds i6 v6).setIfInBounds i7 v7).setIfInBounds i8 v8).setIfInBounds i9 v9).setIfInBounds i10 v10).setIfInBounds i11 v11).setIfInBounds i12 v12).setIfInBounds i13 v13).setIfInBounds i14 v14).setIfInBounds i15 v15)

def zeroBlock : Block := Array.replicate 128 0

def xorBlock (a b : Block) : Block := (Array.range 128).map fun i => a.getD i 0 ^^^ b.getD i 0

/-- the permutation P of processBlockGeneric: eight rows of 16 words, then eight columns of 2×8 words -/
def permute (t : Block) : Block :=
  let t := (List.range 8).foldl (fun t k =>
    let i := 16 * k
    blamka t i (i+1) (i+2) (i+3) (i+4) (i+5) (i+6) (i+7) (i+8) (i+9) (i+10) (i+11) (i+12) (i+13) (i+14) (i+15)) t
  (List.range 8).foldl (fun t k =>
    let i := 2 * k
    blamka t i (i+1) (16+i) (16+i+1) (32+i) (32+i+1) (48+i) (48+i+1) (64+i) (64+i+1) (80+i) (80+i+1)
      (96+i) (96+i+1) (112+i) (112+i+1)) t

/-- `processBlock(out, in1, in2)`: out = R ⊕ P(R), R = in1 ⊕ in2 -/
def processBlock (in1 in2 : Block) : Block :=
  let r := xorBlock in1 in2
  xorBlock r (permute r)

/-- `processBlockXOR(out, in1, in2)`: out ⊕= R ⊕ P(R) -/
def processBlockXOR (out in1 in2 : Block) : Block := xorBlock out (processBlock in1 in2)

/-! ## indexing (argon2.go: indexAlpha, phi) in the code's machine arithmetic -/

def syncPoints : UInt32 := 4

/-- `phi(rand, m, s, lane, lanes)` -/
def phi (rand m s : UInt64) (lane lanes : UInt32) : UInt32 :=
  let p := rand &&& 0xFFFFFFFF
  let p := (p * p) >>> 32
  let p := (p * m) >>> 32
  lane * lanes + ((s + m - (p + 1)) % lanes.toUInt64).toUInt32

/-- the reference lane: `uint32(rand>>32) % threads`, the own lane in the first slice of the first pass -/
def refLaneOf (rand : UInt64) (threads n slice lane : UInt32) : UInt32 :=
  if n == 0 && slice == 0 then lane else (rand >>> 32).toUInt32 % threads

/-- the `m, s` of indexAlpha: size of the reference area and its start position in the lane -/
def areaSize (segments n slice index : UInt32) (same : Bool) : UInt32 × UInt32 :=
  let m := 3 * segments
  let s := ((slice + 1) % syncPoints) * segments
  let m := if same then m + index else m
  let ms : UInt32 × UInt32 :=
    if n == 0 then
      let m := slice * segments
      let m := if slice == 0 || same then m + index else m
      (m, (0 : UInt32))
    else (m, s)
  let m := if index == 0 || same then ms.1 - 1 else ms.1
  (m, ms.2)

/-- `indexAlpha(rand, lanes, segments, threads, n, slice, lane, index)` -/
def indexAlpha (rand : UInt64) (lanes segments threads n slice lane index : UInt32) : UInt32 :=
  let refLane := refLaneOf rand threads n slice lane
  let ms := areaSize segments n slice index (lane == refLane)
  phi rand ms.1.toUInt64 ms.2.toUInt64 refLane lanes

/-! ## deriveKey -/

def blockOfBytes (b : Bytes) : Block := (Array.range 128).map fun i => leU64 8 (b.drop (8 * i))
def bytesOfBlock (b : Block) : Bytes := (List.range 128).flatMap fun i => u64toLE 8 (b.getD i 0)

/-- `initHash`: H0 as the Go code feeds it to one BLAKE2b-512 (ten Writes) -/
def initHashChunks (password salt key data : Bytes) (time memory threads keyLen mode : Nat) : List Bytes :=
  [le32 threads ++ le32 keyLen ++ le32 memory ++ le32 time ++ le32 0x13 ++ le32 mode,
   le32 password.length, password, le32 salt.length, salt, le32 key.length, key, le32 data.length, data]

def initHash (password salt key data : Bytes) (time memory threads keyLen mode : Nat) : Option Bytes :=
  (newDigest B 64 []).map fun d =>
    ((initHashChunks password salt key data time memory threads keyLen mode).foldl Digest.write d).sum

/-- memory rounding: `memory / (4p) * (4p)`, at least `8p` (uint32 arithmetic; no overflow: 4p ≤ 1020) -/
def roundMemory (memory threads : Nat) : Nat :=
  let m := memory / (4 * threads) * (4 * threads)
  if m < 8 * threads then 8 * threads else m

/-- the same computation at the code's widths: `memory uint32`, `threads uint8` widened with `uint32(threads)`
    *before* the multiplication (`syncPoints * uint32(threads)`; a product taken in uint8 would wrap for
    threads ≥ 64) -/
def roundMemoryGo (memory : UInt32) (threads : UInt8) : UInt32 :=
  let p := threads.toUInt32
  let m := memory / (4 * p) * (4 * p)
  if m < 2 * 4 * p then 2 * 4 * p else m

structure Ctx where
  mode : Nat         -- 1 = argon2i, 2 = argon2id
  time : UInt32
  memory : UInt32    -- m′
  threads : UInt32
  lanes : UInt32     -- lane length q = m′ / p
  segments : UInt32  -- q / 4

abbrev Mem := Array Block

def initBlocks (h0 : Bytes) (c : Ctx) : Option Mem :=
  (List.range c.threads.toNat).foldlM (fun (b : Mem) lane => do
    let j := lane * c.lanes.toNat
    let b0 ← blake2bHashGo 1024 (h0 ++ le32 0 ++ le32 lane)
    let b1 ← blake2bHashGo 1024 (h0 ++ le32 1 ++ le32 lane)
    pure ((b.setIfInBounds j (blockOfBytes b0)).setIfInBounds (j+1) (blockOfBytes b1)))
    (Array.replicate c.memory.toNat zeroBlock)

/-- data-independent addressing applies? (`mode == argon2i || (mode == argon2id && n == 0 && slice < 2)`) -/
def dataIndep (c : Ctx) (n slice : UInt32) : Bool :=
  c.mode == 1 || (c.mode == 2 && n == 0 && slice < 2)

/-- next address block: `in[6]++; processBlock(&addresses,&in,&zero); processBlock(&addresses,&addresses,&zero)` -/
def nextAddresses (inp : Block) : Block × Block :=
  let inp := inp.setIfInBounds 6 (inp.getD 6 0 + 1)
  let a := processBlock inp zeroBlock
  (inp, processBlock a zeroBlock)

/-- the `for index < segments` loop of processSegment -/
def segmentLoop (c : Ctx) (n slice lane : UInt32) :
    Nat → UInt32 → UInt32 → Block → Block → Mem → Mem
  | 0, _, _, _, _, b => b
  | fuel+1, index, offset, inp, addresses, b =>
    if index < c.segments then
      let prev := offset - 1
      let prev := if index == 0 && slice == 0 then prev + c.lanes else prev
      let (inp, addresses, random) :=
        if dataIndep c n slice then
          let (inp, addresses) :=
            if index % 128 == 0 then nextAddresses inp else (inp, addresses)
          (inp, addresses, addresses.getD (index % 128).toNat 0)
        else (inp, addresses, (b.getD prev.toNat zeroBlock).getD 0 0)
      let newOffset := indexAlpha random c.lanes c.segments c.threads n slice lane index
      let blk := processBlockXOR (b.getD offset.toNat zeroBlock) (b.getD prev.toNat zeroBlock)
                   (b.getD newOffset.toNat zeroBlock)
      segmentLoop c n slice lane fuel (index + 1) (offset + 1) inp addresses (b.setIfInBounds offset.toNat blk)
    else b

def processSegment (c : Ctx) (n slice lane : UInt32) (b : Mem) : Mem :=
  let inp : Block :=
    if dataIndep c n slice then
      (((((zeroBlock.setIfInBounds 0 n.toUInt64).setIfInBounds 1 lane.toUInt64).setIfInBounds 2 slice.toUInt64).setIfInBounds 3
        c.memory.toUInt64).setIfInBounds 4 c.time.toUInt64).setIfInBounds 5 (UInt64.ofNat c.mode)
    else zeroBlock
  let first := n == 0 && slice == 0
  let index : UInt32 := if first then 2 else 0
  let (inp, addresses) :=
    if first && (c.mode == 1 || c.mode == 2) then nextAddresses inp else (inp, zeroBlock)
  let offset := lane * c.lanes + slice * c.segments + index
  segmentLoop c n slice lane c.segments.toNat index offset inp addresses b

def processBlocks (c : Ctx) (b : Mem) : Mem :=
  (List.range c.time.toNat).foldl (fun b n =>
    (List.range 4).foldl (fun b slice =>
      (List.range c.threads.toNat).foldl (fun b lane =>
        processSegment c (UInt32.ofNat n) (UInt32.ofNat slice) (UInt32.ofNat lane) b) b) b) b

def extractKey (c : Ctx) (b : Mem) (keyLen : Nat) : Option Bytes :=
  let last := c.memory.toNat - 1
  let acc := (List.range (c.threads.toNat - 1)).foldl (fun acc lane =>
    xorBlock acc (b.getD (lane * c.lanes.toNat + c.lanes.toNat - 1) zeroBlock)) (b.getD last zeroBlock)
  blake2bHashGo keyLen (bytesOfBlock acc)

inductive Out where
  | key (k : Bytes)
  | panic
deriving DecidableEq, Repr

/-- `deriveKey(mode, password, salt, secret, data, time, memory, threads, keyLen)`;
    `time`, `memory`, `keyLen` are uint32, `threads` uint8 -/
def deriveKey (mode : Nat) (password salt secret data : Bytes) (time memory threads keyLen : Nat) : Out :=
  if time < 1 then .panic
  else if threads < 1 then .panic
  else
    match initHash password salt secret data time memory threads keyLen mode with
    | none => .panic
    | some h0 =>
      let m := (roundMemoryGo (UInt32.ofNat memory) (UInt8.ofNat threads)).toNat
      let c : Ctx := { mode := mode, time := UInt32.ofNat time, memory := UInt32.ofNat m,
                       threads := UInt32.ofNat threads, lanes := UInt32.ofNat (m / threads),
                       segments := UInt32.ofNat (m / threads / 4) }
      match initBlocks h0 c with
      | none => .panic
      | some b =>
        let b := processBlocks c b
        match extractKey c b keyLen with
        | none => .panic       -- keyLen = 0: blake2b.New(0, nil) fails, the nil hash.Hash is used
        | some k => .key k

end XC.C15
