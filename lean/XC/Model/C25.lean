/-
  C25 / C26 — the SSH binary packet layer (ssh/cipher.go, ssh/transport.go connectionState):
  writers and readers of streamPacketCipher (encrypt-and-MAC and EtM, also the `none` cipher),
  gcmCipher, cbcCipher, chacha20Poly1305Cipher, and the per-direction sequence number.

  The model is parametrised by ABSTRACT primitives (keystream byte function, block cipher pair, MAC,
  AEAD seal/open, ChaCha20 keystream, Poly1305): the theorems in Props/C25, Props/C26 quantify over
  them with the algebraic facts they need as hypotheses.  The driver instantiates them with the
  executable stand-ins of Model/C25_{Aes,Des,Prims}.

  Writers are written in the shape of the Go code (several XORKeyStream calls on pieces, MAC fed in
  pieces); `Props/C25` proves them equal to the one-line RFC descriptions.
  Readers are total functions: bytes in, `RRes` out (payload or error class, unread rest, new state).
-/
import XC.Basic
namespace XC.C25

def maxPacket : Nat := 262144

/-- reader error classes -/
inductive RErr where
  | eof    -- io.ReadFull failed: the stream ends inside the packet
  | len    -- a length check failed (too small / too large / not a block multiple / CBC padding-length)
  | mac    -- MAC or AEAD tag mismatch
  | pad    -- AEAD modes after a valid tag: empty packet, padding < 4, padding too large
deriving DecidableEq, Repr

/-- writer error classes -/
inductive WErr where
  | large  -- streamPacketCipher refuses payloads above maxPacket
  | rand   -- the random source ran dry (io.ReadFull(rand, padding) failed)
deriving DecidableEq, Repr

/-- per-direction cipher state: keystream position (stream modes) and IV
    (GCM: the 12-byte nonce; CBC: the chaining value = last ciphertext block) -/
structure St where
  pos : Nat
  iv : Bytes
deriving DecidableEq, Repr

/-- result of one readCipherPacket: outcome, bytes left unread in the stream, state afterwards -/
structure RRes where
  res : Except RErr Bytes
  rest : Bytes
  st : St

/-! ## keystream application -/

def ksRange (ks : Nat → UInt8) (pos n : Nat) : Bytes := (List.range' pos n).map ks

/-- XORKeyStream of a cipher.Stream whose state is "position `pos` in the keystream" -/
def xorAt (ks : Nat → UInt8) (pos : Nat) (d : Bytes) : Bytes := xorBytes d (ksRange ks pos d.length)

/-! ## streamPacketCipher -/

structure StreamCfg where
  ks : Nat → UInt8
  mac : Option (Bytes → Bytes)    -- `none`: no MAC (the cipher before the first key exchange)
  macLen : Nat
  etm : Bool

def StreamCfg.etmOn (c : StreamCfg) : Bool := c.mac.isSome && c.etm
def StreamCfg.macSize (c : StreamCfg) : Nat := if c.mac.isSome then c.macLen else 0
/-- `s.mac.Sum` over the bytes written into it — nothing when there is no MAC -/
def StreamCfg.tag (c : StreamCfg) (x : Bytes) : Bytes := match c.mac with | some m => m x | none => []

/-- `paddingLength` of streamPacketCipher.writeCipherPacket (packetSizeMultiple = 16, prefixLen = 5) -/
def streamPadLen (n aadlen : Nat) : Nat :=
  let p := 16 - (5 + n - aadlen) % 16
  if p < 4 then p + 16 else p

/-- streamPacketCipher.writeCipherPacket, in the order of the Go code -/
def streamWrite (c : StreamCfg) (st : St) (seq : UInt32) (payload rnd : Bytes) :
    Except WErr (Bytes × St × Bytes) :=
  if payload.length > maxPacket then .error .large else
  let aadlen := if c.etmOn then 4 else 0
  let padLen := streamPadLen payload.length aadlen
  if rnd.length < padLen then .error .rand else
  let padding := rnd.take padLen
  let length := payload.length + 1 + padLen
  let lenBytes := u32be (UInt32.ofNat length)
  let padByte : Bytes := [UInt8.ofNat padLen]
  if c.etmOn then
    -- the length stays in clear; the padding-length byte is encrypted first
    let p4 := xorAt c.ks st.pos padByte
    let encPayload := xorAt c.ks (st.pos + 1) payload
    let encPadding := xorAt c.ks (st.pos + 1 + payload.length) padding
    let macInput := u32be seq ++ (lenBytes ++ p4) ++ encPayload ++ encPadding
    let tag := c.tag macInput
    .ok (lenBytes ++ p4 ++ encPayload ++ encPadding ++ tag,
         ⟨st.pos + 1 + payload.length + padLen, st.iv⟩, rnd.drop padLen)
  else
    let macInput := u32be seq ++ (lenBytes ++ padByte) ++ payload ++ padding
    let tag := c.tag macInput
    let encPrefix := xorAt c.ks st.pos (lenBytes ++ padByte)
    let encPayload := xorAt c.ks (st.pos + 5) payload
    let encPadding := xorAt c.ks (st.pos + 5 + payload.length) padding
    .ok (encPrefix ++ encPayload ++ encPadding ++ tag,
         ⟨st.pos + 5 + payload.length + padLen, st.iv⟩, rnd.drop padLen)

/-- streamPacketCipher.readCipherPacket -/
def streamRead (c : StreamCfg) (st : St) (seq : UInt32) (inp : Bytes) : RRes :=
  if inp.length < 5 then ⟨.error .eof, [], st⟩ else
  let pre := inp.take 5
  let r1 := inp.drop 5
  -- EtM: only byte 4 is decrypted; otherwise the whole prefix
  let (pfx, pos1) :=
    if c.etmOn then (pre.take 4 ++ xorAt c.ks st.pos (pre.drop 4), st.pos + 1)
    else (xorAt c.ks st.pos pre, st.pos + 5)
  let length := (be32 pfx).toNat
  let padLen := (pfx.getD 4 0).toNat
  let st1 : St := ⟨pos1, st.iv⟩
  if length ≤ padLen + 1 then ⟨.error .len, r1, st1⟩ else
  if length > maxPacket then ⟨.error .len, r1, st1⟩ else
  let need := length - 1 + c.macSize
  if r1.length < need then ⟨.error .eof, [], st1⟩ else
  let data := r1.take (length - 1)
  let tag := (r1.drop (length - 1)).take c.macSize
  let r2 := r1.drop need
  let plain := xorAt c.ks pos1 data
  let st2 : St := ⟨pos1 + (length - 1), st.iv⟩
  let macInput := if c.etmOn then u32be seq ++ pre ++ data else u32be seq ++ pfx ++ plain
  let macOk := c.mac.isNone || c.tag macInput == tag
  if !macOk then ⟨.error .mac, r2, st2⟩ else
  ⟨.ok (plain.take (length - padLen - 1)), r2, st2⟩

/-! ## gcmCipher (RFC 5647) -/

structure AeadCfg where
  sealF : Bytes → Bytes → Bytes → Bytes            -- iv, aad, plaintext ↦ ciphertext ‖ tag
  openF : Bytes → Bytes → Bytes → Option Bytes    -- iv, aad, ciphertext ‖ tag

/-- increment of a little-endian byte string with carry (helper: incIV walks from byte 11 down to 4) -/
def incLE : Bytes → Bytes
  | [] => []
  | b :: r => if b + 1 == 0 then 0 :: incLE r else (b + 1) :: r

/-- gcmCipher.incIV: `for i := 4+7; i >= 4; i-- { iv[i]++; if iv[i] != 0 { break } }` -/
def incIV (iv : Bytes) : Bytes :=
  iv.take 4 ++ (incLE ((iv.drop 4).take 8).reverse).reverse ++ iv.drop 12

def gcmPadLen (n : Nat) : Nat :=
  let p := 16 - (1 + n) % 16
  if p < 4 then p + 16 else p

def gcmWrite (c : AeadCfg) (st : St) (payload rnd : Bytes) : Except WErr (Bytes × St × Bytes) :=
  let padLen := gcmPadLen payload.length
  let length := payload.length + padLen + 1
  let pfx := u32be (UInt32.ofNat length)
  if rnd.length < padLen then .error .rand else
  let plain := [UInt8.ofNat padLen] ++ payload ++ rnd.take padLen
  .ok (pfx ++ c.sealF st.iv pfx plain, ⟨st.pos, incIV st.iv⟩, rnd.drop padLen)

/-- the padding checks shared by the two AEAD readers: plain = padlen ‖ payload ‖ padding -/
def aeadUnpad (plain : Bytes) : Except RErr Bytes :=
  match plain with
  | [] => .error .pad
  | p :: _ =>
    if p.toNat < 4 then .error .pad else
    if p.toNat + 1 ≥ plain.length then .error .pad else
    .ok ((plain.take (plain.length - p.toNat)).drop 1)

def gcmRead (c : AeadCfg) (st : St) (inp : Bytes) : RRes :=
  if inp.length < 4 then ⟨.error .eof, [], st⟩ else
  let pfx := inp.take 4
  let r1 := inp.drop 4
  let length := (be32 pfx).toNat
  if length > maxPacket then ⟨.error .len, r1, st⟩ else
  if r1.length < length + 16 then ⟨.error .eof, [], st⟩ else
  let buf := r1.take (length + 16)
  let r2 := r1.drop (length + 16)
  match c.openF st.iv pfx buf with
  | none => ⟨.error .mac, r2, st⟩
  | some plain => ⟨aeadUnpad plain, r2, ⟨st.pos, incIV st.iv⟩⟩

/-! ## cbcCipher -/

structure CbcCfg where
  bs : Nat                      -- cipher block size (16 AES, 8 3DES)
  enc : Bytes → Bytes
  dec : Bytes → Bytes
  mac : Bytes → Bytes
  macLen : Nat

def cbcEncBlocks (enc : Bytes → Bytes) : Bytes → List Bytes → List Bytes
  | _, [] => []
  | prev, b :: r => let c := enc (xorBytes b prev); c :: cbcEncBlocks enc c r

def cbcDecBlocks (dec : Bytes → Bytes) : Bytes → List Bytes → List Bytes
  | _, [] => []
  | prev, c :: r => xorBytes (dec c) prev :: cbcDecBlocks dec c r

/-- the chaining value after processing ciphertext blocks `cs` -/
def lastOr (prev : Bytes) : List Bytes → Bytes
  | [] => prev
  | c :: r => lastOr c r

def cbcEnc (c : CbcCfg) (iv data : Bytes) : Bytes × Bytes :=
  let cs := cbcEncBlocks c.enc iv (chunks c.bs data)
  (cs.flatten, lastOr iv cs)

def cbcDec (c : CbcCfg) (iv data : Bytes) : Bytes × Bytes :=
  let cs := chunks c.bs data
  ((cbcDecBlocks c.dec iv cs).flatten, lastOr iv cs)

def cbcEncLen (bs n : Nat) : Nat :=
  let eff := max 8 bs
  let e := max (5 + n + 4) 16
  (e + eff - 1) / eff * eff

def cbcWrite (c : CbcCfg) (st : St) (seq : UInt32) (payload rnd : Bytes) : Except WErr (Bytes × St × Bytes) :=
  let encLength := cbcEncLen c.bs payload.length
  let length := encLength - 4
  let padLen := length - (1 + payload.length)
  if rnd.length < padLen then .error .rand else
  let plain := u32be (UInt32.ofNat length) ++ [UInt8.ofNat padLen] ++ payload ++ rnd.take padLen
  let tag := c.mac (u32be seq ++ plain)
  let (ct, iv') := cbcEnc c st.iv plain
  .ok (ct ++ tag, ⟨st.pos, iv'⟩, rnd.drop padLen)

/-- cbcCipher.readCipherPacket = readCipherPacketLeaky + the drain of `oracleCamouflage` bytes after a
    verification error -/
def cbcRead (c : CbcCfg) (st : St) (seq : UInt32) (inp : Bytes) : RRes :=
  let fbl := (5 + c.bs - 1) / c.bs * c.bs
  if inp.length < fbl then ⟨.error .eof, [], st⟩ else
  let r1 := inp.drop fbl
  let camouflage := maxPacket + 4 + c.macLen - fbl
  let (first, iv1) := cbcDec c st.iv (inp.take fbl)
  let st1 : St := ⟨st.pos, iv1⟩
  let length := (be32 first).toNat
  let padLen := (first.getD 4 0).toNat
  let bad : Bool :=
    length > maxPacket || length + 4 < max 16 c.bs || (length + 4) % (max 8 c.bs) != 0 ||
    padLen < 4 || length ≤ padLen + 1
  if bad then ⟨.error .len, r1.drop camouflage, st1⟩ else
  let macStart := 4 + length
  let more := macStart + c.macLen - fbl
  if r1.length < more then ⟨.error .eof, [], st1⟩ else
  let (restPlain, iv2) := cbcDec c iv1 (r1.take (macStart - fbl))
  let st2 : St := ⟨st.pos, iv2⟩
  let tag := (r1.drop (macStart - fbl)).take c.macLen
  let r2 := r1.drop more
  let plain := first ++ restPlain
  if !(c.mac (u32be seq ++ plain) == tag) then ⟨.error .mac, r2.drop (camouflage - more), st2⟩ else
  ⟨.ok ((plain.take (macStart - padLen)).drop 5), r2, st2⟩

/-! ## chacha20Poly1305Cipher (openssh PROTOCOL.chacha20poly1305) -/

structure ChaCfg where
  ks : Bytes → Bytes → UInt32 → Nat → Bytes     -- key, 12-byte nonce, first block counter, n ↦ n keystream bytes
  poly : Bytes → Bytes → Bytes                   -- one-time key, message ↦ 16-byte tag
  contentKey : Bytes                             -- key[:32]
  lengthKey : Bytes                              -- key[32:]

/-- nonce = 12 zero-initialised bytes with the sequence number big-endian in the last four: be64(seq) after 4 zero bytes -/
def chaNonce (seq : UInt32) : Bytes := zeros 8 ++ u32be seq

def chaPadLen (n : Nat) : Nat :=
  let p := 8 - (1 + n) % 8
  if p < 4 then p + 8 else p

def chaWrite (c : ChaCfg) (st : St) (seq : UInt32) (payload rnd : Bytes) : Except WErr (Bytes × St × Bytes) :=
  let nonce := chaNonce seq
  let polyKey := c.ks c.contentKey nonce 0 32
  let padLen := chaPadLen payload.length
  if rnd.length < padLen then .error .rand else
  let encLen := xorBytes (u32be (UInt32.ofNat (1 + payload.length + padLen))) (c.ks c.lengthKey nonce 0 4)
  let body := [UInt8.ofNat padLen] ++ payload ++ rnd.take padLen
  let encBody := xorBytes body (c.ks c.contentKey nonce 1 body.length)
  let tag := c.poly polyKey (encLen ++ encBody)
  .ok (encLen ++ encBody ++ tag, st, rnd.drop padLen)

def chaRead (c : ChaCfg) (st : St) (seq : UInt32) (inp : Bytes) : RRes :=
  let nonce := chaNonce seq
  let polyKey := c.ks c.contentKey nonce 0 32
  if inp.length < 4 then ⟨.error .eof, [], st⟩ else
  let encLen := inp.take 4
  let r1 := inp.drop 4
  let length := (be32 (xorBytes encLen (c.ks c.lengthKey nonce 0 4))).toNat
  if length > maxPacket then ⟨.error .len, r1, st⟩ else
  if r1.length < length + 16 then ⟨.error .eof, [], st⟩ else
  let encBody := r1.take length
  let tag := (r1.drop length).take 16
  let r2 := r1.drop (length + 16)
  if !(c.poly polyKey (encLen ++ encBody) == tag) then ⟨.error .mac, r2, st⟩ else
  let plain := xorBytes encBody (c.ks c.contentKey nonce 1 length)
  ⟨aeadUnpad plain, r2, st⟩

/-! ## a packetCipher, and connectionState's sequence number -/

inductive Mode where
  | stream (c : StreamCfg)
  | gcm (c : AeadCfg)
  | cbc (c : CbcCfg)
  | chacha (c : ChaCfg)

def Mode.write (m : Mode) (st : St) (seq : UInt32) (payload rnd : Bytes) : Except WErr (Bytes × St × Bytes) :=
  match m with
  | .stream c => streamWrite c st seq payload rnd
  | .gcm c => gcmWrite c st payload rnd
  | .cbc c => cbcWrite c st seq payload rnd
  | .chacha c => chaWrite c st seq payload rnd

def Mode.read (m : Mode) (st : St) (seq : UInt32) (inp : Bytes) : RRes :=
  match m with
  | .stream c => streamRead c st seq inp
  | .gcm c => gcmRead c st inp
  | .cbc c => cbcRead c st seq inp
  | .chacha c => chaRead c st seq inp

structure Conn where
  st : St
  seq : UInt32

/-- connectionState.writePacket: the sequence number advances only after a successful write -/
def connWrite (m : Mode) (c : Conn) (payload rnd : Bytes) : Except WErr (Bytes × Conn × Bytes) :=
  match m.write c.st c.seq payload rnd with
  | .error e => .error e
  | .ok (wire, st', rnd') => .ok (wire, ⟨st', c.seq + 1⟩, rnd')

/-- connectionState.readPacket: `seqNum++` whatever the outcome -/
def connRead (m : Mode) (c : Conn) (inp : Bytes) : Except RErr Bytes × Bytes × Conn :=
  let r := m.read c.st c.seq inp
  (r.res, r.rest, ⟨r.st, c.seq + 1⟩)

/-- write a list of payloads (stops at the first error); wires in order -/
def writeAll (m : Mode) : Conn → Bytes → List Bytes → List (Except WErr Bytes) × Conn
  | c, _, [] => ([], c)
  | c, rnd, p :: ps =>
    match connWrite m c p rnd with
    | .error e => ([.error e], c)
    | .ok (wire, c', rnd') =>
      let (ws, cf) := writeAll m c' rnd' ps
      (.ok wire :: ws, cf)

/-- read packets until the first error (reported last) or `n` packets were read -/
def readAll (m : Mode) : Nat → Conn → Bytes → List (Except RErr Bytes × Nat) × Conn
  | 0, c, _ => ([], c)
  | n+1, c, inp =>
    let (res, rest, c') := connRead m c inp
    let consumed := inp.length - rest.length
    match res with
    | .error e => ([(.error e, consumed)], c')
    | .ok p =>
      let (rs, cf) := readAll m n c' rest
      ((.ok p, consumed) :: rs, cf)

end XC.C25
