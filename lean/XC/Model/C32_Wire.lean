/-
  C32 — the bytes a client signs for publickey authentication (ssh/common.go:
  buildDataSignedForAuth, RFC 4252 §7):
    string session identifier, byte SSH_MSG_USERAUTH_REQUEST (50), string user, string service,
    string method, boolean TRUE, string algorithm, string public key blob.
-/
import XC.Basic
namespace XC.C32

/-- SSH `string`: uint32 length, then the bytes -/
def sshStr (b : Bytes) : Bytes := natToBE 4 b.length ++ b

def signedData (session user service method algo key : Bytes) : Bytes :=
  sshStr session ++ (50 :: (sshStr user ++ (sshStr service ++ (sshStr method ++ (1 :: (sshStr algo ++ sshStr key))))))

end XC.C32
