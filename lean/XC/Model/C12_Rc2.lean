/-
  C12 / RC2 — pkcs12/internal/rc2/rc2.go as written (RFC 2268): `expandKey(key, t1)` with NO argument
  checks (an empty key, t1 = 0 or t1 > 1024 index out of range → Go panic), 16 mixing rounds
  with mashing after rounds 5 and 11.
-/
import XC.Model.C12_Util
import XC.Model.C12_Tables_Rc2
namespace XC.C12.Rc2

inductive Res (α : Type) where
  | ok : α → Res α
  | panic : Res α

/-- RFC 2268 §2: T8 = (T1+7)/8 — the effective key length in bytes -/
def t8Of (t1 : Nat) : Nat := (t1 + 7) / 8
/-- RFC 2268 §2: TM = 255 MOD 2^(8 + T1 - 8*T8) — Go: `byte(255 % uint(1<<(8+uint(t1)-8*uint(t8))))` -/
def tmOf (t1 : Nat) : Nat := 255 % (2 ^ (8 + t1 - 8 * t8Of t1))

/-- `expandKey`; `t1 ≥ 0` (the op line carries a natural number) -/
def expandKey (key : Bytes) (t1 : Nat) : Res (Array UInt16) :=
  let t := key.length
  let t8 := t8Of t1
  -- `for i := len(key); i < 128; i++ { l[i] = piTable[l[i-1]+l[uint8(i-t)]] }` : l[i-1] with i = 0 panics
  if t == 0 then .panic
  -- `l[128-t8]` : out of range for t8 = 0 (index 128) and t8 > 128 (negative index)
  else if t8 == 0 || t8 > 128 then .panic
  else
    let tm : UInt8 := UInt8.ofNat (tmOf t1)
    let l0 : Array UInt8 := (key.take 128 ++ zeros (128 - key.length)).toArray
    let l1 := (List.range (128 - min t 128)).foldl (fun (l : Array UInt8) n =>
      let i := t + n
      l.set! i piTable[(l[i-1]! + l[i-t]!).toNat]!) l0
    let l2 := l1.set! (128 - t8) piTable[(l1[128 - t8]! &&& tm).toNat]!
    let l3 := (List.range (128 - t8)).foldl (fun (l : Array UInt8) n =>
      let i := 127 - t8 - n
      l.set! i piTable[(l[i+1]! ^^^ l[i+t8]!).toNat]!) l2
    .ok ((List.range 64).map (fun i => (l3[2*i]!).toUInt16 + (l3[2*i+1]!).toUInt16 * 256)).toArray

abbrev St := UInt16 × UInt16 × UInt16 × UInt16

def rol (x : UInt16) (s : UInt16) : UInt16 := (x <<< s) ||| (x >>> (16 - s))

/-- one mixing round with the four consecutive key words `k[j..j+3]` -/
def mix (s : St) (k : St) : St :=
  let (r0, r1, r2, r3) := s
  let r0 := rol (r0 + k.1 + (r3 &&& r2) + ((~~~ r3) &&& r1)) 1
  let r1 := rol (r1 + k.2.1 + (r0 &&& r3) + ((~~~ r0) &&& r2)) 2
  let r2 := rol (r2 + k.2.2.1 + (r1 &&& r0) + ((~~~ r1) &&& r3)) 3
  let r3 := rol (r3 + k.2.2.2 + (r2 &&& r1) + ((~~~ r2) &&& r0)) 5
  (r0, r1, r2, r3)

def unmix (s : St) (k : St) : St :=
  let (r0, r1, r2, r3) := s
  let r3 := rol r3 11
  let r3 := r3 - k.2.2.2 - (r2 &&& r1) - ((~~~ r2) &&& r0)
  let r2 := rol r2 13
  let r2 := r2 - k.2.2.1 - (r1 &&& r0) - ((~~~ r1) &&& r3)
  let r1 := rol r1 14
  let r1 := r1 - k.2.1 - (r0 &&& r3) - ((~~~ r0) &&& r2)
  let r0 := rol r0 15
  let r0 := r0 - k.1 - (r3 &&& r2) - ((~~~ r3) &&& r1)
  (r0, r1, r2, r3)

/-- mashing round with an arbitrary key-lookup function `K` (`c.k[r & 63]`) -/
def mash (K : UInt16 → UInt16) (s : St) : St :=
  let (r0, r1, r2, r3) := s
  let r0 := r0 + K (r3 &&& 63)
  let r1 := r1 + K (r0 &&& 63)
  let r2 := r2 + K (r1 &&& 63)
  let r3 := r3 + K (r2 &&& 63)
  (r0, r1, r2, r3)

def unmash (K : UInt16 → UInt16) (s : St) : St :=
  let (r0, r1, r2, r3) := s
  let r3 := r3 - K (r2 &&& 63)
  let r2 := r2 - K (r1 &&& 63)
  let r1 := r1 - K (r0 &&& 63)
  let r0 := r0 - K (r3 &&& 63)
  (r0, r1, r2, r3)

/-- 5 mix, mash, 6 mix, mash, 5 mix — over three lists of round keys -/
def encCore (K : UInt16 → UInt16) (k1 k2 k3 : List St) (s : St) : St :=
  k3.foldl mix (mash K (k2.foldl mix (mash K (k1.foldl mix s))))

def decCore (K : UInt16 → UInt16) (k1 k2 k3 : List St) (s : St) : St :=
  k1.reverse.foldl unmix (unmash K (k2.reverse.foldl unmix (unmash K (k3.reverse.foldl unmix s))))

def quad (k : Array UInt16) (i : Nat) : St := (k[4*i]!, k[4*i+1]!, k[4*i+2]!, k[4*i+3]!)
def look (k : Array UInt16) (i : UInt16) : UInt16 := k[i.toNat]!

/-- `for j <= 16`: j = 0,4,…,16 → 5 rounds; `for j <= 40`: 6 rounds; `for j <= 60`: 5 rounds -/
def ks1 (k : Array UInt16) : List St := (List.range 5).map (quad k)
def ks2 (k : Array UInt16) : List St := (List.range 6).map (fun i => quad k (5 + i))
def ks3 (k : Array UInt16) : List St := (List.range 5).map (fun i => quad k (11 + i))

def encryptW (k : Array UInt16) (s : St) : St := encCore (look k) (ks1 k) (ks2 k) (ks3 k) s
def decryptW (k : Array UInt16) (s : St) : St := decCore (look k) (ks1 k) (ks2 k) (ks3 k) s

def encrypt (k : Array UInt16) (src : Bytes) : Bytes := join8le16 (encryptW k (split8le16 src))
def decrypt (k : Array UInt16) (src : Bytes) : Bytes := join8le16 (decryptW k (split8le16 src))

end XC.C12.Rc2
