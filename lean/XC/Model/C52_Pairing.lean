/-
  C52 — optimal ate pairing (optate.go), transcription on the model's field tower.
-/
import XC.Model.C52
namespace XC.C52
open GFp2

structure Line where
  a : GFp2
  b : GFp2
  c : GFp2
  r : TwistPoint

def lineFunctionAdd (r pt : TwistPoint) (q : CurvePoint) (r2 : GFp2) : Line :=
  let B := pt.x.mul r.t
  let D := pt.y.add r.z
  let D := D.square
  let D := D.sub r2
  let D := D.sub r.t
  let D := D.mul r.t
  let H := B.sub r.x
  let I := H.square
  let E := I.add I
  let E := E.add E
  let J := H.mul E
  let L1 := D.sub r.y
  let L1 := L1.sub r.y
  let V := r.x.mul E
  let ox := L1.square
  let ox := ox.sub J
  let ox := ox.sub V
  let ox := ox.sub V
  let oz := r.z.add H
  let oz := oz.square
  let oz := oz.sub r.t
  let oz := oz.sub I
  let t := V.sub ox
  let t := t.mul L1
  let t2 := r.y.mul J
  let t2 := t2.add t2
  let oy := t.sub t2
  let ot := oz.square
  let t := pt.y.add oz
  let t := t.square
  let t := t.sub r2
  let t := t.sub ot
  let t2 := L1.mul pt.x
  let t2 := t2.add t2
  let a := t2.sub t
  let c := oz.mulScalar q.y
  let c := c.add c
  let b := GFp2.zero.sub L1
  let b := b.mulScalar q.x
  let b := b.add b
  ⟨a, b, c, ⟨ox, oy, oz, ot⟩⟩

def lineFunctionDouble (r : TwistPoint) (q : CurvePoint) : Line :=
  let A := r.x.square
  let B := r.y.square
  let C := B.square
  let D := r.x.add B
  let D := D.square
  let D := D.sub A
  let D := D.sub C
  let D := D.add D
  let E := A.add A
  let E := E.add A
  let G := E.square
  let ox := G.sub D
  let ox := ox.sub D
  let oz := r.y.add r.z
  let oz := oz.square
  let oz := oz.sub B
  let oz := oz.sub r.t
  let oy := D.sub ox
  let oy := oy.mul E
  let t := C.add C
  let t := t.add t
  let t := t.add t
  let oy := oy.sub t
  let ot := oz.square
  let t := E.mul r.t
  let t := t.add t
  let b := GFp2.zero.sub t
  let b := b.mulScalar q.x
  let a := r.x.add E
  let a := a.square
  let a := a.sub A
  let a := a.sub G
  let t := B.add B
  let t := t.add t
  let a := a.sub t
  let c := oz.mul r.t
  let c := c.add c
  let c := c.mulScalar q.y
  ⟨a, b, c, ⟨ox, oy, oz, ot⟩⟩

def mulLine (ret : GFp12) (a b c : GFp2) : GFp12 :=
  let a2 : GFp6 := ⟨.zero, a, b⟩
  let a2 := a2.mul ret.x
  let t3 := ret.y.mulScalar c
  let t := b.add c
  let t2 : GFp6 := ⟨.zero, a, t⟩
  let rx := ret.x.add ret.y
  let ry := t3
  let rx := rx.mul t2
  let rx := rx.sub a2
  let rx := rx.sub ry
  let a2 := a2.mulTau
  let ry := ry.add a2
  ⟨rx, ry⟩

def sixuPlus2NAF : List Int := [0, 0, 0, 1, 0, 0, 0, 0, 0, 1, 0, 0, 1, 0, 0, 0, -1, 0, 1, 0, 1, 0, 0, 0, 0, 1, 0, 1, 0, 0, 0, -1, 0, 1, 0, 0, 0, 1, 0, -1, 0, 0, 0, -1, 0, 1, 0, 0, 0, 0, 0, 1, 0, 0, -1, 0, -1, 0, 0, 0, 0, 1, 0, 0, 0, 1]

def xiToPMinus1Over2 : GFp2 := ⟨50997318142241922852281555961173165965672272825141804376761836765206060036244, 38665955945962842195025998234511023902832543644254935982879660597356748036009⟩

/-- one round of the Miller loop: `naf` is `sixuPlus2NAF[i-1]`, `first` is `i = len-1` -/
def millerStep (aAffine minusA : TwistPoint) (bAffine : CurvePoint) (r2 : GFp2)
    (st : GFp12 × TwistPoint × Bool) (naf : Int) : GFp12 × TwistPoint × Bool :=
  let (ret, r, first) := st
  let l := lineFunctionDouble r bAffine
  let ret := if first then ret else ret.square
  let ret := mulLine ret l.a l.b l.c
  let r := l.r
  if naf = 1 then
    let l := lineFunctionAdd r aAffine bAffine r2
    (mulLine ret l.a l.b l.c, l.r, false)
  else if naf = -1 then
    let l := lineFunctionAdd r minusA bAffine r2
    (mulLine ret l.a l.b l.c, l.r, false)
  else (ret, r, false)

def miller (q : TwistPoint) (pt : CurvePoint) : GFp12 :=
  let aAffine := q.makeAffine
  let bAffine := pt.makeAffine
  let minusA := aAffine.neg
  let r2 := aAffine.y.square
  -- i = len-1 … 1, reading sixuPlus2NAF[i-1]: the list without its last entry, reversed
  let nafs := (sixuPlus2NAF.take (sixuPlus2NAF.length - 1)).reverse
  let (ret, r, _) := nafs.foldl (millerStep aAffine minusA bAffine r2) (GFp12.one, aAffine, true)
  let q1 : TwistPoint := ⟨aAffine.x.conj.mul GFp6.xiToPMinus1Over3, aAffine.y.conj.mul xiToPMinus1Over2, .one, .one⟩
  let minusQ2 : TwistPoint := ⟨aAffine.x.mulScalar GFp6.xiToPSquaredMinus1Over3, aAffine.y, .one, .one⟩
  let r2 := q1.y.square
  let l := lineFunctionAdd r q1 bAffine r2
  let ret := mulLine ret l.a l.b l.c
  let r := l.r
  let r2 := minusQ2.y.square
  let l := lineFunctionAdd r minusQ2 bAffine r2
  mulLine ret l.a l.b l.c

def finalExponentiation (inp : GFp12) : GFp12 :=
  let t1 : GFp12 := ⟨inp.x.neg, inp.y⟩
  let inv := inp.invert
  let t1 := t1.mul inv
  let t2 := t1.frobeniusP2
  let t1 := t1.mul t2
  let fp := t1.frobenius
  let fp2 := t1.frobeniusP2
  let fp3 := fp2.frobenius
  let fu := t1.expLoop (u : Int)
  let fu2 := fu.expLoop (u : Int)
  let fu3 := fu2.expLoop (u : Int)
  let y3 := fu.frobenius
  let fu2p := fu2.frobenius
  let fu3p := fu3.frobenius
  let y2 := fu2.frobeniusP2
  let y0 := (fp.mul fp2).mul fp3
  let y1 := t1.conj
  let y5 := fu2.conj
  let y3 := y3.conj
  let y4 := (fu.mul fu2p).conj
  let y6 := (fu3.mul fu3p).conj
  let t0 := y6.square
  let t0 := t0.mul y4
  let t0 := t0.mul y5
  let t1 := y3.mul y5
  let t1 := t1.mul t0
  let t0 := t0.mul y2
  let t1 := t1.square
  let t1 := t1.mul t0
  let t1 := t1.square
  let t0 := t1.mul y1
  let t1 := t1.mul y0
  let t0 := t0.square
  t0.mul t1

inductive PairRes where
  | val (e : GFp12)
  /-- the Miller value is 0 mod p: `Invert` would meet `ModInverse(0)`, whose result in the Go
      code is whatever the pool held — no value is predicted -/
  | undefined

/-- `optimalAte` / `Pair`: the result is forced to one when either argument is infinity
    (the Go code still runs the Miller loop first; nothing of it is observable) -/
def pair (g1 : CurvePoint) (g2 : TwistPoint) : PairRes :=
  if g2.isInfinity || g1.isInfinity then .val GFp12.one
  else
    let e := miller g2 g1
    if e.isZero then .undefined else .val (finalExponentiation e)

end XC.C52
