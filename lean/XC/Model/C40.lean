/-
  C40 — signature verification (ssh/keys.go Verify methods, ssh/common.go hashFunc and
  algorithmsForKeyFormat, ssh/server.go noTouchAllowed / skKeyWithoutUP, multiAlgorithmSigner).
  The decision/format layer is modelled as written; the cryptographic primitives of the standard
  library (rsa.VerifyPKCS1v15, dsa.Verify, ecdsa.Verify, ed25519.Verify) are ONE oracle
  `cv tag msg sig`: "primitive `tag` accepts signature `sig` over message `msg` under this key".
-/
import XC.Model.C41
import XC.Prim.Sha256
namespace XC.C40
open XC XC.C38 XC.C41

inductive Hash where
  | sha1 | sha256 | sha384 | sha512 | none   -- `none`: crypto.Hash(0), Ed25519 does not pre-hash
deriving DecidableEq, Repr

/-- `hashFunc(format)` (FIPS mode off); `Option.none` = "not mapped" error -/
def hashFunc (f : Bytes) : Option Hash :=
  if f = algoRSASHA256 ∨ f = algoECDSA256 ∨ f = algoSKED25519 ∨ f = algoSKECDSA then some .sha256
  else if f = algoECDSA384 then some .sha384
  else if f = algoRSASHA512 ∨ f = algoECDSA521 then some .sha512
  else if f = algoED25519 then some .none
  else if f = algoRSA ∨ f = algoDSA then some .sha1
  else Option.none

/-- `algorithmsForKeyFormat` -/
def algorithmsForKeyFormat (kf : Bytes) : List Bytes :=
  if kf = algoRSA then [algoRSASHA256, algoRSASHA512, algoRSA]
  else if kf = certAlgoRSA then [certAlgoRSASHA256, certAlgoRSASHA512, certAlgoRSA]
  else [kf]

/-- `underlyingAlgo` -/
def underlyingAlgo (a : Bytes) : Bytes :=
  match certKeyAlgoNames.find? (fun p => p.1 = a) with
  | some p => p.2
  | none => a

def hashTag : Hash → Bytes
  | .sha1 => nm "sha1"
  | .sha256 => nm "sha256"
  | .sha384 => nm "sha384"
  | .sha512 => nm "sha512"
  | .none => nm "ed"

/-- crypto oracle: primitive/hash tag, message, signature encoding -/
abbrev CV := Bytes → Bytes → Bytes → Bool

/-- `Unmarshal(sig.Blob, &struct{R, S *big.Int})`: non-empty data, two mpints, nothing after -/
def parseRS (blob : Bytes) : Option (Int × Int) :=
  if blob.isEmpty then none else
  match parseMpint blob with
  | none => none
  | some (r, b1) =>
    match parseMpint b1 with
    | none => none
    | some (s, b2) => if b2.isEmpty then some (r, s) else none

/-- `Unmarshal(sig.Rest, &skFields{Flags byte; Counter uint32})`: exactly five bytes -/
def parseSKFields (rest : Bytes) : Option (UInt8 × Nat) :=
  match rest with
  | f :: r =>
    match parseU32 r with
    | some (c, r') => if r'.isEmpty then some (f, c) else none
    | none => none
  | [] => none

/-- what the authenticator signed (PROTOCOL.u2f): H(application) ‖ flags ‖ counter ‖ H(data) -/
def skMessage (app : Bytes) (flags : UInt8) (counter : Nat) (data : Bytes) : Bytes :=
  Prim.sha256 app ++ [flags] ++ putU32 counter ++ Prim.sha256 data

/-- canonical encoding of (r, s) used as the oracle key (the integers are what ecdsa.Verify sees) -/
def rsKey (r s : Int) : Bytes := putMpint r ++ putMpint s

def rsaSize (n : Int) : Nat := (bitLen n + 7) / 8

/-- `PublicKey.Verify(data, sig)`; `noTouch` = the key was passed through skKeyWithoutUP -/
def verify (cv : CV) (k : PubKey) (noTouch : Bool) (data : Bytes) (s : Sig) : Bool :=
  match k with
  | .rsa _ n =>
    if !(algorithmsForKeyFormat algoRSA).contains s.format then false else
    match hashFunc s.format with
    | none => false
    | some h =>
      -- short blobs are left-padded with zeros to the modulus size
      let blob := if s.blob.length < rsaSize n then zeros (rsaSize n - s.blob.length) ++ s.blob else s.blob
      cv (hashTag h) data blob
  | .dsa .. =>
    if s.format ≠ algoDSA then false else
    match hashFunc s.format with
    | none => false
    | some h => if s.blob.length ≠ 40 then false else cv (hashTag h) data s.blob
  | .ecdsa bits pt =>
    if s.format ≠ (PubKey.ecdsa bits pt).type then false else
    match hashFunc s.format with
    | none => false
    | some h =>
      match parseRS s.blob with
      | none => false
      | some (r, ss) => cv (hashTag h) data (rsKey r ss)
  | .ed25519 kb =>
    if s.format ≠ algoED25519 then false
    else if kb.length ≠ 32 then false
    else cv (nm "ed") data s.blob
  | .skecdsa _ app =>
    if s.format ≠ algoSKECDSA then false else
    match hashFunc s.format with
    | none => false
    | some _ =>
      match parseRS s.blob with
      | none => false
      | some (r, ss) =>
        match parseSKFields s.rest with
        | none => false
        | some (flags, counter) =>
          if flags.toNat % 2 = 0 ∧ !noTouch then false
          else cv (nm "sk-ecdsa") (skMessage app flags counter data) (rsKey r ss)
  | .sked25519 kb app =>
    if s.format ≠ algoSKED25519 then false
    else if kb.length ≠ 32 then false else
    match hashFunc s.format with
    | none => false
    | some _ =>
      -- Unmarshal(sig.Blob, &struct{Signature []byte `ssh:"rest"`}) fails on empty data
      if s.blob.isEmpty then false else
      match parseSKFields s.rest with
      | none => false
      | some (flags, counter) =>
        if flags.toNat % 2 = 0 ∧ !noTouch then false
        else cv (nm "sk-ed") (skMessage app flags counter data) s.blob

/-- `Certificate.Verify` = `c.Key.Verify` -/
def verifyAny (cv : CV) (k : AnyKey) (noTouch : Bool) (data : Bytes) (s : Sig) : Bool :=
  match k with
  | .plain p => verify cv p noTouch data s
  | .cert c => verify cv c.key noTouch data s

def noTouchRequired := nm "no-touch-required"

/-- `noTouchAllowed(pubKey, perms)`: the extension is in the callback's Permissions.Extensions or in
    the certificate's Extensions (critical options do not count) -/
def noTouchAllowed (k : AnyKey) (permsExt : Option (List (Bytes × Bytes))) : Bool :=
  (match permsExt with
   | some l => l.any (fun kv => kv.1 = noTouchRequired)
   | none => false) ||
  (match k with
   | .cert c => c.exts.any (fun kv => kv.1 = noTouchRequired)
   | .plain _ => false)

/-! ## MultiAlgorithmSigner -/

/-- `NewSignerWithAlgorithms(signer, algorithms)`: `keyType` = signer.PublicKey().Type(),
    `signerAlgos` = the signer's own list if it already is a multiAlgorithmSigner.  true = accepted -/
def newSignerWithAlgorithms (keyType : Bytes) (signerAlgos : Option (List Bytes)) (algorithms : List Bytes) : Bool :=
  if algorithms.isEmpty then false else
  let supported := algorithmsForKeyFormat (underlyingAlgo keyType)
  let own := match signerAlgos with | some l => l | none => supported
  algorithms.all (fun a => supported.contains a && own.contains a)

/-- `isAlgorithmSupported` -/
def isAlgorithmSupported (keyType : Bytes) (supported : List Bytes) (algorithm : Bytes) : Bool :=
  let a := if algorithm.isEmpty then underlyingAlgo keyType else algorithm
  supported.contains a

/-- `multiAlgorithmSigner.SignWithAlgorithm` over a `wrappedSigner`: the signature format produced,
    or `none` (refused).  wrappedSigner: "" means the key type; the algorithm must be one of
    algorithmsForKeyFormat(type) and have a hash mapping. -/
def multiSign (keyType : Bytes) (supported : List Bytes) (algorithm : Bytes) : Option Bytes :=
  if !isAlgorithmSupported keyType supported algorithm then none else
  let a := if algorithm.isEmpty then keyType else algorithm
  if !(algorithmsForKeyFormat keyType).contains a then none else
  match hashFunc a with
  | none => none
  | some _ => some a

/-! ## constructors: NewPublicKey, NewSignerFromKey / NewSignerFromSigner, NewCertSigner -/

/-- what is handed to `NewPublicKey` / `NewSignerFromKey` (the Go dynamic type and the public part) -/
inductive GoKey where
  | rsa (e n : Int)                       -- *rsa.PublicKey / *rsa.PrivateKey
  | ecdsa (bits : Nat) (pt : Bytes)       -- *ecdsa.…: bits = curve size (224 = an unsupported curve)
  | dsa (p q g y : Int)                   -- *dsa.PublicKey / *dsa.PrivateKey
  | ed25519 (k : Bytes)                   -- ed25519.PublicKey / ed25519.PrivateKey (value or pointer for private keys)
  | other                                 -- any other dynamic type (values instead of pointers, strings, …)

/-- `NewPublicKey(key)`: no validation beyond the curve and the Ed25519 length -/
def newPublicKey : GoKey → Option PubKey
  | .rsa e n => some (.rsa e n)
  | .ecdsa bits pt => if bits = 256 ∨ bits = 384 ∨ bits = 521 then some (.ecdsa bits pt) else none
  | .dsa p q g y => some (.dsa p q g y)
  | .ed25519 k => if k.length = 32 then some (.ed25519 k) else none
  | .other => none

/-- `checkDSAParams` -/
def checkDSAParams (p q g : Int) : Bool :=
  bitLen p = 1024 && bitLen q = 160 && decide (g < p) && decide (0 < g)

/-- `NewSignerFromKey(key)`: crypto.Signer values go through NewSignerFromSigner → NewPublicKey;
    *dsa.PrivateKey through checkDSAParams; everything else is refused -/
def newSignerFromKey : GoKey → Option PubKey
  | .dsa p q g y => if checkDSAParams p q g then some (.dsa p q g y) else none
  | k => newPublicKey k

/-- a Signer as the package builds them -/
inductive SignerM where
  | wrapped (keyType : Bytes)                                  -- wrappedSigner / dsaPrivateKey
  | multi (inner : SignerM) (algs : List Bytes)                 -- NewSignerWithAlgorithms
  | hidden (inner : SignerM) (alg : Bool)                       -- the caller only sees Signer (alg=false) or AlgorithmSigner (alg=true)
  | cert (certType : Bytes) (inner : SignerM)                   -- NewCertSigner

/-- which interfaces a signer value implements: (AlgorithmSigner, MultiAlgorithmSigner) -/
def SignerM.caps : SignerM → Bool × Bool
  | .wrapped _ => (true, true)
  | .multi _ _ => (true, true)
  | .hidden _ alg => (alg, false)
  | .cert _ inner => inner.caps           -- NewCertSigner picks its wrapper by the signer's interfaces

def SignerM.pubType : SignerM → Bytes
  | .wrapped kt => kt
  | .multi inner _ => inner.pubType
  | .hidden inner _ => inner.pubType
  | .cert ct _ => ct

/-- `Algorithms()` (only meaningful when the value is a MultiAlgorithmSigner) -/
def SignerM.algorithms : SignerM → List Bytes
  | .wrapped kt => algorithmsForKeyFormat kt
  | .multi _ algs => algs
  | .hidden inner _ => inner.algorithms
  | .cert _ inner => inner.algorithms

/-- `SignWithAlgorithm(rand, data, alg)`: the signature format, or none = refused -/
def SignerM.signWith : SignerM → Bytes → Option Bytes
  | .wrapped kt, alg =>
    let a := if alg.isEmpty then kt else alg
    if !(algorithmsForKeyFormat kt).contains a then none else
    match hashFunc a with
    | none => none
    | some _ => some a
  | .multi inner algs, alg =>
    if isAlgorithmSupported inner.pubType algs alg then inner.signWith alg else none
  | .hidden inner _, alg => inner.signWith alg
  | .cert ct inner, alg =>
    -- a MultiAlgorithmSigner is re-wrapped in a multiAlgorithmSigner whose PublicKey() is the certificate
    if inner.caps.2 then (if isAlgorithmSupported ct inner.algorithms alg then inner.signWith alg else none)
    else inner.signWith alg

/-- `Sign(rand, data)`: NOT restricted by NewSignerWithAlgorithms (the embedded signer's Sign is used) -/
def SignerM.sign : SignerM → Option Bytes
  | .wrapped kt => SignerM.signWith (.wrapped kt) kt
  | .multi inner _ => inner.sign
  | .hidden inner _ => inner.sign
  | .cert _ inner => inner.sign

end XC.C40
