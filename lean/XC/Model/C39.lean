/-
  C39 — OpenSSH private key files (ssh/keys.go): parseOpenSSHPrivateKey with the two decrypt functions
  (unencryptedOpenSSHKey, passphraseProtectedOpenSSHKey), the per-type private sections with their
  consistency checks (RSA: size bounds + Validate; Ed25519: the check added by the fix "reject OpenSSH
  Ed25519 private keys whose public and private parts disagree"; ECDSA: scalar range + d·G = Pub),
  checkOpenSSHKeyPadding / generateOpenSSHPadding, marshalOpenSSHPrivateKey.

  Modelled: the code after the fixes e406b17 (Ed25519 Pub / Priv[32:] / seed must agree), 9cae9ca
  (`checkPub`: the public key blob stored outside the private section must be the marshalled public key
  of the parsed key, every key type) and 4d7287a (ECDSA scalar must satisfy 0 < D < N).

  bcrypt_pbkdf (ssh/internal/bcrypt_pbkdf) is NOT an oracle: the key/IV of an encrypted file is derived by
  the Lean model `XC.C19.key` (SHA-512 + Blowfish, validated against the OpenBSD vectors) from the
  passphrase, salt and rounds of the op; the harness states which 48 bytes IT used for the AES oracle and
  a difference is reported as `kdf-mismatch`.
  Oracles (stdlib): AES-256-CTR/CBC under that key, rsa.Validate, ed25519.NewKeyFromSeed, elliptic
  ScalarBaseMult and point validation.
-/
import XC.Model.C41
import XC.Model.C19
namespace XC.C39
open XC XC.C38 XC.C41

def magic : Bytes := nm "openssh-key-v1" ++ [0]

inductive PrivKey where
  | rsa (n e d iqmp p q : Int)
  | ed25519 (priv : Bytes)                 -- 64 bytes: seed ‖ public
  | ecdsa (bits : Nat) (pt : Bytes) (d : Int)
deriving DecidableEq, Repr

/-- the public key of a parsed private key, as `NewSignerFromKey(k).PublicKey()` reports it -/
def PrivKey.pub : PrivKey → PubKey
  | .rsa n e _ _ _ _ => .rsa e n
  | .ed25519 priv => .ed25519 (priv.drop 32)
  | .ecdsa bits pt _ => .ecdsa bits pt

structure Oracles where
  pt : PtOracle
  /-- AES oracle: the 48 bytes key ‖ iv the harness decrypted with and the resulting plaintext
      (`none` = not supplied) -/
  dec : Option (Bytes × Bytes)
  /-- rsa.PrivateKey.Validate() == nil -/
  rsaValid : Option Bool
  /-- ed25519.NewKeyFromSeed(Priv[:32])[32:] -/
  edPub : Option Bytes
  /-- uncompressed encoding of |D|·G on the private section's curve -/
  ecPub : Option Bytes

inductive Res where
  | err
  | needPass (outerPub : Bytes)      -- PassphraseMissingError with PublicKey = ParsePublicKey(w.PubKey)
  | badPass                          -- x509.IncorrectPasswordError
  | oracleMiss
  | kdfMismatch                      -- the AES oracle was evaluated under a key that is not bcrypt_pbkdf(passphrase, salt, rounds)
  | ok (k : PrivKey) (comment : Bytes)
deriving DecidableEq, Repr

/-- `checkOpenSSHKeyPadding`: byte i must be i+1 -/
def padOkFrom : Nat → Bytes → Bool
  | _, [] => true
  | i, b :: r => b.toNat = i + 1 && padOkFrom (i + 1) r
def padOk (p : Bytes) : Bool := padOkFrom 0 p

/-- `generateOpenSSHPadding(block, blockSize)`: append 1, 2, 3 … until the length is a multiple -/
def padGo : Nat → Nat → Nat → Nat → Bytes
  | 0, _, _, _ => []
  | f+1, len, i, bs => if (len + i) % bs = 0 then [] else UInt8.ofNat (i + 1) :: padGo f len (i + 1) bs
def genPadding (len bs : Nat) : Bytes := padGo bs len 0 bs

def curveOrder : Nat → Nat
  | 256 => 0xffffffff00000000ffffffffffffffffbce6faada7179e84f3b9cac2fc632551
  | 384 => 0xffffffffffffffffffffffffffffffffffffffffffffffffc7634d81f4372ddf581a0db248b0a77aecec196accc52973
  | 521 => 0x1fffffffffffffffffffffffffffffffffffffffffffffffffffffffffffffffffa51868783bf2f966b7fcc0148f709a5d03bb5c9b8899c47aebb6fb71e91386409
  | _ => 0

/-- `checkPub(priv, pub)`: `NewPublicKey(pub).Marshal()` must equal the outer blob `w.PubKey` -/
def checkPub (outer : Bytes) (k : PrivKey) (comment : Bytes) : Res :=
  if k.pub.marshal ≠ outer then .err else .ok k comment

/-- the RSA private section after `Unmarshal(pk1.Rest, &key)` -/
def parseRSAPriv (o : Oracles) (outer : Bytes) (b : Bytes) : Res :=
  if b.isEmpty then .err else
  match parseMpint b with
  | none => .err
  | some (n, b1) =>
  match parseMpint b1 with
  | none => .err
  | some (e, b2) =>
  match parseMpint b2 with
  | none => .err
  | some (d, b3) =>
  match parseMpint b3 with
  | none => .err
  | some (iqmp, b4) =>
  match parseMpint b4 with
  | none => .err
  | some (p, b5) =>
  match parseMpint b5 with
  | none => .err
  | some (q, b6) =>
  match parseString b6 with
  | none => .err
  | some (comment, pad) =>
    if !padOk pad then .err
    else if bitLen n > 16384 then .err
    else if bitLen p > 8192 ∨ bitLen q > 8192 then .err
    else if bitLen e > 24 then .err
    else if e < 3 ∨ e % 2 = 0 then .err
    else match o.rsaValid with
      | none => .oracleMiss
      | some false => .err
      | some true => checkPub outer (.rsa n e d iqmp p q) comment

def parseEdPriv (o : Oracles) (outer : Bytes) (b : Bytes) : Res :=
  if b.isEmpty then .err else
  match parseString b with
  | none => .err
  | some (pub, b1) =>
  match parseString b1 with
  | none => .err
  | some (priv, b2) =>
  match parseString b2 with
  | none => .err
  | some (comment, pad) =>
    if priv.length ≠ 64 then .err
    else if !padOk pad then .err
    else match o.edPub with
      | none => .oracleMiss
      | some derived =>
        -- !bytes.Equal(pk, key.Priv) || !bytes.Equal(key.Pub, key.Priv[32:])
        if derived ≠ priv.drop 32 ∨ pub ≠ priv.drop 32 then .err
        else checkPub outer (.ed25519 priv) comment

def parseECPriv (o : Oracles) (outer : Bytes) (b : Bytes) : Res :=
  if b.isEmpty then .err else
  match parseString b with
  | none => .err
  | some (curve, b1) =>
  match parseString b1 with
  | none => .err
  | some (pub, b2) =>
  match parseMpint b2 with
  | none => .err
  | some (d, b3) =>
  match parseString b3 with
  | none => .err
  | some (comment, pad) =>
    if !padOk pad then .err else
    match curveOfName curve with
    | none => .err
    | some bits =>
      if !o.pt bits pub then .err
      else if d ≤ 0 ∨ d ≥ (curveOrder bits : Int) then .err
      else match o.ecPub with
        | none => .oracleMiss
        | some derived => if derived ≠ pub then .err else checkPub outer (.ecdsa bits pub d) comment

/-- the decrypted private block: check1 = check2, key type, per-type section -/
def parsePrivBlock (o : Oracles) (outer : Bytes) (encrypted : Bool) (blk : Bytes) : Res :=
  let bad : Res := if encrypted then .badPass else .err
  if blk.isEmpty then bad else
  match parseU32 blk with
  | none => bad
  | some (c1, b1) =>
  match parseU32 b1 with
  | none => bad
  | some (c2, b2) =>
  match parseString b2 with
  | none => bad
  | some (keytype, rest) =>
    if c1 ≠ c2 then bad
    else if keytype = algoRSA then parseRSAPriv o outer rest
    else if keytype = algoED25519 then parseEdPriv o outer rest
    else if keytype = algoECDSA256 ∨ keytype = algoECDSA384 ∨ keytype = algoECDSA521 then parseECPriv o outer rest
    else .err

structure Container where
  cipher : Bytes
  kdf : Bytes
  kdfOpts : Bytes
  numKeys : Nat
  pubKey : Bytes
  privBlock : Bytes

/-- magic + `Unmarshal(remaining, &w)` (trailing bytes go to `Rest` and are ignored) -/
def parseContainer (key : Bytes) : Option Container :=
  if key.take magic.length ≠ magic then none else
  let b := key.drop magic.length
  if b.isEmpty then none else
  match parseString b with
  | none => none
  | some (cipher, b1) =>
  match parseString b1 with
  | none => none
  | some (kdf, b2) =>
  match parseString b2 with
  | none => none
  | some (kdfOpts, b3) =>
  match parseU32 b3 with
  | none => none
  | some (nk, b4) =>
  match parseString b4 with
  | none => none
  | some (pub, b5) =>
  match parseString b5 with
  | none => none
  | some (blk, _) => some ⟨cipher, kdf, kdfOpts, nk, pub, blk⟩

def none_ := nm "none"

/-- `parseOpenSSHPrivateKey(key, unencryptedOpenSSHKey)` — ParseRawPrivateKey -/
def parsePlain (o : Oracles) (key : Bytes) : Res :=
  match parseContainer key with
  | none => .err
  | some w =>
    if w.numKeys ≠ 1 then .err
    else if w.kdf ≠ none_ ∨ w.cipher ≠ none_ then
      (match parsePublicKey o.pt w.pubKey with
       | none => .err
       | some k => match k.marshal with | some m => .needPass m | none => .err)
    else if !w.kdfOpts.isEmpty then .err
    else parsePrivBlock o w.pubKey false w.privBlock

/-- `parseOpenSSHPrivateKey(key, passphraseProtectedOpenSSHKey(passphrase))` -/
def parseWithPass (o : Oracles) (passphrase : Bytes) (key : Bytes) : Res :=
  match parseContainer key with
  | none => .err
  | some w =>
    if w.numKeys ≠ 1 then .err
    else if w.kdf = none_ ∨ w.cipher = none_ then .err
    else if w.kdf ≠ nm "bcrypt" then .err
    else
      -- Unmarshal(kdfOpts, &struct{Salt string; Rounds uint32})
      if w.kdfOpts.isEmpty then .err else
      match parseString w.kdfOpts with
      | none => .err
      | some (salt, r1) =>
        match parseU32 r1 with
        | none => .err
        | some (rounds, r2) =>
          if !r2.isEmpty then .err
          else if rounds > 2048 then .err
          else
            let cbc := w.cipher = nm "aes256-cbc"
            let ctr := w.cipher = nm "aes256-ctr"
            -- k, err := bcrypt_pbkdf.Key(passphrase, salt, rounds, 32+16)
            match XC.C19.key passphrase salt rounds 48 with
            | .err => .err                        -- rounds 0, empty salt, empty passphrase
            | .panic => .err                      -- unreachable for keyLen = 48
            | .ok k =>
              if !ctr ∧ !cbc then .err
              else if cbc ∧ w.privBlock.length % 16 ≠ 0 then .err
              else match o.dec with
                | none => .oracleMiss
                | some (used, plain) =>
                  if used ≠ k then .kdfMismatch else parsePrivBlock o w.pubKey true plain

/-! ## marshalOpenSSHPrivateKey -/

def keytypeOf : PrivKey → Bytes
  | .rsa .. => algoRSA
  | .ed25519 _ => algoED25519
  | .ecdsa bits _ _ => nm "ecdsa-sha2-" ++ curveName bits

/-- per-type private section (without comment / padding) -/
def privFields : PrivKey → Bytes
  | .rsa n e d iqmp p q => putMpint n ++ putMpint e ++ putMpint d ++ putMpint iqmp ++ putMpint p ++ putMpint q
  | .ed25519 priv => putString (priv.drop 32) ++ putString priv
  | .ecdsa bits pt d => putString (curveName bits) ++ putString pt ++ putMpint d

/-- `Marshal(pk1)` followed by generateOpenSSHPadding -/
def privBlockOf (k : PrivKey) (comment : Bytes) (check : Nat) (blockSize : Nat) : Bytes :=
  let body := putU32 check ++ putU32 check ++ putString (keytypeOf k) ++ privFields k ++ putString comment
  body ++ genPadding body.length blockSize

/-- the unencrypted file `MarshalPrivateKey` writes (check = the random uint32) -/
def marshalPlain (k : PrivKey) (comment : Bytes) (check : Nat) : Bytes :=
  magic ++ putString none_ ++ putString none_ ++ putString [] ++ putU32 1 ++ putString k.pub.marshal ++
    putString (privBlockOf k comment check 8)

/-! ## the PEM front end: ParseRawPrivateKey / ParseRawPrivateKeyWithPassphrase / ParsePrivateKey(WithPassphrase)
   for the non-OpenSSH block types.  encoding/pem, crypto/x509 (PKCS#1, PKCS#8, SEC1, legacy PEM
   encryption) and encoding/asn1 are stdlib: their answers are oracle fields; the dispatch, the error
   classes and ParseDSAPrivateKey's trailing-garbage rule are the repo's. -/

/-- what the selected stdlib parser says about the DER bytes -/
inductive DerRes where
  | ok (kind : Bytes) (pub : Bytes)   -- key kind ("rsa", "ecdsa256", "ecdsa224", "ed25519", "dsa") and its SSH public blob
  | structural                        -- asn1.StructuralError returned as such
  | err                               -- any other error
deriving DecidableEq, Repr

structure PemIn where
  /-- pem.Decode found no block -/
  noBlock : Bool
  ptype : Bytes
  /-- block.Headers["Proc-Type"] -/
  procType : Bytes
  /-- x509.IsEncryptedPEMBlock -/
  isEncPEM : Bool
  /-- x509.DecryptPEMBlock: 0 = ok, 1 = x509.IncorrectPasswordError, 2 = other error -/
  decrypt : Nat
  /-- the parser selected by the block type, on the (decrypted) DER -/
  der : DerRes
  /-- DSA only: asn1.Unmarshal left trailing bytes -/
  dsaRest : Bool
  /-- DSA only: the integers of the SEQUENCE (P, Q, Priv, Pub) and the stdlib value Exp(G, Priv, P) -/
  dsaP : Int := 0
  dsaQ : Int := 0
  dsaX : Int := 0
  dsaY : Int := 0
  dsaExp : Int := 0
  /-- DSA only: G, the stdlib answers Q.ProbablyPrime(20) and Exp(G, Q, P) -/
  dsaG : Int := 0
  dsaQPrime : Bool := false
  dsaGQ : Int := 0

inductive PemRes where
  | err | needPass | badPass
  | ok (kind : Bytes) (pub : Bytes)
deriving DecidableEq, Repr

def isInfixB (pat : Bytes) : Bytes → Bool
  | [] => pat.isEmpty
  | b :: r => (pat.isPrefixOf (b :: r)) || isInfixB pat r

/-- `encryptedBlock`: Proc-Type mentions ENCRYPTED -/
def encryptedBlock (i : PemIn) : Bool := isInfixB (nm "ENCRYPTED") i.procType

def tyRSA := nm "RSA PRIVATE KEY"
def tyPKCS8 := nm "PRIVATE KEY"
def tyEC := nm "EC PRIVATE KEY"
def tyDSA := nm "DSA PRIVATE KEY"
def tyOpenSSH := nm "OPENSSH PRIVATE KEY"

/-- the consistency test added by a54718d:
    `P.Sign() <= 0 || Priv.Sign() <= 0 || Priv.Cmp(Q) >= 0 || Exp(G, Priv, P) != Pub` ⇒ error -/
def dsaConsistent (i : PemIn) : Bool :=
  decide (0 < i.dsaP) && decide (0 < i.dsaX) && decide (i.dsaX < i.dsaQ) && decide (i.dsaExp = i.dsaY)

/-- the group test added by f1d7a77: (P, Q, G) must be a DSA group —
    `P <= 0 || Q <= 0 || !Q.ProbablyPrime(20) || (P-1) mod Q != 0 || G <= 1 || G >= P || Exp(G, Q, P) != 1` ⇒ error -/
def dsaGroup (i : PemIn) : Bool :=
  decide (0 < i.dsaP) && decide (0 < i.dsaQ) && i.dsaQPrime && decide ((i.dsaP - 1) % i.dsaQ = 0) &&
  decide (1 < i.dsaG) && decide (i.dsaG < i.dsaP) && decide (i.dsaGQ = 1)

/-- `ParseDSAPrivateKey` on top of the asn1 oracle: nothing after the SEQUENCE, the parameters form a
    DSA group, then the public value must be the one belonging to the private value -/
def dsaDer (i : PemIn) : DerRes :=
  match i.der with
  | .ok k p =>
    if i.dsaRest then .err else if !dsaGroup i then .err else if !dsaConsistent i then .err else .ok k p
  | _ => .err           -- the asn1 error is re-wrapped with errors.New: never a StructuralError

/-- `ParseRawPrivateKey` for block types other than OPENSSH PRIVATE KEY -/
def pemRawPlain (i : PemIn) : PemRes :=
  if i.noBlock then .err
  else if encryptedBlock i then .needPass
  else
    let fromDer (d : DerRes) : PemRes := match d with | .ok k p => .ok k p | _ => .err
    if i.ptype = tyRSA ∨ i.ptype = tyPKCS8 ∨ i.ptype = tyEC then fromDer i.der
    else if i.ptype = tyDSA then fromDer (dsaDer i)
    else .err

/-- `ParseRawPrivateKeyWithPassphrase` for block types other than OPENSSH PRIVATE KEY -/
def pemRawPass (i : PemIn) : PemRes :=
  if i.noBlock then .err
  else if !encryptedBlock i || !i.isEncPEM then .err           -- "ssh: not an encrypted key"
  else if i.decrypt = 1 then .badPass
  else if i.decrypt ≠ 0 then .err
  else
    let d : DerRes :=
      if i.ptype = tyRSA ∨ i.ptype = tyEC then i.der
      else if i.ptype = tyDSA then dsaDer i
      else .err                                                 -- unsupported type (incl. PKCS#8)
    match d with
    | .ok k p => .ok k p
    | .structural => .badPass       -- noise after a wrong passphrase that DecryptPEMBlock did not notice
    | .err => .err

/-- `NewSignerFromKey` on a parsed key: unsupported curves and out-of-range DSA parameters are refused.
    `dsaOk` = checkDSAParams (|P| = 1024 bits, |Q| = 160 bits, 0 < G < P). -/
def signerOf (r : PemRes) (dsaOk : Bool) : PemRes :=
  match r with
  | .ok k p =>
    if k = nm "ecdsa224" then .err
    else if k = nm "dsa" ∧ !dsaOk then .err
    else .ok k p
  | x => x

/-- `checkDSAParams` -/
def checkDSAParams (p q g : Int) : Bool :=
  bitLen p = 1024 && bitLen q = 160 && decide (g < p) && decide (0 < g)

end XC.C39
