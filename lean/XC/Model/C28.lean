/-
  C28 — SSH algorithm negotiation (ssh/common.go: findCommon, findAgreedAlgorithms).
  Model of the code as written: eight slots, evaluated in the code's order, MAC slots
  skipped for AEAD ciphers, and the ctos/stoc ↔ Read/Write swap that depends on isClient.
-/
import XC.Basic
namespace XC.C28

/-- the ten name-lists of a KEXINIT that take part in negotiation -/
structure Init where
  kex : List String
  hostKey : List String
  cipherCS : List String
  cipherSC : List String
  macCS : List String
  macSC : List String
  compCS : List String
  compSC : List String

structure Dir where
  cipher : String := ""
  mac : String := ""
  comp : String := ""
deriving DecidableEq, Repr

structure Algs where
  kex : String
  hostKey : String
  write : Dir
  read : Dir
deriving DecidableEq, Repr

/-- `findCommon`: first entry of the client's list that also occurs in the server's list -/
def findCommon (client server : List String) : Option String :=
  client.find? (fun c => server.contains c)

def aead (c : String) : Bool :=
  c == "aes128-gcm@openssh.com" || c == "aes256-gcm@openssh.com" || c == "chacha20-poly1305@openssh.com"

/-- direction-independent result: (kex, hostKey, ctos, stoc) -/
def negotiate (c s : Init) : Option (String × String × Dir × Dir) := do
  let kex ← findCommon c.kex s.kex
  let hk ← findCommon c.hostKey s.hostKey
  let ccs ← findCommon c.cipherCS s.cipherCS
  let csc ← findCommon c.cipherSC s.cipherSC
  let mcs ← if aead ccs then some "" else findCommon c.macCS s.macCS
  let msc ← if aead csc then some "" else findCommon c.macSC s.macSC
  let zcs ← findCommon c.compCS s.compCS
  let zsc ← findCommon c.compSC s.compSC
  pure (kex, hk, ⟨ccs, mcs, zcs⟩, ⟨csc, msc, zsc⟩)

/-- `findAgreedAlgorithms isClient`: the client writes ctos and reads stoc; the server the reverse -/
def findAgreed (isClient : Bool) (c s : Init) : Option Algs :=
  match negotiate c s with
  | none => none
  | some (kex, hk, ctos, stoc) =>
    if isClient then some ⟨kex, hk, ctos, stoc⟩ else some ⟨kex, hk, stoc, ctos⟩

end XC.C28
