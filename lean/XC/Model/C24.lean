/-
  C24 — SSH wire encoding (ssh/messages.go): the reflection codec Marshal / Unmarshal, the mpint
  functions intLength / marshalInt / parseInt on `Int`, parseString / parseNameList, and `decode`.

  Model of the code as written:
  * a struct type is a `Schema` = the type bytes of field 0's `sshtype` tag + the list of field kinds;
  * a struct without fields has no type tags (`typeTags` returns nil): `Marshal` gives the empty string,
    `Unmarshal` follows the normal rules (empty input and leftover bytes are parse errors, so it never succeeds);
  * a type byte 0 in the tag never matches (`e > 0 && data[0] == e`);
  * `parseString` compares `uint32(len(in))` with the length (the truncation is modelled);
  * a `rest` field takes everything that is left, wherever it stands in the struct;
  * `parseNameList` maps empty contents to the empty list, otherwise splits at every comma;
  * `decode` answers errShortRead for the empty packet, and type 52 (userAuthSuccess) only for a
    one-byte packet (anything longer is a parse error).
-/
import XC.Basic
namespace XC.C24

/-! ## field kinds, values, schemas -/

inductive Kind where
  | bool | arr (n : Nat) | u8 | u32 | u64 | str | bytes | rest | names | mpint
  /-- a field type the codec does not support. `panics`: arrays / slices / pointers of other element types make
      Marshal panic; any other kind (int32, …) has no case in Marshal's switch and is skipped silently.
      Unmarshal answers a field error when it reaches such a field. -/
  | bad (panics : Bool)
deriving DecidableEq, Repr

inductive Val where
  | bool (b : Bool)
  | arr (bs : Bytes)
  | u8 (v : UInt8)
  | u32 (v : UInt32)
  | u64 (v : UInt64)
  | str (bs : Bytes)
  | bytes (bs : Bytes)
  | rest (bs : Bytes)
  | names (l : List Bytes)
  | mpint (n : Int)
  | bad (panics : Bool)   -- placeholder for a field of unsupported type
deriving DecidableEq, Repr

structure Schema where
  tags : List UInt8
  fields : List Kind
deriving DecidableEq, Repr

inductive Err where
  | wrongType   -- "unexpected message type"
  | short       -- the sentinel errShortRead: the input ends inside a field
  | field       -- fieldError (an untyped error): the input ends inside a `string` field
  | parse       -- parseError: empty input, or bytes left after the last field
  | panic       -- the Go code panics
deriving DecidableEq, Repr

/-! ## mpint (RFC 4251 §5) -/

/-- `big.Int.Bytes` of a natural number, least significant byte first (no zero at the top) -/
def natBytesLE (n : Nat) : Bytes :=
  if h : n = 0 then [] else UInt8.ofNat (n % 256) :: natBytesLE (n / 256)
decreasing_by omega

/-- `big.Int.Bytes`: minimal big-endian magnitude, empty for 0 -/
def natBytes (n : Nat) : Bytes := (natBytesLE n).reverse

/-- `big.Int.BitLen` -/
def bitLen (n : Nat) : Nat := if n = 0 then 0 else Nat.log2 n + 1

def lenOfBits (bl : Nat) : Nat := (if bl % 8 = 0 then 1 else 0) + (bl + 7) / 8

/-- `intLength` -/
def intLength (n : Int) : Nat :=
  if n < 0 then 4 + lenOfBits (bitLen (-n - 1).toNat)
  else if n = 0 then 4
  else 4 + lenOfBits (bitLen n.toNat)

def headD (bs : Bytes) : UInt8 := bs.headD 0

/-- the bytes `marshalInt` writes after the four length bytes -/
def intBody (n : Int) : Bytes :=
  if n < 0 then
    let bs := (natBytes (-n - 1).toNat).map (· ^^^ 0xff)
    if bs.isEmpty || headD bs &&& 0x80 == 0 then 0xff :: bs else bs
  else if n = 0 then []
  else
    let bs := natBytes n.toNat
    if !bs.isEmpty && headD bs &&& 0x80 != 0 then 0 :: bs else bs

/-- `marshalInt` into a buffer that is large enough: length (truncated to 32 bits as the code does) ‖ body -/
def marshalInt (n : Int) : Bytes :=
  let b := intBody n
  u32be (UInt32.ofNat b.length) ++ b

/-- `parseString` -/
def parseString (inp : Bytes) : Option (Bytes × Bytes) :=
  if inp.length < 4 then none else
  let length := (be32 inp).toNat
  let r := inp.drop 4
  if r.length % 4294967296 < length then none
  else some (r.take length, r.drop length)

/-- the value `parseInt` computes from the contents of the string -/
def intOfBody (c : Bytes) : Int :=
  if !c.isEmpty && headD c &&& 0x80 == 0x80 then
    - ((natOfBE (c.map (fun b => ~~~ b)) : Int) + 1)
  else (natOfBE c : Int)

def parseInt (inp : Bytes) : Option (Int × Bytes) :=
  match parseString inp with
  | none => none
  | some (c, rest) => some (intOfBody c, rest)

/-! ## name-lists -/

/-- `bytes.Split(contents, ",")` -/
def splitComma : Bytes → List Bytes
  | [] => [[]]
  | b :: r =>
    if b == 44 then [] :: splitComma r
    else match splitComma r with
      | [] => [[b]]
      | h :: t => (b :: h) :: t

def joinComma : List Bytes → Bytes
  | [] => []
  | [x] => x
  | x :: y :: r => x ++ 44 :: joinComma (y :: r)

def parseNameList (inp : Bytes) : Option (List Bytes × Bytes) :=
  match parseString inp with
  | none => none
  | some (c, rest) => if c.isEmpty then some ([], rest) else some (splitComma c, rest)

/-! ## Marshal -/

def lenPrefix (bs : Bytes) : Bytes := u32be (UInt32.ofNat bs.length) ++ bs

/-- one field as `marshalStruct` appends it; `none` = the Go code panics
    (a pre-sized mpint buffer that `marshalInt` overruns) -/
def marshalField : Val → Option Bytes
  | .bool b => some [if b then 1 else 0]
  | .arr bs => some bs
  | .u8 v => some [v]
  | .u32 v => some (u32be v)
  | .u64 v => some (u64be v)
  | .str bs => some (lenPrefix bs)
  | .bytes bs => some (lenPrefix bs)
  | .rest bs => some bs
  | .names l => some (lenPrefix (joinComma l))
  | .mpint n =>
    -- out = out[:old+intLength n]; marshalInt(out[old:], n)
    let needed := intLength n
    let m := marshalInt n
    if m.length ≤ needed then some (m ++ zeros (needed - m.length)) else none
  | .bad panics => if panics then none else some []

def marshalFields : List Val → Option Bytes
  | [] => some []
  | v :: vs =>
    match marshalField v, marshalFields vs with
    | some a, some b => some (a ++ b)
    | _, _ => none

/-- `typeTags`: the type bytes of field 0's tag; a struct without fields has none -/
def Schema.typeTags (s : Schema) : List UInt8 := if s.fields.isEmpty then [] else s.tags

/-- `Marshal`: `none` = panic -/
def marshal (s : Schema) (vs : List Val) : Option Bytes :=
  match marshalFields vs with
  | none => none
  | some body => some ((s.typeTags.take 1) ++ body)

/-- a value has the kind the struct field demands (arrays have the declared length) -/
def Val.hasKind : Val → Kind → Bool
  | .bool _, .bool => true
  | .arr bs, .arr n => bs.length == n
  | .u8 _, .u8 => true
  | .u32 _, .u32 => true
  | .u64 _, .u64 => true
  | .str _, .str => true
  | .bytes _, .bytes => true
  | .rest _, .rest => true
  | .names _, .names => true
  | .mpint _, .mpint => true
  | _, _ => false

def typed : List Val → List Kind → Bool
  | [], [] => true
  | v :: vs, k :: ks => v.hasKind k && typed vs ks
  | _, _ => false

/-! ## Unmarshal -/

def unmarshalField (k : Kind) (data : Bytes) : Except Err (Val × Bytes) :=
  match k with
  | .bool => match data with
    | [] => .error .short
    | b :: r => .ok (.bool (b != 0), r)
  | .arr n => if data.length < n then .error .short else .ok (.arr (data.take n), data.drop n)
  | .u64 => if data.length < 8 then .error .short else .ok (.u64 (be64 data), data.drop 8)
  | .u32 => if data.length < 4 then .error .short else .ok (.u32 (be32 data), data.drop 4)
  | .u8 => match data with
    | [] => .error .short
    | b :: r => .ok (.u8 b, r)
  | .str => match parseString data with
    | none => .error .field
    | some (s, r) => .ok (.str s, r)
  | .bytes => match parseString data with
    | none => .error .short
    | some (s, r) => .ok (.bytes s, r)
  | .rest => .ok (.rest data, [])
  | .names => match parseNameList data with
    | none => .error .short
    | some (l, r) => .ok (.names l, r)
  | .mpint => match parseInt data with
    | none => .error .short
    | some (n, r) => .ok (.mpint n, r)
  | .bad _ => .error .field

def unmarshalFields : List Kind → Bytes → Except Err (List Val × Bytes)
  | [], data => .ok ([], data)
  | k :: ks, data =>
    match unmarshalField k data with
    | .error e => .error e
    | .ok (v, r) =>
      match unmarshalFields ks r with
      | .error e => .error e
      | .ok (vs, r') => .ok (v :: vs, r')

/-- `Unmarshal` -/
def unmarshal (s : Schema) (data : Bytes) : Except Err (List Val) :=
  match data with
  | [] => .error .parse
  | d0 :: tl =>
    let body : Except Err Bytes :=
      if s.typeTags.isEmpty then .ok data
      else if s.typeTags.any (fun e => e > 0 && d0 == e) then .ok tl
      else .error .wrongType
    match body with
    | .error e => .error e
    | .ok b =>
      match unmarshalFields s.fields b with
      | .error e => .error e
      | .ok (vs, r) => if r.isEmpty then .ok vs else .error .parse

/-! ## the message structs of messages.go and the hook file's struct zoo -/

open Kind in
def schemaOf : String → Option Schema
  | "disconnectMsg" => some ⟨[1], [u32, str, str]⟩
  | "kexInitMsg" => some ⟨[20], [arr 16, names, names, names, names, names, names, names, names, names, names, bool, u32]⟩
  | "kexDHInitMsg" => some ⟨[30], [mpint]⟩
  | "kexECDHInitMsg" => some ⟨[30], [bytes]⟩
  | "kexECDHReplyMsg" => some ⟨[31], [bytes, bytes, bytes]⟩
  | "kexDHReplyMsg" => some ⟨[31], [bytes, mpint, bytes]⟩
  | "kexDHGexGroupMsg" => some ⟨[31], [mpint, mpint]⟩
  | "kexDHGexInitMsg" => some ⟨[32], [mpint]⟩
  | "kexDHGexReplyMsg" => some ⟨[33], [bytes, mpint, bytes]⟩
  | "kexDHGexRequestMsg" => some ⟨[34], [u32, u32, u32]⟩
  | "serviceRequestMsg" => some ⟨[5], [str]⟩
  | "serviceAcceptMsg" => some ⟨[6], [str]⟩
  | "extInfoMsg" => some ⟨[7], [u32, rest]⟩
  | "userAuthRequestMsg" => some ⟨[50], [str, str, str, rest]⟩
  | "userAuthSuccessMsg" => some ⟨[], []⟩
  | "userAuthFailureMsg" => some ⟨[51], [names, bool]⟩
  | "userAuthBannerMsg" => some ⟨[53], [str, str]⟩
  | "userAuthInfoRequestMsg" => some ⟨[60], [str, str, str, u32, rest]⟩
  | "channelOpenMsg" => some ⟨[90], [str, u32, u32, u32, rest]⟩
  | "channelDataMsg" => some ⟨[94], [u32, u32, rest]⟩
  | "channelOpenConfirmMsg" => some ⟨[91], [u32, u32, u32, u32, rest]⟩
  | "channelOpenFailureMsg" => some ⟨[92], [u32, u32, str, str]⟩
  | "channelRequestMsg" => some ⟨[98], [u32, str, bool, rest]⟩
  | "channelRequestSuccessMsg" => some ⟨[99], [u32]⟩
  | "channelRequestFailureMsg" => some ⟨[100], [u32]⟩
  | "channelCloseMsg" => some ⟨[97], [u32]⟩
  | "channelEOFMsg" => some ⟨[96], [u32]⟩
  | "globalRequestMsg" => some ⟨[80], [str, bool, rest]⟩
  | "globalRequestSuccessMsg" => some ⟨[81], [rest]⟩
  | "globalRequestFailureMsg" => some ⟨[82], [rest]⟩
  | "windowAdjustMsg" => some ⟨[93], [u32, u32]⟩
  | "userAuthPubKeyOkMsg" => some ⟨[60], [str, bytes]⟩
  | "userAuthGSSAPIResponse" => some ⟨[60], [bytes]⟩
  | "userAuthGSSAPIToken" => some ⟨[61], [bytes]⟩
  | "userAuthGSSAPIMIC" => some ⟨[66], [bytes]⟩
  | "userAuthGSSAPIErrTok" => some ⟨[64], [bytes]⟩
  | "userAuthGSSAPIError" => some ⟨[65], [u32, u32, str, str]⟩
  | "pingMsg" => some ⟨[192], [str]⟩
  | "pongMsg" => some ⟨[193], [str]⟩
  | "VerifZooAll" => some ⟨[200], [bool, arr 4, arr 0, u8, u32, u64, str, bytes, names, mpint, rest]⟩
  | "VerifZooNoTag" => some ⟨[], [u32, str, names, mpint, bool]⟩
  | "VerifZooMulti" => some ⟨[201, 202, 0], [str, mpint, mpint]⟩
  | "VerifZooRestMid" => some ⟨[203], [u8, rest, arr 0, rest, bytes]⟩
  | "VerifZooInts" => some ⟨[204], [mpint, mpint, mpint, u64]⟩
  | "VerifZooNames" => some ⟨[205], [names, names, str, names]⟩
  | "VerifZooBytes" => some ⟨[], [bytes, arr 1, bytes, u8, arr 7]⟩
  | "VerifZooBadArray" => some ⟨[206], [u32, bad true]⟩
  | "VerifZooBadSlice" => some ⟨[207], [str, bad true]⟩
  | "VerifZooBadPtr" => some ⟨[208], [bool, bad true, u8]⟩
  | "VerifZooBadKind" => some ⟨[209], [u32, bad false, str]⟩
  | _ => none

/-- the `switch packet[0]` of `decode` -/
def decodeType : UInt8 → Option String
  | 1 => some "disconnectMsg"
  | 5 => some "serviceRequestMsg"
  | 6 => some "serviceAcceptMsg"
  | 7 => some "extInfoMsg"
  | 20 => some "kexInitMsg"
  | 30 => some "kexDHInitMsg"
  | 31 => some "kexDHReplyMsg"
  | 50 => some "userAuthRequestMsg"
  | 52 => some "userAuthSuccessMsg"
  | 51 => some "userAuthFailureMsg"
  | 53 => some "userAuthBannerMsg"
  | 60 => some "userAuthPubKeyOkMsg"
  | 80 => some "globalRequestMsg"
  | 81 => some "globalRequestSuccessMsg"
  | 82 => some "globalRequestFailureMsg"
  | 90 => some "channelOpenMsg"
  | 94 => some "channelDataMsg"
  | 91 => some "channelOpenConfirmMsg"
  | 92 => some "channelOpenFailureMsg"
  | 93 => some "windowAdjustMsg"
  | 96 => some "channelEOFMsg"
  | 97 => some "channelCloseMsg"
  | 98 => some "channelRequestMsg"
  | 99 => some "channelRequestSuccessMsg"
  | 100 => some "channelRequestFailureMsg"
  | 61 => some "userAuthGSSAPIToken"
  | 66 => some "userAuthGSSAPIMIC"
  | 64 => some "userAuthGSSAPIErrTok"
  | 65 => some "userAuthGSSAPIError"
  | _ => none

/-- `decode` -/
def decode (packet : Bytes) : Except Err (String × List Val) :=
  match packet with
  | [] => .error .short
  | t :: tl =>
    match decodeType t with
    | none => .error .wrongType
    | some name =>
      if t == 52 then (if tl.isEmpty then .ok (name, []) else .error .parse) else
      match schemaOf name with
      | none => .error .panic
      | some s =>
        match unmarshal s packet with
        | .error e => .error e
        | .ok vs => .ok (name, vs)

end XC.C24
