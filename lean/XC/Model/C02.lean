/-
  C02 — what Open leaves behind.  The Open functions themselves are `XC.C01.aeadOpen / xaeadOpen`
  (chacha20poly1305) and `XC.C10.openGo / boxOpen / openAnonymous` (NaCl); this file adds the model of the
  caller-visible memory effect (`sliceForAppend`: the result region is `dst[len(dst):len(dst)+n]` when the
  capacity suffices, otherwise a fresh buffer) and the single-bit-flip enumeration used by the driver.
-/
import XC.Model.C01
import XC.Model.C10_Secretbox
namespace XC.C02

/-- contents of `dst[len(dst):cap(dst)]` (`spare` bytes, all `fill` before the call) after a chacha20poly1305
    `Open`: on failure `out` (length n = |ct|-16) has been zeroed — in place iff it fitted into the capacity;
    on success the plaintext was written there iff it fitted -/
def spareAfter (spare : Nat) (fill : UInt8) (dstLen : Nat) : C01.Res → Bytes
  | .err out =>
    if out.length ≤ spare then out ++ List.replicate (spare - out.length) fill else List.replicate spare fill
  | .ok ret =>
    let pt := ret.drop dstLen
    if pt.length ≤ spare then pt ++ List.replicate (spare - pt.length) fill else List.replicate spare fill
  | .panic => List.replicate spare fill

/-- NaCl `Open` returns before `sliceForAppend` on failure: nothing is written -/
def spareAfterNacl (spare : Nat) (fill : UInt8) (dstLen : Nat) : C10.OpenRes → Bytes
  | .ok ret =>
    let pt := ret.drop dstLen
    if pt.length ≤ spare then pt ++ List.replicate (spare - pt.length) fill else List.replicate spare fill
  | _ => List.replicate spare fill

/-- flip bit `i` (bit `i % 8` of byte `i / 8`) -/
def flipBit (b : Bytes) (i : Nat) : Bytes :=
  b.set (i / 8) ((b.getD (i / 8) 0) ^^^ (1 <<< (UInt8.ofNat (i % 8))))

end XC.C02
