/-
  C22 — cryptobyte.Builder (builder.go) and the String reads that mirror it (string.go).

  A *program* is a tree of Builder calls.  `runL` interprets it the way the Go code does: ONE shared
  result buffer, a child builder = (offset, pendingLenLen) into that buffer, length prefixes reserved as
  zero bytes and patched in `flushChild` by the `l >>= 8` loop, ASN.1 children reserve one length byte and
  are promoted to long form by appending `extra` bytes and shifting the body (`copy`), per-builder sticky
  error flags that propagate upwards at flush, fixed-capacity builders, panics as explicit outcomes.

  Three places follow the code as FIXED in /repo (commits 4ba3893, 23124a6; found by this model):
   * a fixed-size builder that cannot hold the length prefix reports an error and does not run the
     continuation (before: a child with `offset+pendingLenLen` beyond the buffer → "internal error" panic);
   * a fixed-size builder that cannot hold the extra ASN.1 long-form length bytes reports an error
     (before: the failed `child.add` was ignored, a truncated body shifted and returned without error);
   * `read 0` on the empty string succeeds, also for `String(nil)`.
-/
import XC.Basic
import XC.Model.C23
namespace XC.C22

open XC.C23 (readASN1Tag read)

inductive Prog where
  /-- AddUint8/16/24/32/48/64: `w` bytes big-endian, value truncated -/
  | uint (w : Nat) (v : Nat)
  /-- AddBytes -/
  | bytes (bs : Bytes)
  /-- AddUint{8,16,24,32}LengthPrefixed -/
  | lp (k : Nat) (body : List Prog)
  /-- AddASN1(tag, …) -/
  | asn1 (tag : UInt8) (body : List Prog)
  /-- Unwrite(n) -/
  | unwrite (n : Int)
  /-- AddValue(v) where v.Marshal does AddBytes(bs) and returns nil (`ok`) or an error -/
  | value (ok : Bool) (bs : Bytes)
  /-- SetError(non-nil) -/
  | seterr
  /-- panic(BuildError{non-nil}) inside the continuation -/
  | throw
  /-- the continuation writes to its *parent* builder (misuse) -/
  | pwrite

/-- one Builder: `res` is the whole shared buffer (`len(b.result) = res.length`) -/
structure B where
  res : Bytes
  err : Bool
  off : Nat
  pll : Nat

inductive Out (α : Type) where
  | ok (a : α)
  /-- a Go panic; `internal = true` for the "cryptobyte: internal error" ones -/
  | panic (internal : Bool)
  /-- a BuildError unwinding towards the outermost continuation -/
  | thrown

/-- `Builder.add` -/
def add (cap : Option Nat) (b : B) (bs : Bytes) : B :=
  if b.err then b else
  match cap with
  | some c => if b.res.length + bs.length > c then { b with err := true } else { b with res := b.res ++ bs }
  | none => { b with res := b.res ++ bs }

/-- the length-patching loop of flushChild: `for i := k-1; i >= 0; i-- { res[off+i] = uint8(l); l >>= 8 }`;
    returns the buffer and the left-over `l` -/
def patchLen : Nat → Bytes → Nat → Nat → Bytes × Nat
  | 0, res, _, l => (res, l)
  | i + 1, res, off, l => patchLen i (res.set (off + i) (UInt8.ofNat l)) off (l >>> 8)

/-- Go `copy(res[dst:], res[src:])` (memmove semantics), `src ≤ dst ≤ len` -/
def copyWithin (res : Bytes) (dst src : Nat) : Bytes :=
  res.take dst ++ (res.drop src).take (res.length - dst)

/-- number of additional length octets an ASN.1 child of `length` content bytes needs (`lenLen - 1`) -/
def asn1Extra (length : Nat) : Nat :=
  if length > 0xffffff then 4 else if length > 0xffff then 3 else if length > 0xff then 2
  else if length > 0x7f then 1 else 0

/-- the first length octet (`lenByte`) -/
def asn1LenByte (length : Nat) : UInt8 :=
  if length > 0xffffff then 0x84 else if length > 0xffff then 0x83 else if length > 0xff then 0x82
  else if length > 0x7f then 0x81 else UInt8.ofNat length

/-- `flushChild` for a child `c` of `b` whose own child is already flushed -/
def flush (cap : Option Nat) (isASN1 : Bool) (b c : B) : Out B :=
  if c.err then .ok { b with err := true } else
  if c.res.length < c.pll + c.off then .panic true else
  let length := c.res.length - c.pll - c.off
  if isASN1 then
    if c.pll != 1 then .panic true else
    if length > 0xfffffffe then .ok { b with err := true } else
    let extra := asn1Extra length
    let res1 := c.res.set c.off (asn1LenByte length)
    if extra = 0 then
      -- short form: `length = 0`, `pendingLenLen = 0`: the patch loop does nothing
      .ok { b with res := res1 }
    else
      let c1 := add cap { c with res := res1 } (zeros extra)
      if c1.err then .ok { b with err := true } else   -- `if child.err != nil { b.err = child.err; return }`
      let res2 := copyWithin c1.res (c.off + c.pll + extra) (c.off + c.pll)
      let (res3, l) := patchLen extra res2 (c.off + 1) length
      if l != 0 then .ok { b with err := true } else .ok { b with res := res3 }
  else
    let (res3, l) := patchLen c.pll c.res c.off length
    if l != 0 then .ok { b with err := true } else .ok { b with res := res3 }

/-- addLengthPrefixed after the continuation has produced `r` (callContinuation's recover + flushChild) -/
def finish (cap : Option Nat) (top isASN1 : Bool) (b1 : B) (r : Out B) : Out B :=
  match r with
  | .panic i => .panic i
  | .thrown => if top then .ok { b1 with err := true } else .thrown
  | .ok c => flush cap isASN1 b1 c

mutual
/-- one Builder call on builder `b`; `top` = not inside a continuation -/
def runP (cap : Option Nat) (top : Bool) : Prog → B → Out B
  | .uint w v, b => .ok (add cap b (natToBE w v))
  | .bytes bs, b => .ok (add cap b bs)
  | .value ok bs, b =>
    let b' := add cap b bs
    .ok (if ok then b' else { b' with err := true })
  | .seterr, b => .ok { b with err := true }
  | .throw, _ => if top then .panic false else .thrown
  | .pwrite, _ => .panic false
  | .unwrite n, b =>
    if b.err then .ok b else
    if b.res.length < b.pll + b.off then .panic true else
    if n < 0 then .panic false else
    if n.toNat > b.res.length - b.pll - b.off then .panic false else
    .ok { b with res := b.res.take (b.res.length - n.toNat) }
  | .lp k body, b =>
    if b.err then .ok b else
    let b1 := add cap b (zeros k)
    if b1.err then .ok b1 else   -- `if b.err != nil { return }` after reserving the prefix
    finish cap top false b1 (runL cap false body ⟨b1.res, false, b.res.length, k⟩)
  | .asn1 tag body, b =>
    if b.err then .ok b else
    if tag &&& 0x1f == 0x1f then .ok { b with err := true } else
    let b0 := add cap b [tag]
    if b0.err then .ok b0 else
    let b1 := add cap b0 (zeros 1)
    if b1.err then .ok b1 else
    finish cap top true b1 (runL cap false body ⟨b1.res, false, b0.res.length, 1⟩)
def runL (cap : Option Nat) (top : Bool) : List Prog → B → Out B
  | [], b => .ok b
  | p :: ps, b =>
    match runP cap top p b with
    | .ok b' => runL cap top ps b'
    | o => o
end

inductive Result where
  | ok (bs : Bytes)
  | err
  | panic (internal : Bool)
deriving DecidableEq, Repr

/-- `NewBuilder(pre)` / `NewFixedBuilder(pre[:len:cap])`, the program, then `Bytes()` -/
def build (cap : Option Nat) (pre : Bytes) (p : List Prog) : Result :=
  match runL cap true p ⟨pre, false, 0, 0⟩ with
  | .ok b => if b.err then .err else .ok b.res
  | .panic i => .panic i
  | .thrown => .panic false

/-! ## the mirrored String reads -/

/-- `readLengthPrefixed(k)` (k = 4: ReadUint32 followed by ReadBytes) -/
def readLP (k : Nat) (s : Bytes) : Option (Bytes × Bytes) :=
  match read k s with
  | none => none
  | some (lb, s1) => read (natOfBE lb) s1

mutual
/-- read back one item and compare with what was written; returns the rest -/
def parseP : Prog → Bytes → Option Bytes
  | .uint w v, s =>
    match read w s with
    | some (x, r) => if natOfBE x == v % 256 ^ w then some r else none
    | none => none
  | .bytes bs, s =>
    match read bs.length s with
    | some (x, r) => if x == bs then some r else none
    | none => none
  | .value true bs, s =>
    match read bs.length s with
    | some (x, r) => if x == bs then some r else none
    | none => none
  | .lp k body, s =>
    match readLP k s with
    | some (c, r) =>
      match parseL body c with
      | some [] => some r
      | _ => none
    | none => none
  | .asn1 tag body, s =>
    match readASN1Tag tag s with
    | some (c, r) =>
      match parseL body c with
      | some [] => some r
      | _ => none
    | none => none
  | _, _ => none
def parseL : List Prog → Bytes → Option Bytes
  | [], s => some s
  | p :: ps, s =>
    match parseP p s with
    | some r => parseL ps r
    | none => none
end

/-- the whole output is consumed -/
def roundTrips (p : List Prog) (bs : Bytes) : Bool :=
  match parseL p bs with
  | some [] => true
  | _ => false

/-! ## Unwrite elimination (which values are left to read back) -/

/-- byte length of an item that Unwrite may remove as a whole (directly written data) -/
def simpleLen : Prog → Option Nat
  | .uint w _ => some w
  | .bytes bs => some bs.length
  | .value true bs => some bs.length
  | _ => none

/-- pop whole simple items (top of `stk` = most recent) until `n` bytes are removed -/
def popN : Nat → List Prog → Option (List Prog)
  | 0, stk => some stk
  | _ + 1, [] => none
  | n + 1, p :: stk =>
    match simpleLen p with
    | some l => if l ≤ n + 1 then popN (n + 1 - l) stk else none
    | none => none

mutual
def normP : Prog → Option Prog
  | .lp k body => (normL body []).map (Prog.lp k)
  | .asn1 t body => (normL body []).map (Prog.asn1 t)
  | .uint w v => some (.uint w v)
  | .bytes bs => some (.bytes bs)
  | .value true bs => some (.value true bs)
  | _ => none
/-- `normL items stk`: `stk` is the reversed list of items kept so far -/
def normL : List Prog → List Prog → Option (List Prog)
  | [], stk => some stk.reverse
  | .unwrite n :: ps, stk =>
    if n < 0 then none else
    match popN n.toNat stk with
    | some stk' => normL ps stk'
    | none => none
  | p :: ps, stk =>
    match normP p with
    | some q => normL ps (q :: stk)
    | none => none
end

/-- the program whose reads mirror `p` built on top of the initial buffer `pre` -/
def mirror (pre : Bytes) (p : List Prog) : Option (List Prog) :=
  normL p (if pre.isEmpty then [] else [.bytes pre])


/-! ## String reads on arbitrary input (every Read*/Skip/CopyBytes/Empty of string.go) -/

inductive ReadOp where
  | uint (w : Nat)          -- ReadUint8/16/24/32/48/64
  | bytes (n : Int)         -- ReadBytes(&out, n)
  | copy (n : Nat)          -- CopyBytes(make([]byte, n))
  | skip (n : Int)          -- Skip(n)
  | lp (k : Nat)            -- ReadUint8/16/24LengthPrefixed
  | empty                   -- Empty()

/-- `String.read(n)` with Go's `n < 0` guard -/
def readI (n : Int) (s : Bytes) : Option (Bytes × Bytes) :=
  if n < 0 then none else read n.toNat s

/-- one read: the value reported (as bytes; Empty: one byte 0/1) and the remaining string -/
def runRead : ReadOp → Bytes → Option (Bytes × Bytes)
  | .uint w, s => read w s
  | .bytes n, s => readI n s
  | .copy n, s => read n s
  | .skip n, s => (readI n s).map fun (_, r) => ([], r)
  | .lp k, s => readLP k s
  | .empty, s => some ([if s.isEmpty then 1 else 0], s)

/-- run reads until the first failure: (values so far, index of the failing op or none, rest) -/
def runReads : List ReadOp → Bytes → Nat → List Bytes → List Bytes × Option Nat × Bytes
  | [], s, _, acc => (acc.reverse, none, s)
  | op :: ops, s, i, acc =>
    match runRead op s with
    | some (v, r) => runReads ops r (i + 1) (v :: acc)
    | none => (acc.reverse, some i, s)

end XC.C22
