/-
  C35 — the flow-control LTS generalised:
    * `SysC`  one channel, SEVERAL data streams (stdout + extended codes; one writer goroutine per stream, as
              WriteExtended requires) sharing ONE window, with the wake semantics of `window` (sync.Cond):
              a writer that finds win = 0 in `reserve` parks in Cond.Wait; `window.add` wakes parked writers
              (`wake`: Broadcast = all of them — the code as written; Signal = one of them — the seeded bug).
    * `SysM`  several channels sharing the two wire directions (one FIFO of tagged data packets, one FIFO of
              tagged window adjusts); every channel of a `SysM` run is, by projection, a `SysC` run.
  The primitive functions (`nextPacket`, `addWin`, `handleData`, `readExt`, `adjustWindow`) are those of Model/C35.
-/
import XC.Model.C35
namespace XC.C35

structure Stream where
  code : Nat            -- 0 = stdout, 1 = stderr, > 1 other extended data (discarded by the receiver)
  data : Bytes'         -- ghost: everything this writer was asked to write
  toSend : Bytes'
  sent : Bytes'         -- ghost
  parked : Bool         -- inside window.reserve, blocked in Cond.Wait (saw win = 0)
deriving DecidableEq, Repr

def unparkAll (ss : List Stream) : List Stream := ss.map (fun st => { st with parked := false })

/-- Cond.Signal: wake (at most) one waiter -/
def unparkFirst : List Stream → List Stream
  | [] => []
  | st :: rest => if st.parked then { st with parked := false } :: rest else st :: unparkFirst rest

structure SysC where
  win : Nat
  maxPayload : Nat
  streams : List Stream
  dataWire : List (Nat × Bytes')       -- (extended code, payload), FIFO
  adjWire : List Nat
  rcv : Rcv
  unread0 : Bytes'                      -- receiver: `pending`
  unread1 : Bytes'                      -- receiver: `extPending`
  read0 : Bytes'
  read1 : Bytes'
  granted : Nat
  used : Nat
  complained : Bool
  overflowed : Bool
deriving Repr

/-- initial window `W` on both sides (the code: W = channelWindowSize) -/
def SysC.init (W maxPayload : Nat) (writes : List (Nat × Bytes')) : SysC :=
  { win := W, maxPayload := maxPayload,
    streams := writes.map (fun w => ⟨w.1, w.2, w.2, [], false⟩),
    dataWire := [], adjWire := [],
    rcv := { Rcv.init with myWindow := W, winSize := W },
    unread0 := [], unread1 := [], read0 := [], read1 := [], granted := W, used := 0,
    complained := false, overflowed := false }

inductive ActC
  | send (k : Nat)              -- writer of stream k: one WriteExtended loop iteration (reserve; writePacket)
  | deliverData
  | read (code n : Nat)         -- application reads stdout (0) / stderr (1) with an n-byte buffer
  | deliverAdj
deriving DecidableEq, Repr

def wireLen (l : List (Nat × Bytes')) : Nat := (l.map (fun p => p.2.length)).sum

/-- payloads of stream `code` on the wire, in order -/
def wireOf (code : Nat) (l : List (Nat × Bytes')) : List Bytes' := (l.filter (fun p => p.1 = code)).map (·.2)

def stepC (wake : List Stream → List Stream) (s : SysC) : ActC → Option SysC
  | .send k =>
    match s.streams[k]? with
    | none => none
    | some st =>
      if st.toSend.isEmpty || st.parked then none else
      match nextPacket s.win s.maxPayload st.toSend.length with
      | none => some { s with streams := s.streams.set k { st with parked := true } }     -- Cond.Wait
      | some (n, win') =>
        let p := st.toSend.take n
        some { s with win := win', dataWire := s.dataWire ++ [(st.code, p)], used := s.used + n,
                      streams := s.streams.set k { st with toSend := st.toSend.drop n, sent := st.sent ++ p } }
  | .deliverData =>
    match s.dataWire with
    | [] => none
    | (code, p) :: rest =>
      match handleData s.rcv code p.length p.length with
      | .error _ => some { s with dataWire := rest, complained := true }
      | .ok (r, a) =>
        some { s with dataWire := rest, rcv := r,
                      unread0 := if code = 0 then s.unread0 ++ p else s.unread0,
                      unread1 := if code = 1 then s.unread1 ++ p else s.unread1,
                      adjWire := if a = 0 then s.adjWire else s.adjWire ++ [a],
                      granted := s.granted + a }
  | .read code n =>
    if code > 1 || n = 0 then none else
    if (if code = 1 then s.rcv.extPending else s.rcv.pending) = 0 then none else
    let (r, k, a) := readExt s.rcv code n
    some { s with rcv := r,
                  unread0 := if code = 0 then s.unread0.drop k else s.unread0,
                  read0 := if code = 0 then s.read0 ++ s.unread0.take k else s.read0,
                  unread1 := if code = 1 then s.unread1.drop k else s.unread1,
                  read1 := if code = 1 then s.read1 ++ s.unread1.take k else s.read1,
                  adjWire := if a = 0 then s.adjWire else s.adjWire ++ [a],
                  granted := s.granted + a }
  | .deliverAdj =>
    match s.adjWire with
    | [] => none
    | a :: rest =>
      match addWin s.win a with
      | none => some { s with adjWire := rest, overflowed := true }
      | some w => some { s with win := w, adjWire := rest, streams := if a = 0 then s.streams else wake s.streams }

inductive ReachableC (wake : List Stream → List Stream) (init : SysC) : SysC → Prop
  | init : ReachableC wake init init
  | step {s s' : SysC} (a : ActC) : ReachableC wake init s → stepC wake s a = some s' → ReachableC wake init s'

/-! ## several channels on one connection -/

structure SysM where
  chans : List SysC                         -- per channel: endpoints' state; its own wire fields are unused ([])
  dataWire : List (Nat × Nat × Bytes')      -- (channel, code, payload): the one transport, sender → receiver
  adjWire : List (Nat × Nat)                -- (channel, bytes): receiver → sender
deriving Repr

inductive ActM
  | send (ch k : Nat)
  | deliverData
  | read (ch code n : Nat)
  | deliverAdj
deriving DecidableEq, Repr

/-- the state of channel `i` as a single-channel system: its endpoints + its share of the wires -/
def proj (m : SysM) (i : Nat) : Option SysC :=
  (m.chans[i]?).map (fun c =>
    { c with dataWire := (m.dataWire.filter (fun p => p.1 = i)).map (·.2),
             adjWire := (m.adjWire.filter (fun p => p.1 = i)).map (·.2) })

/-- one step of the connection: the acting channel performs its `stepC` on its view; what it appended to / removed
    from its wires is appended to / removed from the shared FIFOs -/
def stepM (wake : List Stream → List Stream) (m : SysM) : ActM → Option SysM
  | .send ch k =>
    match proj m ch with
    | none => none
    | some c =>
      match stepC wake c (.send k) with
      | none => none
      | some c' =>
        let newPkts := (c'.dataWire.drop c.dataWire.length).map (fun p => (ch, p))
        some { m with chans := m.chans.set ch { c' with dataWire := [], adjWire := [] },
                      dataWire := m.dataWire ++ newPkts }
  | .deliverData =>
    match m.dataWire with
    | [] => none
    | (ch, _) :: rest =>
      match proj m ch with
      | none => none
      | some c =>
        match stepC wake c .deliverData with
        | none => none
        | some c' =>
          let newAdj := (c'.adjWire.drop c.adjWire.length).map (fun a => (ch, a))
          some { chans := m.chans.set ch { c' with dataWire := [], adjWire := [] },
                 dataWire := rest, adjWire := m.adjWire ++ newAdj }
  | .read ch code n =>
    match proj m ch with
    | none => none
    | some c =>
      match stepC wake c (.read code n) with
      | none => none
      | some c' =>
        let newAdj := (c'.adjWire.drop c.adjWire.length).map (fun a => (ch, a))
        some { m with chans := m.chans.set ch { c' with dataWire := [], adjWire := [] },
                      adjWire := m.adjWire ++ newAdj }
  | .deliverAdj =>
    match m.adjWire with
    | [] => none
    | (ch, _) :: rest =>
      match proj m ch with
      | none => none
      | some c =>
        match stepC wake c .deliverAdj with
        | none => none
        | some c' =>
          some { m with chans := m.chans.set ch { c' with dataWire := [], adjWire := [] }, adjWire := rest }

def SysM.init (W : Nat) (chs : List (Nat × List (Nat × Bytes'))) : SysM :=
  { chans := chs.map (fun c => SysC.init W c.1 c.2), dataWire := [], adjWire := [] }

inductive ReachableM (wake : List Stream → List Stream) (init : SysM) : SysM → Prop
  | init : ReachableM wake init init
  | step {m m' : SysM} (a : ActM) : ReachableM wake init m → stepM wake m a = some m' → ReachableM wake init m'

end XC.C35

namespace XC.C35

/-! ## the NON-atomic variant of adjustWindow (a seeded defect, not the code in /repo)
    `adjustWindow` must advertise and credit in ONE critical section.  `stepS` is the LTS in which ReadExtended first
    puts the window adjust on the wire and credits `myWindow` only in a later step: between the two the receiver's own
    window is smaller than what it has advertised. -/

structure SysS where
  c : SysC
  uncredited : Nat        -- advertised on the wire, not yet added to myWindow
deriving Repr

inductive ActS
  | base (a : ActC)                 -- send / deliverData / deliverAdj as in `stepC`; `read` is replaced by the two below
  | readAdvertise (code n : Nat)    -- ReadExtended: take the bytes, reset myConsumed, WRITE the adjust
  | credit                          -- …and only now `myWindow += sendAdj`
deriving DecidableEq, Repr

def stepS (s : SysS) : ActS → Option SysS
  | .base (.read _ _) => none
  | .base a => (stepC unparkAll s.c a).map (fun c' => { s with c := c' })
  | .readAdvertise code n =>
    match stepC unparkAll s.c (.read code n) with
    | none => none
    | some c' =>
      let a := c'.granted - s.c.granted                       -- the adjust this read put on the wire
      some { c := { c' with rcv := { c'.rcv with myWindow := c'.rcv.myWindow - a } }, uncredited := s.uncredited + a }
  | .credit =>
    if s.uncredited = 0 then none
    else some { c := { s.c with rcv := { s.c.rcv with myWindow := s.c.rcv.myWindow + s.uncredited } }, uncredited := 0 }

def runS : SysS → List ActS → Option SysS
  | s, [] => some s
  | s, a :: as => match stepS s a with
    | none => none
    | some s' => runS s' as

inductive ReachableS (init : SysS) : SysS → Prop
  | init : ReachableS init init
  | step {s s' : SysS} (a : ActS) : ReachableS init s → stepS s a = some s' → ReachableS init s'

end XC.C35
