/-
  C33 — server authentication limits and bindings.  The executable model is the auth loop of
  XC.Model.C32 (same function, same hook); this file adds the *specification-side* definitions the
  C33 theorems relate it to: failure counting as a function of the observable log, and
  source-address matching stated as "some entry matches and nothing unparsable precedes it".
-/
import XC.Model.C32
namespace XC.C33
open XC.C32

/-- (failures, number of `none` requests) after one more logged request: a request counts as a
    failure iff it was rejected outright (not a partial success), unless it is the first `none`
    request of the connection and no failure has been counted before it -/
def failStep (acc : Nat × Nat) : Ev → Nat × Nat
  | .log m res =>
    let nones := if m == "none" then acc.2 + 1 else acc.2
    let free := acc.1 == 0 && m == "none" && nones == 1
    (if res == .fail && !free then acc.1 + 1 else acc.1, nones)
  | _ => acc

/-- failures and `none` requests counted from the event log alone -/
def countFailures (evs : List Ev) : Nat × Nat := evs.foldl failStep (0, 0)

/-- the limit that applies (NewServerConn: 0 means 6, negative means unlimited) -/
def limit (cfg : Cfg) : Option Nat :=
  if cfg.maxAuthTries == 0 then some 6
  else if cfg.maxAuthTries < 0 then none
  else some cfg.maxAuthTries.toNat

def isMatch : SAEntry → Bool
  | .ipEq => true
  | .cidrIn => true
  | _ => false

/-- source-address semantics: the peer is a TCP address and some entry of the list matches it, no
    entry before that one being unparsable -/
def SaSpec (a : AddrKind) (es : List SAEntry) : Prop :=
  a = .tcp ∧ ∃ pre x post, es = pre ++ x :: post ∧ isMatch x = true ∧ ∀ y ∈ pre, y ≠ .bad

end XC.C33
