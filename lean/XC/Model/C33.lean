/-
  C33 — server authentication limits and bindings.  The executable model is the auth loop of
  XC.Model.C32 (same function, same hook); this file adds the *specification-side* definitions the
  C33 theorems relate it to: failure counting as a function of the observable log, and
  source-address matching stated as "some entry matches and nothing unparsable precedes it".
-/
import XC.Model.C32
namespace XC.C33
open XC.C32

/-- (failures, number of `none` requests) after one more logged request: a request counts as a
    failure iff it was rejected outright (not a partial success), unless it is the first `none`
    request of the connection and no failure has been counted before it -/
def failStep (acc : Nat × Nat) : Ev → Nat × Nat
  | .log m res =>
    let nones := if m == "none" then acc.2 + 1 else acc.2
    let free := acc.1 == 0 && m == "none" && nones == 1
    (if res == .fail && !free then acc.1 + 1 else acc.1, nones)
  | _ => acc

/-- failures and `none` requests counted from the event log alone -/
def countFailures (evs : List Ev) : Nat × Nat := evs.foldl failStep (0, 0)

/-- the limit that applies (NewServerConn: 0 means 6, negative means unlimited) -/
def limit (cfg : Cfg) : Option Nat :=
  if cfg.maxAuthTries == 0 then some 6
  else if cfg.maxAuthTries < 0 then none
  else some cfg.maxAuthTries.toNat

def isMatch : SAEntry → Bool
  | .ipEq => true
  | .cidrIn => true
  | _ => false

/-- source-address semantics: the peer is a TCP address and some entry of the list matches it, no
    entry before that one being unparsable -/
def SaSpec (a : AddrKind) (es : List SAEntry) : Prop :=
  a = .tcp ∧ ∃ pre x post, es = pre ++ x :: post ∧ isMatch x = true ∧ ∀ y ∈ pre, y ≠ .bad

/-! ## OpenSSH's rule, as read from addrmatch.c `addr_match_cidr_list(addr, list)`

  (used by sshd for the certificate source-address option: auth-options.c / auth2-pubkey.c)
  ```
  ret = 0
  for each cp in strsep(list, ","):
     empty entry, too long, characters outside "0-9a-fA-F.:/"       -> ret = -1; break
     addr_pton_cidr(cp) fails (-1) or has host bits set (-2)        -> ret = -1; break
     else if addr_netmatch(addr, entry, masklen) == 0               -> ret = 1      (and go on)
  return ret          -- 1 = match, 0 = no match, -1 = error (the option is treated as invalid: denied)
  ```
  So OpenSSH wants EVERY entry to be valid and SOME entry to match; a bad entry after a match
  still turns the result into an error.  Go's `checkSourceAddress` returns at the first match. -/

/-- how OpenSSH classifies one entry against the peer address -/
inductive Ossh where
  | matches | noMatch | invalid
deriving DecidableEq, Repr, Inhabited

inductive OsshRes where
  | accept | deny | error
deriving DecidableEq, Repr, Inhabited

def osshWalk (ret : OsshRes) : List Ossh → OsshRes
  | [] => ret
  | .invalid :: _ => .error
  | .matches :: rest => osshWalk .accept rest
  | .noMatch :: rest => osshWalk ret rest

/-- `addr_match_cidr_list` -/
def osshList (es : List Ossh) : OsshRes := osshWalk .deny es

/-- one entry seen by both implementations -/
structure Entry2 where
  go : SAEntry
  ossh : Ossh
deriving DecidableEq, Repr, Inhabited

/-- the two entry-level classifications agree (same parse verdict, same match verdict) -/
def Entry2.agree (e : Entry2) : Bool :=
  (isMatch e.go == (e.ossh == .matches)) && ((e.go == .bad) == (e.ossh == .invalid))

end XC.C33
