/-
  C10 — NaCl box / sign / auth formats (nacl/box/box.go, nacl/sign/sign.go, nacl/auth/auth.go).
  secretbox and the box wrappers are in Model/C10_Secretbox.lean.

  Reference = the NaCl paper definitions (libsodium is not installed):
    crypto_box          = crypto_secretbox under HSalsa20(X25519(sk, pk), 0^16)
    sealed box          = epk ‖ crypto_box(m, nonce = BLAKE2b-24(epk ‖ pk), pk, esk)        (libsodium extension)
    crypto_sign         = Ed25519 signature (64 bytes) ‖ m
    crypto_auth         = first 32 bytes of HMAC-SHA-512 (HMAC-SHA-512-256)
  X25519 and Ed25519 are Go stdlib (crypto/ecdh, crypto/ed25519): their results enter as oracle values.
  HMAC-SHA-512 is the Lean stand-in `XC.Prim.hmacSha512`; BLAKE2b is `XC.C10.B2.hashShort` (RFC 7693).
-/
import XC.Model.C10_Secretbox
import XC.Model.C10_Blake2b
import XC.Prim.Hmac
namespace XC.C10

/-! ## box.go: anonymous boxes with the nonce computed (not an oracle) -/

/-- `sealNonce(ephemeralPub, peersPublicKey)` = BLAKE2b with 24 output bytes over epk ‖ pk -/
def sealNonce (epk pk : Bytes) : Bytes := B2.hashShort 24 (epk ++ pk)

/-- `SealAnonymous(out, message, recipient, rand)`: `epk` = X25519(esk, 9) and `dh` = X25519(esk, recipient)
    are oracle values for the `esk` read from `rand` -/
def sealAnon (out msg recipient epk : Bytes) (dh : Option Bytes) : Option Bytes :=
  boxSeal (out ++ epk) msg (sealNonce epk recipient) dh

/-- `OpenAnonymous(out, box, publicKey, privateKey)`; `dh` = X25519(privateKey, box[:32]) -/
def openAnon (out box pk : Bytes) (dh : Option Bytes) : OpenRes :=
  if box.length < 48 then .fail
  else boxOpen out (box.drop 32) (sealNonce (box.take 32) pk) dh

/-- `box.GenerateKey(rand)`: reads 32 bytes (`io.ReadFull`; a shorter stream is an error), public key =
    X25519(priv, 9) (oracle value) -/
def boxGenerateKey (randBytes pubOracle : Bytes) : Option (Bytes × Bytes) :=
  if randBytes.length < 32 then none else some (pubOracle, randBytes.take 32)

/-- `SealAnonymous` reads the ephemeral key from `rand` first: a short stream is an error -/
def sealAnonRand (out msg recipient randBytes epk : Bytes) (dh : Option Bytes) : Option (Option Bytes) :=
  if randBytes.length < 32 then none else some (sealAnon out msg recipient epk dh)

/-- `sign.GenerateKey(rand)` = `ed25519.GenerateKey`: 32 seed bytes; private key = seed ‖ public key (oracle) -/
def signGenerateKey (randBytes pubOracle : Bytes) : Option (Bytes × Bytes) :=
  if randBytes.length < 32 then none else some (pubOracle, randBytes.take 32 ++ pubOracle)

/-- exported constants -/
def boxOverhead : Nat := 16
def anonymousOverhead : Nat := 48
def signOverhead : Nat := 64
def authSize : Nat := 32
def authKeySize : Nat := 32

/-! ## sign.go -/

/-- `sign.Sign(out, message, privateKey)` with `sig` = ed25519.Sign(privateKey, message) (64 bytes) -/
def signGo (out msg sig : Bytes) : Bytes := out ++ sig ++ msg

/-- `sign.Open(out, signedMessage, publicKey)`; `valid` = ed25519.Verify(publicKey, signedMessage[64:], signedMessage[:64]) -/
def signOpen (out signed : Bytes) (valid : Bool) : Option Bytes :=
  if signed.length < 64 then none
  else if !valid then none
  else some (out ++ signed.drop 64)

/-! ## auth.go -/

/-- `auth.Sum(m, key)`: HMAC-SHA-512 truncated to 32 bytes -/
def authSum (m key : Bytes) : Bytes := (Prim.hmacSha512 key m).take 32

/-- `auth.Verify(digest, m, key)` -/
def authVerify (digest m key : Bytes) : Bool :=
  if digest.length != 32 then false else digest == authSum m key

end XC.C10
