/-
  C25_Prims — the remaining primitives the SSH packet layer is built on, as executable definitions:
  RC4, AES-GCM (NIST SP 800-38D, 96-bit IV), Poly1305 (RFC 8439 §2.5, arithmetic on Nat), and the
  MAC table (HMAC from XC.Prim).  Stand-ins for stdlib code (crypto/rc4, cipher.NewGCM, crypto/hmac)
  and for the repo's poly1305 (decided by C04; here written again from the RFC, independently).
-/
import XC.Basic
import XC.Prim.Hmac
import XC.Model.C25_Aes
import XC.Model.C25_Des
import XC.Model.C03_Block
namespace XC.C25

/-! ## RC4 -/

structure Rc4 where
  s : Array UInt8
  i : UInt8
  j : UInt8

def rc4Init (key : Bytes) : Rc4 :=
  let k := key.toArray
  let s0 : Array UInt8 := Array.ofFn (n := 256) fun i => UInt8.ofNat i.val
  let (s, _) := (List.range 256).foldl (fun (st : Array UInt8 × UInt8) i =>
      let (s, j) := st
      let si := s.getD i 0
      let j := j + si + k.getD (i % k.size) 0
      let sj := s.getD j.toNat 0
      ((s.setIfInBounds i sj).setIfInBounds j.toNat si, j)) (s0, (0 : UInt8))
  ⟨s, 0, 0⟩

def rc4Next (st : Rc4) : UInt8 × Rc4 :=
  let i := st.i + 1
  let si := st.s.getD i.toNat 0
  let j := st.j + si
  let sj := st.s.getD j.toNat 0
  let s := (st.s.setIfInBounds i.toNat sj).setIfInBounds j.toNat si
  (s.getD (si + sj).toNat 0, ⟨s, i, j⟩)

def rc4Go : Nat → Rc4 → Array UInt8 → Array UInt8
  | 0, _, acc => acc
  | n+1, st, acc => let (b, st) := rc4Next st; rc4Go n st (acc.push b)

/-- `n` keystream bytes after discarding the first `skip` -/
def rc4Keystream (key : Bytes) (skip n : Nat) : Array UInt8 :=
  (rc4Go (skip + n) (rc4Init key) (Array.mkEmpty (skip + n))).extract skip (skip + n)

/-! ## GCM -/

structure B128 where
  hi : UInt64
  lo : UInt64

def B128.ofBytes (b : Bytes) : B128 := ⟨be64 b, be64 (b.drop 8)⟩
def B128.toBytes (x : B128) : Bytes := u64be x.hi ++ u64be x.lo
def B128.xor (a b : B128) : B128 := ⟨a.hi ^^^ b.hi, a.lo ^^^ b.lo⟩

/-- bit `i` counted from the most significant bit (SP 800-38D numbering) -/
@[inline] def B128.bit (x : B128) (i : Nat) : Bool :=
  if i < 64 then (x.hi >>> (63 - i).toUInt64) &&& 1 != 0 else (x.lo >>> (127 - i).toUInt64) &&& 1 != 0

def gfMulGo (x : B128) : Nat → Nat → B128 → B128 → B128
  | 0, _, _, z => z
  | fuel+1, i, v, z =>
    let z := if x.bit i then z.xor v else z
    let lsb := v.lo &&& 1 != 0
    let v : B128 := ⟨v.hi >>> 1, (v.lo >>> 1) ||| (v.hi <<< 63)⟩
    let v : B128 := if lsb then ⟨v.hi ^^^ 0xe100000000000000, v.lo⟩ else v
    gfMulGo x fuel (i+1) v z

/-- SP 800-38D §6.3 multiplication in GF(2^128) -/
def gfMul (x y : B128) : B128 := gfMulGo x 128 0 y ⟨0, 0⟩

def pad16 (b : Bytes) : Bytes := b ++ zeros ((16 - b.length % 16) % 16)

def ghashGo (h : B128) : Nat → Bytes → B128 → B128
  | 0, _, y => y
  | fuel+1, bs, y =>
    if bs.isEmpty then y else
    ghashGo h fuel (bs.drop 16) (gfMul (y.xor (B128.ofBytes (bs.take 16))) h)

/-- GHASH_H(A, C) with the length block -/
def ghash (h : B128) (aad ct : Bytes) : B128 :=
  let data := pad16 aad ++ pad16 ct ++ u64be (UInt64.ofNat (8 * aad.length)) ++ u64be (UInt64.ofNat (8 * ct.length))
  ghashGo h (data.length / 16 + 1) data ⟨0, 0⟩

/-- GCTR keystream: counter blocks IV ‖ be32(ctr0), IV ‖ be32(ctr0+1), … (32-bit wrap) -/
def gctrGo (k : Aes.Key) (iv : Bytes) : Nat → UInt32 → Array UInt8 → Array UInt8
  | 0, _, acc => acc
  | blocks+1, c, acc => gctrGo k iv blocks (c + 1) (acc ++ Aes.encryptArr k (iv ++ u32be c).toArray)

def gctr (k : Aes.Key) (iv : Bytes) (c0 : UInt32) (n : Nat) : Bytes :=
  ((gctrGo k iv ((n + 15) / 16) c0 (Array.mkEmpty n)).extract 0 n).toList

def gcmTag (k : Aes.Key) (iv aad ct : Bytes) : Bytes :=
  let h := B128.ofBytes (Aes.encryptBlock k (zeros 16))
  xorBytes (ghash h aad ct).toBytes (Aes.encryptBlock k (iv ++ u32be 1))

/-- AES-GCM Seal with a 12-byte IV: ciphertext ‖ 16-byte tag -/
def gcmSeal (k : Aes.Key) (iv aad pt : Bytes) : Bytes :=
  let ct := xorBytes pt (gctr k iv 2 pt.length)
  ct ++ gcmTag k iv aad ct

/-- AES-GCM Open: `none` if shorter than a tag or the tag does not verify -/
def gcmOpen (k : Aes.Key) (iv aad c : Bytes) : Option Bytes :=
  if c.length < 16 then none else
  let ct := c.take (c.length - 16)
  let tag := c.drop (c.length - 16)
  if gcmTag k iv aad ct == tag then some (xorBytes ct (gctr k iv 2 ct.length)) else none

/-! ## Poly1305 (RFC 8439 §2.5) -/

def polyP : Nat := 2 ^ 130 - 5

def polyGo (r : Nat) : Nat → Bytes → Nat → Nat
  | 0, _, acc => acc
  | fuel+1, m, acc =>
    if m.isEmpty then acc else
    let blk := m.take 16
    polyGo r fuel (m.drop 16) (((acc + natOfLE blk + 2 ^ (8 * blk.length)) * r) % polyP)

def poly1305 (key msg : Bytes) : Bytes :=
  let r := natOfLE (key.take 16) &&& 0x0ffffffc0ffffffc0ffffffc0fffffff
  let s := natOfLE ((key.drop 16).take 16)
  natToLE 16 ((polyGo r (msg.length / 16 + 1) msg 0 + s) % 2 ^ 128)

/-! ## MACs of mac.go -/

structure MacAlg where
  keyLen : Nat
  size : Nat
  etm : Bool
  fn : Bytes → Bytes → Bytes   -- key, message ↦ tag (already truncated)

def macByName : String → Option MacAlg
  | "hmac-sha2-512-etm@openssh.com" => some ⟨64, 64, true, Prim.hmacSha512⟩
  | "hmac-sha2-256-etm@openssh.com" => some ⟨32, 32, true, Prim.hmacSha256⟩
  | "hmac-sha2-512" => some ⟨64, 64, false, Prim.hmacSha512⟩
  | "hmac-sha2-256" => some ⟨32, 32, false, Prim.hmacSha256⟩
  | "hmac-sha1" => some ⟨20, 20, false, Prim.hmacSha1⟩
  | "hmac-sha1-96" => some ⟨20, 12, false, fun k m => (Prim.hmacSha1 k m).take 12⟩
  | _ => none

end XC.C25
