/-
  C42 — known_hosts decisions (ssh/knownhosts/knownhosts.go, ssh/certs.go CheckHostKey/CheckCert).

  Model of the code AS WRITTEN, over byte strings:
    * `bufio.Scanner`/`ScanLines` line splitting (LF, one trailing CR dropped), `trimSpace`, `nextWord`;
    * `parseLine` (markers, `@…` host rejected, missing fields, key blob base64 → opaque key via the
      harness-supplied table `KeyTab`, key-type check), `hostKeyDB.parseLine` (revoked map, hashed vs plain);
    * `newHostnameMatcher`, `wildcardMatch` (Go's recursion, `*` tried against every suffix incl. the empty one), `hostPatterns.match` (hosts compared lower-cased), `hashedHost.match` (HMAC-SHA1 over
      `Normalize(addr.String())` of the lower-cased host);
    * `check` / `checkAddr` / `IsHostAuthority` / `IsRevoked`, `CertChecker.CheckHostKey` + `CheckCert`;
    * `Normalize`, `Line`, `HashHostname` (salt is a parameter), `encodeHash`/`decodeHash`.
  Stand-ins for stdlib code (validated differentially by their own ops): `net.SplitHostPort`,
  `base64.StdEncoding` encode/decode, HMAC-SHA1 (`XC.Prim.hmacSha1`).
-/
import XC.Basic
import XC.Prim.Hmac
namespace XC.C42
open XC

/-! ## byte-string helpers -/

def s2b (s : String) : Bytes := s.toUTF8.toList

def cSP : UInt8 := 32
def cTAB : UInt8 := 9
def cLF : UInt8 := 10
def cCR : UInt8 := 13
def cBANG : UInt8 := 33      -- !
def cHASH : UInt8 := 35      -- #
def cSTAR : UInt8 := 42      -- *
def cCOMMA : UInt8 := 44
def cCOLON : UInt8 := 58
def cEQ : UInt8 := 61        -- =
def cQM : UInt8 := 63        -- ?
def cAT : UInt8 := 64        -- @
def cLB : UInt8 := 91        -- [
def cRB : UInt8 := 93        -- ]
def cPIPE : UInt8 := 124     -- |

/-- `strings.Split(s, sep)` for a one-byte separator (never returns `[]`) -/
def splitBy (sep : UInt8) : Bytes → List Bytes
  | [] => [[]]
  | b :: r =>
    if b == sep then [] :: splitBy sep r
    else match splitBy sep r with
      | [] => [[b]]
      | h :: t => (b :: h) :: t

def joinBy (sep : UInt8) : List Bytes → Bytes
  | [] => []
  | [a] => a
  | a :: r => a ++ sep :: joinBy sep r

def isSpTab (b : UInt8) : Bool := b == cSP || b == cTAB

def dropEndWhile (p : UInt8 → Bool) (l : Bytes) : Bytes := (l.reverse.dropWhile p).reverse

/-- `bytes.Trim(in, " \t")` -/
def trimSpace (l : Bytes) : Bytes := dropEndWhile isSpTab (l.dropWhile isSpTab)

/-- `nextWord`: up to the first space/tab; the rest is `trimSpace`d (nil when there is no blank) -/
def nextWord (l : Bytes) : Bytes × Bytes :=
  match l.dropWhile (fun b => !isSpTab b) with
  | [] => (l.takeWhile (fun b => !isSpTab b), [])
  | rest => (l.takeWhile (fun b => !isSpTab b), trimSpace rest)

/-- `bufio.ScanLines`: split at LF, drop one trailing CR of every line -/
def dropCR (l : Bytes) : Bytes :=
  match l.reverse with
  | c :: r => if c == cCR then r.reverse else l
  | [] => l

def scanLines (data : Bytes) : List Bytes := (splitBy cLF data).map dropCR

/-! ## stand-in: encoding/base64 StdEncoding -/

def b64Enc (v : Nat) : UInt8 :=
  if v < 26 then UInt8.ofNat (65 + v)
  else if v < 52 then UInt8.ofNat (97 + (v - 26))
  else if v < 62 then UInt8.ofNat (48 + (v - 52))
  else if v == 62 then 43 else 47

def b64Val (c : UInt8) : Option Nat :=
  let n := c.toNat
  if 65 ≤ n ∧ n ≤ 90 then some (n - 65)
  else if 97 ≤ n ∧ n ≤ 122 then some (n - 97 + 26)
  else if 48 ≤ n ∧ n ≤ 57 then some (n - 48 + 52)
  else if n = 43 then some 62
  else if n = 47 then some 63
  else none

def b64Encode : Bytes → Bytes
  | [] => []
  | [a] => [b64Enc (a.toNat / 4), b64Enc (a.toNat % 4 * 16), cEQ, cEQ]
  | [a, b] =>
    [b64Enc (a.toNat / 4), b64Enc (a.toNat % 4 * 16 + b.toNat / 16), b64Enc (b.toNat % 16 * 4), cEQ]
  | a :: b :: c :: rest =>
    b64Enc (a.toNat / 4) :: b64Enc (a.toNat % 4 * 16 + b.toNat / 16)
      :: b64Enc (b.toNat % 16 * 4 + c.toNat / 64) :: b64Enc (c.toNat % 64) :: b64Encode rest

/-- quanta of 4 alphabet characters; the last may be `xx==` or `xxx=`; trailing bits are not checked
    (Go's non-strict mode) -/
def b64DecodeCore : Bytes → Option Bytes
  | [] => some []
  | a :: b :: c :: d :: rest =>
    if c == cEQ && d == cEQ && rest.isEmpty then
      match b64Val a, b64Val b with
      | some x, some y => some [UInt8.ofNat (x * 4 + y / 16)]
      | _, _ => none
    else if d == cEQ && rest.isEmpty then
      match b64Val a, b64Val b, b64Val c with
      | some x, some y, some z => some [UInt8.ofNat (x * 4 + y / 16), UInt8.ofNat (y % 16 * 16 + z / 4)]
      | _, _, _ => none
    else
      match b64Val a, b64Val b, b64Val c, b64Val d, b64DecodeCore rest with
      | some x, some y, some z, some w, some r =>
        some (UInt8.ofNat (x * 4 + y / 16) :: UInt8.ofNat (y % 16 * 16 + z / 4) :: UInt8.ofNat (z % 4 * 64 + w) :: r)
      | _, _, _, _, _ => none
  | _ => none

/-- `base64.StdEncoding.DecodeString`: CR and LF are ignored anywhere -/
def b64Decode (s : Bytes) : Option Bytes :=
  b64DecodeCore (s.filter (fun c => !(c == cCR || c == cLF)))

/-! ## stand-in: net.SplitHostPort -/

def indexOf (c : UInt8) : Bytes → Option Nat
  | [] => none
  | b :: r => if b == c then some 0 else (indexOf c r).map (· + 1)

def lastIndexOf (c : UInt8) : Bytes → Option Nat
  | [] => none
  | b :: r =>
    match lastIndexOf c r with
    | some i => some (i + 1)
    | none => if b == c then some 0 else none

def splitHostPort (hp : Bytes) : Option (Bytes × Bytes) :=
  match lastIndexOf cCOLON hp with
  | none => none
  | some i =>
    if hp.head? == some cLB then
      match indexOf cRB hp with
      | none => none
      | some e =>
        if e + 1 == hp.length then none
        else if e + 1 == i then
          if (hp.drop 1).contains cLB then none
          else if (hp.drop (e + 1)).contains cRB then none
          else some ((hp.take e).drop 1, hp.drop (i + 1))
        else none
    else
      let host := hp.take i
      if host.contains cCOLON then none
      else if hp.contains cLB then none
      else if hp.contains cRB then none
      else some (host, hp.drop (i + 1))

/-! ## addresses, Normalize -/

structure Addr where
  host : Bytes
  port : Bytes
deriving DecidableEq, Repr

def port22 : Bytes := [50, 50]

/-- `addr.String()` -/
def Addr.str (a : Addr) : Bytes :=
  (if a.host.contains cCOLON then cLB :: a.host ++ [cRB] else a.host) ++ cCOLON :: a.port

/-- `host[1:len-1]` when the host has prefix `[` and suffix `]` -/
def stripBrackets (h : Bytes) : Bytes :=
  if h.head? == some cLB && h.getLast? == some cRB then (h.drop 1).dropLast else h

/-- `Normalize` -/
def normalize (address : Bytes) : Bytes :=
  let (host, port) := match splitHostPort address with
    | some hp => hp
    | none => (address, port22)
  let host := stripBrackets host
  if port == port22 then host else cLB :: host ++ cRB :: cCOLON :: port

/-! ## wildcard matching (the Go recursion) -/

/-- `for j := 0; j <= len(str); j++ { if f(str[j:]) { return true } }; return false` — every suffix,
    the empty one included -/
def anySuffix (f : Bytes → Bool) : Bytes → Bool
  | [] => f []
  | c :: cs => f (c :: cs) || anySuffix f cs

/-- `wildcardMatch(pat, str)`.  Structural recursion on the pattern (so it terminates); `*` is handled
    before the empty-string test, the recursive call inside the `for j` loop is `anySuffix`, the loop of
    the Go function is the `?`/literal case. -/
def wildcardMatch : Bytes → Bytes → Bool
  | [], s => s.isEmpty
  | p :: ps, s =>
    if p == cSTAR then
      if ps.isEmpty then true else anySuffix (wildcardMatch ps) s
    else match s with
      | [] => false
      | c :: cs => if p == cQM || p == c then wildcardMatch ps cs else false

/-! ## matchers -/

structure HostPattern where
  negate : Bool
  addr : Addr
deriving DecidableEq, Repr

/-- ASCII lower-casing.  (`strings.ToLower` is Unicode-aware; the model covers ASCII host names and
    patterns — bytes ≥ 0x80 are left unchanged here and are kept out of the generated hosts.) -/
def lowerByte (c : UInt8) : UInt8 := if 65 ≤ c.toNat ∧ c.toNat ≤ 90 then c + 32 else c
def lower (w : Bytes) : Bytes := w.map lowerByte

/-- `hostPattern.match`: host names are compared lower-cased, ports exactly -/
def HostPattern.matches (p : HostPattern) (a : Addr) : Bool :=
  wildcardMatch (lower p.addr.host) (lower a.host) && p.addr.port == a.port

/-- `hostPatterns.match`, the loop as written (`matched` flag, early `return false` on a negated match) -/
def matchPatternsGo (matched : Bool) : List HostPattern → Addr → Bool
  | [], _ => matched
  | p :: ps, a =>
    if !p.matches a then matchPatternsGo matched ps a
    else if p.negate then false
    else matchPatternsGo true ps a

inductive Matcher where
  | pats (ps : List HostPattern)
  | hashed (salt hash : Bytes)
deriving DecidableEq, Repr

def hashHost (hostname salt : Bytes) : Bytes := XC.Prim.hmacSha1 salt hostname

def Matcher.matches (m : Matcher) (a : Addr) : Bool :=
  match m with
  | .pats ps => matchPatternsGo false ps a
  | .hashed salt hash => hashHost (normalize (Addr.str ⟨lower a.host, a.port⟩)) salt == hash

/-- one comma-separated element of `newHostnameMatcher`: `none` = skipped, `some none` = error -/
def parseHostPattern (p : Bytes) : Option (Option HostPattern) :=
  match p with
  | [] => none
  | c :: r =>
    let (negate, p) := if c == cBANG then (true, r) else (false, c :: r)
    match p with
    | [] => some none
    | d :: _ =>
      match splitHostPort p with
      | some (h, pt) => some (some ⟨negate, ⟨h, pt⟩⟩)
      | none => if d == cLB then some none else some (some ⟨negate, ⟨p, port22⟩⟩)

def collectPatterns : List Bytes → Option (List HostPattern)
  | [] => some []
  | p :: rest =>
    match parseHostPattern p with
    | none => collectPatterns rest
    | some none => none
    | some (some hp) => (collectPatterns rest).map (hp :: ·)

/-- `newHostnameMatcher` -/
def newHostnameMatcher (pattern : Bytes) : Option Matcher :=
  (collectPatterns (splitBy cCOMMA pattern)).map Matcher.pats

/-- `decodeHash` + `newHashedHost` (caller guarantees the leading `|`; re-checked as in the code) -/
def newHashedHost (encoded : Bytes) : Option Matcher :=
  if encoded.head? != some cPIPE then none else
  match splitBy cPIPE encoded with
  | [_, typ, salt, hash] =>
    match b64Decode salt, b64Decode hash with
    | some s, some h => if typ == [49] then some (.hashed s h) else none
    | _, _ => none
  | _ => none

/-- `encodeHash` -/
def encodeHash (typ salt hash : Bytes) : Bytes :=
  joinBy cPIPE [[], typ, b64Encode salt, b64Encode hash]

/-- `HashHostname` with the 20 random salt bytes as a parameter -/
def hashHostname (salt hostname : Bytes) : Bytes :=
  encodeHash [49] salt (hashHost hostname salt)

/-! ## the key oracle and line parsing -/

/-- what `ssh.ParsePublicKey` (not part of this property) answers for a decoded blob:
    (`key.Type()`, id of `key.Marshal()`); blobs absent from the table do not parse -/
abbrev KeyTab := List (Bytes × (Bytes × Nat))

/-- "@cert-authority" -/
def markerCert : Bytes := [64, 99, 101, 114, 116, 45, 97, 117, 116, 104, 111, 114, 105, 116, 121]
/-- "@revoked" -/
def markerRevoked : Bytes := [64, 114, 101, 118, 111, 107, 101, 100]

inductive Marker where
  | none | cert | revoked
deriving DecidableEq, Repr

/-- package-level `parseLine`: (marker, host, key id) or error -/
def parseFields (kt : KeyTab) (line : Bytes) : Option (Marker × Bytes × Nat) :=
  let (w, next) := nextWord line
  let (marker, line) :=
    if w == markerCert then (Marker.cert, next)
    else if w == markerRevoked then (Marker.revoked, next)
    else (Marker.none, line)
  let (host, line) := nextWord line
  if host.head? == some cAT then none else
  if line.isEmpty then none else
  let (wantType, line) := nextWord line
  if line.isEmpty then none else
  let (keyBlob, _) := nextWord line
  match b64Decode keyBlob with
  | none => none
  | some blob =>
    match kt.lookup blob with
    | none => none
    | some (typ, id) => if typ != wantType then none else some (marker, host, id)

structure Entry where
  lineNo : Nat
  cert : Bool
  matcher : Matcher
  key : Nat
deriving DecidableEq, Repr

structure DB where
  /-- (key id, line) in file order; the Go map keeps the LAST line of a key -/
  revoked : List (Nat × Nat)
  lines : List Entry
deriving DecidableEq, Repr

def DB.empty : DB := ⟨[], []⟩

/-- `hostKeyDB.parseLine`; `none` = error -/
def DB.addLine (kt : KeyTab) (db : DB) (line : Bytes) (n : Nat) : Option DB :=
  match parseFields kt line with
  | none => none
  | some (marker, pattern, key) =>
    if marker == .revoked then some { db with revoked := db.revoked ++ [(key, n)] } else
    let m := if pattern.head? == some cPIPE then newHashedHost pattern else newHostnameMatcher pattern
    match m with
    | none => none
    | some m => some { db with lines := db.lines ++ [⟨n, marker == .cert, m, key⟩] }

/-- `hostKeyDB.Read` over the scanned lines; `Except.error n` = the line number that failed -/
def readLines (kt : KeyTab) : DB → Nat → List Bytes → Except Nat DB
  | db, _, [] => .ok db
  | db, n, l :: rest =>
    let line := trimSpace l
    if line.isEmpty || line.head? == some cHASH then readLines kt db (n + 1) rest
    else match db.addLine kt line (n + 1) with
      | none => .error (n + 1)
      | some db' => readLines kt db' (n + 1) rest

def readDB (kt : KeyTab) (file : Bytes) : Except Nat DB :=
  readLines kt DB.empty 0 (scanLines file)

/-! ## decisions -/

inductive Verdict where
  | ok
  | revoked (line : Nat)
  | keyErr (lines : List Nat)
  | reject                       -- any other error value
deriving DecidableEq, Repr

/-- `db.revoked[key]`: the last `@revoked` line of that key -/
def DB.revokedLine (db : DB) (key : Nat) : Option Nat :=
  ((db.revoked.reverse.find? (fun e => e.1 == key))).map (·.2)

/-- `checkAddr`, the loop as written: `@cert-authority` lines are skipped; `Want` accumulates every other
    matching line until the key is found -/
def checkAddrGo (key : Nat) (a : Addr) : List Entry → List Nat → Verdict
  | [], want => .keyErr want
  | l :: rest, want =>
    if l.cert || !l.matcher.matches a then checkAddrGo key a rest want
    else if l.key == key then .ok
    else checkAddrGo key a rest (want ++ [l.lineNo])

def DB.checkAddr (db : DB) (a : Addr) (key : Nat) : Verdict := checkAddrGo key a db.lines []

/-- `hostKeyDB.check` (HostKeyFallback): revoked first, then the remote address must split, then the
    host name (when non-empty) is preferred -/
def DB.check (db : DB) (address remote : Bytes) (key : Nat) : Verdict :=
  match db.revokedLine key with
  | some n => .revoked n
  | none =>
    match splitHostPort remote with
    | none => .reject
    | some (rh, rp) =>
      if address.isEmpty then db.checkAddr ⟨rh, rp⟩ key
      else match splitHostPort address with
        | none => .reject
        | some (h, p) => db.checkAddr ⟨h, p⟩ key

/-- `IsHostAuthority` -/
def DB.isHostAuthority (db : DB) (ca : Nat) (address : Bytes) : Bool :=
  match splitHostPort address with
  | none => false
  | some (h, p) => db.lines.any (fun l => l.cert && l.key == ca && l.matcher.matches ⟨h, p⟩)

/-- facts about a presented certificate (computed by the harness from the certificate's fields) -/
structure CertInfo where
  id : Nat               -- id of cert.Marshal()
  certType : Nat         -- 1 = user, 2 = host
  ca : Nat               -- id of cert.SignatureKey.Marshal()
  critOther : Bool       -- a critical option other than "source-address" is present
  principals : List Bytes
  validAfter : Nat       -- uint64
  validBefore : Nat      -- uint64
  sigOk : Bool           -- the CA signature verifies
deriving Repr

/-- `IsRevoked` -/
def DB.isRevoked (db : DB) (c : CertInfo) : Bool :=
  (db.revokedLine c.id).isSome || (db.revokedLine c.ca).isSome

def toInt64 (v : Nat) : Int := if v % 2 ^ 64 < 2 ^ 63 then (v % 2 ^ 64 : Nat) else (v % 2 ^ 64 : Nat) - (2 ^ 64 : Nat)

/-- the validity-window test of `CheckCert` (`CertTimeInfinity = 1<<64 - 1`) -/
def timeOk (now : Int) (c : CertInfo) : Bool :=
  let after := toInt64 c.validAfter
  let before := toInt64 c.validBefore
  if after < 0 || now < after then false
  else if c.validBefore != 2 ^ 64 - 1 && (now ≥ before || before < 0) then false
  else true

/-- `CheckCert(principal, cert)` with `SupportedCriticalOptions = nil` (as built by `knownhosts.New`) -/
def DB.checkCert (db : DB) (now : Int) (principal : Bytes) (c : CertInfo) : Bool :=
  !db.isRevoked c && !c.critOther && (c.principals.isEmpty || c.principals.contains principal)
    && timeOk now c && c.sigOk

inductive QKey where
  | plain (id : Nat)
  | cert (c : CertInfo)
deriving Repr

/-- `CertChecker.CheckHostKey` as wired by `knownhosts.New` -/
def DB.checkHostKey (db : DB) (now : Int) (address remote : Bytes) (k : QKey) : Verdict :=
  match k with
  | .plain id => db.check address remote id
  | .cert c =>
    if c.certType != 2 then .reject
    else if !db.isHostAuthority c.ca address then .reject
    else match splitHostPort address with
      | none => .reject
      | some (h, _) => if db.checkCert now h c then .ok else .reject

/-! ## writing entries -/

/-- `Line(addresses, key)`; `ktype`/`blob` = `key.Type()` / `key.Marshal()` -/
def knownHostsLine (addresses : List Bytes) (ktype blob : Bytes) : Bytes :=
  joinBy cCOMMA (addresses.map normalize) ++ cSP :: ktype ++ cSP :: b64Encode blob

end XC.C42
