/-
  C47 — OTR (otr/otr.go), byte-level layer: base64 framing `?OTR:`…`.`, fragmentation
  (`Conversation.encode`, fixed code: single fragment iff `FragmentSize <= minFragmentSize ||
  len(b64) <= FragmentSize`), the reassembly automaton `processFragment` (k, n, frag),
  `isQuery`, `strconv.Atoi/Itoa`, `bytes.Split`, the `getU8/16/32/MPI/Data/NBytes` readers,
  TLV parsing and the data-message envelope.

  A Go panic is the explicit outcome `R.panic`; Go's integer division is `goDiv`, which answers
  `none` for a zero divisor (never Lean's `n / 0 = 0`).
-/
import XC.Basic
namespace XC.C47

/-- outcome of Go code that can panic -/
inductive R (α : Type) where
  | ok (a : α)
  | panic
deriving Repr, DecidableEq

/-- Go `a / b` on non-negative ints: a zero divisor is a run-time panic (`none`) -/
def goDiv (a b : Nat) : Option Nat := if b = 0 then none else some (a / b)

/-! ## constants -/

def fragmentPrefix : Bytes := [63, 79, 84, 82, 44]   -- "?OTR,"
def msgPrefix : Bytes := [63, 79, 84, 82, 58]        -- "?OTR:"
def queryMarker : Bytes := [63, 79, 84, 82]          -- "?OTR"
def comma : UInt8 := 44
def dot : UInt8 := 46
def minFragmentSize : Int := 18

def hasPrefix (p s : Bytes) : Bool := s.take p.length == p

/-! ## base64 (encoding/base64.StdEncoding, non-strict decoder that skips CR/LF) -/

def b64char (v : Nat) : UInt8 :=
  if v < 26 then UInt8.ofNat (65 + v)
  else if v < 52 then UInt8.ofNat (97 + (v - 26))
  else if v < 62 then UInt8.ofNat (48 + (v - 52))
  else if v = 62 then 43 else 47

def b64val (c : UInt8) : Option Nat :=
  let n := c.toNat
  if 65 ≤ n ∧ n ≤ 90 then some (n - 65)
  else if 97 ≤ n ∧ n ≤ 122 then some (n - 97 + 26)
  else if 48 ≤ n ∧ n ≤ 57 then some (n - 48 + 52)
  else if n = 43 then some 62
  else if n = 47 then some 63
  else none

def b64enc : Bytes → Bytes
  | [] => []
  | [a] =>
    let n := a.toNat * 65536
    [b64char (n / 262144), b64char (n / 4096 % 64), 61, 61]
  | [a, b] =>
    let n := a.toNat * 65536 + b.toNat * 256
    [b64char (n / 262144), b64char (n / 4096 % 64), b64char (n / 64 % 64), 61]
  | a :: b :: c :: r =>
    let n := a.toNat * 65536 + b.toNat * 256 + c.toNat
    b64char (n / 262144) :: b64char (n / 4096 % 64) :: b64char (n / 64 % 64) :: b64char (n % 64) :: b64enc r

def isNL (c : UInt8) : Bool := c == 10 || c == 13

def skipNL : Bytes → Bytes
  | [] => []
  | c :: r => if isNL c then skipNL r else c :: r

/-- result of `decodeQuantum` -/
inductive Quantum where
  | eof                              -- input exhausted at j = 0
  | full (v : List Nat) (rest : Bytes)   -- four sextets
  | pad (v : List Nat)               -- 2 or 3 sextets, then correct padding up to the end of input
  | err

/-- `decodeQuantum` for StdEncoding: collect sextets, skipping `\r` / `\n`; `acc` = sextets so far -/
def readQ : Bytes → List Nat → Quantum
  | [], acc => if acc.isEmpty then .eof else .err
  | c :: rest, acc =>
    match b64val c with
    | some v =>
      let acc' := acc ++ [v]
      if acc'.length = 4 then .full acc' rest else readQ rest acc'
    | none =>
      if isNL c then readQ rest acc
      else if c ≠ 61 then .err
      else if acc.length < 2 then .err
      else if acc.length = 2 then
        match skipNL rest with
        | [] => .err
        | d :: r' => if d ≠ 61 then .err else if (skipNL r').isEmpty then .pad acc else .err
      else if (skipNL rest).isEmpty then .pad acc else .err

theorem readQ_rest_lt (src : Bytes) (acc v rest) (h : readQ src acc = .full v rest) :
    rest.length < src.length := by
  induction src generalizing acc with
  | nil => simp [readQ] at h; split at h <;> simp at h
  | cons c r ih =>
    simp only [readQ] at h
    split at h
    · split at h
      · injection h with _ h2; subst h2; simp
      · have := ih _ h; simp; omega
    · split at h
      · have := ih _ h; simp; omega
      · repeat (first | (split at h) | (simp at h))

def sextetBytes (v : List Nat) : Bytes :=
  match v with
  | [a, b] => [UInt8.ofNat ((a * 64 + b) / 16)]
  | [a, b, c] => let n := (a * 64 + b) * 64 + c; [UInt8.ofNat (n / 1024), UInt8.ofNat (n / 4 % 256)]
  | [a, b, c, d] =>
    let n := ((a * 64 + b) * 64 + c) * 64 + d
    [UInt8.ofNat (n / 65536), UInt8.ofNat (n / 256 % 256), UInt8.ofNat (n % 256)]
  | _ => []

/-- `base64.StdEncoding.Decode`: `none` = any CorruptInputError -/
def b64dec (src : Bytes) : Option Bytes :=
  match h : readQ src [] with
  | .eof => some []
  | .err => none
  | .pad v => some (sextetBytes v)
  | .full v rest =>
    match b64dec rest with
    | none => none
    | some t => some (sextetBytes v ++ t)
termination_by src.length
decreasing_by exact readQ_rest_lt _ _ _ _ h

/-! ## strconv.Itoa / strconv.Atoi -/

def digitsOf (n : Nat) : List Nat :=
  if n < 10 then [n] else digitsOf (n / 10) ++ [n % 10]

def digitChar (d : Nat) : UInt8 := UInt8.ofNat (48 + d)

def itoa (n : Nat) : Bytes := (digitsOf n).map digitChar

def isDigit (c : UInt8) : Bool := 48 ≤ c.toNat && c.toNat ≤ 57

def parseDigits : Bytes → Nat → Option Nat
  | [], acc => some acc
  | c :: r, acc => if isDigit c then parseDigits r (acc * 10 + (c.toNat - 48)) else none

/-- `strconv.Atoi` on a 64-bit platform: optional sign, at least one digit, digits only, value in int64 -/
def atoi (s : Bytes) : Option Int :=
  match s with
  | [] => none
  | c :: r =>
    let neg := c == 45
    let ds := if c == 45 || c == 43 then r else s
    if ds.isEmpty then none else
    match parseDigits ds 0 with
    | none => none
    | some v =>
      if neg then (if v ≤ 2 ^ 63 then some (-(v : Int)) else none)
      else (if v < 2 ^ 63 then some (v : Int) else none)

/-! ## bytes.Split with a one-byte separator -/

def split (sep : UInt8) : Bytes → List Bytes
  | [] => [[]]
  | c :: r =>
    if c = sep then [] :: split sep r
    else match split sep r with
      | [] => [[c]]
      | h :: t => (c :: h) :: t

/-! ## `Conversation.encode` -/

def fragHeader (i n : Nat) : Bytes := fragmentPrefix ++ itoa i ++ [comma] ++ itoa n ++ [comma]

/-- the `for i := 0; i < numFragments; i++` loop: `cnt` iterations left, `i` = current index -/
def fragLoop (bpf n : Nat) : Nat → Nat → Bytes → List Bytes
  | 0, _, _ => []
  | cnt + 1, i, t =>
    (fragHeader (i + 1) n ++ t.take bpf ++ [comma]) :: fragLoop bpf n cnt (i + 1) (t.drop bpf)

/-- fragmentation of the framed base64 text `t` = `?OTR:`…`.` -/
def encodeText (F : Int) (t : Bytes) : R (List Bytes) :=
  if F ≤ minFragmentSize ∨ (t.length : Int) ≤ F then .ok [t]
  else
    let bpf := (F - minFragmentSize).toNat
    match goDiv (t.length + bpf) bpf with
    | none => .panic
    | some n => .ok (fragLoop bpf n n 0 t)

def frame (msg : Bytes) : Bytes := msgPrefix ++ b64enc msg ++ [dot]

def encode (F : Int) (msg : Bytes) : R (List Bytes) := encodeText F (frame msg)

/-! ## `processFragment` -/

/-- fragment state `c.k, c.n, c.frag`; `frag = none` is the nil slice -/
structure FragSt where
  k : Nat := 0
  n : Nat := 0
  frag : Option Bytes := none
deriving Repr, DecidableEq

inductive FragOut where
  | err                      -- fragmentError
  | pending                  -- (nil, nil)
  | done (b : Option Bytes)  -- c.frag returned; `none` = nil slice (Receive then returns early)
deriving Repr, DecidableEq

/-- `append(c.frag[:0], piece...)` -/
def fragSet (f : Option Bytes) (piece : Bytes) : Option Bytes :=
  match f with
  | none => if piece.isEmpty then none else some piece
  | some _ => some piece

/-- `append(c.frag, piece...)` -/
def fragAppend (f : Option Bytes) (piece : Bytes) : Option Bytes :=
  match f with
  | none => if piece.isEmpty then none else some piece
  | some b => some (b ++ piece)

/-- `c.frag[:0]` -/
def fragClear (f : Option Bytes) : Option Bytes := f.map (fun _ => [])

def processFragment (s : FragSt) (inp : Bytes) : FragSt × FragOut :=
  let body := inp.drop fragmentPrefix.length
  match split comma body with
  | [p0, p1, p2, p3] =>
    if !p3.isEmpty then (s, .err) else
    match atoi p0 with
    | none => (s, .err)
    | some k =>
      match atoi p1 with
      | none => (s, .err)
      | some n =>
        if k < 1 ∨ n < 1 ∨ k > n then (s, .err) else
        let k := k.toNat
        let n := n.toNat
        let s1 : FragSt :=
          if k = 1 then ⟨k, n, fragSet s.frag p2⟩
          else if n = s.n ∧ k = s.k + 1 then ⟨s.k + 1, s.n, fragAppend s.frag p2⟩
          else ⟨0, 0, fragClear s.frag⟩
        if s1.n > 0 ∧ s1.k = s1.n then (⟨0, 0, s1.frag⟩, .done s1.frag)
        else (s1, .pending)
  | _ => (s, .err)

/-- what `Receive` sees after its fragment front-end -/
inductive FrontOut where
  | err
  | nothing               -- fragment consumed, nothing to process (also: nil slice returned)
  | msg (b : Bytes)       -- a whole message to process
deriving Repr, DecidableEq

def frontEnd (s : FragSt) (inp : Bytes) : FragSt × FrontOut :=
  if hasPrefix fragmentPrefix inp then
    match processFragment s inp with
    | (s', .err) => (s', .err)
    | (s', .pending) => (s', .nothing)
    | (s', .done none) => (s', .nothing)
    | (s', .done (some b)) => (s', .msg b)
  else (s, .msg inp)

def feed (s : FragSt) : List Bytes → FragSt × List FrontOut
  | [] => (s, [])
  | x :: xs =>
    let (s1, o) := frontEnd s x
    let (s2, os) := feed s1 xs
    (s2, o :: os)

/-! ## `isQuery` -/

/-- first index of `pat` in `s` (`bytes.Index`), as the suffix starting at the match -/
def findSub (pat : Bytes) : Bytes → Option Bytes
  | [] => if pat.isEmpty then some [] else none
  | c :: r => if hasPrefix pat (c :: r) then some (c :: r) else findSub pat r

/-- the loop over `msg[pos+4:]`; `i0` = first iteration, `gcv` = greatestCommonVersion so far -/
def queryLoop : Bytes → Bool → Nat → Nat
  | [], _, _ => 0
  | c :: r, true, gcv =>
    if c = 63 then queryLoop r false gcv          -- '?': version 1 marker
    else if c ≠ 118 then 0                         -- not 'v'
    else queryLoop r false gcv
  | c :: r, false, gcv =>
    if c = 63 then gcv
    else if c = 32 ∨ c = 9 then 0
    else if c = 50 then queryLoop r false 2
    else queryLoop r false gcv

def isQuery (msg : Bytes) : Nat :=
  match findSub queryMarker msg with
  | none => 0
  | some m => queryLoop (m.drop queryMarker.length) true 0

/-! ## readers -/

def getU8 : Bytes → Option (UInt8 × Bytes)
  | [] => none
  | a :: r => some (a, r)

def getU16 (b : Bytes) : Option (Nat × Bytes) :=
  if b.length < 2 then none else some (natOfBE (b.take 2), b.drop 2)

def getU32 (b : Bytes) : Option (Nat × Bytes) :=
  if b.length < 4 then none else some (natOfBE (b.take 4), b.drop 4)

def getNBytes (b : Bytes) (n : Nat) : Option (Bytes × Bytes) :=
  if b.length < n then none else some (b.take n, b.drop n)

/-- `getData` (and, up to `SetBytes`, `getMPI`): u32 length then that many bytes.
    (`uint32(len(in)) < l`: inputs are shorter than 4 GiB.) -/
def getData (b : Bytes) : Option (Bytes × Bytes) :=
  match getU32 b with
  | none => none
  | some (l, r) => getNBytes r l

def getMPI (b : Bytes) : Option (Nat × Bytes) :=
  match getData b with
  | none => none
  | some (d, r) => some (natOfBE d, r)

def appendData (v : Bytes) : Bytes := natToBE 4 v.length ++ v

/-! ## TLVs (processData's loop) -/

structure Tlv where
  typ : Nat
  data : Bytes
deriving Repr, DecidableEq

def Tlv.ser (t : Tlv) : Bytes := natToBE 2 t.typ ++ natToBE 2 t.data.length ++ t.data

def parseTlvsFuel : Nat → Bytes → List Tlv × Bool
  | 0, b => ([], b.isEmpty)
  | fuel + 1, b =>
    if b.isEmpty then ([], true) else
    match getU16 b with
    | none => ([], false)
    | some (typ, b1) =>
      match getU16 b1 with
      | none => ([], false)
      | some (len, b2) =>
        match getNBytes b2 len with
        | none => ([], false)
        | some (d, b3) =>
          let r := parseTlvsFuel fuel b3
          (⟨typ, d⟩ :: r.1, r.2)

/-- `for len(tlvData) > 0 { … }`: every iteration consumes at least 4 bytes, so `length` fuel suffices.
    Result: the TLVs read so far and `false` for "otr: corrupt tlv data" (the Go code keeps the partial
    list: `Receive` still walks it). -/
def parseTlvs (b : Bytes) : List Tlv × Bool := parseTlvsFuel b.length b

/-- split of the decrypted data-message plaintext: text up to the first NUL, TLVs after it -/
def splitPlain (dec : Bytes) : Bytes × List Tlv × Bool :=
  if dec.contains 0 then
    let r := parseTlvs ((dec.dropWhile (· ≠ 0)).drop 1)
    (dec.takeWhile (· ≠ 0), r.1, r.2)
  else (dec, [], true)

/-- plaintext built by `generateData(msg, extra)` -/
def dataPlain (msg : Bytes) (extra : Option Tlv) : Bytes :=
  let pt := msg ++ [0]
  let padding := 256 - ((pt.length + 4) % 256)
  pt ++ (Tlv.ser ⟨0, zeros padding⟩) ++ (match extra with | none => [] | some t => t.ser)

/-! ## message envelopes -/

/-- `len(msg) < 3 || msg[0] != 0 || msg[1] != 2` then `msgType = msg[2]` -/
def msgHeader : Bytes → Option (Nat × Bytes)
  | a :: b :: t :: r => if a ≠ 0 ∨ b ≠ 2 then none else some (t.toNat, r)
  | _ => none

/-- `processDHCommit` / `compareToDHCommit` parse: (gxBytes, digest) -/
def parseCommit (b : Bytes) : Option (Bytes × Bytes) :=
  match getData b with
  | none => none
  | some (gx, r) =>
    match getData r with
    | none => none
    | some (dg, r') => if r'.isEmpty then some (gx, dg) else none

/-- `processDHKey` parse: first MPI, trailing bytes ignored -/
def parseKey (b : Bytes) : Option Nat := (getMPI b).map (·.1)

/-- `processRevealSig` parse: (r, encryptedSig, mac) -/
def parseReveal (b : Bytes) : Option (Bytes × Bytes × Bytes) :=
  match getData b with
  | none => none
  | some (r, b1) =>
    match getData b1 with
    | none => none
    | some (es, mac) => if mac.length = 20 then some (r, es, mac) else none

/-- `processSig` parse: (encryptedSig, mac) -/
def parseSig (b : Bytes) : Option (Bytes × Bytes) :=
  match getData b with
  | none => none
  | some (es, mac) => if mac.length = 20 then some (es, mac) else none

structure DataEnv where
  flags : UInt8
  theirKeyId : Nat      -- sender's key id
  myKeyId : Nat         -- recipient's key id
  y : Nat
  ctr : Bytes
  enc : Bytes
  maced : Bytes         -- origIn[:…] — everything before the MAC
  mac : Bytes
  oldMacs : Bytes
deriving Repr, DecidableEq

/-- the parse at the top of `processData` (input = message after the 3 header bytes) -/
def parseData (b : Bytes) : Option DataEnv :=
  match getU8 b with
  | none => none
  | some (flags, b1) =>
  match getU32 b1 with
  | none => none
  | some (tk, b2) =>
  match getU32 b2 with
  | none => none
  | some (mk, b3) =>
  match getMPI b3 with
  | none => none
  | some (y, b4) =>
  match getNBytes b4 8 with
  | none => none
  | some (ctr, b5) =>
  match getData b5 with
  | none => none
  | some (enc, b6) =>
  match getNBytes b6 20 with
  | none => none
  | some (mac, b7) =>
  match getData b7 with
  | none => none
  | some (old, b8) =>
    if b8.isEmpty then some ⟨flags, tk, mk, y, ctr, enc, b.take (b.length - b6.length), mac, old⟩ else none

end XC.C47
