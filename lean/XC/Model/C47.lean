/-
  C47 — OTR conversation state machine (otr/otr.go `Receive`, `Send`, `End`, `Authenticate`,
  otr/smp.go `processSMP`) at message-type level.

  Cryptography is symbolic: every DH secret / SMP run has an identity (`Id`), a check that the Go code
  performs with SHA-256 / HMAC / AES-CTR / DSA / modular exponentiation succeeds exactly when the
  identities that went into both sides agree (Dolev–Yao style: MACs, hashes and signatures are
  unforgeable, ZK proofs of honest parties verify).  Everything else is the code as written:
  authState dispatch (fixed code: in the `authStateNone` case `c.authState` is advanced only after the
  DH commit parsed), `reset`, key ids (uint32), the four key slots,
  counters, TLV dispatch, SMP state machine, the in-place decryption of `c.gxBytes`.

  A nil `*big.Int` reaching `appendMPI` / `Exp` is the explicit outcome `R.panic`.
-/
import XC.Model.C47_Wire
namespace XC.C47

abbrev Id := Nat

/-- identity of a DH value that only exists as bytes (not produced by a modelled party) -/
def alienId (v : Nat) : Id := 2 ^ 1600 + v

inductive Auth where
  | none | awKey | awReveal | awSig
deriving DecidableEq, Repr

inductive MState where
  | plain | enc | fin
deriving DecidableEq, Repr

/-- contents of `c.gxBytes` -/
inductive GxB where
  | nil
  | commit (x : Id)      -- AES-CTR(r, MPI(g^x)) of commit `x` (mine or the peer's)
  | bad                  -- overwritten in place by a decryption attempt in processRevealSig
deriving DecidableEq, Repr

/-- `c.smp.secret` = SHA-256(version ‖ initiator fp ‖ responder fp ‖ SSID ‖ secret) -/
structure Secret where
  init : Nat
  resp : Nat
  ssid : Id × Id
  s : Bytes
deriving DecidableEq, Repr

/-- TLVs produced by modelled parties -/
inductive STlv where
  | disconnect
  | smp1 (i : Id) (q : Bytes)
  | smp2 (i j : Id) (sec : Secret)
  | smp3 (i j : Id) (sec : Secret)
  | smp4 (i j : Id)
  | abort
deriving DecidableEq, Repr

def STlv.typ : STlv → Nat
  | .disconnect => 1
  | .smp1 _ q => if q.isEmpty then 2 else 7
  | .smp2 .. => 3
  | .smp3 .. => 4
  | .smp4 .. => 5
  | .abort => 6

structure DataMsg where
  skid : Nat            -- sender key id   (c.myKeyId-1 at the sender)
  rkid : Nat            -- recipient key id (c.theirKeyId at the sender)
  sdh : Id              -- sender's DH key used
  rdh : Id              -- recipient's DH key used
  next : Id             -- sender's next DH key (the `y` field)
  ctr : Bytes           -- the 8-byte counter field, as on the wire
  text : Bytes
  extra : Option STlv
  oldMacs : List (Id × Id) := []   -- revealed receiving-MAC keys, named by the DH pair they derive from
deriving DecidableEq, Repr

inductive Msg where
  | raw (b : Bytes)
  | commit (x : Id) (dg : Bytes)
  | key (y : Id)
  | reveal (x y : Id) (kid : Nat)
  | sig (y x : Id) (kid : Nat)
  | data (d : DataMsg)
deriving DecidableEq, Repr

structure Slot where
  used : Bool := false
  theirKeyId : Nat := 0
  myKeyId : Nat := 0
  myDH : Id := 0
  theirDH : Id := 0
  lastCtr : Bytes := zeros 8     -- slot.theirLastCtr [8]byte
deriving DecidableEq, Repr

/-- an SMP TLV as `processSMP` sees it -/
structure SmpIn where
  typ : Nat                 -- 2..7
  qOk : Bool := true        -- typ 7: the data contains a NUL
  question : Bytes := []
  parseOk : Bool := true    -- numMPIs ≤ 20 and all MPIs present
  nMpis : Nat := 0
  gen : Option STlv := none -- content when produced by a modelled party; `none`: every proof in it fails
deriving DecidableEq, Repr

structure Party where
  side : Nat := 0
  fresh : Nat := 0
  st : MState := .plain
  auth : Auth := .none
  gxB : GxB := .nil
  digest : Bytes := zeros 32
  x : Option Id := none
  gx : Option Id := none
  gy : Option Id := none
  y : Option Id := none
  ssid : Id × Id := (0, 0)
  myKeyId : Nat := 0
  theirKeyId : Nat := 0
  myCur : Id := 0
  myLast : Id := 0
  theirCur : Id := 0
  theirLast : Option Id := none
  slots : List Slot := [{}, {}, {}, {}]
  myCtr : Bytes := zeros 8       -- c.myCounter [8]byte
  oldMacs : List (Id × Id) := []   -- c.oldMACs: receiving-MAC keys of evicted slots, to be revealed
  fs : FragSt := {}
  smpSt : Nat := 1
  secret : Option Secret := none
  saved : Option SmpIn := none
  question : Bytes := []
  smpI : Id := 0
  smpJ : Id := 0
  smpMatch : Bool := false
  theirPub : Option Nat := none  -- c.TheirPublicKey: whose long-term key the last completed AKE authenticated
deriving DecidableEq, Repr

/-- what one `Receive` returns -/
structure Out where
  out : Bytes := []
  enc : Bool := false
  change : Nat := 0
  send : List Msg := []
  err : Bool := false
deriving DecidableEq, Repr

def chNewKeys := 1
def chSecretNeeded := 2
def chComplete := 3
def chFailed := 4
def chEnded := 5

def pred32 (n : Nat) : Nat := (n + 4294967295) % 4294967296
def succ32 (n : Nat) : Nat := (n + 1) % 4294967296

/-- `incCounter` as written: `for i := 7; i >= 0; i-- { counter[i]++; if counter[i] > 0 { break } }`
    (`rev` = the array read from index 7 down to 0) -/
def incRev : Bytes → Bytes
  | [] => []
  | b :: r => if b + 1 = 0 then (b + 1) :: incRev r else (b + 1) :: r

def incCounter (c : Bytes) : Bytes := (incRev c.reverse).reverse

def Party.newId (p : Party) : Party × Id :=
  ({ p with fresh := p.fresh + 1 }, 2 * (p.fresh + 1) + p.side)

def Party.reset (p : Party) : Party :=
  { p with myKeyId := 0, slots := p.slots.map (fun s => { s with used := false }) }

/-- `rotateDHKeys` -/
def Slot.macKey (s : Slot) : Id × Id := (s.myDH, s.theirDH)

/-- `slot.used = false; c.oldMACs = append(c.oldMACs, slot.recvMACKey...)` for every slot satisfying `f` -/
def evictSlots (f : Slot → Bool) (ss : List Slot) : List Slot :=
  ss.map (fun s => if s.used && f s then { s with used := false } else s)

def evictedKeys (f : Slot → Bool) (ss : List Slot) : List (Id × Id) :=
  (ss.filter (fun s => s.used && f s)).map Slot.macKey

def Party.rotate (p : Party) : Party :=
  let f := fun (s : Slot) => s.myKeyId == pred32 p.myKeyId
  let slots := evictSlots f p.slots
  let old := p.oldMacs ++ evictedKeys f p.slots
  let (p, k) := p.newId
  { p with slots := slots, oldMacs := old, myLast := p.myCur, myCur := k, myKeyId := succ32 p.myKeyId }

/-- `copy(c.digest[:], digest)` -/
def copyDigest (old new : Bytes) : Bytes := new.take 32 ++ old.drop (min 32 new.length)

/-- `bytes.Compare(a, b) > 0` -/
def bytesGt : Bytes → Bytes → Bool
  | [], _ => false
  | _ :: _, [] => true
  | a :: r, b :: s => if a.toNat > b.toNat then true else if a.toNat < b.toNat then false else bytesGt r s

/-- `generateDHCommit` (digest of the new commit supplied by the caller) -/
def Party.genCommit (p : Party) (dg : Bytes) : Party × Msg :=
  let (p, x) := p.newId
  ({ p with x := some x, gx := some x, gy := none, gxB := .commit x, digest := dg }, .commit x dg)

def GxB.id : GxB → Id
  | .commit x => x
  | _ => 0

def Party.serCommit (p : Party) : Msg := .commit p.gxB.id p.digest

/-- `processDHCommit` on a well-formed message -/
def Party.procCommit (p : Party) (x : Id) (dg : Bytes) : Party :=
  { p with gxB := .commit x, digest := copyDigest p.digest dg }

/-- `generateDHKey` -/
def Party.genKey (p : Party) : Party × Msg :=
  let (p, y) := p.newId
  ({ p with y := some y, gy := some y }, .key y)

/-- `serializeDHKey`: `appendMPI(ret, c.gy)` dereferences `c.gy` -/
def Party.serKey (p : Party) : R Msg :=
  match p.gy with
  | none => .panic
  | some g => .ok (.key g)

/-- `generateRevealSig` -/
def Party.genReveal (p : Party) : R (Party × Msg) :=
  match p.gy, p.x with
  | some gy, some x =>
    let kid := succ32 p.myKeyId
    let p := { p with ssid := (x, gy), myKeyId := kid, myCur := p.gx.getD 0 }
    let p := p.rotate
    .ok ({ p with myCtr := incCounter p.myCtr }, .reveal x gy kid)
  | _, _ => .panic

/-- `generateSig` (c.gx, c.gy, c.y are set whenever it is reached) -/
def Party.genSig (p : Party) : Party × Msg :=
  let kid := succ32 p.myKeyId
  let p := { p with myKeyId := kid, myCur := p.gy.getD 0 }
  let p := p.rotate
  ({ p with myCtr := incCounter p.myCtr }, .sig (p.gy.getD 0) (p.gx.getD 0) kid)

/-! ### data layer -/

def findSlot (ss : List Slot) (f : Slot → Bool) : Option Nat := ss.findIdx? f

/-- key ids that `calcDataKeys` can still serve: {myKeyId, myKeyId-1} × {theirKeyId, theirKeyId-1} -/
def inWindow (p : Party) (s : Slot) : Bool :=
  (s.myKeyId == p.myKeyId || s.myKeyId == pred32 p.myKeyId) &&
  (s.theirKeyId == p.theirKeyId || s.theirKeyId == pred32 p.theirKeyId)

/-- the slot `calcDataKeys` writes into: the first unused one; failing that (fixed code, af2a104) the first
    whose key ids are no longer current -/
def Party.pickSlot (p : Party) : Option Nat :=
  match findSlot p.slots (fun s => !s.used) with
  | some i => some i
  | none => findSlot p.slots (fun s => !inWindow p s)

def release (ss : List Slot) (i : Nat) : List Slot := ss.set i { ss.getD i {} with used := false }

/-- my DH key for a key id: the current one, the previous one, or none ("peer requested keyid …") -/
def Party.myKeyFor (p : Party) (myKid : Nat) : Option Id :=
  if myKid = p.myKeyId then some p.myCur
  else if myKid = pred32 p.myKeyId then some p.myLast else none

def Party.theirKeyFor (p : Party) (theirKid : Nat) : Option Id :=
  if theirKid = p.theirKeyId then some p.theirCur
  else if theirKid = pred32 p.theirKeyId ∧ p.theirLast.isSome then p.theirLast else none

/-- `calcDataKeys`: index of the slot holding the keys for (myKeyId, theirKeyId), or `none` = error.
    The party is returned in both cases: a stale slot picked for reuse is released even when the key ids
    then turn out to be unacceptable. -/
def Party.calcDataKeys (p : Party) (myKid theirKid : Nat) : Party × Option Nat :=
  match findSlot p.slots (fun s => s.used && s.theirKeyId == theirKid && s.myKeyId == myKid) with
  | some i => (p, some i)
  | none =>
    match p.pickSlot with
    | none => (p, none)
    | some i =>
      match p.myKeyFor myKid, p.theirKeyFor theirKid with
      | some m, some t =>
        ({ p with slots := p.slots.set i ⟨true, theirKid, myKid, m, t, zeros 8⟩ }, some i)
      | _, _ => ({ p with slots := release p.slots i }, none)

/-- `generateData(msg, extra)`; the Go code panics when `calcDataKeys` fails -/
def Party.genData (p : Party) (text : Bytes) (extra : Option STlv) : R (Party × Msg) :=
  match p.calcDataKeys (pred32 p.myKeyId) p.theirKeyId with
  | (_, none) => .panic
  | (p, some i) =>
    let s := p.slots.getD i {}
    .ok ({ p with myCtr := incCounter p.myCtr, oldMacs := [] },
         .data ⟨pred32 p.myKeyId, p.theirKeyId, s.myDH, s.theirDH, p.myCur, p.myCtr, text, extra, p.oldMacs⟩)

/-! ### SMP -/

def Party.resetSMP (p : Party) : Party := { p with smpSt := 1, secret := none, question := [] }

inductive SmpErr where
  | none | generic | failure | secretMissing
deriving DecidableEq, Repr

structure SmpOut where
  reply : Option STlv := none
  complete : Bool := false
  err : SmpErr := .none

/-- `processSMP` -/
def Party.procSMP (p : Party) (t : SmpIn) : Party × SmpOut :=
  if t.typ = 6 then
    ((p.resetSMP), { err := if p.smpSt ≠ 1 then .failure else .none })
  else
  if t.typ = 7 ∧ !t.qOk then (p, { err := .generic }) else
  let p := { p with question := if t.typ = 7 then t.question else p.question }
  if !t.parseOk then (p, { err := .generic }) else
  if t.typ = 2 ∨ t.typ = 7 then
    if p.smpSt ≠ 1 then (p.resetSMP, { reply := some .abort })
    else match p.secret with
      | none => (p, { err := .secretMissing })
      | some sec =>
        if t.nMpis ≠ 6 then (p, { err := .generic }) else
        match t.gen with
        | some (.smp1 i _) =>
          let (p, j) := { p with smpI := i, smpSt := 3 }.newId
          ({ p with smpJ := j }, { reply := some (.smp2 i j sec) })
        | _ => (p, { err := .generic })
  else if t.typ = 3 then
    if p.smpSt ≠ 2 then (p.resetSMP, { reply := some .abort })
    else if t.nMpis ≠ 11 then (p, { reply := some .abort, err := .generic }) else
      match t.gen, p.secret with
      | some (.smp2 i j secB), some sec =>
        if i = p.smpI then
          ({ p with smpJ := j, smpMatch := decide (sec = secB), smpSt := 4 }, { reply := some (.smp3 i j sec) })
        else (p, { reply := some .abort, err := .generic })
      | _, _ => (p, { reply := some .abort, err := .generic })
  else if t.typ = 4 then
    if p.smpSt ≠ 3 then (p.resetSMP, { reply := some .abort })
    else if t.nMpis ≠ 8 then (p, { err := .generic }) else
      match t.gen, p.secret with
      | some (.smp3 i j secA), some sec =>
        if i = p.smpI ∧ j = p.smpJ then
          if sec = secA then
            ({ p with smpSt := 1, secret := none }, { reply := some (.smp4 i j), complete := true })
          else (p, { reply := some (.smp4 i j), err := .failure })
        else (p, { err := .generic })
      | _, _ => (p, { err := .generic })
  else -- typ = 5
    if p.smpSt ≠ 4 then (p.resetSMP, { reply := some .abort })
    else if t.nMpis ≠ 3 then (p, { reply := some .abort, err := .generic }) else
      match t.gen with
      | some (.smp4 i j) =>
        if i = p.smpI ∧ j = p.smpJ then
          if p.smpMatch then ({ p with smpSt := 1, secret := none }, { complete := true })
          else (p, { reply := some .abort, err := .failure })
        else (p, { reply := some .abort, err := .generic })
      | _ => (p, { reply := some .abort, err := .generic })

/-- TLVs of a received data message: symbolic (from a modelled party) or parsed from bytes -/
inductive RTlv where
  | other                 -- padding / unknown type: skipped
  | disconnect
  | smp (t : SmpIn)
deriving DecidableEq, Repr

/-- numMPIs (u32 ≤ 20) followed by that many MPIs -/
def parseMpis (b : Bytes) : Option Nat :=
  match getU32 b with
  | none => none
  | some (n, r) =>
    if n > 20 then none else
    let rec go : Nat → Bytes → Bool
      | 0, _ => true
      | k + 1, r => match getMPI r with | none => false | some (_, r') => go k r'
    if go n r then some n else none

/-- an SMP TLV found in decrypted bytes that no modelled party produced -/
def smpOfBytes (typ : Nat) (data : Bytes) : SmpIn :=
  if typ = 6 then { typ := 6 }
  else if typ = 7 then
    if data.contains 0 then
      let q := data.takeWhile (· ≠ 0)
      let rest := (data.dropWhile (· ≠ 0)).drop 1
      match parseMpis rest with
      | none => { typ := 7, question := q, parseOk := false }
      | some n => { typ := 7, question := q, nMpis := n }
    else { typ := 7, qOk := false }
  else match parseMpis data with
    | none => { typ := typ, parseOk := false }
    | some n => { typ := typ, nMpis := n }

def rtlvOfBytes (t : Tlv) : RTlv :=
  if t.typ = 1 then .disconnect
  else if 2 ≤ t.typ ∧ t.typ ≤ 7 then .smp (smpOfBytes t.typ t.data)
  else .other

def rtlvOfSym : STlv → RTlv
  | .disconnect => .disconnect
  | .smp1 i q => .smp { typ := if q.isEmpty then 2 else 7, question := q, nMpis := 6, gen := some (.smp1 i q) }
  | .smp2 i j s => .smp { typ := 3, nMpis := 11, gen := some (.smp2 i j s) }
  | .smp3 i j s => .smp { typ := 4, nMpis := 8, gen := some (.smp3 i j s) }
  | .smp4 i j => .smp { typ := 5, nMpis := 3, gen := some (.smp4 i j) }
  | .abort => .smp { typ := 6 }

/-- the `EachTLV` loop of `Receive`; `o` carries `out`, `encrypted`, and the `err` left by processData -/
def Party.tlvLoop (p : Party) (o : Out) : List RTlv → R (Party × Out)
  | [] => .ok (p, o)
  | .other :: ts => p.tlvLoop o ts
  | .disconnect :: _ => .ok ({ p with st := .fin }, { o with change := chEnded })
  | .smp t :: _ =>
    let (p, r) := p.procSMP t
    if r.err = .secretMissing then
      .ok ({ p with saved := some t }, { o with err := false, change := chSecretNeeded })
    else
      let o := if r.err = .failure then { o with err := false, change := chFailed }
               else if r.complete then { o with err := r.err ≠ .none, change := chComplete }
               else { o with err := r.err ≠ .none }
      match r.reply with
      | none => .ok (p, o)
      | some rep =>
        match p.genData [] (some rep) with
        | .panic => .panic
        | .ok (p, m) => .ok (p, { o with send := [m] })

/-- `copy(slot.theirLastCtr[:], counter)` -/
def Party.storeCtr (p : Party) (i : Nat) (c : Bytes) : Party :=
  { p with slots := p.slots.set i { p.slots.getD i {} with lastCtr := c } }

/-- `if myKeyId == c.myKeyId { c.rotateDHKeys() }` -/
def Party.rotateMine (p : Party) (rkid : Nat) : Party := if rkid = p.myKeyId then p.rotate else p

/-- `if theirKeyId == c.theirKeyId { evict slots using their retired key id; … c.theirKeyId++ … }` -/
def Party.rotateTheirs (p : Party) (skid : Nat) (next : Id) : Party :=
  if skid = p.theirKeyId then
    let f := fun (s : Slot) => s.theirKeyId == pred32 skid
    { p with slots := evictSlots f p.slots, oldMacs := p.oldMacs ++ evictedKeys f p.slots,
             theirLast := some p.theirCur, theirKeyId := succ32 p.theirKeyId, theirCur := next }
  else p

/-- plaintext split and the TLV loop -/
def Party.deliver (p : Party) (d : DataMsg) : R (Party × Out) :=
  match d.extra with
  | some st =>
    -- plaintext = 0 ‖ padding TLV ‖ extra TLV
    p.tlvLoop { enc := true } [.other, rtlvOfSym st]
  | none =>
    let r := splitPlain (dataPlain d.text none)
    p.tlvLoop { out := r.1, enc := true, err := !r.2.2 } (r.2.1.map rtlvOfBytes)

/-- the part of `processData` after a verified MAC: counter check, key rotation, plaintext split.
    `i` = the slot `calcDataKeys` returned -/
def Party.acceptData (p : Party) (i : Nat) (d : DataMsg) : R (Party × Out) :=
  -- `bytes.Compare(counter, slot.theirLastCtr[:]) <= 0` → "counter regressed" (8-byte big-endian compare)
  if !bytesGt d.ctr (p.slots.getD i {}).lastCtr then .ok (p, { enc := true, err := true }) else
  (((p.storeCtr i d.ctr).rotateMine d.rkid).rotateTheirs d.skid d.next).deliver d

/-! ### Receive -/

/-- a message as `Receive` classifies it; crypto content symbolic -/
inductive In where
  | query (dg : Bytes)          -- isQuery > 0; `dg` = SHA-256 of the MPI of the g^x about to be drawn
  | plain (b : Bytes)
  | bad                         -- base64 error, bad header, unknown message type
  | commit (ok : Bool) (x : Id) (dg : Bytes)
  | key (ok inRange : Bool) (y : Id)
  | reveal (ok aesOk : Bool) (x : Option Id) (rest : Option (Id × Nat))
      -- x: the commit whose `r` this message reveals; rest: (gy used, key id) when the signature part is genuine
  | sig (ok : Bool) (g : Option (Id × Id × Nat))
  | data (ok ignoreErr : Bool) (skid rkid : Nat) (g : Option DataMsg)
deriving DecidableEq, Repr

def errOut : Out := { err := true }

def Party.recv (p : Party) : In → R (Party × Out)
  | .plain b => .ok (p, { out := b })
  | .bad => .ok (p, errOut)
  | .query dg =>
    let p := { p with auth := .awKey }.reset
    let (p, m) := p.genCommit dg
    .ok (p, { send := [m] })
  | .commit ok x dg =>
    match p.auth with
    | .none =>
      if !ok then .ok (p, errOut) else
      let p := { p with auth := .awReveal }
      let (p, m) := ((p.procCommit x dg).reset).genKey
      .ok (p, { send := [m] })
    | .awKey =>
      if !ok then .ok (p, errOut) else
      if bytesGt p.digest dg then .ok (p, { send := [p.serCommit] })
      else
        let p := { p with auth := .awReveal }
        let (p, m) := ((p.procCommit x dg).reset).genKey
        .ok (p, { send := [m] })
    | .awReveal =>
      if !ok then .ok (p, errOut) else
      let p := p.procCommit x dg
      match p.serKey with
      | .panic => .panic
      | .ok m => .ok (p, { send := [m] })
    | .awSig =>
      if !ok then .ok (p, errOut) else
      let (p, m) := ((p.procCommit x dg).reset).genKey
      .ok ({ p with auth := .awReveal }, { send := [m] })
  | .key ok inRange y =>
    match p.auth with
    | .awKey =>
      if !ok ∨ !inRange then .ok (p, errOut) else
      let (p, same) := match p.gy with
        | some g => (p, decide (g = y))
        | none => ({ p with gy := some y }, false)
      if same then .ok (p, errOut) else
      match p.genReveal with
      | .panic => .panic
      | .ok (p, m) => .ok ({ p with auth := .awSig }, { send := [m] })
    | .awSig =>
      if !ok ∨ !inRange then .ok (p, errOut) else
      let (p, same) := match p.gy with
        | some g => (p, decide (g = y))
        | none => ({ p with gy := some y }, false)
      if same then
        match p.serKey with
        | .panic => .panic
        | .ok m => .ok (p, { send := [m] })
      else .ok (p, {})
    | _ => .ok (p, {})
  | .reveal ok aesOk x rest =>
    if p.auth ≠ .awReveal then .ok (p, {}) else
    if !ok ∨ !aesOk then .ok (p, errOut) else
    -- c.gxBytes is decrypted in place whatever happens next
    let hit := match x with | some xr => decide (p.gxB = .commit xr) | none => false
    let p := { p with gxB := .bad }
    if !hit then .ok (p, errOut) else
    let xr := x.getD 0
    let p := { p with gx := some xr }
    match p.y with
    | none => .panic       -- Exp(c.gx, c.y, p) with c.y == nil
    | some y =>
      let p := { p with ssid := (xr, y) }
      match rest with
      | none => .ok (p, errOut)
      | some (yr, kid) =>
        if yr = y ∧ p.gy = some yr then
          let p := { p with theirKeyId := kid, theirCur := xr, theirLast := none, theirPub := some (1 - p.side) }
          let (p, m) := p.genSig
          .ok ({ p with auth := .none, st := .enc }, { send := [m], change := chNewKeys })
        else .ok (p, errOut)
  | .sig ok g =>
    if p.auth ≠ .awSig then .ok (p, {}) else
    if !ok then .ok (p, errOut) else
    match g with
    | none => .ok (p, errOut)
    | some (ys, xs, kid) =>
      if p.gx = some xs ∧ p.gy = some ys then
        .ok ({ p with theirKeyId := kid, theirCur := ys, theirLast := none, auth := .none, st := .enc,
                      theirPub := some (1 - p.side) },
             { change := chNewKeys })
      else .ok (p, errOut)
  | .data ok ignoreErr skid rkid g =>
    if p.st ≠ .enc then .ok (p, errOut) else
    if !ok then .ok (p, { enc := true, err := true }) else
    match p.calcDataKeys rkid skid with
    | (p, none) => .ok (p, { enc := true, err := !ignoreErr })
    | (p, some i) =>
      let s := p.slots.getD i {}
      match g with
      | none => .ok (p, { enc := true, err := !ignoreErr })       -- MAC mismatch
      | some d =>
        if s.myDH = d.rdh ∧ s.theirDH = d.sdh then p.acceptData i d
        else .ok (p, { enc := true, err := !ignoreErr })

/-! ### package constants -/

def queryMessage : Bytes := [63, 79, 84, 82, 118, 50, 63]                       -- "?OTRv2?"
def errorPrefix : Bytes := [63, 79, 84, 82, 32, 69, 114, 114, 111, 114, 58]    -- "?OTR Error:"
/-- NoChange, NewKeys, SMPSecretNeeded, SMPComplete, SMPFailed, ConversationEnded -/
def securityChanges : List Nat := [0, chNewKeys, chSecretNeeded, chComplete, chFailed, chEnded]

/-! ### long-term keys on the wire (`PublicKey.Parse`, `PrivateKey.Parse`) -/

/-- `PublicKey.Parse`: u16 type 0, then the MPIs p, q, g, y; returns them and the rest -/
def parsePub (b : Bytes) : Option (List Nat × Bytes) :=
  match getU16 b with
  | none => none
  | some (t, b0) =>
    if t ≠ 0 then none else
    match getMPI b0 with
    | none => none
    | some (p, b1) =>
    match getMPI b1 with
    | none => none
    | some (q, b2) =>
    match getMPI b2 with
    | none => none
    | some (g, b3) =>
    match getMPI b3 with
    | none => none
    | some (y, b4) => some ([p, q, g, y], b4)

/-- `PrivateKey.Parse`: the public key, then the MPI x -/
def parsePriv (b : Bytes) : Option (List Nat × Bytes) :=
  match parsePub b with
  | none => none
  | some (k, r) =>
    match getMPI r with
    | none => none
    | some (x, r') => some (k ++ [x], r')

/-! ### byte-level front end of `Receive` -/

def otrP : Nat := 0xFFFFFFFFFFFFFFFFC90FDAA22168C234C4C6628B80DC1CD129024E088A67CC74020BBEA63B139B22514A08798E3404DDEF9519B3CD3A431B302B0A6DF25F14374FE1356D6D51C245E485B576625E7EC6F44C42E9A637ED6B0BFF5CB6F406B7EDEE386BFB5A899FA5AE9F24117C4B1FE649286651ECE45B3DC2007CB8A163BF0598DA48361C55D39A69163FA8FD24CF5F83655D23DCA3AD961C62F356208552BB9ED529077096966D670C354E4ABC9804F1746C08CA237327FFFFFFFFFFFFFFFF

/-- what the harness knows about the bytes being delivered -/
structure Oracle where
  qdg : Bytes := []                       -- digest of the commit a query at this step will produce
  genuine : Option (Bytes × Msg) := none  -- decoded bytes of a message a modelled party produced, and its content

def lastIs (c : UInt8) (b : Bytes) : Bool := b.getLast? == some c

/-- payload of a typed message that differs from the genuine one (or there is none) -/
def classifyForged (orc : Oracle) (typ : Nat) (pl : Bytes) : In :=
  let gpl : Option (Nat × Bytes × Msg) :=
    match orc.genuine with
    | none => none
    | some (gb, gm) => match msgHeader gb with | none => none | some (t, b) => some (t, b, gm)
  if typ = 2 then
    match parseCommit pl with
    | none => .commit false 0 []
    | some (_, dg) => .commit true 0 dg
  else if typ = 10 then
    match parseKey pl with
    | none => .key false false 0
    | some v =>
      let id := match gpl with
        | some (10, gb, .key y) => if parseKey gb = some v then y else alienId v
        | _ => alienId v
      .key true (2 ≤ v ∧ v ≤ otrP - 2) id
  else if typ = 17 then
    match parseReveal pl with
    | none => .reveal false false none none
    | some (r, _, _) =>
      let aes := r.length = 16 ∨ r.length = 24 ∨ r.length = 32
      let x := match gpl with
        | some (17, gb, .reveal x _ _) =>
          (match parseReveal gb with | some (gr, _, _) => if gr = r then some x else none | none => none)
        | _ => none
      .reveal true aes x none
  else if typ = 18 then
    match parseSig pl with
    | none => .sig false none
    | some _ => .sig true none
  else if typ = 3 then
    match parseData pl with
    | none => .data false false 0 0 none
    | some e =>
      let g := match gpl with
        | some (3, gb, .data d) =>
          (match parseData gb with
           | some ge => if ge.maced = e.maced ∧ ge.mac = e.mac then some d else none
           | none => none)
        | _ => none
      .data true (e.flags.toNat % 2 = 1) e.theirKeyId e.myKeyId g
  else .bad

def inOfMsg : Msg → In
  | .raw b => .plain b      -- not used: raw bytes go through `classify`
  | .commit x dg => .commit true x dg
  | .key y => .key true true y
  | .reveal x y kid => .reveal true true (some x) (some (y, kid))
  | .sig y x kid => .sig true (some (y, x, kid))
  | .data d => .data true false d.skid d.rkid (some d)

/-- `Receive` after the fragment front end: framing, base64, header, type dispatch -/
def classify (orc : Oracle) (m : Bytes) : In :=
  if hasPrefix msgPrefix m ∧ lastIs dot m then
    let body := (m.drop msgPrefix.length).take (m.length - msgPrefix.length - 1)
    match b64dec body with
    | none => .bad
    | some raw =>
      match msgHeader raw with
      | none => .bad
      | some (typ, pl) =>
        match orc.genuine with
        | some (gb, gm) => if gb = raw then inOfMsg gm else classifyForged orc typ pl
        | none => classifyForged orc typ pl
  else if isQuery m > 0 then .query orc.qdg
  else .plain m

def Party.recvBytes (p : Party) (orc : Oracle) (inp : Bytes) : R (Party × Out) :=
  let (fs, fo) := frontEnd p.fs inp
  let p := { p with fs := fs }
  match fo with
  | .err => .ok (p, errOut)
  | .nothing => .ok (p, {})
  | .msg m => p.recv (classify orc m)

/-- delivery of a whole message produced by a modelled party (its fragments arrive in order:
    `fragment_roundtrip`) -/
def Party.recvMsg (p : Party) (qdg : Bytes) : Msg → R (Party × Out)
  | .raw b => p.recvBytes { qdg := qdg } b
  | m => p.recv (inOfMsg m)

/-! ### the local API -/

structure ApiOut where
  send : List Msg := []
  err : Bool := false
deriving DecidableEq, Repr

def Party.send (p : Party) (text : Bytes) : R (Party × ApiOut) :=
  match p.st with
  | .plain => .ok (p, { send := [.raw text] })
  | .enc =>
    match p.genData text none with
    | .panic => .panic
    | .ok (p, m) => .ok (p, { send := [m] })
  | .fin => .ok (p, { err := true })

def Party.endConv (p : Party) : R (Party × ApiOut) :=
  match p.st with
  | .plain => .ok (p, {})
  | .enc =>
    match { p with st := .plain }.genData [] (some .disconnect) with
    | .panic => .panic
    | .ok (p, m) => .ok (p, { send := [m] })
  | .fin => .ok ({ p with st := .plain }, {})

/-- `generateData` for each TLV `startSMP` returned -/
def Party.sendTlvs (p : Party) : List STlv → List Msg → R (Party × List Msg)
  | [], acc => .ok (p, acc)
  | t :: ts, acc =>
    match p.genData [] (some t) with
    | .panic => .panic
    | .ok (p, m) => p.sendTlvs ts (acc ++ [m])

/-- `Authenticate` when `c.smp.saved != nil`: compute the secret ("they started it"), re-run `processSMP`
    on the saved SMP1 message; `panic("SMP completed on the first message")` if that completes -/
def Party.answerSMP (p : Party) (t : SmpIn) (secret : Bytes) : R (Party × ApiOut) :=
  let p0 : Party := { p with secret := some ⟨1 - p.side, p.side, p.ssid, secret⟩ }
  if (p0.procSMP t).2.complete then .panic else
  let p1 : Party := { (p0.procSMP t).1 with saved := none }
  match (p0.procSMP t).2.reply with
  | none => .ok (p1, { err := (p0.procSMP t).2.err ≠ .none })
  | some rep =>
    match p1.genData [] (some rep) with
    | .panic => .panic
    | .ok (p2, m) => .ok (p2, { send := [m], err := (p0.procSMP t).2.err ≠ .none })

/-- the state `startSMP` leaves (secret computed "we started it", fresh SMP run, smpState2) -/
def Party.smpStartState (p : Party) (secret : Bytes) : Party :=
  let p0 : Party := { p with secret := some ⟨p.side, 1 - p.side, p.ssid, secret⟩ }
  { p0.newId.1 with smpI := p0.newId.2, question := [], smpSt := 2 }

/-- the TLVs `startSMP` returns: an abort first when an SMP run was in progress -/
def Party.smpStartTlvs (p : Party) (question : Bytes) : List STlv :=
  (if p.smpSt ≠ 1 then [STlv.abort] else []) ++ [.smp1 (2 * (p.fresh + 1) + p.side) question]

/-- `Authenticate(question, mutualSecret)` -/
def Party.authenticate (p : Party) (question secret : Bytes) : R (Party × ApiOut) :=
  if p.st ≠ .enc then .ok (p, { err := true }) else
  match p.saved with
  | some t => p.answerSMP t secret
  | none =>
    match (p.smpStartState secret).sendTlvs (p.smpStartTlvs question) [] with
    | .panic => .panic
    | .ok (p, ms) => .ok (p, { send := ms })

/-! ### two parties and the messages in flight between them -/

structure World where
  a : Party := { side := 0 }
  b : Party := { side := 1 }
  toA : List Msg := []
  toB : List Msg := []
deriving DecidableEq, Repr

inductive Step where
  | query (onA : Bool) (dg : Bytes)     -- the party receives `?OTRv2?`
  | deliver (toA : Bool)                -- oldest message in flight to that party
  | send (fromA : Bool) (text : Bytes)
  | endc (onA : Bool)
  | auth (onA : Bool) (q s : Bytes)
  | inject (toA : Bool) (b dg : Bytes)  -- bytes from the network attacker (dg: digest oracle if it is a query)
deriving DecidableEq, Repr

inductive Obs where
  | idle                                 -- nothing in flight
  | recv (o : Out) (isEnc : Bool) (question : Bytes)
  | api (o : ApiOut) (isEnc : Bool)
deriving DecidableEq, Repr

def World.party (w : World) (isA : Bool) : Party := if isA then w.a else w.b

/-- store the party back and queue what it emitted for the peer -/
def World.put (w : World) (isA : Bool) (p : Party) (out : List Msg) : World :=
  if isA then { w with a := p, toB := w.toB ++ out } else { w with b := p, toA := w.toA ++ out }

def World.step (w : World) : Step → R (World × Obs)
  | .query isA dg =>
    match (w.party isA).recv (.query dg) with
    | .panic => .panic
    | .ok (p, o) => .ok (w.put isA p o.send, .recv o (p.st == .enc) p.question)
  | .deliver isA =>
    match (if isA then w.toA else w.toB) with
    | [] => .ok (w, .idle)
    | m :: rest =>
      let w := if isA then { w with toA := rest } else { w with toB := rest }
      match (w.party isA).recvMsg [] m with
      | .panic => .panic
      | .ok (p, o) => .ok (w.put isA p o.send, .recv o (p.st == .enc) p.question)
  | .send isA text =>
    match (w.party isA).send text with
    | .panic => .panic
    | .ok (p, o) => .ok (w.put isA p o.send, .api o (p.st == .enc))
  | .endc isA =>
    match (w.party isA).endConv with
    | .panic => .panic
    | .ok (p, o) => .ok (w.put isA p o.send, .api o (p.st == .enc))
  | .auth isA q s =>
    match (w.party isA).authenticate q s with
    | .panic => .panic
    | .ok (p, o) => .ok (w.put isA p o.send, .api o (p.st == .enc))
  | .inject isA b dg =>
    match (w.party isA).recvBytes { qdg := dg } b with
    | .panic => .panic
    | .ok (p, o) => .ok (w.put isA p o.send, .recv o (p.st == .enc) p.question)

/-- run a script; a panic ends it (`none` at the end of the observation list) -/
def World.run (w : World) : List Step → List (Option Obs)
  | [] => []
  | s :: ss =>
    match w.step s with
    | .panic => [none]
    | .ok (w, o) => some o :: w.run ss

/-- what the public fields say after a script: `SSID` equal on both sides; `TheirPublicKey` is the peer's key -/
def World.summary (w : World) : Bool × Bool × Bool :=
  (w.a.ssid == w.b.ssid, w.a.theirPub == some 1, w.b.theirPub == some 0)

/-- the world after a script (`none` if a step panicked) -/
def World.runTo (w : World) : List Step → Option World
  | [] => some w
  | s :: ss =>
    match w.step s with
    | .panic => none
    | .ok (w, _) => w.runTo ss

/-- decoded bytes of a framed wire text `?OTR:`base64`.` -/
def unframe (m : Bytes) : Option Bytes :=
  if hasPrefix msgPrefix m ∧ lastIs dot m then
    b64dec ((m.drop msgPrefix.length).take (m.length - msgPrefix.length - 1))
  else none

end XC.C47
