/-
  C34 — SSH client user authentication (ssh/client_auth.go: clientAuthenticate, noneAuth,
  passwordCallback, publicKeyCallback.auth, pickSignatureAlgorithm, validateKey/confirmKeyAck,
  handleAuthResponse, KeyboardInteractiveChallenge.auth).

  The client is modelled as a function from its configuration and the scripted sequence of packets
  the server side delivers to the trace of packets written / read and the final result.
  Not modelled: AuthCallback, RetryableAuthMethod, gssapi-with-mic, BannerCallback, callbacks that
  fail (PasswordCallback / PublicKeysCallback errors); signatures are made by the real signers and
  judged by the harness with the stdlib (the trace records only the format).

  One deliberate deviation from the code, see `pkLoop`: a signer for which no signature algorithm
  can be chosen is always skipped (the property's reading); the code skips only the first such
  signer and offers later ones with an EMPTY algorithm name (known finding C34/empty-algo).
-/
import XC.Model.C32
namespace XC.C34
open XC.C32 (underlyingAlgo algorithmsForKeyFormat certKeyAlgoNames isRSA)

/-! ## configuration -/

inductive SignerKind where
  | multi (algos : List String)   -- MultiAlgorithmSigner with these Algorithms()
  | algOnly                       -- AlgorithmSigner without Algorithms()
  | plain                         -- Signer only
deriving DecidableEq, Repr, Inhabited

structure Signer where
  key : Nat            -- names the public key blob
  keyFormat : String   -- PublicKey().Type()
  kind : SignerKind
deriving DecidableEq, Repr, Inhabited

inductive KbdPolicy where
  | answerAll     -- as many answers as prompts
  | wrongCount    -- one answer too many
  | fail          -- the challenge callback returns an error
deriving DecidableEq, Repr, Inhabited

inductive Method where
  | password (pw : String)
  | publickey (signers : List Signer)
  | kbd (p : KbdPolicy)
deriving DecidableEq, Repr, Inhabited

def Method.name : Method → String
  | .password _ => "password"
  | .publickey _ => "publickey"
  | .kbd _ => "keyboard-interactive"

structure Cfg where
  user : String
  auth : List Method
deriving Repr, Inhabited

/-! ## what the server side delivers -/

/-- how the fields of a scripted SSH_MSG_USERAUTH_PK_OK relate to the query it answers -/
inductive PkOkSpec where
  | echo                    -- algorithm and key of the query
  | keyType                 -- key of the query, algorithm := the key's type
  | otherKey                -- algorithm of the query, some other key blob
  | algo (a : String)       -- key of the query, this algorithm name
deriving DecidableEq, Repr, Inhabited

inductive Srv where
  | serviceAccept
  | extInfo (sigAlgs : Option String)   -- SSH_MSG_EXT_INFO, with server-sig-algs = value if some
  | failure (methods : List String) (partialOk : Bool)
  | success
  | banner
  | pkOk (s : PkOkSpec)                 -- message number 60 …
  | infoReq (n : Nat)                   -- … which is also USERAUTH_INFO_REQUEST (n well-formed prompts)
  | infoReqBad                          -- INFO_REQUEST whose prompt data is malformed
  | disconnect                          -- the transport reports a received SSH_MSG_DISCONNECT
  | readErr                             -- any other read error
  | malformed (ty : Nat)                -- a truncated message of type 51 / 60 / 7 / 6 / 53
  | other (ty : Nat)                    -- a well-formed message the auth code does not expect
deriving DecidableEq, Repr, Inhabited

/-! ## trace -/

inductive Ev where
  | wServiceRequest
  | wNone (user : String)
  | wPassword (user : String) (pw : String)
  | wQuery (user : String) (algo : String) (key : Nat)
  | wSign (user : String) (algo : String) (key : Nat) (sigFormat : String)
  | wKbd (user : String)
  | wInfoResp (n : Nat)
  | rd (p : Srv)                          -- a packet consumed from the server
  | ack (algo : String) (key : Nat)       -- confirmKeyAck accepted a PK_OK carrying (algo, key)
deriving DecidableEq, Repr, Inhabited

inductive AuthRes where
  | failure | partialOk | success
deriving DecidableEq, Repr, Inhabited

inductive Err where
  | disconnect | other
deriving DecidableEq, Repr, Inhabited

/-- what an `auth` call returns, plus its trace and the unread rest of the script -/
structure AuthOut where
  res : AuthRes
  methods : Option (List String)
  err : Option Err
  evs : List Ev
  rest : List Srv
deriving Repr, Inhabited

def failWith (e : Err) (evs : List Ev) (rest : List Srv) : AuthOut := ⟨.failure, none, some e, evs, rest⟩

/-- reading from an exhausted script is io.EOF -/
def readErrOf : Srv → Option Err
  | .disconnect => some .disconnect
  | .readErr => some .other
  | _ => none

/-! ## handleAuthResponse -/

def handleAuthResponse : List Srv → Bool → List Ev → AuthOut
  | [], _, evs => failWith .other evs []
  | p :: rest, gotExt, evs =>
    let evs := evs ++ [Ev.rd p]
    match p with
    | .disconnect => failWith .disconnect evs rest
    | .readErr => failWith .other evs rest
    | .banner => handleAuthResponse rest gotExt evs
    | .extInfo _ => if gotExt then failWith .other evs rest else handleAuthResponse rest true evs
    | .malformed 7 => if gotExt then failWith .other evs rest else handleAuthResponse rest true evs
    | .failure ms partialOk => ⟨if partialOk then .partialOk else .failure, some ms, none, evs, rest⟩
    | .success => ⟨.success, none, none, evs, rest⟩
    | _ => failWith .other evs rest

/-! ## pickSignatureAlgorithm -/

def asAlgorithms (s : Signer) : List String :=
  match s.kind with
  | .multi l => l
  | .algOnly => algorithmsForKeyFormat (underlyingAlgo s.keyFormat)
  | .plain => [underlyingAlgo s.keyFormat]

def fallbackAlgo (s : Signer) : Option String :=
  if (asAlgorithms s).contains (underlyingAlgo s.keyFormat) then some s.keyFormat else none

/-- `certificateAlgo` -/
def certificateAlgo (algo : String) : Option String :=
  (certKeyAlgoNames.find? (fun p => p.2 == algo)).map (·.1)

def findCommon (client server : List String) : Option String :=
  client.find? (fun c => server.contains c)

/-- `pickSignatureAlgorithm` once the extension value has been split at commas;
    `none` = error ("no common public key signature algorithm") -/
def pickFrom (s : Signer) (base : Option (List String)) : Option String :=
  match base with
  | none => fallbackAlgo s
  | some base =>
    let serverAlgos := base ++ base.filterMap certificateAlgo
    let supported := algorithmsForKeyFormat s.keyFormat
    let keyAlgos := (asAlgorithms s).filterMap fun signerAlgo =>
      supported.find? (fun a => underlyingAlgo a == signerAlgo)
    match findCommon keyAlgos serverAlgos with
    | some a => some a
    | none => fallbackAlgo s

def pickSignatureAlgorithm (s : Signer) (sigAlgs : Option String) : Option String :=
  pickFrom s (sigAlgs.map (·.splitOn ","))

/-! ## validateKey / confirmKeyAck -/

/-- (algo, key) carried by a scripted PK_OK answering the query (qAlgo, key of signer s);
    key 0 stands for "some other key blob" -/
def resolvePkOk (spec : PkOkSpec) (qAlgo : String) (s : Signer) : String × Nat :=
  match spec with
  | .echo => (qAlgo, s.key)
  | .keyType => (s.keyFormat, s.key)
  | .otherKey => (qAlgo, 0)
  | .algo a => (a, s.key)

/-- result of confirmKeyAck: `inl err`, or `inr accepted` -/
def confirmKeyAck (qAlgo : String) (s : Signer) : List Srv → List Ev → (Sum Err Bool) × List Ev × List Srv
  | [], evs => (.inl .other, evs, [])
  | p :: rest, evs =>
    let evs := evs ++ [Ev.rd p]
    match p with
    | .disconnect => (.inl .disconnect, evs, rest)
    | .readErr => (.inl .other, evs, rest)
    | .banner => confirmKeyAck qAlgo s rest evs
    | .pkOk spec =>
      let ak := resolvePkOk spec qAlgo s
      if !(algorithmsForKeyFormat s.keyFormat).contains ak.1 then (.inr false, evs, rest)
      else if ak.2 != s.key then (.inr false, evs, rest)
      else (.inr true, evs ++ [Ev.ack ak.1 ak.2], rest)
    | .infoReq _ => (.inl .other, evs, rest)      -- type 60 that does not parse as PK_OK
    | .infoReqBad => (.inl .other, evs, rest)
    | .malformed ty => if ty == 51 then (.inr false, evs, rest) else (.inl .other, evs, rest)
    | .failure _ _ => (.inr false, evs, rest)
    | _ => (.inl .other, evs, rest)

/-! ## publicKeyCallback.auth -/

def isRSACert (algo : String) : Bool :=
  (certKeyAlgoNames.lookup algo).isSome && isRSA algo

/-- the ssh-rsa compatibility signer appended for an RSA certificate the server rejected -/
def compatSigner (s : Signer) (algo : String) : Option Signer :=
  if isRSACert algo && algo != "ssh-rsa-cert-v01@openssh.com" && (asAlgorithms s).contains "ssh-rsa"
  then some { s with kind := .multi ["ssh-rsa"] } else none

/-- how the loop over signers ends -/
inductive PkRes where
  | ret (out : AuthOut)                                   -- a `return` inside the loop
  | exhausted (methods : Option (List String)) (script : List Srv) (evs : List Ev) (compat : List Signer)
deriving Repr, Inhabited

/-- the loop over signers.  `orig` = still inside the original list (compat signers are
    collected); `methods` = list from the last failed signature attempt. -/
def pkLoop (user : String) (sigAlgs : Option String) :
    List Signer → Bool → List Signer → Option (List String) → List Srv → List Ev → PkRes
  | [], _, compat, methods, script, evs => .exhausted methods script evs compat
  | s :: more, orig, compat, methods, script, evs =>
    match pickSignatureAlgorithm s sigAlgs with
    | none => pkLoop user sigAlgs more orig compat methods script evs   -- (deviation: see header)
    | some algo =>
      match confirmKeyAck algo s script (evs ++ [Ev.wQuery user algo s.key]) with
      | (.inl e, evs, rest) => .ret (failWith e evs rest)
      | (.inr false, evs, rest) =>
        pkLoop user sigAlgs more orig (if orig then compat ++ (compatSigner s algo).toList else compat) methods rest evs
      | (.inr true, evs, rest) =>
        let r := handleAuthResponse rest false (evs ++ [Ev.wSign user algo s.key (underlyingAlgo algo)])
        if r.err.isSome then .ret (failWith (r.err.getD .other) r.evs r.rest)
        else if r.res != .failure || !(r.methods.getD []).contains "publickey" then .ret r
        else pkLoop user sigAlgs more orig compat r.methods r.rest r.evs

/-- `publicKeyCallback.auth`: the original signers, then the collected compat signers -/
def pkAuth (user : String) (sigAlgs : Option String) (signers : List Signer) (script : List Srv) : AuthOut :=
  match pkLoop user sigAlgs signers true [] none script [] with
  | .ret out => out
  | .exhausted methods script evs compat =>
    match pkLoop user sigAlgs compat false [] methods script evs with
    | .ret out => out
    | .exhausted methods script evs _ => ⟨.failure, methods, none, evs, script⟩

/-! ## keyboard-interactive -/

def kbdLoop (p : KbdPolicy) : List Srv → Bool → Bool → List Ev → AuthOut
  | [], _, _, evs => failWith .other evs []
  | pkt :: rest, gotExt, gotReq, evs =>
    let evs := evs ++ [Ev.rd pkt]
    match pkt with
    | .disconnect => failWith .disconnect evs rest
    | .readErr => failWith .other evs rest
    | .banner => kbdLoop p rest gotExt gotReq evs
    | .extInfo _ => if gotExt then failWith .other evs rest else kbdLoop p rest true gotReq evs
    | .malformed 7 => if gotExt then failWith .other evs rest else kbdLoop p rest true gotReq evs
    | .infoReq n =>
      match p with
      | .answerAll => kbdLoop p rest gotExt true (evs ++ [Ev.wInfoResp n])
      | _ => failWith .other evs rest
    | .pkOk _ => failWith .other evs rest      -- a PK_OK body does not parse as an INFO_REQUEST
    | .failure ms partialOk =>
      if partialOk then ⟨.partialOk, some ms, none, evs, rest⟩
      else if !gotReq then ⟨.failure, some ms, some .other, evs, rest⟩
      else ⟨.failure, some ms, none, evs, rest⟩
    | .success => ⟨.success, none, none, evs, rest⟩
    | _ => failWith .other evs rest

/-! ## one auth method -/

def runMethod (cfg : Cfg) (sigAlgs : Option String) (m : Method) (script : List Srv) : AuthOut :=
  match m with
  | .password pw => handleAuthResponse script false [Ev.wPassword cfg.user pw]
  | .publickey signers => pkAuth cfg.user sigAlgs signers script
  | .kbd p => kbdLoop p script false false [Ev.wKbd cfg.user]

/-! ## clientAuthenticate -/

inductive Result where
  | ok | err
deriving DecidableEq, Repr, Inhabited

structure LoopSt where
  tried : List String := []
  partialOk : List String := []
  lastMethods : List String := []
deriving Repr, Inhabited

/-- the `findNext` scan: first configured method not yet tried (failed) that the server lists -/
def selectNext (cfg : Cfg) (tried methods : List String) : Option Method :=
  cfg.auth.find? (fun a => !tried.contains a.name && methods.contains a.name)

/-- the result the loop acts on: any error turns the call into a failure -/
def effRes (r : AuthOut) : AuthRes := if r.err.isSome then .failure else r.res

/-- `partialSuccess = append(…)` / `tried = append(…)` -/
def record (st : LoopSt) (name : String) (res : AuthRes) : LoopSt :=
  if res == .partialOk then { st with partialOk := st.partialOk ++ [name] }
  else { st with tried := st.tried ++ [name] }

/-- bookkeeping after one `auth` call; `inl` = the loop ends with this result -/
def afterAuth (cfg : Cfg) (st : LoopSt) (name : String) (r : AuthOut) : Sum Result (LoopSt × Method) :=
  if r.err == some .disconnect then .inl .err else
  if effRes r == .success then .inl .ok else
  let st1 := record st name (effRes r)
  if st1.partialOk.length + st1.tried.length > 64 then .inl .err else
  match selectNext cfg st1.tried (r.methods.getD st.lastMethods) with
  | some a => .inr ({ st1 with lastMethods := r.methods.getD st.lastMethods }, a)
  | none => .inl .err

/-- one `auth` call of the main loop: which method, the server's method list in force and the
    methods already failed when it was chosen, and what the call did -/
structure Seg where
  method : String
  allowed : List String
  tried : List String
  out : AuthOut
deriving Repr, Inhabited

/-- the loop starts with the "none" method, then uses configured methods -/
def nameOf : Option Method → String
  | none => "none"
  | some a => a.name

def callAuth (cfg : Cfg) (sigAlgs : Option String) (m : Option Method) (script : List Srv) : AuthOut :=
  match m with
  | none => handleAuthResponse script false [Ev.wNone cfg.user]
  | some a => runMethod cfg sigAlgs a script

/-- the main loop, `fuel` iterations at most (66 suffice: see `fuel_irrelevant`) -/
def mainLoop (cfg : Cfg) (sigAlgs : Option String) : Nat → LoopSt → Option Method → List Srv → List Seg → List Seg × Result
  | 0, _, _, _, segs => (segs, .err)
  | fuel + 1, st, m, script, segs =>
    match afterAuth cfg st (nameOf m) (callAuth cfg sigAlgs m script) with
    | .inl res => (segs ++ [⟨nameOf m, st.lastMethods, st.tried, callAuth cfg sigAlgs m script⟩], res)
    | .inr (st', a) =>
      mainLoop cfg sigAlgs fuel st' (some a) (callAuth cfg sigAlgs m script).rest
        (segs ++ [⟨nameOf m, st.lastMethods, st.tried, callAuth cfg sigAlgs m script⟩])

structure RunOut where
  pre : List Ev          -- service request and what was read before the loop started
  segs : List Seg
  res : Result
deriving Repr, Inhabited

/-- `clientAuthenticate`: service request, optional EXT_INFO, SERVICE_ACCEPT, then the loop -/
def run (cfg : Cfg) (script : List Srv) : RunOut :=
  match script with
  | [] => ⟨[Ev.wServiceRequest], [], .err⟩
  | p :: rest =>
    let evs := [Ev.wServiceRequest, Ev.rd p]
    match p with
    | .extInfo sa =>
      match rest with
      | [] => ⟨evs, [], .err⟩
      | q :: rest2 =>
        if q == .serviceAccept then
          let (segs, res) := mainLoop cfg sa 66 {} none rest2 []
          ⟨evs ++ [Ev.rd q], segs, res⟩
        else ⟨evs ++ [Ev.rd q], [], .err⟩
    | .serviceAccept =>
      let (segs, res) := mainLoop cfg none 66 {} none rest []
      ⟨evs, segs, res⟩
    | _ => ⟨evs, [], .err⟩

def RunOut.events (r : RunOut) : List Ev := r.pre ++ (r.segs.map (·.out.evs)).flatten

/-! ## real client against the real Go server: which combinations must authenticate

  The server demands a chain of methods (each stage but the last answers the right credential with
  a partial success naming the next stage) and advertises `serverAlgs` as server-sig-algs.  A
  combination is *compatible* when, for every stage, the first client method of that name carries the
  right credential — for publickey: some signer holds the authorized key and the algorithm
  `pickSignatureAlgorithm` chooses for it is one the server accepts. -/

inductive Cred where
  | password (pw : String)
  | kbd (answer : String)
  | publickey (signers : List Signer)
deriving Repr, Inhabited

def Cred.name : Cred → String
  | .password _ => "password"
  | .kbd _ => "keyboard-interactive"
  | .publickey _ => "publickey"

def signerWorks (serverAlgs : List String) (authKey : Nat) (s : Signer) : Bool :=
  s.key == authKey &&
    match pickSignatureAlgorithm s (some (",".intercalate serverAlgs)) with
    | some a => serverAlgs.contains (underlyingAlgo a)
    | none => false

def stageOk (serverAlgs : List String) (authKey : Nat) (cli : List Cred) (m : String) : Bool :=
  match cli.find? (fun c => c.name == m) with
  | some (.password pw) => pw == "good"
  | some (.kbd a) => a == "good"
  | some (.publickey signers) => signers.any (signerWorks serverAlgs authKey)
  | none => false

def compatible (chain : List String) (cli : List Cred) (authKey : Nat) (serverAlgs : List String) : Bool :=
  !chain.isEmpty && chain.all (stageOk serverAlgs authKey cli)

end XC.C34
