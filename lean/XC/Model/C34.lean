/-
  C34 — SSH client user authentication (ssh/client_auth.go: clientAuthenticate, noneAuth,
  passwordCallback, publicKeyCallback.auth, pickSignatureAlgorithm, validateKey/confirmKeyAck,
  handleAuthResponse, KeyboardInteractiveChallenge.auth).

  The client is modelled as a function from its configuration and the scripted sequence of packets
  the server side delivers to the trace of packets written / read and the final result.
  Modelled as well: ClientConfig.AuthCallback (scripted decisions), RetryableAuthMethod,
  PublicKeysCallback whose answer changes between calls.  Not modelled: gssapi-with-mic,
  BannerCallback, callbacks that fail (PasswordCallback / PublicKeysCallback errors); signatures are
  made by the real signers and judged by the harness with the stdlib (the trace records only the
  format).  RetryableAuthMethod with maxTries <= 0 around a method that can fail without reading a
  packet (publickey with no usable signer) spins forever in the code; the model stops after
  |script|+1 rounds and the generators do not produce that configuration.
-/
import XC.Model.C32
namespace XC.C34
open XC.C32 (underlyingAlgo algorithmsForKeyFormat certKeyAlgoNames isRSA)

/-! ## configuration -/

inductive SignerKind where
  | multi (algos : List String)   -- MultiAlgorithmSigner with these Algorithms()
  | algOnly                       -- AlgorithmSigner without Algorithms()
  | plain                         -- Signer only
deriving DecidableEq, Repr, Inhabited

structure Signer where
  key : Nat            -- names the public key blob
  keyFormat : String   -- PublicKey().Type()
  kind : SignerKind
deriving DecidableEq, Repr, Inhabited

inductive KbdPolicy where
  | answerAll     -- as many answers as prompts
  | wrongCount    -- one answer too many
  | fail          -- the challenge callback returns an error
deriving DecidableEq, Repr, Inhabited

inductive Base where
  | password (pw : String)
  | publickey (signers : List Signer)
  /-- PublicKeysCallback: the k-th call (counted over the whole connection) returns the k-th list,
      the last list repeats; no list = no signers -/
  | publickeyCb (lists : List (List Signer))
  | kbd (p : KbdPolicy)
  /-- PasswordCallback / PublicKeysCallback whose function returns an error: `auth` fails without I/O -/
  | failing (name : String)
deriving DecidableEq, Repr, Inhabited

def Base.name : Base → String
  | .password _ => "password"
  | .publickey _ => "publickey"
  | .publickeyCb _ => "publickey"
  | .kbd _ => "keyboard-interactive"
  | .failing n => n

/-- an AuthMethod: a base method, optionally wrapped in RetryableAuthMethod(base, maxTries) -/
structure Method where
  base : Base
  retry : Option Int := none
deriving DecidableEq, Repr, Inhabited

def Method.name (m : Method) : String := m.base.name

/-- what a scripted ClientConfig.AuthCallback returns -/
inductive CbDecision where
  | next                -- (nil, nil): fall back to the scan over ClientConfig.Auth
  | use (m : Method)    -- this AuthMethod (need not be configured nor listed by the server)
  | fail                -- (nil, err): the handshake aborts
deriving DecidableEq, Repr, Inhabited

structure Cfg where
  user : String
  auth : List Method
  /-- AuthCallback: none = nil; some ds = set, its k-th invocation returns ds[k] (`next` beyond the end) -/
  authCb : Option (List CbDecision) := none
deriving Repr, Inhabited

/-! ## what the server side delivers -/

/-- how the fields of a scripted SSH_MSG_USERAUTH_PK_OK relate to the query it answers -/
inductive PkOkSpec where
  | echo                    -- algorithm and key of the query
  | keyType                 -- key of the query, algorithm := the key's type
  | otherKey                -- algorithm of the query, some other key blob
  | algo (a : String)       -- key of the query, this algorithm name
deriving DecidableEq, Repr, Inhabited

inductive Srv where
  | serviceAccept
  | extInfo (sigAlgs : Option String)   -- SSH_MSG_EXT_INFO, with server-sig-algs = value if some
  | failure (methods : List String) (partialOk : Bool)
  | success
  | banner
  | pkOk (s : PkOkSpec)                 -- message number 60 …
  | infoReq (n : Nat)                   -- … which is also USERAUTH_INFO_REQUEST (n well-formed prompts)
  | infoReqBad                          -- INFO_REQUEST whose prompt data is malformed
  | disconnect                          -- the transport reports a received SSH_MSG_DISCONNECT
  | readErr                             -- any other read error
  | malformed (ty : Nat)                -- a truncated message of type 51 / 60 / 7 / 6 / 53
  | other (ty : Nat)                    -- a well-formed message the auth code does not expect
deriving DecidableEq, Repr, Inhabited

/-! ## trace -/

inductive Ev where
  | wServiceRequest
  | wNone (user : String)
  | wPassword (user : String) (pw : String)
  | wQuery (user : String) (algo : String) (key : Nat)
  | wSign (user : String) (algo : String) (key : Nat) (sigFormat : String)
  | wKbd (user : String)
  | wInfoResp (n : Nat)
  | rd (p : Srv)                          -- a packet consumed from the server
  | ack (algo : String) (key : Nat)       -- confirmKeyAck accepted a PK_OK carrying (algo, key)
deriving DecidableEq, Repr, Inhabited

inductive AuthRes where
  | failure | partialOk | success
deriving DecidableEq, Repr, Inhabited

inductive Err where
  | disconnect | other
deriving DecidableEq, Repr, Inhabited

/-- what an `auth` call returns, plus its trace and the unread rest of the script -/
structure AuthOut where
  res : AuthRes
  methods : Option (List String)
  err : Option Err
  evs : List Ev
  rest : List Srv
deriving Repr, Inhabited

def failWith (e : Err) (evs : List Ev) (rest : List Srv) : AuthOut := ⟨.failure, none, some e, evs, rest⟩

/-- reading from an exhausted script is io.EOF -/
def readErrOf : Srv → Option Err
  | .disconnect => some .disconnect
  | .readErr => some .other
  | _ => none

/-! ## handleAuthResponse -/

def handleAuthResponse : List Srv → Bool → List Ev → AuthOut
  | [], _, evs => failWith .other evs []
  | p :: rest, gotExt, evs =>
    let evs := evs ++ [Ev.rd p]
    match p with
    | .disconnect => failWith .disconnect evs rest
    | .readErr => failWith .other evs rest
    | .banner => handleAuthResponse rest gotExt evs
    | .extInfo _ => if gotExt then failWith .other evs rest else handleAuthResponse rest true evs
    | .malformed 7 => if gotExt then failWith .other evs rest else handleAuthResponse rest true evs
    | .failure ms partialOk => ⟨if partialOk then .partialOk else .failure, some ms, none, evs, rest⟩
    | .success => ⟨.success, none, none, evs, rest⟩
    | _ => failWith .other evs rest

/-! ## pickSignatureAlgorithm -/

def asAlgorithms (s : Signer) : List String :=
  match s.kind with
  | .multi l => l
  | .algOnly => algorithmsForKeyFormat (underlyingAlgo s.keyFormat)
  | .plain => [underlyingAlgo s.keyFormat]

def fallbackAlgo (s : Signer) : Option String :=
  if (asAlgorithms s).contains (underlyingAlgo s.keyFormat) then some s.keyFormat else none

/-- `certificateAlgo` -/
def certificateAlgo (algo : String) : Option String :=
  (certKeyAlgoNames.find? (fun p => p.2 == algo)).map (·.1)

def findCommon (client server : List String) : Option String :=
  client.find? (fun c => server.contains c)

/-- `pickSignatureAlgorithm` once the extension value has been split at commas;
    `none` = error ("no common public key signature algorithm") -/
def pickFrom (s : Signer) (base : Option (List String)) : Option String :=
  match base with
  | none => fallbackAlgo s
  | some base =>
    let serverAlgos := base ++ base.filterMap certificateAlgo
    let supported := algorithmsForKeyFormat s.keyFormat
    let keyAlgos := (asAlgorithms s).filterMap fun signerAlgo =>
      supported.find? (fun a => underlyingAlgo a == signerAlgo)
    match findCommon keyAlgos serverAlgos with
    | some a => some a
    | none => fallbackAlgo s

def pickSignatureAlgorithm (s : Signer) (sigAlgs : Option String) : Option String :=
  pickFrom s (sigAlgs.map (·.splitOn ","))

/-! ## validateKey / confirmKeyAck -/

/-- (algo, key) carried by a scripted PK_OK answering the query (qAlgo, key of signer s);
    key 0 stands for "some other key blob" -/
def resolvePkOk (spec : PkOkSpec) (qAlgo : String) (s : Signer) : String × Nat :=
  match spec with
  | .echo => (qAlgo, s.key)
  | .keyType => (s.keyFormat, s.key)
  | .otherKey => (qAlgo, 0)
  | .algo a => (a, s.key)

/-- result of confirmKeyAck: `inl err`, or `inr accepted` -/
def confirmKeyAck (qAlgo : String) (s : Signer) : List Srv → List Ev → (Sum Err Bool) × List Ev × List Srv
  | [], evs => (.inl .other, evs, [])
  | p :: rest, evs =>
    let evs := evs ++ [Ev.rd p]
    match p with
    | .disconnect => (.inl .disconnect, evs, rest)
    | .readErr => (.inl .other, evs, rest)
    | .banner => confirmKeyAck qAlgo s rest evs
    | .pkOk spec =>
      let ak := resolvePkOk spec qAlgo s
      if !(algorithmsForKeyFormat s.keyFormat).contains ak.1 then (.inr false, evs, rest)
      else if ak.2 != s.key then (.inr false, evs, rest)
      else (.inr true, evs ++ [Ev.ack ak.1 ak.2], rest)
    | .infoReq _ => (.inl .other, evs, rest)      -- type 60 that does not parse as PK_OK
    | .infoReqBad => (.inl .other, evs, rest)
    | .malformed ty => if ty == 51 then (.inr false, evs, rest) else (.inl .other, evs, rest)
    | .failure _ _ => (.inr false, evs, rest)
    | _ => (.inl .other, evs, rest)

/-! ## publicKeyCallback.auth -/

def isRSACert (algo : String) : Bool :=
  (certKeyAlgoNames.lookup algo).isSome && isRSA algo

/-- the ssh-rsa compatibility signer appended for an RSA certificate the server rejected -/
def compatSigner (s : Signer) (algo : String) : Option Signer :=
  if isRSACert algo && algo != "ssh-rsa-cert-v01@openssh.com" && (asAlgorithms s).contains "ssh-rsa"
  then some { s with kind := .multi ["ssh-rsa"] } else none

/-- how the loop over signers ends -/
inductive PkRes where
  | ret (out : AuthOut)                                   -- a `return` inside the loop
  /-- the list is exhausted; `sigErr` = some signer had no negotiable algorithm (errSigAlgo ≠ nil) -/
  | exhausted (methods : Option (List String)) (script : List Srv) (evs : List Ev) (compat : List Signer) (sigErr : Bool)
deriving Repr, Inhabited

/-- the loop over signers.  `orig` = still inside the original list (compat signers are
    collected); `methods` = list from the last failed signature attempt; `sigErr` = errSigAlgo set. -/
def pkLoop (user : String) (sigAlgs : Option String) :
    List Signer → Bool → List Signer → Option (List String) → Bool → List Srv → List Ev → PkRes
  | [], _, compat, methods, sigErr, script, evs => .exhausted methods script evs compat sigErr
  | s :: more, orig, compat, methods, sigErr, script, evs =>
    match pickSignatureAlgorithm s sigAlgs with
    | none => pkLoop user sigAlgs more orig compat methods true script evs   -- skipped, error remembered
    | some algo =>
      match confirmKeyAck algo s script (evs ++ [Ev.wQuery user algo s.key]) with
      | (.inl e, evs, rest) => .ret (failWith e evs rest)
      | (.inr false, evs, rest) =>
        pkLoop user sigAlgs more orig (if orig then compat ++ (compatSigner s algo).toList else compat) methods sigErr rest evs
      | (.inr true, evs, rest) =>
        let r := handleAuthResponse rest false (evs ++ [Ev.wSign user algo s.key (underlyingAlgo algo)])
        if r.err.isSome then .ret (failWith (r.err.getD .other) r.evs r.rest)
        else if r.res != .failure || !(r.methods.getD []).contains "publickey" then .ret r
        else pkLoop user sigAlgs more orig compat r.methods sigErr r.rest r.evs

/-- `publicKeyCallback.auth`: the original signers, then the collected compat signers; at the end
    `return authFailure, methods, errSigAlgo` -/
def pkAuth (user : String) (sigAlgs : Option String) (signers : List Signer) (script : List Srv) : AuthOut :=
  match pkLoop user sigAlgs signers true [] none false script [] with
  | .ret out => out
  | .exhausted methods script evs compat sigErr =>
    match pkLoop user sigAlgs compat false [] methods sigErr script evs with
    | .ret out => out
    | .exhausted methods script evs _ sigErr => ⟨.failure, methods, if sigErr then some .other else none, evs, script⟩

/-! ## keyboard-interactive -/

def kbdLoop (p : KbdPolicy) : List Srv → Bool → Bool → List Ev → AuthOut
  | [], _, _, evs => failWith .other evs []
  | pkt :: rest, gotExt, gotReq, evs =>
    let evs := evs ++ [Ev.rd pkt]
    match pkt with
    | .disconnect => failWith .disconnect evs rest
    | .readErr => failWith .other evs rest
    | .banner => kbdLoop p rest gotExt gotReq evs
    | .extInfo _ => if gotExt then failWith .other evs rest else kbdLoop p rest true gotReq evs
    | .malformed 7 => if gotExt then failWith .other evs rest else kbdLoop p rest true gotReq evs
    | .infoReq n =>
      match p with
      | .answerAll => kbdLoop p rest gotExt true (evs ++ [Ev.wInfoResp n])
      | _ => failWith .other evs rest
    | .pkOk _ => failWith .other evs rest      -- a PK_OK body does not parse as an INFO_REQUEST
    | .failure ms partialOk =>
      if partialOk then ⟨.partialOk, some ms, none, evs, rest⟩
      else if !gotReq then ⟨.failure, some ms, some .other, evs, rest⟩
      else ⟨.failure, some ms, none, evs, rest⟩
    | .success => ⟨.success, none, none, evs, rest⟩
    | _ => failWith .other evs rest

/-! ## one auth method -/

def nthOrLast (lists : List (List Signer)) (k : Nat) : List Signer :=
  match lists[k]? with
  | some l => l
  | none => lists.getLast?.getD []

/-- one `auth` call of a base method; `pk` = number of PublicKeysCallback invocations so far -/
def runBase (cfg : Cfg) (sigAlgs : Option String) (b : Base) (script : List Srv) (pk : Nat) : AuthOut × Nat :=
  match b with
  | .password pw => (handleAuthResponse script false [Ev.wPassword cfg.user pw], pk)
  | .publickey signers => (pkAuth cfg.user sigAlgs signers script, pk)
  | .publickeyCb lists => (pkAuth cfg.user sigAlgs (nthOrLast lists pk) script, pk + 1)
  | .kbd p => (kbdLoop p script false false [Ev.wKbd cfg.user], pk)
  | .failing _ => (⟨.failure, none, some .other, [], script⟩, pk)

/-- `retryableAuthMethod.auth`: call the base method until it does not plainly fail, `fuel` times at
    most; returns the last result with the concatenated trace, the callback counter and the number
    of calls made -/
def retryIter (cfg : Cfg) (sigAlgs : Option String) (b : Base) :
    Nat → List Srv → Nat → List Ev → Nat → AuthOut × Nat × Nat
  | 0, script, pk, evs, calls => (⟨.failure, none, none, evs, script⟩, pk, calls)
  | k + 1, script, pk, evs, calls =>
    let r := runBase cfg sigAlgs b script pk
    let out : AuthOut := { r.1 with evs := evs ++ r.1.evs }
    if r.1.res != .failure || r.1.err.isSome || k == 0 then (out, r.2, calls + 1)
    else retryIter cfg sigAlgs b k r.1.rest r.2 out.evs (calls + 1)

/-- how many rounds RetryableAuthMethod may make: maxTries if positive; if not, as long as the
    server keeps answering (every round reads at least one packet) -/
def retryFuel (n : Int) (script : List Srv) : Nat := if n > 0 then n.toNat else script.length + 1

/-- one `auth` call of a configured method: (result, PublicKeysCallback counter, base calls made) -/
def runMethod (cfg : Cfg) (sigAlgs : Option String) (m : Method) (script : List Srv) (pk : Nat) : AuthOut × Nat × Nat :=
  match m.retry with
  | none => ((runBase cfg sigAlgs m.base script pk).1, (runBase cfg sigAlgs m.base script pk).2, 1)
  | some n => retryIter cfg sigAlgs m.base (retryFuel n script) script pk [] 0

/-! ## clientAuthenticate -/

inductive Result where
  | ok | err
deriving DecidableEq, Repr, Inhabited

structure LoopSt where
  tried : List String := []
  partialOk : List String := []
  lastMethods : List String := []
  pkCalls : Nat := 0     -- PublicKeysCallback invocations so far
  cbCalls : Nat := 0     -- AuthCallback invocations so far
deriving Repr, Inhabited

/-- the `findNext` scan: first configured method not yet tried (failed) that the server lists -/
def selectNext (cfg : Cfg) (tried methods : List String) : Option Method :=
  cfg.auth.find? (fun a => !tried.contains a.name && methods.contains a.name)

/-- the result the loop acts on: any error turns the call into a failure -/
def effRes (r : AuthOut) : AuthRes := if r.err.isSome then .failure else r.res

/-- `partialSuccess = append(…)` / `tried = append(…)` -/
def record (st : LoopSt) (name : String) (res : AuthRes) : LoopSt :=
  if res == .partialOk then { st with partialOk := st.partialOk ++ [name] }
  else { st with tried := st.tried ++ [name] }

/-- what the AuthCallback is shown: AllowedMethods, PartialSuccessMethods, TriedMethods -/
abbrev CbCtx := List String × List String × List String

/-- how the loop goes on: `inl` = it ends with this result; and the context handed to AuthCallback
    if it was invoked -/
structure After where
  next : Sum Result (LoopSt × Method)
  cbCtx : Option CbCtx := none
deriving Repr

def pickNext (cfg : Cfg) (st : LoopSt) (methods : List String) : Sum Result (LoopSt × Method) :=
  match selectNext cfg st.tried methods with
  | some a => .inr (st, a)
  | none => .inl .err

/-- bookkeeping after one `auth` call -/
def afterAuth (cfg : Cfg) (st : LoopSt) (name : String) (r : AuthOut) : After :=
  if r.err == some .disconnect then ⟨.inl .err, none⟩ else
  if effRes r == .success then ⟨.inl .ok, none⟩ else
  let st1 := record st name (effRes r)
  if st1.partialOk.length + st1.tried.length > 64 then ⟨.inl .err, none⟩ else
  let methods := r.methods.getD st.lastMethods
  let st2 := { st1 with lastMethods := methods }
  match cfg.authCb with
  | none => ⟨pickNext cfg st2 methods, none⟩
  | some ds =>
    let st3 := { st2 with cbCalls := st2.cbCalls + 1 }
    match ds[st.cbCalls]?.getD .next with
    | .fail => ⟨.inl .err, some (methods, st1.partialOk, st1.tried)⟩
    | .use m => ⟨.inr (st3, m), some (methods, st1.partialOk, st1.tried)⟩
    | .next => ⟨pickNext cfg st3 methods, some (methods, st1.partialOk, st1.tried)⟩

/-- one `auth` call of the main loop: which method, the server's method list in force and the
    methods already failed when it was chosen, what the call did, how many base calls it made
    (more than one only under RetryableAuthMethod), and what AuthCallback was shown afterwards -/
structure Seg where
  method : String
  allowed : List String
  tried : List String
  out : AuthOut
  calls : Nat := 1
  cbCtx : Option CbCtx := none
deriving Repr, Inhabited

/-- the loop starts with the "none" method, then uses configured methods -/
def nameOf : Option Method → String
  | none => "none"
  | some a => a.name

def callAuth (cfg : Cfg) (sigAlgs : Option String) (m : Option Method) (script : List Srv) (pk : Nat) : AuthOut × Nat × Nat :=
  match m with
  | none => (handleAuthResponse script false [Ev.wNone cfg.user], pk, 1)
  | some a => runMethod cfg sigAlgs a script pk

/-- the main loop, `fuel` iterations at most (66 suffice: see `fuel_irrelevant`) -/
def mainLoop (cfg : Cfg) (sigAlgs : Option String) : Nat → LoopSt → Option Method → List Srv → List Seg → List Seg × Result
  | 0, _, _, _, segs => (segs, .err)
  | fuel + 1, st, m, script, segs =>
    let c := callAuth cfg sigAlgs m script st.pkCalls
    let a := afterAuth cfg { st with pkCalls := c.2.1 } (nameOf m) c.1
    let seg : Seg := ⟨nameOf m, st.lastMethods, st.tried, c.1, c.2.2, a.cbCtx⟩
    match a.next with
    | .inl res => (segs ++ [seg], res)
    | .inr (st', nx) => mainLoop cfg sigAlgs fuel st' (some nx) c.1.rest (segs ++ [seg])

structure RunOut where
  pre : List Ev          -- service request and what was read before the loop started
  segs : List Seg
  res : Result
deriving Repr, Inhabited

/-- `clientAuthenticate`: service request, optional EXT_INFO, SERVICE_ACCEPT, then the loop -/
def run (cfg : Cfg) (script : List Srv) : RunOut :=
  match script with
  | [] => ⟨[Ev.wServiceRequest], [], .err⟩
  | p :: rest =>
    let evs := [Ev.wServiceRequest, Ev.rd p]
    match p with
    | .extInfo sa =>
      match rest with
      | [] => ⟨evs, [], .err⟩
      | q :: rest2 =>
        if q == .serviceAccept then
          let (segs, res) := mainLoop cfg sa 66 {} none rest2 []
          ⟨evs ++ [Ev.rd q], segs, res⟩
        else ⟨evs ++ [Ev.rd q], [], .err⟩
    | .serviceAccept =>
      let (segs, res) := mainLoop cfg none 66 {} none rest []
      ⟨evs, segs, res⟩
    | _ => ⟨evs, [], .err⟩

def RunOut.events (r : RunOut) : List Ev := r.pre ++ (r.segs.map (·.out.evs)).flatten

/-! ## real client against the real Go server: which combinations must authenticate

  The server demands a chain of methods (each stage but the last answers the right credential with
  a partial success naming the next stage) and advertises `serverAlgs` as server-sig-algs.  A
  combination is *compatible* when, for every stage, the first client method of that name carries the
  right credential — for publickey: some signer holds the authorized key and the algorithm
  `pickSignatureAlgorithm` chooses for it is one the server accepts. -/

inductive Cred where
  | password (pw : String)
  | kbd (answer : String)
  | publickey (signers : List Signer)
  | publickeyCb (lists : List (List Signer))
  | gss (cred : String)
deriving Repr, Inhabited

def Cred.name : Cred → String
  | .gss _ => "gssapi-with-mic"
  | .password _ => "password"
  | .kbd _ => "keyboard-interactive"
  | .publickey _ => "publickey"
  | .publickeyCb _ => "publickey"

def signerWorks (serverAlgs : List String) (authKey : Nat) (s : Signer) : Bool :=
  s.key == authKey &&
    match pickSignatureAlgorithm s (some (",".intercalate serverAlgs)) with
    | some a => serverAlgs.contains (underlyingAlgo a)
    | none => false

/-- does the first client method named `m` pass a stage; `pk` = publickey stages passed before
    (= earlier PublicKeysCallback invocations) -/
def stageOk (serverAlgs : List String) (authKey : Nat) (cli : List Cred) (m : String) (pk : Nat) : Bool :=
  match cli.find? (fun c => c.name == m) with
  | some (.password pw) => pw == "good"
  | some (.kbd a) => a == "good"
  | some (.gss a) => a == "good"
  | some (.publickey signers) => signers.any (signerWorks serverAlgs authKey)
  | some (.publickeyCb lists) => (nthOrLast lists pk).any (signerWorks serverAlgs authKey)
  | none => false

def chainOk (serverAlgs : List String) (authKey : Nat) (cli : List Cred) : List String → Nat → Bool
  | [], _ => true
  | m :: rest, pk =>
    stageOk serverAlgs authKey cli m pk && chainOk serverAlgs authKey cli rest (if m == "publickey" then pk + 1 else pk)

def compatible (chain : List String) (cli : List Cred) (authKey : Nat) (serverAlgs : List String) : Bool :=
  !chain.isEmpty && chainOk serverAlgs authKey cli chain 0

end XC.C34
