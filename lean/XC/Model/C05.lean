/-
  C05 — BLAKE2b / BLAKE2s (blake2b/blake2b.go, blake2b_generic.go, blake2s/blake2s.go, blake2s_generic.go).

  Two layers.
  * word layer, generic in the word type (`Variant α`, instances UInt64 = BLAKE2b, UInt32 = BLAKE2s):
    RFC 7693 §3.1 mixing function `G`, §3.2 compression function `F` with the σ schedule of §2.7,
    and beside it the *Go-shaped* round of `hashBlocksGeneric` (permuted `precomputed` table,
    half-G steps interleaved over the four columns / diagonals).
  * digest layer, generic in an `Alg` (block size, chaining value, two-word counter, compress):
    the Go `digest` struct with its lazy `Write` (a full block stays buffered until more data or
    Sum arrives), `finalize` (counter borrow), `Sum`, `Reset`, `newDigest`, one-shot `checkSum`,
    `MarshalBinary` / `UnmarshalBinary`; and the independent spec `blake2Spec` = RFC 7693 §3.3.
-/
import XC.Basic
namespace XC.C05

/-! ## word layer -/

/-- what BLAKE2b and BLAKE2s differ in (RFC 7693 §2.1): word size, rounds, rotation constants, IV -/
class Variant (α : Type) extends Add α, XorOp α where
  zero : α
  ones : α
  wbytes : Nat
  rounds : Nat
  r1 : Nat
  r2 : Nat
  r3 : Nat
  r4 : Nat
  rotr : α → Nat → α
  ofLE : Bytes → α
  toLE : α → Bytes
  ofBE : Bytes → α
  toBE : α → Bytes
  ofNat : Nat → α
  iv0 : α
  iv1 : α
  iv2 : α
  iv3 : α
  iv4 : α
  iv5 : α
  iv6 : α
  iv7 : α

def leU64 : Nat → Bytes → UInt64
  | 0, _ => 0
  | _+1, [] => 0
  | n+1, b :: r => b.toUInt64 ||| (leU64 n r <<< 8)

def leU32 : Nat → Bytes → UInt32
  | 0, _ => 0
  | _+1, [] => 0
  | n+1, b :: r => b.toUInt32 ||| (leU32 n r <<< 8)

def u64toLE (n : Nat) (w : UInt64) : Bytes :=
  match n with
  | 0 => []
  | n+1 => w.toUInt8 :: u64toLE n (w >>> 8)

def u32toLE (n : Nat) (w : UInt32) : Bytes :=
  match n with
  | 0 => []
  | n+1 => w.toUInt8 :: u32toLE n (w >>> 8)

instance : Variant UInt64 where
  zero := 0
  ones := 0xFFFFFFFFFFFFFFFF
  wbytes := 8
  rounds := 12
  r1 := 32
  r2 := 24
  r3 := 16
  r4 := 63
  rotr x n := (x >>> n.toUInt64) ||| (x <<< (64 - n).toUInt64)
  ofLE := leU64 8
  toLE := u64toLE 8
  ofBE b := UInt64.ofNat (natOfBE (b.take 8))
  toBE w := natToBE 8 w.toNat
  ofNat := UInt64.ofNat
  iv0 := 0x6a09e667f3bcc908
  iv1 := 0xbb67ae8584caa73b
  iv2 := 0x3c6ef372fe94f82b
  iv3 := 0xa54ff53a5f1d36f1
  iv4 := 0x510e527fade682d1
  iv5 := 0x9b05688c2b3e6c1f
  iv6 := 0x1f83d9abfb41bd6b
  iv7 := 0x5be0cd19137e2179

instance : Variant UInt32 where
  zero := 0
  ones := 0xFFFFFFFF
  wbytes := 4
  rounds := 10
  r1 := 16
  r2 := 12
  r3 := 8
  r4 := 7
  rotr x n := (x >>> n.toUInt32) ||| (x <<< (32 - n).toUInt32)
  ofLE := leU32 4
  toLE := u32toLE 4
  ofBE b := UInt32.ofNat (natOfBE (b.take 4))
  toBE w := natToBE 4 w.toNat
  ofNat := UInt32.ofNat
  iv0 := 0x6a09e667
  iv1 := 0xbb67ae85
  iv2 := 0x3c6ef372
  iv3 := 0xa54ff53a
  iv4 := 0x510e527f
  iv5 := 0x9b05688c
  iv6 := 0x1f83d9ab
  iv7 := 0x5be0cd19

open Variant

/-- chaining value `h[0..7]` -/
structure H8 (α : Type) where
  a0 : α
  a1 : α
  a2 : α
  a3 : α
  a4 : α
  a5 : α
  a6 : α
  a7 : α
deriving DecidableEq, Repr

def H8.toList (h : H8 α) : List α := [h.a0, h.a1, h.a2, h.a3, h.a4, h.a5, h.a6, h.a7]

/-- read eight words with `f` from consecutive `n`-byte fields -/
def H8.read (f : Bytes → α) (n : Nat) (b : Bytes) : H8 α :=
  ⟨f b, f (b.drop n), f (b.drop (2*n)), f (b.drop (3*n)), f (b.drop (4*n)), f (b.drop (5*n)),
   f (b.drop (6*n)), f (b.drop (7*n))⟩

def H8.xor [XorOp α] (x y : H8 α) : H8 α :=
  ⟨x.a0 ^^^ y.a0, x.a1 ^^^ y.a1, x.a2 ^^^ y.a2, x.a3 ^^^ y.a3, x.a4 ^^^ y.a4, x.a5 ^^^ y.a5,
   x.a6 ^^^ y.a6, x.a7 ^^^ y.a7⟩

def ivH (α : Type) [Variant α] : H8 α := ⟨iv0, iv1, iv2, iv3, iv4, iv5, iv6, iv7⟩

/-- local work vector `v[0..15]` -/
structure V16 (α : Type) where
  v0 : α
  v1 : α
  v2 : α
  v3 : α
  v4 : α
  v5 : α
  v6 : α
  v7 : α
  v8 : α
  v9 : α
  v10 : α
  v11 : α
  v12 : α
  v13 : α
  v14 : α
  v15 : α
deriving DecidableEq, Repr

/-- RFC 7693 §2.7: SIGMA[0..9] -/
def sigmaTab : List (List Nat) := [
  [0, 1, 2, 3, 4, 5, 6, 7, 8, 9, 10, 11, 12, 13, 14, 15],
  [14, 10, 4, 8, 9, 15, 13, 6, 1, 12, 0, 2, 11, 7, 5, 3],
  [11, 8, 12, 0, 5, 2, 15, 13, 10, 14, 3, 6, 7, 1, 9, 4],
  [7, 9, 3, 1, 13, 12, 11, 14, 2, 6, 5, 10, 4, 0, 15, 8],
  [9, 0, 5, 7, 2, 4, 10, 15, 14, 1, 11, 12, 6, 8, 3, 13],
  [2, 12, 6, 10, 0, 11, 8, 3, 4, 13, 7, 5, 15, 14, 1, 9],
  [12, 5, 1, 15, 14, 13, 4, 10, 0, 7, 6, 3, 9, 2, 8, 11],
  [13, 11, 7, 14, 12, 1, 3, 9, 5, 0, 15, 4, 8, 6, 2, 10],
  [6, 15, 14, 9, 11, 3, 0, 8, 12, 2, 13, 7, 1, 4, 10, 5],
  [10, 2, 8, 4, 7, 6, 1, 5, 15, 11, 9, 14, 3, 12, 13, 0]]

/-- `SIGMA[r mod 10][i]` -/
def sigma (r i : Nat) : Nat := ((sigmaTab.getD (r % 10) []).getD i 0)

/-- the 16 message words of a block (little-endian) -/
def msgWords (α : Type) [Variant α] (blk : Bytes) : Array α :=
  let n := wbytes α
  #[ofLE blk, ofLE (blk.drop n), ofLE (blk.drop (2*n)), ofLE (blk.drop (3*n)),
    ofLE (blk.drop (4*n)), ofLE (blk.drop (5*n)), ofLE (blk.drop (6*n)), ofLE (blk.drop (7*n)),
    ofLE (blk.drop (8*n)), ofLE (blk.drop (9*n)), ofLE (blk.drop (10*n)), ofLE (blk.drop (11*n)),
    ofLE (blk.drop (12*n)), ofLE (blk.drop (13*n)), ofLE (blk.drop (14*n)), ofLE (blk.drop (15*n))]

/-- RFC 7693 §3.1 mixing function G on the four selected words -/
@[inline] def G [Variant α] (a b c d x y : α) : α × α × α × α :=
  let a := a + b + x
  let d := rotr (d ^^^ a) (r1 α)
  let c := c + d
  let b := rotr (b ^^^ c) (r2 α)
  let a := a + b + y
  let d := rotr (d ^^^ a) (r3 α)
  let c := c + d
  let b := rotr (b ^^^ c) (r4 α)
  (a, b, c, d)

/-- one round of F (RFC 7693 §3.2): four column steps then four diagonal steps, message words
    selected by `s i` (= SIGMA[round mod 10][i]) -/
@[specialize] def roundRFC [Variant α] (m : Array α) (s : Nat → Nat) (v : V16 α) : V16 α :=
  let mw := fun i => m.getD (s i) zero
  let (v0, v4, v8, v12) := G v.v0 v.v4 v.v8 v.v12 (mw 0) (mw 1)
  let (v1, v5, v9, v13) := G v.v1 v.v5 v.v9 v.v13 (mw 2) (mw 3)
  let (v2, v6, v10, v14) := G v.v2 v.v6 v.v10 v.v14 (mw 4) (mw 5)
  let (v3, v7, v11, v15) := G v.v3 v.v7 v.v11 v.v15 (mw 6) (mw 7)
  let (v0, v5, v10, v15) := G v0 v5 v10 v15 (mw 8) (mw 9)
  let (v1, v6, v11, v12) := G v1 v6 v11 v12 (mw 10) (mw 11)
  let (v2, v7, v8, v13) := G v2 v7 v8 v13 (mw 12) (mw 13)
  let (v3, v4, v9, v14) := G v3 v4 v9 v14 (mw 14) (mw 15)
  ⟨v0, v1, v2, v3, v4, v5, v6, v7, v8, v9, v10, v11, v12, v13, v14, v15⟩

@[specialize] def roundsRFC [Variant α] (m : Array α) : Nat → Nat → V16 α → V16 α
  | 0, _, v => v
  | n+1, r, v => roundsRFC m n (r+1) (roundRFC m (sigma r) v)

/-- RFC 7693 §3.2 compression function F(h, m, t, f); `t = (t0, t1)`, `last` = final block flag -/
@[specialize] def F [Variant α] (h : H8 α) (blk : Bytes) (t0 t1 : α) (last : Bool) : H8 α :=
  let m := msgWords α blk
  let v : V16 α := ⟨h.a0, h.a1, h.a2, h.a3, h.a4, h.a5, h.a6, h.a7,
    iv0, iv1, iv2, iv3, iv4 ^^^ t0, iv5 ^^^ t1, (if last then iv6 ^^^ ones else iv6), iv7⟩
  let v := roundsRFC m (rounds α) 0 v
  ⟨h.a0 ^^^ v.v0 ^^^ v.v8, h.a1 ^^^ v.v1 ^^^ v.v9, h.a2 ^^^ v.v2 ^^^ v.v10, h.a3 ^^^ v.v3 ^^^ v.v11,
   h.a4 ^^^ v.v4 ^^^ v.v12, h.a5 ^^^ v.v5 ^^^ v.v13, h.a6 ^^^ v.v6 ^^^ v.v14, h.a7 ^^^ v.v7 ^^^ v.v15⟩

/-! ### the Go-shaped round (`hashBlocksGeneric`) -/

/-- `precomputed` of blake2b_generic.go / blake2s_generic.go (rows 10, 11 of blake2b repeat rows 0, 1) -/
def precomputedTab : List (List Nat) := [
  [0, 2, 4, 6, 1, 3, 5, 7, 8, 10, 12, 14, 9, 11, 13, 15],
  [14, 4, 9, 13, 10, 8, 15, 6, 1, 0, 11, 5, 12, 2, 7, 3],
  [11, 12, 5, 15, 8, 0, 2, 13, 10, 3, 7, 9, 14, 6, 1, 4],
  [7, 3, 13, 11, 9, 1, 12, 14, 2, 5, 4, 15, 6, 10, 0, 8],
  [9, 5, 2, 10, 0, 7, 4, 15, 14, 11, 6, 3, 1, 12, 8, 13],
  [2, 6, 0, 8, 12, 10, 11, 3, 4, 7, 15, 1, 13, 5, 14, 9],
  [12, 1, 14, 4, 5, 15, 13, 10, 0, 6, 9, 8, 7, 3, 2, 11],
  [13, 7, 12, 3, 11, 14, 1, 9, 5, 15, 8, 2, 0, 4, 6, 10],
  [6, 14, 11, 0, 15, 9, 3, 8, 12, 13, 1, 10, 2, 7, 4, 5],
  [10, 8, 7, 1, 2, 4, 6, 5, 15, 9, 3, 13, 11, 14, 12, 0],
  [0, 2, 4, 6, 1, 3, 5, 7, 8, 10, 12, 14, 9, 11, 13, 15],
  [14, 4, 9, 13, 10, 8, 15, 6, 1, 0, 11, 5, 12, 2, 7, 3]]

def precomputed (r i : Nat) : Nat := ((precomputedTab.getD r []).getD i 0)

/-- first half of G as written in Go: `a += x; a += b; d ^= a; d = rotr d ra; c += d; b ^= c; b = rotr b rb` -/
@[inline] def halfGo [Variant α] (ra rb : Nat) (a b c d x : α) : α × α × α × α :=
  let a := a + x
  let a := a + b
  let d := d ^^^ a
  let d := rotr d ra
  let c := c + d
  let b := b ^^^ c
  let b := rotr b rb
  (a, b, c, d)

/-- body of `for j := range precomputed` in hashBlocksGeneric, statement order preserved -/
@[specialize] def roundGo [Variant α] (m : Array α) (s : Nat → Nat) (v : V16 α) : V16 α :=
  let mw := fun i => m.getD (s i) zero
  let (v0, v4, v8, v12) := halfGo (r1 α) (r2 α) v.v0 v.v4 v.v8 v.v12 (mw 0)
  let (v1, v5, v9, v13) := halfGo (r1 α) (r2 α) v.v1 v.v5 v.v9 v.v13 (mw 1)
  let (v2, v6, v10, v14) := halfGo (r1 α) (r2 α) v.v2 v.v6 v.v10 v.v14 (mw 2)
  let (v3, v7, v11, v15) := halfGo (r1 α) (r2 α) v.v3 v.v7 v.v11 v.v15 (mw 3)
  let (v0, v4, v8, v12) := halfGo (r3 α) (r4 α) v0 v4 v8 v12 (mw 4)
  let (v1, v5, v9, v13) := halfGo (r3 α) (r4 α) v1 v5 v9 v13 (mw 5)
  let (v2, v6, v10, v14) := halfGo (r3 α) (r4 α) v2 v6 v10 v14 (mw 6)
  let (v3, v7, v11, v15) := halfGo (r3 α) (r4 α) v3 v7 v11 v15 (mw 7)
  let (v0, v5, v10, v15) := halfGo (r1 α) (r2 α) v0 v5 v10 v15 (mw 8)
  let (v1, v6, v11, v12) := halfGo (r1 α) (r2 α) v1 v6 v11 v12 (mw 9)
  let (v2, v7, v8, v13) := halfGo (r1 α) (r2 α) v2 v7 v8 v13 (mw 10)
  let (v3, v4, v9, v14) := halfGo (r1 α) (r2 α) v3 v4 v9 v14 (mw 11)
  let (v0, v5, v10, v15) := halfGo (r3 α) (r4 α) v0 v5 v10 v15 (mw 12)
  let (v1, v6, v11, v12) := halfGo (r3 α) (r4 α) v1 v6 v11 v12 (mw 13)
  let (v2, v7, v8, v13) := halfGo (r3 α) (r4 α) v2 v7 v8 v13 (mw 14)
  let (v3, v4, v9, v14) := halfGo (r3 α) (r4 α) v3 v4 v9 v14 (mw 15)
  ⟨v0, v1, v2, v3, v4, v5, v6, v7, v8, v9, v10, v11, v12, v13, v14, v15⟩

@[specialize] def roundsGo [Variant α] (m : Array α) : Nat → Nat → V16 α → V16 α
  | 0, _, v => v
  | n+1, r, v => roundsGo m n (r+1) (roundGo m (precomputed r) v)

/-- one iteration of the block loop of hashBlocksGeneric, counter `(c0, c1)` already advanced -/
@[specialize] def compressGo [Variant α] (h : H8 α) (blk : Bytes) (c0 c1 flag : α) : H8 α :=
  let m := msgWords α blk
  let v : V16 α := ⟨h.a0, h.a1, h.a2, h.a3, h.a4, h.a5, h.a6, h.a7,
    iv0, iv1, iv2, iv3, iv4 ^^^ c0, iv5 ^^^ c1, iv6 ^^^ flag, iv7⟩
  let v := roundsGo m (rounds α) 0 v
  ⟨h.a0 ^^^ (v.v0 ^^^ v.v8), h.a1 ^^^ (v.v1 ^^^ v.v9), h.a2 ^^^ (v.v2 ^^^ v.v10), h.a3 ^^^ (v.v3 ^^^ v.v11),
   h.a4 ^^^ (v.v4 ^^^ v.v12), h.a5 ^^^ (v.v5 ^^^ v.v13), h.a6 ^^^ (v.v6 ^^^ v.v14), h.a7 ^^^ (v.v7 ^^^ v.v15)⟩

/-! ## digest layer -/

/-- what the buffering layer needs to know about one BLAKE2 flavour -/
structure Alg where
  H : Type
  C : Type
  /-- BlockSize -/
  bs : Nat
  /-- Size (largest digest, also largest key) -/
  maxSize : Nat
  /-- compress one `bs`-byte block; the counter passed is the value *after* it was advanced -/
  comp : H → C → Bool → Bytes → H
  /-- Go: `c0 += BlockSize; if c0 < BlockSize { c1++ }` -/
  cinc : C → C
  /-- Go: `if c[0] < remaining { c[1]-- }; c[0] -= remaining` -/
  cdec : C → Nat → C
  /-- RFC: the 2w-bit offset counter `t` as two words (t mod 2^w, ⌊t / 2^w⌋ mod 2^w) -/
  cof : Nat → C
  /-- `iv` with `h[0] ^= size | keyLen<<8 | 1<<16 | 1<<24` -/
  init : Nat → Nat → H
  /-- all eight words, little-endian -/
  out : H → Bytes
  /-- big-endian state encoding used by MarshalBinary -/
  encH : H → Bytes
  decH : Bytes → H
  encC : C → Bytes
  decC : Bytes → C
  hLen : Nat
  cLen : Nat
  magic : Bytes

def outH [Variant α] (h : H8 α) : Bytes :=
  toLE h.a0 ++ toLE h.a1 ++ toLE h.a2 ++ toLE h.a3 ++ toLE h.a4 ++ toLE h.a5 ++ toLE h.a6 ++ toLE h.a7

def encH8 [Variant α] (h : H8 α) : Bytes :=
  toBE h.a0 ++ toBE h.a1 ++ toBE h.a2 ++ toBE h.a3 ++ toBE h.a4 ++ toBE h.a5 ++ toBE h.a6 ++ toBE h.a7

def initH (α : Type) [Variant α] (size keyLen : Nat) : H8 α :=
  { ivH α with a0 := iv0 ^^^ (ofNat (size + keyLen * 256 + 65536 + 16777216) : α) }

/-- BLAKE2b: 64-bit words, 128-byte blocks.  `comp` is the Go-shaped block step of hashBlocksGeneric
    (`compressGo_eq_F` in Proofs/C05 shows it is the RFC compression function F). -/
def B : Alg where
  H := H8 UInt64
  C := UInt64 × UInt64
  bs := 128
  maxSize := 64
  comp h c last blk := compressGo h blk c.1 c.2 (if last then ones else zero)
  cinc c := let c0 := c.1 + 128; (c0, if c0 < 128 then c.2 + 1 else c.2)
  cdec c r := let r := UInt64.ofNat r; (c.1 - r, if c.1 < r then c.2 - 1 else c.2)
  cof t := (UInt64.ofNat t, UInt64.ofNat (t / 2^64))
  init := initH UInt64
  out := outH
  encH := encH8
  decH := H8.read (ofBE : Bytes → UInt64) 8
  encC c := toBE c.1 ++ toBE c.2
  decC b := (ofBE b, ofBE (b.drop 8))
  hLen := 64
  cLen := 16
  magic := [0x62, 0x32, 0x62]

/-- BLAKE2s: 32-bit words, 64-byte blocks -/
def S : Alg where
  H := H8 UInt32
  C := UInt32 × UInt32
  bs := 64
  maxSize := 32
  comp h c last blk := compressGo h blk c.1 c.2 (if last then ones else zero)
  cinc c := let c0 := c.1 + 64; (c0, if c0 < 64 then c.2 + 1 else c.2)
  cdec c r := let r := UInt32.ofNat r; (c.1 - r, if c.1 < r then c.2 - 1 else c.2)
  cof t := (UInt32.ofNat t, UInt32.ofNat (t / 2^32))
  init := initH UInt32
  out := outH
  encH := encH8
  decH := H8.read (ofBE : Bytes → UInt32) 4
  encC c := toBE c.1 ++ toBE c.2
  decC b := (ofBE b, ofBE (b.drop 4))
  hLen := 32
  cLen := 8
  magic := [0x62, 0x32, 0x73]

/-- the Go `digest` struct.  `block` and `key` are fixed arrays of `bs` bytes (stale bytes beyond
    `offset` are kept, MarshalBinary writes them out). -/
structure Digest (A : Alg) where
  h : A.H
  c : A.C
  size : Nat
  block : Bytes
  offset : Nat
  key : Bytes
  keyLen : Nat

variable {A : Alg}

/-- Go `copy(dst[off:], p)` on a fixed array `dst` (requires `off ≤ dst.length`, checked by callers) -/
def copyAt (dst : Bytes) (off : Nat) (p : Bytes) : Bytes :=
  let n := min p.length (dst.length - off)
  dst.take off ++ p.take n ++ dst.drop (off + n)

/-- `hashBlocks(&h, &c, flag, blocks)`: one compression per `bs` bytes, counter advanced first -/
def hashBlocks (A : Alg) (h : A.H) (c : A.C) (last : Bool) (blocks : Bytes) : A.H × A.C :=
  if _h : A.bs = 0 ∨ blocks.length < A.bs then (h, c)
  else
    let c' := A.cinc c
    hashBlocks A (A.comp h c' last (blocks.take A.bs)) c' last (blocks.drop A.bs)
termination_by blocks.length
decreasing_by simp only [List.length_drop]; omega

/-- the buffered bytes `d.block[:d.offset]` -/
def Digest.buf (d : Digest A) : Bytes := d.block.take d.offset

def Digest.reset (d : Digest A) : Digest A :=
  let d := { d with h := A.init d.size d.keyLen, offset := 0, c := A.cof 0 }
  if d.keyLen > 0 then { d with block := d.key, offset := A.bs } else d

/-- `newDigest(hashSize, key)` of blake2b (blake2s has no size check: its callers pass 32 or 16) -/
def newDigest (A : Alg) (hashSize : Nat) (key : Bytes) : Option (Digest A) :=
  if hashSize < 1 ∨ hashSize > A.maxSize then none
  else if key.length > A.maxSize then none
  else
    let d : Digest A := { h := A.init 0 0, c := A.cof 0, size := hashSize, block := zeros A.bs, offset := 0,
                          key := copyAt (zeros A.bs) 0 key, keyLen := key.length }
    some d.reset

/-- blake2s `New128(key)`: a 128-bit digest is only offered as a MAC — an empty key is an error -/
def new128 (A : Alg) (key : Bytes) : Option (Digest A) :=
  if key.length = 0 then none else newDigest A 16 key

/-- `Size()` and `BlockSize()` of hash.Hash -/
def Digest.sizeOf (d : Digest A) : Nat := d.size
def Digest.blockSizeOf (_d : Digest A) : Nat := A.bs

/-- how many bytes of `p` (with `p.length > bs`) Write / checkSum hash directly: all full blocks except
    that a trailing full block is kept back (`length &^ (BlockSize-1)`, minus one block if equal) -/
def directLen (bs len : Nat) : Nat :=
  let nn := len / bs * bs
  if len = nn then nn - bs else nn

/-- the part of Write after a partial block has been flushed (`d.offset = 0` here): hash all full
    blocks but keep the last one back, then buffer the rest -/
def Digest.writeTail (d : Digest A) (p : Bytes) : Digest A :=
  let dp : Digest A × Bytes :=
    if p.length > A.bs then
      let nn := directLen A.bs p.length
      let hc := hashBlocks A d.h d.c false (p.take nn)
      ({ d with h := hc.1, c := hc.2 }, p.drop nn)
    else (d, p)
  { dp.1 with block := copyAt dp.1.block 0 dp.2, offset := dp.1.offset + dp.2.length }

def Digest.write (d : Digest A) (p : Bytes) : Digest A :=
  if d.offset > 0 then
    let remaining := A.bs - d.offset
    if p.length ≤ remaining then
      { d with block := copyAt d.block d.offset p, offset := d.offset + p.length }
    else
      let blk := copyAt d.block d.offset (p.take remaining)
      let hc := hashBlocks A d.h d.c false blk
      Digest.writeTail { d with block := blk, h := hc.1, c := hc.2, offset := 0 } (p.drop remaining)
  else d.writeTail p

/-- `finalize`: pad the buffer, pre-subtract the padding from the counter, compress with the final flag -/
def Digest.finalize (d : Digest A) : A.H :=
  let block := copyAt (zeros A.bs) 0 (d.block.take d.offset)
  let c := A.cdec d.c (A.bs - d.offset)
  (hashBlocks A d.h c true block).1

def Digest.sum (d : Digest A) : Bytes := (A.out d.finalize).take d.size

/-- one-shot `checkSum` (Sum512/Sum384/Sum256); the callers keep the first `hashSize` bytes -/
def checkSum (A : Alg) (hashSize : Nat) (data : Bytes) : Bytes :=
  let h := A.init hashSize 0
  let c := A.cof 0
  let hcd : (A.H × A.C) × Bytes :=
    if data.length > A.bs then
      let n := directLen A.bs data.length
      (hashBlocks A h c false (data.take n), data.drop n)
    else ((h, c), data)
  let data := hcd.2
  let block := copyAt (zeros A.bs) 0 data
  let c := A.cdec hcd.1.2 (A.bs - data.length)
  ((A.out (hashBlocks A hcd.1.1 c true block).1)).take hashSize

/-! ### RFC 7693 §3.3 -/

/-- `d[0..dd-1]` processed in order: every block but the last with `t` = bytes fed so far and `f = false`,
    the last one zero-padded with `t` = total byte count and `f = true`; an empty input is one zero block. -/
def specLoop (A : Alg) (h : A.H) (t : Nat) (data : Bytes) : A.H :=
  if _h : A.bs = 0 ∨ data.length ≤ A.bs then
    A.comp h (A.cof (t + data.length)) true (data ++ zeros (A.bs - data.length))
  else
    specLoop A (A.comp h (A.cof (t + A.bs)) false (data.take A.bs)) (t + A.bs) (data.drop A.bs)
termination_by data.length
decreasing_by simp only [List.length_drop]; omega

/-- BLAKE2(d, ll, kk, nn): a non-empty key is zero-padded to one block and prepended -/
def blake2Spec (A : Alg) (nn : Nat) (key msg : Bytes) : Bytes :=
  let data := (if key.isEmpty then [] else key ++ zeros (A.bs - key.length)) ++ msg
  (A.out (specLoop A (A.init nn key.length) 0 data)).take nn

/-! ### MarshalBinary / UnmarshalBinary (as repaired: size and offset are range-checked) -/

def marshaledSize (A : Alg) : Nat := A.magic.length + A.hLen + A.cLen + 1 + A.bs + 1

def Digest.marshal (d : Digest A) : Option Bytes :=
  if d.keyLen ≠ 0 then none
  else some (A.magic ++ A.encH d.h ++ A.encC d.c ++ [UInt8.ofNat d.size] ++ d.block ++ [UInt8.ofNat d.offset])

inductive UErr where
  | ident
  | length
  | size
  | offset
deriving DecidableEq, Repr

def Digest.unmarshal (d : Digest A) (b : Bytes) : Except UErr (Digest A) :=
  if b.length < A.magic.length ∨ b.take A.magic.length ≠ A.magic then .error .ident
  else if b.length ≠ marshaledSize A then .error .length
  else
    let size := (b.getD (A.magic.length + A.hLen + A.cLen) 0).toNat
    let offset := (b.getD (marshaledSize A - 1) 0).toNat
    if size < 1 ∨ size > A.maxSize then .error .size
    else if offset > A.bs then .error .offset
    else
      let b := b.drop A.magic.length
      let h := A.decH b
      let b := b.drop A.hLen
      let c := A.decC b
      let b := b.drop (A.cLen + 1)
      .ok { d with h := h, c := c, size := size, block := b.take A.bs, offset := offset }

end XC.C05
