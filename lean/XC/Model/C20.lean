/-
  C20 — OpenPGP string-to-key (openpgp/s2k/s2k.go): decodeCount / encodeCount, Simple / Salted /
  Iterated as written (context loop with zero-byte prefixes, the `written+len > count` truncation
  loop), Parse of the 2/10/11-byte specifier and Serialize.
  Hashes: MD5/SHA-1/SHA-2 from XC.Prim, RIPEMD-160 from the C14 model.
-/
import XC.Basic
import XC.Prim.Hmac
import XC.Model.C14
namespace XC.C20
open XC.Prim

/-! ## count codec -/

/-- `decodeCount`: `(16 + int(c&15)) << (uint32(c>>4) + 6)` -/
def decodeCount (c : UInt8) : Nat := (16 + (c &&& 15).toNat) <<< ((c >>> 4).toNat + 6)

/-- the search loop of `encodeCount`: first `encoded` in `from..255` whose decoded count is ≥ i -/
def encodeSearch (i : Nat) : Nat → Nat → UInt8
  | _, 0 => 255
  | e, fuel + 1 => if decodeCount (UInt8.ofNat e) ≥ i then UInt8.ofNat e else encodeSearch i (e + 1) fuel

/-- `encodeCount`; `none` = panic("count arg i outside the required range") -/
def encodeCount (i : Int) : Option UInt8 :=
  if i < 1024 ∨ i > 65011712 then none else some (encodeSearch i.toNat 0 256)

/-- `(*Config).encodedCount` (`none` config or S2KCount = 0 ⇒ 96; clamp to [1024, 65011712]) -/
def configCount (s2kCount : Option Int) : Option UInt8 :=
  match s2kCount with
  | none => some 96
  | some 0 => some 96
  | some i =>
    let i := if i < 1024 then 1024 else if i > 65011712 then 65011712 else i
    encodeCount i

/-! ## hashes -/

def algRipemd160 : HashAlg := ⟨"ripemd160", 64, 20, XC.C14.ripemd160⟩

/-- `HashIdToHash` -/
def hashOfId (id : UInt8) : Option HashAlg :=
  if id = 1 then some algMd5 else if id = 2 then some algSha1 else if id = 3 then some algRipemd160
  else if id = 8 then some algSha256 else if id = 9 then some algSha384 else if id = 10 then some algSha512
  else if id = 11 then some algSha224 else none

def idOfName : String → Option UInt8
  | "md5" => some 1 | "sha1" => some 2 | "ripemd160" => some 3 | "sha256" => some 8
  | "sha384" => some 9 | "sha512" => some 10 | "sha224" => some 11 | _ => none

/-- `hashToHashIdMapping`: OpenPGP hash id, crypto.Hash value, name — in the order of the Go table
    (`HashIdToHash`, `HashIdToString`, `HashToHashId` return the first match) -/
def idTable : List (UInt8 × Nat × String) :=
  [(1, 2, "MD5"), (2, 3, "SHA1"), (3, 9, "RIPEMD160"), (8, 5, "SHA256"), (9, 6, "SHA384"), (10, 7, "SHA512"),
   (11, 4, "SHA224")]

def hashIdToHash (id : UInt8) : Option Nat := (idTable.find? fun e => e.1 == id).map fun e => e.2.1
def hashIdToString (id : UInt8) : Option String := (idTable.find? fun e => e.1 == id).map fun e => e.2.2
def hashToHashId (h : Nat) : Option UInt8 := (idTable.find? fun e => e.2.1 == h).map fun e => e.1

/-! ## the derivation loops as written -/

/-- the outer loop shared by Salted and Iterated: `for i := 0; done < len(out); i++ { digest = <hash of
    context i>; done += copy(out[done:], digest) }`; `D i` = the digest of context `i`, `acc` = `out[:done]`.
    (A hash that returned no bytes would make the Go loop spin; the model stops.) -/
def ctxLoopF (D : Nat → Bytes) (outLen : Nat) (i : Nat) (acc : Bytes) : Bytes :=
  if acc.length ≥ outLen then acc else
  let digest := D i
  if _h : min (outLen - acc.length) digest.length = 0 then acc else
  ctxLoopF D outLen (i + 1) (acc ++ digest.take (outLen - acc.length))
termination_by outLen - acc.length
decreasing_by simp only [List.length_append, List.length_take]; simp only [digest] at _h; omega

/-- context `i` hashes `i` zero bytes followed by `msg` -/
def ctxLoop (H : Bytes → Bytes) (msg : Bytes) (outLen : Nat) (i : Nat) (acc : Bytes) : Bytes :=
  ctxLoopF (fun i => H (zeros i ++ msg)) outLen i acc

/-- `Salted(out, h, in, salt)` (Simple = Salted with nil salt) -/
def saltedKey (a : HashAlg) (outLen : Nat) (pw salt : Bytes) : Bytes :=
  ctxLoop a.hash (salt ++ pw) outLen 0 []

/-- the inner loop of Iterated: `for written < count { if written+len(combined) > count { write
    combined[:count-written]; written = count } else { write combined; written += len(combined) } }`
    — returns everything written to the hash from this point on.  `combined = []` with `count > 0` never terminates in
    Go (`none`). -/
def iterWritten (combined : Bytes) (count written : Nat) : Option Bytes :=
  if written ≥ count then some [] else
  if _h : combined.length = 0 then none else
  if written + combined.length > count then some (combined.take (count - written))
  else (iterWritten combined count (written + combined.length)).map (combined ++ ·)
termination_by count - written
decreasing_by omega

/-- `Iterated(out, h, in, salt, count)`; `count` is a Go int (the code raises it to `len(combined)`) -/
def iteratedKey (a : HashAlg) (outLen : Nat) (pw salt : Bytes) (count : Int) : Option Bytes :=
  let combined := salt ++ pw
  let cnt := if count < combined.length then combined.length else count.toNat
  (iterWritten combined cnt 0).map fun msg => ctxLoop a.hash msg outLen 0 []

/-! ## streaming form (hash.Hash Reset / Write / Sum as the Go code calls them)

For a hash given as an MD engine (`XC.C14.MD`: RIPEMD-160) the Iterated loops are run exactly as
written — `h.Reset()`, `i` × `h.Write(zero[:])`, then `h.Write(combined)` / `h.Write(combined[:todo])`
per pass, `h.Sum` — without ever materialising the `count`-byte message.  Props/C20 proves it equal to
`iteratedKey` (so the driver may use it for the count bytes that decode to tens of megabytes). -/

/-- the `for written < count` loop on a running digest -/
def iterStream {σ : Type} (alg : XC.C14.MD σ) (combined : Bytes) (count written : Nat)
    (d : XC.C14.Digest σ) : Option (XC.C14.Digest σ) :=
  if written ≥ count then some d else
  if _h : combined.length = 0 then none else
  if written + combined.length > count then some (XC.C14.write alg d (combined.take (count - written)))
  else iterStream alg combined count (written + combined.length) (XC.C14.write alg d combined)
termination_by count - written
decreasing_by omega

/-- digest of context `i`: Reset; i zero bytes; the passes; Sum (`[]` if the loop does not terminate
    or Sum panicked — neither happens, see Props) -/
def streamCtx {σ : Type} (alg : XC.C14.MD σ) (combined : Bytes) (cnt i : Nat) : Option Bytes :=
  (iterStream alg combined cnt 0 (XC.C14.write alg (XC.C14.reset alg) (zeros i))).bind fun d =>
    XC.C14.sum alg d []

def iteratedKeyStream {σ : Type} (alg : XC.C14.MD σ) (outLen : Nat) (pw salt : Bytes) (count : Int) :
    Option Bytes :=
  let combined := salt ++ pw
  let cnt := if count < combined.length then combined.length else count.toNat
  if combined.length = 0 ∧ 0 < cnt then none else
  some (ctxLoopF (fun i => (streamCtx alg combined cnt i).getD []) outLen 0 [])

/-! ## Parse / Serialize -/

inductive Err where
  | eof           -- io.EOF / io.ErrUnexpectedEOF from ReadFull
  | unsupported   -- errors.UnsupportedError
deriving DecidableEq, Repr

inductive Spec where
  | simple (hashId : UInt8)
  | salted (hashId : UInt8) (salt : Bytes)
  | iterated (hashId : UInt8) (salt : Bytes) (c : UInt8)
deriving DecidableEq, Repr

/-- `Parse(r)` on the bytes available from `r`; returns the specifier and the unread rest.
    Order of checks as in the code: 2 bytes, hash id, then the mode-specific part. -/
def parse (bs : Bytes) : Except Err (Spec × Bytes) :=
  match bs with
  | mode :: hid :: rest =>
    match hashOfId hid with
    | none => .error .unsupported
    | some _ =>
      if mode = 0 then .ok (.simple hid, rest)
      else if mode = 1 then
        if rest.length < 8 then .error .eof else .ok (.salted hid (rest.take 8), rest.drop 8)
      else if mode = 3 then
        if rest.length < 9 then .error .eof
        else .ok (.iterated hid (rest.take 8) (rest.getD 8 0), rest.drop 9)
      else .error .unsupported
  | _ => .error .eof

/-- the function returned by Parse, applied to a passphrase for `outLen` bytes of key -/
def Spec.derive (s : Spec) (pw : Bytes) (outLen : Nat) : Option Bytes :=
  match s with
  | .simple hid => (hashOfId hid).map fun a => saltedKey a outLen pw []
  | .salted hid salt => (hashOfId hid).map fun a => saltedKey a outLen pw salt
  | .iterated hid salt c => (hashOfId hid).bind fun a => iteratedKey a outLen pw salt (decodeCount c)

/-- same function, but RIPEMD-160 iterated specifiers are evaluated by the streaming loops
    (proved equal in Props/C20: `derive_fast_eq`) -/
def Spec.deriveFast (s : Spec) (pw : Bytes) (outLen : Nat) : Option Bytes :=
  match s with
  | .iterated 3 salt c => iteratedKeyStream XC.C14.Rmd.alg outLen pw salt (decodeCount c)
  | s => s.derive pw outLen

def Spec.encode : Spec → Bytes
  | .simple hid => [0, hid]
  | .salted hid salt => [1, hid] ++ salt
  | .iterated hid salt c => [3, hid] ++ salt ++ [c]

/-- `Serialize(w, key, rand, passphrase, c)` for a supported hash id: the 11 header bytes and the key.
    `rnd` = the bytes available from `rand` (fewer than 8 ⇒ error `eof`);
    `none` inside = panic (cannot happen for the clamped count). -/
def serialize (hid : UInt8) (rnd : Bytes) (s2kCount : Option Int) (pw : Bytes) (keyLen : Nat) :
    Except Err (Option (Bytes × Bytes)) :=
  if rnd.length < 8 then .error .eof else
  let salt := rnd.take 8
  match configCount s2kCount, hashOfId hid with
  | some c, some a =>
    .ok ((iteratedKey a keyLen pw salt (decodeCount c)).map fun key => (Spec.encode (.iterated hid salt c), key))
  | _, _ => .ok none

/-! ## RFC 4880 §3.7.1 reference -/

/-- `n` bytes of the endless repetition of `s` -/
def cycleTake (s : Bytes) (n : Nat) : Bytes :=
  ((List.replicate (n / s.length + 1) s).flatten).take n

/-- the octets hashed by iterated+salted S2K: salt ‖ passphrase repeated up to `count` octets, but
    always at least one full pass -/
def iterMessage (salt pw : Bytes) (count : Nat) : Bytes :=
  cycleTake (salt ++ pw) (max count (salt ++ pw).length)

/-- key material: H(msg) ‖ H(0x00 ‖ msg) ‖ H(0x00 0x00 ‖ msg) ‖ … truncated to `outLen` -/
def contexts (H : Bytes → Bytes) (msg : Bytes) (k : Nat) : Bytes :=
  ((List.range k).map fun i => H (zeros i ++ msg)).flatten

def s2kSpec (a : HashAlg) (msg : Bytes) (outLen : Nat) : Bytes :=
  (contexts a.hash msg ((outLen + a.size - 1) / a.size)).take outLen

end XC.C20
