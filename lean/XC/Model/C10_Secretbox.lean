/-
  C10 / C02 — NaCl secretbox (nacl/secretbox/secretbox.go) and the box wrappers (nacl/box/box.go).

  Spec-shaped (`secretboxSpec`): Bernstein, "Cryptography in NaCl" §9–10: the XSalsa20 stream for (key, nonce);
  its first 32 bytes are the Poly1305 one-time key, the ciphertext is `m xor stream[32..]`, and the
  authenticated box is `Poly1305(ciphertext) ‖ ciphertext`.

  Go-shaped (`sealGo` / `openGo`): `setup` (HSalsa20 sub-key, counter = nonce[16:24] ‖ 0^8), one 64-byte
  keystream block from counter 0 split into poly key and the keystream of the first ≤ 32 message bytes,
  `counter[8] = 1` and `salsa.XORKeyStream` for the remaining bytes, `poly1305.Sum/Verify` (the limb model of
  C04), `sliceForAppend`.  Salsa20 core / HSalsa20 / salsa.XORKeyStream are `XC.C09` (written from the spec).
-/
import XC.Basic
import XC.Model.C09_Core
import XC.Model.C04
namespace XC.C10

/-! ## spec -/

/-- the 16-byte salsa counter block for XSalsa20: nonce[16:24] ‖ block counter 0 -/
def ctr0 (nonce : Bytes) : Bytes := (nonce.drop 16).take 8 ++ zeros 8

/-- XSalsa20 stream of `n` bytes for a 32-byte key and 24-byte nonce ("Extending the Salsa20 nonce") -/
def xsalsaStream (key nonce : Bytes) (n : Nat) : Bytes :=
  C09.keystream (C09.hsalsa20 key (nonce.take 16)) (ctr0 nonce) n

/-- crypto_secretbox: `tag ‖ c` with `c = m xor stream[32..]`, `tag = Poly1305_{stream[0..32]}(c)` -/
def secretboxSpec (key nonce m : Bytes) : Bytes :=
  let s := xsalsaStream key nonce (32 + m.length)
  let c := xorBytes m (s.drop 32)
  C04.tagSpec (s.take 32) c ++ c

/-! ## secretbox.go -/

/-- `setup`: (subKey, counter) -/
def setup (key nonce : Bytes) : Bytes × Bytes :=
  (C09.hsalsa20 key (nonce.take 16), (nonce.drop 16).take 8 ++ zeros 8)

/-- `counter[8] = 1` -/
def ctr1 (counter : Bytes) : Bytes := counter.take 8 ++ [1] ++ counter.drop 9

/-- the encryption part shared by Seal and Open: first ≤ 32 bytes against `firstBlock[32:]`, the rest
    against the keystream from block 1 -/
def cryptGo (subKey counter firstBlock msg : Bytes) : Bytes :=
  let first := msg.take 32
  xorBytes first (firstBlock.drop 32) ++ C09.xorKeyStream subKey (ctr1 counter) (msg.drop 32)

/-- `secretbox.Seal(out, message, nonce, key)`; `none` = panic (Poly1305 overflow panic — unreachable) -/
def sealGo (out msg nonce key : Bytes) : Option Bytes :=
  let (subKey, counter) := setup key nonce
  let firstBlock := C09.xorKeyStream subKey counter (zeros 64)
  let polyKey := firstBlock.take 32
  let ct := cryptGo subKey counter firstBlock msg
  match C04.sumOneShot polyKey ct with
  | none => none
  | some tag => some (out ++ tag ++ ct)

inductive OpenRes where
  | ok (ret : Bytes)
  | fail              -- `nil, false`; nothing has been written
  | panic
deriving DecidableEq, Repr

/-- `secretbox.Open(out, box, nonce, key)` -/
def openGo (out box nonce key : Bytes) : OpenRes :=
  if box.length < 16 then .fail else
  let (subKey, counter) := setup key nonce
  let firstBlock := C09.xorKeyStream subKey counter (zeros 64)
  let polyKey := firstBlock.take 32
  let tag := box.take 16
  match C04.verifyOneShot tag polyKey (box.drop 16) with
  | none => .panic
  | some false => .fail
  | some true => .ok (out ++ cryptGo subKey counter firstBlock (box.drop 16))

/-! ## box.go -/

/-- `Precompute`: `dh` is the X25519 output computed by the stdlib (`none` = crypto/ecdh returned an error,
    e.g. a low-order peer point: `curve25519.ScalarMult` then zeroes the destination) -/
def precompute (dh : Option Bytes) : Bytes :=
  C09.hsalsa20 (dh.getD (zeros 32)) (zeros 16)

def boxSeal (out msg nonce : Bytes) (dh : Option Bytes) : Option Bytes := sealGo out msg nonce (precompute dh)
def boxOpen (out box nonce : Bytes) (dh : Option Bytes) : OpenRes := openGo out box nonce (precompute dh)

/-- `SealAnonymous`: `epk` = ephemeral public key, `nonce24` = BLAKE2b-24(epk ‖ recipient) (oracle),
    `dh` = X25519(esk, recipient) (oracle); output `out ‖ epk ‖ box` -/
def sealAnonymous (out msg epk nonce24 : Bytes) (dh : Option Bytes) : Option Bytes :=
  boxSeal (out ++ epk) msg nonce24 dh

/-- `OpenAnonymous`: `nonce24`/`dh` are oracle values for epk = box[:32] -/
def openAnonymous (out box nonce24 : Bytes) (dh : Option Bytes) : OpenRes :=
  if box.length < 48 then .fail else boxOpen out (box.drop 32) nonce24 dh

end XC.C10
