/-
  C18 — HKDF (hkdf/hkdf.go) and PBKDF2 (pbkdf2/pbkdf2.go).

  hkdf.go implements the *Expand reader* itself (`hkdfReader.Read`: byte counter, `prev`, `buf`,
  remaining-bytes check) — modelled as written, with the keyed HMAC `expander` abstracted to a
  function `prf : Bytes → Bytes` (instantiated with XC.Prim.hmac).  `Extract` and `pbkdf2.Key` are
  thin wrappers around the standard library (crypto/hkdf.Extract, crypto/pbkdf2.Key) that turn an
  error into a panic; their reference definitions (RFC 5869 §2.2, RFC 8018 §5.2) are the model.
-/
import XC.Basic
import XC.Prim.Hmac
namespace XC.C18
open XC.Prim

/-! ## hkdfReader -/

structure Reader where
  size : Nat          -- expander.Size()
  info : Bytes
  counter : UInt8     -- byte: wraps to 0 after block 255
  prev : Bytes
  buf : Bytes
deriving DecidableEq, Repr

/-- `Expand(hash, prk, info)`: `&hkdfReader{expander, expander.Size(), info, 1, nil, nil}` -/
def Reader.init (size : Nat) (info : Bytes) : Reader := ⟨size, info, 1, [], []⟩

/-- the `for len(p) > 0` loop: `p` bytes still wanted, `acc` the bytes delivered so far, `n` the
    result of the last `copy`.  One iteration: prev = HMAC(prev ‖ info ‖ counter); counter++;
    buf = prev; n = copy(p, buf).  (If the PRF returned an empty block the Go loop would spin
    forever; the model stops — unreachable for a real hash.) -/
def fillLoop (prf : Bytes → Bytes) (f : Reader) (p : Nat) (acc : Bytes) (n : Nat) : Reader × Bytes × Nat :=
  if p = 0 then (f, acc, n) else
  let prev := prf (f.prev ++ f.info ++ [f.counter])
  let f1 : Reader := { f with prev := prev, counter := f.counter + 1, buf := prev }
  if _hz : min p prev.length = 0 then (f1, acc, 0) else
  fillLoop prf f1 (p - min p prev.length) (acc ++ prev.take (min p prev.length)) (min p prev.length)
termination_by p
decreasing_by simp only [prev] at _hz; omega

/-- `Read(p)` with `len(p) = need`; `none` = `(0, error)` and the reader is left untouched -/
def Reader.read (prf : Bytes → Bytes) (f : Reader) (need : Nat) : Option (Reader × Bytes) :=
  -- remains := len(f.buf) + int(255-f.counter+1)*f.size        (byte arithmetic)
  let remains := f.buf.length + ((255 : UInt8) - f.counter + 1).toNat * f.size
  if remains < need then none else
  let n := min need f.buf.length          -- n := copy(p, f.buf); p = p[n:]
  let r := fillLoop prf f (need - n) (f.buf.take n) n
  -- f.buf = f.buf[n:]
  some ({ r.1 with buf := r.1.buf.drop r.2.2 }, r.2.1)

/-- a sequence of Reads on one reader: per Read the bytes, or `none` for the error -/
def readMany (prf : Bytes → Bytes) : Reader → List Nat → List (Option Bytes)
  | _, [] => []
  | f, k :: ks =>
    match f.read prf k with
    | none => none :: readMany prf f ks
    | some (f', out) => some out :: readMany prf f' ks

/-- Reads with the caller overwriting its `info` slice in place just before Read number `mutAt`:
    `hkdfReader` keeps the slice it was given (no copy), so blocks generated from then on use the new
    bytes — current behaviour of the code, outside RFC 5869 (which has one `info` per derivation). -/
def readManyMut (prf : Bytes → Bytes) (f : Reader) (ks : List Nat) (mutAt : Nat) (info' : Bytes) :
    List (Option Bytes) :=
  let rec go : Reader → List Nat → Nat → List (Option Bytes)
    | _, [], _ => []
    | f, k :: ks, idx =>
      let f := if idx = mutAt then { f with info := info' } else f
      match f.read prf k with
      | none => none :: go f ks (idx + 1)
      | some (f', out) => some out :: go f' ks (idx + 1)
  go f ks 0

/-! ## RFC 5869 -/

/-- HKDF-Extract(salt, IKM) = HMAC-Hash(salt, IKM) (an absent salt is HashLen zeros, which HMAC's
    key padding makes equal to the empty key) -/
def extract (a : HashAlg) (secret salt : Bytes) : Bytes := hmac a salt secret

/-- T(0) = ∅, T(i) = PRF(T(i-1) ‖ info ‖ i) -/
def T (prf : Bytes → Bytes) (info : Bytes) : Nat → Bytes
  | 0 => []
  | i + 1 => prf (T prf info i ++ info ++ [UInt8.ofNat (i + 1)])

/-- T(1) ‖ … ‖ T(j) -/
def okmBlocks (prf : Bytes → Bytes) (info : Bytes) : Nat → Bytes
  | 0 => []
  | j + 1 => okmBlocks prf info j ++ T prf info (j + 1)

/-- the whole output stream: T(1) ‖ … ‖ T(255) -/
def okm (prf : Bytes → Bytes) (info : Bytes) : Bytes := okmBlocks prf info 255

/-- HKDF-Expand(PRK, info, L) for L ≤ 255·HashLen -/
def expand (a : HashAlg) (prk info : Bytes) (L : Nat) : Option Bytes :=
  if L > 255 * a.size then none else some ((okm (hmac a prk) info).take L)

/-- `hkdf.New(hash, secret, salt, info)` / `hkdf.Expand(hash, prk, info)` as readers -/
def newReader (a : HashAlg) (info : Bytes) : Reader := Reader.init a.size info

/-! ## RFC 8018 PBKDF2 -/

def xorIter (prf : Bytes → Bytes) : Nat → Bytes → Bytes → Bytes
  | 0, _, t => t
  | c + 1, u, t => let u' := prf u; xorIter prf c u' (xorBytes t u')

/-- F(P, S, c, i) = U_1 ⊕ … ⊕ U_c,  U_1 = PRF(P, S ‖ INT(i)), U_j = PRF(P, U_{j-1}) -/
def pbkdf2F (prf : Bytes → Bytes) (salt : Bytes) (c i : Nat) : Bytes :=
  let u1 := prf (salt ++ natToBE 4 i)
  xorIter prf (c - 1) u1 u1

def pbkdf2Blocks (prf : Bytes → Bytes) (salt : Bytes) (c : Nat) : Nat → Bytes
  | 0 => []
  | l + 1 => pbkdf2Blocks prf salt c l ++ pbkdf2F prf salt c (l + 1)

/-- `pbkdf2.Key(password, salt, iter, keyLen, h)`: `none` = panic (the stdlib returns an error for
    `keyLen ≤ 0`, which the wrapper turns into a panic).  An iteration count ≤ 1 runs one iteration. -/
def pbkdf2Key (a : HashAlg) (pw salt : Bytes) (iter keyLen : Int) : Option Bytes :=
  if keyLen ≤ 0 then none else
  let kl := keyLen.toNat
  let l := (kl + a.size - 1) / a.size
  some ((pbkdf2Blocks (hmac a pw) salt iter.toNat l).take kl)


/-- the part of block `i` (1-based) that lies inside a key of `keyLen` bytes: PBKDF2 blocks are
    independent, so a window of a very long key can be computed without the rest -/
def pbkdf2Window (a : HashAlg) (pw salt : Bytes) (iter : Int) (keyLen i : Nat) : Bytes :=
  (pbkdf2F (hmac a pw) salt iter.toNat i).take (keyLen - (i - 1) * a.size)

/-- the whole key, block list built left to right (linear time; equal to `pbkdf2Key`, see
    Props `pbkdf2Key_blocks`) -/
def pbkdf2KeyLinear (a : HashAlg) (pw salt : Bytes) (iter : Int) (keyLen : Nat) : Bytes :=
  ((List.range ((keyLen + a.size - 1) / a.size)).flatMap fun l =>
    pbkdf2F (hmac a pw) salt iter.toNat (l + 1)).take keyLen

end XC.C18
