/-
  C13 — XTS (xts/xts.go) over abstract 16-byte block functions `E1 D1 E2 : Bytes → Bytes`
  (k1.Encrypt, k1.Decrypt, k2.Encrypt).  Model of the code as written: zeroed 16-byte tweak with the
  little-endian sector number, `k2.Encrypt(tweak)`, per block xor–cipher–xor, `mul2` byte loop with
  carry and the 0x87 feedback; the three panics of Encrypt/Decrypt.
-/
import XC.Basic
namespace XC.C13

/-! ## mul2 — the byte loop as written -/

/-- `for j := range tweak { carryOut := tweak[j] >> 7; tweak[j] = (tweak[j] << 1) + carryIn; carryIn = carryOut }`
    returns the new bytes and the final carry -/
def mul2Loop : UInt8 → Bytes → Bytes × UInt8
  | c, [] => ([], c)
  | c, b :: r =>
    let (r', c') := mul2Loop (b >>> 7) r
    (((b <<< 1) + c) :: r', c')

/-- `mul2(tweak)` -/
def mul2 (t : Bytes) : Bytes :=
  let (t', c) := mul2Loop 0 t
  if c != 0 then
    match t' with
    | [] => []
    | b0 :: r => (b0 ^^^ 0x87) :: r
  else t'

/-! ## the spec side: GF(2^128) with x^128 + x^7 + x^2 + x + 1, little-endian bit order (IEEE 1619) -/

/-- multiplication by the primitive element x (α) on the integer whose bit i is the coefficient of x^i -/
def gfDouble (n : Nat) : Nat :=
  if n < 2 ^ 127 then 2 * n else (2 * n - 2 ^ 128) ^^^ 0x87

def gfPow : Nat → Nat → Nat
  | 0, n => n
  | j+1, n => gfPow j (gfDouble n)

/-! ## Encrypt / Decrypt loops -/

def initTweak (E2 : Bytes → Bytes) (sector : UInt64) : Bytes := E2 (u64le sector ++ zeros 8)

/-- the `for len(plaintext) > 0` loop of Encrypt with cipher call `f` (E1, or D1 for Decrypt) -/
def loop (f : Bytes → Bytes) : List Bytes → Bytes → Bytes
  | [], _ => []
  | p :: ps, tw => xorBytes (f (xorBytes p tw)) tw ++ loop f ps (mul2 tw)

inductive Out where
  | ok : Bytes → Out
  | panic : Out
deriving DecidableEq

/-- `alias.InexactOverlap(dst[:n], src)` for two n-byte windows of one buffer whose start offsets
    differ by `d` (dst − src); `none` = separate buffers -/
def inexactOverlap (n : Nat) (d : Option Int) : Bool :=
  match d with
  | none => false
  | some d => n != 0 && d != 0 && d.natAbs < n

/-- Encrypt (dstLen = len(ciphertext)): the three panics, then the loop; result = dst[:len(src)] -/
def encrypt (E1 E2 : Bytes → Bytes) (dstLen : Nat) (ovl : Option Int) (src : Bytes) (sector : UInt64) : Out :=
  if dstLen < src.length then .panic
  else if src.length % 16 != 0 then .panic
  else if inexactOverlap src.length ovl then .panic
  else .ok (loop E1 (chunks 16 src) (initTweak E2 sector))

def decrypt (D1 E2 : Bytes → Bytes) (dstLen : Nat) (ovl : Option Int) (src : Bytes) (sector : UInt64) : Out :=
  if dstLen < src.length then .panic
  else if src.length % 16 != 0 then .panic
  else if inexactOverlap src.length ovl then .panic
  else .ok (loop D1 (chunks 16 src) (initTweak E2 sector))

/-! ## IEEE 1619 formula: block j is  E1(P_j ⊕ T_j) ⊕ T_j  with  T_j = E2(sector) ⊗ α^j -/

def tweakAt (E2 : Bytes → Bytes) (sector : UInt64) (j : Nat) : Bytes :=
  natToLE 16 (gfPow j (natOfLE (initTweak E2 sector)))

def specFrom (f E2 : Bytes → Bytes) (sector : UInt64) : Nat → List Bytes → Bytes
  | _, [] => []
  | j, p :: ps => xorBytes (f (xorBytes p (tweakAt E2 sector j))) (tweakAt E2 sector j) ++ specFrom f E2 sector (j+1) ps

def ieee1619 (f E2 : Bytes → Bytes) (sector : UInt64) (src : Bytes) : Bytes :=
  specFrom f E2 sector 0 (chunks 16 src)

/-! ## the toy 16-byte block cipher shared with the harness (harness/cmd/c13/main.go `toy`) -/
namespace Toy

def rotl (l : Bytes) (n : Nat) : Bytes := l.drop n ++ l.take n

/-- y_i = (x_i ^ k_i)*5 + 17;  z = y rotated left by 5 bytes;  out_i = z_i + k_i -/
def enc (k x : Bytes) : Bytes :=
  let y := List.zipWith (fun xi ki => (xi ^^^ ki) * 5 + 17) x k
  List.zipWith (· + ·) (rotl y 5) k

/-- inverse: z_i = c_i - k_i;  y = z rotated left by 11;  x_i = ((y_i - 17) * 205) ^ k_i  (5·205 ≡ 1 mod 256) -/
def dec (k c : Bytes) : Bytes :=
  let z := List.zipWith (· - ·) c k
  List.zipWith (fun yi ki => ((yi - 17) * 205) ^^^ ki) (rotl z 11) k

end Toy

/-! ## memory model: one arena, dst / src as (offset, length) windows (same primitives as C53) -/
namespace Mem

def rd (mem : Bytes) (off len : Nat) : Bytes := (mem.drop off).take len

/-- overwrite `b.length` bytes at `off` (callers stay inside the arena) -/
def wr (mem : Bytes) (off : Nat) (b : Bytes) : Bytes :=
  mem.take off ++ b ++ mem.drop (off + b.length)

/-- left-to-right chunk loop: `dst[o:o+c] = g o src[o:o+c]`, reading the *current* memory -/
def chunkLoop (g : Nat → Bytes → Bytes) : List Nat → Nat → Bytes → Nat → Nat → Bytes
  | [], _, mem, _, _ => mem
  | c :: cs, o, mem, d, s => chunkLoop g cs (o + c) (wr mem (d + o) (g o (rd mem (s + o) c))) d s

/-- the same computation on a separate copy of the source -/
def mapChunks (g : Nat → Bytes → Bytes) : List Nat → Nat → Bytes → Bytes
  | [], _, _ => []
  | c :: cs, o, src => g o (src.take c) ++ mapChunks g cs (o + c) (src.drop c)

def xorG (ks : Bytes) (o : Nat) (chunk : Bytes) : Bytes :=
  xorBytes chunk ((ks.drop o ++ zeros chunk.length).take chunk.length)

/-- the bytewise loop `for j := range tweak { dst[j] = src[j] ^ tweak[j] }` on the arena -/
def xorLoop (ks : Bytes) (mem : Bytes) (d s n : Nat) : Bytes :=
  chunkLoop (xorG ks) (List.replicate n 1) 0 mem d s

end Mem

structure Sl where
  off : Nat
  len : Nat
deriving DecidableEq

/-- `alias.InexactOverlap(x, y)`: both non-empty, different start, and
    &x[0] ≤ &y[len-1] ∧ &y[0] ≤ &x[len-1] -/
def inexactOverlapSl (x y : Sl) : Bool :=
  if x.len = 0 || y.len = 0 || x.off = y.off then false
  else decide (x.off ≤ y.off + (y.len - 1)) && decide (y.off ≤ x.off + (x.len - 1))

/-- one body of the `for len(plaintext) > 0` loop on the arena, as written: bytewise
    `ciphertext[j] = plaintext[j] ^ tweak[j]`, the block cipher in place on `ciphertext[:16]`,
    bytewise `ciphertext[j] ^= tweak[j]`; the tweak lives in its own pooled array -/
def blockStep (f : Bytes → Bytes) (tw mem : Bytes) (d s : Nat) : Bytes :=
  let m1 := Mem.xorLoop tw mem d s 16
  let m2 := Mem.wr m1 d (f (Mem.rd m1 d 16))
  Mem.xorLoop tw m2 d d 16

/-- the block loop: `k` blocks left, relative offset `o` -/
def memLoop (f : Bytes → Bytes) : Nat → Nat → Bytes → Bytes → Nat → Nat → Bytes
  | 0, _, _, mem, _, _ => mem
  | k+1, o, tw, mem, d, s => memLoop f k (o + 16) (mul2 tw) (blockStep f tw mem (d + o) (s + o)) d s

inductive MemOut where
  | ok : Bytes → MemOut
  | panic : MemOut
deriving DecidableEq

/-- Encrypt (f = E1) / Decrypt (f = D1) on the arena -/
def cryptMem (f E2 : Bytes → Bytes) (mem : Bytes) (dst src : Sl) (sector : UInt64) : MemOut :=
  if dst.len < src.len then .panic
  else if src.len % 16 != 0 then .panic
  else if inexactOverlapSl ⟨dst.off, src.len⟩ src then .panic
  else .ok (memLoop f (src.len / 16) 0 (initTweak E2 sector) mem dst.off src.off)

/-- `NewCipher(cipherFunc, key)` with a cipherFunc that accepts exactly the key lengths in `okLens`
    and yields block size `bs`: error iff either half is rejected or `bs ≠ 16` -/
def newCipherOk (okLens : List Nat) (bs : Nat) (keyLen : Nat) : Bool :=
  okLens.contains (keyLen / 2) && okLens.contains (keyLen - keyLen / 2) && bs == 16

end XC.C13
