/-
  C38 — authorized_keys / known_hosts line formats and fingerprints (ssh/keys.go):
  parseAuthorizedKey, ParseAuthorizedKey (line loop, key-type check, options scanner, retry after the
  options field), ParseKnownHosts (marker, hosts, type check), MarshalAuthorizedKey,
  FingerprintSHA256, FingerprintLegacyMD5.  Key blobs go through `XC.C41.parsePublicKey`
  (plain keys: XC.Model.C38_Keys, certificates: XC.Model.C41).

  stdlib pieces written out here: base64.StdEncoding (Encode, and Decode with its padding rules;
  non-strict: trailing bits are not checked), bytes.TrimSpace / bytes.Fields restricted to ASCII
  white space (inputs with UTF-8 encoded Unicode spaces — lead bytes c2, e1, e2, e3 — are outside
  the model; the generator avoids them), SHA-256 and MD5 from XC.Prim.
-/
import XC.Model.C41
import XC.Prim.Sha256
import XC.Prim.Md5
namespace XC.C38
open XC

/-! ## base64 (RFC 4648 §4, standard alphabet, padding) -/

def b64Char (v : Nat) : UInt8 :=
  if v < 26 then UInt8.ofNat (65 + v)
  else if v < 52 then UInt8.ofNat (97 + (v - 26))
  else if v < 62 then UInt8.ofNat (48 + (v - 52))
  else if v = 62 then 43 else 47

def b64Val (c : UInt8) : Option Nat :=
  let n := c.toNat
  if 65 ≤ n ∧ n ≤ 90 then some (n - 65)
  else if 97 ≤ n ∧ n ≤ 122 then some (n - 97 + 26)
  else if 48 ≤ n ∧ n ≤ 57 then some (n - 48 + 52)
  else if n = 43 then some 62
  else if n = 47 then some 63
  else none

/-- StdEncoding.Encode -/
def b64Encode : Bytes → Bytes
  | [] => []
  | [a] => [b64Char (a.toNat / 4), b64Char (a.toNat % 4 * 16), 61, 61]
  | [a, b] => [b64Char (a.toNat / 4), b64Char (a.toNat % 4 * 16 + b.toNat / 16), b64Char (b.toNat % 16 * 4), 61]
  | a :: b :: c :: r =>
    b64Char (a.toNat / 4) :: b64Char (a.toNat % 4 * 16 + b.toNat / 16) ::
    b64Char (b.toNat % 16 * 4 + c.toNat / 64) :: b64Char (c.toNat % 64) :: b64Encode r

/-- RawStdEncoding.Encode (no padding) -/
def b64EncodeRaw (b : Bytes) : Bytes := (b64Encode b).filter (· ≠ 61)

/-- the last quantum: `xx==`, `xxx=` or `xxxx` -/
def b64Last (a b c d : UInt8) : Option Bytes :=
  match b64Val a, b64Val b with
  | some x, some y =>
    if c = 61 ∧ d = 61 then some [UInt8.ofNat (x * 4 + y / 16)]
    else match b64Val c with
      | none => none
      | some z =>
        if d = 61 then some [UInt8.ofNat (x * 4 + y / 16), UInt8.ofNat (y % 16 * 16 + z / 4)]
        else match b64Val d with
          | none => none
          | some w => some [UInt8.ofNat (x * 4 + y / 16), UInt8.ofNat (y % 16 * 16 + z / 4), UInt8.ofNat (z % 4 * 64 + w)]
  | _, _ => none

/-- StdEncoding.Decode on input without CR/LF: full quanta of four alphabet characters; padding only
    in the last quantum (`xx==` or `xxx=`); anything else is CorruptInputError -/
def b64Decode : Bytes → Option Bytes
  | [] => some []
  | a :: b :: c :: d :: r =>
    if r.isEmpty then b64Last a b c d else
    match b64Val a, b64Val b, b64Val c, b64Val d with
    | some x, some y, some z, some w =>
      match b64Decode r with
      | none => none
      | some t => some (UInt8.ofNat (x * 4 + y / 16) :: UInt8.ofNat (y % 16 * 16 + z / 4) :: UInt8.ofNat (z % 4 * 64 + w) :: t)
    | _, _, _, _ => none
  | _ => none

/-! ## ASCII white space helpers -/

def isSpTab (b : UInt8) : Bool := b = 32 || b = 9
/-- `asciiSpace`: \t \n \v \f \r and space -/
def isAsciiSpace (b : UInt8) : Bool := b = 32 || (9 ≤ b.toNat && b.toNat ≤ 13)

def trimLeft (b : Bytes) : Bytes := b.dropWhile isAsciiSpace
def trimSpace (b : Bytes) : Bytes := (trimLeft (trimLeft b).reverse).reverse

/-- `bytes.IndexAny(in, " \t")`: (prefix before, suffix from) the first space/tab; `none` = -1 -/
def splitSpTab : Bytes → Option (Bytes × Bytes)
  | [] => none
  | b :: r => if isSpTab b then some ([], b :: r) else (splitSpTab r).map (fun p => (b :: p.1, p.2))

/-- `bytes.Fields` (ASCII) -/
def fieldsGo : Bytes → Bytes → List Bytes
  | [], cur => if cur.isEmpty then [] else [cur.reverse]
  | b :: r, cur =>
    if isAsciiSpace b then (if cur.isEmpty then fieldsGo r [] else cur.reverse :: fieldsGo r [])
    else fieldsGo r (b :: cur)
def fields (b : Bytes) : List Bytes := fieldsGo b []

/-- first line: (line without "\n", rest after it); `rest = none` when there is no newline (Go: nil) -/
def cutLine : Bytes → Bytes × Option Bytes
  | [] => ([], none)
  | b :: r => if b = 10 then ([], some r) else let p := cutLine r; (b :: p.1, p.2)

/-- `in[:IndexByte(in, '\r')]` -/
def cutCR (b : Bytes) : Bytes := b.takeWhile (· ≠ 13)

/-! ## parseAuthorizedKey -/

/-- `parseAuthorizedKey(in)`: base64 blob up to the first space/tab, comment = trimmed remainder -/
def parseKeyField (o : PtOracle) (inp : Bytes) : Option (C41.AnyKey × Bytes) :=
  let t := trimSpace inp
  let (b64, rest) := match splitSpTab t with | some p => p | none => (t, [])
  match b64Decode b64 with
  | none => none
  | some blob =>
    match C41.parsePublicKey o blob with
    | none => none
    | some k => some (k, trimSpace rest)

def _root_.XC.C41.AnyKey.type : C41.AnyKey → Option Bytes
  | .plain k => some k.type
  | .cert c => C41.certTypeOf c.key

/-! ## the options scanner -/

structure Scan where
  inQuote : Bool := false
  /-- previous byte (`in[i-1]`), none at i = 0 -/
  prev : Option UInt8 := none
  /-- bytes of `in[optionStart:i]`, reversed -/
  cur : Bytes := []
  /-- options found so far, reversed -/
  acc : List Bytes := []

def Scan.flush (s : Scan) : List Bytes := if s.cur.isEmpty then s.acc else s.cur.reverse :: s.acc

/-- the `for i, b = range in` loop.  Returns (candidateOptions, remainder starting AT the byte where
    the loop stopped): on `break` that is the terminating space/tab; if the loop runs off the end Go's
    `i` is the index of the last byte. -/
def scanOptions : Bytes → Scan → List Bytes × Bytes
  | [], s => (s.acc.reverse, match s.prev with | some p => [p] | none => [])
  | b :: r, s =>
    let isEnd := !s.inQuote && isSpTab b
    if isEnd then ((s.flush).reverse, b :: r)
    else if b = 44 ∧ !s.inQuote then
      scanOptions r { s with acc := s.flush, cur := [], prev := some b }
    else
      let toggle := b = 34 ∧ s.prev ≠ some 92
      scanOptions r { s with inQuote := if toggle then !s.inQuote else s.inQuote, cur := b :: s.cur, prev := some b }

/-! ## ParseAuthorizedKey -/

inductive AKResult where
  | ok (key : C41.AnyKey) (comment : Bytes) (options : List Bytes) (rest : Option Bytes)
  | err
deriving DecidableEq

/-- one line (already cut at "\n"): `some result` = return, `none` = `continue` with the next line -/
def authorizedLine (o : PtOracle) (line : Bytes) (rest : Option Bytes) : Option AKResult :=
  let inp := trimSpace (cutCR line)
  match inp with
  | [] => none
  | c :: _ =>
    if c = 35 then none else
    match splitSpTab inp with
    | none => none
    | some (ty, after) =>
      let first : Option AKResult :=
        match parseKeyField o after with
        | some (k, comment) => if some ty = k.type then some (.ok k comment [] rest) else none
        | none => none
      match first with
      | some r => some r
      | none =>
        let (opts, stop) := scanOptions inp {}
        let in2 := stop.dropWhile isSpTab
        if in2.isEmpty then none else
        match splitSpTab in2 with
        | none => none
        | some (ty2, after2) =>
          match parseKeyField o after2 with
          | some (k, comment) => if some ty2 = k.type then some (.ok k comment opts rest) else none
          | none => none

/-- the `for len(in) > 0` loop; fuel = number of bytes (every iteration consumes a line) -/
def parseAuthorizedKeyGo (o : PtOracle) : Nat → Bytes → AKResult
  | 0, _ => .err
  | f+1, inp =>
    if inp.isEmpty then .err else
    let (line, rest) := cutLine inp
    match authorizedLine o line rest with
    | some r => r
    | none => match rest with
      | none => .err
      | some r => parseAuthorizedKeyGo o f r

def parseAuthorizedKey (o : PtOracle) (inp : Bytes) : AKResult := parseAuthorizedKeyGo o (inp.length + 1) inp

/-- `MarshalAuthorizedKey` -/
def marshalAuthorizedKey (k : C41.AnyKey) : Option Bytes :=
  match k.type, k.marshal with
  | some t, some m => some (t ++ [32] ++ b64Encode m ++ [10])
  | _, _ => none

/-! ## ParseKnownHosts -/

inductive KHResult where
  | ok (marker : Bytes) (hosts : List Bytes) (key : C41.AnyKey) (comment : Bytes) (rest : Option Bytes)
  | err      -- parse error
  | eof      -- io.EOF: no entry found
  | panic    -- an index out of range in the Go code (proved unreachable)
deriving DecidableEq

def splitComma : Bytes → Bytes → List Bytes
  | [], cur => [cur.reverse]
  | b :: r, cur => if b = 44 then cur.reverse :: splitComma r [] else splitComma r (b :: cur)

def joinSp : List Bytes → Bytes
  | [] => []
  | [x] => x
  | x :: r => x ++ [32] ++ joinSp r

/-- the part of ParseKnownHosts that indexes `keyFields` (3 ≤ len ≤ 5 is checked by the caller) -/
def knownHostsFields (o : PtOracle) (kf : List Bytes) (rest : Option Bytes) : KHResult :=
  -- keyFields[0][0]
  match kf with
  | [] => .panic
  | [] :: _ => .panic
  | (c0 :: m) :: tl =>
    let (marker, kf') := if c0 = 64 then (m, tl) else ([], kf)
    match kf' with
    | hosts :: want :: keyParts =>
      (match parseKeyField o (joinSp keyParts) with
       | none => .err
       | some (k, comment) =>
         if k.type ≠ some want then .err
         else .ok marker (splitComma hosts []) k comment rest)
    | _ => .panic

def knownHostsLine (o : PtOracle) (line : Bytes) (rest : Option Bytes) : Option KHResult :=
  let inp := trimSpace (cutCR line)
  match inp with
  | [] => none
  | c :: _ =>
    if c = 35 then none else
    match splitSpTab inp with
    | none => none
    | some _ =>
      let kf := fields inp
      if kf.length < 3 ∨ kf.length > 5 then some .err else some (knownHostsFields o kf rest)

def parseKnownHostsGo (o : PtOracle) : Nat → Bytes → KHResult
  | 0, _ => .eof
  | f+1, inp =>
    if inp.isEmpty then .eof else
    let (line, rest) := cutLine inp
    match knownHostsLine o line rest with
    | some r => r
    | none => match rest with
      | none => .eof
      | some r => parseKnownHostsGo o f r

def parseKnownHosts (o : PtOracle) (inp : Bytes) : KHResult := parseKnownHostsGo o (inp.length + 1) inp

/-! ## fingerprints -/

def hexLower (b : UInt8) : Bytes :=
  let d (n : Nat) : UInt8 := if n < 10 then UInt8.ofNat (48 + n) else UInt8.ofNat (87 + n)
  [d (b.toNat / 16), d (b.toNat % 16)]

def joinColon : List Bytes → Bytes
  | [] => []
  | [x] => x
  | x :: r => x ++ [58] ++ joinColon r

/-- FingerprintLegacyMD5 -/
def fingerprintMD5 (blob : Bytes) : Bytes := joinColon ((Prim.md5 blob).map hexLower)

/-- FingerprintSHA256 -/
def fingerprintSHA256 (blob : Bytes) : Bytes := nm "SHA256:" ++ b64EncodeRaw (Prim.sha256 blob)

end XC.C38
