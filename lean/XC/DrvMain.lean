/-
  XC.DrvMain — the line loop shared by every per-property driver executable
  (`xcdrv_cNN`, root `Mains/CNN.lean`): one op line in, one observable line out.
  A handler is a pure `String → String`, so a replay is just the op line.
-/
namespace XC

partial def drvLoop (h : IO.FS.Stream) (out : IO.FS.Stream) (f : String → String) : IO Unit := do
  let line ← h.getLine
  if line.isEmpty then return ()
  let l := if line.endsWith "\n" then (line.dropEnd 1).toString else line
  out.putStrLn (f l)
  drvLoop h out f

def drvMain (f : String → String) : IO UInt32 := do
  let out ← IO.getStdout
  drvLoop (← IO.getStdin) out f
  out.flush
  return 0

end XC
