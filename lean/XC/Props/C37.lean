/-
  C37 — property theorems over the LTS `XC.C37.next` (model of ssh/tcpip.go + streamlocal.go AS WRITTEN).

  Safety (all interleavings, unbounded):
      no_panic                          no send on / close of a closed Go channel is reachable
      delivered_only_exact_match        every accepted connection was addressed to the listener's exact key
      buffered_only_exact_match, never_registered_never_delivered
      unmatched_rejected                no matching entry ⇒ Prohibited on the wire, nothing delivered
      mutex_exclusive                   at most one goroutine inside forwardList.forward
      accept_after_close_errors         Accept on a closed + drained listener returns an error
      close_closes_own_channel          Close closes the listener's own channel (unique address)
      closed_stays_closed_empty(_run)   …and such a listener never receives anything again
  Liveness clause "closing a listener returns" is FALSE for the code as written:
      close_can_deadlock, close_blocked_forever, not_close_returns            (finding F3)
      what does hold: close_enabled_iff_unlocked, parked_needs_two_unaccepted
  "later Accept calls return an error" is false while one forward is buffered:
      accept_after_close_may_succeed                                           (second finding)

  The REPAIRED relation `nextFixed` (Model/C37_Fixed.lean; invariant InvF in Proofs/C37_Fixed.lean) — the
  specification a repair has to meet:
      no_panic_fixed, delivered_only_exact_match_fixed, unmatched_rejected_fixed, no_stranded_forward_fixed
      close_step_enabled_fixed, close_returns_fixed (CloseReturns nextFixed; compare not_close_returns)
      accept_after_close_errors_fixed, close_closes_own_channel_fixed, closed_stays_closed_fixed,
      accept_after_close_errors_fixed_run
      witness_schedule_completes_fixed, accept_after_close_schedule_fixed (the two finding schedules, repaired)
-/
import XC.Proofs.C37
import XC.Proofs.C37_Fixed
namespace XC.C37

/-! ## safety -/

/-- Neither "send on closed channel" nor "close of closed channel" is reachable. -/
theorem no_panic {s : State} (h : Reachable s) : Ev.panic ∉ s.log := by
  intro hm
  exact ((inv_reachable h).log_ok _ hm).1 rfl

/-- Every connection an Accept call ever returned was addressed to exactly the key (network, address string)
    the accepting listener registered. -/
theorem delivered_only_exact_match {s : State} (h : Reachable s) (c lid : Nat) (f : Fwd)
    (hm : Ev.accept c lid (some f) ∈ s.log) : ∃ l, getLst s.lsts lid = some l ∧ l.key = f.key :=
  ((inv_reachable h).log_ok _ hm).2 c lid f rfl

/-- …and so is whatever sits un-accepted in a listener's channel. -/
theorem buffered_only_exact_match {s : State} (h : Reachable s) (lid : Nat) (l : Lst) (f : Fwd)
    (hl : getLst s.lsts lid = some l) (hb : l.buf = some f) : f.key = l.key :=
  (inv_reachable h).buf_key lid l f hl hb

def fw (i : Nat) (k : Key) : Fwd := ⟨i, k, true, true⟩

/-- evaluate a concrete run by rewriting -/
macro "run_simp" : tactic => `(tactic|
  simp [run, runFrom, next, init, emit, emitWire, locked, State.h, State.setH, findEntry, removeFirst, getLst,
    putChan, closeChan, closeAllChans, updLst, fw])

theorem reachable_of_run_init {as : List Act} {s : State} (h : run as = some s) : Reachable s :=
  reachable_of_run .init as h

example (k : Key) : ∃ s, Reachable s ∧ Ev.accept 3 0 (some (fw 1 k)) ∈ s.log := by
  have h : ∃ s, run [.listenCall 0 k false, .addRun 0, .fwdSend (fw 1 k), .hTake k.net, .acceptCall 3 0,
      .accRun 3] = some s ∧ Ev.accept 3 0 (some (fw 1 k)) ∈ s.log := by
    obtain ⟨n, h, p⟩ := k
    cases n <;> run_simp
  obtain ⟨s, hr, hm⟩ := h
  exact ⟨s, reachable_of_run_init hr, hm⟩


/-- `handleChannels` on a well-formed open whose (network, address) matches no registered entry: the open is
    answered with Prohibited (reason 1) on the wire and nothing is delivered or buffered anywhere. -/
theorem unmatched_rejected (s : State) (n : Net) (f : Fwd) (q : List Fwd)
    (hq : (s.h n).queue = f :: q) (hpc : (s.h n).pc = none) (hparse : f.parses = true)
    (hfree : locked s = false) (hno : ∀ lid, (f.key, lid) ∉ s.entries) (halive : s.alive = true) :
    ∃ s', next s (.hTake n) = some s' ∧ s'.log = .reject f.id 1 :: s.log ∧ s'.lsts = s.lsts ∧
      (s'.h n).pc = none := by
  have hfind : findEntry s.entries f.key = none := by
    cases hf : findEntry s.entries f.key with
    | none => rfl
    | some lid => exact absurd (findEntry_mem hf) (hno lid)
  refine ⟨emitWire (s.setH n { s.h n with queue := q }) (.reject f.id 1), ?_, ?_, ?_, ?_⟩
  · simp [next, hq, hpc, hparse, hfree, hfind]
  · simp [emitWire, halive, emit]
  · simp [emitWire, halive, emit]
  · cases n <;> simp_all [emitWire, emit, State.setH, State.h]

/-- A forward whose key no listener ever registered is never handed to an application. -/
theorem never_registered_never_delivered {s : State} (h : Reachable s) (f : Fwd)
    (hnever : ∀ l ∈ s.lsts, l.key ≠ f.key) : ∀ c lid, Ev.accept c lid (some f) ∉ s.log := by
  intro c lid hm
  obtain ⟨l, hl, hk⟩ := delivered_only_exact_match h c lid f hm
  have hmem : l ∈ s.lsts := by
    clear hnever hm h
    generalize s.lsts = ls at hl
    induction ls with
    | nil => simp [getLst] at hl
    | cons a t ih =>
      by_cases h1 : a.id = lid
      · simp [getLst, h1] at hl; subst hl; simp
      · simp [getLst, h1] at hl; exact List.mem_cons_of_mem _ (ih hl)
  exact hnever l hmem hk

/-! ## Accept after Close -/

/-- Accept on a listener whose Go channel is closed and empty returns an error (io.EOF). -/
theorem accept_after_close_errors (s : State) (call lid : Nat) (l : Lst)
    (hacc : s.acceptors.find? (·.1 = call) = some (call, lid))
    (hl : getLst s.lsts lid = some l) (hclosed : l.closed = true) (hempty : l.buf = none) :
    ∃ s', next s (.accRun call) = some s' ∧ s'.log = .accept call lid none :: s.log := by
  refine ⟨emit { s with acceptors := s.acceptors.filter (·.1 ≠ call) } (.accept call lid none), ?_, ?_⟩
  · simp [next, hacc, hl, hempty, hclosed]
  · simp [emit]

/-- `Close` (forwardList.remove) closes the Go channel of the listener it was called on, provided the listener
    is still registered and no other live entry shares its address (the peer never confirms two forwards for
    one address). -/
theorem close_closes_own_channel {s s' : State} (call lid : Nat) (ok : Bool) (l : Lst)
    (hcl : s.closers.find? (·.1 = call) = some (call, lid, ok)) (hl : getLst s.lsts lid = some l)
    (hopen : l.closed = false)
    (hfirst : findEntry s.entries l.key = some lid)
    (hs : next s (.closeRun call) = some s') :
    ∃ l', getLst s'.lsts lid = some l' ∧ l'.closed = true ∧ s'.log = .close call lid (s.alive && ok) :: s.log := by
  simp only [next, hcl, hl] at hs
  split at hs
  · cases hs
  · cases hs
    simp only [hfirst, closeChan, hl, hopen, emit, Bool.false_eq_true, ↓reduceIte]
    rw [getLst_updLst _ _ _ _ (by simp), hl]
    simp [getLst_id hl]


/-- counter-example to "later Accept calls return an error": Listen; one open; Close returns; an Accept
    started afterwards returns the buffered connection (finding: accept-after-close-returns-buffered-forward). -/
theorem accept_after_close_may_succeed (k : Key) :
    ∃ s, Reachable s ∧
      s.log = [.accept 3 0 (some (fw 1 k)), .confirm 1, .close 2 0 true, .listen 0 0] := by
  have h : ∃ s, run [.listenCall 0 k false, .addRun 0, .fwdSend (fw 1 k), .hTake k.net,
      .closeCall 2 0 true, .closeRun 2, .acceptCall 3 0, .accRun 3] = some s ∧
      s.log = [.accept 3 0 (some (fw 1 k)), .confirm 1, .close 2 0 true, .listen 0 0] := by
    obtain ⟨n, h, p⟩ := k
    cases n <;> run_simp
  obtain ⟨s, hr, hm⟩ := h
  exact ⟨s, reachable_of_run_init hr, hm⟩

/-! ## Close: when it can and when it cannot return -/

/-- A pending Close can take its step exactly when no handler goroutine is parked inside
    `forwardList.forward` (the only code that keeps the mutex across a blocking operation). -/
theorem close_enabled_iff_unlocked (s : State) (call lid : Nat) (ok : Bool) (l : Lst)
    (hcl : s.closers.find? (·.1 = call) = some (call, lid, ok)) (hl : getLst s.lsts lid = some l) :
    (next s (.closeRun call)).isSome = true ↔ locked s = false := by
  simp only [next, hcl, hl]
  cases locked s <;> simp

/-- A handler is parked (and the mutex stuck) only while the listener it is sending to already holds an
    un-accepted forward for the same address: it takes at least two un-accepted forwards for one listener. -/
theorem parked_needs_two_unaccepted {s : State} (h : Reachable s) (n : Net) (f : Fwd) (lid : Nat)
    (hpc : (s.h n).pc = some (f, lid)) (hstuck : next s (.hSend n) = none) :
    ∃ l f', getLst s.lsts lid = some l ∧ l.buf = some f' ∧ f'.key = f.key ∧ l.key = f.key := by
  have hi := inv_reachable h
  obtain ⟨l, hl, hk, hc⟩ := hi.entries_open _ _ (hi.pc_entry n f lid hpc)
  simp only [next, hpc, hl, hc, Bool.false_eq_true, ↓reduceIte] at hstuck
  cases hb : l.buf with
  | none => simp [hb] at hstuck
  | some f' => exact ⟨l, f', hl, hb, (hi.buf_key lid l f' hl hb).trans hk, hk⟩

/-- the F3 schedule: Listen; two opens for the listener's address; nobody accepts; Close -/
def witnessActs (k : Key) : List Act :=
  [.listenCall 0 k false, .addRun 0, .fwdSend (fw 1 k), .hTake k.net, .fwdSend (fw 2 k), .hTake k.net,
   .closeCall 3 0 true]

def witnessState (k : Key) : State :=
  { (init.setH k.net ⟨[], some (fw 2 k, 0)⟩) with
    started := true, entries := [(k, 0)], lsts := [⟨0, k, some (fw 1 k), false⟩],
    closers := [(3, 0, true)], log := [.listen 0 0] }

theorem witness_run (k : Key) : run (witnessActs k) = some (witnessState k) := by
  obtain ⟨n, h, p⟩ := k
  cases n <;> (simp only [witnessActs, witnessState]; run_simp)

/-- what keeps Close stuck: a handler parked on listener `lid` with a full buffer, nobody accepting on `lid` -/
structure Stuck (n : Net) (f : Fwd) (lid call clid : Nat) (ok : Bool) (s : State) : Prop where
  parked : (s.h n).pc = some (f, lid)
  full : ∃ l, getLst s.lsts lid = some l ∧ l.buf.isSome = true ∧ l.closed = false
  noAcc : ∀ a ∈ s.acceptors, a.2 ≠ lid
  waiting : (call, clid, ok) ∈ s.closers
  notRet : ∀ b, Ev.close call clid b ∉ s.log


theorem stuck_frame {n f lid call clid ok} {s t : State} (hs : Stuck n f lid call clid ok s)
    (h1 : (t.h n).pc = (s.h n).pc) (h2 : t.lsts = s.lsts) (h3 : ∀ a ∈ t.acceptors, a ∈ s.acceptors)
    (h4 : t.closers = s.closers ∨ ∃ x, t.closers = s.closers ++ [x])
    (h5 : ∀ b, Ev.close call clid b ∈ t.log → Ev.close call clid b ∈ s.log) : Stuck n f lid call clid ok t := by
  refine ⟨h1 ▸ hs.parked, h2 ▸ hs.full, fun a ha => hs.noAcc a (h3 a ha), ?_, fun b hb => hs.notRet b (h5 b hb)⟩
  rcases h4 with h4 | ⟨x, h4⟩
  · rw [h4]; exact hs.waiting
  · rw [h4]; exact List.mem_append_left _ hs.waiting

theorem emitWire_log_close {s : State} {e : Ev} {call clid : Nat} {b : Bool} (he : ∀ c l o, e ≠ .close c l o)
    (h : Ev.close call clid b ∈ (emitWire s e).log) : Ev.close call clid b ∈ s.log := by
  unfold emitWire at h
  split at h
  · simp only [emit, List.mem_cons] at h
    rcases h with h | h
    · exact absurd h.symm (he _ _ _)
    · exact h
  · exact h

theorem emit_h (s : State) (e : Ev) (n : Net) : (emit s e).h n = s.h n := by cases n <;> rfl
@[simp] theorem emit_lsts (s : State) (e : Ev) : (emit s e).lsts = s.lsts := rfl
@[simp] theorem emit_acceptors (s : State) (e : Ev) : (emit s e).acceptors = s.acceptors := rfl
@[simp] theorem emit_closers (s : State) (e : Ev) : (emit s e).closers = s.closers := rfl

theorem stuck_step {n : Net} {f : Fwd} {lid call clid : Nat} {ok : Bool} {s s' : State} (a : Act)
    (hs : Stuck n f lid call clid ok s) (hna : ∀ c, a ≠ .acceptCall c lid)
    (h : next s a = some s') : Stuck n f lid call clid ok s' := by
  have hlk : locked s = true := locked_of_pc hs.parked
  cases a with
  | listenCall c k d =>
    simp only [next] at h
    split at h
    · cases h
      exact stuck_frame hs (by cases n <;> rfl) rfl (fun _ h => h) (Or.inl rfl) (by intro b hb; simpa [emit] using hb)
    · split at h
      · cases h
        exact stuck_frame hs (by cases n <;> rfl) rfl (fun _ h => h) (Or.inl rfl) (by intro b hb; simpa [emit] using hb)
      · cases h
        exact stuck_frame hs (by cases n <;> rfl) rfl (fun _ h => h) (Or.inl rfl) (fun _ h => h)
  | fwdSend g =>
    simp only [next] at h
    split at h
    · cases h
    · split at h
      · cases h
        refine stuck_frame hs ?_ ?_ ?_ ?_ ?_
        · unfold emitWire; split <;> rfl
        · unfold emitWire; split <;> rfl
        · unfold emitWire; split <;> exact fun _ h => h
        · unfold emitWire; split <;> exact Or.inl rfl
        · intro b hb; exact emitWire_log_close (by simp) hb
      · cases h
        refine stuck_frame hs ?_ (by simp) (by simp) (Or.inl (by simp)) (by simp)
        by_cases hn : n = g.key.net
        · subst hn; simp
        · rw [setH_h_other _ _ _ _ hn]
  | acceptCall c l =>
    simp only [next] at h
    split at h
    · cases h
    · cases h
      refine ⟨hs.parked, hs.full, ?_, hs.waiting, hs.notRet⟩
      intro a ha
      simp only [List.mem_append, List.mem_singleton] at ha
      rcases ha with ha | rfl
      · exact hs.noAcc a ha
      · intro heq
        exact hna c (by simp at heq; rw [heq])
  | closeCall c l b =>
    simp only [next] at h
    split at h
    · cases h
    · cases h
      exact stuck_frame hs rfl rfl (fun _ h => h) (Or.inr ⟨_, rfl⟩) (fun _ h => h)
  | disconnect =>
    simp only [next] at h
    split at h
    · cases h
    · cases h
      exact stuck_frame hs (by cases n <;> rfl) rfl (fun _ h => h) (Or.inl rfl) (fun _ h => h)
  | addRun c =>
    simp only [next] at h
    split at h
    · cases h
    · simp [hlk] at h
  | closeRun c =>
    simp only [next] at h
    split at h
    · cases h
    · split at h
      · cases h
      · simp [hlk] at h
  | closeAllRun =>
    simp [next, hlk] at h
  | hTake m =>
    simp only [next] at h
    split at h
    · cases h
    · cases h
    · rename_i g q hpc hq
      have hmn : n ≠ m := by
        intro heq; subst heq; rw [hs.parked] at hpc; cases hpc
      split at h
      · cases h
        refine stuck_frame hs ?_ ?_ ?_ ?_ ?_
        · unfold emitWire; split <;> simp [emit_h, setH_h_other _ _ _ _ hmn]
        · unfold emitWire; split <;> simp
        · unfold emitWire; split <;> simp
        · unfold emitWire; split <;> simp
        · intro b hb
          have := emitWire_log_close (e := .reject g.id 2) (by simp) hb
          simpa using this
      · simp [hlk] at h
  | hSend m =>
    simp only [next] at h
    split at h
    · cases h
    · rename_i g lid' hpc
      by_cases hmn : m = n
      · subst hmn
        rw [hs.parked] at hpc
        cases hpc
        obtain ⟨l, hl, hb, hc⟩ := hs.full
        simp [hl, hc, hb] at h
        cases hbuf : l.buf with
        | none => simp [hbuf] at hb
        | some x => simp [hbuf] at h
      · have hnm : n ≠ m := fun e => hmn e.symm
        split at h
        · cases h
        · rename_i l' hl'
          split at h
          · cases h
            refine stuck_frame hs ?_ ?_ ?_ ?_ ?_
            · simp [emit_h, setH_h_other _ _ _ _ hnm]
            · simp
            · simp
            · simp
            · intro b hb; simpa [emit] using hb
          · split at h
            · rename_i hclosed hnone
              cases h
              -- the other handler delivers into its own listener lid' ≠ lid (lid's buffer is full)
              obtain ⟨l, hl, hb, hc⟩ := hs.full
              have hne : lid' ≠ lid := by
                intro heq; subst heq; rw [hl] at hl'; cases hl'
                simp only [Option.isNone_iff_eq_none] at hnone
                simp [hnone] at hb
              unfold putChan
              simp only [setH_lsts, hl']
              simp only [Bool.not_eq_true] at hclosed
              simp only [hclosed, Bool.false_eq_true, ↓reduceIte]
              refine ⟨?_, ?_, ?_, ?_, ?_⟩
              · have : ∀ (t : State) (ls : List Lst), ({ t with lsts := ls }.h n) = t.h n := by
                  intro t ls; cases n <;> rfl
                rw [this, setH_h_other _ _ _ _ hnm]; exact hs.parked
              · refine ⟨l, ?_, hb, hc⟩
                simp only [setH_lsts]
                rw [getLst_updLst _ _ _ _ (by simp), hl]
                simp [getLst_id hl, Ne.symm hne]
              · simpa using hs.noAcc
              · simpa using hs.waiting
              · simpa using hs.notRet
            · cases h
  | accRun c =>
    simp only [next] at h
    split at h
    · cases h
    · rename_i c' lid' hfind
      have hmem : (c', lid') ∈ s.acceptors := List.mem_of_find?_eq_some hfind
      have hne : lid' ≠ lid := hs.noAcc _ hmem
      obtain ⟨l, hl, hb, hc⟩ := hs.full
      have keep : ∀ g : Lst → Lst, (∀ x, (g x).id = x.id) →
          ∃ l0, getLst (updLst s.lsts lid' g) lid = some l0 ∧ l0.buf.isSome = true ∧ l0.closed = false := by
        intro g hg
        refine ⟨l, ?_, hb, hc⟩
        rw [getLst_updLst _ _ _ _ hg, hl]
        simp [getLst_id hl, Ne.symm hne]
      split at h
      · cases h
      · split at h
        · split at h
          · cases h
            refine ⟨by cases n <;> exact hs.parked, keep _ (by simp), ?_, hs.waiting, ?_⟩
            · intro a ha
              simp only [emit, List.mem_filter] at ha
              exact hs.noAcc a ha.1
            · intro b hb'
              simp [emit] at hb'
              exact hs.notRet b hb'
          · cases h
            refine ⟨by cases n <;> exact hs.parked, keep _ (by simp), ?_, hs.waiting, ?_⟩
            · intro a ha
              simp only [emit, List.mem_filter] at ha
              exact hs.noAcc a ha.1
            · intro b hb'
              simp [emit] at hb'
              exact hs.notRet b hb'
        · split at h
          · cases h
            refine ⟨by cases n <;> exact hs.parked, ⟨l, hl, hb, hc⟩, ?_, hs.waiting, ?_⟩
            · intro a ha
              simp only [emit, List.mem_filter] at ha
              exact hs.noAcc a ha.1
            · intro b hb'
              simp [emit] at hb'
              exact hs.notRet b hb'
          · cases h


theorem stuck_run {n : Net} {f : Fwd} {lid call clid : Nat} {ok : Bool} {s s' : State} (acts : List Act)
    (hs : Stuck n f lid call clid ok s) (hna : ∀ a ∈ acts, ∀ c, a ≠ .acceptCall c lid)
    (h : runFrom next s acts = some s') : Stuck n f lid call clid ok s' := by
  induction acts generalizing s with
  | nil => simp [runFrom] at h; subst h; exact hs
  | cons a as ih =>
    simp only [runFrom] at h
    cases hst : next s a with
    | none => simp [hst] at h
    | some s1 =>
      simp [hst] at h
      exact ih (stuck_step a hs (hna a (by simp)) hst) (fun b hb => hna b (by simp [hb])) h

theorem witness_stuck (k : Key) : Stuck k.net (fw 2 k) 0 3 0 true (witnessState k) := by
  obtain ⟨n, h, p⟩ := k
  cases n <;>
  exact ⟨by simp [witnessState, State.h, State.setH, init], ⟨_, by simp [witnessState, getLst]; rfl, rfl, rfl⟩,
    by simp [witnessState, State.setH, init], by simp [witnessState], by simp [witnessState]⟩

/-- **F3, part 1**: a reachable state in which `Listener.Close` is pending and NO goroutine can move:
    Listen, two forwarded opens for the listener's address, no Accept, Close. -/
theorem close_can_deadlock (k : Key) :
    Reachable (witnessState k) ∧ quiescent (witnessState k) = true ∧
      (3, 0, true) ∈ (witnessState k).closers := by
  refine ⟨reachable_of_run_init (witness_run k), ?_, by simp [witnessState]⟩
  obtain ⟨n, h, p⟩ := k
  cases n <;>
  simp [quiescent, internalSucc, internalActs, witnessState, next, init, locked, State.h, State.setH, getLst, fw]

/-- **F3, part 2**: from that state Close stays blocked for ever — whatever the peer sends, whatever else the
    application calls (more Listen/Close calls, Accept on other listeners, even a disconnect) and however
    the goroutines are scheduled — unless the application Accepts on that very listener. -/
theorem close_blocked_forever (k : Key) (acts : List Act) (s' : State)
    (hno : ∀ a ∈ acts, ∀ c, a ≠ .acceptCall c 0)
    (hr : runFrom next (witnessState k) acts = some s') :
    (3, 0, true) ∈ s'.closers ∧ ∀ b, Ev.close 3 0 b ∉ s'.log :=
  let st := stuck_run acts (witness_stuck k) hno hr
  ⟨st.waiting, st.notRet⟩

def isInternal : Act → Bool
  | .addRun _ | .hTake _ | .hSend _ | .accRun _ | .closeRun _ | .closeAllRun => true
  | _ => false

/-- The liveness clause of C37 over the model ("closing a listener returns"): a pending Close can always be
    completed by the client's own goroutines. -/
def close_returns : Prop :=
  ∀ s, Reachable s → ∀ c ∈ s.closers, ∃ acts s', (∀ a ∈ acts, isInternal a = true) ∧
    runFrom next s acts = some s' ∧ c ∉ s'.closers

/-- …is false for the code as written. -/
theorem not_close_returns : ¬ close_returns := by
  intro h
  let k : Key := ⟨.tcp, "", 0⟩
  obtain ⟨acts, s', hint, hr, hc⟩ := h (witnessState k) (close_can_deadlock k).1 (3, 0, true)
    (close_can_deadlock k).2.2
  refine hc (close_blocked_forever k acts s' ?_ hr).1
  intro a ha c heq
  have := hint a ha
  rw [heq] at this
  simp [isInternal] at this


/-- mutual exclusion: at most one handler goroutine is inside `forwardList.forward` -/
def Excl (s : State) : Prop := ¬ (s.htcp.pc.isSome = true ∧ s.hunix.pc.isSome = true)

theorem pcs_of_setH_queue (s : State) (n : Net) (q : List Fwd) :
    (s.setH n { s.h n with queue := q }).htcp.pc = s.htcp.pc ∧
    (s.setH n { s.h n with queue := q }).hunix.pc = s.hunix.pc := by
  cases n <;> exact ⟨rfl, rfl⟩

theorem emitWire_pcs (s : State) (e : Ev) :
    (emitWire s e).htcp.pc = s.htcp.pc ∧ (emitWire s e).hunix.pc = s.hunix.pc := by
  unfold emitWire; split <;> exact ⟨rfl, rfl⟩

theorem putChan_pcs (s : State) (lid : Nat) (f : Fwd) :
    (putChan s lid f).htcp.pc = s.htcp.pc ∧ (putChan s lid f).hunix.pc = s.hunix.pc := by
  unfold putChan; split
  · exact ⟨rfl, rfl⟩
  · split <;> exact ⟨rfl, rfl⟩

theorem closeChan_pcs (s : State) (lid : Nat) :
    (closeChan s lid).htcp.pc = s.htcp.pc ∧ (closeChan s lid).hunix.pc = s.hunix.pc := by
  unfold closeChan; split
  · exact ⟨rfl, rfl⟩
  · split <;> exact ⟨rfl, rfl⟩

theorem closeAllChans_pcs (s : State) (es : List (Key × Nat)) :
    (closeAllChans s es).htcp.pc = s.htcp.pc ∧ (closeAllChans s es).hunix.pc = s.hunix.pc := by
  induction es generalizing s with
  | nil => exact ⟨rfl, rfl⟩
  | cons a t ih =>
    obtain ⟨k, lid⟩ := a
    simp only [closeAllChans]
    have := ih (closeChan s lid)
    have h2 := closeChan_pcs s lid
    exact ⟨this.1.trans h2.1, this.2.trans h2.2⟩

/-- unlocked: both pcs none -/
theorem unlocked_pcs {s : State} (h : locked s = false) : s.htcp.pc = none ∧ s.hunix.pc = none := by
  simp only [locked, Bool.or_eq_false_iff, Option.isSome_eq_false_iff, Option.isNone_iff_eq_none] at h
  exact h

theorem excl_of_same {s t : State} (he : Excl s) (h1 : t.htcp.pc = s.htcp.pc) (h2 : t.hunix.pc = s.hunix.pc) : Excl t := by
  unfold Excl; rw [h1, h2]; exact he

theorem excl_step {s s' : State} (a : Act) (he : Excl s) (h : next s a = some s') : Excl s' := by
  cases a with
  | listenCall c k d =>
    simp only [next] at h
    split at h
    · cases h; exact excl_of_same he rfl rfl
    · split at h <;> (cases h; exact excl_of_same he rfl rfl)
  | fwdSend f =>
    simp only [next] at h
    split at h
    · cases h
    · split at h
      · cases h; exact excl_of_same he (emitWire_pcs _ _).1 (emitWire_pcs _ _).2
      · cases h; exact excl_of_same he (pcs_of_setH_queue _ _ _).1 (pcs_of_setH_queue _ _ _).2
  | acceptCall c l =>
    simp only [next] at h
    split at h
    · cases h
    · cases h; exact excl_of_same he rfl rfl
  | closeCall c l b =>
    simp only [next] at h
    split at h
    · cases h
    · cases h; exact excl_of_same he rfl rfl
  | disconnect =>
    simp only [next] at h
    split at h
    · cases h
    · cases h; exact excl_of_same he rfl rfl
  | addRun c =>
    simp only [next] at h
    split at h
    · cases h
    · split at h
      · cases h
      · cases h; exact excl_of_same he rfl rfl
  | accRun c =>
    simp only [next] at h
    split at h
    · cases h
    · split at h
      · cases h
      · split at h
        · split at h <;> (cases h; exact excl_of_same he rfl rfl)
        · split at h
          · cases h; exact excl_of_same he rfl rfl
          · cases h
  | closeRun c =>
    simp only [next] at h
    split at h
    · cases h
    · split at h
      · cases h
      · split at h
        · cases h
        · cases h
          apply excl_of_same he
          · split
            · rfl
            · exact (closeChan_pcs _ _).1
          · split
            · rfl
            · exact (closeChan_pcs _ _).2
  | closeAllRun =>
    simp only [next] at h
    split at h
    · cases h
    · cases h
      exact excl_of_same he (closeAllChans_pcs _ _).1 (closeAllChans_pcs _ _).2
  | hSend n =>
    -- a handler leaves `forward`: its pc becomes none
    simp only [next] at h
    split at h
    · cases h
    · split at h
      · cases h
      · split at h
        · cases h
          intro ⟨h1, h2⟩
          cases n <;> simp [emit, State.setH] at h1 h2
        · split at h
          · cases h
            intro ⟨h1, h2⟩
            have hp := putChan_pcs (s.setH n { queue := (s.h n).queue, pc := none }) ‹_› ‹_›
            rw [hp.1] at h1; rw [hp.2] at h2
            cases n <;> simp [State.setH] at h1 h2
          · cases h
  | hTake n =>
    simp only [next] at h
    split at h
    · cases h
    · cases h
    · split at h
      · cases h
        exact excl_of_same he ((emitWire_pcs _ _).1.trans (pcs_of_setH_queue _ _ _).1)
          ((emitWire_pcs _ _).2.trans (pcs_of_setH_queue _ _ _).2)
      · split at h
        · cases h
        · rename_i hun
          simp only [Bool.not_eq_true] at hun
          obtain ⟨hp1, hp2⟩ := unlocked_pcs hun
          split at h
          · cases h
            exact excl_of_same he ((emitWire_pcs _ _).1.trans (pcs_of_setH_queue _ _ _).1)
              ((emitWire_pcs _ _).2.trans (pcs_of_setH_queue _ _ _).2)
          · split at h
            · cases h
            · split at h
              · cases h
                exact excl_of_same he ((putChan_pcs _ _ _).1.trans (pcs_of_setH_queue _ _ _).1)
                  ((putChan_pcs _ _ _).2.trans (pcs_of_setH_queue _ _ _).2)
              · cases h
                -- the mutex was free: after taking it exactly this handler is parked
                intro ⟨h1, h2⟩
                cases n <;> simp [State.setH, hp1, hp2] at h1 h2

/-- **mutex_exclusive**: in every reachable state at most one goroutine is inside forwardList.forward -/
theorem mutex_exclusive {s : State} (h : Reachable s) : Excl s :=
  invariant_of_step Excl (by simp [Excl, init]) (fun _ a _ he hs => excl_step a he hs) s h



/-- listener `lid`'s Go channel is closed and drained -/
def ClosedEmpty (ls : List Lst) (lid : Nat) : Prop :=
  ∃ l, getLst ls lid = some l ∧ l.closed = true ∧ l.buf = none

theorem ce_updLst {ls : List Lst} {lid lid' : Nat} {g : Lst → Lst} (hid : ∀ l, (g l).id = l.id)
    (hg : lid' = lid → ∀ l, l.closed = true → l.buf = none → (g l).closed = true ∧ (g l).buf = none)
    (h : ClosedEmpty ls lid) : ClosedEmpty (updLst ls lid' g) lid := by
  obtain ⟨l, hl, hc, hb⟩ := h
  rw [ClosedEmpty, getLst_updLst _ _ _ _ hid, hl]
  simp only [Option.map_some, Option.some.injEq, exists_eq_left']
  by_cases heq : l.id = lid'
  · simp only [heq, if_true]
    exact hg (by rw [← heq]; exact getLst_id hl) l hc hb
  · simp only [heq, if_false]; exact ⟨hc, hb⟩

theorem ce_putChan {s : State} {lid lid' : Nat} {f : Fwd} (hne : ∀ l, getLst s.lsts lid' = some l → l.closed = false)
    (h : ClosedEmpty s.lsts lid) : ClosedEmpty (putChan s lid' f).lsts lid := by
  unfold putChan
  split
  · exact h
  · rename_i l' hl'
    have hopen := hne l' hl'
    simp only [hopen, Bool.false_eq_true, if_false]
    apply ce_updLst (by simp) _ h
    intro heq
    subst heq
    obtain ⟨l, hl, hc, _⟩ := h
    rw [hl] at hl'; cases hl'
    rw [hc] at hopen; cases hopen

theorem ce_closeChan {s : State} {lid lid' : Nat} (h : ClosedEmpty s.lsts lid) :
    ClosedEmpty (closeChan s lid').lsts lid := by
  unfold closeChan
  split
  · exact h
  · split
    · exact h
    · exact ce_updLst (by simp) (by intro _ l _ hb; exact ⟨rfl, hb⟩) h

theorem ce_closeAllChans {s : State} {lid : Nat} (es : List (Key × Nat)) (h : ClosedEmpty s.lsts lid) :
    ClosedEmpty (closeAllChans s es).lsts lid := by
  induction es generalizing s with
  | nil => exact h
  | cons a t ih =>
    obtain ⟨k, lid'⟩ := a
    simp only [closeAllChans]
    exact ih (ce_closeChan h)

theorem emitWire_lsts (s : State) (e : Ev) : (emitWire s e).lsts = s.lsts := by
  unfold emitWire; split <;> rfl

/-- **closed_stays_closed_empty**: once a listener's channel is closed and drained it stays so, whatever happens
    next — no later forward can be delivered to it (its entry is gone), so every later Accept returns an error
    (`accept_after_close_errors`). -/
theorem closed_stays_closed_empty {s s' : State} (a : Act) (hi : Inv s) (lid : Nat)
    (h : ClosedEmpty s.lsts lid) (hs : next s a = some s') : ClosedEmpty s'.lsts lid := by
  cases a with
  | listenCall c k d =>
    simp only [next] at hs
    split at hs
    · cases hs; exact h
    · split at hs <;> (cases hs; exact h)
  | fwdSend f =>
    simp only [next] at hs
    split at hs
    · cases hs
    · split at hs
      · cases hs; rw [emitWire_lsts]; exact h
      · cases hs; rw [setH_lsts]; exact h
  | acceptCall c l =>
    simp only [next] at hs
    split at hs
    · cases hs
    · cases hs; exact h
  | closeCall c l b =>
    simp only [next] at hs
    split at hs
    · cases hs
    · cases hs; exact h
  | disconnect =>
    simp only [next] at hs
    split at hs
    · cases hs
    · cases hs; exact h
  | addRun c =>
    simp only [next] at hs
    split at hs
    · cases hs
    · split at hs
      · cases hs
      · cases hs
        obtain ⟨l, hl, hc, hb⟩ := h
        exact ⟨l, by simp only [emit]; exact getLst_append_of_some hl, hc, hb⟩
  | hTake n =>
    simp only [next] at hs
    split at hs
    · cases hs
    · cases hs
    · split at hs
      · cases hs; rw [emitWire_lsts, setH_lsts]; exact h
      · split at hs
        · cases hs
        · split at hs
          · cases hs; rw [emitWire_lsts, setH_lsts]; exact h
          · rename_i lid' hfind
            split at hs
            · cases hs
            · split at hs
              · cases hs
                apply ce_putChan _ (by rw [setH_lsts]; exact h)
                intro l' hl'
                rw [setH_lsts] at hl'
                obtain ⟨l0, hl0, _, hc0⟩ := hi.entries_open _ _ (findEntry_mem hfind)
                rw [hl0] at hl'; cases hl'; exact hc0
              · cases hs; rw [setH_lsts]; exact h
  | hSend n =>
    simp only [next] at hs
    split at hs
    · cases hs
    · rename_i f lid' hpc
      obtain ⟨l0, hl0, _, hc0⟩ := hi.entries_open _ _ (hi.pc_entry n f lid' hpc)
      simp only [hl0, hc0, Bool.false_eq_true, ↓reduceIte] at hs
      split at hs
      · cases hs
        apply ce_putChan _ (by rw [setH_lsts]; exact h)
        intro l' hl'
        rw [setH_lsts] at hl'
        rw [hl0] at hl'; cases hl'; exact hc0
      · cases hs
  | accRun c =>
    simp only [next] at hs
    split at hs
    · cases hs
    · split at hs
      · cases hs
      · split at hs
        · split at hs
          · cases hs
            exact ce_updLst (by simp) (by intro _ l hc _; exact ⟨hc, rfl⟩) h
          · cases hs
            exact ce_updLst (by simp) (by intro _ l hc _; exact ⟨hc, rfl⟩) h
        · split at hs
          · cases hs; exact h
          · cases hs
  | closeRun c =>
    simp only [next] at hs
    split at hs
    · cases hs
    · split at hs
      · cases hs
      · split at hs
        · cases hs
        · cases hs
          simp only [emit]
          split
          · exact h
          · exact ce_closeChan (s := { s with closers := _, entries := _ }) h
  | closeAllRun =>
    simp only [next] at hs
    split at hs
    · cases hs
    · cases hs
      exact ce_closeAllChans s.entries h

/-- …hence along any continuation of a reachable state -/
theorem closed_stays_closed_empty_run {s s' : State} (hr : Reachable s) (lid : Nat) (acts : List Act)
    (h : ClosedEmpty s.lsts lid) (hs : runFrom next s acts = some s') : ClosedEmpty s'.lsts lid := by
  induction acts generalizing s with
  | nil => simp [runFrom] at hs; subst hs; exact h
  | cons a as ih =>
    simp only [runFrom] at hs
    cases hst : next s a with
    | none => simp [hst] at hs
    | some s1 =>
      simp [hst] at hs
      exact ih (ReachableBy.step a hr hst) (closed_stays_closed_empty a (inv_reachable hr) lid h hst) hs



/-! # The repaired step relation `nextFixed` (XC.Model.C37_Fixed): what a repair must achieve -/

/-! ## safety of the repaired relation -/

theorem no_panic_fixed {s : State} (h : ReachableF s) : Ev.panic ∉ s.log := by
  intro hm
  exact ((invF_reachable h).log_ok _ hm).1 rfl

theorem delivered_only_exact_match_fixed {s : State} (h : ReachableF s) (c lid : Nat) (f : Fwd)
    (hm : Ev.accept c lid (some f) ∈ s.log) : ∃ l, getLst s.lsts lid = some l ∧ l.key = f.key :=
  ((invF_reachable h).log_ok _ hm).2 c lid f rfl

/-- nothing is ever left sitting in a listener that has been closed: it was rejected by the drain -/
theorem no_stranded_forward_fixed {s : State} (h : ReachableF s) (lid : Nat) (l : Lst)
    (hl : getLst s.lsts lid = some l) (hc : l.closed = true) : l.buf = none :=
  (invF_reachable h).closed_empty lid l hl hc

/-- no matching entry ⇒ Prohibited, nothing delivered (same as the code as written) -/
theorem unmatched_rejected_fixed (s : State) (n : Net) (f : Fwd) (q : List Fwd)
    (hq : (s.h n).queue = f :: q) (hpc : (s.h n).pc = none) (hparse : f.parses = true)
    (hno : ∀ lid, (f.key, lid) ∉ s.entries) (halive : s.alive = true) :
    ∃ s', nextFixed s (.hTake n) = some s' ∧ s'.log = .reject f.id 1 :: s.log ∧ s'.lsts = s.lsts := by
  have hfind : findEntry s.entries f.key = none := by
    cases hf : findEntry s.entries f.key with
    | none => rfl
    | some lid => exact absurd (findEntry_mem hf) (hno lid)
  refine ⟨emitWire (s.setH n { s.h n with queue := q }) (.reject f.id 1), ?_, ?_, ?_⟩
  · simp [nextFixed, hq, hpc, hparse, hfind]
  · simp [emitWire, halive, emit]
  · simp [emitWire, halive, emit]

/-! ## liveness: Close returns -/

/-- In the repaired relation the step of a pending Close is enabled in EVERY state in which its listener
    exists: there is no state in which a handler (or anybody) keeps the forward-list mutex across steps. -/
theorem close_step_enabled_fixed (s : State) (call lid : Nat) (ok : Bool) (l : Lst)
    (hcl : s.closers.find? (·.1 = call) = some (call, lid, ok)) (hl : getLst s.lsts lid = some l) :
    (nextFixed s (.closeRun call)).isSome = true := by
  simp [nextFixed, hcl, hl]

/-- the liveness clause of C37 ("closing a listener returns"), for a step relation -/
def CloseReturns (step : State → Act → Option State) : Prop :=
  ∀ s, ReachableBy step init s → ∀ c ∈ s.closers, ∃ acts s', (∀ a ∈ acts, isInternal a = true) ∧
    runFrom step s acts = some s' ∧ c ∉ s'.closers

/-- **close_returns_fixed**: from every reachable state with a Close pending, that Close completes by the
    client's own goroutines — in fact by its own single step, with no help from the application. -/
theorem close_returns_fixed : CloseReturns nextFixed := by
  intro s hr c hc
  obtain ⟨call, lid, ok⟩ := c
  have hi := invF_reachable hr
  -- the first pending closer with this call id
  cases hf : s.closers.find? (·.1 = call) with
  | none =>
    have := List.find?_eq_none.mp hf (call, lid, ok) hc
    simp at this
  | some x =>
    obtain ⟨c1, lid1, ok1⟩ := x
    have hx : (c1, lid1, ok1) ∈ s.closers := List.mem_of_find?_eq_some hf
    have hc1 : c1 = call := by
      have := List.find?_some hf
      simpa using this
    subst hc1
    have hsome := hi.closers_lst _ hx
    cases hl : getLst s.lsts lid1 with
    | none => simp [hl] at hsome
    | some l =>
      have hen : ∃ s', nextFixed s (.closeRun c1) = some s' ∧ s'.closers = s.closers.filter (·.1 ≠ c1) := by
        simp only [nextFixed, hf, hl]
        refine ⟨_, rfl, ?_⟩
        simp only [emit]
        split
        · rfl
        · unfold retire
          simp only
          split
          · rfl
          · split
            · rfl
            · split
              · rfl
              · unfold emitWire; simp only; split <;> rfl
      obtain ⟨s', hs', hcl'⟩ := hen
      refine ⟨[.closeRun c1], s', by simp [isInternal], by simp [runFrom, hs'], ?_⟩
      rw [hcl']
      simp

/-! ## Accept after Close -/

/-- **accept_after_close_errors_fixed**: Accept on a listener whose `done` is closed returns an error — whatever
    was or was not buffered (`done` is checked first; compare accept_after_close_may_succeed for the code as written). -/
theorem accept_after_close_errors_fixed (s : State) (call lid : Nat) (l : Lst)
    (hacc : s.acceptors.find? (·.1 = call) = some (call, lid))
    (hl : getLst s.lsts lid = some l) (hclosed : l.closed = true) :
    ∃ s', nextFixed s (.accRun call) = some s' ∧ s'.log = .accept call lid none :: s.log := by
  refine ⟨emit { s with acceptors := s.acceptors.filter (·.1 ≠ call) } (.accept call lid none), ?_, ?_⟩
  · simp [nextFixed, hacc, hl, hclosed]
  · simp [emit]

/-- Close retires the listener it was called on (registered, unique address): `done` closed, buffer drained and
    the drained forward answered with Prohibited. -/
theorem close_closes_own_channel_fixed {s s' : State} (call lid : Nat) (ok : Bool) (l : Lst)
    (hcl : s.closers.find? (·.1 = call) = some (call, lid, ok)) (hl : getLst s.lsts lid = some l)
    (hopen : l.closed = false) (hfirst : findEntry s.entries l.key = some lid)
    (hs : nextFixed s (.closeRun call) = some s') :
    ∃ l', getLst s'.lsts lid = some l' ∧ l'.closed = true ∧ l'.buf = none := by
  simp only [nextFixed, hcl, hl] at hs
  cases hs
  simp only [hfirst, retire, hl, hopen, emit, Bool.false_eq_true, ↓reduceIte]
  have key : ∀ t : State, t.lsts = updLst s.lsts lid (fun l => { l with closed := true, buf := none }) →
      ∃ l', getLst t.lsts lid = some l' ∧ l'.closed = true ∧ l'.buf = none := by
    intro t ht
    rw [ht, getLst_updLst _ _ _ _ (by simp), hl]
    simp [getLst_id hl]
  split
  · exact key _ rfl
  · apply key
    unfold emitWire; simp only; split <;> rfl

def ClosedL (ls : List Lst) (lid : Nat) : Prop := ∃ l, getLst ls lid = some l ∧ l.closed = true

theorem closedL_updLst {ls : List Lst} {lid lid' : Nat} {g : Lst → Lst} (hid : ∀ l, (g l).id = l.id)
    (hg : ∀ l, l.closed = true → (g l).closed = true) (h : ClosedL ls lid) : ClosedL (updLst ls lid' g) lid := by
  obtain ⟨l, hl, hc⟩ := h
  rw [ClosedL, getLst_updLst _ _ _ _ hid, hl]
  simp only [Option.map_some, Option.some.injEq, exists_eq_left']
  split
  · exact hg l hc
  · exact hc

theorem closedL_retire {s : State} {lid lid' : Nat} (h : ClosedL s.lsts lid) : ClosedL (retire s lid').lsts lid := by
  unfold retire
  split
  · exact h
  · split
    · exact h
    · have : ClosedL (updLst s.lsts lid' (fun l => { l with closed := true, buf := none })) lid :=
        closedL_updLst (by simp) (by simp) h
      split
      · exact this
      · unfold emitWire; simp only; split <;> exact this

theorem closedL_retireAll {s : State} {lid : Nat} (es : List (Key × Nat)) (h : ClosedL s.lsts lid) :
    ClosedL (retireAll s es).lsts lid := by
  induction es generalizing s with
  | nil => exact h
  | cons a t ih =>
    obtain ⟨k, lid'⟩ := a
    simp only [retireAll]
    exact ih (closedL_retire h)

/-- a retired listener stays retired: `done` is never re-opened -/
theorem closed_stays_closed_fixed {s s' : State} (a : Act) (lid : Nat)
    (h : ClosedL s.lsts lid) (hs : nextFixed s a = some s') : ClosedL s'.lsts lid := by
  cases a with
  | listenCall c k d =>
    simp only [nextFixed] at hs
    split at hs
    · cases hs; exact h
    · split at hs <;> (cases hs; exact h)
  | fwdSend f =>
    simp only [nextFixed] at hs
    split at hs
    · cases hs
    · split at hs
      · cases hs; rw [emitWire_lsts]; exact h
      · cases hs; rw [setH_lsts]; exact h
  | acceptCall c l =>
    simp only [nextFixed] at hs
    split at hs
    · cases hs
    · cases hs; exact h
  | closeCall c l b =>
    simp only [nextFixed] at hs
    split at hs
    · cases hs
    · cases hs; exact h
  | disconnect =>
    simp only [nextFixed] at hs
    split at hs
    · cases hs
    · cases hs; exact h
  | addRun c =>
    simp only [nextFixed] at hs
    split at hs
    · cases hs
    · split at hs
      · cases hs
      · cases hs
        obtain ⟨l, hl, hc⟩ := h
        exact ⟨l, by simp only [emit]; exact getLst_append_of_some hl, hc⟩
  | hTake n =>
    simp only [nextFixed] at hs
    split at hs
    · cases hs
    · cases hs
    · split at hs
      · cases hs; rw [emitWire_lsts, setH_lsts]; exact h
      · split at hs
        · cases hs; rw [emitWire_lsts, setH_lsts]; exact h
        · cases hs; rw [setH_lsts]; exact h
  | hSend n =>
    simp only [nextFixed] at hs
    split at hs
    · cases hs
    · split at hs
      · cases hs
      · split at hs
        · cases hs; rw [emitWire_lsts, setH_lsts]; exact h
        · split at hs
          · cases hs
            exact closedL_updLst (by simp) (by simp) h
          · cases hs
  | accRun c =>
    simp only [nextFixed] at hs
    split at hs
    · cases hs
    · split at hs
      · cases hs
      · split at hs
        · cases hs; exact h
        · split at hs
          · split at hs
            · cases hs; exact closedL_updLst (by simp) (by simp) h
            · cases hs; exact closedL_updLst (by simp) (by simp) h
          · cases hs
  | closeRun c =>
    simp only [nextFixed] at hs
    split at hs
    · cases hs
    · split at hs
      · cases hs
      · cases hs
        simp only [emit]
        split
        · exact h
        · exact closedL_retire (s := { s with closers := _, entries := _ }) h
  | closeAllRun =>
    simp only [nextFixed] at hs
    split at hs
    · cases hs
    · cases hs
      exact closedL_retireAll s.entries h

/-- …so once Close has retired a listener, every Accept issued at any later time returns an error -/
theorem accept_after_close_errors_fixed_run {s s' : State} (lid : Nat) (acts : List Act)
    (h : ClosedL s.lsts lid) (hs : runFrom nextFixed s acts = some s') (call : Nat)
    (hacc : s'.acceptors.find? (·.1 = call) = some (call, lid)) :
    ∃ s'', nextFixed s' (.accRun call) = some s'' ∧ s''.log = .accept call lid none :: s'.log := by
  have hcl : ClosedL s'.lsts lid := by
    induction acts generalizing s with
    | nil => simp [runFrom] at hs; subst hs; exact h
    | cons a as ih =>
      simp only [runFrom] at hs
      cases hst : nextFixed s a with
      | none => simp [hst] at hs
      | some s1 =>
        simp [hst] at hs
        exact ih (closed_stays_closed_fixed a lid h hst) hs
  obtain ⟨l, hl, hc⟩ := hcl
  exact accept_after_close_errors_fixed s' call lid l hacc hl hc


macro "runF_simp" : tactic => `(tactic|
  simp [runF, runFrom, nextFixed, init, emit, emitWire, State.h, State.setH, findEntry, removeFirst, getLst,
    retire, retireAll, updLst, fw])

/-- the F3 schedule on the repaired relation: Listen, two opens, no Accept, Close — Close returns, the buffered
    forward and the one held by the handler are both answered with Prohibited, nothing is stranded -/
theorem witness_schedule_completes_fixed (k : Key) :
    ∃ s, ReachableF s ∧ s.closers = [] ∧
      s.log = [.reject 2 1, .close 3 0 true, .reject 1 1, .listen 0 0] := by
  have h : ∃ s, runF [.listenCall 0 k false, .addRun 0, .fwdSend (fw 1 k), .hTake k.net, .hSend k.net,
      .fwdSend (fw 2 k), .hTake k.net, .closeCall 3 0 true, .closeRun 3, .hSend k.net] = some s ∧
      s.closers = [] ∧ s.log = [.reject 2 1, .close 3 0 true, .reject 1 1, .listen 0 0] := by
    obtain ⟨n, h, p⟩ := k
    cases n <;> runF_simp
  obtain ⟨s, hr, h1, h2⟩ := h
  exact ⟨s, reachable_of_run .init _ hr, h1, h2⟩

/-- the second finding's schedule on the repaired relation: Listen, one open, Close, Accept — Accept errors and
    the buffered forward was rejected by Close's drain -/
theorem accept_after_close_schedule_fixed (k : Key) :
    ∃ s, ReachableF s ∧
      s.log = [.accept 4 0 none, .close 3 0 true, .reject 1 1, .listen 0 0] := by
  have h : ∃ s, runF [.listenCall 0 k false, .addRun 0, .fwdSend (fw 1 k), .hTake k.net, .hSend k.net,
      .closeCall 3 0 true, .closeRun 3, .acceptCall 4 0, .accRun 4] = some s ∧
      s.log = [.accept 4 0 none, .close 3 0 true, .reject 1 1, .listen 0 0] := by
    obtain ⟨n, h, p⟩ := k
    cases n <;> runF_simp
  obtain ⟨s, hr, h2⟩ := h
  exact ⟨s, reachable_of_run .init _ hr, h2⟩


/-- the same liveness predicate separates the two relations: false as written, true repaired -/
theorem closeReturns_separates : ¬ CloseReturns next ∧ CloseReturns nextFixed :=
  ⟨not_close_returns, close_returns_fixed⟩


/-! ## further non-vacuity examples -/


def kEx : Key := ⟨.tcp, "127.0.0.1", 80⟩

/-- non-vacuity of `unmatched_rejected`: handlers started, one well-formed open queued, nothing registered -/
example : ∃ s', next { init with started := true, htcp := ⟨[fw 1 kEx], none⟩ } (.hTake .tcp) = some s' ∧
    s'.log = [.reject 1 1] := by
  obtain ⟨s', h1, h2, _, _⟩ := unmatched_rejected { init with started := true, htcp := ⟨[fw 1 kEx], none⟩ } .tcp
    (fw 1 kEx) [] rfl rfl rfl rfl (by simp [init]) rfl
  exact ⟨s', h1, by rw [h2]; rfl⟩

/-- non-vacuity of `parked_needs_two_unaccepted` and `close_enabled_iff_unlocked`: the F3 witness state satisfies their
    hypotheses (a parked handler whose send cannot complete; a pending Close whose step is disabled) -/
example : ((witnessState kEx).h .tcp).pc = some (fw 2 kEx, 0) ∧ next (witnessState kEx) (.hSend .tcp) = none ∧
    (next (witnessState kEx) (.closeRun 3)).isSome = false ∧ locked (witnessState kEx) = true := by
  simp [witnessState, kEx, State.h, State.setH, init, next, getLst, fw, locked]

/-- non-vacuity of `accept_after_close_errors` / `closed_stays_closed_empty`: Listen, Close, then Accept -/
example : ∃ s, Reachable s ∧ ClosedEmpty s.lsts 0 ∧ s.acceptors.find? (·.1 = 4) = some (4, 0) ∧
    ∃ s', next s (.accRun 4) = some s' ∧ s'.log = .accept 4 0 none :: s.log := by
  have h : ∃ s, run [.listenCall 0 kEx false, .addRun 0, .closeCall 2 0 true, .closeRun 2, .acceptCall 4 0] = some s ∧
      ClosedEmpty s.lsts 0 ∧ s.acceptors.find? (·.1 = 4) = some (4, 0) := by
    simp [ClosedEmpty, kEx]; run_simp
  obtain ⟨s, hr, hce, hacc⟩ := h
  obtain ⟨l, hl, hc, hb⟩ := hce
  exact ⟨s, reachable_of_run_init hr, ⟨l, hl, hc, hb⟩, hacc, accept_after_close_errors s 4 0 l hacc hl hc hb⟩


end XC.C37
