/-
  C29 — property theorems over XC.Model.C29.
-/
import XC.Model.C29
import XC.Proofs.C29
namespace XC.C29
open XC
set_option linter.unusedSimpArgs false

/-! ## chooseDH over all 2^96 requests -/

theorem ofNat_lt_iff (s : Nat) (hs : s < 2 ^ 32) (w : UInt32) : (UInt32.ofNat s < w) ↔ s < w.toNat := by
  rw [UInt32.lt_iff_toNat_lt, UInt32.toNat_ofNat']
  have : s % 2 ^ 32 = s := Nat.mod_eq_of_lt hs
  simp only [this]

theorem gt_ofNat_iff (s : Nat) (hs : s < 2 ^ 32) (w : UInt32) : (UInt32.ofNat s > w) ↔ w.toNat < s := by
  show w < UInt32.ofNat s ↔ _
  rw [UInt32.lt_iff_toNat_lt, UInt32.toNat_ofNat']
  have : s % 2 ^ 32 = s := Nat.mod_eq_of_lt hs
  simp only [this]

/-- the loop of `chooseDH` on Nat-valued bounds -/
def chooseNat (mn pf mx : Nat) : Option Nat :=
  let step := fun (best size : Nat) =>
    if size < mn ∨ mx < size then best
    else if best = 0 then size
    else if (pf ≤ size ∧ size < best) ∨ (best < size ∧ best < pf) then size else best
  let best := [2048, 3072, 4096].foldl step 0
  if best = 0 then none else some best

theorem chooseDH_eq_chooseNat (min pref max : UInt32) :
    chooseDH min pref max = chooseNat min.toNat pref.toNat max.toNat := by
  have key : ∀ best size, size < 2 ^ 32 →
      chooseStep min pref max best size =
        (if size < min.toNat ∨ max.toNat < size then best
         else if best = 0 then size
         else if (pref.toNat ≤ size ∧ size < best) ∨ (best < size ∧ best < pref.toNat) then size else best) := by
    intro best size hs
    unfold chooseStep
    have h1 := ofNat_lt_iff size hs min
    have h2 := gt_ofNat_iff size hs max
    by_cases a : size < min.toNat <;> by_cases b : max.toNat < size <;>
      simp [h1, h2, a, b, ge_iff_le]
  unfold chooseDH chooseNat supportedSizes
  simp only [List.foldl]
  simp only [key _ 2048 (by decide), key _ 3072 (by decide), key _ 4096 (by decide)]
  simp

/-- **chooseDH_spec**: for every request, the result is the smallest supported size within [min, max]
    that is ≥ preferred, else the largest supported size within [min, max], else the error. -/
theorem chooseDH_spec (min pref max : UInt32) :
    let ok := [2048, 3072, 4096].filter (fun g => decide (min.toNat ≤ g ∧ g ≤ max.toNat))
    chooseDH min pref max =
      match ok.filter (fun g => decide (pref.toNat ≤ g)) with
      | g :: _ => some g
      | []     => ok.getLast? := by
  rw [chooseDH_eq_chooseNat]
  generalize min.toNat = a
  generalize pref.toNat = b
  generalize max.toNat = c
  unfold chooseNat
  simp only [List.foldl, List.filter]
  have ea1 : (a ≤ 2048) = ¬ (2048 < a) := by simp
  have ea2 : (a ≤ 3072) = ¬ (3072 < a) := by simp
  have ea3 : (a ≤ 4096) = ¬ (4096 < a) := by simp
  have ec1 : (2048 ≤ c) = ¬ (c < 2048) := by simp
  have ec2 : (3072 ≤ c) = ¬ (c < 3072) := by simp
  have ec3 : (4096 ≤ c) = ¬ (c < 4096) := by simp
  have eb1 : (b ≤ 2048) = ¬ (2048 < b) := by simp
  have eb2 : (b ≤ 3072) = ¬ (3072 < b) := by simp
  have eb3 : (b ≤ 4096) = ¬ (4096 < b) := by simp
  by_cases h1 : 2048 < a <;> by_cases h2 : c < 2048 <;> by_cases h3 : 3072 < a <;> by_cases h4 : c < 3072 <;>
    by_cases h5 : 4096 < a <;> by_cases h6 : c < 4096 <;>
    by_cases h7 : 2048 < b <;> by_cases h8 : 3072 < b <;> by_cases h9 : 4096 < b <;>
    first
    | omega
    | simp [-Nat.not_lt, ea1, ea2, ea3, ec1, ec2, ec3, eb1, eb2, eb3, h1, h2, h3, h4, h5, h6, h7, h8, h9, List.filter, List.getLast?]

/-- whatever is chosen lies within the requested bounds and is a supported group -/
theorem chooseDH_in_bounds (min pref max : UInt32) (g : Nat) (h : chooseDH min pref max = some g) :
    min.toNat ≤ g ∧ g ≤ max.toNat ∧ g ∈ [2048, 3072, 4096] := by
  rw [chooseDH_eq_chooseNat] at h
  revert h
  generalize min.toNat = a
  generalize pref.toNat = b
  generalize max.toNat = c
  unfold chooseNat
  simp only [List.foldl]
  intro h
  have ea1 : (a ≤ 2048) = ¬ (2048 < a) := by simp
  have ea2 : (a ≤ 3072) = ¬ (3072 < a) := by simp
  have ea3 : (a ≤ 4096) = ¬ (4096 < a) := by simp
  have ec1 : (2048 ≤ c) = ¬ (c < 2048) := by simp
  have ec2 : (3072 ≤ c) = ¬ (c < 3072) := by simp
  have ec3 : (4096 ≤ c) = ¬ (c < 4096) := by simp
  have eb1 : (b ≤ 2048) = ¬ (2048 < b) := by simp
  have eb2 : (b ≤ 3072) = ¬ (3072 < b) := by simp
  have eb3 : (b ≤ 4096) = ¬ (4096 < b) := by simp
  by_cases h1 : 2048 < a <;> by_cases h2 : c < 2048 <;> by_cases h3 : 3072 < a <;> by_cases h4 : c < 3072 <;>
    by_cases h5 : 4096 < a <;> by_cases h6 : c < 4096 <;>
    by_cases h7 : 2048 < b <;> by_cases h8 : 3072 < b <;> by_cases h9 : 4096 < b <;>
    first
    | omega
    | (simp [-Nat.not_lt, ea1, ea2, ea3, ec1, ec2, ec3, eb1, eb2, eb3, h1, h2, h3, h4, h5, h6, h7, h8, h9] at h <;> first | omega | (subst h; simp [-Nat.not_lt, ea1, ea2, ea3, ec1, ec2, ec3, eb1, eb2, eb3, h1, h2, h3, h4, h5, h6, h7, h8, h9]))

/-- the error is returned exactly when no supported size lies within [min, max] -/
theorem chooseDH_none_iff (min pref max : UInt32) :
    chooseDH min pref max = none ↔ ∀ g ∈ [2048, 3072, 4096], ¬ (min.toNat ≤ g ∧ g ≤ max.toNat) := by
  rw [chooseDH_eq_chooseNat]
  generalize min.toNat = a
  generalize pref.toNat = b
  generalize max.toNat = c
  unfold chooseNat
  simp only [List.foldl]
  have ea1 : (a ≤ 2048) = ¬ (2048 < a) := by simp
  have ea2 : (a ≤ 3072) = ¬ (3072 < a) := by simp
  have ea3 : (a ≤ 4096) = ¬ (4096 < a) := by simp
  have ec1 : (2048 ≤ c) = ¬ (c < 2048) := by simp
  have ec2 : (3072 ≤ c) = ¬ (c < 3072) := by simp
  have ec3 : (4096 ≤ c) = ¬ (c < 4096) := by simp
  have eb1 : (b ≤ 2048) = ¬ (2048 < b) := by simp
  have eb2 : (b ≤ 3072) = ¬ (3072 < b) := by simp
  have eb3 : (b ≤ 4096) = ¬ (4096 < b) := by simp
  by_cases h1 : 2048 < a <;> by_cases h2 : c < 2048 <;> by_cases h3 : 3072 < a <;> by_cases h4 : c < 3072 <;>
    by_cases h5 : 4096 < a <;> by_cases h6 : c < 4096 <;>
    by_cases h7 : 2048 < b <;> by_cases h8 : 3072 < b <;> by_cases h9 : 4096 < b <;>
    first
    | omega
    | simp [-Nat.not_lt, ea1, ea2, ea3, ec1, ec2, ec3, eb1, eb2, eb3, h1, h2, h3, h4, h5, h6, h7, h8, h9]

/-- non-vacuity / the OpenSSH examples: the client default (2048, 2048, 8192) gets group 14;
    a preferred size above everything gets the largest group; an empty window is an error -/
example : chooseDH 2048 2048 8192 = some 2048 := by decide
example : chooseDH 1024 8192 8192 = some 4096 := by decide
example : chooseDH 2048 3000 8192 = some 3072 := by decide
example : chooseDH 2049 3000 3071 = none := by decide

/-! ## DH bounds -/

/-- **dh_range**: a peer value passes `diffieHellman`'s check iff 1 < y < p − 1 -/
theorem dh_range (p : Nat) (y : Int) : dhInRange p y = true ↔ (1 < y ∧ y < (p : Int) - 1) := by
  simp [dhInRange]

theorem dh_rejects_boundary (p : Nat) :
    dhInRange p 0 = false ∧ dhInRange p 1 = false ∧ dhInRange p ((p : Int) - 1) = false ∧
    dhInRange p p = false ∧ dhInRange p ((p : Int) + 1) = false ∧ dhInRange p (-1) = false := by
  simp [dhInRange]
  omega

example : dhInRange 23 2 = true ∧ dhInRange 23 21 = true := by decide

/-! ## the pre-image binds every component (unique parseability) -/

/-- **preimage_injective**: two pre-images of the same shape (same sequence of field kinds — fixed by the
    negotiated method) that are equal as byte strings have equal components: V_C, V_S, I_C, I_S, K_S,
    the method-specific values and K are all bound by H's input. -/
theorem preimage_injective (fs gs : List Field)
    (hk : fs.map Field.kind = gs.map Field.kind)
    (hf : ∀ f ∈ fs, f.WF) (hg : ∀ g ∈ gs, g.WF)
    (h : encFields fs = encFields gs) : fs = gs := by
  have a := decFields_enc fs hf []
  have b := decFields_enc gs hg []
  rw [List.append_nil] at a b
  rw [hk, h, b] at a
  simpa using a.symm

/-- the same with trailing data: the encoding is prefix-free for a fixed shape -/
theorem preimage_prefix_free (fs gs : List Field) (r s : Bytes)
    (hk : fs.map Field.kind = gs.map Field.kind)
    (hf : ∀ f ∈ fs, f.WF) (hg : ∀ g ∈ gs, g.WF)
    (h : encFields fs ++ r = encFields gs ++ s) : fs = gs ∧ r = s := by
  have a := decFields_enc fs hf r
  have b := decFields_enc gs hg s
  rw [hk, h, b] at a
  simpa using a.symm

example : encFields [.str [1], .mpint 128, .u32 7] = [0,0,0,1,1, 0,0,0,2,0,128, 0,0,0,7] := by decide

/-! ## mpint is the RFC 4251 encoding of the value (canonical re-marshal of whatever was on the wire) -/

theorem mpint_roundtrip (n : Nat) : parseMpintBody (mpintBody n) = (n : Int) := parseMpintBody_mpintBody n

theorem mpint_injective (a b : Nat) (h : mpintBody a = mpintBody b) : a = b := by
  have := congrArg natOfBE h
  rwa [natOfBE_mpintBody, natOfBE_mpintBody] at this

/-- non-minimal encodings (extra leading zero bytes) parse to the same value, so both sides hash the same mpint -/
theorem parseMpintBody_leading_zero (c : Bytes) :
    parseMpintBody (0 :: c) = (natOfBE c : Int) := by
  simp only [parseMpintBody]
  have : ¬ ((0 : UInt8) &&& 0x80 != 0) = true := by decide
  rw [if_neg this, natOfBE_cons_zero]

/-! ## client and server hash the same pre-image -/

/-- DH commutes: (g^x mod p)^y mod p = (g^y mod p)^x mod p -/
theorem dh_commute (g x y p : Nat) : ((g ^ x % p) ^ y) % p = ((g ^ y % p) ^ x) % p := by
  rw [← Nat.pow_mod, ← Nat.pow_mod, ← Nat.pow_mul, ← Nat.pow_mul, Nat.mul_comm]

/-- what `dhGroup.Client` computes from the server's marshalled reply -/
theorem dhClient_marshalled (p : Nat) (m : Magics) (X Y : Nat) (hostKey sig : Bytes) (k : Nat)
    (h1 : hostKey.length < 2 ^ 32) (h2 : (mpintBody Y).length < 2 ^ 32) (h3 : sig.length < 2 ^ 32) :
    dhClient p m X (31 :: (sshString hostKey ++ mpint Y ++ sshString sig)) k =
      if dhInRange p Y then some (m.fields ++ [.str hostKey, .mpint X, .mpint Y, .mpint k]) else none := by
  unfold dhClient
  rw [parse_str_int_str 31 hostKey Y sig h1 h2 h3]
  simp

/-- what `dhGroup.Server` computes from the client's marshalled init -/
theorem dhServer_marshalled (p : Nat) (m : Magics) (X Y : Nat) (hostKey : Bytes) (k : Nat)
    (h2 : (mpintBody X).length < 2 ^ 32) :
    dhServer p m (30 :: mpint X) hostKey Y k =
      if dhInRange p X then some (m.fields ++ [.str hostKey, .mpint X, .mpint Y, .mpint k]) else none := by
  unfold dhServer
  rw [parse_int 30 X h2]
  simp

/-- **H_agree (classic DH)**: over a faithful wire, with x, y the private exponents, whenever both sides
    accept they hash the very same pre-image (hence derive the same H), and the same K. -/
theorem H_agree_dh (p g x y : Nat) (m : Magics) (hostKey sig : Bytes)
    (h1 : hostKey.length < 2 ^ 32) (h3 : sig.length < 2 ^ 32)
    (hX : (mpintBody (g ^ x % p)).length < 2 ^ 32) (hY : (mpintBody (g ^ y % p)).length < 2 ^ 32)
    (fc fs : List Field)
    (hc : dhClient p m (g ^ x % p) (31 :: (sshString hostKey ++ mpint (g ^ y % p) ++ sshString sig))
            ((g ^ y % p) ^ x % p) = some fc)
    (hs : dhServer p m (30 :: mpint (g ^ x % p)) hostKey (g ^ y % p) ((g ^ x % p) ^ y % p) = some fs) :
    fc = fs := by
  rw [dhClient_marshalled p m _ _ hostKey sig _ h1 hY h3] at hc
  rw [dhServer_marshalled p m _ _ hostKey _ hX] at hs
  split at hc <;> split at hs <;> simp at hc hs
  rw [← hc, ← hs, dh_commute g x y p]

/-- **H_agree (string-valued methods: ECDH, curve25519, mlkem)**: both sides hash
    magics ‖ K_S ‖ Q_C ‖ Q_S ‖ K, with Q_C, Q_S the exact byte strings that were on the wire. -/
theorem H_agree_c25519 (m : Magics) (qc qs hostKey sig secret : Bytes)
    (h1 : hostKey.length < 2 ^ 32) (h2 : qs.length < 2 ^ 32) (h3 : sig.length < 2 ^ 32) (h4 : qc.length < 2 ^ 32)
    (fc fs : List Field)
    (hc : c25519Client m qc (31 :: (sshString hostKey ++ sshString qs ++ sshString sig)) secret = some fc)
    (hs : c25519Server m (30 :: sshString qc) hostKey qs secret = some fs) :
    fc = fs := by
  unfold c25519Client at hc
  unfold c25519Server at hs
  rw [parse_str_str_str 31 hostKey qs sig h1 h2 h3] at hc
  rw [parse_str 30 qc h4] at hs
  simp only at hc hs
  split at hc <;> split at hs <;> simp at hc hs
  rw [← hc, ← hs]

theorem H_agree_ecdh (c : Curve) (m : Magics) (qc qs hostKey sig : Bytes) (secret : Nat)
    (h1 : hostKey.length < 2 ^ 32) (h2 : qs.length < 2 ^ 32) (h3 : sig.length < 2 ^ 32) (h4 : qc.length < 2 ^ 32)
    (fc fs : List Field)
    (hc : ecdhClient c m qc (31 :: (sshString hostKey ++ sshString qs ++ sshString sig)) secret = some fc)
    (hs : ecdhServer c m (30 :: sshString qc) hostKey qs secret = some fs) :
    fc = fs := by
  unfold ecdhClient at hc
  unfold ecdhServer at hs
  rw [parse_str_str_str 31 hostKey qs sig h1 h2 h3] at hc
  rw [parse_str 30 qc h4] at hs
  simp only at hc hs
  split at hc <;> split at hs <;> simp at hc hs
  rw [← hc, ← hs]

theorem H_agree_mlkem (m : Magics) (qc qs hostKey sig secret : Bytes)
    (h1 : hostKey.length < 2 ^ 32) (h2 : qs.length < 2 ^ 32) (h3 : sig.length < 2 ^ 32) (h4 : qc.length < 2 ^ 32)
    (fc fs : List Field)
    (hc : mlkemClient m qc (31 :: (sshString hostKey ++ sshString qs ++ sshString sig)) secret = some fc)
    (hs : mlkemServer m (30 :: sshString qc) hostKey qs secret = some fs) :
    fc = fs := by
  unfold mlkemClient at hc
  unfold mlkemServer at hs
  rw [parse_str_str_str 31 hostKey qs sig h1 h2 h3] at hc
  rw [parse_str 30 qc h4] at hs
  simp only at hc hs
  repeat' split at hc
  all_goals (repeat' split at hs)
  all_goals simp at hc hs
  all_goals rw [← hc, ← hs]

/-- **H_agree (group exchange)**: the client's fixed request (2048, 2048, 8192), the server's group message
    (p, 2) for the group it chose, GexInit and GexReply as marshalled: whenever both sides accept they hash the
    same pre-image, which contains min ‖ n ‖ max ‖ p ‖ g. -/
theorem H_agree_gex (m : Magics) (p X Y k : Nat) (hostKey sig : Bytes)
    (h1 : hostKey.length < 2 ^ 32) (h3 : sig.length < 2 ^ 32)
    (hp : (mpintBody p).length < 2 ^ 32) (hX : (mpintBody X).length < 2 ^ 32) (hY : (mpintBody Y).length < 2 ^ 32)
    (fc fs : List Field)
    (hc : gexClient m (31 :: (mpint p ++ mpint 2)) X (33 :: (sshString hostKey ++ mpint Y ++ sshString sig)) k = some fc)
    (hs : gexServer m (34 :: (u32 2048 ++ u32 2048 ++ u32 8192)) p (32 :: mpint X) hostKey Y k = some fs) :
    fc = fs := by
  have h2 : (mpintBody 2).length < 2 ^ 32 := by decide
  unfold gexClient at hc
  rw [parse_int_int 31 p 2 hp h2] at hc
  simp only at hc
  rw [parse_str_int_str 33 hostKey Y sig h1 hY h3] at hc
  unfold gexServer gexServerGroup at hs
  rw [parse_u32x3 34 2048 2048 8192 (by decide) (by decide) (by decide)] at hs
  have hreq : gexRequestOK (UInt32.ofNat 2048) (UInt32.ofNat 2048) (UInt32.ofNat 8192) = true := by decide
  have hch : chooseDH (UInt32.ofNat 2048) (UInt32.ofNat 2048) (UInt32.ofNat 8192) = some 2048 := by decide
  simp only [hreq, hch, Bool.not_true, Bool.false_eq_true, if_false] at hs
  rw [parse_int 32 X hX] at hs
  simp only at hs hc
  repeat' split at hc
  all_goals (repeat' split at hs)
  all_goals simp at hc hs
  all_goals rw [← hc, ← hs]
  all_goals simp

/-- group exchange with the exponentiations spelled out: e = g^x, f = g^y, the client derives f^x and the server e^y;
    both hash the same pre-image and the same K -/
theorem H_agree_gex_dh (m : Magics) (p x y : Nat) (hostKey sig : Bytes)
    (h1 : hostKey.length < 2 ^ 32) (h3 : sig.length < 2 ^ 32)
    (hp : (mpintBody p).length < 2 ^ 32) (hX : (mpintBody (2 ^ x % p)).length < 2 ^ 32)
    (hY : (mpintBody (2 ^ y % p)).length < 2 ^ 32) (fc fs : List Field)
    (hc : gexClient m (31 :: (mpint p ++ mpint 2)) (2 ^ x % p)
            (33 :: (sshString hostKey ++ mpint (2 ^ y % p) ++ sshString sig)) ((2 ^ y % p) ^ x % p) = some fc)
    (hs : gexServer m (34 :: (u32 2048 ++ u32 2048 ++ u32 8192)) p (32 :: mpint (2 ^ x % p)) hostKey (2 ^ y % p)
            ((2 ^ x % p) ^ y % p) = some fs) :
    fc = fs := by
  rw [dh_commute 2 x y p] at hs
  exact H_agree_gex m p _ _ _ hostKey sig h1 h3 hp hX hY fc fs hc hs

/-- non-vacuity (toy group p = 23, g = 5, x = 6, y = 15): both sides accept and produce the same fields -/
example :
    dhClient 23 ⟨[1], [2], [3], [4]⟩ (5 ^ 6 % 23) (31 :: (sshString [9] ++ mpint (5 ^ 15 % 23) ++ sshString [7])) ((5 ^ 15 % 23) ^ 6 % 23)
      = dhServer 23 ⟨[1], [2], [3], [4]⟩ (30 :: mpint (5 ^ 6 % 23)) [9] (5 ^ 15 % 23) ((5 ^ 6 % 23) ^ 15 % 23)
    ∧ (dhServer 23 ⟨[1], [2], [3], [4]⟩ (30 :: mpint (5 ^ 6 % 23)) [9] (5 ^ 15 % 23) 2).isSome = true := by
  decide

example : (c25519Client ⟨[], [], [], []⟩ (List.replicate 32 9) (31 :: (sshString [1] ++ sshString (List.replicate 32 2) ++ sshString [])) [5]).isSome = true := by
  decide

/-! ## invalid peer values are rejected -/

/-- classic DH, both directions: a peer value outside 1 < y < p − 1 never yields a pre-image -/
theorem dh_out_of_range_rejected (p : Nat) (m : Magics) (X Y : Nat) (hostKey sig : Bytes) (k : Nat)
    (h1 : hostKey.length < 2 ^ 32) (hY : (mpintBody Y).length < 2 ^ 32) (h3 : sig.length < 2 ^ 32)
    (hX : (mpintBody X).length < 2 ^ 32) :
    (dhInRange p Y = false → dhClient p m X (31 :: (sshString hostKey ++ mpint Y ++ sshString sig)) k = none) ∧
    (dhInRange p X = false → dhServer p m (30 :: mpint X) hostKey Y k = none) := by
  constructor
  · intro h; rw [dhClient_marshalled p m X Y hostKey sig k h1 hY h3]; simp [h]
  · intro h; rw [dhServer_marshalled p m X Y hostKey k hX]; simp [h]

/-- ECDH: a point `unmarshal` does not accept (wrong length, not the uncompressed form, a coordinate ≥ P,
    (0,0), off the curve — the point at infinity has no accepted encoding) never yields a pre-image -/
theorem ecdh_invalid_point_rejected (c : Curve) (m : Magics) (qc qs hostKey sig : Bytes) (secret : Nat)
    (h1 : hostKey.length < 2 ^ 32) (h2 : qs.length < 2 ^ 32) (h3 : sig.length < 2 ^ 32) (h4 : qc.length < 2 ^ 32) :
    (c.unmarshal qs = none →
      ecdhClient c m qc (31 :: (sshString hostKey ++ sshString qs ++ sshString sig)) secret = none) ∧
    (c.unmarshal qc = none → ecdhServer c m (30 :: sshString qc) hostKey qs secret = none) := by
  constructor
  · intro h; unfold ecdhClient; rw [parse_str_str_str 31 hostKey qs sig h1 h2 h3]; simp [h]
  · intro h; unfold ecdhServer; rw [parse_str 30 qc h4]; simp [h]

theorem x25519_wrong_length_rejected (u : Bytes) (h : u.length ≠ 32) : x25519PeerOK u = false := by
  simp [x25519PeerOK, h]

theorem c25519Client_rejects (m : Magics) (pub qs hostKey sig secret : Bytes)
    (h1 : hostKey.length < 2 ^ 32) (h2 : qs.length < 2 ^ 32) (h3 : sig.length < 2 ^ 32)
    (hbad : x25519PeerOK qs = false) :
    c25519Client m pub (31 :: (sshString hostKey ++ sshString qs ++ sshString sig)) secret = none := by
  unfold c25519Client
  rw [parse_str_str_str 31 hostKey qs sig h1 h2 h3]
  simp [hbad]

/-- the 12-bit coefficients packed in an encapsulation key (3 bytes ↦ 2 coefficients) -/
def decode12 : Bytes → List Nat
  | a :: b :: c :: r => (a.toNat + 256 * (b.toNat % 16)) :: (b.toNat / 16 + 16 * c.toNat) :: decode12 r
  | _ => []

/-- the modulus check is exactly "every coefficient < q" -/
theorem coeffsOK_iff (l : Bytes) : coeffsOK l = true ↔ ∀ x ∈ decode12 l, x < mlkemQ := by
  fun_induction coeffsOK l with
  | case1 a b c r d1 d2 ih =>
    simp only [decode12, List.mem_cons, Bool.and_eq_true, decide_eq_true_eq, ih]
    constructor
    · rintro ⟨⟨h1, h2⟩, h3⟩ x (rfl | rfl | hx)
      · exact h1
      · exact h2
      · exact h3 x hx
    · intro h
      exact ⟨⟨h _ (Or.inl rfl), h _ (Or.inr (Or.inl rfl))⟩, fun x hx => h x (Or.inr (Or.inr hx))⟩
  | case2 l hne =>
    have : decode12 l = [] := by
      unfold decode12
      split
      · rename_i a b c r; exact absurd rfl (hne a b c r)
      · rfl
    simp [this]

/-- ML-KEM, server side: a client value of the wrong length, or whose encapsulation key has a coefficient ≥ q,
    never yields a pre-image -/
theorem mlkemServer_rejects_malformed (m : Magics) (qc hostKey hybrid secret : Bytes) (h4 : qc.length < 2 ^ 32)
    (hbad : qc.length ≠ mlkemEkSize + 32 ∨ mlkemEkOK (qc.take mlkemEkSize) = false) :
    mlkemServer m (30 :: sshString qc) hostKey hybrid secret = none := by
  unfold mlkemServer
  rw [parse_str 30 qc h4]
  rcases hbad with h | h
  · simp [h]
  · simp [h]

/-- ML-KEM, client side: a server value whose length is not ciphertext size + 32 never yields a pre-image
    (a ciphertext of the right length cannot be malformed: decapsulation rejects implicitly) -/
theorem mlkemClient_rejects_wrong_length (m : Magics) (hybrid qs hostKey sig secret : Bytes)
    (h1 : hostKey.length < 2 ^ 32) (h2 : qs.length < 2 ^ 32) (h3 : sig.length < 2 ^ 32)
    (hbad : qs.length ≠ mlkemCtSize + 32) :
    mlkemClient m hybrid (31 :: (sshString hostKey ++ sshString qs ++ sshString sig)) secret = none := by
  unfold mlkemClient
  rw [parse_str_str_str 31 hostKey qs sig h1 h2 h3]
  simp [hbad]

example : coeffsOK [0x01, 0x0d, 0x00] = false ∧ coeffsOK [0x00, 0x0d, 0x00] = true := by decide
example : x25519PeerOK (List.replicate 32 0) = false ∧ x25519PeerOK [1] = false := by decide

/-- curve25519: a wrong-length or low-order peer value never yields a pre-image (server side) -/
theorem c25519Server_rejects (m : Magics) (qc hostKey pub secret : Bytes) (h4 : qc.length < 2 ^ 32)
    (hbad : x25519PeerOK qc = false) :
    c25519Server m (30 :: sshString qc) hostKey pub secret = none := by
  unfold c25519Server
  rw [parse_str 30 qc h4]
  simp [hbad]

/-- the seven low-order encodings and their top-bit twins are all rejected -/
theorem x25519_low_order_rejected :
    ∀ u ∈ lowOrderU, ∀ hi : Bool, ∀ nc : Bool,
      u + (if nc then p25519 else 0) < 2 ^ 255 →
      x25519PeerOK (natToLE 32 (u + (if nc then p25519 else 0) + (if hi then 2 ^ 255 else 0))) = false := by
  intro u hu hi nc hlt
  have hlen : (natToLE 32 (u + (if nc then p25519 else 0) + (if hi then 2 ^ 255 else 0))).length = 32 :=
    natToLE_length _ _
  unfold x25519PeerOK
  rw [natOfLE_natToLE]
  simp only [hlen, beq_self_eq_true, Bool.true_and, Bool.not_eq_false', List.contains_iff_mem]
  have h256 : (256 : Nat) ^ 32 = 2 ^ 256 := by decide
  rw [h256]
  have e1 : (u + (if nc then p25519 else 0) + (if hi then 2 ^ 255 else 0)) % 2 ^ 256 % 2 ^ 255
      = u + (if nc then p25519 else 0) := by
    cases hi <;> simp <;> omega
  rw [e1]
  cases nc with
  | false => simp only [Bool.false_eq_true, if_false, Nat.add_zero]
             have : u < p25519 := by
               simp [lowOrderU] at hu
               rcases hu with h | h | h | h | h <;> subst h <;> decide
             rw [Nat.mod_eq_of_lt this]; exact hu
  | true => simp only [if_true]
            rw [Nat.add_mod_right]
            have : u < p25519 := by
              simp [lowOrderU] at hu
              rcases hu with h | h | h | h | h <;> subst h <;> decide
            rw [Nat.mod_eq_of_lt this]; exact hu

/-- ECDH: whatever `unmarshal` accepts is an affine point with reduced coordinates on the curve, not (0,0) -/
theorem ec_unmarshal_sound (c : Curve) (pt : Bytes) (x y : Nat) (h : c.unmarshal pt = some (x, y)) :
    pt.length = 1 + 2 * c.byteLen ∧ pt.head? = some 4 ∧ x < c.p ∧ y < c.p ∧ ¬ (x = 0 ∧ y = 0) ∧
    c.onCurve x y = true := by
  unfold Curve.unmarshal at h
  split at h
  · simp at h
  · rename_i hl
    cases pt with
    | nil => simp at h
    | cons t d =>
      simp only at h
      split at h
      · simp at h
      · rename_i ht
        split at h
        · simp at h
        · rename_i hxy
          split at h
          · simp at h
          · rename_i hz
            split at h
            · simp at h
            · rename_i hc
              simp at h
              obtain ⟨rfl, rfl⟩ := h
              simp at hl ht hxy hz hc
              refine ⟨by simpa using hl, by simp [ht], by omega, by omega, ?_, hc⟩
              intro ⟨a, b⟩
              exact absurd (hz a) (by simp [b])

/-- the all-zero point (the usual stand-in for infinity) is rejected on every curve -/
theorem ec_zero_zero_rejected (c : Curve) (pt : Bytes) (h : pt = 4 :: List.replicate (2 * c.byteLen) 0) :
    c.unmarshal pt = none := by
  cases hu : c.unmarshal pt with
  | none => rfl
  | some xy =>
    obtain ⟨x, y⟩ := xy
    have hs := ec_unmarshal_sound c pt x y hu
    exfalso
    unfold Curve.unmarshal at hu
    subst h
    simp at hu
    obtain ⟨_, _, _, _, hx, hy⟩ := hu
    have z : ∀ n, natOfBE (List.replicate n (0 : UInt8)) = 0 := by
      intro n; induction n with
      | zero => rfl
      | succ n ih => rw [List.replicate_succ, natOfBE_cons_zero]; exact ih
    exact hs.2.2.2.2.1 ⟨hx ▸ z _, hy ▸ z _⟩

/-- ML-KEM: an encapsulation key with a coefficient ≥ q in its first pair is rejected -/
theorem mlkem_first_coeff_rejected (a b c : UInt8) (rest : Bytes)
    (h : a.toNat + 256 * (b.toNat % 16) ≥ mlkemQ) : coeffsOK (a :: b :: c :: rest) = false := by
  simp [coeffsOK]
  intro h1
  omega

/-! ## the client's gate -/

/-- **client_accepts_only_if_sig_over_H**: the gate passes only if the blob is exactly `string format ‖ string blob`,
    the format is the negotiated algorithm, and the key's verification of the blob over H succeeded -/
theorem hostSigGate_sound (sig algo : Bytes) (v : Bool) (h : hostSigGate sig algo v = true) :
    sigFormat sig = some algo ∧ v = true := by
  unfold hostSigGate at h
  split at h
  · rename_i fmt hf
    simp at h
    exact ⟨by rw [hf, h.1], h.2⟩
  · simp at h

theorem hostSigGate_rejects_trailing (fmt blob : Bytes) (x : UInt8) (algo : Bytes) (v : Bool)
    (h1 : fmt.length < 2 ^ 32) (h2 : blob.length < 2 ^ 32) :
    hostSigGate (sshString fmt ++ sshString blob ++ [x]) algo v = false := by
  unfold hostSigGate sigFormat
  simp only [parseFields, List.append_assoc]
  rw [takeString_sshString fmt _ h1]
  simp only
  rw [takeString_sshString blob _ h2]
  simp [parseFields]

example : hostSigGate (sshString [115] ++ sshString [1, 2]) [115] true = true := by decide

/-- host certificates: the gate compares the signature format with the *underlying* algorithm of the negotiated
    certificate algorithm, and needs the certified key's verification over H -/
theorem hostSigGateFor_sound (sig : Bytes) (algo : String) (v : Bool) (h : hostSigGateFor sig algo v = true) :
    sigFormat sig = some (underlyingAlgo algo).toUTF8.toList ∧ v = true :=
  hostSigGate_sound sig _ v h

theorem underlyingAlgo_cert_examples :
    underlyingAlgo "ssh-ed25519-cert-v01@openssh.com" = "ssh-ed25519" ∧
    underlyingAlgo "rsa-sha2-512-cert-v01@openssh.com" = "rsa-sha2-512" ∧
    underlyingAlgo "ecdsa-sha2-nistp256-cert-v01@openssh.com" = "ecdsa-sha2-nistp256" ∧
    underlyingAlgo "ssh-ed25519" = "ssh-ed25519" ∧ underlyingAlgo "rsa-sha2-256" = "rsa-sha2-256" := by
  decide

/-- **every exchange is checked**: a connection that survived n key exchanges had, in each of them, a host key
    signature that verified over that exchange's hash and a host key the callback accepted -/
theorem sessionAccepts_all (xs : List (Bool × Bool)) (h : sessionAccepts xs = true) :
    ∀ x ∈ xs, x.1 = true ∧ x.2 = true := by
  intro x hx
  have := List.all_eq_true.mp h x hx
  simpa using this

theorem sessionAccepts_rekey_bad_signature (first : Bool × Bool) (cb : Bool) :
    sessionAccepts [first, (false, cb)] = false := by
  simp [sessionAccepts]

example : sessionAccepts [(true, true), (true, true)] = true ∧ sessionAccepts [(true, true), (true, false)] = false := by decide

/-! ## group exchange, client side -/

theorem bitLen_ge (n k : Nat) (hk : 0 < k) : k ≤ bitLen n ↔ 2 ^ (k - 1) ≤ n := by
  unfold bitLen
  by_cases h : n = 0
  · subst h
    have := Nat.two_pow_pos (k - 1)
    simp only [if_true]
    omega
  · simp only [h, if_false]
    rw [← Nat.le_log2 h]
    omega

theorem bitLen_le (n k : Nat) : bitLen n ≤ k ↔ n < 2 ^ k := by
  unfold bitLen
  by_cases h : n = 0
  · subst h; have := Nat.two_pow_pos k; simp only [if_true]; omega
  · simp only [h, if_false]
    rw [← Nat.log2_lt h]
    omega

/-- **gex client window**: `dhGEXSHA.Client` accepts the server's group exactly when
    2^2047 ≤ |p| < 2^8192 (bit length within the [min, max] = [2048, 8192] of its own request) and 1 < g < p − 1 -/
theorem gexGroupOK_iff (P G : Int) :
    gexGroupOK P G = true ↔ (2 ^ 2047 ≤ P.natAbs ∧ P.natAbs < 2 ^ 8192 ∧ 1 < G ∧ G < P - 1) := by
  unfold gexGroupOK
  simp only [Bool.and_eq_true, decide_eq_true_eq]
  rw [bitLen_ge _ 2048 (by decide), bitLen_le]
  constructor
  · rintro ⟨⟨⟨a, b⟩, c⟩, d⟩; exact ⟨a, b, c, d⟩
  · rintro ⟨a, b, c, d⟩; exact ⟨⟨⟨a, b⟩, c⟩, d⟩

/-- a group the client accepts has a positive modulus (a negative p cannot satisfy 1 < g < p − 1) -/
theorem gexGroupOK_pos (P G : Int) (h : gexGroupOK P G = true) : 0 < P := by
  obtain ⟨_, _, c, d⟩ := (gexGroupOK_iff P G).mp h
  omega

/-- a rejected group never yields a pre-image, whatever follows -/
theorem gexClient_rejects_bad_group (m : Magics) (p g : Nat) (X : Nat) (reply : Bytes) (k : Nat)
    (hp : (mpintBody p).length < 2 ^ 32) (hg : (mpintBody g).length < 2 ^ 32)
    (hbad : gexGroupOK (p : Int) (g : Int) = false) :
    gexClient m (31 :: (mpint p ++ mpint g)) X reply k = none := by
  unfold gexClient
  rw [parse_int_int 31 p g hp hg]
  simp [hbad]



end XC.C29
