/-
  C16 — scrypt.Key returns the RFC 7914 key or an error, never a panic.
  Property theorems over XC.Model.C16 (core Lean only).
  Helper lemmas: Proofs/C16_Arith (accepted ⇒ no overflow), Proofs/C16_NoPanic (bounds), Proofs/C16_Rfc
  (block level = RFC 7914), Proofs/C16_Refine, _RefineMix, _RefineSmix, _RefineBytes, _RefineKey (flat memory = block level).
-/
import XC.Model.C16
import XC.Proofs.C16_NoPanic
import XC.Proofs.C16_Arith
import XC.Proofs.C16_Rfc
import XC.Proofs.C16_RefineKey
namespace XC.C16
open XC

/-! ## 3. totality: a key of exactly keyLen bytes, or an error; never a panic -/

/-- **key_total.** For all Go `int` arguments (allocation failure aside) `Key` returns either
    exactly keyLen bytes or the error outcome. The three panic exits of the model — the wrapper
    around crypto/pbkdf2 (twice), `make` with a negative length, a division by zero in the checks,
    a slice/index bounds failure in smix/blockMix — are unreachable. -/
theorem key_total (pw salt : Bytes) (n r p k : Int) (hkI : k < 2 ^ 63) :
    (∃ key, Key pw salt n r p k = .ok key ∧ key.length = k.toNat ∧ 1 ≤ k) ∨ Key pw salt n r p k = .err := by
  unfold Key
  cases hv : validate n r p k with
  | divPanic => exact absurd hv (validate_never_div_panics n r p k)
  | errN => right; rfl
  | errRP => right; rfl
  | errLarge => right; rfl
  | errKeyLen => right; rfl
  | accept =>
    left
    obtain ⟨n2, _, r1, p1, _, _, _, _⟩ := accepted_of_validate hkI hv
    obtain ⟨hrp, _, _, _, w1, w2, w3, k1, kmax⟩ := validate_no_overflow hkI hv
    obtain ⟨N, rfl⟩ := Int.eq_ofNat_of_zero_le (by omega : 0 ≤ n)
    obtain ⟨R, rfl⟩ := Int.eq_ofNat_of_zero_le (by omega : 0 ≤ r)
    obtain ⟨P, rfl⟩ := Int.eq_ofNat_of_zero_le (by omega : 0 ≤ p)
    rw [w1, w2, w3]
    have c1 : (64 * (R : Int)) = ((64 * R : Nat) : Int) := by push_cast; rfl
    have c2 : (32 * (N : Int) * R) = ((N * (32 * R) : Nat) : Int) := by
      push_cast; rw [Int.mul_comm 32 (N : Int), Int.mul_assoc]
    have c3 : ((P : Int) * 128 * R) = ((P * 128 * R : Nat) : Int) := by push_cast; rfl
    have m1 : makeLen (64 * (R : Int)) = some (64 * R) := by rw [c1]; exact makeLen_natCast _
    have m2 : makeLen (32 * (N : Int) * R) = some (N * (32 * R)) := by rw [c2]; exact makeLen_natCast _
    rw [m1, m2]
    simp only
    have hb1 : (1 : Int) ≤ (P : Int) * 128 * R := by
      have : (1 : Int) * 1 ≤ (R : Int) * P := Int.mul_le_mul r1 p1 (by omega) (by omega)
      rw [Int.mul_comm (P : Int) 128, Int.mul_assoc, Int.mul_comm (P : Int) R]; omega
    have hb2 : (P : Int) * 128 * R ≤ (2 ^ 32 - 1) * 32 := by
      rw [Int.mul_comm (P : Int) 128, Int.mul_assoc, Int.mul_comm (P : Int) R]; omega
    obtain ⟨b, eb, lb⟩ := pbkdf2Std_some pw salt 1 ((P : Int) * 128 * R) hb1 hb2
    rw [eb]
    simp only
    rw [c3, Int.toNat_natCast] at lb
    obtain ⟨m', em, sm⟩ := smixAll_some R N P (by omega) (by omega) P 0
      ⟨b.toArray, Array.replicate (N * (32 * R)) 0, Array.replicate (64 * R) 0⟩
      (by omega) (by simp) (by simp) (by simpa using lb)
    simp only [Int.toNat_natCast]
    rw [em]
    simp only
    obtain ⟨key, ek, lk⟩ := pbkdf2Std_some pw m'.b.toList 1 k k1 kmax
    rw [ek]
    exact ⟨key, rfl, lk, k1⟩

/-! ## 4. the algorithm is RFC 7914

  Proved in Proofs/C16_Rfc: `salsaXOR_eq_rfc` (the 16-variable straight-line code = Salsa20/8 core in
  quarter-round form), `blockMixI_eq_rfc` (output interleaving), `smixI_eq_rfc` (ROMix incl. the
  two-blocks-per-iteration unrolling and `& (N−1)` = `mod N`), `andPred_pow2`. Combined here. -/

/-- the implementation-shaped block-level scrypt equals RFC 7914 scrypt for every accepted N -/
theorem scryptSpec_impl_eq_rfc (pw salt : Bytes) (m r p dkLen : Nat) (hm : 1 ≤ m) :
    scryptSpec false pw salt (2 ^ m) r p dkLen = scryptSpec true pw salt (2 ^ m) r p dkLen := by
  unfold scryptSpec
  have : romixBytes false (2 ^ m) = romixBytes true (2 ^ m) := by
    funext c; simp [romixBytes, smixI_eq_rfc m hm]
  rw [this]

/-- every accepted N is a power of two ≥ 2, so the theorem above applies to all accepted inputs -/
theorem accepted_pow2 {n r p k : Int} (hkI : k < 2 ^ 63) (h : validate n r p k = .accept) :
    ∃ m, 1 ≤ m ∧ n.toNat = 2 ^ m := by
  obtain ⟨n2, np, _, _, _, _, _, _⟩ := accepted_of_validate hkI h
  obtain ⟨m, hm, e⟩ := andPred_pow2 n2 np
  exact ⟨m, hm, by omega⟩

/-- The full statement over the model: for all Go-int arguments, the error outcome or exactly the
    RFC 7914 key. Proved below (`C16_full_holds`) through the refinement chain of Proofs/C16_Refine*:
    flat []uint32 memory with slice views (L1) → blocks (`blockMixGo_refine`, `smixGo_refine`,
    `smixAll_refine`) → RFC 7914 (`scryptSpec true`). -/
def C16_full : Prop :=
  ∀ (pw salt : Bytes) (n r p k : Int), k < 2 ^ 63 →
    Key pw salt n r p k = .err ∨
    ∃ key, Key pw salt n r p k = .ok key ∧
      scryptSpec true pw salt n.toNat r.toNat p.toNat k.toNat = some key

/-! ## 5. end to end -/

theorem pbkdf2Std_eq (pw salt : Bytes) (iter : Nat) (k : Int) (h1 : 1 ≤ k) (h2 : k ≤ (2 ^ 32 - 1) * 32) :
    pbkdf2Std pw salt iter k = some ((pbkdf2Blocks pw salt iter ((k.toNat + 31) / 32) 1).take k.toNat) := by
  unfold pbkdf2Std
  rw [if_neg (by omega)]
  have hw : wrap64 (k + 32) = k + 32 := wrap64_id (by omega) (by omega)
  have hd : (k + 32 - 1).tdiv 32 = (k + 32 - 1) / 32 := Int.tdiv_eq_ediv_of_nonneg (by omega)
  simp only [hw, hd]
  rw [if_neg (by omega)]
  have : ((k + 32 - 1) / 32).toNat = (k.toNat + 31) / 32 := by omega
  rw [this]

theorem romixBytes_true (n : Nat) :
    romixBytes true n = fun c => some (bytesOfBlks (romixRfc n (blksOfBytes c))) := by
  funext c; simp [romixBytes]

theorem scryptSpec_true_eq (pw salt : Bytes) (n r p dk : Nat) :
    scryptSpec true pw salt n r p dk =
      some ((pbkdf2Blocks pw (mapChunks (128 * r) (fun c => bytesOfBlks (romixRfc n (blksOfBytes c))) p
        ((pbkdf2Blocks pw salt 1 ((p * 128 * r + 31) / 32) 1).take (p * 128 * r))) 1 ((dk + 31) / 32) 1).take dk) := by
  unfold scryptSpec
  simp only [romixBytes_true, mapChunksM_some, Option.map_some]

/-- **scrypt_key_eq_rfc7914.** For every accepted argument tuple the flat-memory execution of
    scrypt.Key returns exactly RFC 7914 scrypt (over the XC.Prim HMAC-SHA-256 stand-in). -/
theorem scrypt_key_eq_rfc7914 (pw salt : Bytes) (n r p k : Int) (hkI : k < 2 ^ 63)
    (hv : validate n r p k = .accept) :
    ∃ key, Key pw salt n r p k = .ok key ∧
      scryptSpec true pw salt n.toNat r.toNat p.toNat k.toNat = some key := by
  unfold Key
  cases hc : validate n r p k with
  | divPanic => rw [hv] at hc; cases hc
  | errN => rw [hv] at hc; cases hc
  | errRP => rw [hv] at hc; cases hc
  | errLarge => rw [hv] at hc; cases hc
  | errKeyLen => rw [hv] at hc; cases hc
  | accept =>
  obtain ⟨n2, _, r1, p1, _, nr, _, _⟩ := accepted_of_validate hkI hv
  obtain ⟨hrp, _, _, _, w1, w2, w3, k1, kmax⟩ := validate_no_overflow hkI hv
  obtain ⟨mm, hm1, hpow⟩ := accepted_pow2 hkI hv
  obtain ⟨N, rfl⟩ := Int.eq_ofNat_of_zero_le (by omega : 0 ≤ n)
  obtain ⟨R, rfl⟩ := Int.eq_ofNat_of_zero_le (by omega : 0 ≤ r)
  obtain ⟨P, rfl⟩ := Int.eq_ofNat_of_zero_le (by omega : 0 ≤ p)
  rw [Int.toNat_natCast] at hpow
  have hm2 : mm ≤ 63 := by
    have hN : (N : Int) ≤ 2 ^ 56 - 1 := by
      have : (N : Int) * 1 ≤ N * R := Int.mul_le_mul_of_nonneg_left r1 (by omega)
      omega
    have hN' : N ≤ 2 ^ 56 - 1 := by omega
    by_cases h : mm ≤ 63
    · exact h
    · have : 2 ^ 56 ≤ 2 ^ mm := Nat.pow_le_pow_right (by omega) (by omega)
      omega
  rw [w1, w2, w3]
  have c1 : (64 * (R : Int)) = ((64 * R : Nat) : Int) := by push_cast; rfl
  have c2 : (32 * (N : Int) * R) = ((N * (32 * R) : Nat) : Int) := by
    push_cast; rw [Int.mul_comm 32 (N : Int), Int.mul_assoc]
  have c3 : ((P : Int) * 128 * R) = ((P * 128 * R : Nat) : Int) := by push_cast; rfl
  have m1 : makeLen (64 * (R : Int)) = some (64 * R) := by rw [c1]; exact makeLen_natCast _
  have m2 : makeLen (32 * (N : Int) * R) = some (N * (32 * R)) := by rw [c2]; exact makeLen_natCast _
  rw [m1, m2]
  simp only
  have hb1 : (1 : Int) ≤ (P : Int) * 128 * R := by
    have : (1 : Int) * 1 ≤ (R : Int) * P := Int.mul_le_mul r1 p1 (by omega) (by omega)
    rw [Int.mul_comm (P : Int) 128, Int.mul_assoc, Int.mul_comm (P : Int) R]; omega
  have hb2 : (P : Int) * 128 * R ≤ (2 ^ 32 - 1) * 32 := by
    rw [Int.mul_comm (P : Int) 128, Int.mul_assoc, Int.mul_comm (P : Int) R]; omega
  rw [pbkdf2Std_eq pw salt 1 _ hb1 hb2, c3, Int.toNat_natCast]
  simp only [Int.toNat_natCast]
  -- the p smix calls
  have hlen : ((pbkdf2Blocks pw salt 1 ((P * 128 * R + 31) / 32) 1).take (P * 128 * R)).length = P * 128 * R := by
    rw [List.length_take, pbkdf2Blocks_length]; omega
  have key := smixAll_refine R mm (by omega) hm1 hm2 P 0
    ⟨((pbkdf2Blocks pw salt 1 ((P * 128 * R + 31) / 32) 1).take (P * 128 * R)).toArray,
      Array.replicate (2 ^ mm * (32 * R)) 0, Array.replicate (64 * R) 0⟩
    (by simp) (by simp) (by simp only [List.size_toArray, hlen]; rw [Nat.zero_add, Nat.mul_assoc])
  rw [← hpow] at key
  obtain ⟨m', em, hm'⟩ := key
  rw [em]
  simp only
  rw [pbkdf2Std_eq pw m'.b.toList 1 k k1 kmax]
  refine ⟨_, rfl, ?_⟩
  rw [scryptSpec_true_eq, hm']
  show some _ = some _
  rw [Nat.zero_mul, List.take_zero, List.drop_zero, List.nil_append]

/-- **C16_full holds**: error, or exactly the RFC 7914 key — for all Go-int arguments. -/
theorem C16_full_holds : C16_full := by
  intro pw salt n r p k hkI
  cases hv : validate n r p k with
  | accept =>
    right
    exact scrypt_key_eq_rfc7914 pw salt n r p k hkI hv
  | divPanic => exact absurd hv (validate_never_div_panics n r p k)
  | errN => left; unfold Key; rw [hv]
  | errRP => left; unfold Key; rw [hv]
  | errLarge => left; unfold Key; rw [hv]
  | errKeyLen => left; unfold Key; rw [hv]

/-! non-vacuity: concrete instances that satisfy the hypotheses of the main theorems -/

/-- an accepted tuple: both end-to-end theorems apply to it -/
example : ∃ key, Key [0x70] [0x73] 16 1 1 64 = .ok key ∧ scryptSpec true [0x70] [0x73] 16 1 1 64 = some key :=
  scrypt_key_eq_rfc7914 _ _ 16 1 1 64 (by decide) (by decide)

example : (∃ key, Key [] [] 2 1 1 1 = .ok key ∧ key.length = 1 ∧ (1 : Int) ≤ 1) ∨ Key [] [] 2 1 1 1 = .err :=
  key_total [] [] 2 1 1 1 (by decide)

/-- the error side of the dichotomy is inhabited too (keyLen = 0, N = MinInt, uint64-wrapping r·p) -/
example : Key [] [] 2 1 1 0 = .err ∧ Key [] [] (-2 ^ 63) 1 1 32 = .err ∧ Key [] [] 2 (2 ^ 32) (2 ^ 32) 32 = .err := by
  refine ⟨?_, ?_, ?_⟩ <;> (unfold Key; rfl)

example : Accepted 1024 8 16 64 := (validate_accept_iff (by decide)).1 (by decide)

example : 1024 * (8 : Int) ≤ 2 ^ 56 - 1 ∧ wrap64 (wrap64 (32 * 1024) * 8) = 32 * 1024 * 8 :=
  ⟨(accepted_of_validate (n := 1024) (r := 8) (p := 16) (k := 64) (by decide) (by decide)).nr,
   (validate_no_overflow (n := 1024) (r := 8) (p := 16) (k := 64) (by decide) (by decide)).2.2.2.2.2.1⟩

/-- flat memory of the size Key allocates for r = 1, N = 2: the refinement theorems apply -/
example : ∃ xy', blockMixGo (Array.replicate 64 0) ⟨0, 64⟩ ⟨32, 32⟩ 1 = some xy' ∧ xy'.size = 64 ∧
    (∀ idx, ¬ (32 ≤ idx ∧ idx < 32 + 32 * 1) → rdw xy' idx = rdw (Array.replicate 64 0) idx) ∧
    blocksOf xy' 32 (2 * 1) = blockMixRfc' (blocksOf (Array.replicate 64 0) 0 (2 * 1)) := by
  have := blockMixGo_refine (Array.replicate 64 0) ⟨0, 64⟩ ⟨32, 32⟩ 1 (by decide) (by decide) (by simp) (by decide)
    (by simp) (by decide)
  simpa using this

example : Sized ⟨Array.replicate 128 0, Array.replicate (2 ^ 1 * (32 * 1)) 0, Array.replicate 64 0⟩ 0 1 (2 ^ 1) :=
  ⟨by simp, by simp, by simp⟩

example : ∃ m', smixGo ⟨Array.replicate 128 7, Array.replicate (2 ^ 1 * (32 * 1)) 0, Array.replicate 64 0⟩ 0 1 (2 ^ 1) = some m' :=
  let ⟨m', h, _⟩ := smixGo_refine ⟨Array.replicate 128 7, Array.replicate (2 ^ 1 * (32 * 1)) 0, Array.replicate 64 0⟩
    0 1 1 (by decide) (by decide) (by decide) ⟨by simp, by simp, by simp⟩
  ⟨m', h⟩

example : smixI (2 ^ 1) [default, default] = some (romixRfc (2 ^ 1) [default, default]) := smixI_eq_rfc 1 (by decide) _

example : ∃ out, pbkdf2Std [1] [2] 1 33 = some out ∧ out.length = 33 :=
  pbkdf2Std_some [1] [2] 1 33 (by decide) (by decide)

example : ∃ m, 1 ≤ m ∧ (1024 : Int) = ((2 ^ m : Nat) : Int) := andPred_pow2 (by decide) (by decide)

/-- non-vacuity -/
example : validate 1024 8 16 64 = .accept := by decide
example : validate 6 1 1 32 = .errN ∧ validate 2 0 1 32 = .errRP ∧ validate 2 1 1 0 = .errKeyLen := by decide
example : validate 2 (2 ^ 32) (2 ^ 32) 32 = .errLarge := by decide
example : validate (2 ^ 62) 1 1 32 = .errLarge := by decide
example : validate 2 1 1 ((2 ^ 32 - 1) * 32 + 1) = .errKeyLen ∧ validate 2 1 1 ((2 ^ 32 - 1) * 32) = .accept := by decide

end XC.C16
