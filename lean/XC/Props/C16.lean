/-
  C16 — scrypt.Key returns the RFC 7914 key or an error, never a panic.
  Property theorems over XC.Model.C16 (core Lean only).
  Helper lemmas: Proofs/C16_Arith (accepted ⇒ no overflow), Proofs/C16_NoPanic (bounds), Proofs/C16_Rfc.
-/
import XC.Model.C16
import XC.Proofs.C16_NoPanic
import XC.Proofs.C16_Arith
import XC.Proofs.C16_Rfc
namespace XC.C16
open XC

/-! ## 3. totality: a key of exactly keyLen bytes, or an error; never a panic -/

/-- **key_total.** For all Go `int` arguments (allocation failure aside) `Key` returns either
    exactly keyLen bytes or the error outcome. The three panic exits of the model — the wrapper
    around crypto/pbkdf2 (twice), `make` with a negative length, a division by zero in the checks,
    a slice/index bounds failure in smix/blockMix — are unreachable. -/
theorem key_total (pw salt : Bytes) (n r p k : Int) (hkI : k < 2 ^ 63) :
    (∃ key, Key pw salt n r p k = .ok key ∧ key.length = k.toNat ∧ 1 ≤ k) ∨ Key pw salt n r p k = .err := by
  unfold Key
  cases hv : validate n r p k with
  | divPanic => exact absurd hv (validate_never_div_panics n r p k)
  | errN => right; rfl
  | errRP => right; rfl
  | errLarge => right; rfl
  | errKeyLen => right; rfl
  | accept =>
    left
    obtain ⟨n2, _, r1, p1, _, _, _, _⟩ := accepted_of_validate hkI hv
    obtain ⟨hrp, _, _, _, w1, w2, w3, k1, kmax⟩ := validate_no_overflow hkI hv
    obtain ⟨N, rfl⟩ := Int.eq_ofNat_of_zero_le (by omega : 0 ≤ n)
    obtain ⟨R, rfl⟩ := Int.eq_ofNat_of_zero_le (by omega : 0 ≤ r)
    obtain ⟨P, rfl⟩ := Int.eq_ofNat_of_zero_le (by omega : 0 ≤ p)
    rw [w1, w2, w3]
    have c1 : (64 * (R : Int)) = ((64 * R : Nat) : Int) := by push_cast; rfl
    have c2 : (32 * (N : Int) * R) = ((N * (32 * R) : Nat) : Int) := by
      push_cast; rw [Int.mul_comm 32 (N : Int), Int.mul_assoc]
    have c3 : ((P : Int) * 128 * R) = ((P * 128 * R : Nat) : Int) := by push_cast; rfl
    have m1 : makeLen (64 * (R : Int)) = some (64 * R) := by rw [c1]; exact makeLen_natCast _
    have m2 : makeLen (32 * (N : Int) * R) = some (N * (32 * R)) := by rw [c2]; exact makeLen_natCast _
    rw [m1, m2]
    simp only
    have hb1 : (1 : Int) ≤ (P : Int) * 128 * R := by
      have : (1 : Int) * 1 ≤ (R : Int) * P := Int.mul_le_mul r1 p1 (by omega) (by omega)
      rw [Int.mul_comm (P : Int) 128, Int.mul_assoc, Int.mul_comm (P : Int) R]; omega
    have hb2 : (P : Int) * 128 * R ≤ (2 ^ 32 - 1) * 32 := by
      rw [Int.mul_comm (P : Int) 128, Int.mul_assoc, Int.mul_comm (P : Int) R]; omega
    obtain ⟨b, eb, lb⟩ := pbkdf2Std_some pw salt 1 ((P : Int) * 128 * R) hb1 hb2
    rw [eb]
    simp only
    rw [c3, Int.toNat_natCast] at lb
    obtain ⟨m', em, sm⟩ := smixAll_some R N P (by omega) (by omega) P 0
      ⟨b.toArray, Array.replicate (N * (32 * R)) 0, Array.replicate (64 * R) 0⟩
      (by omega) (by simp) (by simp) (by simpa using lb)
    simp only [Int.toNat_natCast]
    rw [em]
    simp only
    obtain ⟨key, ek, lk⟩ := pbkdf2Std_some pw m'.b.toList 1 k k1 kmax
    rw [ek]
    exact ⟨key, rfl, lk, k1⟩

/-! ## 4. the algorithm is RFC 7914

  Proved in Proofs/C16_Rfc: `salsaXOR_eq_rfc` (the 16-variable straight-line code = Salsa20/8 core in
  quarter-round form), `blockMixI_eq_rfc` (output interleaving), `smixI_eq_rfc` (ROMix incl. the
  two-blocks-per-iteration unrolling and `& (N−1)` = `mod N`), `andPred_pow2`. Combined here. -/

/-- the implementation-shaped block-level scrypt equals RFC 7914 scrypt for every accepted N -/
theorem scryptSpec_impl_eq_rfc (pw salt : Bytes) (m r p dkLen : Nat) (hm : 1 ≤ m) :
    scryptSpec false pw salt (2 ^ m) r p dkLen = scryptSpec true pw salt (2 ^ m) r p dkLen := by
  unfold scryptSpec
  have : romixBytes false (2 ^ m) = romixBytes true (2 ^ m) := by
    funext c; simp [romixBytes, smixI_eq_rfc m hm]
  rw [this]

/-- every accepted N is a power of two ≥ 2, so the theorem above applies to all accepted inputs -/
theorem accepted_pow2 {n r p k : Int} (hkI : k < 2 ^ 63) (h : validate n r p k = .accept) :
    ∃ m, 1 ≤ m ∧ n.toNat = 2 ^ m := by
  obtain ⟨n2, np, _, _, _, _, _, _⟩ := accepted_of_validate hkI h
  obtain ⟨m, hm, e⟩ := andPred_pow2 n2 np
  exact ⟨m, hm, by omega⟩

/-- The full statement over the model. What is proved: `key_total` (error or exactly keyLen bytes,
    no panic), `scryptSpec_impl_eq_rfc` + `accepted_pow2` (the block-level algorithm with the code's
    loop structure is RFC 7914). What is only checked at run time by the driver on every accepted
    input (`model-split` otherwise): that the flat-memory execution `Key` produces the same bytes as
    the block-level `scryptSpec false`. -/
def C16_full : Prop :=
  ∀ (pw salt : Bytes) (n r p k : Int), k < 2 ^ 63 →
    Key pw salt n r p k = .err ∨
    ∃ key, Key pw salt n r p k = .ok key ∧
      scryptSpec true pw salt n.toNat r.toNat p.toNat k.toNat = some key

/-- non-vacuity -/
example : validate 1024 8 16 64 = .accept := by decide
example : validate 6 1 1 32 = .errN ∧ validate 2 0 1 32 = .errRP ∧ validate 2 1 1 0 = .errKeyLen := by decide
example : validate 2 (2 ^ 32) (2 ^ 32) 32 = .errLarge := by decide
example : validate (2 ^ 62) 1 1 32 = .errLarge := by decide
example : validate 2 1 1 ((2 ^ 32 - 1) * 32 + 1) = .errKeyLen ∧ validate 2 1 1 ((2 ^ 32 - 1) * 32) = .accept := by decide

end XC.C16
