/-
  C16 — scrypt.Key returns the RFC 7914 key or an error, never a panic.
  Property theorems over XC.Model.C16 (core Lean only).
  Helper lemmas: Proofs/C16_Arith (accepted ⇒ no overflow), Proofs/C16_NoPanic (bounds), Proofs/C16_Rfc.
-/
import XC.Model.C16
import XC.Proofs.C16_NoPanic
import XC.Proofs.C16_Arith
namespace XC.C16
open XC

/-! ## 3. totality: a key of exactly keyLen bytes, or an error; never a panic -/

/-- **key_total.** For all Go `int` arguments (allocation failure aside) `Key` returns either
    exactly keyLen bytes or the error outcome. The three panic exits of the model — the wrapper
    around crypto/pbkdf2 (twice), `make` with a negative length, a division by zero in the checks,
    a slice/index bounds failure in smix/blockMix — are unreachable. -/
theorem key_total (pw salt : Bytes) (n r p k : Int) (hkI : k < 2 ^ 63) :
    (∃ key, Key pw salt n r p k = .ok key ∧ key.length = k.toNat ∧ 1 ≤ k) ∨ Key pw salt n r p k = .err := by
  unfold Key
  cases hv : validate n r p k with
  | divPanic => exact absurd hv (validate_never_div_panics n r p k)
  | errN => right; rfl
  | errRP => right; rfl
  | errLarge => right; rfl
  | errKeyLen => right; rfl
  | accept =>
    left
    obtain ⟨n2, _, r1, p1, _, _, _, _⟩ := accepted_of_validate hkI hv
    obtain ⟨hrp, _, _, _, w1, w2, w3, k1, kmax⟩ := validate_no_overflow hkI hv
    obtain ⟨N, rfl⟩ := Int.eq_ofNat_of_zero_le (by omega : 0 ≤ n)
    obtain ⟨R, rfl⟩ := Int.eq_ofNat_of_zero_le (by omega : 0 ≤ r)
    obtain ⟨P, rfl⟩ := Int.eq_ofNat_of_zero_le (by omega : 0 ≤ p)
    rw [w1, w2, w3]
    have c1 : (64 * (R : Int)) = ((64 * R : Nat) : Int) := by push_cast; rfl
    have c2 : (32 * (N : Int) * R) = ((N * (32 * R) : Nat) : Int) := by
      push_cast; rw [Int.mul_comm 32 (N : Int), Int.mul_assoc]
    have c3 : ((P : Int) * 128 * R) = ((P * 128 * R : Nat) : Int) := by push_cast; rfl
    have m1 : makeLen (64 * (R : Int)) = some (64 * R) := by rw [c1]; exact makeLen_natCast _
    have m2 : makeLen (32 * (N : Int) * R) = some (N * (32 * R)) := by rw [c2]; exact makeLen_natCast _
    rw [m1, m2]
    simp only
    have hb1 : (1 : Int) ≤ (P : Int) * 128 * R := by
      have : (1 : Int) * 1 ≤ (R : Int) * P := Int.mul_le_mul r1 p1 (by omega) (by omega)
      rw [Int.mul_comm (P : Int) 128, Int.mul_assoc, Int.mul_comm (P : Int) R]; omega
    have hb2 : (P : Int) * 128 * R ≤ (2 ^ 32 - 1) * 32 := by
      rw [Int.mul_comm (P : Int) 128, Int.mul_assoc, Int.mul_comm (P : Int) R]; omega
    obtain ⟨b, eb, lb⟩ := pbkdf2Std_some pw salt 1 ((P : Int) * 128 * R) hb1 hb2
    rw [eb]
    simp only
    rw [c3, Int.toNat_natCast] at lb
    obtain ⟨m', em, sm⟩ := smixAll_some R N P (by omega) (by omega) P 0
      ⟨b.toArray, Array.replicate (N * (32 * R)) 0, Array.replicate (64 * R) 0⟩
      (by omega) (by simp) (by simp) (by simpa using lb)
    simp only [Int.toNat_natCast]
    rw [em]
    simp only
    obtain ⟨key, ek, lk⟩ := pbkdf2Std_some pw m'.b.toList 1 k k1 kmax
    rw [ek]
    exact ⟨key, rfl, lk, k1⟩

end XC.C16
