/-
  C03 — property theorems: ChaCha20 keystream is the RFC 8439 block function, seekable and split-invariant.

  Model: XC/Model/C03.lean (chacha20.Cipher as written, for every buffer size bufSize = 64·m, m ≥ 1:
  m = 1 on amd64 / purego / portable builds, m = 4 on arm64 / ppc64 / s390x) and
  XC/Model/C03_Block.lean (RFC 8439 block function, HChaCha20, keystream — written from the RFC).
  Helper lemmas: XC/Proofs/C03_{Block,Refine,Step,Hist,Init}.lean.
-/
import XC.Proofs.C03_Init
namespace XC.C03

/-! ## 1. the block function -/

/-- One loop iteration of xorKeyStreamBlocksGeneric — remainder of the first column round from the cached
    p1…p15, first diagonal round, nine double rounds, sixteen `addXor` on little-endian words — writes
    `src xor chacha20_block(key, counter, nonce)` of RFC 8439 §2.3, for every key, counter, nonce, src. -/
theorem block_generic_eq_rfc (s : Cipher) (h : PrecompOK s) (src : Bytes) (hl : src.length = 64) :
    xorBlockGo s src = xorBytes src (blockW s.key s.counter s.nonce) :=
  xorBlockGo_eq s h src hl

/-- the cache-filling code establishes `PrecompOK` (and the cache, once valid, stays valid) -/
theorem precomp_establishes (s : Cipher) (h : s.precompDone = true → PrecompOK s) : PrecompOK (precomp s) :=
  precomp_ok s h

/-- non-vacuity: a fresh cipher has an empty cache, so the hypothesis of `precomp_establishes` holds -/
example (k : KeyW) (n : NonceW) : PrecompOK (precomp (mkCipher 1 k n)) :=
  precomp_ok _ (by intro h; simp [mkCipher] at h)

/-- HChaCha20 as coded = HChaCha20 of the XChaCha draft; error exactly on wrong sizes -/
theorem hchacha20_eq (key nonce : Bytes) :
    hChaCha20Go key nonce = if key.length = 32 ∧ nonce.length = 16 then some (hchacha20 key nonce) else none :=
  hChaCha20Go_eq key nonce

/-- NewUnauthenticatedCipher: 12-byte nonce → (key, nonce); 24-byte nonce → (HChaCha20(key, nonce[0:16]),
    0⁴ ‖ nonce[16:24]); anything else is an error; the new cipher is at keystream position 0 -/
theorem new_spec (m : Nat) (key nonce : Bytes) :
    newCipher m key nonce =
      if key.length = 32 ∧ nonce.length = 12 then some (mkCipher m (keyWords key) (nonceWords nonce))
      else if key.length = 32 ∧ nonce.length = 24 then
        some (mkCipher m (keyWords (xkey key nonce)) (nonceWords (xnonce nonce)))
      else none :=
  newCipher_spec m key nonce

theorem new_inv (m : Nat) (hm : 0 < m) (k : KeyW) (n : NonceW) :
    Inv m (mkCipher m k n) ∧ pos (mkCipher m k n) = 0 :=
  ⟨mkCipher_inv m hm k n, mkCipher_pos m k n⟩

/-! ## 2. refinement: every history, every buffer size -/

/-- **Refinement.** For every buffer size bufSize = 64·m (m ≥ 1) and every history of XORKeyStream /
    SetCounter calls on a cipher state satisfying the invariant (in particular a fresh one), the concrete
    cipher — counter, len, buf, overflow flag, cached first round, multi-block refill vs one-block-at-a-time
    refill next to 2^32, SetCounter inside the buffered blocks — yields exactly the outputs and the panic of the
    specification "xor with RFC-keystream bytes `pos…`; SetCounter c moves to 64·c unless that is a rollback;
    panic when byte 2^38 would be needed". -/
theorem history_refines (m : Nat) (ops : List Op) (s : Cipher) (hi : Inv m s) :
    run m s ops = specRun s.key s.nonce (pos s) ops :=
  run_refines m ops s hi

theorem history_from_new (m : Nat) (hm : 0 < m) (k : KeyW) (n : NonceW) (ops : List Op) :
    run m (mkCipher m k n) ops = specRun k n 0 ops := by
  have := run_refines m ops (mkCipher m k n) (mkCipher_inv m hm k n)
  rw [mkCipher_pos] at this
  exact this

/-- all buffer sizes compute the same thing: the arm64/ppc64/s390x configuration (m = 4) and the
    amd64/portable one (m = 1) agree on every history -/
theorem buffer_size_irrelevant (k : KeyW) (n : NonceW) (ops : List Op) :
    run 4 (mkCipher 4 k n) ops = run 1 (mkCipher 1 k n) ops := by
  rw [history_from_new 4 (by decide), history_from_new 1 (by decide)]

/-! ## 3. consequences stated on the specification (they transfer to the cipher by `history_refines`) -/

theorem specStep_xor_ok (k n) (pos : Nat) (x : Bytes) (h : pos + x.length ≤ limit) :
    specStep k n pos (.xor x) = .ok (pos + x.length, xorBytes x (ksRange k n pos x.length)) := by
  simp only [specStep]
  by_cases h0 : x.length = 0
  · have : x = [] := List.eq_nil_of_length_eq_zero h0
    subst this
    simp [ksRange, xorBytes]
  · simp [h0, Nat.not_lt.mpr h]

/-- **Split-invariance inside any history.** Feeding `chunks` by successive XORKeyStream calls gives outputs
    whose concatenation is the output of the single call on the concatenation, and the rest of the history
    (`rest`, which may contain SetCounter calls) continues identically. -/
theorem spec_split (k n) (chunks : List Bytes) (pos : Nat) (rest : List Op)
    (h : pos + chunks.flatten.length ≤ limit) :
    ∃ outs : List Bytes,
      specRun k n pos (chunks.map .xor ++ rest) =
        (outs ++ (specRun k n (pos + chunks.flatten.length) rest).1,
         (specRun k n (pos + chunks.flatten.length) rest).2) ∧
      outs.flatten = xorBytes chunks.flatten (ksRange k n pos chunks.flatten.length) ∧
      outs.map List.length = chunks.map List.length := by
  induction chunks generalizing pos with
  | nil => exact ⟨[], by simp, by simp [ksRange, xorBytes], rfl⟩
  | cons c cs ih =>
    simp only [List.flatten_cons, List.length_append] at h
    obtain ⟨outs, h1, h2, h3⟩ := ih (pos + c.length) (by omega)
    refine ⟨xorBytes c (ksRange k n pos c.length) :: outs, ?_, ?_, ?_⟩
    · simp only [List.map_cons, List.cons_append, specRun, specStep_xor_ok k n pos c (by omega), h1,
        List.flatten_cons, List.length_append, Nat.add_assoc]
    · simp only [List.flatten_cons, h2, List.length_append, ksRange_add]
      rw [xorBytes_append _ _ _ _ (by simp [ksRange_length])]
    · simp [h3, xorBytes_length, ksRange_length]

/-- concrete form: any split of the input into successive XORKeyStream calls on a cipher = the single call -/
theorem split_invariant (m : Nat) (s : Cipher) (hi : Inv m s) (chunks : List Bytes)
    (h : pos s + chunks.flatten.length ≤ limit) :
    ∃ outs : List Bytes,
      run m s (chunks.map .xor) = (outs, none) ∧
      run m s [.xor chunks.flatten] = ([outs.flatten], none) ∧
      outs.flatten = xorBytes chunks.flatten (ksRange s.key s.nonce (pos s) chunks.flatten.length) ∧
      outs.map List.length = chunks.map List.length := by
  obtain ⟨outs, h1, h2, h3⟩ := spec_split s.key s.nonce chunks (pos s) [] h
  refine ⟨outs, ?_, ?_, h2, h3⟩
  · rw [run_refines m _ s hi]
    simpa [specRun] using h1
  · rw [run_refines m _ s hi]
    simp only [specRun, specStep_xor_ok _ _ _ _ h, h2]

/-- non-vacuity of `split_invariant`: a fresh cipher and a three-way split with an empty middle chunk -/
example (k : KeyW) (n : NonceW) (a b : Bytes) (h : a.length + b.length ≤ 1000) :
    ∃ outs, run 1 (mkCipher 1 k n) [.xor a, .xor [], .xor b] = (outs, none) ∧
      run 1 (mkCipher 1 k n) [.xor (a ++ b)] = ([outs.flatten], none) := by
  obtain ⟨outs, h1, h2, _, _⟩ := split_invariant 1 (mkCipher 1 k n) (mkCipher_inv 1 (by decide) k n) [a, [], b]
    (by simp [mkCipher_pos, limit]; omega)
  exact ⟨outs, h1, by simpa using h2⟩

/-- **Seek.** `SetCounter c` followed by XORKeyStream xors with the keystream starting at byte 64·c —
    provided it is not a rollback (c ≥ ⌈pos/64⌉) and the last block has not been started. -/
theorem setCounter_then_xor (m : Nat) (s : Cipher) (hi : Inv m s) (c : UInt32) (src : Bytes)
    (hfwd : pos s ≤ 64 * c.toNat) (hlive : pos s ≤ limit - 64) (hfit : 64 * c.toNat + src.length ≤ limit) :
    run m s [.setCounter c, .xor src] =
      ([[], xorBytes src (ksRange s.key s.nonce (64 * c.toNat) src.length)], none) := by
  rw [run_refines m _ s hi]
  have h1 : specStep s.key s.nonce (pos s) (.setCounter c) = .ok (64 * c.toNat, []) := by
    simp only [specStep]
    have : ¬ (pos s > limit - 64 ∨ 64 * c.toNat < pos s) := by omega
    simp [this]
  simp only [specRun, h1, specStep_xor_ok _ _ _ _ hfit]

/-- **RFC 8439 §2.4 end to end.** A fresh cipher for a 32-byte key and 12-byte nonce, SetCounter(ctr), one
    XORKeyStream(src) = `src xor (block(key,ctr,nonce) ‖ block(key,ctr+1,nonce) ‖ …)` as long as the
    keystream does not run past block 2^32−1 -/
theorem oneshot_rfc8439 (m : Nat) (hm : 0 < m) (key nonce : Bytes) (hk : key.length = 32) (hn : nonce.length = 12)
    (ctr : UInt32) (src : Bytes) (hfit : 64 * ctr.toNat + src.length ≤ limit) :
    ∃ c, newCipher m key nonce = some c ∧
      run m c [.setCounter ctr, .xor src] = ([[], xorStream key nonce ctr src], none) := by
  refine ⟨mkCipher m (keyWords key) (nonceWords nonce), by simp [newCipher_spec, hk, hn], ?_⟩
  have := setCounter_then_xor m (mkCipher m (keyWords key) (nonceWords nonce)) (mkCipher_inv m hm _ _) ctr src
    (by simp [mkCipher_pos]) (by simp [mkCipher_pos]) hfit
  rw [this, xorStream, keystream_eq key nonce ctr src.length hfit]
  rfl

/-- XChaCha20 end to end: 24-byte nonce → ChaCha20 under the HChaCha20 sub-key and nonce 0⁴‖nonce[16:24] -/
theorem oneshot_xchacha (m : Nat) (hm : 0 < m) (key nonce : Bytes) (hk : key.length = 32) (hn : nonce.length = 24)
    (ctr : UInt32) (src : Bytes) (hfit : 64 * ctr.toNat + src.length ≤ limit) :
    ∃ c, newCipher m key nonce = some c ∧
      run m c [.setCounter ctr, .xor src] = ([[], xorStream (xkey key nonce) (xnonce nonce) ctr src], none) := by
  refine ⟨mkCipher m (keyWords (xkey key nonce)) (nonceWords (xnonce nonce)), by simp [newCipher_spec, hk, hn], ?_⟩
  have := setCounter_then_xor m (mkCipher m (keyWords (xkey key nonce)) (nonceWords (xnonce nonce)))
    (mkCipher_inv m hm _ _) ctr src (by simp [mkCipher_pos]) (by simp [mkCipher_pos]) hfit
  rw [this, xorStream, keystream_eq _ _ ctr src.length hfit]
  rfl

/-! ## 4. panics -/

/-- XORKeyStream panics iff the input is non-empty and would need a keystream byte at or beyond 2^38
    (= a block with index ≥ 2^32); the panic is the overflow panic (never the internal-error panic);
    it never wraps the counter silently — for every buffer size -/
theorem xor_panics_iff (m : Nat) (s : Cipher) (hi : Inv m s) (src : Bytes) :
    (∃ e, xorKeyStream m s src = .error e) ↔ (src.length ≠ 0 ∧ pos s + src.length > limit) := by
  have := xorKeyStream_spec m s hi src
  by_cases h0 : src.length = 0
  · simp only [h0, if_true] at this; simp [this, h0]
  · simp only [h0, if_false] at this
    by_cases hp : pos s + src.length > limit
    · simp only [hp, if_true] at this; simp [this, h0, hp]
    · simp only [hp, if_false] at this
      obtain ⟨s', he, _⟩ := this
      simp [he, hp]

theorem xor_panic_kind (m : Nat) (s : Cipher) (hi : Inv m s) (src : Bytes) (e : Panic)
    (h : xorKeyStream m s src = .error e) : e = .overflow := by
  have := xorKeyStream_spec m s hi src
  by_cases h0 : src.length = 0
  · simp only [h0, if_true] at this; simp [this] at h
  · simp only [h0, if_false] at this
    by_cases hp : pos s + src.length > limit
    · simp only [hp, if_true] at this; rw [this] at h; injection h with h; exact h.symm
    · simp only [hp, if_false] at this
      obtain ⟨s', he, _⟩ := this
      simp [he] at h

/-- SetCounter panics iff the last block has been started (overflow) or the target is below the
    current block (rollback) -/
theorem setCounter_panics_iff (m : Nat) (s : Cipher) (hi : Inv m s) (c : UInt32) :
    (∃ e, setCounter s c = .error e) ↔ (pos s > limit - 64 ∨ 64 * c.toNat < pos s) := by
  have := setCounter_spec m s hi c
  by_cases hp : pos s > limit - 64 ∨ 64 * c.toNat < pos s
  · simp only [hp, if_true] at this; simp [this, hp]
  · simp only [hp, if_false] at this
    obtain ⟨s', he, _⟩ := this
    simp [he, hp]

/-- non-vacuity: at counter 2^32−1 one block succeeds and one more byte panics -/
example (k : KeyW) (n : NonceW) (b : Bytes) (hb : b.length = 64) (x : UInt8) :
    ∃ o, run 1 (mkCipher 1 k n) [.setCounter 0xffffffff, .xor b, .xor [x]] = ([[], o], some .overflow) := by
  rw [history_from_new 1 (by decide)]
  refine ⟨xorBytes b (ksRange k n (64 * 4294967295) 64), ?_⟩
  have h1 : specStep k n 0 (.setCounter 0xffffffff) = .ok (64 * 4294967295, []) := by
    simp [specStep, limit]
  have h2 := specStep_xor_ok k n (64 * 4294967295) b (by simp [hb, limit])
  simp only [specRun, h1, h2, hb]
  simp [specStep, limit]

/-! ## 5. the multi-block ports next to 2^32 (regression witness for /repo f60df7a)

  Before the fix (`uint64(s.counter)+blocksPerBuf > 1<<32`) the history below, on a bufSize = 256 port,
  refilled the whole buffer at counter 2^32−4, wrapped the counter to 0 without setting `overflow`, and the
  third call re-used keystream block 0.  With the fixed guard (`>=`) the refill is done one block at a time
  and the third call panics, as the specification demands. -/

def wrapOps : List Op := [.setCounter 0xfffffffc, .xor (zeros 10), .xor (zeros 300)]

set_option maxRecDepth 100000 in
theorem wrap_spec_panics (k : KeyW) (n : NonceW) : (specRun k n 0 wrapOps).2 = some .overflow := by
  have h1 : specStep k n 0 (.setCounter 0xfffffffc) = .ok (64 * 4294967292, []) := by
    simp [specStep, limit]
  have h2 := specStep_xor_ok k n (64 * 4294967292) (zeros 10) (by simp [zeros, limit])
  simp only [wrapOps, specRun, h1, h2]
  simp [specStep, limit, zeros]

/-- on every buffer size (in particular m = 4) the history ends in the overflow panic -/
theorem wrap_panics_every_bufsize (m : Nat) (hm : 0 < m) (k : KeyW) (n : NonceW) :
    (run m (mkCipher m k n) wrapOps).2 = some .overflow := by
  rw [history_from_new m hm, wrap_spec_panics]

/-! ## published vectors and concrete instances (non-vacuity; kernel-evaluated) -/

def vecKey : Bytes := [0, 1, 2, 3, 4, 5, 6, 7, 8, 9, 10, 11, 12, 13, 14, 15, 16, 17, 18, 19, 20, 21, 22, 23, 24, 25, 26, 27, 28, 29, 30, 31]
def vecNonce : Bytes := [0, 0, 0, 9, 0, 0, 0, 74, 0, 0, 0, 0]
def vecBlock1 : Bytes := [16, 241, 231, 228, 209, 59, 89, 21, 80, 15, 221, 31, 163, 32, 113, 196, 199, 209, 244, 199, 51, 192, 104, 3, 4, 34, 170, 154, 195, 212, 108, 78, 210, 130, 100, 70, 7, 159, 170, 9, 20, 194, 215, 5, 217, 139, 2, 162, 181, 18, 156, 209, 222, 22, 78, 185, 203, 208, 131, 232, 162, 80, 60, 78]
def vecHNonce : Bytes := [0, 0, 0, 9, 0, 0, 0, 74, 0, 0, 0, 0, 49, 65, 89, 39]
def vecHOut : Bytes := [130, 65, 59, 66, 39, 178, 123, 254, 211, 14, 66, 80, 138, 135, 125, 115, 160, 249, 228, 213, 138, 116, 168, 83, 193, 46, 196, 19, 38, 211, 236, 220]
def vecLastBlock : Bytes := [172, 228, 205, 9, 226, 148, 209, 145, 45, 74, 210, 5, 208, 111, 149, 217, 194, 242, 191, 207, 69, 62, 135, 83, 241, 40, 118, 91, 98, 33, 95, 77, 146, 199, 79, 47, 98, 108, 106, 100, 12, 11, 18, 132, 216, 57, 236, 129, 241, 105, 98, 129, 218, 252, 62, 104, 69, 147, 147, 112, 35, 181, 139, 29]

set_option maxRecDepth 100000 in
/-- RFC 8439 §2.3.2: chacha20_block(00..1f, 1, 00 00 00 09 00 00 00 4a 00 00 00 00) -/
example : block vecKey 1 vecNonce = vecBlock1 := by decide +kernel

set_option maxRecDepth 100000 in
/-- the same vector through the Go-shaped code: a cipher with a filled cache at counter 1 writes
    `0⁶⁴ xor block` (instance of `block_generic_eq_rfc`) -/
example : xorBlockGo (precomp { mkCipher 1 (keyWords vecKey) (nonceWords vecNonce) with counter := 1 }) (zeros 64) = vecBlock1 := by
  decide +kernel

set_option maxRecDepth 100000 in
/-- draft-irtf-cfrg-xchacha §2.2.1: HChaCha20 test vector, specification and Go-shaped function -/
example : hchacha20 vecKey vecHNonce = vecHOut ∧ hChaCha20Go vecKey vecHNonce = some vecHOut := by decide +kernel

set_option maxRecDepth 100000 in
/-- the last block of the zero key / zero nonce keystream (the constant of chacha_test.go TestLastBlock),
    produced by the history SetCounter(2^32−1); XORKeyStream(64 zero bytes); a further byte panics —
    on the bufSize = 64 and on the bufSize = 256 model -/
example : run 1 (mkCipher 1 (keyWords (zeros 32)) (nonceWords (zeros 12))) [.setCounter 0xffffffff, .xor (zeros 64), .xor [0]] =
      ([[], vecLastBlock], some .overflow) ∧
    run 4 (mkCipher 4 (keyWords (zeros 32)) (nonceWords (zeros 12))) [.setCounter 0xffffffff, .xor (zeros 7), .xor (zeros 57), .xor [0]] =
      ([[], vecLastBlock.take 7, vecLastBlock.drop 7], some .overflow) := by decide +kernel

/-- instances of the end-to-end theorems: hypotheses are satisfiable (32-byte key, 12- / 24-byte nonce) -/
example : ∃ c, newCipher 1 vecKey vecNonce = some c ∧
    run 1 c [.setCounter 1, .xor (zeros 100)] = ([[], xorStream vecKey vecNonce 1 (zeros 100)], none) :=
  oneshot_rfc8439 1 (by decide) vecKey vecNonce rfl rfl 1 (zeros 100)
    (by have : (zeros 100).length = 100 := by simp only [zeros, List.length_replicate]
        rw [this]; decide)

example : ∃ c, newCipher 4 vecKey (vecNonce ++ vecNonce) = some c ∧
    run 4 c [.setCounter 7, .xor (zeros 300)] =
      ([[], xorStream (xkey vecKey (vecNonce ++ vecNonce)) (xnonce (vecNonce ++ vecNonce)) 7 (zeros 300)], none) :=
  oneshot_xchacha 4 (by decide) vecKey (vecNonce ++ vecNonce) rfl rfl 7 (zeros 300)
    (by have : (zeros 300).length = 300 := by simp only [zeros, List.length_replicate]
        rw [this]; decide)

/-- instance of `setCounter_panics_iff` / rollback: after 65 bytes the current block is 2, so SetCounter(1) panics
    and SetCounter(2) does not -/
example (k : KeyW) (n : NonceW) (b : Bytes) (hb : b.length = 65) :
    (run 1 (mkCipher 1 k n) [.xor b, .setCounter 1]).2 = some .rollback ∧
    (run 1 (mkCipher 1 k n) [.xor b, .setCounter 2]).2 = none := by
  rw [history_from_new 1 (by decide), history_from_new 1 (by decide)]
  have h := specStep_xor_ok k n 0 b (by simp [hb, limit])
  simp only [specRun, h, hb]
  constructor <;> simp [specStep, limit]

end XC.C03
