/-
  C50 — property theorems over XC.Model.C50: for every server reply sequence, every backoff policy,
  every cancellation point and every choice `pick` of the pool element that popNonce removes.
-/
import XC.Model.C50
namespace XC.C50

/-! ## the nonce pool: a bounded set -/

/-- **pool_bounded**: `addNonce` never grows the pool beyond 100 entries. -/
theorem pool_bounded (pool : List String) (v : Option String) (h : pool.length ≤ maxNonces) :
    (addNonce pool v).length ≤ maxNonces := by
  unfold addNonce
  cases v with
  | none => exact h
  | some v =>
    simp only
    split
    · exact h
    · split
      · exact h
      · simp only [List.length_cons]; unfold maxNonces at *; omega

theorem addNonce_nodup (pool : List String) (v : Option String) (h : pool.Nodup) :
    (addNonce pool v).Nodup := by
  unfold addNonce
  cases v with
  | none => exact h
  | some v =>
    simp only
    split
    · exact h
    · split
      · exact h
      · rename_i hc
        exact List.nodup_cons.2 ⟨by simpa using hc, h⟩

theorem addNonce_mem (pool : List String) (v : Option String) (x : String) (h : x ∈ addNonce pool v) :
    x ∈ pool ∨ v = some x := by
  unfold addNonce at h
  cases v with
  | none => exact Or.inl h
  | some v =>
    simp only at h
    split at h
    · exact Or.inl h
    · split at h
      · exact Or.inl h
      · simp only [List.mem_cons] at h
        rcases h with rfl | h
        · exact Or.inr rfl
        · exact Or.inl h

theorem addNonce_nil_length (v : Option String) : (addNonce [] v).length ≤ 1 := by
  unfold addNonce
  cases v with
  | none => simp
  | some v => simp only; split <;> simp

/-! ## the wire log -/

/-- every nonce a request carries was received in a response *earlier* in the log -/
def WF : List Ev → Prop
  | [] => True
  | .rep _ :: l => WF l
  | .req r :: l => (∀ v, r.nonce = some v → v ∈ issuedOf l) ∧ WF l

theorem used_sub_issued (l : List Ev) (h : WF l) : ∀ v ∈ usedOf l, v ∈ issuedOf l := by
  induction l with
  | nil => simp [usedOf]
  | cons e l ih =>
    cases e with
    | rep p =>
      intro v hv
      have := ih h v (by simpa [usedOf] using hv)
      simp only [issuedOf]
      cases p.nonce <;> simp [this]
    | req r =>
      obtain ⟨h1, h2⟩ := h
      intro v hv
      simp only [usedOf] at hv
      simp only [issuedOf]
      cases hn : r.nonce with
      | none => rw [hn] at hv; exact ih h2 v hv
      | some w =>
        rw [hn] at hv
        simp only [List.mem_cons] at hv
        rcases hv with rfl | hv
        · exact h1 _ hn
        · exact ih h2 v hv

/-- the server has not yet repeated itself and will not: the nonces still to come are pairwise
    distinct and differ from all nonces already sent -/
def FreshScript (st : St) : Prop :=
  (scriptNonces st.script).Nodup ∧ ∀ v ∈ scriptNonces st.script, v ∉ issuedOf st.log

/-- The invariant of a single-goroutine client. `D` is the hypothesis "the server never issues a
    nonce value twice" (a fact about the initial script), under which the `fresh` part holds. -/
structure Inv (D : Prop) (st : St) : Prop where
  pool_issued : ∀ v ∈ st.pool, v ∈ issuedOf st.log
  wf : WF st.log
  nodup : st.pool.Nodup
  le_one : st.pool.length ≤ 1
  fresh : D → FreshScript st ∧ (∀ v ∈ st.pool, v ∉ usedOf st.log) ∧ (usedOf st.log).Nodup

/-- a nonce the client holds for its next signed request -/
def Hand (D : Prop) (st : St) (v : String) : Prop :=
  v ∈ issuedOf st.log ∧ (D → v ∉ usedOf st.log)

/-! ### one round trip -/

theorem serve_cases (st : St) (r : Req) :
    (serve st r = (st, .error .ctx)) ∨
    (∃ rest c e, scriptNonces st.script = scriptNonces rest ∧ (e = .transport ∨ e = .ctx) ∧
       serve st r = ({ st with log := .req r :: st.log, script := rest, cancelled := c }, .error e)) ∨
    (st.script = [] ∧ serve st r = ({ st with log := .rep defaultResp :: .req r :: st.log }, .ok defaultResp)) ∨
    (∃ p rest, st.script = .resp p :: rest ∧
       serve st r = ({ st with log := .rep p :: .req r :: st.log, script := rest }, .ok p)) := by
  unfold serve
  by_cases hc : st.cancelled
  · simp [hc]
  · simp only [hc, Bool.false_eq_true, if_false]
    cases hs : st.script with
    | nil => simp
    | cons x rest =>
      cases x with
      | fail => exact Or.inr (Or.inl ⟨rest, false, .transport, by simp [scriptNonces], Or.inl rfl, by simp [hc]⟩)
      | cancel => exact Or.inr (Or.inl ⟨rest, true, .ctx, by simp [scriptNonces], Or.inr rfl, by simp⟩)
      | resp p => exact Or.inr (Or.inr (Or.inr ⟨p, rest, rfl, by simp⟩))

theorem issuedOf_req (r : Req) (l : List Ev) : issuedOf (.req r :: l) = issuedOf l := rfl
theorem usedOf_rep (p : Resp) (l : List Ev) : usedOf (.rep p :: l) = usedOf l := rfl

theorem mem_issuedOf_rep (p : Resp) (l : List Ev) (v : String) (h : v ∈ issuedOf l) :
    v ∈ issuedOf (.rep p :: l) := by
  simp only [issuedOf]; cases p.nonce <;> simp [h]

/-- a request with nonce `nv` (none, or a nonce in hand while the pool is empty or untouched) keeps the
    invariant; afterwards the reply's nonce is "in hand" -/
theorem serve_inv (D : Prop) (st : St) (r : Req)
    (hi : Inv D st)
    (hn : ∀ v, r.nonce = some v → Hand D st v ∧ (D → v ∉ st.pool)) :
    Inv D (serve st r).1 ∧ (serve st r).1.pool = st.pool ∧
    (∀ p, (serve st r).2 = .ok p → (serve st r).1.log = .rep p :: .req r :: st.log ∧
        (∀ w, p.nonce = some w → Hand D (serve st r).1 w ∧ (D → w ∉ st.pool ∧ ∀ v, r.nonce = some v → w ≠ v))) := by
  have wf_req : WF (.req r :: st.log) := ⟨fun v hv => (hn v hv).1.1, hi.wf⟩
  have used_req : D → (usedOf (.req r :: st.log)).Nodup ∧ ∀ v ∈ st.pool, v ∉ usedOf (.req r :: st.log) := by
    intro hd
    obtain ⟨_, hpu, hun⟩ := hi.fresh hd
    simp only [usedOf]
    cases hr : r.nonce with
    | none => exact ⟨hun, hpu⟩
    | some v =>
      obtain ⟨⟨_, hnu⟩, hnp⟩ := hn v hr
      refine ⟨List.nodup_cons.2 ⟨hnu hd, hun⟩, ?_⟩
      intro x hx
      simp only [List.mem_cons, not_or]
      exact ⟨fun e => hnp hd (e ▸ hx), hpu x hx⟩
  rcases serve_cases st r with h | ⟨rest, c, e, hs, _, h⟩ | ⟨hs, h⟩ | ⟨p, rest, hs, h⟩
  · rw [h]; exact ⟨hi, rfl, fun p hp => by simp at hp⟩
  · rw [h]
    refine ⟨⟨fun v hv => hi.pool_issued v hv, wf_req, hi.nodup, hi.le_one, ?_⟩, rfl, fun p hp => by simp at hp⟩
    intro hd
    obtain ⟨⟨hf1, hf2⟩, _, _⟩ := hi.fresh hd
    rw [hs] at hf1 hf2
    exact ⟨⟨hf1, fun v hv => hf2 v hv⟩, (used_req hd).2, (used_req hd).1⟩
  · rw [h]
    refine ⟨⟨fun v hv => mem_issuedOf_rep _ _ _ (hi.pool_issued v hv), wf_req, hi.nodup, hi.le_one, ?_⟩, rfl, ?_⟩
    · intro hd
      obtain ⟨⟨hf1, hf2⟩, _, _⟩ := hi.fresh hd
      refine ⟨⟨hf1, ?_⟩, (used_req hd).2, (used_req hd).1⟩
      intro v hv
      rw [hs] at hv; simp [scriptNonces] at hv
    · intro p hp
      simp only [Except.ok.injEq] at hp
      subst hp
      exact ⟨rfl, fun w hw => by simp [defaultResp, Resp.nonce, nonceFromHeader] at hw⟩
  · rw [h]
    have hmono : ∀ v, v ∈ issuedOf st.log → v ∈ issuedOf (.rep p :: .req r :: st.log) :=
      fun v hv => mem_issuedOf_rep _ _ _ hv
    refine ⟨⟨fun v hv => hmono v (hi.pool_issued v hv), wf_req, hi.nodup, hi.le_one, ?_⟩, rfl, ?_⟩
    · intro hd
      obtain ⟨⟨hf1, hf2⟩, _, _⟩ := hi.fresh hd
      rw [hs] at hf1 hf2
      refine ⟨⟨?_, ?_⟩, (used_req hd).2, (used_req hd).1⟩
      · simp only [scriptNonces] at hf1
        cases hpn : p.nonce with
        | none => simpa [hpn] using hf1
        | some w => rw [hpn] at hf1; exact (List.nodup_cons.1 hf1).2
      · intro v hv
        simp only [scriptNonces] at hf1 hf2
        simp only [issuedOf]
        cases hpn : p.nonce with
        | none =>
          rw [hpn] at hf2
          exact hf2 v hv
        | some w =>
          rw [hpn] at hf1 hf2
          simp only [List.mem_cons, not_or]
          refine ⟨?_, hf2 v (List.mem_cons_of_mem _ hv)⟩
          intro e; subst e
          exact (List.nodup_cons.1 hf1).1 hv
    · intro q hq
      simp only [Except.ok.injEq] at hq
      subst hq
      refine ⟨rfl, ?_⟩
      intro w hw
      refine ⟨⟨by simp [issuedOf, hw], ?_⟩, ?_⟩
      · intro hd
        obtain ⟨⟨hf1, hf2⟩, _, _⟩ := hi.fresh hd
        rw [hs] at hf2
        have hwnew : w ∉ issuedOf st.log := hf2 w (by simp [scriptNonces, hw])
        intro hu
        exact hwnew (used_sub_issued _ wf_req w hu)
      · intro hd
        obtain ⟨⟨hf1, hf2⟩, _, _⟩ := hi.fresh hd
        rw [hs] at hf2
        have hwnew : w ∉ issuedOf st.log := hf2 w (by simp [scriptNonces, hw])
        refine ⟨fun hp => hwnew (hi.pool_issued w hp), ?_⟩
        intro v hv e
        subst e
        exact hwnew (hn w hv).1.1


/-! ### the client functions keep the invariant -/

theorem Inv.congr {D : Prop} {st st' : St} (h1 : st'.pool = st.pool) (h2 : st'.script = st.script)
    (h3 : st'.log = st.log) (hi : Inv D st) : Inv D st' := by
  obtain ⟨a, b, c, d, e⟩ := hi
  refine ⟨?_, ?_, ?_, ?_, ?_⟩
  · rw [h1, h3]; exact a
  · rw [h3]; exact b
  · rw [h1]; exact c
  · rw [h1]; exact d
  · intro hd
    obtain ⟨⟨f1, f2⟩, g, h⟩ := e hd
    refine ⟨⟨?_, ?_⟩, ?_, ?_⟩
    · rw [h2]; exact f1
    · rw [h2, h3]; exact f2
    · rw [h1, h3]; exact g
    · rw [h3]; exact h

theorem Inv.clear {D : Prop} {st : St} (hi : Inv D st) : Inv D { st with pool := [] } := by
  obtain ⟨a, b, c, d, e⟩ := hi
  refine ⟨by simp, b, by simp, by simp, ?_⟩
  intro hd
  obtain ⟨f, g, h⟩ := e hd
  exact ⟨f, by simp, h⟩

theorem Hand.congr {D : Prop} {st st' : St} {v : String} (h3 : st'.log = st.log) (h : Hand D st v) :
    Hand D st' v := by
  unfold Hand at *; rw [h3]; exact h

theorem fetchNonce_inv (D : Prop) (st : St) (url : String) (hi : Inv D st) :
    Inv D (fetchNonce st url).1 ∧ (fetchNonce st url).1.pool = st.pool ∧
    ∀ v, (fetchNonce st url).2 = .ok v → Hand D (fetchNonce st url).1 v ∧ (D → v ∉ st.pool) := by
  have hs := serve_inv D st ⟨.head, url, none, false⟩ hi (by simp)
  unfold fetchNonce
  generalize hx : serve st ⟨.head, url, none, false⟩ = x at hs
  obtain ⟨st', res⟩ := x
  cases res with
  | error e => exact ⟨hs.1, hs.2.1, by simp⟩
  | ok p =>
    obtain ⟨h1, h2, h3⟩ := hs
    have h4 := (h3 p rfl).2
    simp only at h1 h2 h4 ⊢
    cases hn : p.nonce with
    | none =>
      simp only
      split <;> exact ⟨h1, h2, by simp⟩
    | some w =>
      simp only
      refine ⟨h1, h2, ?_⟩
      intro v hv
      simp only [Except.ok.injEq] at hv
      subst hv
      exact ⟨(h4 w hn).1, fun hd => ((h4 w hn).2 hd).1⟩

theorem popNonce_inv (D : Prop) (cfg : Cfg) (st : St) (url : String) (hi : Inv D st) :
    Inv D (popNonce cfg st url).1 ∧
    ∀ v, (popNonce cfg st url).2 = .ok v →
      Hand D (popNonce cfg st url).1 v ∧ (popNonce cfg st url).1.pool = [] := by
  unfold popNonce
  by_cases he : st.pool.isEmpty
  · have hp : st.pool = [] := by simpa using he
    simp only [he, if_true]
    split
    · have := fetchNonce_inv D st nonceURL hi
      exact ⟨this.1, fun v hv => ⟨(this.2.2 v hv).1, by rw [this.2.1, hp]⟩⟩
    · have h1 := fetchNonce_inv D st dirURL hi
      generalize hx : fetchNonce st dirURL = x at h1
      obtain ⟨st', res⟩ := x
      cases res with
      | ok v =>
        simp only
        exact ⟨h1.1, fun v hv => ⟨(h1.2.2 v hv).1, by rw [h1.2.1, hp]⟩⟩
      | error e =>
        simp only
        split
        · have h2 := fetchNonce_inv D st' url h1.1
          exact ⟨h2.1, fun v hv => ⟨(h2.2.2 v hv).1, by rw [h2.2.1, h1.2.1, hp]⟩⟩
        · exact ⟨h1.1, by simp⟩
  · simp only [he, Bool.false_eq_true, if_false]
    have hl := hi.le_one
    cases hp : st.pool with
    | nil => simp [hp] at he
    | cons x r =>
      have hr : r = [] := by
        rw [hp] at hl; simp only [List.length_cons] at hl
        exact List.eq_nil_of_length_eq_zero (by omega)
      subst hr
      have hx : x ∈ st.pool := by rw [hp]; simp
      simp only [List.length_cons, List.length_nil, Nat.zero_add, Nat.mod_one, List.eraseIdx_zero,
        List.tail_cons, List.getD_cons_zero]
      refine ⟨?_, ?_⟩
      · have := Inv.clear hi
        exact this
      · intro v hv
        simp only [Except.ok.injEq] at hv
        subst hv
        exact ⟨⟨hi.pool_issued _ hx, fun hd => (hi.fresh hd).2.1 _ hx⟩, by trivial⟩

theorem backoff_fields (cfg : Cfg) (st : St) (n : Nat) :
    (backoff cfg st n).1.pool = st.pool ∧ (backoff cfg st n).1.script = st.script ∧
    (backoff cfg st n).1.log = st.log := by
  simp [backoff]

theorem afterReply_inv (D : Prop) (cfg : Cfg) (c : Bool) (n : Nat) (st : St) (p : Resp) (hi : Inv D st) :
    Inv D (afterReply cfg c n st p).1 := by
  unfold afterReply
  simp only
  split
  · exact hi
  · have hb : ∀ s : St, Inv D s → Inv D (backoff cfg s (n + 1)).1 := fun s hs =>
      Inv.congr (backoff_fields cfg s _).1 (backoff_fields cfg s _).2.1 (backoff_fields cfg s _).2.2 hs
    apply hb
    split
    · exact Inv.clear hi
    · exact hi

theorem Inv.addNonce {D : Prop} {st : St} (hi : Inv D st) (hp : st.pool = []) (v : Option String)
    (hw : ∀ w, v = some w → Hand D st w) : Inv D { st with pool := addNonce st.pool v } := by
  rw [hp]
  refine ⟨?_, hi.wf, addNonce_nodup _ _ (by simp), addNonce_nil_length _, ?_⟩
  · intro x hx
    rcases addNonce_mem _ _ _ hx with h | h
    · simp at h
    · exact (hw x h).1
  · intro hd
    obtain ⟨f, _, u⟩ := hi.fresh hd
    refine ⟨f, ?_, u⟩
    intro x hx
    rcases addNonce_mem _ _ _ hx with h | h
    · simp at h
    · exact (hw x h).2 hd

theorem afterReply_not_ok (cfg : Cfg) (c : Bool) (n : Nat) (st : St) (p q : Resp) :
    (afterReply cfg c n st p).2 ≠ .done (.ok q) := by
  unfold afterReply
  simp only
  split
  · simp
  · simp only
    generalize (backoff cfg (if (c && isBadNonce p.prob) = true then { st with pool := [] } else st) (n + 1)).2 = b
    cases b <;> simp

theorem postStep_inv (D : Prop) (cfg : Cfg) (resolve : St → St × Bool) (url : String) (ok : List Nat)
    (n : Nat) (st : St) (hres : ∀ s, Inv D s → Inv D (resolve s).1) (hi : Inv D st) :
    Inv D (postStep cfg resolve url ok n st).1 := by
  unfold postStep
  have h0 := hres st hi
  generalize resolve st = x at h0
  obtain ⟨s0, kidForm⟩ := x
  simp only at h0 ⊢
  have h1 := popNonce_inv D cfg s0 url h0
  generalize popNonce cfg s0 url = x at h1
  obtain ⟨s1, r1⟩ := x
  cases r1 with
  | error e => exact h1.1
  | ok nonce =>
    obtain ⟨hi1, h1b⟩ := h1
    obtain ⟨hh, hp⟩ := h1b nonce rfl
    simp only at hi1 hh hp ⊢
    have h2 := serve_inv D s1 ⟨.post, url, some nonce, kidForm⟩ hi1
      (by intro v hv; simp only [Option.some.injEq] at hv; subst hv; exact ⟨hh, fun _ => by rw [hp]; simp⟩)
    generalize serve s1 ⟨.post, url, some nonce, kidForm⟩ = x at h2
    obtain ⟨s2, r2⟩ := x
    cases r2 with
    | error e => exact h2.1
    | ok p =>
      obtain ⟨hi2, hp2, h2c⟩ := h2
      obtain ⟨hlog, hw⟩ := h2c p rfl
      simp only at hi2 hp2 hlog hw ⊢
      have hpool : s2.pool = [] := by rw [hp2, hp]
      -- the invariant after addNonce
      have hi3 : Inv D { s2 with pool := addNonce s2.pool p.nonce } :=
        Inv.addNonce hi2 hpool p.nonce (fun w hw' => (hw w hw').1)
      split
      · exact hi3
      · exact afterReply_inv D cfg true n _ p hi3

theorem postLoop_inv (D : Prop) (cfg : Cfg) (resolve : St → St × Bool) (url : String) (ok : List Nat)
    (hres : ∀ s, Inv D s → Inv D (resolve s).1) (n : Nat) (st : St) (hi : Inv D st) :
    Inv D (postLoop cfg resolve url ok n st).1 := by
  induction hm : cfg.backoffOK + 1 - n using Nat.strongRecOn generalizing n st with
  | _ m ih =>
    rw [postLoop]
    have h := postStep_inv D cfg resolve url ok n st hres hi
    generalize postStep cfg resolve url ok n st = x at h
    obtain ⟨s, r⟩ := x
    cases r with
    | done r => exact h
    | again last =>
      simp only
      split
      · exact ih (cfg.backoffOK + 1 - (n + 1)) (by omega) (n + 1) s h rfl
      · exact h

theorem resolveJWK_inv (D : Prop) : ∀ s, Inv D s → Inv D (resolveJWK s).1 := fun _ h => h

theorem accountKID_inv (D : Prop) (cfg : Cfg) : ∀ s, Inv D s → Inv D (accountKID cfg s).1 := by
  intro s hi
  unfold accountKID
  split
  · exact hi
  · have := postLoop_inv D cfg resolveJWK acctURL [200] (resolveJWK_inv D) 0 s hi
    generalize postLoop cfg resolveJWK acctURL [200] 0 s = x at this
    obtain ⟨s', r⟩ := x
    cases r with
    | ok p =>
      simp only
      split
      · exact this
      · exact Inv.congr (st := s') rfl rfl rfl this
    | error e => exact this

theorem post_inv (D : Prop) (cfg : Cfg) (k : Bool) (url : String) (ok : List Nat) (st : St) (hi : Inv D st) :
    Inv D (post cfg k url ok st).1 := by
  unfold post
  apply postLoop_inv D cfg _ url ok _ 0 st hi
  cases k
  · exact accountKID_inv D cfg
  · exact resolveJWK_inv D

theorem getStep_inv (D : Prop) (cfg : Cfg) (url : String) (ok : List Nat) (n : Nat) (st : St) (hi : Inv D st) :
    Inv D (getStep cfg url ok n st).1 ∧
    ∀ p, (getStep cfg url ok n st).2 = .done (.ok p) → ∀ w, p.nonce = some w → Hand D (getStep cfg url ok n st).1 w := by
  unfold getStep
  have h := serve_inv D st ⟨.get, url, none, false⟩ hi (by simp)
  generalize serve st ⟨.get, url, none, false⟩ = x at h
  obtain ⟨s, r⟩ := x
  cases r with
  | error e => exact ⟨h.1, by simp⟩
  | ok p =>
    simp only at h ⊢
    split
    · refine ⟨h.1, ?_⟩
      intro q hq w hw
      simp only [StepRes.done.injEq, Except.ok.injEq] at hq
      subst hq
      exact ((h.2.2 p rfl).2 w hw).1
    · exact ⟨afterReply_inv D cfg false n _ p h.1, fun q hq => absurd hq (afterReply_not_ok _ _ _ _ _ _)⟩

theorem getLoop_inv (D : Prop) (cfg : Cfg) (url : String) (ok : List Nat) (n : Nat) (st : St) (hi : Inv D st) :
    Inv D (getLoop cfg url ok n st).1 ∧
    ∀ p, (getLoop cfg url ok n st).2 = .ok p → ∀ w, p.nonce = some w → Hand D (getLoop cfg url ok n st).1 w := by
  induction hm : cfg.backoffOK + 1 - n using Nat.strongRecOn generalizing n st with
  | _ m ih =>
    rw [getLoop]
    have h := getStep_inv D cfg url ok n st hi
    generalize getStep cfg url ok n st = x at h
    obtain ⟨s, r⟩ := x
    cases r with
    | done r =>
      simp only at h ⊢
      refine ⟨h.1, ?_⟩
      intro p hp
      subst hp
      exact h.2 p rfl
    | again last =>
      simp only at h ⊢
      split
      · exact ih (cfg.backoffOK + 1 - (n + 1)) (by omega) (n + 1) s h.1 rfl
      · exact ⟨h.1, by simp⟩

/-! ### `dir` is only set by `Discover`; `get` leaves the pool alone -/

theorem serve_dir (st : St) (r : Req) : (serve st r).1.dir = st.dir ∧ (serve st r).1.pool = st.pool := by
  rcases serve_cases st r with h | ⟨_, _, _, _, _, h⟩ | ⟨_, h⟩ | ⟨_, _, _, h⟩ <;> rw [h] <;> exact ⟨rfl, rfl⟩

theorem fetchNonce_dir (st : St) (url : String) : (fetchNonce st url).1.dir = st.dir := by
  unfold fetchNonce
  have := (serve_dir st ⟨.head, url, none, false⟩).1
  generalize serve st ⟨.head, url, none, false⟩ = x at this
  obtain ⟨s, r⟩ := x
  cases r with
  | error e => exact this
  | ok p =>
    simp only at this ⊢
    cases p.nonce with
    | none => simp only; split <;> exact this
    | some w => exact this

theorem popNonce_dir (cfg : Cfg) (st : St) (url : String) : (popNonce cfg st url).1.dir = st.dir := by
  unfold popNonce
  split
  · split
    · exact fetchNonce_dir _ _
    · have h1 := fetchNonce_dir st dirURL
      generalize fetchNonce st dirURL = x at h1
      obtain ⟨s, r⟩ := x
      cases r with
      | ok v => exact h1
      | error e =>
        simp only at h1 ⊢
        split
        · rw [fetchNonce_dir, h1]
        · exact h1
  · rfl

theorem backoff_dir (cfg : Cfg) (st : St) (n : Nat) : (backoff cfg st n).1.dir = st.dir := by
  simp [backoff]

theorem afterReply_dir (cfg : Cfg) (c : Bool) (n : Nat) (st : St) (p : Resp) :
    (afterReply cfg c n st p).1.dir = st.dir ∧ (c = false → (afterReply cfg c n st p).1.pool = st.pool) := by
  unfold afterReply
  simp only
  split
  · exact ⟨rfl, fun _ => rfl⟩
  · refine ⟨?_, ?_⟩
    · rw [backoff_dir]; split <;> rfl
    · intro hc; subst hc
      simp only [Bool.false_and, Bool.false_eq_true, if_false]
      exact (backoff_fields cfg st _).1

theorem postStep_dir (cfg : Cfg) (resolve : St → St × Bool) (url : String) (ok : List Nat) (n : Nat) (st : St)
    (hres : ∀ s, (resolve s).1.dir = s.dir) : (postStep cfg resolve url ok n st).1.dir = st.dir := by
  unfold postStep
  have h0 := hres st
  generalize resolve st = x at h0
  obtain ⟨s0, k⟩ := x
  simp only at h0 ⊢
  have h1 := popNonce_dir cfg s0 url
  generalize popNonce cfg s0 url = x at h1
  obtain ⟨s1, r1⟩ := x
  cases r1 with
  | error e => simp only at h1 ⊢; rw [h1, h0]
  | ok v =>
    simp only at h1 ⊢
    have h2 := (serve_dir s1 ⟨.post, url, some v, k⟩).1
    generalize serve s1 ⟨.post, url, some v, k⟩ = x at h2
    obtain ⟨s2, r2⟩ := x
    cases r2 with
    | error e => simp only at h2 ⊢; rw [h2, h1, h0]
    | ok p =>
      simp only at h2 ⊢
      split
      · simp only; rw [h2, h1, h0]
      · rw [(afterReply_dir cfg true n _ p).1]; simp only; rw [h2, h1, h0]

theorem postLoop_dir (cfg : Cfg) (resolve : St → St × Bool) (url : String) (ok : List Nat)
    (hres : ∀ s, (resolve s).1.dir = s.dir) (n : Nat) (st : St) :
    (postLoop cfg resolve url ok n st).1.dir = st.dir := by
  induction hm : cfg.backoffOK + 1 - n using Nat.strongRecOn generalizing n st with
  | _ m ih =>
    rw [postLoop]
    have h := postStep_dir cfg resolve url ok n st hres
    generalize postStep cfg resolve url ok n st = x at h
    obtain ⟨s, r⟩ := x
    cases r with
    | done r => exact h
    | again last =>
      simp only at h ⊢
      split
      · rw [ih (cfg.backoffOK + 1 - (n + 1)) (by omega) (n + 1) s rfl, h]
      · exact h

theorem accountKID_dir (cfg : Cfg) (s : St) : (accountKID cfg s).1.dir = s.dir := by
  unfold accountKID
  split
  · rfl
  · have := postLoop_dir cfg resolveJWK acctURL [200] (fun _ => rfl) 0 s
    generalize postLoop cfg resolveJWK acctURL [200] 0 s = x at this
    obtain ⟨s', r⟩ := x
    cases r with
    | ok p => simp only; split <;> exact this
    | error e => exact this

theorem post_dir (cfg : Cfg) (k : Bool) (url : String) (ok : List Nat) (st : St) :
    (post cfg k url ok st).1.dir = st.dir := by
  unfold post
  apply postLoop_dir
  cases k
  · exact accountKID_dir cfg
  · exact fun _ => rfl

theorem getStep_fields (cfg : Cfg) (url : String) (ok : List Nat) (n : Nat) (st : St) :
    (getStep cfg url ok n st).1.dir = st.dir ∧ (getStep cfg url ok n st).1.pool = st.pool := by
  unfold getStep
  have h := serve_dir st ⟨.get, url, none, false⟩
  generalize serve st ⟨.get, url, none, false⟩ = x at h
  obtain ⟨s, r⟩ := x
  cases r with
  | error e => exact h
  | ok p =>
    simp only at h ⊢
    split
    · exact h
    · have := afterReply_dir cfg false n s p
      exact ⟨by rw [this.1, h.1], by rw [this.2 rfl, h.2]⟩

theorem getLoop_fields (cfg : Cfg) (url : String) (ok : List Nat) (n : Nat) (st : St) :
    (getLoop cfg url ok n st).1.dir = st.dir ∧ (getLoop cfg url ok n st).1.pool = st.pool := by
  induction hm : cfg.backoffOK + 1 - n using Nat.strongRecOn generalizing n st with
  | _ m ih =>
    rw [getLoop]
    have h := getStep_fields cfg url ok n st
    generalize getStep cfg url ok n st = x at h
    obtain ⟨s, r⟩ := x
    cases r with
    | done r => exact h
    | again last =>
      simp only at h ⊢
      split
      · have := ih (cfg.backoffOK + 1 - (n + 1)) (by omega) (n + 1) s rfl
        exact ⟨by rw [this.1, h.1], by rw [this.2, h.2]⟩
      · exact h

/-- the full invariant: `Inv` plus "no directory yet ⇒ empty pool" -/
def Inv2 (D : Prop) (st : St) : Prop := Inv D st ∧ (st.dir = false → st.pool = [])

theorem discover_inv (D : Prop) (cfg : Cfg) (st : St) (hi : Inv2 D st) :
    Inv2 D (discover cfg st).1 ∧ (∀ u, (discover cfg st).2 = .ok u → (discover cfg st).1.dir = true) := by
  unfold discover
  by_cases hd : st.dir
  · simp only [hd, if_true]; exact ⟨hi, fun _ _ => by trivial⟩
  · simp only [hd, Bool.false_eq_true, if_false]
    have hpool : st.pool = [] := hi.2 (by simpa using hd)
    have h1 := getLoop_inv D cfg dirURL [200] 0 st hi.1
    have h2 := getLoop_fields cfg dirURL [200] 0 st
    generalize hx : getLoop cfg dirURL [200] 0 st = x at h1 h2
    obtain ⟨s, r⟩ := x
    cases r with
    | error e =>
      simp only at h1 h2 ⊢
      refine ⟨⟨h1.1, fun _ => by rw [h2.2, hpool]⟩, by simp⟩
    | ok p =>
      simp only at h1 h2 ⊢
      refine ⟨⟨?_, by simp⟩, fun _ _ => by trivial⟩
      have := Inv.addNonce h1.1 (by rw [h2.2, hpool]) p.nonce (h1.2 p rfl)
      exact Inv.congr (st := { s with pool := addNonce s.pool p.nonce }) rfl rfl rfl this


/-- invariant plus "the directory is known" — what holds between the requests of a public call -/
def Good (D : Prop) (st : St) : Prop := Inv D st ∧ st.dir = true

theorem Good.inv2 {D : Prop} {st : St} (h : Good D st) : Inv2 D st :=
  ⟨h.1, fun hd => by rw [h.2] at hd; simp at hd⟩

theorem post_good (D : Prop) (cfg : Cfg) (k : Bool) (url : String) (ok : List Nat) (st : St)
    (h : Good D st) : Good D (post cfg k url ok st).1 :=
  ⟨post_inv D cfg k url ok st h.1, by rw [post_dir, h.2]⟩

theorem accountKID_good (D : Prop) (cfg : Cfg) (st : St) (h : Good D st) : Good D (accountKID cfg st).1 :=
  ⟨accountKID_inv D cfg st h.1, by rw [accountKID_dir, h.2]⟩

theorem runSimple_good (D : Prop) (cfg : Cfg) (s : Simple) (st : St) (h : Good D st) :
    Good D (runSimple cfg s st).1 := by
  unfold runSimple
  have hgo : ∀ url st', Good D st' → Good D
      (match post cfg s.explicitKey url s.ok st' with
        | (st, .ok p) =>
          if s.decode && p.body == "bad" then (st, Outcome.err .other)
          else if s.decode && !s.okStates.isEmpty && !s.okStates.contains (bodyStatus p.body) then (st, .err .other)
          else (st, if s.decode then .okBody p.body else .ok)
        | (st, .error (.status c pr)) =>
          if s.soft != "" && pr == s.soft then
            (st, match s.softErr with | none => Outcome.ok | some e => .err e)
          else (st, .err (.status c pr))
        | (st, .error e) => (st, .err e)).1 := by
    intro url st' h'
    have := post_good D cfg s.explicitKey url s.ok st' h'
    generalize post cfg s.explicitKey url s.ok st' = x at this
    obtain ⟨s1, r⟩ := x
    cases r with
    | ok p => simp only; split <;> first | exact this | (split <;> exact this)
    | error e => cases e <;> simp only <;> first | exact this | (split <;> exact this)
  simp only
  split
  · have hk := accountKID_good D cfg st h
    generalize accountKID cfg st = x at hk
    obtain ⟨s1, k⟩ := x
    cases k
    · exact hk
    · exact hgo s.url s1 hk
  · exact hgo s.url st h

theorem pollLoop_good (D : Prop) (cfg : Cfg) (url : String) (ok : List Nat) (final : List String)
    (fuel : Nat) (st : St) (h : Good D st) : Good D (pollLoop cfg url ok final fuel st).1 := by
  induction fuel generalizing st with
  | zero => exact h
  | succ f ih =>
    unfold pollLoop
    have hp := post_good D cfg false url ok st h
    generalize post cfg false url ok st = x at hp
    obtain ⟨s1, r⟩ := x
    cases r with
    | error e => exact hp
    | ok p =>
      simp only
      split
      · exact ih s1 hp
      · split
        · exact hp
        · split
          · exact hp
          · exact ih s1 hp

theorem runCall_inv (D : Prop) (cfg : Cfg) (st : St) (c : Call) (hi : Inv2 D st) :
    Inv2 D (runCall cfg st c).1 := by
  unfold runCall
  have h := discover_inv D cfg st hi
  generalize discover cfg st = x at h
  obtain ⟨s, r⟩ := x
  cases r with
  | error e => exact h.1
  | ok u =>
    have hg : Good D s := ⟨h.1.1, h.2 u rfl⟩
    simp only
    cases c with
    | discover => exact h.1
    | simple sp => exact (runSimple_good D cfg sp s hg).inv2
    | register =>
      have := post_good D cfg true acctURL [200, 201] s hg
      generalize post cfg true acctURL [200, 201] s = y at this
      obtain ⟨s', r'⟩ := y
      cases r' with
      | error e => exact this.inv2
      | ok p =>
        simp only
        split
        · exact this.inv2
        · exact (show Good D { s' with kid := true } from ⟨Inv.congr (st := s') rfl rfl rfl this.1, this.2⟩).inv2
    | waitAuthz => exact (pollLoop_good D cfg _ _ _ _ s hg).inv2
    | waitOrder => exact (pollLoop_good D cfg _ _ _ _ s hg).inv2
    | createOrderCert =>
      have h1 := post_good D cfg false "fin" [200] s hg
      generalize post cfg false "fin" [200] s = y at h1
      obtain ⟨s1, r1⟩ := y
      cases r1 with
      | error e => exact h1.inv2
      | ok p =>
        simp only
        split
        · exact h1.inv2
        · have h2 : Good D (if bodyStatus p.body == "valid" then (s1, Outcome.okBody p.body) else waitOrder cfg "loc" s1).1 := by
            split
            · exact h1
            · exact pollLoop_good D cfg _ _ _ _ s1 h1
          generalize (if bodyStatus p.body == "valid" then (s1, Outcome.okBody p.body) else waitOrder cfg "loc" s1) = z at h2
          obtain ⟨s2, o2⟩ := z
          cases o2 with
          | ok => exact h2.inv2
          | err e => exact h2.inv2
          | okBody b =>
            simp only
            split
            · exact h2.inv2
            · have h3 := post_good D cfg false (if hasMember b "crt" then "cert" else "") [200] s2 h2
              generalize post cfg false (if hasMember b "crt" then "cert" else "") [200] s2 = w at h3
              obtain ⟨s3, r3⟩ := w
              cases r3 with
              | error e => exact h3.inv2
              | ok q => simp only; split <;> split <;> exact h3.inv2

theorem runCalls_inv (D : Prop) (cfg : Cfg) (calls : List Call) (st : St) (hi : Inv2 D st) :
    Inv2 D (runCalls cfg st calls).1 := by
  induction calls generalizing st with
  | nil => exact hi
  | cons c cs ih =>
    simp only [runCalls]
    have h := runCall_inv D cfg st c hi
    generalize runCall cfg st c = x at h
    obtain ⟨s, o⟩ := x
    have h2 := ih s h
    generalize runCalls cfg s cs = y at h2
    obtain ⟨s', os⟩ := y
    exact h2

/-- a fresh client talking to a server that will send `script` -/
def initSt (script : List Reply) (kid : Bool) : St := { pool := [], script := script, log := [], kid := kid }

theorem init_inv (script : List Reply) (kid : Bool) : Inv2 (scriptNonces script).Nodup (initSt script kid) := by
  refine ⟨⟨by simp [initSt], trivial, by simp [initSt], by simp [initSt], ?_⟩, fun _ => rfl⟩
  intro hd
  exact ⟨⟨hd, by simp [initSt, issuedOf]⟩, by simp [initSt], by simp [initSt, usedOf]⟩

/-- **nonce_from_server.** Whatever the server answers, whatever the backoff policy, cancellation point
    and call sequence: every nonce the client puts into a signed request was received in a
    Replay-Nonce header of an earlier response (POST, GET directory or HEAD). -/
theorem nonce_from_server (cfg : Cfg) (script : List Reply) (kid : Bool) (calls : List Call) :
    WF (runCalls cfg (initSt script kid) calls).1.log :=
  (runCalls_inv _ cfg calls _ (init_inv script kid)).1.wf

/-- **no_reuse.** If the server never issues the same nonce value twice, the client never sends a nonce
    twice — across retries, badNonce recoveries, failed requests and all calls of the session. -/
theorem no_reuse (cfg : Cfg) (script : List Reply) (kid : Bool) (calls : List Call)
    (hd : (scriptNonces script).Nodup) :
    (usedOf (runCalls cfg (initSt script kid) calls).1.log).Nodup :=
  ((runCalls_inv _ cfg calls _ (init_inv script kid)).1.fresh hd).2.2

/-- the sharper contrapositive: a repeated nonce on the wire proves the server repeated itself -/
theorem reuse_only_if_reissued (cfg : Cfg) (script : List Reply) (kid : Bool) (calls : List Call)
    (h : ¬ (usedOf (runCalls cfg (initSt script kid) calls).1.log).Nodup) :
    ¬ (scriptNonces script).Nodup :=
  fun hd => h (no_reuse cfg script kid calls hd)

/-- **pool_le_one.** A single goroutine never holds more than one spare nonce, so the unspecified
    iteration order of the Go map behind `popNonce` is never observable (`pick` is irrelevant), and the
    bound of 100 (`pool_bounded`) is never approached. -/
theorem pool_le_one (cfg : Cfg) (script : List Reply) (kid : Bool) (calls : List Call) :
    (runCalls cfg (initSt script kid) calls).1.pool.length ≤ 1 ∧
    (runCalls cfg (initSt script kid) calls).1.pool.Nodup :=
  ⟨(runCalls_inv _ cfg calls _ (init_inv script kid)).1.le_one,
   (runCalls_inv _ cfg calls _ (init_inv script kid)).1.nodup⟩


/-! ## retries are bounded -/

/-- number of logged requests satisfying `f` -/
def cnt (f : Req → Bool) (l : List Ev) : Nat := ((requestsOf l).filter f).length

def isPost (r : Req) : Bool := r.method == .post

theorem serve_cnt (f : Req → Bool) (st : St) (r : Req) :
    cnt f (serve st r).1.log ≤ cnt f st.log + (if f r then 1 else 0) := by
  rcases serve_cases st r with h | ⟨_, _, _, _, _, h⟩ | ⟨_, h⟩ | ⟨_, _, _, h⟩ <;> rw [h] <;>
    simp only [cnt, requestsOf, List.filter_cons] <;> split <;> simp

theorem fetchNonce_cnt (f : Req → Bool) (st : St) (url : String) :
    cnt f (fetchNonce st url).1.log ≤ cnt f st.log + (if f ⟨.head, url, none, false⟩ then 1 else 0) := by
  unfold fetchNonce
  have := serve_cnt f st ⟨.head, url, none, false⟩
  generalize serve st ⟨.head, url, none, false⟩ = x at this
  obtain ⟨s, r⟩ := x
  cases r with
  | error e => exact this
  | ok p =>
    simp only at this ⊢
    cases p.nonce with
    | none => simp only; split <;> exact this
    | some w => exact this

theorem popNonce_cnt (f : Req → Bool) (hf : ∀ r : Req, r.method = .head → f r = false) (cfg : Cfg) (st : St) (url : String) :
    cnt f (popNonce cfg st url).1.log ≤ cnt f st.log := by
  have hh : ∀ s u, cnt f (fetchNonce s u).1.log ≤ cnt f s.log := by
    intro s u
    have := fetchNonce_cnt f s u
    rw [hf ⟨.head, u, none, false⟩ rfl] at this
    simpa using this
  unfold popNonce
  split
  · split
    · exact hh _ _
    · have h1 := hh st dirURL
      generalize fetchNonce st dirURL = x at h1
      obtain ⟨s, r⟩ := x
      cases r with
      | ok v => exact h1
      | error e =>
        simp only at h1 ⊢
        split
        · exact Nat.le_trans (hh s url) h1
        · exact h1
  · exact Nat.le_refl _

theorem popNonce_all (cfg : Cfg) (st : St) (url : String) :
    cnt (fun _ => true) (popNonce cfg st url).1.log ≤ cnt (fun _ => true) st.log + 2 := by
  have hh : ∀ s u, cnt (fun _ => true) (fetchNonce s u).1.log ≤ cnt (fun _ => true) s.log + 1 := by
    intro s u; simpa using fetchNonce_cnt (fun _ => true) s u
  unfold popNonce
  split
  · split
    · have := hh st nonceURL; omega
    · have h1 := hh st dirURL
      generalize fetchNonce st dirURL = x at h1
      obtain ⟨s, r⟩ := x
      cases r with
      | ok v => simp only at h1 ⊢; omega
      | error e =>
        simp only at h1 ⊢
        split
        · have := hh s url; omega
        · dsimp only; omega
  · simp only; omega

theorem afterReply_log (cfg : Cfg) (c : Bool) (n : Nat) (st : St) (p : Resp) :
    (afterReply cfg c n st p).1.log = st.log := by
  unfold afterReply
  simp only
  split
  · rfl
  · rw [(backoff_fields cfg _ _).2.2]; split <;> rfl

/-- one iteration with an explicit key: at most one POST, at most three requests (two HEADs for a nonce) -/
theorem postStep_cnt (cfg : Cfg) (url : String) (ok : List Nat) (n : Nat) (st : St) :
    cnt isPost (postStep cfg resolveJWK url ok n st).1.log ≤ cnt isPost st.log + 1 ∧
    cnt (fun _ => true) (postStep cfg resolveJWK url ok n st).1.log ≤ cnt (fun _ => true) st.log + 3 := by
  unfold postStep resolveJWK
  simp only
  have h1 := popNonce_cnt isPost (by intro r hr; simp [isPost, hr]) cfg st url
  have h1' := popNonce_all cfg st url
  generalize popNonce cfg st url = x at h1 h1'
  obtain ⟨s1, r1⟩ := x
  cases r1 with
  | error e => simp only at h1 h1' ⊢; omega
  | ok v =>
    simp only at h1 h1' ⊢
    have h2 := serve_cnt isPost s1 ⟨.post, url, some v, false⟩
    have h2' := serve_cnt (fun _ => true) s1 ⟨.post, url, some v, false⟩
    generalize serve s1 ⟨.post, url, some v, false⟩ = x at h2 h2'
    obtain ⟨s2, r2⟩ := x
    have e1 : isPost ⟨.post, url, some v, false⟩ = true := rfl
    rw [e1] at h2
    simp only [if_true] at h2 h2'
    cases r2 with
    | error e => dsimp only at h2 h2' ⊢; exact ⟨by omega, by omega⟩
    | ok p =>
      dsimp only at h2 h2' ⊢
      split
      · dsimp only; exact ⟨by omega, by omega⟩
      · rw [afterReply_log]
        dsimp only; exact ⟨by omega, by omega⟩

theorem backoff_true (cfg : Cfg) (st : St) (n : Nat) (h : (backoff cfg st n).2 = true) :
    n ≤ cfg.backoffOK ∧ (backoff cfg st n).1.cancelled = false := by
  simp only [backoff, Bool.and_eq_true, decide_eq_true_eq, Bool.not_eq_true'] at h ⊢
  exact h

/-- a retry is granted only while `n + 1 ≤ backoffOK` and the context is alive -/
theorem afterReply_again (cfg : Cfg) (c : Bool) (n : Nat) (st : St) (p : Resp) (last : Err)
    (h : (afterReply cfg c n st p).2 = .again last) :
    n + 1 ≤ cfg.backoffOK ∧ (afterReply cfg c n st p).1.cancelled = false ∧ last = .status p.status p.prob := by
  unfold afterReply at h ⊢
  simp only at h ⊢
  split at h
  · simp at h
  · rename_i h0
    simp only [h0] at ⊢
    have hbt := backoff_true cfg (if (c && isBadNonce p.prob) = true then { st with pool := [] } else st) (n + 1)
    generalize backoff cfg (if (c && isBadNonce p.prob) = true then { st with pool := [] } else st) (n + 1) = x at h hbt ⊢
    obtain ⟨s, b⟩ := x
    cases b
    · simp at h
    · simp only [if_true, StepRes.again.injEq] at h
      exact ⟨(hbt rfl).1, (hbt rfl).2, h.symm⟩

/-- **retries_bounded.** One `post` with an explicit key (or a known key ID) sends at most
    `backoffOK + 1` signed requests and at most `3·(backoffOK + 1)` requests in all, whatever the
    server answers. -/
theorem postLoop_bounded (cfg : Cfg) (url : String) (ok : List Nat) (n : Nat) (st : St) (hn : n ≤ cfg.backoffOK) :
    cnt isPost (postLoop cfg resolveJWK url ok n st).1.log ≤ cnt isPost st.log + (cfg.backoffOK + 1 - n) ∧
    cnt (fun _ => true) (postLoop cfg resolveJWK url ok n st).1.log ≤
      cnt (fun _ => true) st.log + 3 * (cfg.backoffOK + 1 - n) := by
  induction hm : cfg.backoffOK + 1 - n using Nat.strongRecOn generalizing n st with
  | _ m ih =>
    rw [postLoop]
    have h := postStep_cnt cfg url ok n st
    generalize postStep cfg resolveJWK url ok n st = x at h
    obtain ⟨s, r⟩ := x
    cases r with
    | done r => simp only at h ⊢; omega
    | again last =>
      simp only at h ⊢
      split
      · rename_i hle
        have := ih (cfg.backoffOK + 1 - (n + 1)) (by omega) (n + 1) s hle rfl
        omega
      · dsimp only; omega

theorem retries_bounded (cfg : Cfg) (url : String) (ok : List Nat) (st : St) :
    cnt isPost (post cfg true url ok st).1.log ≤ cnt isPost st.log + (cfg.backoffOK + 1) ∧
    cnt (fun _ => true) (post cfg true url ok st).1.log ≤ cnt (fun _ => true) st.log + 3 * (cfg.backoffOK + 1) := by
  have := postLoop_bounded cfg url ok 0 st (Nat.zero_le _)
  simpa [post] using this

/-- one iteration with any way of choosing the key form that itself sends at most `R` signed requests -/
theorem postStep_cnt_gen (cfg : Cfg) (resolve : St → St × Bool) (R : Nat)
    (hres : ∀ s, cnt isPost (resolve s).1.log ≤ cnt isPost s.log + R)
    (url : String) (ok : List Nat) (n : Nat) (st : St) :
    cnt isPost (postStep cfg resolve url ok n st).1.log ≤ cnt isPost st.log + R + 1 := by
  unfold postStep
  have h0 := hres st
  generalize resolve st = x at h0
  obtain ⟨s0, k⟩ := x
  simp only at h0 ⊢
  have h1 := popNonce_cnt isPost (by intro r hr; simp [isPost, hr]) cfg s0 url
  generalize popNonce cfg s0 url = x at h1
  obtain ⟨s1, r1⟩ := x
  cases r1 with
  | error e => dsimp only at h1 ⊢; omega
  | ok v =>
    dsimp only at h1 ⊢
    have h2 := serve_cnt isPost s1 ⟨.post, url, some v, k⟩
    generalize serve s1 ⟨.post, url, some v, k⟩ = x at h2
    obtain ⟨s2, r2⟩ := x
    have e1 : isPost ⟨.post, url, some v, k⟩ = true := rfl
    rw [e1] at h2
    simp only [if_true] at h2
    cases r2 with
    | error e => dsimp only at h2 ⊢; omega
    | ok p =>
      dsimp only at h2 ⊢
      split
      · dsimp only; omega
      · rw [afterReply_log]; dsimp only; omega

theorem postLoop_bounded_gen (cfg : Cfg) (resolve : St → St × Bool) (R : Nat)
    (hres : ∀ s, cnt isPost (resolve s).1.log ≤ cnt isPost s.log + R)
    (url : String) (ok : List Nat) (n : Nat) (st : St) (hn : n ≤ cfg.backoffOK) :
    cnt isPost (postLoop cfg resolve url ok n st).1.log ≤ cnt isPost st.log + (R + 1) * (cfg.backoffOK + 1 - n) := by
  induction hm : cfg.backoffOK + 1 - n using Nat.strongRecOn generalizing n st with
  | _ m ih =>
    rw [postLoop]
    have h := postStep_cnt_gen cfg resolve R hres url ok n st
    generalize postStep cfg resolve url ok n st = x at h
    obtain ⟨s, r⟩ := x
    have hm1 : m = (cfg.backoffOK + 1 - (n + 1)) + 1 := by omega
    have hmul : (R + 1) * m = (R + 1) * (cfg.backoffOK + 1 - (n + 1)) + (R + 1) := by
      rw [hm1, Nat.mul_succ]
    cases r with
    | done r => dsimp only at h ⊢; omega
    | again last =>
      dsimp only at h ⊢
      split
      · rename_i hle
        have := ih (cfg.backoffOK + 1 - (n + 1)) (by omega) (n + 1) s hle rfl
        omega
      · dsimp only; omega

/-- **retries_bounded, account-key form.** With `key == nil` every iteration may first look the key ID
    up (`accountKID`, itself a bounded `post`), so one call sends at most `(backoffOK + 2)·(backoffOK + 1)`
    signed requests — still a bound that depends on the backoff policy alone. -/
theorem retries_bounded_kid (cfg : Cfg) (url : String) (ok : List Nat) (st : St) :
    cnt isPost (post cfg false url ok st).1.log ≤ cnt isPost st.log + (cfg.backoffOK + 2) * (cfg.backoffOK + 1) := by
  have hres : ∀ s, cnt isPost (accountKID cfg s).1.log ≤ cnt isPost s.log + (cfg.backoffOK + 1) := by
    intro s
    unfold accountKID
    split
    · dsimp only; omega
    · have := (postLoop_bounded cfg acctURL [200] 0 s (Nat.zero_le _)).1
      generalize postLoop cfg resolveJWK acctURL [200] 0 s = x at this
      obtain ⟨s', r⟩ := x
      cases r with
      | ok p => dsimp only at this ⊢; split <;> (dsimp only; omega)
      | error e => dsimp only at this ⊢; omega
  have := postLoop_bounded_gen cfg (accountKID cfg) (cfg.backoffOK + 1) hres url ok 0 st (Nat.zero_le _)
  simpa [post, Nat.add_assoc] using this

/-- …and a cancelled context ends the loop at the backoff: no retry is granted once it is cancelled,
    and a cancelled client sends nothing more. -/
theorem cancel_stops (cfg : Cfg) (c : Bool) (n : Nat) (st : St) (p : Resp) :
    ((afterReply cfg c n st p).1.cancelled = true → ∀ last, (afterReply cfg c n st p).2 ≠ .again last) ∧
    (∀ s : St, s.cancelled = true → ∀ r, serve s r = (s, .error .ctx)) := by
  refine ⟨?_, ?_⟩
  · intro hc last h
    have := (afterReply_again cfg c n st p last h).2.1
    rw [hc] at this; simp at this
  · intro s hs r; simp [serve, hs]


/-! ## context cancellation -/

/-- **cancel_during_roundtrip.** A reply that is still outstanding when the caller's context is cancelled
    yields the context error; the request had reached the server, the context is now cancelled. -/
theorem cancel_during_roundtrip (st : St) (r : Req) (rest : List Reply)
    (hc : st.cancelled = false) (hs : st.script = .cancel :: rest) :
    serve st r = ({ st with log := .req r :: st.log, script := rest, cancelled := true }, .error .ctx) := by
  simp [serve, hc, hs]

theorem serve_cancelled (st : St) (r : Req) (hc : st.cancelled = true) : serve st r = (st, .error .ctx) := by
  simp [serve, hc]

theorem fetchNonce_cancelled (st : St) (url : String) (hc : st.cancelled = true) :
    fetchNonce st url = (st, .error .ctx) := by
  simp [fetchNonce, serve_cancelled st _ hc]

theorem popNonce_cancelled (cfg : Cfg) (st : St) (url : String) (hc : st.cancelled = true) :
    (popNonce cfg st url).1.cancelled = true ∧ (popNonce cfg st url).1.log = st.log ∧
    (∀ e, (popNonce cfg st url).2 = .error e → e = .ctx) := by
  unfold popNonce
  split
  · split
    · simp [fetchNonce_cancelled st _ hc, hc]
    · simp only [fetchNonce_cancelled st _ hc]
      split <;> simp [fetchNonce_cancelled st _ hc, hc]
  · simp [hc]

theorem postStep_cancelled (cfg : Cfg) (resolve : St → St × Bool) (url : String) (ok : List Nat) (n : Nat) (st : St)
    (hres : ∀ s, s.cancelled = true → (resolve s).1.cancelled = true ∧ (resolve s).1.log = s.log)
    (hc : st.cancelled = true) :
    (postStep cfg resolve url ok n st).2 = .done (.error .ctx) ∧
    (postStep cfg resolve url ok n st).1.cancelled = true ∧ (postStep cfg resolve url ok n st).1.log = st.log := by
  unfold postStep
  have h0 := hres st hc
  generalize resolve st = x at h0
  obtain ⟨s0, k⟩ := x
  simp only at h0 ⊢
  have h1 := popNonce_cancelled cfg s0 url h0.1
  generalize popNonce cfg s0 url = x at h1
  obtain ⟨s1, r1⟩ := x
  cases r1 with
  | error e =>
    simp only at h1 ⊢
    rw [h1.2.2 e rfl]
    exact ⟨rfl, h1.1, by rw [h1.2.1, h0.2]⟩
  | ok v =>
    simp only at h1 ⊢
    rw [serve_cancelled s1 _ h1.1]
    exact ⟨rfl, h1.1, by rw [h1.2.1, h0.2]⟩

theorem postLoop_cancelled (cfg : Cfg) (resolve : St → St × Bool) (url : String) (ok : List Nat) (n : Nat) (st : St)
    (hres : ∀ s, s.cancelled = true → (resolve s).1.cancelled = true ∧ (resolve s).1.log = s.log)
    (hc : st.cancelled = true) :
    (postLoop cfg resolve url ok n st).2 = .error .ctx ∧
    (postLoop cfg resolve url ok n st).1.cancelled = true ∧ (postLoop cfg resolve url ok n st).1.log = st.log := by
  rw [postLoop]
  have h := postStep_cancelled cfg resolve url ok n st hres hc
  generalize postStep cfg resolve url ok n st = x at h
  obtain ⟨s, r⟩ := x
  simp only at h
  obtain ⟨h1, h2, h3⟩ := h
  subst h1
  exact ⟨rfl, h2, h3⟩

theorem accountKID_cancelled (cfg : Cfg) (s : St) (hc : s.cancelled = true) :
    (accountKID cfg s).1.cancelled = true ∧ (accountKID cfg s).1.log = s.log := by
  unfold accountKID
  split
  · exact ⟨hc, rfl⟩
  · have := postLoop_cancelled cfg resolveJWK acctURL [200] 0 s (fun s hs => ⟨hs, rfl⟩) hc
    generalize postLoop cfg resolveJWK acctURL [200] 0 s = x at this
    obtain ⟨s', r⟩ := x
    simp only at this
    obtain ⟨h1, h2, h3⟩ := this
    subst h1
    exact ⟨h2, h3⟩

/-- **cancelled_post_returns_ctx.** Once the context is cancelled — during a round trip or while waiting
    for a retry — every further `post` returns the context error at once and nothing more reaches the
    server (a spare nonce may be taken from the pool, none is sent). -/
theorem cancelled_post_returns_ctx (cfg : Cfg) (k : Bool) (url : String) (ok : List Nat) (st : St)
    (hc : st.cancelled = true) :
    (post cfg k url ok st).2 = .error .ctx ∧ (post cfg k url ok st).1.log = st.log ∧
    (post cfg k url ok st).1.cancelled = true := by
  unfold post
  have := postLoop_cancelled cfg (if k = true then resolveJWK else accountKID cfg) url ok 0 st
    (by cases k
        · exact fun s hs => accountKID_cancelled cfg s hs
        · exact fun s hs => ⟨hs, rfl⟩) hc
  exact ⟨this.1, this.2.2, this.2.1⟩

/-- **cancel_during_wait.** A context cancelled while `post` waits for its retry timer ends the loop
    there: no retry is granted, the caller gets the error of the last reply (the code deliberately
    prefers it to the context error), and the cancellation is remembered. -/
theorem cancel_during_wait (cfg : Cfg) (c : Bool) (n : Nat) (st : St) (p : Resp)
    (hfatal : (!(c && isBadNonce p.prob) && !isRetriable p.status) = false)
    (hcancel : st.boCalls + 1 = cfg.cancelAt) :
    (afterReply cfg c n st p).2 = .done (.error (.status p.status p.prob)) ∧
    (afterReply cfg c n st p).1.cancelled = true := by
  unfold afterReply
  simp only [hfatal, Bool.false_eq_true, if_false]
  have hb : ∀ s : St, s.boCalls = st.boCalls → (backoff cfg s (n + 1)).2 = false ∧ (backoff cfg s (n + 1)).1.cancelled = true := by
    intro s hs
    simp [backoff, hs, hcancel]
  have := hb (if (c && isBadNonce p.prob) = true then { st with pool := [] } else st) (by split <;> rfl)
  rw [this.1]
  exact ⟨by simp, this.2⟩

/-! ## what the caller gets is what the server said last -/

/-- the result of a call corresponds to the most recent response on the wire -/
def LastIs (l : List Ev) : Except Err Resp → Prop
  | .ok p => l.head? = some (.rep p)
  | .error (.status c pr) => ∃ q, l.head? = some (.rep q) ∧ q.status = c ∧ (pr = q.prob ∨ pr = "")
  | .error .noNonce => ∃ q, l.head? = some (.rep q) ∧ q.nonce = none
  | .error _ => True

theorem serve_last (st : St) (r : Req) (p : Resp) (h : (serve st r).2 = .ok p) :
    (serve st r).1.log.head? = some (.rep p) := by
  rcases serve_cases st r with e | ⟨_, _, _, _, _, e⟩ | ⟨_, e⟩ | ⟨_, _, _, e⟩ <;> rw [e] at h ⊢ <;> simp_all

theorem serve_err (st : St) (r : Req) (e : Err) (h : (serve st r).2 = .error e) :
    e = .ctx ∨ e = .transport := by
  rcases serve_cases st r with x | ⟨_, _, e', _, he, x⟩ | ⟨_, x⟩ | ⟨_, _, _, x⟩
  · rw [x] at h; simp_all
  · rw [x] at h
    simp only [Except.error.injEq] at h
    subst h
    rcases he with rfl | rfl
    · exact Or.inr rfl
    · exact Or.inl rfl
  · rw [x] at h; simp at h
  · rw [x] at h; simp at h

theorem LastIs_serve_err (l : List Ev) (e : Err) (h : e = .ctx ∨ e = .transport) : LastIs l (.error e) := by
  rcases h with rfl | rfl <;> trivial

theorem fetchNonce_last (st : St) (url : String) (e : Err) (h : (fetchNonce st url).2 = .error e) :
    LastIs (fetchNonce st url).1.log (.error e) := by
  unfold fetchNonce at h ⊢
  have hs := serve_last st ⟨.head, url, none, false⟩
  have he := serve_err st ⟨.head, url, none, false⟩
  generalize serve st ⟨.head, url, none, false⟩ = x at h hs he
  obtain ⟨s, r⟩ := x
  cases r with
  | error e' =>
    simp only [Except.error.injEq] at h
    subst h
    exact LastIs_serve_err _ _ (he e' rfl)
  | ok p =>
    have hl := hs p rfl
    simp only at h hl ⊢
    cases hn : p.nonce with
    | some w => simp [hn] at h
    | none =>
      simp only [hn] at h ⊢
      split at h
      · rename_i hgt
        simp only [Except.error.injEq] at h
        subst h
        simp only [hgt, if_true]
        exact ⟨p, hl, rfl, Or.inr rfl⟩
      · rename_i hgt
        simp only [Except.error.injEq] at h
        subst h
        simp only [hgt, if_false]
        exact ⟨p, hl, hn⟩

theorem popNonce_last (cfg : Cfg) (st : St) (url : String) (e : Err) (h : (popNonce cfg st url).2 = .error e) :
    LastIs (popNonce cfg st url).1.log (.error e) := by
  unfold popNonce at h ⊢
  split at h
  · rename_i he
    simp only [he, if_true]
    split at h
    · rename_i hd; simp only [hd, if_true]; exact fetchNonce_last _ _ _ h
    · rename_i hd
      simp only [hd, if_false]
      have h1 := fetchNonce_last st dirURL
      generalize fetchNonce st dirURL = x at h h1 ⊢
      obtain ⟨s, r⟩ := x
      cases r with
      | ok v => simp at h
      | error e' =>
        simp only at h h1 ⊢
        split at h
        · rename_i hu; simp only [hu, if_true]; exact fetchNonce_last _ _ _ h
        · rename_i hu
          simp only [hu, if_false]
          simp only [Except.error.injEq] at h
          subst h
          exact h1 e' rfl
  · simp at h

theorem afterReply_done (cfg : Cfg) (c : Bool) (n : Nat) (st : St) (p : Resp) (r : Except Err Resp)
    (h : (afterReply cfg c n st p).2 = .done r) : r = .error (.status p.status p.prob) := by
  unfold afterReply at h
  simp only at h
  split at h
  · simp only [StepRes.done.injEq] at h; exact h.symm
  · simp only at h
    generalize (backoff cfg (if (c && isBadNonce p.prob) = true then { st with pool := [] } else st) (n + 1)).2 = b at h
    cases b
    · simp only [Bool.false_eq_true, if_false, StepRes.done.injEq] at h; exact h.symm
    · simp at h

theorem postStep_last (cfg : Cfg) (resolve : St → St × Bool) (url : String) (ok : List Nat) (n : Nat) (st : St) :
    match (postStep cfg resolve url ok n st).2 with
    | .done r => LastIs (postStep cfg resolve url ok n st).1.log r
    | .again last => LastIs (postStep cfg resolve url ok n st).1.log (.error last) := by
  unfold postStep
  generalize resolve st = x
  obtain ⟨s0, k⟩ := x
  simp only
  have h1 := popNonce_last cfg s0 url
  generalize popNonce cfg s0 url = x at h1
  obtain ⟨s1, r1⟩ := x
  cases r1 with
  | error e => exact h1 e rfl
  | ok v =>
    simp only
    have h2 := serve_last s1 ⟨.post, url, some v, k⟩
    have h2e := serve_err s1 ⟨.post, url, some v, k⟩
    generalize serve s1 ⟨.post, url, some v, k⟩ = x at h2 h2e
    obtain ⟨s2, r2⟩ := x
    cases r2 with
    | error e => exact LastIs_serve_err _ _ (h2e e rfl)
    | ok p =>
      have hl := h2 p rfl
      simp only at hl ⊢
      by_cases hok : ok.contains p.status = true
      · simp only [hok, if_true]
        exact hl
      · have hok' : ok.contains p.status = false := by simpa using hok
        simp only [hok', Bool.false_eq_true, if_false]
        have hlog := afterReply_log cfg true n { s2 with pool := addNonce s2.pool p.nonce } p
        have hag := afterReply_again cfg true n { s2 with pool := addNonce s2.pool p.nonce } p
        have hshape := afterReply_done cfg true n { s2 with pool := addNonce s2.pool p.nonce } p
        generalize afterReply cfg true n { s2 with pool := addNonce s2.pool p.nonce } p = y at hlog hag hshape
        obtain ⟨s3, r3⟩ := y
        simp only at hlog hag hshape ⊢
        cases r3 with
        | done r =>
          rw [hshape r rfl, hlog]
          exact ⟨p, hl, rfl, Or.inl rfl⟩
        | again last =>
          rw [(hag last rfl).2.2, hlog]
          exact ⟨p, hl, rfl, Or.inl rfl⟩

/-- **result_is_last_reply.** What `post` returns is the final server reply: on success the very
    response, on an ACME error the status (and problem type) of the most recent response on the wire —
    also after retries, badNonce recoveries, exhausted backoff and cancellation during backoff. -/
theorem result_is_last_reply (cfg : Cfg) (resolve : St → St × Bool) (url : String) (ok : List Nat) (n : Nat) (st : St) :
    LastIs (postLoop cfg resolve url ok n st).1.log (postLoop cfg resolve url ok n st).2 := by
  induction hm : cfg.backoffOK + 1 - n using Nat.strongRecOn generalizing n st with
  | _ m ih =>
    rw [postLoop]
    have h := postStep_last cfg resolve url ok n st
    generalize postStep cfg resolve url ok n st = x at h
    obtain ⟨s, r⟩ := x
    cases r with
    | done r => exact h
    | again last =>
      simp only at h ⊢
      split
      · exact ih (cfg.backoffOK + 1 - (n + 1)) (by omega) (n + 1) s rfl
      · exact h

theorem getStep_last (cfg : Cfg) (url : String) (ok : List Nat) (n : Nat) (st : St) :
    match (getStep cfg url ok n st).2 with
    | .done r => LastIs (getStep cfg url ok n st).1.log r
    | .again last => LastIs (getStep cfg url ok n st).1.log (.error last) := by
  unfold getStep
  have h2 := serve_last st ⟨.get, url, none, false⟩
  have h2e := serve_err st ⟨.get, url, none, false⟩
  generalize serve st ⟨.get, url, none, false⟩ = x at h2 h2e
  obtain ⟨s2, r2⟩ := x
  cases r2 with
  | error e => exact LastIs_serve_err _ _ (h2e e rfl)
  | ok p =>
    have hl := h2 p rfl
    simp only at hl ⊢
    by_cases hok : ok.contains p.status = true
    · simp only [hok, if_true]; exact hl
    · have hok' : ok.contains p.status = false := by simpa using hok
      simp only [hok', Bool.false_eq_true, if_false]
      have hlog := afterReply_log cfg false n s2 p
      have hag := afterReply_again cfg false n s2 p
      have hshape := afterReply_done cfg false n s2 p
      generalize afterReply cfg false n s2 p = y at hlog hag hshape
      obtain ⟨s3, r3⟩ := y
      simp only at hlog hag hshape ⊢
      cases r3 with
      | done r => rw [hshape r rfl, hlog]; exact ⟨p, hl, rfl, Or.inl rfl⟩
      | again last => rw [(hag last rfl).2.2, hlog]; exact ⟨p, hl, rfl, Or.inl rfl⟩

/-- the same for unsigned GETs (`Discover`) -/
theorem get_result_is_last_reply (cfg : Cfg) (url : String) (ok : List Nat) (n : Nat) (st : St) :
    LastIs (getLoop cfg url ok n st).1.log (getLoop cfg url ok n st).2 := by
  induction hm : cfg.backoffOK + 1 - n using Nat.strongRecOn generalizing n st with
  | _ m ih =>
    rw [getLoop]
    have h := getStep_last cfg url ok n st
    generalize getStep cfg url ok n st = x at h
    obtain ⟨s, r⟩ := x
    cases r with
    | done r => exact h
    | again last =>
      simp only at h ⊢
      split
      · exact ih (cfg.backoffOK + 1 - (n + 1)) (by omega) (n + 1) s rfl
      · exact h

/-- **documented retry rule.** A 4xx answer that is neither 429 nor a badNonce problem is never retried:
    the loop ends with that error and `RetryBackoff` is not even consulted. -/
theorem fatal_not_retried (cfg : Cfg) (c : Bool) (n : Nat) (st : St) (p : Resp)
    (hr : isRetriable p.status = false) (hb : (c && isBadNonce p.prob) = false) :
    afterReply cfg c n st p = (st, .done (.error (.status p.status p.prob))) := by
  simp [afterReply, hr, hb]

theorem isRetriable_spec (code : Nat) : isRetriable code = true ↔ code ≤ 399 ∨ 500 ≤ code ∨ code = 429 := by
  simp [isRetriable, or_assoc]

/-! ## the default backoff -/

/-- `defaultBackoff` never asks to stop by itself when there is no Retry-After header ("the returned
    value is always greater than 0"), stays within the 10 s ceiling, and honours a non-negative
    Retry-After by waiting at least that long. -/
theorem defaultBackoff_range (n : Int) (ra : RetryAfter) (j : Int) (hj : 1000000 ≤ j ∧ j ≤ 1000000000) :
    (ra = .absent → 0 < defaultBackoff n ra j ∧ defaultBackoff n ra j ≤ maxBackoff) ∧
    (∀ i, ra = .secs i → 0 ≤ i → i * second < defaultBackoff n ra j) ∧
    (ra = .invalid → 0 < defaultBackoff n ra j) := by
  refine ⟨?_, ?_, ?_⟩
  · intro h; subst h
    simp only [defaultBackoff, maxBackoff, second]
    have : (0 : Int) ≤ 2 ^ ((if n < 1 then 1 else if n > 30 then 30 else n) - 1).toNat * 1000000000 :=
      Int.mul_nonneg (Int.pow_nonneg (by decide)) (by decide)
    omega
  · intro i h hi; subst h
    simp only [defaultBackoff, second]; omega
  · intro h; subst h
    simp only [defaultBackoff]; omega

/-- the observable of the `dbo` ops: whatever the jitter, `d − 1ns` has the same whole seconds -/
theorem dbo_floor_indep (n : Int) (ra : RetryAfter) (j : Int) (hj : 1000000 ≤ j ∧ j ≤ 1000000000) :
    (defaultBackoff n ra j - 1) / second = backoffSeconds n ra := by
  cases ra with
  | secs i =>
    simp only [defaultBackoff, backoffSeconds, second]; omega
  | invalid =>
    simp only [defaultBackoff, backoffSeconds, second]; omega
  | absent =>
    simp only [defaultBackoff, backoffSeconds, second, maxBackoff]
    generalize hk : (if n < 1 then 1 else if n > 30 then 30 else n) = k
    have hk1 : 1 ≤ k ∧ k ≤ 30 := by
      subst hk
      split
      · omega
      · split <;> omega
    by_cases h5 : k ≥ 5
    · have h16n : (2 : Nat) ^ 4 ≤ 2 ^ (k - 1).toNat := Nat.pow_le_pow_right (by decide) (by omega)
      have h16 : (2 : Int) ^ 4 ≤ 2 ^ (k - 1).toNat := by exact_mod_cast h16n
      rw [if_pos h5]
      omega
    · rw [if_neg h5]
      have hcases : k = 1 ∨ k = 2 ∨ k = 3 ∨ k = 4 := by omega
      rcases hcases with rfl | rfl | rfl | rfl <;> simp <;> omega

example : defaultBackoff 3 .absent 500000000 = 4500000000 := by decide
example : defaultBackoff 7 .absent 1000000 = 10000000000 := by decide
example : backoffSeconds 3 .absent = 4 := by decide

/-! ## polling loops return the final reply -/

/-- **poll_returns_final_reply.** `WaitAuthorization` / `WaitOrder` hand back the object decoded from the
    newest response on the wire — never from an earlier poll — and only when that response shows one of
    the final states asked for. -/
theorem poll_returns_final_reply (cfg : Cfg) (url : String) (ok : List Nat) (final : List String)
    (fuel : Nat) (st : St) (b : String)
    (h : (pollLoop cfg url ok final fuel st).2 = .okBody b) :
    ∃ p, (pollLoop cfg url ok final fuel st).1.log.head? = some (.rep p) ∧ p.body = b ∧
      final.contains (bodyStatus b) = true ∧ ok.contains p.status = true := by
  induction fuel generalizing st with
  | zero => simp [pollLoop] at h
  | succ f ih =>
    unfold pollLoop at h ⊢
    have hl := result_is_last_reply cfg (if false = true then resolveJWK else accountKID cfg) url ok 0 st
    have hok : ∀ p, (post cfg false url ok st).2 = .ok p → ok.contains p.status = true := by
      intro p hp
      -- a success of the loop is a success of its last step
      have hgen : ∀ n s, (postLoop cfg (if false = true then resolveJWK else accountKID cfg) url ok n s).2 = .ok p →
          ok.contains p.status = true := by
        intro n
        induction hm : cfg.backoffOK + 1 - n using Nat.strongRecOn generalizing n with
        | _ m ihn =>
          intro s hs
          rw [postLoop] at hs
          have hstep : ∀ r, (postStep cfg (if false = true then resolveJWK else accountKID cfg) url ok n s).2 = .done (.ok r) →
              ok.contains r.status = true := by
            intro r hr
            unfold postStep at hr
            generalize (if false = true then resolveJWK else accountKID cfg) s = x at hr
            obtain ⟨s0, k⟩ := x
            simp only at hr
            generalize popNonce cfg s0 url = x at hr
            obtain ⟨s1, r1⟩ := x
            cases r1 with
            | error e => simp at hr
            | ok v =>
              simp only at hr
              generalize serve s1 ⟨.post, url, some v, k⟩ = x at hr
              obtain ⟨s2, r2⟩ := x
              cases r2 with
              | error e => simp at hr
              | ok q =>
                simp only at hr
                by_cases hc : ok.contains q.status = true
                · simp only [hc, if_true, StepRes.done.injEq, Except.ok.injEq] at hr
                  subst hr; exact hc
                · have hc' : ok.contains q.status = false := by simpa using hc
                  simp only [hc', Bool.false_eq_true, if_false] at hr
                  exact absurd hr (afterReply_not_ok _ _ _ _ _ _)
          generalize hx : postStep cfg (if false = true then resolveJWK else accountKID cfg) url ok n s = x at hs hstep
          obtain ⟨s', r⟩ := x
          cases r with
          | done r =>
            simp only at hs
            subst hs
            exact hstep p rfl
          | again last =>
            simp only at hs
            split at hs
            · exact ihn (cfg.backoffOK + 1 - (n + 1)) (by omega) (n + 1) rfl s' hs
            · simp at hs
      exact hgen 0 st hp
    unfold post at hok
    have hpost : post cfg false url ok st = postLoop cfg (if false = true then resolveJWK else accountKID cfg) url ok 0 st := rfl
    rw [hpost] at h ⊢
    generalize postLoop cfg (if false = true then resolveJWK else accountKID cfg) url ok 0 st = x at h hl hok ⊢
    obtain ⟨s1, r⟩ := x
    cases r with
    | error e => simp at h
    | ok p =>
      simp only at h hl hok ⊢
      by_cases hb : (p.body == "bad") = true
      · simp only [hb, if_true] at h ⊢
        exact ih s1 h
      · have hb' : (p.body == "bad") = false := by simpa using hb
        simp only [hb', Bool.false_eq_true, if_false] at h ⊢
        by_cases hi : (bodyStatus p.body == "invalid") = true
        · simp [hi] at h
        · have hi' : (bodyStatus p.body == "invalid") = false := by simpa using hi
          simp only [hi', Bool.false_eq_true, if_false] at h ⊢
          by_cases hf : final.contains (bodyStatus p.body) = true
          · simp only [hf, if_true, Outcome.okBody.injEq] at h ⊢
            exact ⟨p, hl, h, by rw [← h]; exact hf, hok p rfl⟩
          · have hf' : final.contains (bodyStatus p.body) = false := by simpa using hf
            simp only [hf', Bool.false_eq_true, if_false] at h ⊢
            exact ih s1 h

/-! ## a signed request always carries a (non-empty) nonce -/

theorem nonce_nonempty (p : Resp) (v : String) (h : p.nonce = some v) : v ≠ "" := by
  unfold Resp.nonce nonceFromHeader at h
  cases hh : p.replayNonce with
  | nil => simp [hh] at h
  | cons x r =>
    simp only [hh] at h
    split at h
    · simp at h
    · rename_i hx
      simp only [Option.some.injEq] at h
      subst h
      simpa using hx

theorem issued_nonempty (l : List Ev) : ∀ v ∈ issuedOf l, v ≠ "" := by
  induction l with
  | nil => simp [issuedOf]
  | cons e l ih =>
    cases e with
    | req r => simpa [issuedOf] using ih
    | rep p =>
      intro v hv
      simp only [issuedOf] at hv
      cases hn : p.nonce with
      | none => rw [hn] at hv; exact ih v hv
      | some w =>
        rw [hn] at hv
        simp only [List.mem_cons] at hv
        rcases hv with rfl | hv
        · exact nonce_nonempty p _ hn
        · exact ih v hv

/-- every signed request in a well-formed log carries a nonce that is not the empty string: the client
    never sends the `noNonce` sentinel in a POST, whatever shape the Replay-Nonce headers had (absent,
    present but empty, repeated) -/
theorem used_nonempty (l : List Ev) (h : WF l) : ∀ v ∈ usedOf l, v ≠ "" :=
  fun v hv => issued_nonempty l v (used_sub_issued l h v hv)

/-- the model's POSTs always have a nonce field at all (by construction of `postStep`), and by
    `nonce_from_server` + `used_nonempty` it is a non-empty server-issued value -/
theorem signed_request_has_nonce (cfg : Cfg) (script : List Reply) (kid : Bool) (calls : List Call) :
    ∀ v ∈ usedOf (runCalls cfg (initSt script kid) calls).1.log, v ≠ "" :=
  used_nonempty _ (nonce_from_server cfg script kid calls)

/-- non-vacuity of the `no_reuse` hypothesis and of `WF` -/
example : (scriptNonces [.resp ⟨200, "", ["a"], ""⟩, .fail, .resp ⟨400, "urn:x:badNonce", ["b", "c"], ""⟩]).Nodup := by decide
example : WF [.req ⟨.post, "order", some "a", true⟩, .rep ⟨200, "", ["a"], ""⟩, .req ⟨.get, "dir", none, false⟩] := by
  simp [WF, issuedOf, Resp.nonce, nonceFromHeader]
example : ¬ WF [.req ⟨.post, "order", some "b", true⟩, .rep ⟨200, "", ["a"], ""⟩] := by
  simp [WF, issuedOf, Resp.nonce, nonceFromHeader]

end XC.C50
