/-
  C42 — property theorems over XC.Model.C42 (known_hosts decisions).
-/
import XC.Proofs.C42
namespace XC.C42
open XC

/-! ## 1. wildcardMatch versus the glob language

`Glob p s` is the OpenSSH pattern language (`*` = any sequence, possibly empty; `?` = any one byte).
`wildcard_spec`: Go's `wildcardMatch` decides exactly that language, for every pattern and string.
(Before the fix "a trailing '*' matches the empty string" the function tested `len(str) == 0` before
looking at a `*`; `host*` then failed to match `host` — the two examples below pin the fixed behaviour.) -/

inductive Glob : Bytes → Bytes → Prop
  | nil : Glob [] []
  | star {ps s t : Bytes} (u : Bytes) : t = u ++ s → Glob ps s → Glob (cSTAR :: ps) t
  | qm {ps s : Bytes} (c : UInt8) : Glob ps s → Glob (cQM :: ps) (c :: s)
  | lit {ps s : Bytes} (c : UInt8) : c ≠ cSTAR → c ≠ cQM → Glob ps s → Glob (c :: ps) (c :: s)

/-- executable glob matcher (spec-shaped: `*` tries every suffix including the empty one) -/
def globB : Bytes → Bytes → Bool
  | [], s => s.isEmpty
  | p :: ps, s =>
    if p == cSTAR then anySuffix (globB ps) s
    else match s with
      | [] => false
      | c :: cs => (p == cQM || p == c) && globB ps cs

theorem anySuffix_iff (f : Bytes → Bool) (s : Bytes) :
    anySuffix f s = true ↔ ∃ u t, s = u ++ t ∧ f t = true := by
  induction s with
  | nil =>
    simp only [anySuffix]
    constructor
    · intro h; exact ⟨[], [], rfl, h⟩
    · rintro ⟨u, t, h, ht⟩
      have : t = [] := by
        have := congrArg List.length h
        simp at this
        exact List.eq_nil_of_length_eq_zero (by omega)
      simpa [this] using ht
  | cons c cs ih =>
    simp only [anySuffix, Bool.or_eq_true, ih]
    constructor
    · rintro (h | ⟨u, t, h, ht⟩)
      · exact ⟨[], c :: cs, rfl, h⟩
      · exact ⟨c :: u, t, by simp [h], ht⟩
    · rintro ⟨u, t, h, ht⟩
      cases u with
      | nil => left; simp at h; simpa [h] using ht
      | cons d u =>
        right
        simp at h
        exact ⟨u, t, h.2, ht⟩

theorem star_ne_qm : cSTAR ≠ cQM := by decide

/-- the executable glob matcher decides the inductive glob language -/
theorem globB_iff (p s : Bytes) : globB p s = true ↔ Glob p s := by
  induction p generalizing s with
  | nil =>
    simp only [globB]
    constructor
    · intro h
      have : s = [] := by simpa using h
      subst this; exact Glob.nil
    · intro h; cases h; rfl
  | cons p ps ih =>
    simp only [globB]
    by_cases hp : p = cSTAR
    · subst hp
      simp only [beq_self_eq_true, if_true, anySuffix_iff]
      constructor
      · rintro ⟨u, t, rfl, ht⟩
        exact Glob.star u rfl ((ih t).1 ht)
      · intro h
        cases h with
        | star u he h => exact ⟨u, _, he, (ih _).2 h⟩
        | lit c h1 _ _ => exact absurd rfl h1
    · have hb : (p == cSTAR) = false := by simpa using hp
      simp only [hb]
      cases s with
      | nil =>
        simp
        intro h; cases h <;> simp_all
      | cons c cs =>
        simp only [Bool.false_eq_true, if_false, Bool.and_eq_true, Bool.or_eq_true, beq_iff_eq]
        constructor
        · rintro ⟨h | h, hg⟩
          · subst h; exact Glob.qm c ((ih cs).1 hg)
          · subst h
            by_cases hq : p = cQM
            · subst hq; exact Glob.qm _ ((ih cs).1 hg)
            · exact Glob.lit p hp hq ((ih cs).1 hg)
        · intro h
          cases h with
          | star u _ h => exact absurd rfl hp
          | qm c h => exact ⟨Or.inl rfl, (ih cs).2 h⟩
          | lit c _ _ h => exact ⟨Or.inr rfl, (ih cs).2 h⟩

theorem anySuffix_isEmpty (s : Bytes) : anySuffix (fun t => t.isEmpty) s = true := by
  induction s with
  | nil => simp [anySuffix]
  | cons c cs ih => rw [anySuffix, ih, Bool.or_true]

theorem wm_cons_nil (p : UInt8) (ps : Bytes) (hp : p ≠ cSTAR) : wildcardMatch (p :: ps) [] = false := by
  have hb : (p == cSTAR) = false := by simpa using hp
  simp [wildcardMatch, hb]

theorem wm_nonstar (p : UInt8) (ps : Bytes) (c : UInt8) (cs : Bytes) (hp : p ≠ cSTAR) :
    wildcardMatch (p :: ps) (c :: cs) = ((p == cQM || p == c) && wildcardMatch ps cs) := by
  have hb : (p == cSTAR) = false := by simpa using hp
  rw [wildcardMatch]
  simp only [hb, Bool.false_eq_true, if_false]
  cases (p == cQM || p == c) <;> simp

theorem wildcardMatch_eq_globB (p s : Bytes) : wildcardMatch p s = globB p s := by
  induction p generalizing s with
  | nil => simp [wildcardMatch, globB]
  | cons p ps ih =>
    by_cases hp : p = cSTAR
    · subst hp
      have hfun : wildcardMatch ps = globB ps := funext ih
      cases ps with
      | nil =>
        simp only [wildcardMatch, beq_self_eq_true, if_true, List.isEmpty_nil, globB]
        exact (anySuffix_isEmpty s).symm
      | cons q r =>
        have e1 : wildcardMatch (cSTAR :: q :: r) s = anySuffix (wildcardMatch (q :: r)) s := by
          simp [wildcardMatch]
        have e2 : globB (cSTAR :: q :: r) s = anySuffix (globB (q :: r)) s := by
          simp [globB]
        rw [e1, e2, hfun]
    · cases s with
      | nil =>
        have hb : (p == cSTAR) = false := by simpa using hp
        rw [wm_cons_nil p ps hp]; simp [globB, hb]
      | cons c cs =>
        have hb : (p == cSTAR) = false := by simpa using hp
        rw [wm_nonstar _ _ _ _ hp, ih]
        simp [globB, hb]

/-- **wildcard_spec**: for every pattern and every string, Go's `wildcardMatch` accepts exactly the
    OpenSSH glob language of the pattern (no exception). -/
theorem wildcard_spec (p s : Bytes) : wildcardMatch p s = true ↔ Glob p s := by
  rw [wildcardMatch_eq_globB, globB_iff]

/-- a `*` may match the empty sequence, also at the end of the pattern: `h*` matches `h` … -/
theorem wildcard_trailing_star_empty : wildcardMatch [104, cSTAR] [104] = true ∧ wildcardMatch [cSTAR] [] = true := by
  decide

example : wildcardMatch [104, 42, 116, 63, 46, 42] [104, 111, 115, 116, 49, 46, 99, 111, 109] = true := by decide  -- h*t?.* / host1.com
example : wildcardMatch [104, 42, 116] [104, 111, 115, 116, 120] = false := by decide  -- h*t / hostx

/-! ## 2. negation semantics of a pattern list -/

theorem matchPatternsGo_iff (m : Bool) (ps : List HostPattern) (a : Addr) :
    matchPatternsGo m ps a = true ↔
      (m = true ∨ ∃ p ∈ ps, p.negate = false ∧ p.matches a = true) ∧
      (∀ p ∈ ps, p.negate = true → p.matches a = false) := by
  induction ps generalizing m with
  | nil => simp [matchPatternsGo]
  | cons p ps ih =>
    simp only [matchPatternsGo]
    by_cases hm : p.matches a = true
    · simp only [hm, Bool.not_true, Bool.false_eq_true, if_false]
      by_cases hn : p.negate = true
      · simp only [hn, if_true, Bool.false_eq_true, false_iff, not_and]
        intro _ hall
        have := hall p (by simp) hn
        simp [hm] at this
      · have hn' : p.negate = false := by simpa using hn
        simp only [hn', Bool.false_eq_true, if_false, ih]
        constructor
        · rintro ⟨_, hall⟩
          refine ⟨Or.inr ⟨p, by simp, hn', hm⟩, ?_⟩
          intro q hq hqn
          rcases List.mem_cons.1 hq with rfl | hq
          · simp [hn'] at hqn
          · exact hall q hq hqn
        · rintro ⟨_, hall⟩
          exact ⟨Or.inl trivial, fun q hq => hall q (List.mem_cons_of_mem _ hq)⟩
    · have hm' : p.matches a = false := by simpa using hm
      simp only [hm', Bool.not_false, if_true, ih]
      constructor
      · rintro ⟨h1, hall⟩
        refine ⟨?_, ?_⟩
        · rcases h1 with h | ⟨q, hq, h⟩
          · exact Or.inl h
          · exact Or.inr ⟨q, List.mem_cons_of_mem _ hq, h⟩
        · intro q hq hqn
          rcases List.mem_cons.1 hq with rfl | hq
          · exact hm'
          · exact hall q hq hqn
      · rintro ⟨h1, hall⟩
        refine ⟨?_, fun q hq => hall q (List.mem_cons_of_mem _ hq)⟩
        rcases h1 with h | ⟨q, hq, hqn, hqm⟩
        · exact Or.inl h
        · rcases List.mem_cons.1 hq with rfl | hq
          · simp [hm'] at hqm
          · exact Or.inr ⟨q, hq, hqn, hqm⟩

/-- **negation_semantics**: a pattern list matches iff some positive pattern matches and NO negated
    pattern matches (independent of the order of the patterns). -/
theorem negation_semantics (ps : List HostPattern) (a : Addr) :
    (Matcher.pats ps).matches a = true ↔
      (∃ p ∈ ps, p.negate = false ∧ p.matches a = true) ∧
      (∀ p ∈ ps, p.negate = true → p.matches a = false) := by
  simp [Matcher.matches, matchPatternsGo_iff]

example : (Matcher.pats [⟨false, ⟨[cSTAR], port22⟩⟩, ⟨true, ⟨[97], port22⟩⟩]).matches ⟨[97], port22⟩ = false := by
  decide
example : (Matcher.pats [⟨false, ⟨[cSTAR], port22⟩⟩, ⟨true, ⟨[97], port22⟩⟩]).matches ⟨[98], port22⟩ = true := by
  decide

/-- `*,!a*` excludes host `a` (the negated pattern's trailing `*` matches the empty rest) -/
example : (Matcher.pats [⟨false, ⟨[cSTAR], port22⟩⟩, ⟨true, ⟨[97, cSTAR], port22⟩⟩]).matches ⟨[97], port22⟩ = false := by
  decide

/-! ## 3. decisions -/

theorem checkAddrGo_ok_iff (key : Nat) (a : Addr) (ls : List Entry) (want : List Nat) :
    checkAddrGo key a ls want = .ok ↔
      ∃ l ∈ ls, l.cert = false ∧ l.matcher.matches a = true ∧ l.key = key := by
  induction ls generalizing want with
  | nil => simp [checkAddrGo]
  | cons l ls ih =>
    simp only [checkAddrGo]
    by_cases hskip : (l.cert || !l.matcher.matches a) = true
    · simp only [hskip, if_true, ih, List.mem_cons]
      constructor
      · rintro ⟨x, hx, h⟩; exact ⟨x, Or.inr hx, h⟩
      · rintro ⟨x, rfl | hx, h1, h2, h3⟩
        · simp [h1, h2] at hskip
        · exact ⟨x, hx, h1, h2, h3⟩
    · have hs : (l.cert || !l.matcher.matches a) = false := by simpa using hskip
      have hc : l.cert = false := by
        cases h : l.cert <;> simp [h] at hs ⊢
      have hmm : l.matcher.matches a = true := by
        cases h : l.matcher.matches a <;> simp [h, hc] at hs ⊢
      simp only [hs, Bool.false_eq_true, if_false]
      by_cases hk : l.key = key
      · simp only [hk, beq_self_eq_true, if_true, true_iff]
        exact ⟨l, by simp, hc, hmm, hk⟩
      · have : (l.key == key) = false := by simpa using hk
        simp only [this, Bool.false_eq_true, if_false, ih, List.mem_cons]
        constructor
        · rintro ⟨x, hx, h⟩; exact ⟨x, Or.inr hx, h⟩
        · rintro ⟨x, rfl | hx, h1, h2, h3⟩
          · exact absurd h3 hk
          · exact ⟨x, hx, h1, h2, h3⟩

/-- a line takes part in plain-key lookup iff it has no `@cert-authority` marker and its matcher matches -/
def hostLine (a : Addr) (l : Entry) : Bool := !l.cert && l.matcher.matches a

theorem checkAddrGo_keyErr_iff (key : Nat) (a : Addr) (ls : List Entry) (want w : List Nat) :
    checkAddrGo key a ls want = .keyErr w ↔
      (∀ l ∈ ls, hostLine a l = true → l.key ≠ key) ∧
      w = want ++ (ls.filter (hostLine a)).map (·.lineNo) := by
  induction ls generalizing want with
  | nil =>
    simp only [checkAddrGo, Verdict.keyErr.injEq]
    constructor
    · intro h; simp [h]
    · intro h; simp [h.2]
  | cons l ls ih =>
    simp only [checkAddrGo]
    by_cases hskip : (l.cert || !l.matcher.matches a) = true
    · have hh : hostLine a l = false := by
        simp only [hostLine]
        cases h1 : l.cert <;> cases h2 : l.matcher.matches a <;> simp [h1, h2] at hskip ⊢
      simp only [hskip, if_true, ih, List.mem_cons, List.filter_cons, hh, Bool.false_eq_true, if_false]
      constructor
      · rintro ⟨h1, h2⟩
        refine ⟨?_, h2⟩
        rintro x (rfl | hx) hxm
        · simp [hh] at hxm
        · exact h1 x hx hxm
      · rintro ⟨h1, h2⟩
        exact ⟨fun x hx => h1 x (Or.inr hx), h2⟩
    · have hs : (l.cert || !l.matcher.matches a) = false := by simpa using hskip
      have hh : hostLine a l = true := by
        simp only [hostLine]
        cases h1 : l.cert <;> cases h2 : l.matcher.matches a <;> simp [h1, h2] at hs ⊢
      simp only [hs, Bool.false_eq_true, if_false]
      by_cases hk : l.key = key
      · simp only [hk, beq_self_eq_true, if_true]
        constructor
        · intro h; cases h
        · rintro ⟨h, _⟩
          exact absurd hk (h l (by simp) hh)
      · have : (l.key == key) = false := by simpa using hk
        simp only [this, Bool.false_eq_true, if_false, ih, List.mem_cons, List.filter_cons, hh, if_true,
          List.map_cons, List.append_assoc, List.singleton_append]
        constructor
        · rintro ⟨h1, h2⟩
          refine ⟨?_, h2⟩
          rintro x (rfl | hx) hxm
          · exact hk
          · exact h1 x hx hxm
        · rintro ⟨h1, h2⟩
          exact ⟨fun x hx => h1 x (Or.inr hx), h2⟩

theorem checkAddrGo_cases (key : Nat) (a : Addr) (ls : List Entry) (want : List Nat) :
    checkAddrGo key a ls want = .ok ∨ ∃ w, checkAddrGo key a ls want = .keyErr w := by
  induction ls generalizing want with
  | nil => right; exact ⟨want, rfl⟩
  | cons l ls ih =>
    simp only [checkAddrGo]
    split
    · exact ih want
    · split
      · left; rfl
      · exact ih _

/-- the address `check` looks up: the host name when given (and it must split), else the remote address -/
def effectiveAddr (address remote : Bytes) : Option Addr :=
  match splitHostPort remote with
  | none => none
  | some (rh, rp) =>
    if address.isEmpty then some ⟨rh, rp⟩
    else (splitHostPort address).map fun hp => ⟨hp.1, hp.2⟩

theorem revokedLine_none_iff (db : DB) (key : Nat) :
    db.revokedLine key = none ↔ ∀ e ∈ db.revoked, e.1 ≠ key := by
  simp [DB.revokedLine, List.find?_eq_none]

/-- **decision** (plain keys): the callback accepts iff the key is not `@revoked`, the addresses are
    well-formed, and some line WITHOUT a marker whose matcher matches the effective address (host names
    compared lower-cased, see `HostPattern.matches`) lists exactly that key. -/
theorem decision (db : DB) (now : Int) (address remote : Bytes) (key : Nat) :
    db.checkHostKey now address remote (.plain key) = .ok ↔
      (∀ e ∈ db.revoked, e.1 ≠ key) ∧
      ∃ a, effectiveAddr address remote = some a ∧
        ∃ l ∈ db.lines, l.cert = false ∧ l.matcher.matches a = true ∧ l.key = key := by
  simp only [DB.checkHostKey, DB.check, ← revokedLine_none_iff, effectiveAddr]
  cases hr : db.revokedLine key with
  | some n => simp
  | none =>
    simp only [true_and]
    cases hs : splitHostPort remote with
    | none => simp
    | some rhp =>
      obtain ⟨rh, rp⟩ := rhp
      simp only []
      by_cases he : address.isEmpty = true
      · simp [he, DB.checkAddr, checkAddrGo_ok_iff]
      · simp only [he, Bool.false_eq_true, if_false]
        cases ha : splitHostPort address with
        | none => simp
        | some hp =>
          obtain ⟨h, p⟩ := hp
          simp [DB.checkAddr, checkAddrGo_ok_iff]

/-- **revoked first**: a `@revoked` key is answered with RevokedError (naming the LAST such line),
    whatever else the file says. -/
theorem revoked_first (db : DB) (now : Int) (address remote : Bytes) (key n : Nat)
    (h : db.revokedLine key = some n) :
    db.checkHostKey now address remote (.plain key) = .revoked n := by
  simp [DB.checkHostKey, DB.check, h]

/-- **keyerror_lists_exactly_matching_lines**: when the answer is a KeyError its `Want` list is exactly
    the line numbers of ALL lines without `@cert-authority` marker whose matcher matches the effective
    address, in file order, and none of
    those lines lists the presented key. -/
theorem keyerror_lists_exactly_matching_lines (db : DB) (now : Int) (address remote : Bytes) (key : Nat)
    (w : List Nat) (h : db.checkHostKey now address remote (.plain key) = .keyErr w) :
    ∃ a, effectiveAddr address remote = some a ∧
      w = (db.lines.filter (hostLine a)).map (·.lineNo) ∧
      ∀ l ∈ db.lines, hostLine a l = true → l.key ≠ key := by
  simp only [DB.checkHostKey, DB.check, effectiveAddr] at *
  cases hr : db.revokedLine key with
  | some n => simp [hr] at h
  | none =>
    simp only [hr] at h
    cases hs : splitHostPort remote with
    | none => simp [hs] at h
    | some rhp =>
      obtain ⟨rh, rp⟩ := rhp
      simp only [hs] at h ⊢
      by_cases he : address.isEmpty = true
      · simp only [he, if_true] at h ⊢
        have := (checkAddrGo_keyErr_iff key ⟨rh, rp⟩ db.lines [] w).1 h
        exact ⟨_, rfl, by simpa using this.2, this.1⟩
      · simp only [he, Bool.false_eq_true, if_false] at h ⊢
        cases ha : splitHostPort address with
        | none => simp [ha] at h
        | some hp =>
          obtain ⟨hh, p⟩ := hp
          simp only [ha] at h
          have := (checkAddrGo_keyErr_iff key ⟨hh, p⟩ db.lines [] w).1 h
          exact ⟨_, rfl, by simpa using this.2, this.1⟩

/-- **decision** (certificates): accepted iff it is a host certificate, some `@cert-authority` line whose
    matcher matches the (split) host name lists the signing key, neither the certificate nor its CA is
    `@revoked`, it carries no unsupported critical option, the host is among its principals (or it has
    none), it is inside its validity window and the CA signature verifies.  The remote address plays no
    role and there is no fallback to it. -/
theorem decision_cert (db : DB) (now : Int) (address remote : Bytes) (c : CertInfo) :
    db.checkHostKey now address remote (.cert c) = .ok ↔
      c.certType = 2 ∧
      (∃ h p, splitHostPort address = some (h, p) ∧
        (∃ l ∈ db.lines, l.cert = true ∧ l.key = c.ca ∧ l.matcher.matches ⟨h, p⟩ = true) ∧
        (c.principals = [] ∨ h ∈ c.principals)) ∧
      (∀ e ∈ db.revoked, e.1 ≠ c.id) ∧ (∀ e ∈ db.revoked, e.1 ≠ c.ca) ∧
      c.critOther = false ∧ timeOk now c = true ∧ c.sigOk = true := by
  simp only [← revokedLine_none_iff]
  by_cases ht : c.certType = 2
  · cases hs : splitHostPort address with
    | none => simp [DB.checkHostKey, DB.isHostAuthority, hs]
    | some hp =>
      obtain ⟨h, p⟩ := hp
      by_cases hany : (db.lines.any fun l => l.cert && l.key == c.ca && l.matcher.matches ⟨h, p⟩) = true
      · have hex : ∃ l ∈ db.lines, l.cert = true ∧ l.key = c.ca ∧ l.matcher.matches ⟨h, p⟩ = true := by
          simpa [List.any_eq_true, and_assoc] using hany
        simp only [DB.checkHostKey, DB.isHostAuthority, hs, ht, bne_self_eq_false, Bool.false_eq_true,
          if_false, hany, Bool.not_true, true_and, Option.some.injEq, Prod.mk.injEq]
        constructor
        · intro hh
          split at hh
          · rename_i hc
            simp only [DB.checkCert, DB.isRevoked, Bool.and_eq_true, Bool.not_eq_true',
              Bool.or_eq_false_iff, Bool.or_eq_true,
              Option.isSome_eq_false_iff, Option.isNone_iff_eq_none] at hc
            obtain ⟨⟨⟨⟨⟨r1, r2⟩, cr⟩, pr⟩, tm⟩, sg⟩ := hc
            refine ⟨⟨h, p, ⟨rfl, rfl⟩, hex, ?_⟩, r1, r2, cr, tm, sg⟩
            rcases pr with pr | pr
            · left; simpa using pr
            · right; simpa using pr
          · cases hh
        · rintro ⟨⟨h', p', ⟨rfl, rfl⟩, _, pr⟩, r1, r2, cr, tm, sg⟩
          have : db.checkCert now h c = true := by
            simp only [DB.checkCert, DB.isRevoked, r1, r2, cr, tm, sg]
            rcases pr with pr | pr
            · simp [pr]
            · simp [pr]
          simp [this]
      · have hany' : (db.lines.any fun l => l.cert && l.key == c.ca && l.matcher.matches ⟨h, p⟩) = false := by
          simpa using hany
        simp only [DB.checkHostKey, DB.isHostAuthority, hs, ht, bne_self_eq_false, Bool.false_eq_true,
          if_false, hany', Bool.not_false, if_true]
        constructor
        · intro hh; cases hh
        · rintro ⟨_, ⟨h', p', he, hex, _⟩, _⟩
          exfalso
          simp only [Option.some.injEq, Prod.mk.injEq] at he
          obtain ⟨rfl, rfl⟩ := he
          apply hany
          simpa [List.any_eq_true, and_assoc] using hex
  · have : (c.certType != 2) = true := by simpa using ht
    simp [DB.checkHostKey, this, ht]

/-- a certificate is never answered with KeyError / RevokedError — only accept or a plain error -/
theorem cert_verdict_ok_or_reject (db : DB) (now : Int) (address remote : Bytes) (c : CertInfo) :
    db.checkHostKey now address remote (.cert c) = .ok ∨
    db.checkHostKey now address remote (.cert c) = .reject := by
  simp only [DB.checkHostKey]
  repeat' split
  all_goals simp

/-! ## 4. literal patterns, hashed entries -/

/-- a pattern without `*` and `?` matches exactly itself -/
theorem wildcard_literal (p s : Bytes) (h : ∀ c ∈ p, c ≠ cSTAR ∧ c ≠ cQM) :
    wildcardMatch p s = true ↔ s = p := by
  induction p generalizing s with
  | nil => simp [wildcardMatch]
  | cons c cs ih =>
    have hc := h c (by simp)
    have hcs : ∀ x ∈ cs, x ≠ cSTAR ∧ x ≠ cQM := fun x hx => h x (List.mem_cons_of_mem _ hx)
    cases s with
    | nil => simp [wm_cons_nil _ _ hc.1]
    | cons d ds =>
      rw [wm_nonstar _ _ _ _ hc.1]
      have : (c == cQM) = false := by simpa using hc.2
      simp only [this, Bool.false_or, Bool.and_eq_true, beq_iff_eq, ih ds hcs, List.cons.injEq]
      constructor
      · rintro ⟨rfl, rfl⟩; exact ⟨rfl, rfl⟩
      · rintro ⟨rfl, rfl⟩; exact ⟨rfl, rfl⟩

/-! ### base64 round trip (stand-in for encoding/base64) -/

theorem b64Val_b64Enc : ∀ v : Fin 64, b64Val (b64Enc v.val) = some v.val := by decide

theorem b64Enc_ne : ∀ v : Fin 64, b64Enc v.val ≠ cEQ ∧ b64Enc v.val ≠ cCR ∧ b64Enc v.val ≠ cLF ∧
    b64Enc v.val ≠ cPIPE ∧ b64Enc v.val ≠ cSP ∧ b64Enc v.val ≠ cTAB := by decide

theorem b64Val_enc (v : Nat) (h : v < 64) : b64Val (b64Enc v) = some v := b64Val_b64Enc ⟨v, h⟩
theorem b64Enc_ok (v : Nat) (h : v < 64) :
    b64Enc v ≠ cEQ ∧ b64Enc v ≠ cCR ∧ b64Enc v ≠ cLF ∧ b64Enc v ≠ cPIPE ∧ b64Enc v ≠ cSP ∧ b64Enc v ≠ cTAB :=
  b64Enc_ne ⟨v, h⟩

/-- characters of an encoding: never CR, LF or `|` -/
theorem b64Encode_chars (x : Bytes) :
    ∀ c ∈ b64Encode x, c ≠ cCR ∧ c ≠ cLF ∧ c ≠ cPIPE ∧ c ≠ cSP ∧ c ≠ cTAB := by
  fun_induction b64Encode x with
  | case1 => simp
  | case2 a =>
    have ha := a.toNat_lt
    intro c hc
    simp only [List.mem_cons, List.mem_nil_iff, or_false] at hc
    rcases hc with rfl | rfl | rfl | rfl
    · have := b64Enc_ok (a.toNat / 4) (by omega); exact this.2
    · have := b64Enc_ok (a.toNat % 4 * 16) (by omega); exact this.2
    · decide
    · decide
  | case3 a b =>
    have ha := a.toNat_lt
    have hb := b.toNat_lt
    intro c hc
    simp only [List.mem_cons, List.mem_nil_iff, or_false] at hc
    rcases hc with rfl | rfl | rfl | rfl
    · have := b64Enc_ok (a.toNat / 4) (by omega); exact this.2
    · have := b64Enc_ok (a.toNat % 4 * 16 + b.toNat / 16) (by omega); exact this.2
    · have := b64Enc_ok (b.toNat % 16 * 4) (by omega); exact this.2
    · decide
  | case4 a b c rest ih =>
    have ha := a.toNat_lt
    have hb := b.toNat_lt
    have hc' := c.toNat_lt
    intro x hx
    simp only [List.mem_cons] at hx
    rcases hx with rfl | rfl | rfl | rfl | hx
    · have := b64Enc_ok (a.toNat / 4) (by omega); exact this.2
    · have := b64Enc_ok (a.toNat % 4 * 16 + b.toNat / 16) (by omega); exact this.2
    · have := b64Enc_ok (b.toNat % 16 * 4 + c.toNat / 64) (by omega); exact this.2
    · have := b64Enc_ok (c.toNat % 64) (by omega); exact this.2
    · exact ih x hx

/-- no byte of an encoding is a blank, CR or LF -/
theorem b64Encode_alphabet (x : Bytes) (c : UInt8) (hc : c ∈ b64Encode x) :
    isSpTab c = false ∧ c ≠ cCR ∧ c ≠ cLF := by
  have h3 := b64Encode_chars x c hc
  refine ⟨?_, h3.1, h3.2.1⟩
  simp [isSpTab, h3.2.2.2.1, h3.2.2.2.2]

theorem ofNat_toNat_u8 (a : UInt8) : UInt8.ofNat a.toNat = a := by simp

theorem b64DecodeCore_encode (x : Bytes) : b64DecodeCore (b64Encode x) = some x := by
  fun_induction b64Encode x with
  | case1 => simp [b64DecodeCore]
  | case2 a =>
    have ha := a.toNat_lt
    have h1 := b64Val_enc (a.toNat / 4) (by omega)
    have h2 := b64Val_enc (a.toNat % 4 * 16) (by omega)
    simp only [b64DecodeCore, beq_self_eq_true, List.isEmpty_nil, Bool.and_self, if_true, h1, h2]
    have : a.toNat / 4 * 4 + a.toNat % 4 * 16 / 16 = a.toNat := by omega
    rw [this, ofNat_toNat_u8]
  | case3 a b =>
    have ha := a.toNat_lt
    have hb := b.toNat_lt
    have h1 := b64Val_enc (a.toNat / 4) (by omega)
    have h2 := b64Val_enc (a.toNat % 4 * 16 + b.toNat / 16) (by omega)
    have h3 := b64Val_enc (b.toNat % 16 * 4) (by omega)
    have hne : (b64Enc (b.toNat % 16 * 4) == cEQ) = false := by
      simpa using (b64Enc_ok (b.toNat % 16 * 4) (by omega)).1
    simp only [b64DecodeCore, hne, Bool.false_and, Bool.false_eq_true, if_false, beq_self_eq_true,
      List.isEmpty_nil, Bool.and_self, if_true, h1, h2, h3]
    have e1 : a.toNat / 4 * 4 + (a.toNat % 4 * 16 + b.toNat / 16) / 16 = a.toNat := by omega
    have e2 : (a.toNat % 4 * 16 + b.toNat / 16) % 16 * 16 + b.toNat % 16 * 4 / 4 = b.toNat := by omega
    rw [e1, e2, ofNat_toNat_u8, ofNat_toNat_u8]
  | case4 a b c rest ih =>
    have ha := a.toNat_lt
    have hb := b.toNat_lt
    have hc := c.toNat_lt
    have h1 := b64Val_enc (a.toNat / 4) (by omega)
    have h2 := b64Val_enc (a.toNat % 4 * 16 + b.toNat / 16) (by omega)
    have h3 := b64Val_enc (b.toNat % 16 * 4 + c.toNat / 64) (by omega)
    have h4 := b64Val_enc (c.toNat % 64) (by omega)
    have hne3 : (b64Enc (b.toNat % 16 * 4 + c.toNat / 64) == cEQ) = false := by
      simpa using (b64Enc_ok (b.toNat % 16 * 4 + c.toNat / 64) (by omega)).1
    have hne4 : (b64Enc (c.toNat % 64) == cEQ) = false := by
      simpa using (b64Enc_ok (c.toNat % 64) (by omega)).1
    simp only [b64DecodeCore, hne3, hne4, Bool.false_and, Bool.false_eq_true, if_false, h1, h2, h3, h4, ih]
    have e1 : a.toNat / 4 * 4 + (a.toNat % 4 * 16 + b.toNat / 16) / 16 = a.toNat := by omega
    have e2 : (a.toNat % 4 * 16 + b.toNat / 16) % 16 * 16 + (b.toNat % 16 * 4 + c.toNat / 64) / 4 = b.toNat := by
      omega
    have e3 : (b.toNat % 16 * 4 + c.toNat / 64) % 4 * 64 + c.toNat % 64 = c.toNat := by omega
    rw [e1, e2, e3, ofNat_toNat_u8, ofNat_toNat_u8, ofNat_toNat_u8]

/-- **base64 round trip**: `DecodeString(EncodeToString(x)) = x` for the model's stand-in -/
theorem b64_roundtrip (x : Bytes) : b64Decode (b64Encode x) = some x := by
  unfold b64Decode
  have : (b64Encode x).filter (fun c => !(c == cCR || c == cLF)) = b64Encode x := by
    apply List.filter_eq_self.2
    intro c hc
    have := b64Encode_chars x c hc
    simp [this.1, this.2.1]
  rw [this, b64DecodeCore_encode]

/-- **hash_matches**: the entry written by `HashHostname(host)` (any salt) parses as a hashed matcher,
    and that matcher accepts an address iff HMAC-SHA1(salt, Normalize(addr with lower-cased host)) =
    HMAC-SHA1(salt, host) — in particular it accepts every address whose lower-cased normal form is `host`. -/
theorem hash_matches (salt host : Bytes) :
    ∃ m, newHashedHost (hashHostname salt host) = some m ∧
      (∀ a : Addr, m.matches a =
        (hashHost (normalize (Addr.str ⟨lower a.host, a.port⟩)) salt == hashHost host salt)) ∧
      (∀ a : Addr, normalize (Addr.str ⟨lower a.host, a.port⟩) = host → m.matches a = true) := by
  have hs := b64Encode_chars salt
  have hh := b64Encode_chars (hashHost host salt)
  have hsplit : splitBy cPIPE (hashHostname salt host) =
      [[], [49], b64Encode salt, b64Encode (hashHost host salt)] := by
    simp only [hashHostname, encodeHash, joinBy, List.nil_append]
    rw [show cPIPE :: ([49] ++ cPIPE :: (b64Encode salt ++ cPIPE :: b64Encode (hashHost host salt)))
        = [] ++ cPIPE :: ([49] ++ cPIPE :: (b64Encode salt ++ cPIPE :: b64Encode (hashHost host salt))) by rfl]
    rw [splitBy_append_sep _ _ _ (by simp), splitBy_append_sep _ _ _ (by decide),
      splitBy_append_sep _ _ _ (fun c hc => (hs c hc).2.2.1), splitBy_nosep _ _ (fun c hc => (hh c hc).2.2.1)]
  have hhead : (hashHostname salt host).head? = some cPIPE := by
    simp [hashHostname, encodeHash, joinBy]
  refine ⟨.hashed salt (hashHost host salt), ?_, ?_, ?_⟩
  · simp [newHashedHost, hhead, hsplit, b64_roundtrip]
  · intro a; rfl
  · intro a ha
    simp [Matcher.matches, ha]

/-! ## 5. the tokenizer and `Line` -/

theorem lowerByte_toNat (c : UInt8) :
    (lowerByte c).toNat = if 65 ≤ c.toNat ∧ c.toNat ≤ 90 then c.toNat + 32 else c.toNat := by
  unfold lowerByte
  split
  · rename_i h
    rw [UInt8.toNat_add]
    have : (32 : UInt8).toNat = 32 := rfl
    rw [this]; omega
  · rfl

theorem lowerByte_star (c : UInt8) (h : lowerByte c = cSTAR) : c = cSTAR := by
  have h1 := congrArg UInt8.toNat h
  rw [lowerByte_toNat] at h1
  have : cSTAR.toNat = 42 := rfl
  apply UInt8.toNat_inj.1
  split at h1 <;> omega

theorem lowerByte_qm (c : UInt8) (h : lowerByte c = cQM) : c = cQM := by
  have h1 := congrArg UInt8.toNat h
  rw [lowerByte_toNat] at h1
  have : cQM.toNat = 63 := rfl
  apply UInt8.toNat_inj.1
  split at h1 <;> omega


theorem trimmed_ends (a m c : Bytes) (ha : NoBlank a) (hane : a ≠ []) (hc : NoBlank c) (hcne : c ≠ []) :
    Trimmed (a ++ m ++ c) := by
  constructor
  · intro x t e
    cases a with
    | nil => exact absurd rfl hane
    | cons y a' => simp at e; rw [← e.1]; exact ha y (by simp)
  · intro t y e
    obtain ⟨c', z, rfl⟩ : ∃ c' z, c = c' ++ [z] := by
      cases h : c.reverse with
      | nil => exact absurd (by simpa using h) hcne
      | cons z r =>
        refine ⟨r.reverse, z, ?_⟩
        have := congrArg List.reverse h
        simpa using this
    have : a ++ m ++ (c' ++ [z]) = (a ++ m ++ c') ++ [z] := by simp
    rw [this] at e
    have := List.append_inj_right' e rfl
    simp at this
    rw [← this]; exact hc z (by simp)

/-- **tokenizer spec** (`parseLine`): a line `host WS type WS key` — three blank-free non-empty words
    separated by non-empty runs of space/tab, where `host` is not a marker and does not start with `@` —
    yields exactly those fields; the key word is base64-decoded and looked up, and its type must equal the
    type word.  (`marker WS host WS type WS key` is the same with the marker recorded.) -/
theorem parseFields_spec (kt : KeyTab) (host b1 typ b2 key : Bytes)
    (hh : NoBlank host) (hhne : host ≠ []) (ht : NoBlank typ) (htne : typ ≠ []) (hk : NoBlank key)
    (hkne : key ≠ []) (hb1 : AllBlank b1) (hb1ne : b1 ≠ []) (hb2 : AllBlank b2) (hb2ne : b2 ≠ [])
    (hm1 : host ≠ markerCert) (hm2 : host ≠ markerRevoked) (hat : host.head? ≠ some cAT) :
    parseFields kt (host ++ b1 ++ (typ ++ b2 ++ key)) =
      match b64Decode key with
      | none => none
      | some blob =>
        match kt.lookup blob with
        | none => none
        | some (t, id) => if t != typ then none else some (.none, host, id) := by
  have htr := trimmed_ends typ b2 key ht htne hk hkne
  have h1 := nextWord_spec host b1 (typ ++ b2 ++ key) hh hb1 hb1ne htr
  have h2 := nextWord_spec typ b2 key ht hb2 hb2ne (trimmed_of_noBlank key hk)
  have h3 := nextWord_last key hk
  have e1 : (host == markerCert) = false := by simpa using hm1
  have e2 : (host == markerRevoked) = false := by simpa using hm2
  have e3 : (host.head? == some cAT) = false := by simpa using hat
  have e4 : (typ ++ b2 ++ key).isEmpty = false := by
    cases typ with
    | nil => exact absurd rfl htne
    | cons x t => rfl
  have e5 : key.isEmpty = false := by
    cases key with
    | nil => exact absurd rfl hkne
    | cons x t => rfl
  simp only [parseFields, h1, e1, e2, Bool.false_eq_true, if_false, e3, e4, h2, e5, h3]
  cases b64Decode key with
  | none => rfl
  | some blob =>
    cases List.lookup blob kt with
    | none => rfl
    | some ti => obtain ⟨t, i⟩ := ti; rfl

theorem parseFields_spec_marker (kt : KeyTab) (host b0 b1 typ b2 key : Bytes)
    (hh : NoBlank host) (hhne : host ≠ []) (ht : NoBlank typ) (htne : typ ≠ []) (hk : NoBlank key)
    (hkne : key ≠ []) (hb0 : AllBlank b0) (hb0ne : b0 ≠ []) (hb1 : AllBlank b1) (hb1ne : b1 ≠ [])
    (hb2 : AllBlank b2) (hb2ne : b2 ≠ []) (hat : host.head? ≠ some cAT) :
    parseFields kt (markerCert ++ b0 ++ (host ++ b1 ++ (typ ++ b2 ++ key))) =
      match b64Decode key with
      | none => none
      | some blob =>
        match kt.lookup blob with
        | none => none
        | some (t, id) => if t != typ then none else some (.cert, host, id) := by
  have htr := trimmed_ends typ b2 key ht htne hk hkne
  have htr0 : Trimmed (host ++ b1 ++ (typ ++ b2 ++ key)) := by
    have := trimmed_ends host (b1 ++ typ ++ b2) key hh hhne hk hkne
    simpa [List.append_assoc] using this
  have hmc : NoBlank markerCert := by intro c hc; revert c; decide
  have h0 := nextWord_spec markerCert b0 _ hmc hb0 hb0ne htr0
  have h1 := nextWord_spec host b1 (typ ++ b2 ++ key) hh hb1 hb1ne htr
  have h2 := nextWord_spec typ b2 key ht hb2 hb2ne (trimmed_of_noBlank key hk)
  have h3 := nextWord_last key hk
  have e3 : (host.head? == some cAT) = false := by simpa using hat
  have e4 : (typ ++ b2 ++ key).isEmpty = false := by
    cases typ with
    | nil => exact absurd rfl htne
    | cons x t => rfl
  have e5 : key.isEmpty = false := by
    cases key with
    | nil => exact absurd rfl hkne
    | cons x t => rfl
  simp only [parseFields, h0, beq_self_eq_true, if_true, h1, e3, Bool.false_eq_true, if_false, e4, h2, e5, h3]
  cases b64Decode key with
  | none => rfl
  | some blob =>
    cases List.lookup blob kt with
    | none => rfl
    | some ti => obtain ⟨t, i⟩ := ti; rfl

/-- bytes that may appear in the host and port of an address given to `Line` for the theorem below;
    the excluded bytes are exactly those with a meaning in known_hosts syntax -/
def Safe (w : Bytes) : Prop :=
  ∀ c ∈ w, c ≠ cCOLON ∧ c ≠ cLB ∧ c ≠ cRB ∧ c ≠ cSP ∧ c ≠ cTAB ∧ c ≠ cCOMMA ∧ c ≠ cBANG ∧ c ≠ cSTAR ∧
    c ≠ cQM ∧ c ≠ cAT ∧ c ≠ cHASH ∧ c ≠ cPIPE ∧ c ≠ cLF ∧ c ≠ cCR

theorem Safe.hostChars {w : Bytes} (h : Safe w) : HostChars w :=
  fun c hc => ⟨(h c hc).1, (h c hc).2.1, (h c hc).2.2.1⟩

/-- the address `host:port` -/
def mkAddr (hp : Bytes × Bytes) : Bytes := hp.1 ++ cCOLON :: hp.2

/-- `Normalize("h:p")` -/
theorem normalize_mkAddr (h p : Bytes) (hh : Safe h) (hp : Safe p) :
    normalize (mkAddr (h, p)) = if p == port22 then h else cLB :: h ++ cRB :: cCOLON :: p := by
  have hs := splitHostPort_plain h p hh.hostChars hp.hostChars
  have hsb : stripBrackets h = h := by
    unfold stripBrackets
    have : (h.head? == some cLB) = false := by
      cases h with
      | nil => rfl
      | cons x t => simpa using (hh x (by simp)).2.1
    simp [this]
  simp only [normalize, mkAddr, hs, hsb]

/-- every byte of a normalized address is a safe byte or one of `[ ] :` -/
theorem normalize_chars (h p : Bytes) (hh : Safe h) (hp : Safe p) (c : UInt8)
    (hc : c ∈ normalize (mkAddr (h, p))) :
    c ≠ cSP ∧ c ≠ cTAB ∧ c ≠ cCOMMA ∧ c ≠ cAT ∧ c ≠ cLF ∧ c ≠ cCR := by
  rw [normalize_mkAddr h p hh hp] at hc
  have safe6 : ∀ w : Bytes, Safe w → ∀ x ∈ w, x ≠ cSP ∧ x ≠ cTAB ∧ x ≠ cCOMMA ∧ x ≠ cAT ∧ x ≠ cLF ∧ x ≠ cCR :=
    fun w hw x hx => ⟨(hw x hx).2.2.2.1, (hw x hx).2.2.2.2.1, (hw x hx).2.2.2.2.2.1,
      (hw x hx).2.2.2.2.2.2.2.2.2.1, (hw x hx).2.2.2.2.2.2.2.2.2.2.2.2.1, (hw x hx).2.2.2.2.2.2.2.2.2.2.2.2.2⟩
  split at hc
  · exact safe6 h hh c hc
  · simp only [List.cons_append, List.mem_cons, List.mem_append] at hc
    rcases hc with rfl | hc | rfl | rfl | hc
    · decide
    · exact safe6 h hh c hc
    · decide
    · decide
    · exact safe6 p hp c hc

/-- the pattern element written for `h:p` parses back to host `h`, port `p`, not negated -/
theorem parseHostPattern_normalize (h p : Bytes) (hh : Safe h) (hhne : h ≠ []) (hp : Safe p) :
    parseHostPattern (normalize (mkAddr (h, p))) = some (some ⟨false, ⟨h, p⟩⟩) := by
  rw [normalize_mkAddr h p hh hp]
  by_cases h22 : p = port22
  · subst h22
    simp only [beq_self_eq_true, if_true]
    cases h with
    | nil => exact absurd rfl hhne
    | cons x t =>
      have hx := hh x (by simp)
      have e1 : (x == cBANG) = false := by simpa using hx.2.2.2.2.2.2.1
      have e2 : (x == cLB) = false := by simpa using hx.2.1
      have hn := splitHostPort_nocolon (x :: t) (fun c hc => (hh c hc).1)
      simp only [parseHostPattern, e1, Bool.false_eq_true, if_false, hn, e2]
  · have hb : (p == port22) = false := by simpa using h22
    have hs := splitHostPort_bracket h p hh.hostChars hp.hostChars
    simp only [hb, Bool.false_eq_true, if_false, List.cons_append, parseHostPattern,
      show (cLB == cBANG) = false by decide, hs]

theorem collectPatterns_normalize (hps : List (Bytes × Bytes))
    (hw : ∀ hp ∈ hps, Safe hp.1 ∧ hp.1 ≠ [] ∧ Safe hp.2) :
    collectPatterns (hps.map fun hp => normalize (mkAddr hp)) =
      some (hps.map fun hp => ⟨false, ⟨hp.1, hp.2⟩⟩) := by
  induction hps with
  | nil => rfl
  | cons hp rest ih =>
    obtain ⟨h1, h2, h3⟩ := hw hp (by simp)
    have := parseHostPattern_normalize hp.1 hp.2 h1 h2 h3
    simp only [List.map_cons, collectPatterns, this, ih (fun x hx => hw x (List.mem_cons_of_mem _ hx))]
    rfl

theorem normalize_ne_nil (h p : Bytes) (hh : Safe h) (hhne : h ≠ []) (hp : Safe p) :
    ∃ x t, normalize (mkAddr (h, p)) = x :: t ∧ x ≠ cAT ∧ x ≠ cPIPE ∧ x ≠ cHASH := by
  rw [normalize_mkAddr h p hh hp]
  split
  · cases h with
    | nil => exact absurd rfl hhne
    | cons x t =>
      have hx := hh x (by simp)
      exact ⟨x, t, rfl, hx.2.2.2.2.2.2.2.2.2.1, hx.2.2.2.2.2.2.2.2.2.2.2.1, hx.2.2.2.2.2.2.2.2.2.2.1⟩
  · exact ⟨cLB, _, rfl, by decide, by decide, by decide⟩

/-- **line_matches_own_host**: for every non-empty list of addresses `host:port` whose host (non-empty)
    and port consist of bytes without known_hosts meaning (`Safe`: no `: [ ] , ! * ? @ # |`, blank, CR, LF)
    and every key (type word without blanks, non-empty blob known to the key oracle), the line written by
    `Line(addresses, key)` parses as one entry, and the callback accepts that key for EACH of the addresses
    (whatever well-formed remote address). -/
theorem line_matches_own_host (kt : KeyTab) (hps : List (Bytes × Bytes)) (ktype blob : Bytes) (id : Nat)
    (now : Int) (remote : Bytes)
    (hne : hps ≠ []) (hw : ∀ hp ∈ hps, Safe hp.1 ∧ hp.1 ≠ [] ∧ Safe hp.2)
    (hkt : kt.lookup blob = some (ktype, id)) (htb : NoBlank ktype) (htne : ktype ≠ [])
    (htlf : ∀ c ∈ ktype, c ≠ cLF ∧ c ≠ cCR) (hblob : blob ≠ [])
    (hrem : (splitHostPort remote).isSome = true) :
    ∃ db, readDB kt (knownHostsLine (hps.map mkAddr) ktype blob) = .ok db ∧
      ∀ hp ∈ hps, db.checkHostKey now (mkAddr hp) remote (.plain id) = .ok := by
  -- the three words of the line
  let parts := hps.map fun hp => normalize (mkAddr hp)
  let hosts := joinBy cCOMMA parts
  let key := b64Encode blob
  have hparts : (hps.map mkAddr).map normalize = parts := by simp [parts, List.map_map, Function.comp_def]
  have hpartsne : parts ≠ [] := by simpa [parts] using hne
  have hchars : ∀ c ∈ hosts, c ≠ cSP ∧ c ≠ cTAB ∧ c ≠ cAT ∧ c ≠ cLF ∧ c ≠ cCR := by
    intro c hc
    rcases mem_joinBy cCOMMA parts c hc with rfl | ⟨q, hq, hcq⟩
    · decide
    · obtain ⟨hp, hhp, rfl⟩ := List.mem_map.1 hq
      obtain ⟨h1, h2, h3⟩ := hw hp hhp
      have := normalize_chars hp.1 hp.2 h1 h3 c hcq
      exact ⟨this.1, this.2.1, this.2.2.2.1, this.2.2.2.2.1, this.2.2.2.2.2⟩
  have hhostsNB : NoBlank hosts := by
    intro c hc
    have := hchars c hc
    simp [isSpTab, this.1, this.2.1]
  obtain ⟨hp0, rest0, hhps⟩ : ∃ hp0 rest0, hps = hp0 :: rest0 := by
    cases hps with
    | nil => exact absurd rfl hne
    | cons a t => exact ⟨a, t, rfl⟩
  obtain ⟨x0, t0, hx0, hx0at, hx0pipe, hx0hash⟩ :=
    normalize_ne_nil hp0.1 hp0.2 (hw hp0 (by simp [hhps])).1 (hw hp0 (by simp [hhps])).2.1
      (hw hp0 (by simp [hhps])).2.2
  have hhead : hosts.head? = some x0 := by
    have : parts = normalize (mkAddr hp0) :: rest0.map (fun hp => normalize (mkAddr hp)) := by
      simp [parts, hhps]
    show (joinBy cCOMMA parts).head? = some x0
    rw [this]; exact joinBy_head cCOMMA _ _ x0 t0 hx0
  have hhostsne : hosts ≠ [] := by
    intro h; rw [h] at hhead; cases hhead
  have hkeyNB : NoBlank key := by
    intro c hc
    have hcv := b64Encode_alphabet blob c hc
    exact hcv.1
  have hkeyne : key ≠ [] := by
    cases blob with
    | nil => exact absurd rfl hblob
    | cons a t =>
      cases t with
      | nil => simp [key, b64Encode]
      | cons b t2 => cases t2 <;> simp [key, b64Encode]
  have hm1 : hosts ≠ markerCert := by
    intro h; rw [h] at hhead
    have : x0 = 64 := by simpa [markerCert] using hhead.symm
    exact hx0at this
  have hm2 : hosts ≠ markerRevoked := by
    intro h; rw [h] at hhead
    have : x0 = 64 := by simpa [markerRevoked] using hhead.symm
    exact hx0at this
  have hat : hosts.head? ≠ some cAT := by
    rw [hhead]; intro h; exact hx0at (by simpa using h)
  -- the line and its tokenization
  have hline : knownHostsLine (hps.map mkAddr) ktype blob = hosts ++ [cSP] ++ (ktype ++ [cSP] ++ key) := by
    simp [knownHostsLine, hparts, hosts, key]
  have hblank : AllBlank [cSP] := by intro c hc; simp at hc; subst hc; decide
  have hpf := parseFields_spec kt hosts [cSP] ktype [cSP] key hhostsNB hhostsne htb htne hkeyNB hkeyne
    hblank (by simp) hblank (by simp) hm1 hm2 hat
  rw [show b64Decode key = some blob from b64_roundtrip blob] at hpf
  simp only [hkt, bne_self_eq_false, Bool.false_eq_true, if_false] at hpf
  -- the file is that single line
  have hnolf : ∀ c ∈ hosts ++ [cSP] ++ (ktype ++ [cSP] ++ key), c ≠ cLF ∧ c ≠ cCR := by
    intro c hc
    simp only [List.mem_append, List.mem_singleton] at hc
    rcases hc with (hc | rfl) | ((hc | rfl) | hc)
    · exact ⟨(hchars c hc).2.2.2.1, (hchars c hc).2.2.2.2⟩
    · decide
    · exact htlf c hc
    · decide
    · have := b64Encode_alphabet blob c hc; exact ⟨this.2.2, this.2.1⟩
  have htrim : Trimmed (hosts ++ [cSP] ++ (ktype ++ [cSP] ++ key)) := by
    have := trimmed_ends hosts ([cSP] ++ ktype ++ [cSP]) key hhostsNB hhostsne hkeyNB hkeyne
    simpa [List.append_assoc] using this
  have hscan : scanLines (hosts ++ [cSP] ++ (ktype ++ [cSP] ++ key)) = [hosts ++ [cSP] ++ (ktype ++ [cSP] ++ key)] := by
    unfold scanLines
    rw [splitBy_nosep cLF _ (fun c hc => (hnolf c hc).1)]
    simp only [List.map_cons, List.map_nil, List.cons.injEq, and_true]
    unfold dropCR
    cases hrev : (hosts ++ [cSP] ++ (ktype ++ [cSP] ++ key)).reverse with
    | nil => rfl
    | cons y r =>
      have hy : y ∈ hosts ++ [cSP] ++ (ktype ++ [cSP] ++ key) := by
        rw [← List.mem_reverse, hrev]; simp
      have : (y == cCR) = false := by simpa using (hnolf y hy).2
      simp [this]
  have htrimeq : trimSpace (hosts ++ [cSP] ++ (ktype ++ [cSP] ++ key)) = hosts ++ [cSP] ++ (ktype ++ [cSP] ++ key) := by
    have := trimSpace_spec [] _ [] (by intro c hc; cases hc) (by intro c hc; cases hc) htrim
    simpa using this
  have hlhead : (hosts ++ [cSP] ++ (ktype ++ [cSP] ++ key)).head? = some x0 := by
    cases hh : hosts with
    | nil => exact absurd hh hhostsne
    | cons a t => rw [hh] at hhead; simpa using hhead
  have hmatcher : newHostnameMatcher hosts = some (.pats (hps.map fun hp => ⟨false, ⟨hp.1, hp.2⟩⟩)) := by
    unfold newHostnameMatcher
    show Option.map Matcher.pats (collectPatterns (splitBy cCOMMA (joinBy cCOMMA parts))) = _
    rw [splitBy_joinBy cCOMMA parts hpartsne (by
      intro q hq c hc
      obtain ⟨hp, hhp, rfl⟩ := List.mem_map.1 hq
      obtain ⟨h1, h2, h3⟩ := hw hp hhp
      exact (normalize_chars hp.1 hp.2 h1 h3 c hc).2.2.1)]
    rw [collectPatterns_normalize hps hw]; rfl
  let entry : Entry := ⟨1, false, .pats (hps.map fun hp => ⟨false, ⟨hp.1, hp.2⟩⟩), id⟩
  have hread : readDB kt (knownHostsLine (hps.map mkAddr) ktype blob) = .ok ⟨[], [entry]⟩ := by
    have hne' : (hosts ++ [cSP] ++ (ktype ++ [cSP] ++ key)).isEmpty = false := by
      cases hh : hosts with
      | nil => exact absurd hh hhostsne
      | cons a t => rfl
    have hhash : ((hosts ++ [cSP] ++ (ktype ++ [cSP] ++ key)).head? == some cHASH) = false := by
      rw [hlhead]; simpa using hx0hash
    have hpipe : (hosts.head? == some cPIPE) = false := by
      rw [hhead]; simpa using hx0pipe
    rw [hline]
    simp only [readDB, hscan, readLines, htrimeq, hne', hhash, Bool.or_self, Bool.false_eq_true, if_false,
      DB.addLine, hpf, hpipe, hmatcher, DB.empty]
    rfl
  refine ⟨_, hread, ?_⟩
  intro hp hhp
  obtain ⟨h1, h2, h3⟩ := hw hp hhp
  have hsplit := splitHostPort_plain hp.1 hp.2 h1.hostChars h3.hostChars
  obtain ⟨rhp, hrhp⟩ := Option.isSome_iff_exists.1 hrem
  have haddrne : (mkAddr hp).isEmpty = false := by
    unfold mkAddr
    cases hh : hp.1 with
    | nil => exact absurd hh h2
    | cons a t => rfl
  have hmatch : entry.matcher.matches ⟨hp.1, hp.2⟩ = true := by
    rw [show entry.matcher = .pats (hps.map fun hp => ⟨false, ⟨hp.1, hp.2⟩⟩) from rfl, negation_semantics]
    refine ⟨⟨⟨false, ⟨hp.1, hp.2⟩⟩, List.mem_map.2 ⟨hp, hhp, rfl⟩, rfl, ?_⟩, ?_⟩
    · have hlit := (wildcard_literal (lower hp.1) (lower hp.1) (by
        intro c hc
        obtain ⟨c', hc', rfl⟩ := List.mem_map.1 hc
        exact ⟨fun h => (h1 c' hc').2.2.2.2.2.2.2.1 (lowerByte_star c' h),
          fun h => (h1 c' hc').2.2.2.2.2.2.2.2.1 (lowerByte_qm c' h)⟩)).2 rfl
      simp [HostPattern.matches, hlit]
    · intro q hq hneg
      obtain ⟨x, _, rfl⟩ := List.mem_map.1 hq
      cases hneg
  rw [decision]
  refine ⟨by simp, ⟨hp.1, hp.2⟩, ?_, entry, by simp, rfl, hmatch, rfl⟩
  unfold effectiveAddr
  obtain ⟨rh, rp⟩ := rhp
  simp only [hrhp, haddrne, Bool.false_eq_true, if_false]
  show Option.map _ (splitHostPort (mkAddr hp)) = _
  unfold mkAddr
  rw [hsplit]; rfl

example : Safe [104, 111, 115, 116] ∧ Safe [50, 50, 50, 50] := by
  constructor <;> (intro c hc; revert c; decide)

/-! ## 6. marker filter and case-insensitivity (formerly known findings, fixed in the code) -/

/-- a `@cert-authority` line never makes a PLAIN key acceptable: acceptance always comes from an
    unmarked line (corollary of `decision`) -/
theorem ca_line_is_not_a_host_key_line (db : DB) (now : Int) (address remote : Bytes) (key : Nat)
    (h : db.checkHostKey now address remote (.plain key) = .ok) :
    ∃ l ∈ db.lines, l.cert = false ∧ l.key = key := by
  obtain ⟨_, a, _, l, hl, hc, _, hk⟩ := (decision db now address remote key).1 h
  exact ⟨l, hl, hc, hk⟩

/-- regression example (old code answered `.ok`): file `@cert-authority h <K>`, `K` presented as plain key -/
theorem marker_regression :
    let db : DB := ⟨[], [⟨1, true, .pats [⟨false, ⟨[104], port22⟩⟩], 7⟩]⟩
    db.checkHostKey 0 [104, 58, 50, 50] [104, 58, 50, 50] (.plain 7) = .keyErr [] := by
  decide

theorem lowerByte_idem (c : UInt8) : lowerByte (lowerByte c) = lowerByte c := by
  apply UInt8.toNat_inj.1
  rw [lowerByte_toNat (lowerByte c), lowerByte_toNat c]
  by_cases h : 65 ≤ c.toNat ∧ c.toNat ≤ 90
  · have h2 : ¬ (65 ≤ c.toNat + 32 ∧ c.toNat + 32 ≤ 90) := by omega
    rw [if_pos h, if_neg h2]
  · rw [if_neg h, if_neg h]

theorem lower_idem (w : Bytes) : lower (lower w) = lower w := by
  simp [lower, List.map_map, Function.comp_def, lowerByte_idem]

/-- **case-insensitivity**: a pattern list's verdict depends on the host name and on the pattern hosts
    only through their lower-cased forms -/
theorem matches_lower_host (p : HostPattern) (a : Addr) :
    p.matches ⟨lower a.host, a.port⟩ = p.matches a := by
  simp [HostPattern.matches, lower_idem]

theorem matches_lower_pattern (p : HostPattern) (a : Addr) :
    HostPattern.matches ⟨p.negate, ⟨lower p.addr.host, p.addr.port⟩⟩ a = p.matches a := by
  simp [HostPattern.matches, lower_idem]

/-- regression examples (old code: false / true): pattern `H` matches host `h`; `*,!h` excludes `H` -/
theorem case_regression :
    (Matcher.pats [⟨false, ⟨[72], port22⟩⟩]).matches ⟨[104], port22⟩ = true ∧
    (Matcher.pats [⟨false, ⟨[cSTAR], port22⟩⟩, ⟨true, ⟨[104], port22⟩⟩]).matches ⟨[72], port22⟩ = false := by
  decide

/-! ## 7. non-vacuity examples -/

/-- file `h <K7>` / `*,!h <K8>` / `@revoked x <K9>` / `@cert-authority * <K5>` -/
def exDB : DB :=
  ⟨[(9, 3)], [⟨1, false, .pats [⟨false, ⟨[104], port22⟩⟩], 7⟩,
     ⟨2, false, .pats [⟨false, ⟨[cSTAR], port22⟩⟩, ⟨true, ⟨[104], port22⟩⟩], 8⟩,
     ⟨4, true, .pats [⟨false, ⟨[cSTAR], port22⟩⟩], 5⟩]⟩

example : exDB.checkHostKey 0 [104, 58, 50, 50] [120, 58, 50, 50] (.plain 7) = .ok := by decide
example : exDB.checkHostKey 0 [72, 58, 50, 50] [120, 58, 50, 50] (.plain 8) = .keyErr [1] := by decide   -- H:22
example : exDB.checkHostKey 0 [97, 58, 50, 50] [120, 58, 50, 50] (.plain 7) = .keyErr [2] := by decide
example : exDB.checkHostKey 0 [104, 58, 50, 50] [120, 58, 50, 50] (.plain 9) = .revoked 3 := by decide
example : exDB.checkHostKey 0 [104, 58, 50, 50] [120, 58, 50, 50] (.plain 5) = .keyErr [1] := by decide  -- CA key, plain
example : exDB.checkHostKey 0 [104] [120, 58, 50, 50] (.plain 7) = .reject := by decide                   -- no port
/-- a host certificate signed by the listed CA (key 5) is accepted; a user certificate is not -/
example : exDB.checkHostKey 10 [104, 58, 50, 50] [] (.cert ⟨6, 2, 5, false, [[104]], 0, 2 ^ 64 - 1, true⟩) = .ok := by
  decide
example : exDB.checkHostKey 10 [104, 58, 50, 50] [] (.cert ⟨6, 1, 5, false, [], 0, 2 ^ 64 - 1, true⟩) = .reject := by
  decide
example : ∃ m, newHashedHost (hashHostname [1, 2, 3] [104]) = some m := by
  obtain ⟨m, h, _⟩ := hash_matches [1, 2, 3] [104]; exact ⟨m, h⟩
example : trimSpace ([cSP, cTAB] ++ [104, cSP, 105] ++ [cSP]) = [104, cSP, 105] := by decide
example : nextWord ([104] ++ [cSP, cSP] ++ [105, cSP, 106]) = ([104], [105, cSP, 106]) := by decide

end XC.C42
