/-
  C42 — property theorems over XC.Model.C42 (known_hosts decisions).
-/
import XC.Model.C42
namespace XC.C42
open XC

/-! ## 1. wildcardMatch versus the glob language

`Glob p s` is the OpenSSH pattern language (`*` = any sequence, possibly empty; `?` = any one byte).
Go's `wildcardMatch` tests `len(str) == 0` BEFORE it looks at a `*`, so a `*` that is the last pattern
byte needs at least one byte: the function decides exactly the glob language of `goPattern p`
(`p` with a `?` appended when `p` ends in `*`).  `wildcard_spec` is that statement for all inputs;
`wildcard_trailing_star_gap` is the witness that this is NOT `Glob p` itself. -/

inductive Glob : Bytes → Bytes → Prop
  | nil : Glob [] []
  | star {ps s t : Bytes} (u : Bytes) : t = u ++ s → Glob ps s → Glob (cSTAR :: ps) t
  | qm {ps s : Bytes} (c : UInt8) : Glob ps s → Glob (cQM :: ps) (c :: s)
  | lit {ps s : Bytes} (c : UInt8) : c ≠ cSTAR → c ≠ cQM → Glob ps s → Glob (c :: ps) (c :: s)

/-- every suffix, including the empty one -/
def anySuffix (f : Bytes → Bool) : Bytes → Bool
  | [] => f []
  | c :: cs => f (c :: cs) || anySuffix f cs

/-- executable glob matcher (spec-shaped: `*` tries every suffix including the empty one) -/
def globB : Bytes → Bytes → Bool
  | [], s => s.isEmpty
  | p :: ps, s =>
    if p == cSTAR then anySuffix (globB ps) s
    else match s with
      | [] => false
      | c :: cs => (p == cQM || p == c) && globB ps cs

theorem anySuffix_iff (f : Bytes → Bool) (s : Bytes) :
    anySuffix f s = true ↔ ∃ u t, s = u ++ t ∧ f t = true := by
  induction s with
  | nil =>
    simp only [anySuffix]
    constructor
    · intro h; exact ⟨[], [], rfl, h⟩
    · rintro ⟨u, t, h, ht⟩
      have : t = [] := by
        have := congrArg List.length h
        simp at this
        exact List.eq_nil_of_length_eq_zero (by omega)
      simpa [this] using ht
  | cons c cs ih =>
    simp only [anySuffix, Bool.or_eq_true, ih]
    constructor
    · rintro (h | ⟨u, t, h, ht⟩)
      · exact ⟨[], c :: cs, rfl, h⟩
      · exact ⟨c :: u, t, by simp [h], ht⟩
    · rintro ⟨u, t, h, ht⟩
      cases u with
      | nil => left; simp at h; simpa [h] using ht
      | cons d u =>
        right
        simp at h
        exact ⟨u, t, h.2, ht⟩

theorem anyNESuffix_iff (f : Bytes → Bool) (s : Bytes) :
    anyNESuffix f s = true ↔ ∃ u t, s = u ++ t ∧ t ≠ [] ∧ f t = true := by
  induction s with
  | nil =>
    simp only [anyNESuffix]
    constructor
    · intro h; cases h
    · rintro ⟨u, t, h, hne, _⟩
      have := congrArg List.length h
      simp at this
      exact absurd (List.eq_nil_of_length_eq_zero (by omega)) hne
  | cons c cs ih =>
    simp only [anyNESuffix, Bool.or_eq_true, ih]
    constructor
    · rintro (h | ⟨u, t, h, hne, ht⟩)
      · exact ⟨[], c :: cs, rfl, by simp, h⟩
      · exact ⟨c :: u, t, by simp [h], hne, ht⟩
    · rintro ⟨u, t, h, hne, ht⟩
      cases u with
      | nil => left; simp at h; simpa [h] using ht
      | cons d u =>
        right
        simp at h
        exact ⟨u, t, h.2, hne, ht⟩

theorem star_ne_qm : cSTAR ≠ cQM := by decide

/-- the executable glob matcher decides the inductive glob language -/
theorem globB_iff (p s : Bytes) : globB p s = true ↔ Glob p s := by
  induction p generalizing s with
  | nil =>
    simp only [globB]
    constructor
    · intro h
      have : s = [] := by simpa using h
      subst this; exact Glob.nil
    · intro h; cases h; rfl
  | cons p ps ih =>
    simp only [globB]
    by_cases hp : p = cSTAR
    · subst hp
      simp only [beq_self_eq_true, if_true, anySuffix_iff]
      constructor
      · rintro ⟨u, t, rfl, ht⟩
        exact Glob.star u rfl ((ih t).1 ht)
      · intro h
        cases h with
        | star u he h => exact ⟨u, _, he, (ih _).2 h⟩
        | lit c h1 _ _ => exact absurd rfl h1
    · have hb : (p == cSTAR) = false := by simpa using hp
      simp only [hb]
      cases s with
      | nil =>
        simp
        intro h; cases h <;> simp_all
      | cons c cs =>
        simp only [Bool.false_eq_true, if_false, Bool.and_eq_true, Bool.or_eq_true, beq_iff_eq]
        constructor
        · rintro ⟨h | h, hg⟩
          · subst h; exact Glob.qm c ((ih cs).1 hg)
          · subst h
            by_cases hq : p = cQM
            · subst hq; exact Glob.qm _ ((ih cs).1 hg)
            · exact Glob.lit p hp hq ((ih cs).1 hg)
        · intro h
          cases h with
          | star u _ h => exact absurd rfl hp
          | qm c h => exact ⟨Or.inl rfl, (ih cs).2 h⟩
          | lit c _ _ h => exact ⟨Or.inr rfl, (ih cs).2 h⟩

/-- the pattern whose glob language Go's `wildcardMatch` decides -/
def lastFix (p : UInt8) : Bytes := if p == cSTAR then [cSTAR, cQM] else [p]

def goPattern : Bytes → Bytes
  | [] => []
  | [p] => lastFix p
  | p :: q :: r => p :: goPattern (q :: r)

theorem goPattern_eq (p : Bytes) :
    goPattern p = if p.getLast? = some cSTAR then p ++ [cQM] else p := by
  fun_induction goPattern with
  | case1 => simp
  | case2 p =>
    by_cases h : p = cSTAR <;> simp [h, lastFix]
  | case3 p q r ih =>
    rw [ih]
    simp only [List.getLast?_cons_cons]
    split <;> simp

theorem globB_goPattern_nil (p : Bytes) (h : p ≠ []) : globB (goPattern p) [] = false := by
  fun_induction goPattern with
  | case1 => exact absurd rfl h
  | case2 p =>
    by_cases hp : p = cSTAR
    · subst hp; simp [lastFix, globB, anySuffix]; decide
    · have hb : (p == cSTAR) = false := by simpa using hp
      simp [lastFix, hb, globB]
  | case3 p q r ih =>
    simp only [globB]
    split
    · simp only [anySuffix]; exact ih (by simp)
    · rfl

theorem anySuffix_qm (c : UInt8) (cs : Bytes) : anySuffix (globB [cQM]) (c :: cs) = true := by
  induction cs generalizing c with
  | nil => simp [anySuffix, globB]
  | cons d ds ih =>
    have := ih d
    rw [anySuffix, this, Bool.or_true]

theorem anySuffix_eq_anyNESuffix (f : Bytes → Bool) (hf : f [] = false) (s : Bytes) :
    anySuffix f s = anyNESuffix f s := by
  induction s with
  | nil => simp [anySuffix, anyNESuffix, hf]
  | cons c cs ih => simp [anySuffix, anyNESuffix, ih]

theorem wm_cons_nil (p : UInt8) (ps : Bytes) : wildcardMatch (p :: ps) [] = false := by
  simp [wildcardMatch]

theorem wm_star_last (c : UInt8) (cs : Bytes) : wildcardMatch [cSTAR] (c :: cs) = true := by
  simp [wildcardMatch]

theorem wm_star_cons (q : UInt8) (r : Bytes) (c : UInt8) (cs : Bytes) :
    wildcardMatch (cSTAR :: q :: r) (c :: cs) = anyNESuffix (wildcardMatch (q :: r)) (c :: cs) := by
  rw [wildcardMatch]; simp

theorem wm_nonstar (p : UInt8) (ps : Bytes) (c : UInt8) (cs : Bytes) (hp : p ≠ cSTAR) :
    wildcardMatch (p :: ps) (c :: cs) = ((p == cQM || p == c) && wildcardMatch ps cs) := by
  have hb : (p == cSTAR) = false := by simpa using hp
  rw [wildcardMatch]
  simp only [hb, Bool.false_eq_true, if_false]
  cases (p == cQM || p == c) <;> simp

theorem globB_nonstar (p : UInt8) (ps : Bytes) (c : UInt8) (cs : Bytes) (hp : p ≠ cSTAR) :
    globB (p :: ps) (c :: cs) = ((p == cQM || p == c) && globB ps cs) := by
  have hb : (p == cSTAR) = false := by simpa using hp
  simp only [globB, hb, Bool.false_eq_true, if_false]

theorem globB_star (ps s : Bytes) : globB (cSTAR :: ps) s = anySuffix (globB ps) s := by
  simp [globB]

theorem wildcardMatch_eq_globB (p s : Bytes) : wildcardMatch p s = globB (goPattern p) s := by
  fun_induction goPattern generalizing s with
  | case1 => simp [wildcardMatch, globB]
  | case2 p =>
    cases s with
    | nil =>
      have := globB_goPattern_nil [p] (by simp)
      simp only [goPattern] at this
      rw [this, wm_cons_nil]
    | cons c cs =>
      by_cases hp : p = cSTAR
      · subst hp
        rw [wm_star_last]
        simp only [lastFix, beq_self_eq_true, if_true]
        rw [globB_star]
        exact (anySuffix_qm c cs).symm
      · have hb : (p == cSTAR) = false := by simpa using hp
        simp only [lastFix, hb, Bool.false_eq_true, if_false]
        rw [wm_nonstar _ _ _ _ hp, globB_nonstar _ _ _ _ hp]
        simp [wildcardMatch, globB]
  | case3 p q r ih =>
    cases s with
    | nil =>
      have := globB_goPattern_nil (p :: q :: r) (by simp)
      simp only [goPattern] at this
      rw [this, wm_cons_nil]
    | cons c cs =>
      by_cases hp : p = cSTAR
      · subst hp
        have hfun : wildcardMatch (q :: r) = globB (goPattern (q :: r)) := funext ih
        rw [wm_star_cons, globB_star, hfun]
        exact (anySuffix_eq_anyNESuffix _ (globB_goPattern_nil (q :: r) (by simp)) _).symm
      · rw [wm_nonstar _ _ _ _ hp, globB_nonstar _ _ _ _ hp, ih]

/-- **wildcard_spec**: for every pattern and string, Go's `wildcardMatch` accepts exactly the glob language
    of `goPattern p` — i.e. of `p` itself unless `p` ends in `*`, in which case of `p ++ "?"`. -/
theorem wildcard_spec (p s : Bytes) :
    wildcardMatch p s = true ↔ Glob (if p.getLast? = some cSTAR then p ++ [cQM] else p) s := by
  rw [wildcardMatch_eq_globB, globB_iff, goPattern_eq]

/-- patterns that do not end in `*` have exactly the OpenSSH glob semantics -/
theorem wildcard_spec_no_trailing_star (p s : Bytes) (h : p.getLast? ≠ some cSTAR) :
    wildcardMatch p s = true ↔ Glob p s := by
  rw [wildcard_spec]; simp [h]

theorem Glob_append_qm {p s : Bytes} (h : Glob (p ++ [cQM]) s) : Glob (p ++ [cSTAR]) s := by
  generalize hq : p ++ [cQM] = q at h
  induction h generalizing p with
  | nil => simp at hq
  | star u he h ih =>
    cases p with
    | nil => simp at hq; exact absurd hq.1.symm star_ne_qm
    | cons x xs =>
      simp at hq; obtain ⟨rfl, rfl⟩ := hq
      exact Glob.star u he (ih rfl)
  | qm c h ih =>
    cases p with
    | nil =>
      simp at hq; subst hq
      cases h
      exact Glob.star [c] (by simp) Glob.nil
    | cons x xs =>
      simp at hq; obtain ⟨rfl, rfl⟩ := hq
      exact Glob.qm c (ih rfl)
  | lit c h1 h2 h ih =>
    cases p with
    | nil => simp at hq; exact absurd hq.1.symm h2
    | cons x xs =>
      simp at hq; obtain ⟨rfl, rfl⟩ := hq
      exact Glob.lit _ h1 h2 (ih rfl)

theorem Glob_star_idem {p s : Bytes} (h : Glob (p ++ [cSTAR, cSTAR]) s) : Glob (p ++ [cSTAR]) s := by
  generalize hq : p ++ [cSTAR, cSTAR] = q at h
  induction h generalizing p with
  | nil => simp at hq
  | star u he h ih =>
    cases p with
    | nil =>
      simp at hq; subst hq
      cases h with
      | star v he2 h =>
        cases h
        exact Glob.star (u ++ v) (by simp [he, he2]) Glob.nil
      | lit c h1 _ _ => exact absurd rfl h1
    | cons x xs =>
      simp at hq; obtain ⟨rfl, rfl⟩ := hq
      exact Glob.star u he (ih rfl)
  | qm c h ih =>
    cases p with
    | nil => simp at hq; exact absurd hq.1 star_ne_qm
    | cons x xs =>
      simp at hq; obtain ⟨rfl, rfl⟩ := hq
      exact Glob.qm c (ih rfl)
  | lit c h1 h2 h ih =>
    cases p with
    | nil => simp at hq; exact absurd hq.1.symm h1
    | cons x xs =>
      simp at hq; obtain ⟨rfl, rfl⟩ := hq
      exact Glob.lit _ h1 h2 (ih rfl)

/-- Go never accepts a host that the OpenSSH glob semantics rejects … -/
theorem wildcard_sound (p s : Bytes) (h : wildcardMatch p s = true) : Glob p s := by
  rw [wildcard_spec] at h
  split at h
  · rename_i hl
    obtain ⟨q, rfl⟩ : ∃ q, p = q ++ [cSTAR] := by
      rw [List.getLast?_eq_some_iff] at hl
      exact hl
    have h' : Glob ((q ++ [cSTAR]) ++ [cSTAR]) s := Glob_append_qm h
    rw [List.append_assoc] at h'
    exact Glob_star_idem h'
  · exact h

/-- … but it does reject hosts that OpenSSH accepts: a trailing `*` must consume at least one byte.
    (`host*` does not match `host`; negated, `!host*` fails to exclude `host`.) -/
theorem wildcard_trailing_star_gap :
    Glob [104, cSTAR] [104] ∧ wildcardMatch [104, cSTAR] [104] = false := by
  refine ⟨?_, by decide⟩
  exact Glob.lit (ps := [cSTAR]) (s := []) 104 (by decide) (by decide) (Glob.star [] rfl Glob.nil)

example : wildcardMatch [104, 42, 116, 63, 46, 42] [104, 111, 115, 116, 49, 46, 99, 111, 109] = true := by decide  -- h*t?.* / host1.com
example : wildcardMatch [cSTAR] [] = false := by decide

/-! ## 2. negation semantics of a pattern list -/

theorem matchPatternsGo_iff (m : Bool) (ps : List HostPattern) (a : Addr) :
    matchPatternsGo m ps a = true ↔
      (m = true ∨ ∃ p ∈ ps, p.negate = false ∧ p.matches a = true) ∧
      (∀ p ∈ ps, p.negate = true → p.matches a = false) := by
  induction ps generalizing m with
  | nil => simp [matchPatternsGo]
  | cons p ps ih =>
    simp only [matchPatternsGo]
    by_cases hm : p.matches a = true
    · simp only [hm, Bool.not_true, Bool.false_eq_true, if_false]
      by_cases hn : p.negate = true
      · simp only [hn, if_true, Bool.false_eq_true, false_iff, not_and]
        intro _ hall
        have := hall p (by simp) hn
        simp [hm] at this
      · have hn' : p.negate = false := by simpa using hn
        simp only [hn', Bool.false_eq_true, if_false, ih]
        constructor
        · rintro ⟨_, hall⟩
          refine ⟨Or.inr ⟨p, by simp, hn', hm⟩, ?_⟩
          intro q hq hqn
          rcases List.mem_cons.1 hq with rfl | hq
          · simp [hn'] at hqn
          · exact hall q hq hqn
        · rintro ⟨_, hall⟩
          exact ⟨Or.inl trivial, fun q hq => hall q (List.mem_cons_of_mem _ hq)⟩
    · have hm' : p.matches a = false := by simpa using hm
      simp only [hm', Bool.not_false, if_true, ih]
      constructor
      · rintro ⟨h1, hall⟩
        refine ⟨?_, ?_⟩
        · rcases h1 with h | ⟨q, hq, h⟩
          · exact Or.inl h
          · exact Or.inr ⟨q, List.mem_cons_of_mem _ hq, h⟩
        · intro q hq hqn
          rcases List.mem_cons.1 hq with rfl | hq
          · exact hm'
          · exact hall q hq hqn
      · rintro ⟨h1, hall⟩
        refine ⟨?_, fun q hq => hall q (List.mem_cons_of_mem _ hq)⟩
        rcases h1 with h | ⟨q, hq, hqn, hqm⟩
        · exact Or.inl h
        · rcases List.mem_cons.1 hq with rfl | hq
          · simp [hm'] at hqm
          · exact Or.inr ⟨q, hq, hqn, hqm⟩

/-- **negation_semantics**: a pattern list matches iff some positive pattern matches and NO negated
    pattern matches (independent of the order of the patterns). -/
theorem negation_semantics (ps : List HostPattern) (a : Addr) :
    (Matcher.pats ps).matches a = true ↔
      (∃ p ∈ ps, p.negate = false ∧ p.matches a = true) ∧
      (∀ p ∈ ps, p.negate = true → p.matches a = false) := by
  simp [Matcher.matches, matchPatternsGo_iff]

example : (Matcher.pats [⟨false, ⟨[cSTAR], port22⟩⟩, ⟨true, ⟨[97], port22⟩⟩]).matches ⟨[97], port22⟩ = false := by
  decide
example : (Matcher.pats [⟨false, ⟨[cSTAR], port22⟩⟩, ⟨true, ⟨[97], port22⟩⟩]).matches ⟨[98], port22⟩ = true := by
  decide

/-! ## 3. decisions -/

theorem checkAddrGo_ok_iff (key : Nat) (a : Addr) (ls : List Entry) (want : List Nat) :
    checkAddrGo key a ls want = .ok ↔ ∃ l ∈ ls, l.matcher.matches a = true ∧ l.key = key := by
  induction ls generalizing want with
  | nil => simp [checkAddrGo]
  | cons l ls ih =>
    simp only [checkAddrGo]
    by_cases hm : l.matcher.matches a = true
    · simp only [hm, Bool.not_true, Bool.false_eq_true, if_false]
      by_cases hk : l.key = key
      · simp [hk, hm]
      · have : (l.key == key) = false := by simpa using hk
        simp only [this, Bool.false_eq_true, if_false, ih, List.mem_cons]
        constructor
        · rintro ⟨x, hx, h⟩; exact ⟨x, Or.inr hx, h⟩
        · rintro ⟨x, rfl | hx, h1, h2⟩
          · exact absurd h2 hk
          · exact ⟨x, hx, h1, h2⟩
    · have hm' : l.matcher.matches a = false := by simpa using hm
      simp only [hm', Bool.not_false, if_true, ih, List.mem_cons]
      constructor
      · rintro ⟨x, hx, h⟩; exact ⟨x, Or.inr hx, h⟩
      · rintro ⟨x, rfl | hx, h1, h2⟩
        · simp [hm'] at h1
        · exact ⟨x, hx, h1, h2⟩

theorem checkAddrGo_keyErr_iff (key : Nat) (a : Addr) (ls : List Entry) (want w : List Nat) :
    checkAddrGo key a ls want = .keyErr w ↔
      (∀ l ∈ ls, l.matcher.matches a = true → l.key ≠ key) ∧
      w = want ++ (ls.filter (fun l => l.matcher.matches a)).map (·.lineNo) := by
  induction ls generalizing want with
  | nil =>
    simp only [checkAddrGo, Verdict.keyErr.injEq]
    constructor
    · intro h; simp [h]
    · intro h; simp [h.2]
  | cons l ls ih =>
    simp only [checkAddrGo]
    by_cases hm : l.matcher.matches a = true
    · simp only [hm, Bool.not_true, Bool.false_eq_true, if_false]
      by_cases hk : l.key = key
      · simp only [hk, beq_self_eq_true, if_true]
        constructor
        · intro h; cases h
        · rintro ⟨h, _⟩
          exact absurd hk (h l (by simp) hm)
      · have : (l.key == key) = false := by simpa using hk
        simp only [this, Bool.false_eq_true, if_false, ih, List.mem_cons, List.filter_cons, hm, if_true,
          List.map_cons, List.append_assoc, List.singleton_append]
        constructor
        · rintro ⟨h1, h2⟩
          refine ⟨?_, h2⟩
          rintro x (rfl | hx) hxm
          · exact hk
          · exact h1 x hx hxm
        · rintro ⟨h1, h2⟩
          exact ⟨fun x hx => h1 x (Or.inr hx), h2⟩
    · have hm' : l.matcher.matches a = false := by simpa using hm
      simp only [hm', Bool.not_false, if_true, ih, List.mem_cons, List.filter_cons, Bool.false_eq_true,
        if_false]
      constructor
      · rintro ⟨h1, h2⟩
        refine ⟨?_, h2⟩
        rintro x (rfl | hx) hxm
        · simp [hm'] at hxm
        · exact h1 x hx hxm
      · rintro ⟨h1, h2⟩
        exact ⟨fun x hx => h1 x (Or.inr hx), h2⟩

theorem checkAddrGo_cases (key : Nat) (a : Addr) (ls : List Entry) (want : List Nat) :
    checkAddrGo key a ls want = .ok ∨ ∃ w, checkAddrGo key a ls want = .keyErr w := by
  induction ls generalizing want with
  | nil => right; exact ⟨want, rfl⟩
  | cons l ls ih =>
    simp only [checkAddrGo]
    split
    · exact ih want
    · split
      · left; rfl
      · exact ih _

/-- the address `check` looks up: the host name when given (and it must split), else the remote address -/
def effectiveAddr (address remote : Bytes) : Option Addr :=
  match splitHostPort remote with
  | none => none
  | some (rh, rp) =>
    if address.isEmpty then some ⟨rh, rp⟩
    else (splitHostPort address).map fun hp => ⟨hp.1, hp.2⟩

theorem revokedLine_none_iff (db : DB) (key : Nat) :
    db.revokedLine key = none ↔ ∀ e ∈ db.revoked, e.1 ≠ key := by
  simp [DB.revokedLine, List.find?_eq_none]

/-- **decision** (plain keys): the callback accepts iff the key is not `@revoked`, the addresses are
    well-formed, and SOME line (any marker other than `@revoked`) whose matcher matches the effective
    address lists exactly that key. -/
theorem decision (db : DB) (now : Int) (address remote : Bytes) (key : Nat) :
    db.checkHostKey now address remote (.plain key) = .ok ↔
      (∀ e ∈ db.revoked, e.1 ≠ key) ∧
      ∃ a, effectiveAddr address remote = some a ∧
        ∃ l ∈ db.lines, l.matcher.matches a = true ∧ l.key = key := by
  simp only [DB.checkHostKey, DB.check, ← revokedLine_none_iff, effectiveAddr]
  cases hr : db.revokedLine key with
  | some n => simp
  | none =>
    simp only [true_and]
    cases hs : splitHostPort remote with
    | none => simp
    | some rhp =>
      obtain ⟨rh, rp⟩ := rhp
      simp only []
      by_cases he : address.isEmpty = true
      · simp [he, DB.checkAddr, checkAddrGo_ok_iff]
      · simp only [he, Bool.false_eq_true, if_false]
        cases ha : splitHostPort address with
        | none => simp
        | some hp =>
          obtain ⟨h, p⟩ := hp
          simp [DB.checkAddr, checkAddrGo_ok_iff]

/-- **revoked first**: a `@revoked` key is answered with RevokedError (naming the LAST such line),
    whatever else the file says. -/
theorem revoked_first (db : DB) (now : Int) (address remote : Bytes) (key n : Nat)
    (h : db.revokedLine key = some n) :
    db.checkHostKey now address remote (.plain key) = .revoked n := by
  simp [DB.checkHostKey, DB.check, h]

/-- **keyerror_lists_exactly_matching_lines**: when the answer is a KeyError its `Want` list is exactly
    the line numbers of ALL lines whose matcher matches the effective address, in file order, and none of
    those lines lists the presented key. -/
theorem keyerror_lists_exactly_matching_lines (db : DB) (now : Int) (address remote : Bytes) (key : Nat)
    (w : List Nat) (h : db.checkHostKey now address remote (.plain key) = .keyErr w) :
    ∃ a, effectiveAddr address remote = some a ∧
      w = (db.lines.filter (fun l => l.matcher.matches a)).map (·.lineNo) ∧
      ∀ l ∈ db.lines, l.matcher.matches a = true → l.key ≠ key := by
  simp only [DB.checkHostKey, DB.check, effectiveAddr] at *
  cases hr : db.revokedLine key with
  | some n => simp [hr] at h
  | none =>
    simp only [hr] at h
    cases hs : splitHostPort remote with
    | none => simp [hs] at h
    | some rhp =>
      obtain ⟨rh, rp⟩ := rhp
      simp only [hs] at h ⊢
      by_cases he : address.isEmpty = true
      · simp only [he, if_true] at h ⊢
        have := (checkAddrGo_keyErr_iff key ⟨rh, rp⟩ db.lines [] w).1 h
        exact ⟨_, rfl, by simpa using this.2, this.1⟩
      · simp only [he, Bool.false_eq_true, if_false] at h ⊢
        cases ha : splitHostPort address with
        | none => simp [ha] at h
        | some hp =>
          obtain ⟨hh, p⟩ := hp
          simp only [ha] at h
          have := (checkAddrGo_keyErr_iff key ⟨hh, p⟩ db.lines [] w).1 h
          exact ⟨_, rfl, by simpa using this.2, this.1⟩

/-- **decision** (certificates): accepted iff it is a host certificate, some `@cert-authority` line whose
    matcher matches the (split) host name lists the signing key, neither the certificate nor its CA is
    `@revoked`, it carries no unsupported critical option, the host is among its principals (or it has
    none), it is inside its validity window and the CA signature verifies.  The remote address plays no
    role and there is no fallback to it. -/
theorem decision_cert (db : DB) (now : Int) (address remote : Bytes) (c : CertInfo) :
    db.checkHostKey now address remote (.cert c) = .ok ↔
      c.certType = 2 ∧
      (∃ h p, splitHostPort address = some (h, p) ∧
        (∃ l ∈ db.lines, l.cert = true ∧ l.key = c.ca ∧ l.matcher.matches ⟨h, p⟩ = true) ∧
        (c.principals = [] ∨ h ∈ c.principals)) ∧
      (∀ e ∈ db.revoked, e.1 ≠ c.id) ∧ (∀ e ∈ db.revoked, e.1 ≠ c.ca) ∧
      c.critOther = false ∧ timeOk now c = true ∧ c.sigOk = true := by
  simp only [← revokedLine_none_iff]
  by_cases ht : c.certType = 2
  · cases hs : splitHostPort address with
    | none => simp [DB.checkHostKey, DB.isHostAuthority, hs]
    | some hp =>
      obtain ⟨h, p⟩ := hp
      by_cases hany : (db.lines.any fun l => l.cert && l.key == c.ca && l.matcher.matches ⟨h, p⟩) = true
      · have hex : ∃ l ∈ db.lines, l.cert = true ∧ l.key = c.ca ∧ l.matcher.matches ⟨h, p⟩ = true := by
          simpa [List.any_eq_true, and_assoc] using hany
        simp only [DB.checkHostKey, DB.isHostAuthority, hs, ht, bne_self_eq_false, Bool.false_eq_true,
          if_false, hany, Bool.not_true, true_and, Option.some.injEq, Prod.mk.injEq]
        constructor
        · intro hh
          split at hh
          · rename_i hc
            simp only [DB.checkCert, DB.isRevoked, Bool.and_eq_true, Bool.not_eq_true',
              Bool.or_eq_false_iff, Bool.or_eq_true,
              Option.isSome_eq_false_iff, Option.isNone_iff_eq_none] at hc
            obtain ⟨⟨⟨⟨⟨r1, r2⟩, cr⟩, pr⟩, tm⟩, sg⟩ := hc
            refine ⟨⟨h, p, ⟨rfl, rfl⟩, hex, ?_⟩, r1, r2, cr, tm, sg⟩
            rcases pr with pr | pr
            · left; simpa using pr
            · right; simpa using pr
          · cases hh
        · rintro ⟨⟨h', p', ⟨rfl, rfl⟩, _, pr⟩, r1, r2, cr, tm, sg⟩
          have : db.checkCert now h c = true := by
            simp only [DB.checkCert, DB.isRevoked, r1, r2, cr, tm, sg]
            rcases pr with pr | pr
            · simp [pr]
            · simp [pr]
          simp [this]
      · have hany' : (db.lines.any fun l => l.cert && l.key == c.ca && l.matcher.matches ⟨h, p⟩) = false := by
          simpa using hany
        simp only [DB.checkHostKey, DB.isHostAuthority, hs, ht, bne_self_eq_false, Bool.false_eq_true,
          if_false, hany', Bool.not_false, if_true]
        constructor
        · intro hh; cases hh
        · rintro ⟨_, ⟨h', p', he, hex, _⟩, _⟩
          exfalso
          simp only [Option.some.injEq, Prod.mk.injEq] at he
          obtain ⟨rfl, rfl⟩ := he
          apply hany
          simpa [List.any_eq_true, and_assoc] using hex
  · have : (c.certType != 2) = true := by simpa using ht
    simp [DB.checkHostKey, this, ht]

/-- a certificate is never answered with KeyError / RevokedError — only accept or a plain error -/
theorem cert_verdict_ok_or_reject (db : DB) (now : Int) (address remote : Bytes) (c : CertInfo) :
    db.checkHostKey now address remote (.cert c) = .ok ∨
    db.checkHostKey now address remote (.cert c) = .reject := by
  simp only [DB.checkHostKey]
  repeat' split
  all_goals simp

end XC.C42
