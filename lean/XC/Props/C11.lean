/-
  C11 — property theorems over XC.Model.C11.
-/
import XC.Model.C11
namespace XC.C11

/-! ## wrapper logic of curve25519.go, for an arbitrary `F` that returns 32 bytes -/

theorem copyInto_full (dst src : Bytes) (h : dst.length = src.length) : copyInto dst src = src := by
  simp [copyInto, h]

theorem isZero_iff (x : Bytes) : isZero x = true ↔ x = zeros x.length := by
  induction x with
  | nil => simp [isZero, zeros]
  | cons a t ih =>
    simp only [isZero, List.all_cons, Bool.and_eq_true, beq_iff_eq] at *
    simp [zeros, List.replicate_succ] at *
    intro _; exact ih

/-- wrong lengths are errors (and `NewPublicKey` is consulted first, but both give `err`) -/
theorem X25519_len_err (F : Bytes → Bytes → Bytes) (s pt : Bytes)
    (h : s.length ≠ 32 ∨ pt.length ≠ 32) : X25519 F s pt = .err := by
  unfold X25519 x25519
  by_cases hp : pt.length = 32 <;> by_cases hs : s.length = 32 <;> simp_all

theorem isZero_zeros (n : Nat) : isZero (zeros n) = true := by simp [isZero, zeros]

theorem map_zero (d : Bytes) : d.map (fun _ => (0 : UInt8)) = zeros d.length := by
  simp [zeros, List.map_const']

/-- for 32-byte inputs X25519 returns exactly `F scalar point`, or an error iff that value is all zero -/
theorem X25519_err_iff_zero (F : Bytes → Bytes → Bytes) (hF : ∀ a b, (F a b).length = 32)
    (s pt : Bytes) (hs : s.length = 32) (hp : pt.length = 32) :
    (X25519 F s pt = .err ↔ F s pt = zeros 32) ∧
    (∀ o, X25519 F s pt = .ok o → o = F s pt ∧ o ≠ zeros 32) := by
  have hz : isZero (F s pt) = true ↔ F s pt = zeros 32 := by
    rw [isZero_iff, hF]
  have hc : copyInto (zeros 32) (F s pt) = F s pt :=
    copyInto_full _ _ (by rw [hF]; simp [zeros])
  unfold X25519 x25519
  simp only [hs, hp, ne_eq, not_true_eq_false, ↓reduceIte]
  by_cases h0 : isZero (F s pt) = true
  · have hz0 := hz.mp h0
    simp only [h0, ↓reduceIte]
    refine ⟨by simp [hz0], ?_⟩
    intro o ho; cases ho
  · have hne : F s pt ≠ zeros 32 := fun h => h0 (hz.mpr h)
    simp only [h0, hc]
    refine ⟨by simp [hne], ?_⟩
    intro o ho
    simp at ho
    subst ho; exact ⟨rfl, hne⟩

/-- ScalarMult leaves in `dst` the X25519 value, or 32 zero bytes exactly when X25519 errs —
    whatever `dst` held before (so also when `dst` aliases `scalar` or `point`). -/
theorem scalarMult_eq (F : Bytes → Bytes → Bytes) (hF : ∀ a b, (F a b).length = 32)
    (dst s pt : Bytes) (hd : dst.length = 32) (hs : s.length = 32) (hp : pt.length = 32) :
    ScalarMult F dst s pt =
      match X25519 F s pt with
      | .ok o => o
      | .err => zeros 32 := by
  have hc : ∀ d : Bytes, d.length = 32 → copyInto d (F s pt) = F s pt :=
    fun d h => copyInto_full _ _ (by rw [h, hF])
  have hz32 : (zeros 32).length = 32 := by simp [zeros]
  unfold ScalarMult X25519 x25519
  simp only [hs, hp, ne_eq, not_true_eq_false, ↓reduceIte]
  by_cases h0 : isZero (F s pt) = true
  · simp only [h0, ↓reduceIte]
    rw [map_zero, hd]
  · simp only [h0, hc dst hd, hc (zeros 32) hz32]
    rfl

theorem scalarMult_zero_iff_err (F : Bytes → Bytes → Bytes) (hF : ∀ a b, (F a b).length = 32)
    (dst s pt : Bytes) (hd : dst.length = 32) (hs : s.length = 32) (hp : pt.length = 32) :
    ScalarMult F dst s pt = zeros 32 ↔ X25519 F s pt = .err := by
  rw [scalarMult_eq F hF dst s pt hd hs hp]
  have h := X25519_err_iff_zero F hF s pt hs hp
  cases hx : X25519 F s pt with
  | err => simp
  | ok o => simp; exact (h.2 o hx).2

/-- ScalarBaseMult never panics on a 32-byte scalar and writes `F scalar basePoint`; it equals
    X25519 with the base point whenever that does not err (i.e. unless `F scalar 9` is all zero,
    which the curve excludes — that fact is not proved here, see `C11_full`). -/
theorem baseMult_eq (F : Bytes → Bytes → Bytes) (hF : ∀ a b, (F a b).length = 32)
    (dst s : Bytes) (hd : dst.length = 32) (hs : s.length = 32) :
    ScalarBaseMult F dst s = .dst (F s basePoint) ∧
    (∀ o, X25519 F s basePoint = .ok o → ScalarBaseMult F dst s = .dst o) ∧
    (X25519 F s basePoint = .err → ScalarBaseMult F dst s = .dst (zeros 32)) := by
  have hb : basePoint.length = 32 := by simp [basePoint, zeros]
  have h1 : ScalarBaseMult F dst s = .dst (F s basePoint) := by
    unfold ScalarBaseMult
    simp [hs, copyInto_full dst (F s basePoint) (by simp [hd, hF])]
  have h := X25519_err_iff_zero F hF s basePoint hs hb
  refine ⟨h1, ?_, ?_⟩
  · intro o ho; rw [h1, (h.2 o ho).1]
  · intro he; rw [h1, h.1.mp he]

/-! ### non-vacuity of the wrapper theorems: both outcomes occur for 32-byte inputs -/

-- an `F` that meets the contract (32 bytes out) and hits the error branch / the success branch
example : X25519 (fun _ _ => zeros 32) (zeros 32) (zeros 32) = .err ∧
    ScalarMult (fun _ _ => zeros 32) (List.replicate 32 0xaa) (zeros 32) (zeros 32) = zeros 32 := by decide
example : X25519 (fun s _ => s) (List.replicate 32 7) (zeros 32) = .ok (List.replicate 32 7) ∧
    ScalarMult (fun s _ => s) (List.replicate 32 0xaa) (List.replicate 32 7) (zeros 32) = List.replicate 32 7 ∧
    ScalarBaseMult (fun s _ => s) (List.replicate 32 0xaa) (List.replicate 32 7) = .dst (List.replicate 32 7) := by
  decide
-- wrong lengths: the hypothesis of `X25519_len_err`
example : X25519 (fun s _ => s) (List.replicate 31 7) (zeros 32) = .err := by decide

/-! ## little-endian bytes: what `modify` at one index does to the integer -/

theorem natOfLE_lt (l : Bytes) : natOfLE l < 256 ^ l.length := by
  induction l with
  | nil => simp [natOfLE]
  | cons a t ih =>
    simp only [natOfLE, List.length_cons, Nat.pow_succ]
    have := a.toNat_lt
    omega

theorem natOfLE_modify (l : Bytes) (i : Nat) (f : UInt8 → UInt8) (h : i < l.length) :
    natOfLE (l.modify i f) + 256 ^ i * l[i].toNat = natOfLE l + 256 ^ i * (f l[i]).toNat := by
  induction l generalizing i with
  | nil => simp at h
  | cons a t ih =>
    cases i with
    | zero => simp [List.modify_cons, natOfLE]; omega
    | succ j =>
      have hj : j < t.length := by simpa using h
      have := ih j hj
      simp only [List.modify_succ_cons, natOfLE, List.getElem_cons_succ, Nat.pow_succ]
      have e1 : 256 ^ j * 256 * t[j].toNat = 256 * (256 ^ j * t[j].toNat) := by
        rw [Nat.mul_comm (256 ^ j) 256, Nat.mul_assoc]
      have e2 : 256 ^ j * 256 * (f t[j]).toNat = 256 * (256 ^ j * (f t[j]).toNat) := by
        rw [Nat.mul_comm (256 ^ j) 256, Nat.mul_assoc]
      rw [e1, e2]; omega

theorem natOfLE_byte (l : Bytes) (i : Nat) (h : i < l.length) :
    natOfLE l / 256 ^ i % 256 = l[i].toNat := by
  induction l generalizing i with
  | nil => simp at h
  | cons a t ih =>
    cases i with
    | zero => simp [natOfLE]
    | succ j =>
      have hj : j < t.length := by simpa using h
      have := ih j hj
      simp only [natOfLE, List.getElem_cons_succ, Nat.pow_succ]
      rw [← this, Nat.mul_comm (256 ^ j) 256, ← Nat.div_div_eq_div_mul]
      have : (a.toNat + 256 * natOfLE t) / 256 = natOfLE t := by have := a.toNat_lt; omega
      rw [this]

set_option maxRecDepth 20000 in
private theorem and248 : ∀ n : Fin 256, n.val &&& 248 = 8 * (n.val / 8) := by decide
set_option maxRecDepth 20000 in
private theorem clampTop : ∀ n : Fin 256, (n.val &&& 127) ||| 64 = 64 + n.val % 64 := by decide
set_option maxRecDepth 20000 in
private theorem and127 : ∀ n : Fin 256, n.val &&& 127 = n.val % 128 := by decide

private theorem u8_and248 (b : UInt8) : (b &&& 248).toNat = 8 * (b.toNat / 8) := by
  have := and248 ⟨b.toNat, b.toNat_lt⟩; simpa using this
private theorem u8_clampTop (b : UInt8) : ((b &&& 127) ||| 64).toNat = 64 + b.toNat % 64 := by
  have := clampTop ⟨b.toNat, b.toNat_lt⟩; simpa using this
private theorem u8_and127 (b : UInt8) : (b &&& 127).toNat = b.toNat % 128 := by
  have := and127 ⟨b.toNat, b.toNat_lt⟩; simpa using this

/-- **clamping, as an integer**: for every 32-byte string the decoded scalar is the little-endian
    integer with bits 0,1,2 and 255 cleared and bit 254 set. -/
theorem decodeScalar_eq (k : Bytes) (hk : k.length = 32) :
    decodeScalar k = 2 ^ 254 + 8 * (natOfLE k % 2 ^ 254 / 8) := by
  unfold decodeScalar clamp
  have hlt := natOfLE_lt k
  have h0 := natOfLE_modify k 0 (· &&& 248) (by omega)
  have b0 := natOfLE_byte k 0 (by omega)
  generalize hk1 : k.modify 0 (· &&& 248) = k1 at *
  have hk1l : k1.length = 32 := by rw [← hk1]; simp [hk]
  have hlt1 := natOfLE_lt k1
  have h31 := natOfLE_modify k1 31 (fun b => (b &&& 127) ||| 64) (by omega)
  have b31 := natOfLE_byte k1 31 (by omega)
  rw [u8_clampTop] at h31
  rw [u8_and248] at h0
  rw [hk] at hlt; rw [hk1l] at hlt1
  simp only [Nat.reducePow, Nat.pow_zero, Nat.one_mul, Nat.div_one] at *
  omega

/-- the decoded scalar is a multiple of the cofactor 8 in `[2^254, 2^255)` -/
theorem decodeScalar_range (k : Bytes) (hk : k.length = 32) :
    2 ^ 254 ≤ decodeScalar k ∧ decodeScalar k < 2 ^ 255 ∧ decodeScalar k % 8 = 0 := by
  rw [decodeScalar_eq k hk]
  simp only [Nat.reducePow]
  omega

/-- **bit 255 of the u-coordinate is ignored** and nothing else is: the decoded integer is the
    little-endian value mod 2^255 (values in `[p, 2^255)` are *not* rejected or pre-reduced). -/
theorem decodeU_eq (u : Bytes) (hu : u.length = 32) : decodeU u = natOfLE u % 2 ^ 255 := by
  unfold decodeU maskU
  have hlt := natOfLE_lt u
  have h31 := natOfLE_modify u 31 (· &&& 127) (by omega)
  have b31 := natOfLE_byte u 31 (by omega)
  rw [u8_and127] at h31
  rw [hu] at hlt
  simp only [Nat.reducePow] at *
  omega

theorem decodeU_topbit (u v : Bytes) (hu : u.length = 32) (hv : v.length = 32)
    (h : natOfLE v = natOfLE u + 2 ^ 255) : decodeU v = decodeU u := by
  rw [decodeU_eq u hu, decodeU_eq v hv, h]; omega

/-- hence the RFC function cannot tell `u` and `u + 2^255` apart -/
theorem rfcX25519_topbit (k u v : Bytes) (hu : u.length = 32) (hv : v.length = 32)
    (h : natOfLE v = natOfLE u + 2 ^ 255) : rfcX25519 k v = rfcX25519 k u := by
  unfold rfcX25519; rw [decodeU_topbit u v hu hv h]

/-- the result is a canonical encoding: 32 bytes, value `< p` -/
theorem rfcX25519_length (k u : Bytes) : (rfcX25519 k u).length = 32 := by
  simp [rfcX25519, encodeU, natToLE_length]

theorem rfcX25519_canonical (k u : Bytes) : natOfLE (rfcX25519 k u) < p := by
  unfold rfcX25519 encodeU
  rw [natOfLE_natToLE]
  have hp : 0 < p := by simp [p]
  have : ladder (decodeScalar k) (decodeU u) % p < p := Nat.mod_lt _ hp
  have h2 : p < 256 ^ 32 := by simp [p]
  rw [Nat.mod_eq_of_lt (by omega)]; exact this


/-! ## cswap and the shape of the ladder loop -/

/-- the masked-XOR `cswap` of the RFC selects: it swaps iff `swap = 1` (operands below 2^256) -/
theorem cswap_eq (sw a b : Nat) (ha : a < 2 ^ 256) (hb : b < 2 ^ 256) :
    cswap sw a b = if sw = 1 then (b, a) else (a, b) := by
  unfold cswap
  by_cases h : sw = 1
  · simp only [h, ↓reduceIte]
    have hx : a ^^^ b < 2 ^ 256 := Nat.xor_lt_two_pow ha hb
    have hm : (2 ^ 256 - 1) &&& (a ^^^ b) = a ^^^ b := by
      rw [Nat.and_comm, Nat.and_two_pow_sub_one_eq_mod, Nat.mod_eq_of_lt hx]
    rw [hm]
    have e1 : a ^^^ (a ^^^ b) = b := by rw [← Nat.xor_assoc, Nat.xor_self, Nat.zero_xor]
    have e2 : b ^^^ (a ^^^ b) = a := by
      rw [Nat.xor_comm a b, ← Nat.xor_assoc, Nat.xor_self, Nat.zero_xor]
    rw [e1, e2]
  · simp [h]

/-- `cswap` with the same flag twice is the identity -/
theorem cswap_involution (sw a b : Nat) (ha : a < 2 ^ 256) (hb : b < 2 ^ 256) :
    cswap sw (cswap sw a b).1 (cswap sw a b).2 = (a, b) := by
  rw [cswap_eq sw a b ha hb]
  by_cases h : sw = 1
  · simp only [h, ↓reduceIte]; rw [cswap_eq 1 b a hb ha]; simp
  · simp only [h, ↓reduceIte]; rw [cswap_eq sw a b ha hb]; simp [h]

/-- The textbook Montgomery ladder: the pair `(R0, R1)` of projective x-coordinates; for bit 0
    `(R0, R1) := (dbl R0, R0 ⊕ R1)`, for bit 1 the two roles are exchanged. No deferred swaps. -/
def specStep (x1 : Nat) (R : (Nat × Nat) × (Nat × Nat)) (b : Nat) : (Nat × Nat) × (Nat × Nat) :=
  if b = 1 then
    let (x2', z2', x3', z3') := ladderBody x1 R.2.1 R.2.2 R.1.1 R.1.2
    ((x3', z3'), (x2', z2'))
  else
    let (x2', z2', x3', z3') := ladderBody x1 R.1.1 R.1.2 R.2.1 R.2.2
    ((x2', z2'), (x3', z3'))

def ladderSpec (k u : Nat) : Nat :=
  let x1 := u % p
  let R := (bitsDown k 255).foldl (specStep x1) ((1, 0), (x1, 1))
  fmul R.1.1 (finv R.1.2)

/-- loop invariant tying the RFC state (with its pending `swap`) to the textbook pair -/
def Inv (s : LState) (R : (Nat × Nat) × (Nat × Nat)) : Prop :=
  s.x2 < 2 ^ 256 ∧ s.z2 < 2 ^ 256 ∧ s.x3 < 2 ^ 256 ∧ s.z3 < 2 ^ 256 ∧
  ((s.swap = 0 ∧ R = ((s.x2, s.z2), (s.x3, s.z3))) ∨ (s.swap = 1 ∧ R = ((s.x3, s.z3), (s.x2, s.z2))))

theorem p_lt : p < 2 ^ 256 := by simp [p]
theorem p_pos : 0 < p := by simp [p]

theorem ladderBody_lt (x1 x2 z2 x3 z3 : Nat) :
    (ladderBody x1 x2 z2 x3 z3).1 < 2 ^ 256 ∧ (ladderBody x1 x2 z2 x3 z3).2.1 < 2 ^ 256 ∧
    (ladderBody x1 x2 z2 x3 z3).2.2.1 < 2 ^ 256 ∧ (ladderBody x1 x2 z2 x3 z3).2.2.2 < 2 ^ 256 := by
  have h : ∀ n, n % p < 2 ^ 256 := fun n => Nat.lt_trans (Nat.mod_lt _ p_pos) p_lt
  simp only [ladderBody, fmul, fsq]
  exact ⟨h _, h _, h _, h _⟩

theorem bitsDown_le (k n : Nat) : ∀ b ∈ bitsDown k n, b = 0 ∨ b = 1 := by
  induction n with
  | zero => simp [bitsDown]
  | succ n ih =>
    intro b hb
    simp only [bitsDown, List.mem_cons] at hb
    rcases hb with hb | hb
    · subst hb
      have : (k >>> n) &&& 1 = (k >>> n) % 2 := Nat.and_one_is_mod _
      omega
    · exact ih b hb

theorem inv_step (x1 : Nat) (s : LState) (R) (b : Nat) (hb : b = 0 ∨ b = 1) (h : Inv s R) :
    Inv (ladderStep x1 s b) (specStep x1 R b) := by
  obtain ⟨h1, h2, h3, h4, hR⟩ := h
  have key : ∀ sw, (sw = 0 ∨ sw = 1) →
      Inv (ladderStep x1 ⟨s.x2, s.z2, s.x3, s.z3, sw⟩ b)
        (specStep x1 (if sw = 1 then ((s.x3, s.z3), (s.x2, s.z2)) else ((s.x2, s.z2), (s.x3, s.z3))) b) := by
    intro sw hsw
    unfold ladderStep specStep Inv
    simp only
    rw [cswap_eq _ _ _ h1 h3, cswap_eq _ _ _ h2 h4]
    rcases hsw with rfl | rfl <;> rcases hb with rfl | rfl <;> simp <;>
      first
      | exact ladderBody_lt x1 s.x2 s.z2 s.x3 s.z3
      | exact ladderBody_lt x1 s.x3 s.z3 s.x2 s.z2
  rcases hR with ⟨hs, rfl⟩ | ⟨hs, rfl⟩
  · have := key 0 (Or.inl rfl)
    have e : s = ⟨s.x2, s.z2, s.x3, s.z3, 0⟩ := by cases s; simp_all
    rw [e]; simpa using this
  · have := key 1 (Or.inr rfl)
    have e : s = ⟨s.x2, s.z2, s.x3, s.z3, 1⟩ := by cases s; simp_all
    rw [e]; simpa using this

theorem inv_fold (x1 : Nat) (bits : List Nat) (hb : ∀ b ∈ bits, b = 0 ∨ b = 1) (s : LState) (R)
    (h : Inv s R) : Inv (bits.foldl (ladderStep x1) s) (bits.foldl (specStep x1) R) := by
  induction bits generalizing s R with
  | nil => simpa using h
  | cons b t ih =>
    simp only [List.foldl_cons]
    exact ih (fun c hc => hb c (List.mem_cons_of_mem _ hc)) _ _
      (inv_step x1 s R b (hb b List.mem_cons_self) h)

/-- **the RFC 7748 loop (deferred `swap ^= k_t`, masked-XOR `cswap`, final `cswap`) computes the
    textbook Montgomery ladder** for every scalar and every u-coordinate. -/
theorem ladder_eq_ladderSpec (k u : Nat) : ladder k u = ladderSpec k u := by
  unfold ladder ladderSpec
  have hx : u % p < 2 ^ 256 := Nat.lt_trans (Nat.mod_lt _ p_pos) p_lt
  have h0 : Inv ⟨1, 0, u % p, 1, 0⟩ ((1, 0), (u % p, 1)) := by
    refine ⟨by simp, by simp, hx, by simp, Or.inl ⟨rfl, rfl⟩⟩
  have h := inv_fold (u % p) (bitsDown k 255) (bitsDown_le k 255) _ _ h0
  obtain ⟨h1, h2, h3, h4, hR⟩ := h
  simp only
  rw [cswap_eq _ _ _ h1 h3, cswap_eq _ _ _ h2 h4]
  rcases hR with ⟨hs, hR⟩ | ⟨hs, hR⟩ <;> rw [hR] <;> simp [hs]

/-- only the low 255 bits of the scalar integer are ever read -/
theorem bitsDown_mod (k n : Nat) : bitsDown (k % 2 ^ n) n = bitsDown k n := by
  suffices h : ∀ m, m ≤ n → bitsDown (k % 2 ^ n) m = bitsDown k m from h n (Nat.le_refl _)
  intro m hm
  induction m with
  | zero => rfl
  | succ m ih =>
    simp only [bitsDown]
    rw [ih (by omega)]
    congr 1
    rw [Nat.and_one_is_mod, Nat.and_one_is_mod, Nat.shiftRight_eq_div_pow, Nat.shiftRight_eq_div_pow,
      ← Nat.toNat_testBit, ← Nat.toNat_testBit, Nat.testBit_mod_two_pow]
    simp [show m < n by omega]

/-- the square-and-multiply `fpow` is modular exponentiation, so the RFC's "z2^(p − 2)" is what
    the model computes (that this is the inverse of z2 needs Fermat for p — not proved) -/
theorem fpow_eq (b e : Nat) : fpow b e = b ^ e % p := by
  induction e using Nat.strongRecOn with
  | _ e ih =>
    cases e with
    | zero => simp [fpow]
    | succ n =>
      rw [fpow]
      rw [ih ((n+1)/2) (by omega)]
      have hsq : fsq (b ^ ((n + 1) / 2) % p) = b ^ (2 * ((n + 1) / 2)) % p := by
        unfold fsq
        rw [← Nat.mul_mod, ← Nat.pow_add]; congr 2; omega
      rw [hsq]
      by_cases h : (n + 1) % 2 = 1
      · simp only [h, ↓reduceIte]
        unfold fmul
        rw [Nat.mod_mul_mod, ← Nat.pow_succ]
        congr 2; omega
      · simp only [h, ↓reduceIte]
        congr 2; omega

theorem finv_eq (z : Nat) : finv z = z ^ (p - 2) % p := fpow_eq z (p - 2)

/-! ## low-order points -/

theorem fpow_zero (e : Nat) (h : 0 < e) : fpow 0 e = 0 := by
  rw [fpow_eq, Nat.zero_pow h]; rfl

theorem finv_zero : finv 0 = 0 := fpow_zero _ (by decide)

theorem fsub_self_mod (a : Nat) : fsub (a % p) (a % p) = 0 := by
  unfold fsub
  rw [Nat.mod_mod]
  have := Nat.mod_lt a p_pos
  rw [show a % p + p - a % p = p by omega, Nat.mod_self]

/-- with x1 = 0 and z2 = 0 the doubling half of the loop body keeps z2 = 0 -/
theorem ladderBody_z2_zero (x1 x2 x3 z3 : Nat) : (ladderBody x1 x2 0 x3 z3).2.1 = 0 := by
  simp only [ladderBody]
  have hA : fadd x2 0 = x2 % p := by simp [fadd]
  have hB : fsub x2 0 = x2 % p := by
    simp only [fsub, Nat.zero_mod, Nat.sub_zero, Nat.add_mod_right]
  rw [hA, hB]
  have : fsq (x2 % p) = (x2 % p * (x2 % p)) % p := rfl
  rw [this, fsub_self_mod]
  simp [fmul]

/-- with x1 = 0 the differential-addition half always has z3' = 0 -/
theorem ladderBody_z3_zero (x2 z2 x3 z3 : Nat) : (ladderBody 0 x2 z2 x3 z3).2.2.2 = 0 := by
  simp [ladderBody, fmul]

theorem specStep_z_zero (R : (Nat × Nat) × (Nat × Nat)) (b : Nat) (h : R.1.2 = 0) :
    (specStep 0 R b).1.2 = 0 := by
  unfold specStep
  by_cases hb : b = 1
  · simp only [hb, ↓reduceIte]
    exact ladderBody_z3_zero _ _ _ _
  · simp only [hb, ↓reduceIte]
    obtain ⟨⟨x2, z2⟩, ⟨x3, z3⟩⟩ := R
    simp only at h
    subst h
    exact ladderBody_z2_zero _ _ _ _

theorem specFold_z_zero (bits : List Nat) (R : (Nat × Nat) × (Nat × Nat)) (h : R.1.2 = 0) :
    (bits.foldl (specStep 0) R).1.2 = 0 := by
  induction bits generalizing R with
  | nil => simpa using h
  | cons b t ih => simp only [List.foldl_cons]; exact ih _ (specStep_z_zero R b h)

/-- **u ≡ 0 (the point of order 2) gives 0 for EVERY scalar** -/
theorem ladder_zero_of_u_zero (k u : Nat) (hu : u % p = 0) : ladder k u = 0 := by
  rw [ladder_eq_ladderSpec]
  unfold ladderSpec
  simp only [hu]
  rw [specFold_z_zero _ _ rfl, finv_zero]
  simp [fmul]

/-- (x2, z2) after the final cswap: `ladder k u = x2 · z2^(p−2)` -/
def ladderXZ (k u : Nat) : Nat × Nat :=
  let x1 := u % p
  let s := (bitsDown k 255).foldl (ladderStep x1) ⟨1, 0, x1, 1, 0⟩
  ((cswap s.swap s.x2 s.x3).1, (cswap s.swap s.z2 s.z3).1)

theorem ladder_eq_XZ (k u : Nat) : ladder k u = fmul (ladderXZ k u).1 (finv (ladderXZ k u).2) := rfl

/-- the seven low-order u-coordinates (order 1, 2, 4, 8 on the curve and its twist) -/
def lowOrderU : List Nat :=
  [0, 1,
   325606250916557431795983626356110631294008115727848805560023387167927233504,
   39382357235489614581723060781553021112529911719440698176882885853963445705823,
   p - 1, p, p + 1]

/-- every 32-byte encoding that RFC 7748 maps onto one of them: `u` and `u + 2^255` (bit 255 is
    masked); `p`, `p+1` are the non-canonical aliases of 0 and 1 — 14 strings -/
def lowOrderEncodings : List Bytes :=
  lowOrderU.flatMap (fun u => [natToLE 32 u, natToLE 32 (u + 2 ^ 255)])

def sampleScalars : List Bytes :=
  [List.replicate 32 0, List.replicate 32 0xff,
   natToLE 32 0xc49a44ba44226a50185afcc10a4c1462dd5e46824b15163b9d7c52f06be346a5]

set_option maxRecDepth 100000 in
theorem lowOrder_xz_zero :
    ∀ u ∈ lowOrderEncodings, ∀ k ∈ sampleScalars,
      (ladderXZ (decodeScalar k) (decodeU u)).2 = 0 ∨ (ladderXZ (decodeScalar k) (decodeU u)).1 = 0 := by
  decide +kernel


set_option maxRecDepth 100000 in
theorem encodeU_zero : encodeU 0 = zeros 32 := by decide

theorem fmul_zero_right (x : Nat) : fmul x 0 = 0 := by
  show (x * 0) % p = 0
  rw [Nat.mul_zero]; exact Nat.zero_mod _

theorem fmul_zero_left (y : Nat) : fmul 0 y = 0 := by
  show (0 * y) % p = 0
  rw [Nat.zero_mul]; exact Nat.zero_mod _

theorem ladder_zero_of_xz (k u : Nat) (h : (ladderXZ k u).2 = 0 ∨ (ladderXZ k u).1 = 0) : ladder k u = 0 := by
  rw [ladder_eq_XZ]
  rcases h with h | h
  · rw [h, finv_zero]; exact fmul_zero_right _
  · rw [h]; exact fmul_zero_left _

/-- **u ≡ 0 mod p (encodings 0, p and their top-bit aliases): X25519 errs for EVERY scalar**, and
    ScalarMult writes 32 zero bytes -/
theorem X25519_err_of_u_zero (s pt : Bytes) (hs : s.length = 32) (hp : pt.length = 32)
    (h : decodeU pt % p = 0) :
    rfcX25519 s pt = zeros 32 ∧ X25519 rfcX25519 s pt = .err := by
  have hz : rfcX25519 s pt = zeros 32 := by
    unfold rfcX25519
    rw [ladder_zero_of_u_zero _ _ h, encodeU_zero]
  exact ⟨hz, (X25519_err_iff_zero rfcX25519 rfcX25519_length s pt hs hp).1.mpr hz⟩

-- non-vacuity of `ladder_zero_of_u_zero`: a non-zero integer u with u ≡ 0, and a scalar in clamped range
example : p % p = 0 ∧ p ≠ 0 ∧ 2 ^ 254 ≤ decodeScalar (List.replicate 32 0) := by decide

/-- the four 32-byte strings with `decodeU ≡ 0` -/
theorem u_zero_encodings :
    ∀ u ∈ [natToLE 32 0, natToLE 32 p, natToLE 32 (2 ^ 255), natToLE 32 (p + 2 ^ 255)],
      u.length = 32 ∧ decodeU u % p = 0 := by
  decide +kernel

theorem lowOrderEncodings_length : ∀ u ∈ lowOrderEncodings, u.length = 32 := by decide +kernel
theorem sampleScalars_length : ∀ k ∈ sampleScalars, k.length = 32 := by decide +kernel

/-- **finite statement (a test, evaluated by the kernel)**: on all 14 encodings of the 7 low-order
    u-coordinates, for three scalars (all-zero, all-ones, the RFC 7748 vector scalar), the RFC
    function value is all zero and X25519 reports an error. -/
theorem x25519_zero_on_low_order :
    ∀ u ∈ lowOrderEncodings, ∀ k ∈ sampleScalars,
      rfcX25519 k u = zeros 32 ∧ X25519 rfcX25519 k u = .err := by
  intro u hu k hk
  have hz : rfcX25519 k u = zeros 32 := by
    unfold rfcX25519
    rw [ladder_zero_of_xz _ _ (lowOrder_xz_zero u hu k hk), encodeU_zero]
  have hul : u.length = 32 := lowOrderEncodings_length u hu
  have hkl : k.length = 32 := sampleScalars_length k hk
  exact ⟨hz, (X25519_err_iff_zero rfcX25519 rfcX25519_length k u hkl hul).1.mpr hz⟩

/-- and the converse on instances: the base point is not low order for these scalars -/
theorem x25519_nonzero_on_basepoint_samples :
    ∀ k ∈ sampleScalars, (ladderXZ (decodeScalar k) 9).2 % p ≠ 0 ∧ (ladderXZ (decodeScalar k) 9).1 % p ≠ 0 := by
  decide +kernel

/-! ## what is not proved -/

/-- Full statement, part 1 (functional): the real X25519 is the RFC function. Over the model this
    is the *definition* (`F := rfcX25519`); for the code it is the correspondence run. -/
def C11_wrapper_full : Prop :=
  ∀ s pt : Bytes, s.length = 32 → pt.length = 32 →
    (X25519 rfcX25519 s pt = .err ↔ rfcX25519 s pt = zeros 32) ∧
    (∀ o, X25519 rfcX25519 s pt = .ok o → o = rfcX25519 s pt) ∧
    (∀ d, d.length = 32 → ScalarMult rfcX25519 d s pt =
      match X25519 rfcX25519 s pt with | .ok o => o | .err => zeros 32)

theorem C11_wrapper : C11_wrapper_full := by
  intro s pt hs hp
  have h := X25519_err_iff_zero rfcX25519 rfcX25519_length s pt hs hp
  exact ⟨h.1, fun o ho => (h.2 o ho).1, fun d hd => scalarMult_eq rfcX25519 rfcX25519_length d s pt hd hs hp⟩

/-- Full statement, part 2 (NOT proved): two parties agree, and ScalarBaseMult never meets the
    all-zero value. Both need the group law of the Montgomery curve (that `ladder k u` is the
    x-coordinate of `[k]P`), which is outside this development; they are exercised only
    differentially (every `dh` / `base` op of the correspondence run). -/
def C11_dh_full : Prop :=
  ∀ a b : Bytes, a.length = 32 → b.length = 32 →
    rfcX25519 a (rfcX25519 b basePoint) = rfcX25519 b (rfcX25519 a basePoint) ∧
    rfcX25519 a basePoint ≠ zeros 32

/-- non-vacuity: a 32-byte scalar whose clamped value differs from its raw value in all five bits -/
example : decodeScalar (List.replicate 32 0xff) = 2 ^ 255 - 8 := by decide
example : decodeU (List.replicate 32 0xff) = 2 ^ 255 - 1 := by decide
example : cswap 1 5 9 = (9, 5) ∧ cswap 0 5 9 = (5, 9) := by decide

end XC.C11
