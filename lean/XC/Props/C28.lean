/-
  C28 — property theorems (statements over XC.Model.C28).
-/
import XC.Model.C28
namespace XC.C28

/-- findCommon is "first entry of the client's list that also appears in the server's list":
    any result is in both lists and every earlier client entry is absent from the server list. -/
theorem findCommon_spec (c s : List String) (x : String) :
    findCommon c s = some x ↔
      ∃ pre post, c = pre ++ x :: post ∧ x ∈ s ∧ ∀ y ∈ pre, y ∉ s := by
  unfold findCommon
  rw [List.find?_eq_some_iff_append]
  constructor
  · rintro ⟨hx, pre, post, hc, hpre⟩
    refine ⟨pre, post, hc, by simpa using hx, ?_⟩
    intro y hy
    have := hpre y hy
    simpa using this
  · rintro ⟨pre, post, hc, hx, hpre⟩
    refine ⟨by simpa using hx, pre, post, hc, ?_⟩
    intro y hy
    simpa using hpre y hy

theorem findCommon_none (c s : List String) :
    findCommon c s = none ↔ ∀ x ∈ c, x ∉ s := by
  unfold findCommon
  simp [List.find?_eq_none]

/-- Both sides fail together, and on success agree with directions swapped. -/
theorem symmetric (c s : Init) :
    match findAgreed true c s, findAgreed false c s with
    | some a, some b => a.kex = b.kex ∧ a.hostKey = b.hostKey ∧ a.write = b.read ∧ a.read = b.write
    | none, none => True
    | _, _ => False := by
  unfold findAgreed
  cases negotiate c s with
  | none => simp
  | some r => obtain ⟨k, h, a, b⟩ := r; simp

/-- Every chosen slot is findCommon of the corresponding lists (hence first-client-match by
    `findCommon_spec`); the client's write direction is client-to-server. -/
theorem slots_first_match (c s : Init) (a : Algs) (h : findAgreed true c s = some a) :
    findCommon c.kex s.kex = some a.kex ∧
    findCommon c.hostKey s.hostKey = some a.hostKey ∧
    findCommon c.cipherCS s.cipherCS = some a.write.cipher ∧
    findCommon c.cipherSC s.cipherSC = some a.read.cipher ∧
    (aead a.write.cipher = false → findCommon c.macCS s.macCS = some a.write.mac) ∧
    (aead a.read.cipher = false → findCommon c.macSC s.macSC = some a.read.mac) ∧
    findCommon c.compCS s.compCS = some a.write.comp ∧
    findCommon c.compSC s.compSC = some a.read.comp := by
  unfold findAgreed negotiate at h
  simp only [Option.bind_eq_bind, Option.pure_def] at h
  cases h1 : findCommon c.kex s.kex <;> simp [h1] at h
  cases h2 : findCommon c.hostKey s.hostKey <;> simp [h2] at h
  cases h3 : findCommon c.cipherCS s.cipherCS <;> simp [h3] at h
  cases h4 : findCommon c.cipherSC s.cipherSC <;> simp [h4] at h
  rename_i kex hk ccs csc
  cases ha : aead ccs <;> cases hb : aead csc <;> simp [ha, hb] at h
  all_goals
    first
    | (cases h5 : findCommon c.macCS s.macCS <;> simp [h5] at h)
    | skip
  all_goals
    first
    | (cases h6 : findCommon c.macSC s.macSC <;> simp [h6] at h)
    | skip
  all_goals
    cases h7 : findCommon c.compCS s.compCS <;> simp [h7] at h
    cases h8 : findCommon c.compSC s.compSC <;> simp [h8] at h
    subst h
    simp_all

/-- MACs are not negotiated for AEAD ciphers: the MAC slot is empty whatever the MAC lists say. -/
theorem no_mac_for_aead (c s : Init) (a : Algs) (h : findAgreed true c s = some a) :
    (aead a.write.cipher = true → a.write.mac = "") ∧
    (aead a.read.cipher = true → a.read.mac = "") := by
  unfold findAgreed negotiate at h
  simp only [Option.bind_eq_bind, Option.pure_def] at h
  cases h1 : findCommon c.kex s.kex <;> simp [h1] at h
  cases h2 : findCommon c.hostKey s.hostKey <;> simp [h2] at h
  cases h3 : findCommon c.cipherCS s.cipherCS <;> simp [h3] at h
  cases h4 : findCommon c.cipherSC s.cipherSC <;> simp [h4] at h
  rename_i kex hk ccs csc
  cases ha : aead ccs <;> cases hb : aead csc <;> simp [ha, hb] at h
  all_goals
    first
    | (cases h5 : findCommon c.macCS s.macCS <;> simp [h5] at h)
    | skip
  all_goals
    first
    | (cases h6 : findCommon c.macSC s.macSC <;> simp [h6] at h)
    | skip
  all_goals
    cases h7 : findCommon c.compCS s.compCS <;> simp [h7] at h
    cases h8 : findCommon c.compSC s.compSC <;> simp [h8] at h
    subst h
    simp_all

/-- Negotiation fails iff some slot has no common entry (MAC slots exempt for AEAD ciphers). -/
theorem fails_iff (c s : Init) :
    findAgreed true c s = none ↔
      findCommon c.kex s.kex = none ∨ findCommon c.hostKey s.hostKey = none ∨
      findCommon c.cipherCS s.cipherCS = none ∨ findCommon c.cipherSC s.cipherSC = none ∨
      (∃ x, findCommon c.cipherCS s.cipherCS = some x ∧ aead x = false ∧ findCommon c.macCS s.macCS = none) ∨
      (∃ x, findCommon c.cipherSC s.cipherSC = some x ∧ aead x = false ∧ findCommon c.macSC s.macSC = none) ∨
      findCommon c.compCS s.compCS = none ∨ findCommon c.compSC s.compSC = none := by
  unfold findAgreed negotiate
  simp only [Option.bind_eq_bind, Option.pure_def]
  cases h1 : findCommon c.kex s.kex <;> simp
  cases h2 : findCommon c.hostKey s.hostKey <;> simp
  cases h3 : findCommon c.cipherCS s.cipherCS <;> simp
  cases h4 : findCommon c.cipherSC s.cipherSC <;> simp
  rename_i kex hk ccs csc
  cases ha : aead ccs <;> cases hb : aead csc <;>
    cases h5 : findCommon c.macCS s.macCS <;> cases h6 : findCommon c.macSC s.macSC <;>
    cases h7 : findCommon c.compCS s.compCS <;> cases h8 : findCommon c.compSC s.compSC <;> simp

/-- non-vacuity: a concrete pair that negotiates, with an AEAD cipher one way and a MAC the other -/
example :
    findAgreed true
      ⟨["a","k"], ["h"], ["x","aes128-gcm@openssh.com"], ["aes128-ctr"], ["m"], ["n","m2"], ["none"], ["none"]⟩
      ⟨["k"], ["h"], ["aes128-gcm@openssh.com"], ["aes128-ctr"], [], ["m2","n"], ["none"], ["none"]⟩
    = some ⟨"k", "h", ⟨"aes128-gcm@openssh.com", "", "none"⟩, ⟨"aes128-ctr", "n", "none"⟩⟩ := by
  decide

end XC.C28
