/-
  C43 — property theorems over XC.Model.C43 (agent keyring, server framing, client codecs).
-/
import XC.Proofs.C43
import XC.Model.C43_Pipe
namespace XC.C43
open XC

def NodupBlobs (ks : List PK) : Prop := (ks.map (·.blob)).Nodup

/-! ## 1. the expiry loop -/

/-- `expireKeysLocked` never indexes out of range (for ANY key list, duplicates or not) -/
theorem expire_no_panic (now : Int) (keys : List PK) : ∃ ks, expireKeys now keys = some ks := by
  obtain ⟨ks, h, _⟩ := expireFrom_spec now keys keys.length 0 keys [] (expInv_init now keys)
  exact ⟨ks, h⟩

/-- **expire_removes_exactly_expired**: although the loop iterates over a snapshot of the slice while
    `removeLocked` swap-deletes inside it, with pairwise distinct blobs (the keyring invariant) the keys
    left are, as a multiset, exactly the unexpired ones. -/
theorem expire_removes_exactly_expired (now : Int) (keys : List PK) (hnd : NodupBlobs keys) :
    ∃ ks, expireKeys now keys = some ks ∧ List.Perm ks (keys.filter fun k => !k.expired now) := by
  obtain ⟨ks, h, hun, S, hS, hp⟩ := expireFrom_spec now keys keys.length 0 keys [] (expInv_init now keys)
  refine ⟨ks, h, ?_⟩
  have : (keys.filter fun e => !S.contains e.blob) = keys.filter fun k => !k.expired now := by
    apply List.filter_congr
    intro e he
    cases hexp : e.expired now with
    | true =>
      cases hc : S.contains e.blob with
      | true => rfl
      | false =>
        have : e ∈ keys.filter fun e => !S.contains e.blob := List.mem_filter.2 ⟨he, by rw [hc]; rfl⟩
        have := hun e (hp.symm.subset this)
        rw [hexp] at this; cases this
    | false =>
      cases hc : S.contains e.blob with
      | false => rfl
      | true =>
        have hm : e.blob ∈ S := by simpa using hc
        obtain ⟨k, hk, hkb, hke⟩ := hS _ hm
        have := blob_inj hnd hk he hkb
        subst this
        rw [hexp] at hke; cases hke
  rw [← this]; exact hp

example : NodupBlobs [⟨[1], [], some 5⟩, ⟨[2], [], none⟩, ⟨[3], [], some 7⟩] := by
  simp [NodupBlobs]

/-! ## 2. the abstract agent and refinement -/

/-- abstract agent: a SET of keys with optional expiry, a lock flag and a passphrase -/
structure Abs where
  keys : List PK := []
  locked : Bool := false
  pass : Bytes := []

def unexpired (now : Int) (ks : List PK) : List PK := ks.filter fun k => !k.expired now

/-- the entry `Add` stores -/
def mkPK (now : Int) (q : AddReq) : PK :=
  ⟨q.blob, q.comment, if q.lifetime > 0 then some (now + q.lifetime * tps) else none⟩

/-- replace-by-blob -/
def repl (p k : PK) : PK := if k.blob == p.blob then p else k

theorem repl_pos {p k : PK} (h : (k.blob == p.blob) = true) : repl p k = p := by simp [repl, h]
theorem repl_neg {p k : PK} (h : (k.blob == p.blob) = false) : repl p k = k := by simp [repl, h]

theorem KR.add_eq (r : KR) (now : Int) (a : AddReq) :
    r.add now a =
      if r.locked then (r, .err)
      else if a.confirm then (r, .err)
      else if a.nExt > 0 then (r, .err)
      else if !a.signerOk then (r, .err)
      else match replaceFirst (mkPK now a) r.keys with
        | some ks => ({ r with keys := ks }, .ok)
        | none => ({ r with keys := r.keys ++ [mkPK now a] }, .ok) := rfl

def Abs.step (a : Abs) (now : Int) : Op → Abs × Res
  | .add q =>
    if a.locked || q.confirm || decide (q.nExt > 0) || !q.signerOk then (a, .err)
    else
      if a.keys.any (fun k => k.blob == (mkPK now q).blob) then
        ({ a with keys := a.keys.map (repl (mkPK now q)) }, .ok)
      else ({ a with keys := mkPK now q :: a.keys }, .ok)
  | .remove b =>
    if a.locked then (a, .err)
    else if a.keys.any (fun k => k.blob == b) then ({ a with keys := a.keys.filter (keep b) }, .ok)
    else (a, .err)
  | .removeAll => if a.locked then (a, .err) else ({ a with keys := [] }, .ok)
  | .lock pw => if a.locked then (a, .err) else ({ a with locked := true, pass := pw }, .ok)
  | .unlock pw =>
    if !a.locked then (a, .err) else if pw != a.pass then (a, .err)
    else ({ a with locked := false, pass := [] }, .ok)
  | .list =>
    if a.locked then (a, .keys [])
    else
      let ks := unexpired now a.keys
      ({ a with keys := ks }, .keys (ks.map fun k => (k.blob, k.comment)))
  | .sign b f =>
    if a.locked then (a, .err)
    else
      let ks := unexpired now a.keys
      let a' := { a with keys := ks }
      match ks.find? (fun k => k.blob == b) with
      | none => (a', .err)
      | some k =>
        match sigFormat k.blob f with
        | some fmt => (a', .sig k.blob fmt)
        | none => (a', .err)
  | .signers =>
    if a.locked then (a, .err)
    else
      let ks := unexpired now a.keys
      ({ a with keys := ks }, .signers (ks.map (·.blob)))
  | .extension _ _ => (a, .unsupported)

def Abs.run (a : Abs) : List (Int × Op) → Abs × List Res
  | [] => (a, [])
  | (t, op) :: rest =>
    let (a', res) := a.step t op
    let (a'', out) := a'.run rest
    (a'', res :: out)

/-- results agree up to the order of listed keys -/
def ResEq : Res → Res → Prop
  | .keys k1, .keys k2 => List.Perm k1 k2
  | .signers s1, .signers s2 => List.Perm s1 s2
  | r1, r2 => r1 = r2

/-- pointwise `ResEq` on result lists of equal length -/
def ResEqs : List Res → List Res → Prop
  | [], [] => True
  | r :: rs, s :: ss => ResEq r s ∧ ResEqs rs ss
  | _, _ => False

theorem ResEq.rfl' (r : Res) : ResEq r r := by
  cases r <;> simp [ResEq]

structure Rel (c : KR) (a : Abs) : Prop where
  perm : List.Perm c.keys a.keys
  nodup : NodupBlobs c.keys
  locked : c.locked = a.locked
  pass : c.pass = a.pass

theorem nodup_of_perm_filter {ks ks' : List PK} (p : PK → Bool) (hnd : NodupBlobs ks)
    (hp : List.Perm ks' (ks.filter p)) : NodupBlobs ks' := by
  unfold NodupBlobs at *
  have h1 : ((ks.filter p).map (·.blob)).Nodup :=
    List.Nodup.sublist (List.Sublist.map _ (List.filter_sublist)) hnd
  exact (hp.map (·.blob)).nodup_iff.2 h1

theorem replaceFirst_none (p : PK) (ks : List PK) :
    replaceFirst p ks = none ↔ ks.any (fun k => k.blob == p.blob) = false := by
  induction ks with
  | nil => simp [replaceFirst]
  | cons k ks ih =>
    simp only [replaceFirst, List.any_cons]
    cases h : (k.blob == p.blob) <;> simp [ih]

theorem replaceFirst_some (p : PK) (ks ks' : List PK) (hnd : NodupBlobs ks)
    (h : replaceFirst p ks = some ks') : ks' = ks.map (repl p) := by
  induction ks generalizing ks' with
  | nil => simp [replaceFirst] at h
  | cons k ks ih =>
    have hnd2 : k.blob ∉ ks.map (·.blob) ∧ NodupBlobs ks := by
      unfold NodupBlobs at *; simpa only [List.map_cons, List.nodup_cons] using hnd
    simp only [replaceFirst] at h
    cases hk : (k.blob == p.blob) with
    | true =>
      simp only [hk, if_true, Option.some.injEq] at h
      subst h
      have hkb : k.blob = p.blob := by simpa using hk
      have hid : ks.map (repl p) = ks := by
        conv => rhs; rw [← List.map_id ks]
        apply List.map_congr_left
        intro x hx
        have : (x.blob == p.blob) = false := by
          apply Bool.eq_false_iff.2
          intro hxb
          have hxb' : x.blob = p.blob := by simpa using hxb
          exact hnd2.1 (by rw [hkb, ← hxb']; exact List.mem_map_of_mem hx)
        rw [repl_neg this]; rfl
      rw [List.map_cons, repl_pos hk, hid]
    | false =>
      simp only [hk, Bool.false_eq_true, if_false, Option.map_eq_some_iff] at h
      obtain ⟨t, ht, rfl⟩ := h
      rw [ih t hnd2.2 ht, List.map_cons, repl_neg hk]

theorem map_replace_blobs (p : PK) (ks : List PK) :
    (ks.map (repl p)).map (·.blob) = ks.map (·.blob) := by
  induction ks with
  | nil => rfl
  | cons k ks ih =>
    simp only [List.map_cons, ih, List.cons.injEq, and_true]
    cases hk : (k.blob == p.blob) with
    | true => rw [repl_pos hk]; exact (by simpa using hk : k.blob = p.blob).symm
    | false => rw [repl_neg hk]

theorem find_blob_perm {l1 l2 : List PK} (hp : List.Perm l1 l2) (hnd : NodupBlobs l1) (b : Bytes) :
    l1.find? (fun k => k.blob == b) = l2.find? (fun k => k.blob == b) := by
  cases h1 : l1.find? (fun k => k.blob == b) with
  | none =>
    symm
    rw [List.find?_eq_none] at h1 ⊢
    intro x hx
    exact h1 x (hp.symm.subset hx)
  | some x =>
    have hx1 : x ∈ l1 := List.mem_of_find?_eq_some h1
    have hxb : (x.blob == b) = true := List.find?_some (p := fun k : PK => k.blob == b) h1
    cases h2 : l2.find? (fun k => k.blob == b) with
    | none =>
      rw [List.find?_eq_none] at h2
      exact absurd hxb (h2 x (hp.subset hx1))
    | some y =>
      have hy2 : y ∈ l2 := List.mem_of_find?_eq_some h2
      have hyb : (y.blob == b) = true := List.find?_some (p := fun k : PK => k.blob == b) h2
      have : x = y := blob_inj hnd hx1 (hp.symm.subset hy2)
        (by rw [(by simpa using hxb : x.blob = b), (by simpa using hyb : y.blob = b)])
      rw [this]

theorem any_perm {l1 l2 : List PK} (hp : List.Perm l1 l2) (f : PK → Bool) : l1.any f = l2.any f := by
  cases h : l2.any f with
  | true =>
    rw [List.any_eq_true] at h ⊢
    obtain ⟨x, hx, hf⟩ := h
    exact ⟨x, hp.symm.subset hx, hf⟩
  | false =>
    rw [List.any_eq_false] at h ⊢
    intro x hx
    exact h x (hp.subset hx)

theorem step_refines (c : KR) (a : Abs) (now : Int) (op : Op) (hr : Rel c a) :
    Rel (c.step now op).1 (a.step now op).1 ∧ ResEq (c.step now op).2 (a.step now op).2 := by
  obtain ⟨hperm, hnd, hl, hpw⟩ := hr
  cases op with
  | add q =>
    simp only [KR.step, KR.add_eq, Abs.step, ← hl]
    cases hlk : c.locked
    · cases hc : q.confirm
      · by_cases hn : q.nExt > 0
        · simp [hn, ResEq]; exact ⟨hperm, hnd, by simpa [hlk] using hl, by simpa using hpw⟩
        · cases hs : q.signerOk
          · simp [hn, ResEq]; exact ⟨hperm, hnd, by simpa [hlk] using hl, by simpa using hpw⟩
          · simp only [Bool.false_eq_true, if_false, hn, decide_false, Bool.or_self, Bool.not_true]
            generalize mkPK now q = p
            rw [← any_perm hperm]
            cases hrf : replaceFirst p c.keys with
            | none =>
              have hany := (replaceFirst_none p c.keys).1 hrf
              simp only [hany, Bool.false_eq_true, if_false]
              refine ⟨⟨?_, ?_, by simpa [hlk] using hl, by simpa using hpw⟩, by simp [ResEq]⟩
              · exact (List.perm_append_singleton p c.keys).trans (hperm.cons p)
              · unfold NodupBlobs at *
                simp only [List.map_append, List.map_cons, List.map_nil]
                rw [List.nodup_append]
                refine ⟨hnd, by simp, ?_⟩
                intro x hx1 y hy2
                simp only [List.mem_singleton] at hy2
                subst hy2
                intro hxy
                subst hxy
                obtain ⟨k, hk, hkb⟩ := List.mem_map.1 hx1
                have := (List.any_eq_false.1 hany) k hk
                simp [hkb] at this
            | some ks' =>
              have hany : c.keys.any (fun k => k.blob == p.blob) = true := by
                cases h : c.keys.any (fun k => k.blob == p.blob) with
                | true => rfl
                | false => rw [(replaceFirst_none p c.keys).2 h] at hrf; cases hrf
              have hks := replaceFirst_some p c.keys ks' hnd hrf
              simp only [hany, if_true]
              refine ⟨⟨?_, ?_, by simpa [hlk] using hl, by simpa using hpw⟩, by simp [ResEq]⟩
              · rw [hks]; exact hperm.map _
              · unfold NodupBlobs at *
                rw [hks, map_replace_blobs]; exact hnd
      · simp [ResEq]; exact ⟨hperm, hnd, by simpa [hlk] using hl, by simpa using hpw⟩
    · simp [ResEq]; exact ⟨hperm, hnd, by simpa [hlk] using hl, by simpa using hpw⟩
  | remove b =>
    simp only [KR.step, KR.remove, Abs.step, ← hl]
    cases hlk : c.locked
    · simp only [Bool.false_eq_true, if_false]
      have hp := removeSwap_perm b [] c.keys [] false
      have hf := removeSwap_found b [] c.keys [] false
      simp only [List.nil_append, Bool.false_or] at hp hf
      generalize removeSwap b [] c.keys [] false = res at hp hf
      obtain ⟨live, dropped, found⟩ := res
      simp only at hp hf ⊢
      rw [← any_perm hperm, ← hf]
      cases found
      · simp only [Bool.false_eq_true, if_false]
        refine ⟨⟨?_, nodup_of_perm_filter _ hnd hp, by simpa [hlk] using hl, by simpa using hpw⟩, by simp [ResEq]⟩
        have : c.keys.filter (keep b) = c.keys := by
          apply List.filter_eq_self.2
          intro x hx
          have := List.any_eq_false.1 hf.symm x hx
          simpa [keep] using this
        rw [this] at hp
        exact hp.trans hperm
      · simp only [if_true]
        exact ⟨⟨hp.trans (hperm.filter _), nodup_of_perm_filter _ hnd hp, by simpa [hlk] using hl, by simpa using hpw⟩, by simp [ResEq]⟩
    · simp [ResEq]; exact ⟨hperm, hnd, by simpa [hlk] using hl, by simpa using hpw⟩
  | removeAll =>
    simp only [KR.step, KR.removeAll, Abs.step, ← hl]
    cases hlk : c.locked
    · simp [ResEq]; exact ⟨by simp, by simp [NodupBlobs], by simpa [hlk] using hl, by simpa using hpw⟩
    · simp [ResEq]; exact ⟨hperm, hnd, by simpa [hlk] using hl, by simpa using hpw⟩
  | lock pw =>
    simp only [KR.step, KR.lock, Abs.step, ← hl]
    cases hlk : c.locked
    · simp [ResEq]; exact ⟨hperm, hnd, rfl, rfl⟩
    · simp [ResEq]; exact ⟨hperm, hnd, by simpa [hlk] using hl, by simpa using hpw⟩
  | unlock pw =>
    simp only [KR.step, KR.unlock, Abs.step, ← hl, ← hpw]
    cases hlk : c.locked
    · simp [ResEq]; exact ⟨hperm, hnd, by simpa [hlk] using hl, by simpa using hpw⟩
    · by_cases hpe : pw = c.pass
      · simp [hpe, ResEq]; exact ⟨hperm, hnd, rfl, rfl⟩
      · simp [hpe, ResEq]; exact ⟨hperm, hnd, by simpa [hlk] using hl, by simpa using hpw⟩
  | list =>
    simp only [KR.step, KR.list, Abs.step, ← hl]
    cases hlk : c.locked
    · obtain ⟨ks, hks, hp⟩ := expire_removes_exactly_expired now c.keys hnd
      simp only [Bool.false_eq_true, if_false, hks]
      have hp2 : List.Perm ks (unexpired now a.keys) := hp.trans (hperm.filter _)
      exact ⟨⟨hp2, nodup_of_perm_filter _ hnd hp, by simpa [hlk] using hl, by simpa using hpw⟩, by simpa [ResEq] using hp2.map _⟩
    · simp [ResEq]; exact ⟨hperm, hnd, by simpa [hlk] using hl, by simpa using hpw⟩
  | signers =>
    simp only [KR.step, KR.signers, Abs.step, ← hl]
    cases hlk : c.locked
    · obtain ⟨ks, hks, hp⟩ := expire_removes_exactly_expired now c.keys hnd
      simp only [Bool.false_eq_true, if_false, hks]
      have hp2 : List.Perm ks (unexpired now a.keys) := hp.trans (hperm.filter _)
      exact ⟨⟨hp2, nodup_of_perm_filter _ hnd hp, by simpa [hlk] using hl, by simpa using hpw⟩, by simpa [ResEq] using hp2.map _⟩
    · simp [ResEq]; exact ⟨hperm, hnd, by simpa [hlk] using hl, by simpa using hpw⟩
  | sign b f =>
    simp only [KR.step, KR.sign, Abs.step, ← hl]
    cases hlk : c.locked
    · obtain ⟨ks, hks, hp⟩ := expire_removes_exactly_expired now c.keys hnd
      simp only [Bool.false_eq_true, if_false, hks]
      have hp2 : List.Perm ks (unexpired now a.keys) := hp.trans (hperm.filter _)
      have hnd2 := nodup_of_perm_filter _ hnd hp
      rw [← find_blob_perm hp2 hnd2 b]
      cases ks.find? (fun k => k.blob == b) with
      | none => exact ⟨⟨hp2, hnd2, by simpa [hlk] using hl, by simpa using hpw⟩, by simp [ResEq]⟩
      | some k =>
        simp only
        cases sigFormat k.blob f with
        | none => exact ⟨⟨hp2, hnd2, by simpa [hlk] using hl, by simpa using hpw⟩, by simp [ResEq]⟩
        | some fmt => exact ⟨⟨hp2, hnd2, by simpa [hlk] using hl, by simpa using hpw⟩, by simp [ResEq]⟩
    · simp [ResEq]; exact ⟨hperm, hnd, by simpa [hlk] using hl, by simpa using hpw⟩
  | extension t ct =>
    simp only [KR.step, Abs.step, ResEq]
    exact ⟨⟨hperm, hnd, hl, hpw⟩, trivial⟩

/-- **refines_abstract**: for EVERY history of operations and EVERY clock (each op carries the time at
    which it runs — not even assumed monotone), the keyring's results equal the abstract agent's results
    up to the order of listed keys, and the states stay related (same key multiset, distinct blobs). -/
theorem refines_abstract (ops : List (Int × Op)) (c : KR) (a : Abs) (hr : Rel c a) :
    Rel (c.run ops).1 (a.run ops).1 ∧ ResEqs (c.run ops).2 (a.run ops).2 := by
  induction ops generalizing c a with
  | nil => exact ⟨hr, trivial⟩
  | cons top rest ih =>
    obtain ⟨t, op⟩ := top
    have hs := step_refines c a t op hr
    have := ih (c.step t op).1 (a.step t op).1 hs.1
    simp only [KR.run, Abs.run]
    exact ⟨this.1, hs.2, this.2⟩

theorem rel_init : Rel {} {} := ⟨by simp, by simp [NodupBlobs], rfl, rfl⟩

/-- the distinct-blob invariant holds in every reachable keyring state -/
theorem reachable_nodup (ops : List (Int × Op)) : NodupBlobs (({} : KR).run ops).1.keys :=
  (refines_abstract ops {} {} rel_init).1.nodup

/-! ## 3. lock and signing rules -/

/-- **locked_lists_nothing_signs_nothing** -/
theorem locked_lists_nothing_signs_nothing (r : KR) (now : Int) (h : r.locked = true) :
    (r.list now).2 = .keys [] ∧ (∀ b f, (r.sign now b f).2 = .err) ∧ (r.signers now).2 = .err ∧
    (∀ q, (r.add now q).2 = .err) ∧ (∀ b, (r.remove b).2 = .err) ∧ r.removeAll.2 = .err := by
  simp [KR.list, KR.sign, KR.signers, KR.add, KR.remove, KR.removeAll, h]

/-- **sign_only_present_unexpired_unlocked**: a signature is produced only while unlocked, only by the
    key that was asked for, only if that key is in the keyring and not expired at that time, and only in
    the format the flag table prescribes. -/
theorem sign_only_present_unexpired_unlocked (r : KR) (now : Int) (b : Bytes) (f : Nat) (b' fmt : Bytes)
    (hnd : NodupBlobs r.keys) (h : (r.sign now b f).2 = .sig b' fmt) :
    r.locked = false ∧ b' = b ∧ sigFormat b f = some fmt ∧
      ∃ k ∈ r.keys, k.blob = b ∧ k.expired now = false := by
  simp only [KR.sign] at h
  cases hl : r.locked with
  | true => simp [hl] at h
  | false =>
    simp only [hl, Bool.false_eq_true, if_false] at h
    obtain ⟨ks, hks, hp⟩ := expire_removes_exactly_expired now r.keys hnd
    simp only [hks] at h
    cases hf : ks.find? (fun k => k.blob == b) with
    | none => simp [hf] at h
    | some k =>
      simp only [hf] at h
      have hk : k ∈ ks := List.mem_of_find?_eq_some hf
      have hkb : k.blob = b := by simpa using List.find?_some (p := fun k : PK => k.blob == b) hf
      have hk' := List.mem_filter.1 (hp.subset hk)
      cases hsf : sigFormat k.blob f with
      | none => simp [hsf] at h
      | some fm =>
        simp only [hsf, Res.sig.injEq] at h
        obtain ⟨rfl, rfl⟩ := h
        exact ⟨rfl, hkb, by rw [← hkb]; exact hsf, k, hk'.1, hkb, by simpa using hk'.2⟩

/-- the flag → algorithm table -/
theorem sigFormat_table (blob : Bytes) (flags : Nat) (fmt : Bytes) (h : sigFormat blob flags = some fmt) :
    (flags = 0 ∧ fmt = underlyingFormat (blobFormat blob)) ∨
    (flags = 2 ∧ underlyingFormat (blobFormat blob) = kRSA ∧ fmt = kRSA256) ∨
    (flags = 4 ∧ underlyingFormat (blobFormat blob) = kRSA ∧ fmt = kRSA512) := by
  unfold sigFormat at h
  simp only at h
  split at h
  · left; rename_i h0; exact ⟨by simpa using h0, by simpa using h.symm⟩
  · split at h
    · right; left; rename_i h2
      split at h
      · rename_i hk; exact ⟨by simpa using h2, by simpa using hk, by simpa using h.symm⟩
      · cases h
    · split at h
      · right; right; rename_i h4
        split at h
        · rename_i hk; exact ⟨by simpa using h4, by simpa using hk, by simpa using h.symm⟩
        · cases h
      · cases h

/-! ## 4. ServeAgent never panics -/

theorem step_no_panic (r : KR) (now : Int) (op : Op) : (r.step now op).2 ≠ .panic := by
  cases op with
  | add q => simp only [KR.step, KR.add_eq]; (repeat' split) <;> simp
  | remove b => simp only [KR.step, KR.remove]; (repeat' split) <;> simp
  | removeAll => simp only [KR.step, KR.removeAll]; split <;> simp
  | lock pw => simp only [KR.step, KR.lock]; split <;> simp
  | unlock pw => simp only [KR.step, KR.unlock]; (repeat' split) <;> simp
  | list =>
    obtain ⟨ks, hks⟩ := expire_no_panic now r.keys
    simp only [KR.step, KR.list, hks]; split <;> simp
  | sign b f =>
    obtain ⟨ks, hks⟩ := expire_no_panic now r.keys
    simp only [KR.step, KR.sign, hks]; (repeat' split) <;> simp
  | signers =>
    obtain ⟨ks, hks⟩ := expire_no_panic now r.keys
    simp only [KR.step, KR.signers, hks]; split <;> simp
  | extension t c => simp [KR.step]

theorem mapRes_panic (res : Res) : mapRes res = .panic ↔ res = .panic := by
  cases res <;> simp [mapRes]

/-- `processRequest` is total and panic-free for every non-empty request, in every keyring state -/
theorem processRequest_no_panic (ids : List Ident) (r : KR) (now : Int) (data : Bytes) (h : data ≠ []) :
    (processRequest ids r now data).2 ≠ .panic := by
  cases data with
  | nil => exact absurd rfl h
  | cons op body =>
    have hadd := fun q => step_no_panic r now (.add q)
    have hrem := fun b => step_no_panic r now (.remove b)
    have hra := step_no_panic r now .removeAll
    have hlk := fun pw => step_no_panic r now (.lock pw)
    have hul := fun pw => step_no_panic r now (.unlock pw)
    have hls := step_no_panic r now .list
    have hsg := fun b f => step_no_panic r now (.sign b f)
    simp only [KR.step] at hadd hrem hra hlk hul hls hsg
    unfold processRequest
    simp only
    repeat' split
    all_goals first
      | (simp; done)
      | (simp only [ne_eq, mapRes_panic]; first | apply hadd | apply hrem | apply hra | apply hlk | apply hul | apply hsg)
      | (rename_i hh; exact absurd (show (r.list now).2 = Res.panic by rw [hh]) hls)
      | skip

/-- **serve_total**: whatever bytes arrive, `ServeAgent` answers every well-framed non-empty request
    without panicking; a zero or oversized length ends the session before dispatch (and never reaches
    `data[0]`). -/
theorem serve_total (ids : List Ident) (frames : List Frame) (now : Int) (r : KR)
    (hf : ∀ f ∈ frames, 0 < f.len → f.body ≠ []) :
    ∀ rep ∈ serve ids now r frames, rep ≠ some .panic := by
  induction frames generalizing now r with
  | nil => simp [serve]
  | cons f rest ih =>
    intro rep hrep
    simp only [serve] at hrep
    split at hrep
    · simp only [List.map_cons, List.mem_cons, List.mem_map] at hrep
      rcases hrep with rfl | ⟨_, _, rfl⟩ <;> simp
    · rename_i hlen
      simp only [Bool.or_eq_true, beq_iff_eq, decide_eq_true_eq, not_or] at hlen
      rcases List.mem_cons.1 hrep with rfl | hrep
      · have hb : f.body ≠ [] := hf f (by simp) (by omega)
        intro hc
        exact processRequest_no_panic ids r now f.body hb (by simpa using hc)
      · exact ih _ _ (fun g hg => hf g (List.mem_cons_of_mem _ hg)) rep hrep

theorem serve_closes_on_bad_length (ids : List Ident) (f : Frame) (rest : List Frame) (now : Int) (r : KR)
    (h : f.len = 0 ∨ f.len > maxAgentBytes) :
    serve ids now r (f :: rest) = (f :: rest).map fun _ => none := by
  simp only [serve]
  rcases h with h | h
  · simp [h]
  · have : decide (f.len > maxAgentBytes) = true := by simpa using h
    simp [this]

/-! ## 5. wire codecs: what the client encodes is what the server decodes -/

theorem putU32_length (n : Nat) : (putU32 n).length = 4 := by
  simp [putU32, natToBE, natToLE_length]

theorem getU32_putU32 (n : Nat) (rest : Bytes) (h : n < 2 ^ 32) : getU32 (putU32 n ++ rest) = some (n, rest) := by
  have hl := putU32_length n
  have h1 : (putU32 n ++ rest).take 4 = putU32 n := by
    rw [List.take_append_of_le_length (by omega), ← hl, List.take_length]
  have h2 : (putU32 n ++ rest).drop 4 = rest := by
    rw [← hl, List.drop_left]
  have h3 : natOfBE (putU32 n) = n := by
    simp only [natOfBE, putU32, natToBE, List.reverse_reverse, natOfLE_natToLE]
    exact Nat.mod_eq_of_lt (by simpa using h)
  unfold getU32
  have : ¬ (putU32 n ++ rest).length < 4 := by simp [hl]
  simp only [this, if_false, h1, h2, h3]

theorem getStr_putStr (b rest : Bytes) (h : b.length < 2 ^ 32) : getStr (putStr b ++ rest) = some (b, rest) := by
  unfold getStr putStr
  rw [List.append_assoc, getU32_putU32 _ _ h]
  have : ¬ (b ++ rest).length < b.length := by simp
  simp only [this, if_false, List.take_left, List.drop_left]

/-- a blob the server accepts as a `wireKey` (it starts with a length-prefixed format string) -/
def WellFormedBlob (blob : Bytes) : Prop := blob.length < 2 ^ 32 ∧ ∃ f rest, getStr blob = some (f, rest)

theorem mapRes_decSimple (res : Res) (h : res = .ok ∨ res = .err) : decSimple (mapRes res) = res := by
  rcases h with rfl | rfl <;> rfl

theorem remove_res (r : KR) (b : Bytes) : (r.remove b).2 = .ok ∨ (r.remove b).2 = .err := by
  simp only [KR.remove]; (repeat' split) <;> simp

theorem lock_res (r : KR) (pw : Bytes) : (r.lock pw).2 = .ok ∨ (r.lock pw).2 = .err := by
  simp only [KR.lock]; split <;> simp

theorem unlock_res (r : KR) (pw : Bytes) : (r.unlock pw).2 = .ok ∨ (r.unlock pw).2 = .err := by
  simp only [KR.unlock]; (repeat' split) <;> simp

/-- Remove through `client.Remove` → `ServeAgent` is exactly `keyring.Remove` -/
theorem wire_remove (ids : List Ident) (r : KR) (now : Int) (blob : Bytes) (hb : WellFormedBlob blob) :
    wireStep ids r now (.remove blob) = r.remove blob := by
  obtain ⟨hlen, f, rest, hf⟩ := hb
  have hg := getStr_putStr blob [] hlen
  simp only [List.append_nil] at hg
  simp only [wireStep, COp.request, encRemove, processRequest, hg, hf, COp.decode]
  have := mapRes_decSimple _ (remove_res r blob)
  simp only [show ((18 : UInt8) == 1) = false by decide, show ((18 : UInt8) == 9) = false by decide,
    beq_self_eq_true, if_true, Bool.false_eq_true, if_false]
  rw [this]

/-- Lock / Unlock through the wire are exactly `keyring.Lock` / `keyring.Unlock` -/
theorem wire_lock (ids : List Ident) (r : KR) (now : Int) (pw : Bytes) (h : pw.length < 2 ^ 32) :
    wireStep ids r now (.lock pw) = r.lock pw := by
  have hg := getStr_putStr pw [] h
  simp only [List.append_nil] at hg
  simp only [wireStep, COp.request, encLock, processRequest, hg, COp.decode]
  have := mapRes_decSimple _ (lock_res r pw)
  simp only [show ((22 : UInt8) == 1) = false by decide, show ((22 : UInt8) == 9) = false by decide,
    show ((22 : UInt8) == 18) = false by decide, show ((22 : UInt8) == 19) = false by decide,
    beq_self_eq_true, if_true, Bool.false_eq_true, if_false]
  rw [this]

theorem wire_unlock (ids : List Ident) (r : KR) (now : Int) (pw : Bytes) (h : pw.length < 2 ^ 32) :
    wireStep ids r now (.unlock pw) = r.unlock pw := by
  have hg := getStr_putStr pw [] h
  simp only [List.append_nil] at hg
  simp only [wireStep, COp.request, encUnlock, processRequest, hg, COp.decode]
  have := mapRes_decSimple _ (unlock_res r pw)
  simp only [show ((23 : UInt8) == 1) = false by decide, show ((23 : UInt8) == 9) = false by decide,
    show ((23 : UInt8) == 18) = false by decide, show ((23 : UInt8) == 19) = false by decide,
    show ((23 : UInt8) == 22) = false by decide,
    beq_self_eq_true, if_true, Bool.false_eq_true, if_false]
  rw [this]

theorem sign_res (r : KR) (now : Int) (b : Bytes) (f : Nat) :
    (r.sign now b f).2 = .err ∨ ∃ b' fmt, (r.sign now b f).2 = .sig b' fmt := by
  obtain ⟨ks, hks⟩ := expire_no_panic now r.keys
  simp only [KR.sign, hks]; (repeat' split) <;> simp

/-- Sign through the wire (request: blob, data, flags) is exactly `keyring.SignWithFlags` -/
theorem wire_sign (ids : List Ident) (r : KR) (now : Int) (blob data : Bytes) (flags : Nat)
    (hb : WellFormedBlob blob) (hd : data.length < 2 ^ 32) (hfl : flags < 2 ^ 32) :
    wireStep ids r now (.sign blob data flags) = r.sign now blob flags := by
  obtain ⟨hlen, f, rest, hf⟩ := hb
  have h1 := getStr_putStr blob (putStr data ++ putU32 flags) hlen
  have h2 := getStr_putStr data (putU32 flags) hd
  have h3 := getU32_putU32 flags [] hfl
  simp only [List.append_nil] at h3
  simp only [wireStep, COp.request, encSign, processRequest, h1, h2, h3, hf, COp.decode]
  simp only [show ((13 : UInt8) == 1) = false by decide, show ((13 : UInt8) == 9) = false by decide,
    show ((13 : UInt8) == 18) = false by decide, show ((13 : UInt8) == 19) = false by decide,
    show ((13 : UInt8) == 22) = false by decide, show ((13 : UInt8) == 23) = false by decide,
    beq_self_eq_true, if_true, Bool.false_eq_true, if_false]
  rcases sign_res r now blob flags with h | ⟨b', fmt, h⟩
  · rw [Prod.ext_iff]; simp [h, mapRes, decSign]
  · rw [Prod.ext_iff]; simp [h, mapRes, decSign]

/-! `parseConstraints` inverts the client's constraint encoder -/

theorem pc_nil (f life : Nat) (conf : Bool) (n : Nat) :
    parseConstraints (f + 1) [] life conf n = some (life, conf, n) := by simp [parseConstraints]

theorem pc_conf (f : Nat) (t : Bytes) (life : Nat) (conf : Bool) (n : Nat) :
    parseConstraints (f + 1) (2 :: t) life conf n = parseConstraints f t life true n := by
  simp only [parseConstraints, show ((2 : UInt8) == 1) = false by decide, beq_self_eq_true, if_true,
    Bool.false_eq_true, if_false]

theorem pc_life (f : Nat) (t : Bytes) (L life : Nat) (conf : Bool) (n : Nat) (hL : L < 2 ^ 32) :
    parseConstraints (f + 1) (1 :: (putU32 L ++ t)) life conf n = parseConstraints f t L conf n := by
  have hl := putU32_length L
  have h5 : ¬ ((1 : UInt8) :: (putU32 L ++ t)).length < 5 := by simp [hl]
  have hd : ((1 : UInt8) :: (putU32 L ++ t)).drop 5 = t := by
    rw [show (5 : Nat) = 4 + 1 by rfl, List.drop_succ_cons, ← hl, List.drop_left]
  have ht : ((((1 : UInt8) :: (putU32 L ++ t)).drop 1).take 4) = putU32 L := by
    rw [List.drop_succ_cons, List.drop_zero, List.take_append_of_le_length (by omega), ← hl, List.take_length]
  have hn : natOfBE (putU32 L) = L := by
    simp only [natOfBE, putU32, natToBE, List.reverse_reverse, natOfLE_natToLE]
    exact Nat.mod_eq_of_lt (by simpa using hL)
  rw [parseConstraints]
  simp only [beq_self_eq_true, if_true, h5, if_false, hd, ht, hn]

theorem pc_ext (f : Nat) (e : Bytes × Bytes) (t : Bytes) (life : Nat) (conf : Bool) (n : Nat)
    (he : e.1.length < 2 ^ 32 ∧ e.2.length < 2 ^ 32) :
    parseConstraints (f + 1) (encExt e ++ t) life conf n = parseConstraints f t life conf (n + 1) := by
  have h1 := getStr_putStr e.1 (putStr e.2 ++ t) he.1
  have h2 := getStr_putStr e.2 t he.2
  simp only [encExt, List.cons_append, List.append_assoc, parseConstraints,
    show ((255 : UInt8) == 1) = false by decide, show ((255 : UInt8) == 2) = false by decide,
    beq_self_eq_true, Bool.true_or, if_true, Bool.false_eq_true, if_false, h1, h2]

theorem pc_exts (exts : List (Bytes × Bytes)) (life : Nat) (conf : Bool) (n f : Nat)
    (hx : ∀ e ∈ exts, e.1.length < 2 ^ 32 ∧ e.2.length < 2 ^ 32) :
    parseConstraints (exts.length + f + 1) (encExts exts) life conf n = some (life, conf, n + exts.length) := by
  induction exts generalizing n with
  | nil => simp [encExts, pc_nil]
  | cons e es ih =>
    have : (e :: es).length + f + 1 = (es.length + f + 1) + 1 := by simp only [List.length_cons]; omega
    rw [this, encExts, pc_ext _ _ _ _ _ _ (hx e (by simp)),
      ih (n + 1) (fun x hx' => hx x (List.mem_cons_of_mem _ hx'))]
    rw [List.length_cons, show n + 1 + es.length = n + (es.length + 1) by omega]

theorem encExts_length (exts : List (Bytes × Bytes)) : exts.length ≤ (encExts exts).length := by
  induction exts with
  | nil => simp [encExts]
  | cons e es ih => simp only [encExts, encExt, List.length_append, List.length_cons]; omega

/-- number of constraint items the client emits -/
def nItems (life : Nat) (conf : Bool) (exts : List (Bytes × Bytes)) : Nat :=
  (if life != 0 then 1 else 0) + (if conf then 1 else 0) + exts.length

theorem pc_roundtrip_fuel (life : Nat) (conf : Bool) (exts : List (Bytes × Bytes)) (hl : life < 2 ^ 32)
    (hx : ∀ e ∈ exts, e.1.length < 2 ^ 32 ∧ e.2.length < 2 ^ 32) (f : Nat) :
    parseConstraints (nItems life conf exts + f + 1) (encConstraints life conf exts) 0 false 0 =
      some (life, conf, exts.length) := by
  unfold encConstraints nItems
  by_cases hlz : life = 0
  · subst hlz
    cases conf
    · have := pc_exts exts 0 false 0 f hx
      simpa using this
    · have := pc_exts exts 0 true 0 f hx
      simp only [bne_self_eq_false, Bool.false_eq_true, if_false, if_true, List.nil_append, List.cons_append]
      rw [show 0 + 1 + exts.length + f + 1 = (exts.length + f + 1) + 1 by omega, pc_conf]
      simpa using this
  · have hb : (life != 0) = true := by simpa using hlz
    cases conf
    · have := pc_exts exts life false 0 f hx
      simp only [hb, if_true, Bool.false_eq_true, if_false, List.nil_append, List.cons_append]
      rw [show 1 + 0 + exts.length + f + 1 = (exts.length + f + 1) + 1 by omega, pc_life _ _ _ _ _ _ hl]
      simpa using this
    · have := pc_exts exts life true 0 f hx
      simp only [hb, if_true, List.cons_append, List.nil_append]
      rw [show 1 + 1 + exts.length + f + 1 = ((exts.length + f + 1) + 1) + 1 by omega,
        pc_life _ _ _ _ _ _ hl, pc_conf]
      simpa using this

theorem nItems_le_length (life : Nat) (conf : Bool) (exts : List (Bytes × Bytes)) :
    nItems life conf exts ≤ (encConstraints life conf exts).length := by
  have := encExts_length exts
  unfold nItems encConstraints
  simp only [List.length_append]
  cases (life != 0) <;> cases conf <;> simp [putU32_length] <;> omega

/-- **constraints_roundtrip**: with the fuel the server uses (`len + 1`), parsing what the client encoded
    gives back the lifetime (0 = none), the confirm flag and the number of extensions -/
theorem constraints_roundtrip (life : Nat) (conf : Bool) (exts : List (Bytes × Bytes)) (hl : life < 2 ^ 32)
    (hx : ∀ e ∈ exts, e.1.length < 2 ^ 32 ∧ e.2.length < 2 ^ 32) :
    parseConstraints ((encConstraints life conf exts).length + 1) (encConstraints life conf exts) 0 false 0 =
      some (life, conf, exts.length) := by
  have hle := nItems_le_length life conf exts
  obtain ⟨f, hf⟩ : ∃ f, (encConstraints life conf exts).length + 1 = nItems life conf exts + f + 1 :=
    ⟨(encConstraints life conf exts).length - nItems life conf exts, by omega⟩
  rw [hf]
  exact pc_roundtrip_fuel life conf exts hl hx f

/-! ### Add and List through the wire -/

theorem add_res (r : KR) (now : Int) (q : AddReq) : (r.add now q).2 = .ok ∨ (r.add now q).2 = .err := by
  simp only [KR.add_eq]; (repeat' split) <;> simp

/-- the processing of an add request whose key material is a known identity -/
theorem processRequest_add (ids : List Ident) (r : KR) (now : Int) (op : UInt8) (hop : op = 17 ∨ op = 25)
    (i : Ident) (comment cons : Bytes) (hc : comment.length < 2 ^ 32)
    (hfind : findIdent ids (i.prefix_ ++ (putStr comment ++ cons)) = some (i, putStr comment ++ cons)) :
    processRequest ids r now (op :: (i.prefix_ ++ (putStr comment ++ cons))) =
      match parseConstraints (cons.length + 1) cons 0 false 0 with
      | none => (r, .failure)
      | some (life, conf, next) =>
        ((r.add now ⟨i.blob, true, comment, life, conf, next⟩).1,
          mapRes (r.add now ⟨i.blob, true, comment, life, conf, next⟩).2) := by
  have hg := getStr_putStr comment cons hc
  rcases hop with rfl | rfl
  · simp only [processRequest, hfind, hg,
      show ((17 : UInt8) == 1) = false by decide, show ((17 : UInt8) == 9) = false by decide,
      show ((17 : UInt8) == 18) = false by decide, show ((17 : UInt8) == 19) = false by decide,
      show ((17 : UInt8) == 22) = false by decide, show ((17 : UInt8) == 23) = false by decide,
      show ((17 : UInt8) == 13) = false by decide, show ((17 : UInt8) == 11) = false by decide,
      beq_self_eq_true, Bool.true_or, if_true, Bool.false_eq_true, if_false]
    cases parseConstraints (cons.length + 1) cons 0 false 0 with
    | none => rfl
    | some t => obtain ⟨l, c, n⟩ := t; rfl
  · simp only [processRequest, hfind, hg,
      show ((25 : UInt8) == 1) = false by decide, show ((25 : UInt8) == 9) = false by decide,
      show ((25 : UInt8) == 18) = false by decide, show ((25 : UInt8) == 19) = false by decide,
      show ((25 : UInt8) == 22) = false by decide, show ((25 : UInt8) == 23) = false by decide,
      show ((25 : UInt8) == 13) = false by decide, show ((25 : UInt8) == 11) = false by decide,
      show ((25 : UInt8) == 17) = false by decide,
      beq_self_eq_true, Bool.or_true, Bool.false_or, if_true, Bool.false_eq_true, if_false]
    cases parseConstraints (cons.length + 1) cons 0 false 0 with
    | none => rfl
    | some t => obtain ⟨l, c, n⟩ := t; rfl

/-- **wire_add**: `client.Add` (constraint encoder, opcode 17/25, comment) followed by the server's
    `insertIdentity` + `parseConstraints` is exactly `keyring.Add` with that comment, lifetime, confirm flag
    and number of constraint extensions; the key material is the opaque prefix of a known identity. -/
theorem wire_add (ids : List Ident) (r : KR) (now : Int) (i : Ident) (comment : Bytes) (life : Nat)
    (conf : Bool) (exts : List (Bytes × Bytes)) (hc : comment.length < 2 ^ 32) (hl : life < 2 ^ 32)
    (hx : ∀ e ∈ exts, e.1.length < 2 ^ 32 ∧ e.2.length < 2 ^ 32)
    (hfind : ∀ rest, findIdent ids (i.prefix_ ++ rest) = some (i, rest)) :
    wireStep ids r now (.add i false comment life conf exts) =
      r.add now ⟨i.blob, true, comment, life, conf, exts.length⟩ := by
  have hrt := constraints_roundtrip life conf exts hl hx
  have hp := processRequest_add ids r now (if (encConstraints life conf exts).isEmpty then 17 else 25)
    (by split <;> simp) i comment (encConstraints life conf exts) hc (hfind _)
  simp only [wireStep, COp.request, Bool.false_eq_true, if_false, encAdd, hp, hrt, COp.decode]
  rw [mapRes_decSimple _ (add_res r now _)]

example : ∀ rest, findIdent [⟨[1], [0, 0, 0, 1, 7]⟩] (([0, 0, 0, 1, 7] : Bytes) ++ rest) = some (⟨[1], [0, 0, 0, 1, 7]⟩, rest) := by
  intro rest; simp [findIdent, isPrefixOf]

theorem decKeys_enc (ks : List (Bytes × Bytes))
    (hk : ∀ k ∈ ks, WellFormedBlob k.1 ∧ k.2.length < 2 ^ 32) :
    decKeys ks.length (ks.map fun k => putStr k.1 ++ putStr k.2).flatten = some ks := by
  induction ks with
  | nil => simp [decKeys]
  | cons k ks ih =>
    obtain ⟨⟨hlen, f, rest, hf⟩, hcl⟩ := hk k (by simp)
    have h1 := getStr_putStr k.1 (putStr k.2 ++ (ks.map fun k => putStr k.1 ++ putStr k.2).flatten) hlen
    have h2 := getStr_putStr k.2 ((ks.map fun k => putStr k.1 ++ putStr k.2).flatten) hcl
    simp only [List.length_cons, List.map_cons, List.flatten_cons, List.append_assoc, decKeys, h1, h2, hf,
      ih (fun x hx => hk x (List.mem_cons_of_mem _ hx))]
    simp

/-- the identities answer decodes to the listed keys, in order -/
theorem list_reply_roundtrip (ks : List (Bytes × Bytes))
    (hk : ∀ k ∈ ks, WellFormedBlob k.1 ∧ k.2.length < 2 ^ 32) (hn : ks.length ≤ maxAgentBytes / 8) :
    decList (.bytes (encIdentities ks)) = .keys ks := by
  have hlt : ks.length < 2 ^ 32 := by
    have : maxAgentBytes / 8 < 2 ^ 32 := by decide
    omega
  simp only [encIdentities, decList, getU32_putU32 _ _ hlt, decKeys_enc ks hk]
  have : ¬ ks.length > maxAgentBytes / 8 := by omega
  simp [this]

theorem expire_subset (now : Int) (keys ks : List PK) (h : expireKeys now keys = some ks) : ∀ k ∈ ks, k ∈ keys := by
  obtain ⟨ks', h', _, S, _, hp⟩ := expireFrom_spec now keys keys.length 0 keys [] (expInv_init now keys)
  have : ks' = ks := by
    have := h'.symm.trans h
    simpa using this
  subst this
  intro k hk
  exact (List.mem_filter.1 (hp.subset hk)).1

/-- **wire_list**: `client.List` through `ServeAgent` returns exactly what `keyring.List` returns
    (same keys, same comments, same order), and leaves the same state -/
theorem wire_list (ids : List Ident) (r : KR) (now : Int)
    (hk : ∀ k ∈ r.keys, WellFormedBlob k.blob ∧ k.comment.length < 2 ^ 32)
    (hn : r.keys.length ≤ maxAgentBytes / 8) :
    wireStep ids r now .list = r.list now := by
  simp only [wireStep, COp.request, encList, processRequest,
    show ((11 : UInt8) == 1) = false by decide, show ((11 : UInt8) == 9) = false by decide,
    show ((11 : UInt8) == 18) = false by decide, show ((11 : UInt8) == 19) = false by decide,
    show ((11 : UInt8) == 22) = false by decide, show ((11 : UInt8) == 23) = false by decide,
    show ((11 : UInt8) == 13) = false by decide, beq_self_eq_true, if_true, Bool.false_eq_true, if_false,
    COp.decode]
  cases hl : r.locked with
  | true =>
    simp only [KR.list, hl, if_true]
    rw [list_reply_roundtrip [] (by simp) (by simp)]
  | false =>
    obtain ⟨ks, hks⟩ := expire_no_panic now r.keys
    have hsub := expire_subset now r.keys ks hks
    simp only [KR.list, hl, Bool.false_eq_true, if_false, hks]
    have hlen : (ks.map fun k => (k.blob, k.comment)).length ≤ maxAgentBytes / 8 := by
      obtain ⟨ks', h', _, S, _, hp⟩ := expireFrom_spec now r.keys r.keys.length 0 r.keys [] (expInv_init now r.keys)
      have : ks' = ks := by simpa using h'.symm.trans hks
      subst this
      have := hp.length_eq
      have h2 := List.length_filter_le (fun e => !S.contains e.blob) r.keys
      simp only [List.length_map]; omega
    rw [list_reply_roundtrip _ (by
      intro k hk'
      obtain ⟨x, hx, rfl⟩ := List.mem_map.1 hk'
      exact hk x (hsub x hx)) hlen]

end XC.C43

/-! ## 6. the pipelined client and the keyring mutex -/
namespace XC.C43.Pipe

theorem seqRun_append {σ Req Rep : Type} (step : σ → Req → σ × Rep) (s : σ) (a : List Req) (q : Req) :
    seqRun step s (a ++ [q]) =
      ((step (seqRun step s a).1 q).1, (seqRun step s a).2 ++ [(step (seqRun step s a).1 q).2]) := by
  induction a generalizing s with
  | nil => simp [seqRun]
  | cons x xs ih => simp [seqRun, ih]

theorem seqRun_append_list {σ Req Rep : Type} (step : σ → Req → σ × Rep) (s0 : σ) (l1 l2 : List Req) :
    (seqRun step s0 (l1 ++ l2)).2 = (seqRun step s0 l1).2 ++ (seqRun step (seqRun step s0 l1).1 l2).2 := by
  induction l1 generalizing s0 with
  | nil => simp [seqRun]
  | cons x xs ih => simp [seqRun, ih]

/-- invariant of the pipeline: the calls split into delivered `A`, answered-but-unread `B`, unserved `C` -/
structure PInv {σ Req Rep : Type} (step : σ → Req → σ × Rep) (s0 : σ) (s : PState σ Req Rep) : Prop where
  split : ∃ A B C : List (Nat × Req), ∃ RA : List Rep,
    s.sent = A ++ B ++ C ∧ s.wire = C.map (·.2) ∧ s.pending = (B ++ C).map (·.1) ∧
    RA.length = A.length ∧ s.replies.length = B.length ∧
    seqRun step s0 ((A ++ B).map (·.2)) = (s.srv, RA ++ s.replies) ∧
    s.delivered = (A.map (·.1)).zip RA

theorem pinv_reach {σ Req Rep : Type} (step : σ → Req → σ × Rep) (s0 : σ) (s : PState σ Req Rep)
    (h : Reach step s0 s) : PInv step s0 s := by
  induction h with
  | init => exact ⟨[], [], [], [], by simp [seqRun]⟩
  | next _ st ih =>
    obtain ⟨A, B, C, RA, h1, h2, h3, h4, h5, h6, h7⟩ := ih.split
    cases st with
    | call c q =>
      exact ⟨A, B, C ++ [(c, q)], RA, by simp [h1, List.append_assoc], by simp [h2], by simp [h3, List.append_assoc],
        h4, h5, h6, h7⟩
    | serve q w hw =>
      cases C with
      | nil => simp [h2] at hw
      | cons x C' =>
        simp only [h2, List.map_cons, List.cons.injEq] at hw
        obtain ⟨hq, hw'⟩ := hw
        refine ⟨A, B ++ [x], C', RA, by simp [h1, List.append_assoc], hw'.symm, by simp [h3, List.append_assoc],
          h4, by simp [h5], ?_, h7⟩
        have : (A ++ (B ++ [x])).map (·.2) = (A ++ B).map (·.2) ++ [x.2] := by simp
        rw [this, seqRun_append, h6, hq]
        simp [List.append_assoc]
    | read rp rs c ps hr hp =>
      cases B with
      | nil => simp [hr] at h5
      | cons y B' =>
        simp only [h3, List.cons_append, List.map_cons, List.cons.injEq] at hp
        obtain ⟨hc, hps⟩ := hp
        refine ⟨A ++ [y], B', C, RA ++ [rp], by simp [h1, List.append_assoc], h2, hps.symm,
          by simp [h4], by simpa [hr] using h5, ?_, ?_⟩
        · have : (A ++ [y] ++ B').map (·.2) = (A ++ y :: B').map (·.2) := by simp
          rw [this, h6, hr]; simp [List.append_assoc]
        · simp only [h7, List.map_append, List.map_cons, List.map_nil, hc]
          rw [List.zip_append (by simp [h4])]
          simp

/-- **pipeline_fifo**: in every reachable state of the pipelined client, the replies handed to callers
    are, in order, exactly the replies the sequential server gives to the requests in the order they were
    written — caller `i` receives the answer to ITS request, however calls, server steps and reader steps
    interleave; and the reader never finds `pending` empty when a reply arrives. -/
theorem pipeline_fifo {σ Req Rep : Type} (step : σ → Req → σ × Rep) (s0 : σ) (s : PState σ Req Rep)
    (h : Reach step s0 s) :
    s.delivered = ((s.sent.map (·.1)).zip (seqRun step s0 (s.sent.map (·.2))).2).take s.delivered.length ∧
    s.replies.length ≤ s.pending.length := by
  obtain ⟨A, B, C, RA, h1, h2, h3, h4, h5, h6, h7⟩ := (pinv_reach step s0 s h).split
  refine ⟨?_, by simp [h3, h5]⟩
  have hlen : s.delivered.length = A.length := by simp [h7, h4]
  -- the sequential run on all sent requests extends the run on A ++ B
  have hpre := seqRun_append_list step s0
  have hall : (seqRun step s0 (s.sent.map (·.2))).2 =
      RA ++ (s.replies ++ (seqRun step s.srv (C.map (·.2))).2) := by
    rw [h1, List.map_append, hpre, h6]; simp [List.append_assoc]
  rw [hall, h1, hlen, h7]
  simp only [List.map_append, List.append_assoc]
  rw [List.zip_append (by simp [h4]), List.take_append_of_le_length (by simp [h4])]
  rw [List.take_of_length_le (by simp [h4])]

/-- **mutex_linearizable**: because every keyring method is one critical section, any concurrent
    execution (any schedule of any number of caller programs) produces exactly the results of running the
    executed operations sequentially in schedule order — so `refines_abstract` applies to it. -/
theorem mutex_linearizable {σ Op Res : Type} (step : σ → Op → σ × Res) (s : σ) (progs : List (List Op))
    (sched : List Nat) :
    (runSchedule step s progs sched).1 = (seqRun step s (linearization progs sched)).1 ∧
    (runSchedule step s progs sched).2.map (·.2) = (seqRun step s (linearization progs sched)).2 := by
  induction sched generalizing s progs with
  | nil => simp [runSchedule, linearization, seqRun]
  | cons i sched ih =>
    simp only [runSchedule, linearization]
    cases hp : progs[i]? with
    | none => simpa using ih s progs
    | some l =>
      cases l with
      | nil => simpa using ih s progs
      | cons op rest =>
        have := ih (step s op).1 (progs.set i rest)
        simp only [seqRun, List.map_cons]
        exact ⟨this.1, by rw [this.2]⟩

end XC.C43.Pipe

namespace XC.C43

/-! ## 7. the remaining calls through the wire; non-vacuity examples -/

theorem removeAll_res (r : KR) : r.removeAll.2 = .ok ∨ r.removeAll.2 = .err := by
  simp only [KR.removeAll]; split <;> simp

/-- RemoveAll through the wire is exactly `keyring.RemoveAll` -/
theorem wire_removeAll (ids : List Ident) (r : KR) (now : Int) :
    wireStep ids r now .removeAll = r.removeAll := by
  simp only [wireStep, COp.request, encRemoveAll, processRequest, COp.decode,
    show ((19 : UInt8) == 1) = false by decide, show ((19 : UInt8) == 9) = false by decide,
    show ((19 : UInt8) == 18) = false by decide, beq_self_eq_true, if_true, Bool.false_eq_true, if_false]
  rw [mapRes_decSimple _ (removeAll_res r)]

/-- Extension through the wire: the keyring supports none, the client reports ErrExtensionUnsupported
    (for every extension type shorter than 2^32 bytes and any contents), state unchanged -/
theorem wire_extension (ids : List Ident) (r : KR) (now : Int) (typ contents : Bytes) (h : typ.length < 2 ^ 32) :
    wireStep ids r now (.extension typ contents) = r.step now (.extension typ contents) := by
  have hg := getStr_putStr typ contents h
  simp only [wireStep, COp.request, encExtension, processRequest, hg, COp.decode, KR.step,
    show ((27 : UInt8) == 1) = false by decide, show ((27 : UInt8) == 9) = false by decide,
    show ((27 : UInt8) == 18) = false by decide, show ((27 : UInt8) == 19) = false by decide,
    show ((27 : UInt8) == 22) = false by decide, show ((27 : UInt8) == 23) = false by decide,
    show ((27 : UInt8) == 13) = false by decide, show ((27 : UInt8) == 11) = false by decide,
    show ((27 : UInt8) == 17) = false by decide, show ((27 : UInt8) == 25) = false by decide,
    Bool.or_self, beq_self_eq_true, if_true, Bool.false_eq_true, if_false, decExtension]

/-- `client.Signers` is `client.List`: the listed keys' blobs (a locked agent gives none, where the direct
    `keyring.Signers` returns an error — the one place where the two paths differ by design) -/
theorem wire_signers (ids : List Ident) (r : KR) (now : Int)
    (hk : ∀ k ∈ r.keys, WellFormedBlob k.blob ∧ k.comment.length < 2 ^ 32)
    (hn : r.keys.length ≤ maxAgentBytes / 8) :
    wireStep ids r now .signers =
      ((r.list now).1, match (r.list now).2 with
        | .keys ks => .signers (ks.map (·.1))
        | res => res) := by
  have h := wire_list ids r now hk hn
  simp only [wireStep, COp.request, COp.decode] at h ⊢
  have h1 := congrArg Prod.fst h
  have h2 := congrArg Prod.snd h
  simp only at h1 h2
  rw [Prod.ext_iff]
  refine ⟨h1, ?_⟩
  simp only; rw [h2]
  cases (r.list now).2 <;> rfl

-- non-vacuity
example : WellFormedBlob ([0, 0, 0, 1, 65] : Bytes) := ⟨by decide, [65], [], by decide⟩
example : Rel ({} : KR) ({} : Abs) := rel_init
example : NodupBlobs (({} : KR).run [(0, .add ⟨[1], true, [], 0, false, 0⟩), (1, .add ⟨[1], true, [9], 5, false, 0⟩),
    (2, .add ⟨[2], true, [], 0, false, 0⟩)]).1.keys := reachable_nodup _
example : ∀ f ∈ ([⟨1, [11]⟩, ⟨0, []⟩] : List Frame), 0 < f.len → f.body ≠ [] := by
  intro f hf; simp at hf; rcases hf with rfl | rfl <;> simp
example : (({ keys := [], locked := true, pass := [1] } : KR).list 0).2 = .keys [] :=
  (locked_lists_nothing_signs_nothing _ 0 rfl).1
example (b : Bytes) : sigFormat b 0 = some (underlyingFormat (blobFormat b)) := by simp [sigFormat]
example : parseConstraints 7 (encConstraints 5 true []) 0 false 0 = some (5, true, 0) :=
  constraints_roundtrip 5 true [] (by decide) (by simp)

end XC.C43
