/-
  C24 — property theorems (statements over XC.Model.C24; helper lemmas in XC.Proofs.C24_*).

  Statement: Unmarshal(Marshal(m)) = m for every message struct and field value (name-list entries
  without commas, any mpint, rest fields); mpints are minimal two's complement (RFC 4251 §5);
  Unmarshal and the packet decoder are total (value or error, no panic), reject wrong message types
  and trailing bytes.
-/
import XC.Proofs.C24_Codec
namespace XC.C24

/-! ## mpint -/

/-- `marshalInt n` is the RFC 4251 mpint of `n`, for every integer: the body denotes `n` in two's
    complement, has no redundant leading 0x00 / 0xff byte (zero is the empty string), and `intLength`
    is exactly the number of bytes `marshalInt` writes (the pre-sized buffer neither overflows nor
    leaves slack). -/
theorem mpint_minimal (n : Int) :
    twos (intBody n) = n ∧ Minimal (intBody n) = true ∧ intLength n = (marshalInt n).length := by
  refine ⟨intBody_value n, intBody_minimal n, ?_⟩
  simp [marshalInt, u32be_length, intLength_eq_body]

/-- `parseInt` computes the two's complement value of the string contents (independent spec `twos`). -/
theorem parseInt_spec (inp c rest : Bytes) (h : parseString inp = some (c, rest)) :
    parseInt inp = some (twos c, rest) := by
  simp [parseInt, h, intOfBody_eq_twos]

/-- `parseInt ∘ marshalInt = id` for all integers, whatever follows in the buffer. -/
theorem parseInt_marshalInt_id (n : Int) (tl : Bytes) (hlen : (intBody n ++ tl).length < 4294967296) :
    parseInt (marshalInt n ++ tl) = some (n, tl) :=
  parseInt_marshalInt n tl hlen

/-- two minimal encodings of the same integer are equal bytes would need the converse direction;
    what is proved: the encoding is injective (distinct integers never share an encoding). -/
theorem marshalInt_injective (a b : Int) (h : intBody a = intBody b) : a = b := by
  rw [← intBody_value a, ← intBody_value b, h]

example : marshalInt (-128) = [0, 0, 0, 1, 0x80] ∧ marshalInt 128 = [0, 0, 0, 2, 0, 0x80]
    ∧ marshalInt (-129) = [0, 0, 0, 2, 0xff, 0x7f] ∧ marshalInt 0 = [0, 0, 0, 0] := by
  refine ⟨?_, ?_, ?_, ?_⟩ <;> simp [marshalInt, intBody, natBytes, natBytesLE, headD, u32be, natToBE, natToLE] <;> decide

/-! ## Marshal / Unmarshal round trip -/

/-- hypotheses of the round trip: the values fit the struct, a `rest` field is the last field, name-list
    entries are comma-free and the list is not `[""]` (forced: `[""]` marshals like `[]`), and the
    struct's first type byte is not 0 (a 0 tag never matches in `Unmarshal`). -/
structure WF (s : Schema) (vs : List Val) : Prop where
  fields_ne : s.fields ≠ []
  typed : typed vs s.fields = true
  restLast : restLast s.fields = true
  vals : ∀ v ∈ vs, v.WF
  tag : ∀ t ts, s.tags = t :: ts → t ≠ 0

theorem u8_pos_of_ne (t : UInt8) (h : t ≠ 0) : t > 0 := by
  have : t.toNat ≠ 0 := fun hc => h (by
    have := UInt8.toNat_inj.mp (show t.toNat = (0 : UInt8).toNat by simpa using hc); exact this)
  exact UInt8.lt_iff_toNat_lt.mpr (by simp; omega)

/-- Marshal never panics on a struct with at least one field, and Unmarshal of its output gives the
    value back (output shorter than 2^32 bytes and non-empty — the latter only matters for an untagged
    struct whose fields are all empty). -/
theorem unmarshal_marshal (s : Schema) (vs : List Val) (h : WF s vs) :
    ∃ b, marshal s vs = some b ∧
      (b.length < 4294967296 → b ≠ [] → unmarshal s b = .ok vs) := by
  obtain ⟨body, hbody⟩ := marshalFields_isSome vs s.fields h.typed
  have hfe : s.fields.isEmpty = false := by
    cases hf : s.fields with
    | nil => exact absurd hf h.fields_ne
    | cons _ _ => rfl
  refine ⟨s.tags.take 1 ++ body, by simp [marshal, Schema.typeTags, hfe, hbody], ?_⟩
  intro hlen hne
  have hrt : ∀ (hb : body.length < 4294967296), unmarshalFields s.fields body = .ok (vs, []) :=
    fun hb => fields_roundtrip vs s.fields body h.typed h.restLast h.vals hbody hb
  cases ht : s.tags with
  | nil =>
    simp only [ht, List.take_nil, List.nil_append] at hlen hne ⊢
    cases hb : body with
    | nil => exact absurd hb hne
    | cons d0 tl =>
      have := hrt hlen
      rw [hb] at this
      simp [unmarshal, Schema.typeTags, hfe, ht, this]
  | cons t ts =>
    have ht0 := h.tag t ts ht
    simp only [ht, List.take_succ_cons, List.take_zero, List.cons_append, List.nil_append,
      List.length_cons] at hlen ⊢
    have := hrt (by omega)
    have hpos : decide (t > 0) = true := by simpa using u8_pos_of_ne t ht0
    simp [unmarshal, Schema.typeTags, hfe, ht, this, hpos]

/-- the round trip for every tagged struct (all message structs of messages.go are tagged) -/
theorem unmarshal_marshal_tagged (s : Schema) (vs : List Val) (h : WF s vs) (ht : s.tags ≠ []) :
    ∃ b, marshal s vs = some b ∧ (b.length < 4294967296 → unmarshal s b = .ok vs) := by
  obtain ⟨b, hb, hrt⟩ := unmarshal_marshal s vs h
  refine ⟨b, hb, fun hl => hrt hl ?_⟩
  cases hts : s.tags with
  | nil => exact absurd hts ht
  | cons t ts =>
    have hfe : s.fields.isEmpty = false := by
      cases hf : s.fields with
      | nil => exact absurd hf h.fields_ne
      | cons _ _ => rfl
    simp only [marshal, Schema.typeTags, hfe, hts] at hb
    cases hm : marshalFields vs with
    | none => simp [hm] at hb
    | some body => simp [hm] at hb; rw [← hb]; simp

/-- the hypothesis "not the single empty name" is necessary: `[""]` comes back as `[]` -/
example : (marshal ⟨[51], [.names, .bool]⟩ [.names [[]], .bool false]).map (unmarshal ⟨[51], [.names, .bool]⟩)
    = some (.ok [.names [], .bool false]) := by decide

/-- non-vacuity: a KEXINIT-shaped value satisfies WF and round-trips -/
example : WF ⟨[20], [.arr 2, .names, .bool, .u32, .mpint, .rest]⟩
    [.arr [1, 2], .names [[97], [98, 99]], .bool true, .u32 7, .mpint (-129), .rest [9]] := by
  refine ⟨by simp, by decide, by decide, ?_, ?_⟩
  · intro v hv
    simp at hv
    rcases hv with h | h | h | h | h | h <;> subst h <;> simp [Val.WF, NamesWF]
  · intro t ts h; simp at h; rw [← h.1]; decide

/-! ## the message structs of messages.go satisfy the structural part of WF -/

def messageNames : List String := [
  "disconnectMsg", "kexInitMsg", "kexDHInitMsg", "kexECDHInitMsg", "kexECDHReplyMsg", "kexDHReplyMsg",
  "kexDHGexGroupMsg", "kexDHGexInitMsg", "kexDHGexReplyMsg", "kexDHGexRequestMsg", "serviceRequestMsg",
  "serviceAcceptMsg", "extInfoMsg", "userAuthRequestMsg", "userAuthFailureMsg",
  "userAuthBannerMsg", "userAuthInfoRequestMsg", "channelOpenMsg", "channelDataMsg", "channelOpenConfirmMsg",
  "channelOpenFailureMsg", "channelRequestMsg", "channelRequestSuccessMsg", "channelRequestFailureMsg",
  "channelCloseMsg", "channelEOFMsg", "globalRequestMsg", "globalRequestSuccessMsg", "globalRequestFailureMsg",
  "windowAdjustMsg", "userAuthPubKeyOkMsg", "userAuthGSSAPIResponse", "userAuthGSSAPIToken", "userAuthGSSAPIMIC",
  "userAuthGSSAPIErrTok", "userAuthGSSAPIError", "pingMsg", "pongMsg"]

def schemaOK (name : String) : Bool :=
  match schemaOf name with
  | none => false
  | some s => !s.fields.isEmpty && restLast s.fields && (match s.tags with | [t] => t != 0 | _ => false)

/-- every message struct except the field-less userAuthSuccessMsg has ≥ 1 field, a single non-zero
    type byte and `rest` only in last position — so `unmarshal_marshal_tagged` applies to each of them
    for every well-typed value with well-formed name-lists -/
theorem message_schemas_ok : messageNames.all schemaOK = true := by decide

/-! ## totality and rejection -/

theorem unmarshalField_no_panic (k : Kind) (d : Bytes) : unmarshalField k d ≠ .error .panic := by
  cases k <;> simp only [unmarshalField] <;> (try split) <;> (try split) <;> simp

theorem unmarshalFields_no_panic (ks : List Kind) (d : Bytes) : unmarshalFields ks d ≠ .error .panic := by
  induction ks generalizing d with
  | nil => simp [unmarshalFields]
  | cons k ks ih =>
    simp only [unmarshalFields]
    cases hf : unmarshalField k d with
    | error e =>
      have := unmarshalField_no_panic k d
      rw [hf] at this
      simpa using this
    | ok p =>
      obtain ⟨v, r⟩ := p
      simp only
      cases hfs : unmarshalFields ks r with
      | error e =>
        have := ih r
        rw [hfs] at this
        simpa using this
      | ok q => simp

/-- Unmarshal is total (a function into `Except`) and never takes the panic outcome: every struct
    (also the field-less one), every byte string. -/
theorem unmarshal_never_panics (s : Schema) (d : Bytes) : unmarshal s d ≠ .error .panic := by
  unfold unmarshal
  cases d with
  | nil => simp
  | cons d0 tl =>
    simp only
    split
    · rename_i e he
      split at he <;> (try split at he) <;> simp at he
      rw [← he]; simp
    · rename_i b hb
      cases hf : unmarshalFields s.fields b with
      | error e =>
        have := unmarshalFields_no_panic s.fields b
        rw [hf] at this
        simpa using this
      | ok q =>
        obtain ⟨vs, r⟩ := q
        simp only
        split <;> simp

/-- the field-less struct (userAuthSuccessMsg): Marshal gives the empty string, Unmarshal never succeeds
    (the empty input and leftover bytes are both parse errors) — no panic -/
example : unmarshal ⟨[], []⟩ [52] = .error .parse ∧ unmarshal ⟨[], []⟩ [] = .error .parse ∧
    marshal ⟨[], []⟩ [] = some [] := by decide

/-- a first byte that is not one of the struct's type bytes (or is 0) is rejected as a wrong type -/
theorem unmarshal_rejects_wrong_type (s : Schema) (d0 : UInt8) (tl : Bytes)
    (hf : s.fields ≠ []) (ht : s.tags ≠ []) (hbad : d0 ∉ s.tags ∨ d0 = 0) :
    unmarshal s (d0 :: tl) = .error .wrongType := by
  have hfe : s.fields.isEmpty = false := by
    cases hf' : s.fields with
    | nil => exact absurd hf' hf
    | cons _ _ => rfl
  have hte : s.tags.isEmpty = false := by
    cases ht' : s.tags with
    | nil => exact absurd ht' ht
    | cons _ _ => rfl
  have hany : s.tags.any (fun e => decide (e > 0) && d0 == e) = false := by
    rw [List.any_eq_false]
    intro e he
    rcases hbad with hb | hb
    · have : (d0 == e) = false := by
        apply beq_false_of_ne; intro hc; exact hb (hc ▸ he)
      simp [this]
    · subst hb
      by_cases hz : e = 0
      · subst hz; simp
      · have : ((0 : UInt8) == e) = false := beq_false_of_ne (fun hc => hz hc.symm)
        simp [this]
  simp [unmarshal, Schema.typeTags, hfe, hte, hany]

/-- bytes after a complete message are rejected (structs without a `rest` field — a `rest` field is
    by definition "everything that follows") -/
theorem unmarshal_rejects_trailing (s : Schema) (d e : Bytes) (vs : List Val)
    (hok : unmarshal s d = .ok vs) (hnr : Kind.rest ∉ s.fields) (hne : e ≠ [])
    (hlen : (d ++ e).length < 4294967296) :
    unmarshal s (d ++ e) = .error .parse := by
  unfold unmarshal at hok ⊢
  have hee : e.isEmpty = false := by
    cases e with
    | nil => exact absurd rfl hne
    | cons _ _ => rfl
  cases d with
  | nil => simp at hok
  | cons d0 tl =>
    simp only [List.cons_append] at hok ⊢
    by_cases hte : s.typeTags.isEmpty
    · simp only [hte, if_true] at hok ⊢
      cases hf : unmarshalFields s.fields (d0 :: tl) with
      | error er => simp [hf] at hok
      | ok q =>
        obtain ⟨vs', r⟩ := q
        simp only [hf] at hok
        split at hok
        · rename_i hr
          have hr' : r = [] := by simpa using hr
          subst hr'
          have := fields_append s.fields (d0 :: tl) e vs' [] hnr hf hlen
          simp only [List.cons_append, List.nil_append] at this
          simp [this, hee]
        · simp at hok
    · simp only [hte, Bool.false_eq_true, if_false] at hok ⊢
      by_cases hany : s.typeTags.any (fun e => decide (e > 0) && d0 == e)
      · simp only [hany, if_true] at hok ⊢
        cases hf : unmarshalFields s.fields tl with
        | error er => simp [hf] at hok
        | ok q =>
          obtain ⟨vs', r⟩ := q
          simp only [hf] at hok
          split at hok
          · rename_i hr
            have hr' : r = [] := by simpa using hr
            subst hr'
            have := fields_append s.fields tl e vs' [] hnr hf (by simp at hlen ⊢; omega)
            simp only [List.nil_append] at this
            simp [this, hee]
          · simp at hok
      · simp [hany] at hok

example : unmarshal ⟨[93], [.u32, .u32]⟩ [93, 0, 0, 0, 1, 0, 0, 0, 2] = .ok [.u32 1, .u32 2] ∧
    unmarshal ⟨[93], [.u32, .u32]⟩ [93, 0, 0, 0, 1, 0, 0, 0, 2, 0] = .error .parse ∧
    unmarshal ⟨[93], [.u32, .u32]⟩ [94, 0, 0, 0, 1, 0, 0, 0, 2] = .error .wrongType := by decide

/-! ## the packet decoder -/

theorem decodeType_schema (t : UInt8) (name : String) (h : decodeType t = some name) :
    ∃ s, schemaOf name = some s := by
  unfold decodeType at h
  split at h <;> simp at h <;> subst h <;> simp [schemaOf]

/-- `decode` returns a message or an error for EVERY packet, the empty one included. -/
theorem decode_never_panics (p : Bytes) : decode p ≠ .error .panic := by
  cases p with
  | nil => simp [decode]
  | cons t tl =>
    simp only [decode]
    cases hd : decodeType t with
    | none => simp
    | some name =>
      simp only
      by_cases h52 : t = 52
      · simp only [h52, beq_self_eq_true, if_true]; split <;> simp
      · have hne : (t == 52) = false := beq_false_of_ne h52
        simp only [hne, Bool.false_eq_true, if_false]
        obtain ⟨s, hs⟩ := decodeType_schema t name hd
        simp only [hs]
        cases hu : unmarshal s (t :: tl) with
        | error e =>
          have := unmarshal_never_panics s (t :: tl)
          rw [hu] at this
          simpa using this
        | ok vs => simp

/-- the empty packet is a short read -/
theorem decode_empty : decode [] = .error .short := rfl

/-- SSH_MSG_USERAUTH_SUCCESS carries no data: anything behind the type byte is rejected -/
theorem decode_success_rejects_trailing (tl : Bytes) (h : tl ≠ []) : decode (52 :: tl) = .error .parse := by
  have : tl.isEmpty = false := by
    cases tl with
    | nil => exact absurd rfl h
    | cons _ _ => rfl
  simp [decode, decodeType, this]

example : decode [52] = .ok ("userAuthSuccessMsg", []) := by decide

/-- unknown packet types are rejected -/
theorem decode_rejects_unknown (t : UInt8) (tl : Bytes) (h : decodeType t = none) :
    decode (t :: tl) = .error .wrongType := by
  simp [decode, h]


/-- bytes behind a complete packet are rejected by the decoder too (message types without a `rest` field;
    type 52 is `decode_success_rejects_trailing`) -/
theorem decode_rejects_trailing (p e : Bytes) (name : String) (vs : List Val) (s : Schema)
    (hok : decode p = .ok (name, vs)) (hs : schemaOf name = some s) (hnr : Kind.rest ∉ s.fields)
    (hne : e ≠ []) (hlen : (p ++ e).length < 4294967296) :
    ∃ er, decode (p ++ e) = .error er := by
  cases p with
  | nil => simp [decode] at hok
  | cons t tl =>
    simp only [decode, List.cons_append] at hok ⊢
    cases hd : decodeType t with
    | none => simp [hd] at hok
    | some nm =>
      simp only [hd] at hok ⊢
      by_cases h52 : t = 52
      · subst h52
        have hee : (tl ++ e).isEmpty = false := by
          cases tl <;> cases e <;> simp_all
        simp [hee]
      · have hne52 : (t == 52) = false := beq_false_of_ne h52
        simp only [hne52, Bool.false_eq_true, if_false] at hok ⊢
        cases hsn : schemaOf nm with
        | none => simp [hsn] at hok
        | some s' =>
          simp only [hsn] at hok ⊢
          cases hu : unmarshal s' (t :: tl) with
          | error er => simp [hu] at hok
          | ok vs' =>
            simp only [hu, Except.ok.injEq, Prod.mk.injEq] at hok
            obtain ⟨hn, _⟩ := hok
            subst hn
            rw [hs] at hsn
            simp only [Option.some.injEq] at hsn
            subst hsn
            have := unmarshal_rejects_trailing s (t :: tl) e vs' hu hnr hne (by simpa using hlen)
            simp only [List.cons_append] at this
            exact ⟨.parse, by simp [this]⟩

/-! ## non-vacuity: concrete instances of the main statements -/

example : parseInt (marshalInt (-32769) ++ [7]) = some (-32769, [7]) ∧ intLength (-32769) = 7 ∧
    twos [0xff, 0x7f, 0xff] = -32769 := by
  refine ⟨parseInt_marshalInt_id (-32769) [7] (by decide +kernel), by decide +kernel, by decide +kernel⟩

example : decode [93, 0, 0, 0, 1, 0, 0, 0, 2] = .ok ("windowAdjustMsg", [.u32 1, .u32 2]) ∧
    decode [93, 0, 0, 0, 1, 0, 0, 0, 2, 9] = .error .parse ∧ decode [] = .error .short ∧
    decode [52, 0] = .error .parse ∧ decode [200] = .error .wrongType := by decide

example : ∃ er, decode ([93, 0, 0, 0, 1, 0, 0, 0, 2] ++ [9]) = .error er :=
  decode_rejects_trailing [93, 0, 0, 0, 1, 0, 0, 0, 2] [9] "windowAdjustMsg" [.u32 1, .u32 2] ⟨[93], [.u32, .u32]⟩
    (by decide) (by decide) (by decide) (by decide) (by decide)

example : unmarshal ⟨[20, 21], [.u8]⟩ [0, 5] = .error .wrongType :=
  unmarshal_rejects_wrong_type ⟨[20, 21], [.u8]⟩ 0 [5] (by decide) (by decide) (Or.inr rfl)

end XC.C24
