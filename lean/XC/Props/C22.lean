/-
  C22 — property theorems for cryptobyte.Builder ↔ String (model: XC.Model.C22, spec + lemmas: XC.Proofs.C22).
-/
import XC.Proofs.C22
namespace XC.C22
open XC.C23

/-! ### 1. the Go-shaped builder computes the compositional encoding -/

/-- Growable builder, misuse-free program: the buffer-patching interpreter (reserve zero length bytes, run the
    continuation on the shared buffer, patch by the `l >>= 8` loop / promote ASN.1 lengths by append+shift)
    returns exactly `pre ++ enc p`, and reports an error exactly when the specification has no encoding. -/
theorem build_eq_enc (pre : Bytes) (p : List Prog) (hs : simpleL p = true) :
    build none pre p = match encL p with
      | some e => .ok (pre ++ e)
      | none => .err := by
  obtain ⟨b', hr, _, _, hpost⟩ := runL_spec true p ⟨pre, false, 0, 0⟩ hs rfl
  unfold build
  rw [hr]
  cases he : encL p with
  | none => rw [he] at hpost; simp [hpost]
  | some e => rw [he] at hpost; simp [hpost.1, hpost.2]

/-! ### 2. errors exactly on length-prefix overflow (or an unsupported tag) -/

theorem build_err_iff (pre : Bytes) (p : List Prog) (hs : simpleL p = true) :
    build none pre p = .err ↔ encL p = none := by
  rw [build_eq_enc pre p hs]
  cases encL p <;> simp

/-- a list fails iff one of its items fails -/
theorem encL_none_iff (ps : List Prog) : encL ps = none ↔ ∃ p ∈ ps, encP p = none := by
  induction ps with
  | nil => simp [encL]
  | cons p ps ih =>
    simp only [encL, List.mem_cons, exists_eq_or_imp]
    cases hp : encP p <;> cases hl : encL ps <;> simp_all

/-- a k-byte length-prefixed child fails iff its body fails or is ≥ 2^(8k) bytes long -/
theorem encP_lp_none_iff (k : Nat) (body : List Prog) :
    encP (.lp k body) = none ↔ encL body = none ∨ ∃ c, encL body = some c ∧ 256 ^ k ≤ c.length := by
  simp only [encP]
  cases encL body with
  | none => simp
  | some c => by_cases h : c.length < 256 ^ k <;> simp [h] <;> omega

/-- an ASN.1 child fails iff the tag is in high-tag-number form, its body fails or is longer than 0xfffffffe -/
theorem encP_asn1_none_iff (t : UInt8) (body : List Prog) :
    encP (.asn1 t body) = none ↔
      (t &&& 0x1f == 0x1f) = true ∨ encL body = none ∨ ∃ c, encL body = some c ∧ 0xfffffffe < c.length := by
  simp only [encP]
  by_cases ht : (t &&& 0x1f == 0x1f) = true
  · simp [ht]
  · cases encL body with
    | none => simp [ht]
    | some c => by_cases h : c.length > 0xfffffffe <;> simp [ht, h] <;> omega

/-- leaves never fail -/
theorem encP_leaf (p : Prog) (l : Nat) (h : simpleLen p = some l) : ∃ e, encP p = some e ∧ e.length = l := by
  cases p with
  | uint w v => simp only [simpleLen, Option.some.injEq] at h; exact ⟨_, rfl, by rw [natToBE_length, h]⟩
  | bytes bs => simp only [simpleLen, Option.some.injEq] at h; exact ⟨_, rfl, h⟩
  | value ok bs =>
    cases ok
    · simp [simpleLen] at h
    · simp only [simpleLen, Option.some.injEq] at h; exact ⟨_, rfl, h⟩
  | _ => simp [simpleLen] at h

/-! ### 3. round trip: the mirrored String reads recover every value with nothing left over -/

mutual
theorem normP_simple : (p : Prog) → simpleP p = true → normP p = some p
  | .uint _ _, _ => rfl
  | .bytes _, _ => rfl
  | .value true _, _ => rfl
  | .value false _, h => by simp [simpleP] at h
  | .unwrite _, h => by simp [simpleP] at h
  | .seterr, h => by simp [simpleP] at h
  | .throw, h => by simp [simpleP] at h
  | .pwrite, h => by simp [simpleP] at h
  | .lp k body, h => by
    have := normL_simple body [] (by simpa [simpleP] using h)
    simp [normP, this]
  | .asn1 t body, h => by
    have := normL_simple body [] (by simpa [simpleP] using h)
    simp [normP, this]
theorem normL_simple : (ps stk : List Prog) → simpleL ps = true → normL ps stk = some (stk.reverse ++ ps)
  | [], stk, _ => by simp [normL]
  | p :: ps, stk, h => by
    simp only [simpleL, Bool.and_eq_true] at h
    have h1 := normP_simple p h.1
    have h2 := normL_simple ps (p :: stk) h.2
    cases p with
    | unwrite n => simp [simpleP] at h
    | _ => simp [normL, h1, h2]
end

/-- **Round trip.**  If a growable builder (initial buffer `pre`) runs a misuse-free program and `Bytes()`
    returns `bs`, the mirrored reads consume `bs` completely and find every value written.
    The bound on `bs` is forced by the proof: `readASN1` rejects elements whose header+length wraps a
    uint32 (`len32 > 0xfffffff9`) while the builder accepts children up to `0xfffffffe` bytes. -/
theorem build_roundtrip (pre : Bytes) (p : List Prog) (bs : Bytes) (hs : simpleL p = true)
    (hb : build none pre p = .ok bs) (hlen : bs.length ≤ 0xfffffff9) :
    ∃ q, mirror pre p = some q ∧ roundTrips q bs = true := by
  rw [build_eq_enc pre p hs] at hb
  cases he : encL p with
  | none => simp [he] at hb
  | some e =>
    simp only [he, Result.ok.injEq] at hb
    subst hb
    have hel : e.length ≤ 0xfffffff9 := by simp at hlen; omega
    have hp := parseL_enc p e [] he hel
    rw [List.append_nil] at hp
    by_cases hpre : pre.isEmpty = true
    · have : pre = [] := by simpa using hpre
      subst this
      refine ⟨p, by simp [mirror, normL_simple p [] hs], ?_⟩
      simp [roundTrips, hp]
    · refine ⟨.bytes pre :: p, by simp [mirror, hpre, normL_simple p _ hs], ?_⟩
      have : parseP (.bytes pre) (pre ++ e) = some e := by
        simp [parseP, read_append pre e _ rfl]
      simp [roundTrips, parseL, this, hp]

/-! ### 4. ASN.1 length octets are DER-minimal -/

/-- `derLen n` (what flushChild emits, by `flush_asn1`) is the short form below 128 and otherwise the long
    form with the least possible number of length octets (no leading zero octet) -/
theorem derLen_minimal (n : Nat) (h : n < 2 ^ 32) :
    (n < 128 ∧ derLen n = [UInt8.ofNat n]) ∨
    (∃ k, 1 ≤ k ∧ k ≤ 4 ∧ derLen n = UInt8.ofNat (0x80 + k) :: natToBE k n ∧
      128 ≤ n ∧ 256 ^ (k - 1) ≤ n ∧ n < 256 ^ k) := by
  unfold derLen
  by_cases g1 : n < 0x80
  · left; simp [g1]
  · right
    by_cases g2 : n < 0x100
    · exact ⟨1, by omega, by omega, by simp [g1, g2], by omega, by simp; omega, by omega⟩
    · by_cases g3 : n < 0x10000
      · exact ⟨2, by omega, by omega, by simp [g1, g2, g3], by omega, by simp; omega, by omega⟩
      · by_cases g4 : n < 0x1000000
        · exact ⟨3, by omega, by omega, by simp [g1, g2, g3, g4], by omega, by simp; omega, by omega⟩
        · exact ⟨4, by omega, by omega, by simp [g1, g2, g3, g4], by omega, by simp; omega, by omega⟩

/-- and the reader accepts exactly this header for this body (so the emitted header is THE DER header) -/
theorem asn1_header_reads_back (t : UInt8) (body rest : Bytes) (ht : (t &&& 0x1f == 0x1f) = false)
    (hn : body.length ≤ 0xfffffff9) :
    readASN1Tag t (t :: (derLen body.length ++ body ++ rest)) = some (body, rest) :=
  readASN1Tag_der t body rest ht hn

/-! ### 5. every program (Unwrite, SetError, failing AddValue, panicking continuations, any capacity) -/

/-- a fixed-size builder never returns more than its capacity (it cannot have reallocated) -/
theorem fixed_le_cap (cap : Nat) (pre : Bytes) (p : List Prog) (bs : Bytes) (hpre : pre.length ≤ cap)
    (hb : build (some cap) pre p = .ok bs) : bs.length ≤ cap := by
  have hw : WF (some cap) ⟨pre, false, 0, 0⟩ := ⟨by simp, by intro c hc; cases hc; exact hpre⟩
  have := runL_inv (some cap) true p _ hw
  unfold build at hb
  cases hr : runL (some cap) true p ⟨pre, false, 0, 0⟩ with
  | ok b =>
    rw [hr] at this hb
    by_cases he : b.err = true
    · simp [he] at hb
    · simp only [he, Bool.false_eq_true, if_false, Result.ok.injEq] at hb
      subst hb
      exact this.1.2 cap rfl
  | panic i => rw [hr] at hb; simp at hb
  | thrown => rw [hr] at hb; simp at hb

/-- the "cryptobyte: internal error" panics are unreachable, for every program and every builder kind -/
theorem no_internal_panic (cap : Option Nat) (pre : Bytes) (p : List Prog)
    (hpre : ∀ c, cap = some c → pre.length ≤ c) : build cap pre p ≠ .panic true := by
  have hw : WF cap ⟨pre, false, 0, 0⟩ := ⟨by simp, hpre⟩
  have := runL_inv cap true p _ hw
  unfold build
  cases hr : runL cap true p ⟨pre, false, 0, 0⟩ with
  | ok b => by_cases he : b.err = true <;> simp [he]
  | panic i => rw [hr] at this; simp [Good] at this; simp [this]
  | thrown => simp

/-- Unwrite(n) directly after writing an n-byte value restores the builder (basis of `mirror`'s Unwrite
    elimination) -/
theorem unwrite_cancels (top : Bool) (p : Prog) (l : Nat) (b : B) (hl : simpleLen p = some l)
    (he : b.err = false) (hw : WF none b) :
    runL none top [p, .unwrite l] b = .ok b := by
  obtain ⟨e, hpe, hlen⟩ := encP_leaf p l hl
  have hs : simpleP p = true := by
    cases p with
    | value ok bs => cases ok <;> simp_all [simpleLen, simpleP]
    | _ => simp_all [simpleLen, simpleP]
  obtain ⟨b1, h1, ho, hp, hpost⟩ := runP_spec top p b hs he
  rw [hpe] at hpost
  obtain ⟨hw1, _⟩ := hw
  obtain ⟨res, err, off, pll⟩ := b
  obtain ⟨res1, err1, off1, pll1⟩ := b1
  simp only at ho hp hpost he hw1
  obtain ⟨he1, hr1⟩ := hpost
  subst ho hp he he1 hr1
  simp only [runL, h1, runP, Bool.false_eq_true, if_false, List.length_append]
  have c1 : ¬ (res.length + e.length < pll1 + off1) := by omega
  have c2 : ¬ ((l : Int) < 0) := by omega
  have c3 : ¬ ((l : Int).toNat > res.length + e.length - pll1 - off1) := by simp; omega
  simp only [c1, c2, c3, if_false, Int.toNat_natCast]
  have c3' : ¬ (res.length + e.length - pll1 - off1 < l) := by omega
  have : res.length + e.length - l = res.length := by omega
  simp [this, c3']

/-! ### non-vacuity -/

set_option maxRecDepth 100000 in
/-- a nested program crossing the 127/128 ASN.1 threshold inside a 16-bit length prefix -/
example :
    build none [0xaa] [.uint 1 7, .lp 2 [.asn1 0x30 [.bytes (List.replicate 128 1)], .uint 3 0x01020304]] =
      .ok ([0xaa, 7, 0x00, 0x86, 0x30, 0x81, 0x80] ++ List.replicate 128 1 ++ [2, 3, 4]) := by
  decide

set_option maxRecDepth 100000 in
/-- overflow of an 8-bit length prefix is an error -/
example : build none [] [.lp 1 [.bytes (List.replicate 256 0)]] = .err := by decide

/-- fixed builder with exactly enough room succeeds, one byte less is an error -/
example : build (some 4) [] [.lp 1 [.uint 2 5], .uint 1 9] = .ok [2, 0, 5, 9] := by decide
example : build (some 3) [] [.lp 1 [.uint 2 5], .uint 1 9] = .err := by decide

end XC.C22
