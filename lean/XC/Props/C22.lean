/-
  C22 — property theorems for cryptobyte.Builder ↔ String (model: XC.Model.C22, spec + lemmas: XC.Proofs.C22).
-/
import XC.Proofs.C22
namespace XC.C22
open XC.C23

/-! ### 1. the Go-shaped builder computes the compositional encoding -/

/-- Growable builder, misuse-free program: the buffer-patching interpreter (reserve zero length bytes, run the
    continuation on the shared buffer, patch by the `l >>= 8` loop / promote ASN.1 lengths by append+shift)
    returns exactly `pre ++ enc p`, and reports an error exactly when the specification has no encoding. -/
theorem build_eq_enc (pre : Bytes) (p : List Prog) (hs : simpleL p = true) :
    build none pre p = match encL p with
      | some e => .ok (pre ++ e)
      | none => .err := by
  obtain ⟨b', hr, _, _, hpost⟩ := runL_spec true p ⟨pre, false, 0, 0⟩ hs rfl
  unfold build
  rw [hr]
  cases he : encL p with
  | none => rw [he] at hpost; simp [hpost]
  | some e => rw [he] at hpost; simp [hpost.1, hpost.2]

/-! ### 2. errors exactly on length-prefix overflow (or an unsupported tag) -/

theorem build_err_iff (pre : Bytes) (p : List Prog) (hs : simpleL p = true) :
    build none pre p = .err ↔ encL p = none := by
  rw [build_eq_enc pre p hs]
  cases encL p <;> simp

/-- a list fails iff one of its items fails -/
theorem encL_none_iff (ps : List Prog) : encL ps = none ↔ ∃ p ∈ ps, encP p = none := by
  induction ps with
  | nil => simp [encL]
  | cons p ps ih =>
    simp only [encL, List.mem_cons, exists_eq_or_imp]
    cases hp : encP p <;> cases hl : encL ps <;> simp_all

/-- a k-byte length-prefixed child fails iff its body fails or is ≥ 2^(8k) bytes long -/
theorem encP_lp_none_iff (k : Nat) (body : List Prog) :
    encP (.lp k body) = none ↔ encL body = none ∨ ∃ c, encL body = some c ∧ 256 ^ k ≤ c.length := by
  simp only [encP]
  cases encL body with
  | none => simp
  | some c => by_cases h : c.length < 256 ^ k <;> simp [h] <;> omega

/-- an ASN.1 child fails iff the tag is in high-tag-number form, its body fails or is longer than 0xfffffffe -/
theorem encP_asn1_none_iff (t : UInt8) (body : List Prog) :
    encP (.asn1 t body) = none ↔
      (t &&& 0x1f == 0x1f) = true ∨ encL body = none ∨ ∃ c, encL body = some c ∧ 0xfffffffe < c.length := by
  simp only [encP]
  by_cases ht : (t &&& 0x1f == 0x1f) = true
  · simp [ht]
  · cases encL body with
    | none => simp [ht]
    | some c => by_cases h : c.length > 0xfffffffe <;> simp [ht, h] <;> omega

/-- leaves never fail -/
theorem encP_leaf (p : Prog) (l : Nat) (h : simpleLen p = some l) : ∃ e, encP p = some e ∧ e.length = l := by
  cases p with
  | uint w v => simp only [simpleLen, Option.some.injEq] at h; exact ⟨_, rfl, by rw [natToBE_length, h]⟩
  | bytes bs => simp only [simpleLen, Option.some.injEq] at h; exact ⟨_, rfl, h⟩
  | value ok bs =>
    cases ok
    · simp [simpleLen] at h
    · simp only [simpleLen, Option.some.injEq] at h; exact ⟨_, rfl, h⟩
  | _ => simp [simpleLen] at h

/-! ### 3. round trip: the mirrored String reads recover every value with nothing left over -/

mutual
theorem normP_simple : (p : Prog) → simpleP p = true → normP p = some p
  | .uint _ _, _ => rfl
  | .bytes _, _ => rfl
  | .value true _, _ => rfl
  | .value false _, h => by simp [simpleP] at h
  | .unwrite _, h => by simp [simpleP] at h
  | .seterr, h => by simp [simpleP] at h
  | .throw, h => by simp [simpleP] at h
  | .pwrite, h => by simp [simpleP] at h
  | .lp k body, h => by
    have := normL_simple body [] (by simpa [simpleP] using h)
    simp [normP, this]
  | .asn1 t body, h => by
    have := normL_simple body [] (by simpa [simpleP] using h)
    simp [normP, this]
theorem normL_simple : (ps stk : List Prog) → simpleL ps = true → normL ps stk = some (stk.reverse ++ ps)
  | [], stk, _ => by simp [normL]
  | p :: ps, stk, h => by
    simp only [simpleL, Bool.and_eq_true] at h
    have h1 := normP_simple p h.1
    have h2 := normL_simple ps (p :: stk) h.2
    cases p with
    | unwrite n => simp [simpleP] at h
    | _ => simp [normL, h1, h2]
end

/-- **Round trip.**  If a growable builder (initial buffer `pre`) runs a misuse-free program and `Bytes()`
    returns `bs`, the mirrored reads consume `bs` completely and find every value written.
    The bound on `bs` is forced by the proof: `readASN1` rejects elements whose header+length wraps a
    uint32 (`len32 > 0xfffffff9`) while the builder accepts children up to `0xfffffffe` bytes. -/
theorem build_roundtrip (pre : Bytes) (p : List Prog) (bs : Bytes) (hs : simpleL p = true)
    (hb : build none pre p = .ok bs) (hlen : bs.length ≤ 0xfffffff9) :
    ∃ q, mirror pre p = some q ∧ roundTrips q bs = true := by
  rw [build_eq_enc pre p hs] at hb
  cases he : encL p with
  | none => simp [he] at hb
  | some e =>
    simp only [he, Result.ok.injEq] at hb
    subst hb
    have hel : e.length ≤ 0xfffffff9 := by simp at hlen; omega
    have hp := parseL_enc p e [] he hel
    rw [List.append_nil] at hp
    by_cases hpre : pre.isEmpty = true
    · have : pre = [] := by simpa using hpre
      subst this
      refine ⟨p, by simp [mirror, normL_simple p [] hs], ?_⟩
      simp [roundTrips, hp]
    · refine ⟨.bytes pre :: p, by simp [mirror, hpre, normL_simple p _ hs], ?_⟩
      have : parseP (.bytes pre) (pre ++ e) = some e := by
        simp [parseP, read_append pre e _ rfl]
      simp [roundTrips, parseL, this, hp]

/-! ### 4. ASN.1 length octets are DER-minimal -/

/-- `derLen n` (what flushChild emits, by `flush_asn1`) is the short form below 128 and otherwise the long
    form with the least possible number of length octets (no leading zero octet) -/
theorem derLen_minimal (n : Nat) (h : n < 2 ^ 32) :
    (n < 128 ∧ derLen n = [UInt8.ofNat n]) ∨
    (∃ k, 1 ≤ k ∧ k ≤ 4 ∧ derLen n = UInt8.ofNat (0x80 + k) :: natToBE k n ∧
      128 ≤ n ∧ 256 ^ (k - 1) ≤ n ∧ n < 256 ^ k) := by
  unfold derLen
  by_cases g1 : n < 0x80
  · left; simp [g1]
  · right
    by_cases g2 : n < 0x100
    · exact ⟨1, by omega, by omega, by simp [g1, g2], by omega, by simp; omega, by omega⟩
    · by_cases g3 : n < 0x10000
      · exact ⟨2, by omega, by omega, by simp [g1, g2, g3], by omega, by simp; omega, by omega⟩
      · by_cases g4 : n < 0x1000000
        · exact ⟨3, by omega, by omega, by simp [g1, g2, g3, g4], by omega, by simp; omega, by omega⟩
        · exact ⟨4, by omega, by omega, by simp [g1, g2, g3, g4], by omega, by simp; omega, by omega⟩

/-- and the reader accepts exactly this header for this body (so the emitted header is THE DER header) -/
theorem asn1_header_reads_back (t : UInt8) (body rest : Bytes) (ht : (t &&& 0x1f == 0x1f) = false)
    (hn : body.length ≤ 0xfffffff9) :
    readASN1Tag t (t :: (derLen body.length ++ body ++ rest)) = some (body, rest) :=
  readASN1Tag_der t body rest ht hn

/-! ### 5. every program (Unwrite, SetError, failing AddValue, panicking continuations, any capacity) -/

/-- a fixed-size builder never returns more than its capacity (it cannot have reallocated) -/
theorem fixed_le_cap (cap : Nat) (pre : Bytes) (p : List Prog) (bs : Bytes) (hpre : pre.length ≤ cap)
    (hb : build (some cap) pre p = .ok bs) : bs.length ≤ cap := by
  have hw : WF (some cap) ⟨pre, false, 0, 0⟩ := ⟨by simp, by intro c hc; cases hc; exact hpre⟩
  have := runL_inv (some cap) true p _ hw
  unfold build at hb
  cases hr : runL (some cap) true p ⟨pre, false, 0, 0⟩ with
  | ok b =>
    rw [hr] at this hb
    by_cases he : b.err = true
    · simp [he] at hb
    · simp only [he, Bool.false_eq_true, if_false, Result.ok.injEq] at hb
      subst hb
      exact this.1.2 cap rfl
  | panic i => rw [hr] at hb; simp at hb
  | thrown => rw [hr] at hb; simp at hb

/-- the "cryptobyte: internal error" panics are unreachable, for every program and every builder kind -/
theorem no_internal_panic (cap : Option Nat) (pre : Bytes) (p : List Prog)
    (hpre : ∀ c, cap = some c → pre.length ≤ c) : build cap pre p ≠ .panic true := by
  have hw : WF cap ⟨pre, false, 0, 0⟩ := ⟨by simp, hpre⟩
  have := runL_inv cap true p _ hw
  unfold build
  cases hr : runL cap true p ⟨pre, false, 0, 0⟩ with
  | ok b => by_cases he : b.err = true <;> simp [he]
  | panic i => rw [hr] at this; simp [Good] at this; simp [this]
  | thrown => simp

/-- Unwrite(n) directly after writing an n-byte value restores the builder (basis of `mirror`'s Unwrite
    elimination) -/
theorem unwrite_cancels (top : Bool) (p : Prog) (l : Nat) (b : B) (hl : simpleLen p = some l)
    (he : b.err = false) (hw : WF none b) :
    runL none top [p, .unwrite l] b = .ok b := by
  obtain ⟨e, hpe, hlen⟩ := encP_leaf p l hl
  have hs : simpleP p = true := by
    cases p with
    | value ok bs => cases ok <;> simp_all [simpleLen, simpleP]
    | _ => simp_all [simpleLen, simpleP]
  obtain ⟨b1, h1, ho, hp, hpost⟩ := runP_spec top p b hs he
  rw [hpe] at hpost
  obtain ⟨hw1, _⟩ := hw
  obtain ⟨res, err, off, pll⟩ := b
  obtain ⟨res1, err1, off1, pll1⟩ := b1
  simp only at ho hp hpost he hw1
  obtain ⟨he1, hr1⟩ := hpost
  subst ho hp he he1 hr1
  simp only [runL, h1, runP, Bool.false_eq_true, if_false, List.length_append]
  have c1 : ¬ (res.length + e.length < pll1 + off1) := by omega
  have c2 : ¬ ((l : Int) < 0) := by omega
  have c3 : ¬ ((l : Int).toNat > res.length + e.length - pll1 - off1) := by simp; omega
  simp only [c1, c2, c3, if_false, Int.toNat_natCast]
  have c3' : ¬ (res.length + e.length - pll1 - off1 < l) := by omega
  have : res.length + e.length - l = res.length := by omega
  simp [this, c3']

/-! ### 6. fixed-size builders: the exact result -/

/-- a fixed-size builder returns exactly what the growable one returns when that fits the capacity, and an
    error otherwise (never a panic, never truncated output) -/
theorem fixed_build_eq (cap : Nat) (pre : Bytes) (p : List Prog) (hs : simpleL p = true) (hpre : pre.length ≤ cap) :
    build (some cap) pre p = match encL p with
      | some e => if pre.length + e.length ≤ cap then .ok (pre ++ e) else .err
      | none => .err := by
  obtain ⟨b', hr, _, _, hpost⟩ := runL_specC (some cap) true p ⟨pre, false, 0, 0⟩ hs rfl
    (by simpa [fitsB] using hpre)
  unfold build
  rw [hr]
  cases he : encL p with
  | none => rw [he] at hpost; simp [hpost]
  | some e =>
    rw [he] at hpost
    simp only [fitsB, decide_eq_true_eq] at hpost
    by_cases hf : pre.length + e.length ≤ cap
    · rw [if_pos hf] at hpost; simp [hpost.1, hpost.2, hf]
    · rw [if_neg hf] at hpost; simp [hpost, hf]

/-- **fixed_err_iff**: Bytes() of a fixed-size builder errs iff the growable run errs or its output exceeds cap -/
theorem fixed_err_iff (cap : Nat) (pre : Bytes) (p : List Prog) (hs : simpleL p = true) (hpre : pre.length ≤ cap) :
    build (some cap) pre p = .err ↔
      build none pre p = .err ∨ ∃ bs, build none pre p = .ok bs ∧ cap < bs.length := by
  rw [fixed_build_eq cap pre p hs hpre, build_eq_enc pre p hs]
  cases encL p with
  | none => simp
  | some e =>
    by_cases hf : pre.length + e.length ≤ cap
    · simp [hf]
    · simp [hf]; omega

theorem fixed_ok_iff (cap : Nat) (pre : Bytes) (p : List Prog) (bs : Bytes) (hs : simpleL p = true)
    (hpre : pre.length ≤ cap) :
    build (some cap) pre p = .ok bs ↔ build none pre p = .ok bs ∧ bs.length ≤ cap := by
  rw [fixed_build_eq cap pre p hs hpre, build_eq_enc pre p hs]
  cases encL p with
  | none => simp
  | some e =>
    by_cases hf : pre.length + e.length ≤ cap
    · simp only [hf, if_true, Result.ok.injEq]
      constructor
      · rintro rfl; exact ⟨rfl, by simpa using hf⟩
      · rintro ⟨rfl, _⟩; rfl
    · simp only [hf, if_false, Result.ok.injEq, false_iff, not_and, reduceCtorEq]
      rintro rfl; simpa using hf

/-! ### 7. Unwrite elimination: a program with Unwrite builds what its `mirror` (Unwrite-free) program builds -/

theorem encL_append : ∀ (xs ys : List Prog), encL (xs ++ ys) =
    match encL xs, encL ys with
    | some a, some b => some (a ++ b)
    | _, _ => none
  | [], ys => by cases h : encL ys <;> simp [encL, h]
  | x :: xs, ys => by
    simp only [List.cons_append, encL, encL_append xs ys]
    cases encP x <;> cases encL xs <;> cases encL ys <;> simp

theorem encL_singleton (p : Prog) : encL [p] = encP p := by
  simp only [encL]; cases encP p <;> simp

/-- what `popN n` removes: whole directly-written values of total length `n` -/
theorem popN_spec : ∀ (n : Nat) (stk stk' : List Prog), popN n stk = some stk' →
    ∃ popped t, stk = popped ++ stk' ∧ encL popped.reverse = some t ∧ t.length = n ∧
      ∀ x ∈ popped, ∃ e, encP x = some e
  | 0, stk, stk', h => by
    simp only [popN, Option.some.injEq] at h; subst h
    exact ⟨[], [], rfl, rfl, rfl, by simp⟩
  | n + 1, [], stk', h => by simp [popN] at h
  | n + 1, p :: stk, stk', h => by
    simp only [popN] at h
    cases hl : simpleLen p with
    | none => simp [hl] at h
    | some l =>
      simp only [hl] at h
      by_cases hle : l ≤ n + 1
      · rw [if_pos hle] at h
        obtain ⟨popped, t, h1, h2, h3, h4⟩ := popN_spec (n + 1 - l) stk stk' h
        obtain ⟨e, he, hel⟩ := encP_leaf p l hl
        refine ⟨p :: popped, t ++ e, by rw [h1]; rfl, ?_, by simp [h3, hel]; omega, ?_⟩
        · rw [List.reverse_cons, encL_append, h2, encL_singleton, he]
        · intro x hx
          simp only [List.mem_cons] at hx
          rcases hx with rfl | hx
          · exact ⟨e, he⟩
          · exact h4 x hx
      · rw [if_neg hle] at h; cases h
termination_by n stk => stk.length

theorem normL_unwrite (n : Int) (ps stk : List Prog) :
    normL (.unwrite n :: ps) stk = if n < 0 then none else
      match popN n.toNat stk with
      | some stk' => normL ps stk'
      | none => none := by rw [normL]; rfl

theorem normL_cons (p : Prog) (ps stk : List Prog) (h : ∀ n, p ≠ .unwrite n) :
    normL (p :: ps) stk = match normP p with
      | some q => normL ps (q :: stk)
      | none => none := by
  cases p with
  | unwrite n => exact absurd rfl (h n)
  | _ =>
    rw [normL]
    all_goals first | (intro n hn; cases hn) | rfl | (split <;> rfl)

/-- once a builder has an error every mirrorable program is a no-op on it -/
theorem norm_noop (top : Bool) : ∀ (ps stk q : List Prog) (b : B), normL ps stk = some q → b.err = true →
    runL none top ps b = .ok b
  | [], _, _, b, _, _ => by simp [runL]
  | p :: ps, stk, q, b, h, he => by
    by_cases hu : ∃ n, p = .unwrite n
    · obtain ⟨n, rfl⟩ := hu
      rw [normL_unwrite] at h
      by_cases hn : n < 0
      · simp [hn] at h
      · rw [if_neg hn] at h
        cases hp : popN n.toNat stk with
        | none => simp [hp] at h
        | some stk' =>
          simp only [hp] at h
          simp [runL, runP, he, norm_noop top ps stk' q b h he]
    · have hu' : ∀ n, p ≠ .unwrite n := fun n hn => hu ⟨n, hn⟩
      rw [normL_cons p ps stk hu'] at h
      cases hp : normP p with
      | none => simp [hp] at h
      | some q' =>
        simp only [hp] at h
        have hrun : runP none top p b = .ok b := by
          cases p with
          | value ok bs => cases ok <;> simp_all [runP, add, normP]
          | _ => simp_all [runP, add, normP]
        simp [runL, hrun, norm_noop top ps (q' :: stk) q b h he]

/-- an item that cannot be encoded is never removed by Unwrite elimination -/
theorem norm_keeps_bad : ∀ (ps stk q : List Prog), normL ps stk = some q → (∃ x ∈ stk, encP x = none) →
    encL q = none
  | [], stk, q, h, ⟨x, hx, hbad⟩ => by
    simp only [normL, Option.some.injEq] at h; subst h
    exact (encL_none_iff _).mpr ⟨x, by simpa using hx, hbad⟩
  | p :: ps, stk, q, h, ⟨x, hx, hbad⟩ => by
    by_cases hu : ∃ n, p = .unwrite n
    · obtain ⟨n, rfl⟩ := hu
      rw [normL_unwrite] at h
      by_cases hn : n < 0
      · simp [hn] at h
      · rw [if_neg hn] at h
        cases hp : popN n.toNat stk with
        | none => simp [hp] at h
        | some stk' =>
          simp only [hp] at h
          obtain ⟨popped, t, h1, _, _, h4⟩ := popN_spec _ _ _ hp
          refine norm_keeps_bad ps stk' q h ⟨x, ?_, hbad⟩
          rw [h1, List.mem_append] at hx
          rcases hx with hx | hx
          · obtain ⟨e, he⟩ := h4 x hx; rw [hbad] at he; cases he
          · exact hx
    · have hu' : ∀ n, p ≠ .unwrite n := fun n hn => hu ⟨n, hn⟩
      rw [normL_cons p ps stk hu'] at h
      cases hp : normP p with
      | none => simp [hp] at h
      | some q' =>
        simp only [hp] at h
        exact norm_keeps_bad ps (q' :: stk) q h ⟨x, by simp [hx], hbad⟩


theorem normP_leaf (p q' : Prog) (h : normP p = some q') (hl : ∀ k body, p ≠ .lp k body) (ha : ∀ t body, p ≠ .asn1 t body) :
    q' = p ∧ simpleP p = true := by
  cases p with
  | lp k body => exact absurd rfl (hl k body)
  | asn1 t body => exact absurd rfl (ha t body)
  | value ok bs => cases ok <;> simp_all [normP, simpleP]
  | _ => simp_all [normP, simpleP]

mutual
theorem elimP (top : Bool) : (p q' : Prog) → (b : B) → normP p = some q' → b.err = false →
    ∃ b', runP none top p b = .ok b' ∧ Post b b' (encP q')
  | .lp k body, q', b, h, he => by
    simp only [normP] at h
    cases hb : normL body [] with
    | none => simp [hb] at h
    | some qb =>
      simp only [hb, Option.map_some, Option.some.injEq] at h
      subst h
      obtain ⟨c, hc, hoff, hpll, hpost⟩ :=
        elimL false body [] qb ⟨b.res ++ zeros k, false, b.res.length, k⟩ (b.res ++ zeros k) [] hb rfl rfl
          (by simp) (by simp [zeros])
      simp only [runP, he, add, Bool.false_eq_true, if_false, hc, finish]
      cases henc : encL qb with
      | none =>
        rw [henc] at hpost
        exact ⟨_, flush_err _ _ _ _ hpost, by simp [Post, encP, henc]⟩
      | some e =>
        rw [henc] at hpost
        have hz : (zeros k).length = k := by simp [zeros]
        have := flush_lp none { b with res := b.res ++ zeros k } c b.res (zeros k) e hpost.1 hoff
          (by rw [hz]; exact hpll) hpost.2
        rw [hz] at this
        simp only [he] at this
        refine ⟨_, this, ?_⟩
        by_cases hk : e.length < 256 ^ k
        · simp [Post, encP, henc, hk]
        · simp [Post, encP, henc, hk]
  | .asn1 t body, q', b, h, he => by
    simp only [normP] at h
    cases hb : normL body [] with
    | none => simp [hb] at h
    | some qb =>
      simp only [hb, Option.map_some, Option.some.injEq] at h
      subst h
      by_cases ht : (t &&& 0x1f == 0x1f) = true
      · exact ⟨{ b with err := true }, by simp [runP, he, ht], by simp [Post, encP, ht]⟩
      · obtain ⟨c, hc, hoff, hpll, hpost⟩ :=
          elimL false body [] qb ⟨b.res ++ [t] ++ zeros 1, false, (b.res ++ [t]).length, 1⟩
            (b.res ++ [t] ++ zeros 1) [] hb rfl rfl (by simp) (by simp [zeros])
        simp only [runP, he, add, Bool.false_eq_true, if_false, ht, hc, finish]
        cases henc : encL qb with
        | none =>
          rw [henc] at hpost
          exact ⟨_, flush_err _ _ _ _ hpost, by simp [Post, encP, henc, ht]⟩
        | some e =>
          rw [henc] at hpost
          have := flush_asn1 { b with res := b.res ++ [t] ++ zeros 1 } c (b.res ++ [t]) e 0 hpost.1 hoff hpll
            (by simpa [zeros] using hpost.2)
          simp only [he] at this
          refine ⟨_, this, ?_⟩
          by_cases hk : e.length > 0xfffffffe
          · simp [Post, encP, henc, hk, ht]
          · simp [Post, encP, henc, hk, ht]
  | .uint w v, q', b, h, he => by
    obtain ⟨rfl, hs⟩ := normP_leaf _ q' h (by simp) (by simp)
    exact runP_spec top _ b hs he
  | .bytes bs, q', b, h, he => by
    obtain ⟨rfl, hs⟩ := normP_leaf _ q' h (by simp) (by simp)
    exact runP_spec top _ b hs he
  | .value ok bs, q', b, h, he => by
    obtain ⟨rfl, hs⟩ := normP_leaf _ q' h (by simp) (by simp)
    exact runP_spec top _ b hs he
  | .unwrite _, _, _, h, _ => by simp [normP] at h
  | .seterr, _, _, h, _ => by simp [normP] at h
  | .throw, _, _, h, _ => by simp [normP] at h
  | .pwrite, _, _, h, _ => by simp [normP] at h
/-- `stk` = the values kept so far (most recent first); the buffer is `base` followed by their encoding -/
theorem elimL (top : Bool) : (ps stk q : List Prog) → (b : B) → (base es : Bytes) →
    normL ps stk = some q → b.err = false → encL stk.reverse = some es → b.res = base ++ es →
    b.off + b.pll ≤ base.length →
    ∃ b', runL none top ps b = .ok b' ∧ b'.off = b.off ∧ b'.pll = b.pll ∧
      match encL q with
      | some e => b'.err = false ∧ b'.res = base ++ e
      | none => b'.err = true
  | [], stk, q, b, base, es, h, he, hes, hres, _ => by
    simp only [normL, Option.some.injEq] at h; subst h
    exact ⟨b, by simp [runL], rfl, rfl, by rw [hes]; exact ⟨he, hres⟩⟩
  | p :: ps, stk, q, b, base, es, h, he, hes, hres, hwf => by
    by_cases hu : ∃ n, p = .unwrite n
    · obtain ⟨n, rfl⟩ := hu
      rw [normL_unwrite] at h
      by_cases hn : n < 0
      · simp [hn] at h
      · rw [if_neg hn] at h
        cases hp : popN n.toNat stk with
        | none => simp [hp] at h
        | some stk' =>
          simp only [hp] at h
          obtain ⟨popped, t, h1, h2, h3, _⟩ := popN_spec _ _ _ hp
          have hsplit : encL stk.reverse = match encL stk'.reverse, some t with
              | some a, some b => some (a ++ b) | _, _ => none := by
            rw [h1, List.reverse_append, encL_append, h2]
          rw [hes] at hsplit
          cases hes' : encL stk'.reverse with
          | none => rw [hes'] at hsplit; simp at hsplit
          | some es' =>
            rw [hes'] at hsplit
            simp only [Option.some.injEq] at hsplit
            have hlen : b.res.length = base.length + es'.length + n.toNat := by
              rw [hres, hsplit]; simp [h3]; omega
            have hrun : runP none top (.unwrite n) b = .ok { b with res := base ++ es' } := by
              simp only [runP, he, Bool.false_eq_true, if_false, hn]
              rw [if_neg (by omega), if_neg (by omega)]
              congr 2
              rw [hres, hsplit]
              have : (base ++ (es' ++ t)).length - n.toNat = (base ++ es').length := by
                simp only [List.length_append, h3]; omega
              rw [this, ← List.append_assoc, List.take_left' rfl]
            obtain ⟨b', hb', ho, hpl, hpost⟩ :=
              elimL top ps stk' q { b with res := base ++ es' } base es' h he hes' rfl hwf
            exact ⟨b', by simp [runL, hrun, hb'], ho, hpl, hpost⟩
    · have hu' : ∀ n, p ≠ .unwrite n := fun n hn => hu ⟨n, hn⟩
      rw [normL_cons p ps stk hu'] at h
      cases hp : normP p with
      | none => simp [hp] at h
      | some q' =>
        simp only [hp] at h
        obtain ⟨b1, h1, ho1, hp1, hpost1⟩ := elimP top p q' b hp he
        cases henc : encP q' with
        | none =>
          rw [henc] at hpost1
          have hno := norm_noop top ps (q' :: stk) q b1 h hpost1
          have hbad := norm_keeps_bad ps (q' :: stk) q h ⟨q', by simp, henc⟩
          exact ⟨b1, by simp [runL, h1, hno], ho1, hp1, by rw [hbad]; exact hpost1⟩
        | some e1 =>
          rw [henc] at hpost1
          have hes1 : encL (q' :: stk).reverse = some (es ++ e1) := by
            rw [List.reverse_cons, encL_append, hes, encL_singleton, henc]
          obtain ⟨b', hb', ho, hpl, hpost⟩ :=
            elimL top ps (q' :: stk) q b1 base (es ++ e1) h hpost1.1 hes1
              (by rw [hpost1.2, hres, List.append_assoc]) (by rw [ho1, hp1]; exact hwf)
          exact ⟨b', by simp [runL, h1, hb'], by rw [ho, ho1], by rw [hpl, hp1], hpost⟩
end


/-- **Unwrite elimination.**  Whenever the mirrored program `q` exists (every Unwrite removes whole directly
    written values; no SetError / failing AddValue / panics), the builder run on `p` — Unwrites included —
    returns exactly the specification encoding of the Unwrite-free `q`. -/
theorem build_unwrite (pre : Bytes) (p q : List Prog) (hq : mirror pre p = some q) :
    build none pre p = match encL q with
      | some e => .ok e
      | none => .err := by
  unfold mirror at hq
  have key : ∃ b', runL none true p ⟨pre, false, 0, 0⟩ = .ok b' ∧ b'.off = 0 ∧ b'.pll = 0 ∧
      match encL q with
      | some e => b'.err = false ∧ b'.res = [] ++ e
      | none => b'.err = true := by
    by_cases hpre : pre.isEmpty = true
    · have : pre = [] := by simpa using hpre
      subst this
      simp only [List.isEmpty_nil, if_true] at hq
      exact elimL true p [] q ⟨[], false, 0, 0⟩ [] [] hq rfl rfl rfl (by simp)
    · rw [if_neg hpre] at hq
      exact elimL true p [.bytes pre] q ⟨pre, false, 0, 0⟩ [] pre hq rfl (by simp [encL, encP]) (by simp) (by simp)
  obtain ⟨b', hr, _, _, hpost⟩ := key
  unfold build
  rw [hr]
  cases he : encL q with
  | none => rw [he] at hpost; simp [hpost]
  | some e => rw [he] at hpost; simp [hpost.1, hpost.2]

/-- **Round trip for every mirrorable program** (generalises `build_roundtrip` to programs with Unwrite) -/
theorem build_roundtrip_unwrite (pre : Bytes) (p q : List Prog) (bs : Bytes) (hq : mirror pre p = some q)
    (hb : build none pre p = .ok bs) (hlen : bs.length ≤ 0xfffffff9) : roundTrips q bs = true := by
  rw [build_unwrite pre p q hq] at hb
  cases he : encL q with
  | none => simp [he] at hb
  | some e =>
    simp only [he, Result.ok.injEq] at hb
    subst hb
    have := parseL_enc q e [] he hlen
    rw [List.append_nil] at this
    simp [roundTrips, this]

/-! ### non-vacuity -/

set_option maxRecDepth 100000 in
/-- a nested program crossing the 127/128 ASN.1 threshold inside a 16-bit length prefix -/
example :
    build none [0xaa] [.uint 1 7, .lp 2 [.asn1 0x30 [.bytes (List.replicate 128 1)], .uint 3 0x01020304]] =
      .ok ([0xaa, 7, 0x00, 0x86, 0x30, 0x81, 0x80] ++ List.replicate 128 1 ++ [2, 3, 4]) := by
  decide

set_option maxRecDepth 100000 in
/-- overflow of an 8-bit length prefix is an error -/
example : build none [] [.lp 1 [.bytes (List.replicate 256 0)]] = .err := by decide

/-- fixed builder with exactly enough room succeeds, one byte less is an error -/
example : build (some 4) [] [.lp 1 [.uint 2 5], .uint 1 9] = .ok [2, 0, 5, 9] := by decide
example : build (some 3) [] [.lp 1 [.uint 2 5], .uint 1 9] = .err := by decide

/-! ### 8. misuse that must surface as an error: SetError, a failing AddValue, a high-tag-number AddASN1 -/

mutual
/-- programs made of value writes, AddValue (failing or not), SetError and nested children (no Unwrite, no panics) -/
def quietP : Prog → Bool
  | .uint _ _ => true
  | .bytes _ => true
  | .value _ _ => true
  | .seterr => true
  | .lp _ body => quietL body
  | .asn1 _ body => quietL body
  | _ => false
def quietL : List Prog → Bool
  | [] => true
  | p :: ps => quietP p && quietL ps
end

mutual
/-- some SetError / failing AddValue / high-tag-number AddASN1 occurs in the program -/
def hasErrP : Prog → Bool
  | .seterr => true
  | .value false _ => true
  | .lp _ body => hasErrL body
  | .asn1 t body => (t &&& 0x1f == 0x1f) || hasErrL body
  | _ => false
def hasErrL : List Prog → Bool
  | [] => false
  | p :: ps => hasErrP p || hasErrL ps
end

theorem flush_ok_or (cap : Option Nat) (a : Bool) (b c : B) :
    (∃ b', flush cap a b c = .ok b' ∧ (b.err = true → b'.err = true) ∧ (c.err = true → b'.err = true)) ∨
      flush cap a b c = .panic true := by
  unfold flush
  by_cases hc : c.err = true
  · left; exact ⟨_, by rw [if_pos hc], fun _ => rfl, fun _ => rfl⟩
  · rw [if_neg hc]
    by_cases h1 : c.res.length < c.pll + c.off
    · right; rw [if_pos h1]
    · rw [if_neg h1]
      cases a with
      | false =>
        left
        simp only [Bool.false_eq_true, if_false]
        generalize patchLen _ _ _ _ = pr
        obtain ⟨r3, l⟩ := pr
        simp only
        by_cases hl : (l != 0) = true
        · exact ⟨_, by rw [if_pos hl], fun _ => rfl, fun h => absurd h hc⟩
        · rw [if_neg hl]; exact ⟨_, rfl, fun h => h, fun h => absurd h hc⟩
      | true =>
        simp only [if_true]
        by_cases h2 : (c.pll != 1) = true
        · right; rw [if_pos h2]
        · rw [if_neg h2]
          by_cases h3 : c.res.length - c.pll - c.off > 0xfffffffe
          · left; exact ⟨_, by rw [if_pos h3], fun _ => rfl, fun _ => rfl⟩
          · rw [if_neg h3]
            by_cases h4 : asn1Extra (c.res.length - c.pll - c.off) = 0
            · left; simp only [h4, if_true]; exact ⟨_, rfl, fun h => h, fun h => absurd h hc⟩
            · simp only [h4, if_false]
              by_cases h5 : (add cap { c with res := c.res.set c.off (asn1LenByte (c.res.length - c.pll - c.off)) }
                  (zeros (asn1Extra (c.res.length - c.pll - c.off)))).err = true
              · left; exact ⟨_, by rw [if_pos h5], fun _ => rfl, fun _ => rfl⟩
              · rw [if_neg h5]
                left
                generalize patchLen _ _ _ _ = pr
                obtain ⟨r3, l⟩ := pr
                simp only
                by_cases hl : (l != 0) = true
                · exact ⟨_, by rw [if_pos hl], fun _ => rfl, fun h => absurd h hc⟩
                · rw [if_neg hl]; exact ⟨_, rfl, fun h => h, fun h => absurd h hc⟩

theorem add_err_mono (cap : Option Nat) (b : B) (bs : Bytes) (h : b.err = true) : (add cap b bs).err = true := by
  simp [add, h]

mutual
theorem quietP_run (cap : Option Nat) (top : Bool) : (p : Prog) → (b : B) → quietP p = true → WF cap b →
    ∃ b', runP cap top p b = .ok b' ∧ (b.err = true → b'.err = true) ∧ (hasErrP p = true → b'.err = true)
  | .uint w v, b, _, _ => ⟨_, rfl, add_err_mono cap b _, by simp [hasErrP]⟩
  | .bytes bs, b, _, _ => ⟨_, rfl, add_err_mono cap b _, by simp [hasErrP]⟩
  | .value true bs, b, _, _ => ⟨_, rfl, by simpa using add_err_mono cap b bs, by simp [hasErrP]⟩
  | .value false bs, b, _, _ => ⟨_, rfl, fun _ => rfl, fun _ => rfl⟩
  | .seterr, b, _, _ => ⟨_, rfl, fun _ => rfl, fun _ => rfl⟩
  | .unwrite _, _, h, _ => by simp [quietP] at h
  | .throw, _, h, _ => by simp [quietP] at h
  | .pwrite, _, h, _ => by simp [quietP] at h
  | .lp k body, b, hq, hw => by
    have hgood := runP_inv cap top (.lp k body) b hw
    unfold runP at hgood ⊢
    by_cases he : b.err = true
    · rw [if_pos he]; exact ⟨b, rfl, fun h => h, fun _ => he⟩
    · rw [if_neg he] at hgood ⊢
      simp only at hgood ⊢
      by_cases h1 : (add cap b (zeros k)).err = true
      · rw [if_pos h1]; exact ⟨_, rfl, fun _ => h1, fun _ => h1⟩
      · rw [if_neg h1] at hgood ⊢
        obtain ⟨w1, w2, w3, w4, w5⟩ := add_inv cap b (zeros k) hw
        have hres := w5 (by simpa using h1)
        have hwc : WF cap ⟨(add cap b (zeros k)).res, false, b.res.length, k⟩ :=
          ⟨by show b.res.length + k ≤ _; rw [hres]; simp [zeros], w1.2⟩
        obtain ⟨c, hc, _, hce⟩ := quietL_run cap false body _ (by simpa [quietP] using hq) hwc
        rw [hc] at hgood ⊢
        simp only [finish] at hgood ⊢
        rcases flush_ok_or cap false (add cap b (zeros k)) c with ⟨b', hf, f1, f2⟩ | hp
        · rw [hf]
          exact ⟨b', rfl, fun h => absurd h he, fun hh => f2 (hce (by simpa [hasErrP] using hh))⟩
        · rw [hp] at hgood; simp [Good] at hgood
  | .asn1 t body, b, hq, hw => by
    have hgood := runP_inv cap top (.asn1 t body) b hw
    unfold runP at hgood ⊢
    by_cases he : b.err = true
    · rw [if_pos he]; exact ⟨b, rfl, fun h => h, fun _ => he⟩
    · rw [if_neg he] at hgood ⊢
      by_cases ht : (t &&& 0x1f == 0x1f) = true
      · rw [if_pos ht]; exact ⟨_, rfl, fun _ => rfl, fun _ => rfl⟩
      · rw [if_neg ht] at hgood ⊢
        simp only at hgood ⊢
        by_cases h0 : (add cap b [t]).err = true
        · rw [if_pos h0]; exact ⟨_, rfl, fun _ => h0, fun _ => h0⟩
        · rw [if_neg h0] at hgood ⊢
          by_cases h1 : (add cap (add cap b [t]) (zeros 1)).err = true
          · rw [if_pos h1]; exact ⟨_, rfl, fun _ => h1, fun _ => h1⟩
          · rw [if_neg h1] at hgood ⊢
            obtain ⟨v1, v2, v3, v4, v5⟩ := add_inv cap b [t] hw
            obtain ⟨w1, w2, w3, w4, w5⟩ := add_inv cap (add cap b [t]) (zeros 1) v1
            have hres := w5 (by simpa using h1)
            have hwc : WF cap ⟨(add cap (add cap b [t]) (zeros 1)).res, false, (add cap b [t]).res.length, 1⟩ :=
              ⟨by show (add cap b [t]).res.length + 1 ≤ _; rw [hres]; simp [zeros], w1.2⟩
            obtain ⟨c, hc, _, hce⟩ := quietL_run cap false body _ (by simpa [quietP] using hq) hwc
            rw [hc] at hgood ⊢
            simp only [finish] at hgood ⊢
            rcases flush_ok_or cap true (add cap (add cap b [t]) (zeros 1)) c with ⟨b', hf, f1, f2⟩ | hp
            · rw [hf]
              refine ⟨b', rfl, fun h => absurd h he, fun hh => f2 (hce ?_)⟩
              simp only [hasErrP, Bool.or_eq_true] at hh
              rcases hh with hh | hh
              · exact absurd hh ht
              · exact hh
            · rw [hp] at hgood; simp [Good] at hgood
theorem quietL_run (cap : Option Nat) (top : Bool) : (ps : List Prog) → (b : B) → quietL ps = true → WF cap b →
    ∃ b', runL cap top ps b = .ok b' ∧ (b.err = true → b'.err = true) ∧ (hasErrL ps = true → b'.err = true)
  | [], b, _, _ => ⟨b, rfl, fun h => h, by simp [hasErrL]⟩
  | p :: ps, b, hq, hw => by
    simp only [quietL, Bool.and_eq_true] at hq
    obtain ⟨b1, h1, e1, e2⟩ := quietP_run cap top p b hq.1 hw
    have hg := runP_inv cap top p b hw
    rw [h1] at hg
    obtain ⟨b2, h2, e3, e4⟩ := quietL_run cap top ps b1 hq.2 hg.1
    refine ⟨b2, by simp [runL, h1, h2], fun h => e3 (e1 h), ?_⟩
    intro hh
    simp only [hasErrL, Bool.or_eq_true] at hh
    rcases hh with hh | hh
    · exact e3 (e2 hh)
    · exact e4 hh
end

/-- **misuse ⇒ error**: a program of value writes and nested children that contains a SetError, a failing
    AddValue or a high-tag-number AddASN1 anywhere makes Bytes() return an error — never bytes, never a panic —
    on growable and fixed-size builders alike -/
theorem misuse_err (cap : Option Nat) (pre : Bytes) (p : List Prog) (hq : quietL p = true) (hm : hasErrL p = true)
    (hpre : ∀ c, cap = some c → pre.length ≤ c) : build cap pre p = .err := by
  obtain ⟨b', hr, _, he⟩ := quietL_run cap true p ⟨pre, false, 0, 0⟩ hq ⟨by simp, hpre⟩
  unfold build
  rw [hr]; simp [he hm]

/-- and such programs never panic at all -/
theorem quiet_no_panic (cap : Option Nat) (pre : Bytes) (p : List Prog) (hq : quietL p = true)
    (hpre : ∀ c, cap = some c → pre.length ≤ c) : ∀ i, build cap pre p ≠ .panic i := by
  obtain ⟨b', hr, _, _⟩ := quietL_run cap true p ⟨pre, false, 0, 0⟩ hq ⟨by simp, hpre⟩
  intro i
  unfold build
  rw [hr]; by_cases h : b'.err = true <;> simp [h]

/-! non-vacuity -/
example : build none [] [.uint 1 1, .lp 2 [.bytes [2, 3], .seterr], .uint 1 4] = .err := by decide
example : build none [] [.lp 1 [.asn1 0x1f [.uint 1 1]]] = .err := by decide
example : build (some 9) [] [.value false [1, 2]] = .err := by decide
/-- Unwrite elimination: the Unwrite removes the 16-bit value, the mirror is the program without both -/
example : build none [0xaa] [.uint 1 1, .uint 2 7, .unwrite 2, .lp 1 [.bytes [9]]] = .ok [0xaa, 1, 1, 9] ∧
    (mirror [0xaa] [.uint 1 1, .uint 2 7, .unwrite 2, .lp 1 [.bytes [9]]]).map
      (fun q => (q.length, roundTrips q [0xaa, 1, 1, 9])) = some (3, true) := by decide
example : roundTrips [.bytes [0xaa], .uint 1 1, .lp 1 [.bytes [9]]] [0xaa, 1, 1, 9] = true := by decide
/-- fixed-size: exactly enough room / one byte short / growable overflow -/
example : build (some 5) [] [.asn1 0x30 [.uint 2 5], .uint 1 9] = .ok [0x30, 2, 0, 5, 9] ∧
    build (some 4) [] [.asn1 0x30 [.uint 2 5], .uint 1 9] = .err := by decide

end XC.C22
