/-
  C38 — property theorems: public key wire formats, authorized_keys / known_hosts lines.

  * per key kind `ParsePublicKey(Marshal(k)) = k` (over the abstract point-validity oracle):
    `parsePlain_body`, `parsePlainKey_marshal` (XC/Proofs/C38_Keys.lean) and, for certificates,
    `XC.C41.marshal_parse` (XC/Proofs/C41.lean); `mpintVal_mpintBytes`, `parseString_inv` underneath;
  * base64: `b64_roundtrip` (Decode ∘ Encode = id) — the transport of MarshalAuthorizedKey;
  * the options scanner of ParseAuthorizedKey equals a structurally recursive specification
    (`scanOptions_spec`): blank outside quotes ends the field, comma outside quotes separates,
    `\"` does not toggle, empty pieces are dropped;
  * ParseKnownHosts never indexes out of range (`parseKnownHosts_no_panic`); all other parsers are
    total functions of the model with no panic outcome at all.
  * the whole line: ParseAuthorizedKey(MarshalAuthorizedKey(k)) = (k, no comment, no options, empty rest)
    for every key / certificate that is the parse of its own marshalling (`authorized_roundtrip`,
    `authorized_roundtrip_plain`, `authorized_roundtrip_cert`, `authorized_roundtrip_full_holds`).
-/
import XC.Model.C38
import XC.Proofs.C41
namespace XC.C38
open XC

/-! ## base64 -/

theorem b64Val_b64Char : ∀ v, v < 64 → b64Val (b64Char v) = some v := by decide +kernel
theorem b64Char_ne_pad : ∀ v, v < 64 → b64Char v ≠ 61 := by decide +kernel

theorem b64Last_enc3 (a b c : UInt8) :
    b64Last (b64Char (a.toNat / 4)) (b64Char (a.toNat % 4 * 16 + b.toNat / 16))
      (b64Char (b.toNat % 16 * 4 + c.toNat / 64)) (b64Char (c.toNat % 64)) = some [a, b, c] := by
  have ha := u8_lt a; have hb := u8_lt b; have hc := u8_lt c
  have n3 := b64Char_ne_pad (b.toNat % 16 * 4 + c.toNat / 64) (by omega)
  have n4 := b64Char_ne_pad (c.toNat % 64) (by omega)
  simp only [b64Last, b64Val_b64Char (a.toNat / 4) (by omega),
    b64Val_b64Char (a.toNat % 4 * 16 + b.toNat / 16) (by omega),
    b64Val_b64Char (b.toNat % 16 * 4 + c.toNat / 64) (by omega),
    b64Val_b64Char (c.toNat % 64) (by omega), n3, n4, false_and, and_false, ↓reduceIte]
  have e1 : UInt8.ofNat (a.toNat / 4 * 4 + (a.toNat % 4 * 16 + b.toNat / 16) / 16) = a := by
    rw [← u8_ofNat_toNat a]; apply u8_ofNat_eq; simp only [u8_ofNat_toNat]; omega
  have e2 : UInt8.ofNat ((a.toNat % 4 * 16 + b.toNat / 16) % 16 * 16 + (b.toNat % 16 * 4 + c.toNat / 64) / 4) = b := by
    rw [← u8_ofNat_toNat b]; apply u8_ofNat_eq; simp only [u8_ofNat_toNat]; omega
  have e3 : UInt8.ofNat ((b.toNat % 16 * 4 + c.toNat / 64) % 4 * 64 + c.toNat % 64) = c := by
    rw [← u8_ofNat_toNat c]; apply u8_ofNat_eq; simp only [u8_ofNat_toNat]; omega
  rw [e1, e2, e3]

/-- `StdEncoding.Decode(StdEncoding.Encode(x)) = x` for every byte string -/
theorem b64Decode_b64Encode : ∀ (n : Nat) (x : Bytes), x.length ≤ n → b64Decode (b64Encode x) = some x := by
  intro n
  induction n with
  | zero => intro x hx; cases x with
    | nil => rfl
    | cons a t => simp at hx
  | succ n ih =>
    intro x hx
    match x, hx with
    | [], _ => rfl
    | [a], _ =>
      have ha := u8_lt a
      simp only [b64Encode, b64Decode, List.isEmpty_nil, ↓reduceIte, b64Last,
        b64Val_b64Char (a.toNat / 4) (by omega), b64Val_b64Char (a.toNat % 4 * 16) (by omega), and_self]
      have e1 : UInt8.ofNat (a.toNat / 4 * 4 + a.toNat % 4 * 16 / 16) = a := by
        rw [← u8_ofNat_toNat a]; apply u8_ofNat_eq; simp only [u8_ofNat_toNat]; omega
      rw [e1]
    | [a, b], _ =>
      have ha := u8_lt a; have hb := u8_lt b
      have n3 := b64Char_ne_pad (b.toNat % 16 * 4) (by omega)
      simp only [b64Encode, b64Decode, List.isEmpty_nil, ↓reduceIte, b64Last,
        b64Val_b64Char (a.toNat / 4) (by omega), b64Val_b64Char (a.toNat % 4 * 16 + b.toNat / 16) (by omega),
        b64Val_b64Char (b.toNat % 16 * 4) (by omega), n3, false_and]
      have e1 : UInt8.ofNat (a.toNat / 4 * 4 + (a.toNat % 4 * 16 + b.toNat / 16) / 16) = a := by
        rw [← u8_ofNat_toNat a]; apply u8_ofNat_eq; simp only [u8_ofNat_toNat]; omega
      have e2 : UInt8.ofNat ((a.toNat % 4 * 16 + b.toNat / 16) % 16 * 16 + b.toNat % 16 * 4 / 4) = b := by
        rw [← u8_ofNat_toNat b]; apply u8_ofNat_eq; simp only [u8_ofNat_toNat]; omega
      rw [e1, e2]
    | a :: b :: c :: r, hx =>
      have ha := u8_lt a; have hb := u8_lt b; have hc := u8_lt c
      rw [b64Encode, b64Decode]
      by_cases hr : (b64Encode r).isEmpty = true
      · have hr' : r = [] := by
          cases r with
          | nil => rfl
          | cons a1 t1 =>
            cases t1 with
            | nil => simp [b64Encode] at hr
            | cons a2 t2 =>
              cases t2 with
              | nil => simp [b64Encode] at hr
              | cons a3 t3 => simp [b64Encode] at hr
        subst hr'
        simp only [b64Encode, List.isEmpty_nil, ↓reduceIte]
        exact b64Last_enc3 a b c
      · have hlen : r.length ≤ n := by simp only [List.length_cons] at hx; omega
        simp only [hr, Bool.false_eq_true, ↓reduceIte, b64Val_b64Char (a.toNat / 4) (by omega),
          b64Val_b64Char (a.toNat % 4 * 16 + b.toNat / 16) (by omega),
          b64Val_b64Char (b.toNat % 16 * 4 + c.toNat / 64) (by omega),
          b64Val_b64Char (c.toNat % 64) (by omega), ih r hlen]
        have e1 : UInt8.ofNat (a.toNat / 4 * 4 + (a.toNat % 4 * 16 + b.toNat / 16) / 16) = a := by
          rw [← u8_ofNat_toNat a]; apply u8_ofNat_eq; simp only [u8_ofNat_toNat]; omega
        have e2 : UInt8.ofNat ((a.toNat % 4 * 16 + b.toNat / 16) % 16 * 16 + (b.toNat % 16 * 4 + c.toNat / 64) / 4) = b := by
          rw [← u8_ofNat_toNat b]; apply u8_ofNat_eq; simp only [u8_ofNat_toNat]; omega
        have e3 : UInt8.ofNat ((b.toNat % 16 * 4 + c.toNat / 64) % 4 * 64 + c.toNat % 64) = c := by
          rw [← u8_ofNat_toNat c]; apply u8_ofNat_eq; simp only [u8_ofNat_toNat]; omega
        rw [e1, e2, e3]

theorem b64_roundtrip (x : Bytes) : b64Decode (b64Encode x) = some x :=
  b64Decode_b64Encode x.length x (Nat.le_refl _)


/-! ## the options scanner against a structurally recursive specification -/

/-- sshd's rule for a double quote: it toggles the quoted state unless preceded by a backslash -/
def qstep (q : Bool) (prev : Option UInt8) (b : UInt8) : Bool :=
  if b = 34 ∧ prev ≠ some 92 then !q else q

/-- specification: walk the line; outside quotes a blank ends the options field and a comma ends an
    option; returns (bytes of the option being read, the following options, rest of the line starting
    at the terminating blank — empty if the line ends first) -/
def optSpec (q : Bool) (prev : Option UInt8) : Bytes → Bytes × List Bytes × Bytes
  | [] => ([], [], [])
  | b :: r =>
    if !q && isSpTab b then ([], [], b :: r)
    else if b = 44 ∧ !q then
      let p := optSpec q (some b) r
      ([], p.1 :: p.2.1, p.2.2)
    else
      let p := optSpec (qstep q prev b) (some b) r
      (b :: p.1, p.2.1, p.2.2)

def dropEmpty (l : List Bytes) : List Bytes := l.filter (fun x => !x.isEmpty)

theorem dropEmpty_cons (x : Bytes) (l : List Bytes) : dropEmpty (x :: l) = dropEmpty [x] ++ dropEmpty l := by
  simp only [dropEmpty, List.filter_cons, List.filter_nil]
  cases x.isEmpty <;> rfl

theorem flush_reverse (s : Scan) : s.flush.reverse = s.acc.reverse ++ dropEmpty [s.cur.reverse] := by
  unfold Scan.flush dropEmpty
  cases hc : s.cur with
  | nil => simp
  | cons a t => simp

theorem scan_end (b : UInt8) (r : Bytes) (s : Scan) (h : (!s.inQuote && isSpTab b) = true) :
    scanOptions (b :: r) s = (s.flush.reverse, b :: r) := by
  rw [scanOptions]; simp only [h, ↓reduceIte]

theorem scan_comma (b : UInt8) (r : Bytes) (s : Scan) (h : ¬ (!s.inQuote && isSpTab b) = true)
    (hc : b = 44 ∧ (!s.inQuote) = true) :
    scanOptions (b :: r) s = scanOptions r { s with acc := s.flush, cur := [], prev := some b } := by
  obtain ⟨hb, hq⟩ := hc
  subst hb
  have h44 : isSpTab 44 = false := by decide
  rw [scanOptions]; simp only [hq, h44, Bool.and_false, and_self, ↓reduceIte, Bool.false_eq_true]

theorem scan_other (b : UInt8) (r : Bytes) (s : Scan) (h : ¬ (!s.inQuote && isSpTab b) = true)
    (hc : ¬ (b = 44 ∧ (!s.inQuote) = true)) :
    scanOptions (b :: r) s =
      scanOptions r { s with inQuote := qstep s.inQuote s.prev b, cur := b :: s.cur, prev := some b } := by
  rw [scanOptions]; simp only [h, hc, ↓reduceIte, Bool.false_eq_true, qstep]

theorem spec_end (b : UInt8) (r : Bytes) (q : Bool) (prev : Option UInt8) (h : (!q && isSpTab b) = true) :
    optSpec q prev (b :: r) = ([], [], b :: r) := by
  rw [optSpec]; simp only [h, ↓reduceIte]

theorem spec_comma (b : UInt8) (r : Bytes) (q : Bool) (prev : Option UInt8) (h : ¬ (!q && isSpTab b) = true)
    (hc : b = 44 ∧ (!q) = true) :
    optSpec q prev (b :: r) = ([], (optSpec q (some b) r).1 :: (optSpec q (some b) r).2.1, (optSpec q (some b) r).2.2) := by
  obtain ⟨hb, hq⟩ := hc
  subst hb
  have h44 : isSpTab 44 = false := by decide
  rw [optSpec]; simp only [hq, h44, Bool.and_false, and_self, ↓reduceIte, Bool.false_eq_true]

theorem spec_other (b : UInt8) (r : Bytes) (q : Bool) (prev : Option UInt8) (h : ¬ (!q && isSpTab b) = true)
    (hc : ¬ (b = 44 ∧ (!q) = true)) :
    optSpec q prev (b :: r) =
      (b :: (optSpec (qstep q prev b) (some b) r).1, (optSpec (qstep q prev b) (some b) r).2.1,
       (optSpec (qstep q prev b) (some b) r).2.2) := by
  rw [optSpec]; simp only [h, hc, ↓reduceIte, Bool.false_eq_true]

/-- The Go loop (indices, `optionStart`, `in[i-1]`, append) computes the specification: when the
    options field is terminated by an unquoted blank, the candidate options are exactly the
    non-empty comma-separated pieces, and the scan stops at that blank. -/
theorem scanOptions_spec : ∀ (inp : Bytes) (s : Scan), (optSpec s.inQuote s.prev inp).2.2 ≠ [] →
    scanOptions inp s =
      (s.acc.reverse ++ dropEmpty ((s.cur.reverse ++ (optSpec s.inQuote s.prev inp).1) :: (optSpec s.inQuote s.prev inp).2.1),
       (optSpec s.inQuote s.prev inp).2.2) := by
  intro inp
  induction inp with
  | nil => intro s h; exact absurd rfl h
  | cons b r ih =>
    intro s h
    by_cases hEnd : (!s.inQuote && isSpTab b) = true
    · rw [scan_end b r s hEnd, spec_end b r _ _ hEnd, flush_reverse]
      simp only [List.append_nil]
    · by_cases hComma : b = 44 ∧ (!s.inQuote) = true
      · rw [spec_comma b r _ _ hEnd hComma] at h ⊢
        rw [scan_comma b r s hEnd hComma, ih _ h, flush_reverse]
        simp only [List.reverse_nil, List.nil_append, List.append_nil, List.append_assoc]
        simp only [dropEmpty, ← List.filter_append, List.singleton_append]
      · rw [spec_other b r _ _ hEnd hComma] at h ⊢
        rw [scan_other b r s hEnd hComma, ih _ h]
        simp only [List.reverse_cons, List.append_assoc, List.singleton_append]

/-- non-vacuity / example: `command="a, b",no-pty ssh-ed25519 …` -/
example : (scanOptions (nm "command=\"a, b\",,no-pty ssh-rsa") {}).1 = [nm "command=\"a, b\"", nm "no-pty"] := by
  decide +kernel


/-! ## ParseKnownHosts: the index expressions of the Go code never go out of range -/

theorem fieldsGo_nonempty : ∀ (b cur : Bytes) (x : Bytes), x ∈ fieldsGo b cur → x ≠ [] := by
  intro b
  induction b with
  | nil =>
    intro cur x hx
    simp only [fieldsGo] at hx
    cases hc : cur with
    | nil => simp [hc] at hx
    | cons a t => simp [hc] at hx; subst hx; simp
  | cons c r ih =>
    intro cur x hx
    simp only [fieldsGo] at hx
    by_cases hs : isAsciiSpace c = true
    · simp only [hs, ↓reduceIte] at hx
      cases hc : cur with
      | nil => simp only [hc, List.isEmpty_nil, ↓reduceIte] at hx; exact ih [] x hx
      | cons a t =>
        simp only [hc, List.isEmpty_cons, Bool.false_eq_true, ↓reduceIte, List.mem_cons] at hx
        rcases hx with hx | hx
        · subst hx; simp
        · exact ih [] x hx
    · simp only [hs, Bool.false_eq_true, ↓reduceIte] at hx
      exact ih (c :: cur) x hx

/-- `keyFields[0][0]`, `keyFields[1]`, `keyFields[2:]` are always in range: the panic outcome of the
    model is unreachable once `bytes.Fields` returned at least three (non-empty) fields -/
theorem knownHostsFields_no_panic (o : PtOracle) (kf : List Bytes) (rest : Option Bytes)
    (hl : 3 ≤ kf.length) (hne : ∀ x ∈ kf, x ≠ []) : knownHostsFields o kf rest ≠ .panic := by
  unfold knownHostsFields
  match kf, hl, hne with
  | [], hl, _ => simp at hl
  | [] :: _, _, hne => exact absurd rfl (hne [] (List.mem_cons_self ..))
  | (c0 :: m) :: tl, hl, _ =>
    simp only [List.length_cons] at hl
    by_cases h64 : c0 = 64
    · simp only [h64, ↓reduceIte]
      match tl, hl with
      | [], hl => simp at hl
      | [_], hl => simp at hl
      | hosts :: want :: kp, _ =>
        simp only
        split <;> (try split) <;> simp
    · simp only [h64, ↓reduceIte]
      match tl, hl with
      | [], hl => simp at hl
      | want :: kp, _ =>
        simp only
        split <;> (try split) <;> simp

theorem knownHostsLine_no_panic (o : PtOracle) (line : Bytes) (rest : Option Bytes) :
    knownHostsLine o line rest ≠ some .panic := by
  unfold knownHostsLine
  generalize trimSpace (cutCR line) = inp
  cases inp with
  | nil => simp
  | cons c t =>
    simp only
    split
    · simp
    · split
      · simp
      · split
        · simp
        · rename_i hl
          simp only [Option.some.injEq, ne_eq]
          exact knownHostsFields_no_panic o _ rest (by omega) (fieldsGo_nonempty (c :: t) [])

/-- every line, every input: ParseKnownHosts never panics -/
theorem parseKnownHosts_no_panic (o : PtOracle) : ∀ (f : Nat) (inp : Bytes), parseKnownHostsGo o f inp ≠ .panic := by
  intro f
  induction f with
  | zero => intro inp; simp [parseKnownHostsGo]
  | succ f ih =>
    intro inp
    unfold parseKnownHostsGo
    split
    · simp
    · simp only
      split
      · rename_i r h
        intro hp; rw [hp] at h
        exact knownHostsLine_no_panic o _ _ h
      · split
        · simp
        · exact ih _


/-! ## whole-line round trip: ParseAuthorizedKey ∘ MarshalAuthorizedKey -/

theorem spTab_space (c : UInt8) (h : isAsciiSpace c = false) : isSpTab c = false := by
  unfold isSpTab; unfold isAsciiSpace at h
  simp only [Bool.or_eq_false_iff, Bool.and_eq_false_iff, decide_eq_false_iff_not] at h ⊢
  refine ⟨h.1, ?_⟩
  intro h9; subst h9
  rcases h.2 with h2 | h2 <;> exact absurd (by decide) h2

theorem ne10_of_nonspace (c : UInt8) (h : isAsciiSpace c = false) : c ≠ 10 := by
  intro e; subst e; exact absurd h (by decide)

theorem ne13_of_nonspace (c : UInt8) (h : isAsciiSpace c = false) : c ≠ 13 := by
  intro e; subst e; exact absurd h (by decide)

theorem cutLine_append (x : Bytes) (h : ∀ c ∈ x, c ≠ 10) : cutLine (x ++ [10]) = (x, some []) := by
  induction x with
  | nil => rfl
  | cons a t ih =>
    have ha : a ≠ 10 := h a (List.mem_cons_self ..)
    simp only [List.cons_append, cutLine, ha, ↓reduceIte]
    rw [ih (fun c hc => h c (List.mem_cons_of_mem _ hc))]

theorem cutCR_id (x : Bytes) (h : ∀ c ∈ x, c ≠ 13) : cutCR x = x := by
  unfold cutCR
  induction x with
  | nil => rfl
  | cons a t ih =>
    have ha : a ≠ 13 := h a (List.mem_cons_self ..)
    simp only [List.takeWhile_cons, ha, ne_eq, not_false_eq_true, decide_true, ↓reduceIte, List.cons.injEq, true_and]
    exact ih (fun c hc => h c (List.mem_cons_of_mem _ hc))

theorem dropWhile_head (p : UInt8 → Bool) (a : UInt8) (r : Bytes) (h : p a = false) :
    (a :: r).dropWhile p = a :: r := by
  simp only [List.dropWhile_cons, h, Bool.false_eq_true, ↓reduceIte]

/-- a list whose first and last bytes are not white space is its own TrimSpace -/
theorem trimSpace_id (a z : UInt8) (mid : Bytes) (r : Bytes) (hx : (a :: mid).reverse = z :: r)
    (ha : isAsciiSpace a = false) (hz : isAsciiSpace z = false) : trimSpace (a :: mid) = a :: mid := by
  unfold trimSpace trimLeft
  rw [dropWhile_head _ a mid ha, hx, dropWhile_head _ z r hz, ← hx, List.reverse_reverse]

theorem splitSpTab_append (t y : Bytes) (b : UInt8) (hb : isSpTab b = true) (h : ∀ c ∈ t, isSpTab c = false) :
    splitSpTab (t ++ b :: y) = some (t, b :: y) := by
  induction t with
  | nil => simp only [List.nil_append, splitSpTab, hb, ↓reduceIte]
  | cons a t ih =>
    have ha := h a (List.mem_cons_self ..)
    simp only [List.cons_append, splitSpTab, ha, Bool.false_eq_true, ↓reduceIte]
    rw [ih (fun c hc => h c (List.mem_cons_of_mem _ hc))]
    rfl

theorem splitSpTab_none (x : Bytes) (h : ∀ c ∈ x, isSpTab c = false) : splitSpTab x = none := by
  induction x with
  | nil => rfl
  | cons a t ih =>
    have ha := h a (List.mem_cons_self ..)
    simp only [splitSpTab, ha, Bool.false_eq_true, ↓reduceIte]
    rw [ih (fun c hc => h c (List.mem_cons_of_mem _ hc))]
    rfl

/-! base64 output contains no white space -/

theorem b64Char_nonspace : ∀ v, v < 64 → isAsciiSpace (b64Char v) = false := by decide +kernel

theorem b64Encode_nonspace : ∀ (n : Nat) (x : Bytes), x.length ≤ n → ∀ c ∈ b64Encode x, isAsciiSpace c = false := by
  intro n
  induction n with
  | zero =>
    intro x hx c hc
    cases x with
    | nil => simp [b64Encode] at hc
    | cons a t => simp at hx
  | succ n ih =>
    intro x hx c hc
    have pad : isAsciiSpace 61 = false := by decide
    match x, hx with
    | [], _ => simp [b64Encode] at hc
    | [a], _ =>
      have ha := u8_lt a
      simp only [b64Encode, List.mem_cons, List.not_mem_nil, or_false] at hc
      rcases hc with rfl | rfl | rfl | rfl
      · exact b64Char_nonspace _ (by omega)
      · exact b64Char_nonspace _ (by omega)
      · exact pad
      · exact pad
    | [a, b], _ =>
      have ha := u8_lt a; have hb := u8_lt b
      simp only [b64Encode, List.mem_cons, List.not_mem_nil, or_false] at hc
      rcases hc with rfl | rfl | rfl | rfl
      · exact b64Char_nonspace _ (by omega)
      · exact b64Char_nonspace _ (by omega)
      · exact b64Char_nonspace _ (by omega)
      · exact pad
    | a :: b :: d :: r, hx =>
      have ha := u8_lt a; have hb := u8_lt b; have hd := u8_lt d
      rw [b64Encode] at hc
      simp only [List.mem_cons] at hc
      rcases hc with rfl | rfl | rfl | rfl | hc
      · exact b64Char_nonspace _ (by omega)
      · exact b64Char_nonspace _ (by omega)
      · exact b64Char_nonspace _ (by omega)
      · exact b64Char_nonspace _ (by omega)
      · exact ih r (by simp only [List.length_cons] at hx; omega) c hc

theorem b64Encode_ne_nil (a : UInt8) (t : Bytes) : b64Encode (a :: t) ≠ [] := by
  cases t with
  | nil => simp [b64Encode]
  | cons b t2 =>
    cases t2 with
    | nil => simp [b64Encode]
    | cons c t3 => simp [b64Encode]


/-! key type names contain no white space and do not start with '#' -/

def cleanName (t : Bytes) : Bool :=
  !t.isEmpty && t.all (fun c => !isAsciiSpace c) && (t.head? != some 35)

theorem plain_type_clean (k : PubKey) : cleanName k.type = true := by
  cases k with
  | ecdsa bits pt =>
    show cleanName (nm "ecdsa-sha2-" ++ curveName bits) = true
    unfold curveName
    split <;> decide
  | rsa e n => show cleanName algoRSA = true; decide
  | dsa p q g y => show cleanName algoDSA = true; decide
  | skecdsa pt app => show cleanName algoSKECDSA = true; decide
  | ed25519 kb => show cleanName algoED25519 = true; decide
  | sked25519 kb app => show cleanName algoSKED25519 = true; decide

theorem cert_names_clean : C41.certKeyAlgoNames.all (fun p => cleanName p.1) = true := by decide +kernel

theorem anykey_type_clean (k : C41.AnyKey) (t : Bytes) (h : k.type = some t) : cleanName t = true := by
  cases k with
  | plain p =>
    simp only [C41.AnyKey.type, Option.some.injEq] at h
    subst h; exact plain_type_clean p
  | cert c =>
    simp only [C41.AnyKey.type, C41.certTypeOf] at h
    cases hf : C41.certKeyAlgoNames.find? (fun p => p.2 = c.key.type) with
    | none => rw [hf] at h; cases h
    | some p =>
      rw [hf] at h
      simp only [Option.map_some, Option.some.injEq] at h
      subst h
      exact List.all_eq_true.mp cert_names_clean p (List.mem_of_find?_eq_some hf)

theorem cleanName_spec (t : Bytes) (h : cleanName t = true) :
    ∃ a r, t = a :: r ∧ a ≠ 35 ∧ ∀ c ∈ t, isAsciiSpace c = false := by
  unfold cleanName at h
  simp only [Bool.and_eq_true, Bool.not_eq_true', List.all_eq_true, bne_iff_ne, ne_eq] at h
  obtain ⟨⟨h1, h2⟩, h3⟩ := h
  cases t with
  | nil => simp at h1
  | cons a r =>
    refine ⟨a, r, rfl, ?_, fun c hc => by simpa using h2 c hc⟩
    intro e; subst e; simp at h3

/-- **authorized_roundtrip**: for every key or certificate `k` that is the parse of its own marshalling,
    `ParseAuthorizedKey(MarshalAuthorizedKey(k))` returns `k`, no comment, no options, and the empty rest -/
theorem authorized_roundtrip (o : PtOracle) (k : C41.AnyKey) (m line : Bytes)
    (hm : k.marshal = some m) (hp : C41.parsePublicKey o m = some k) (hl : marshalAuthorizedKey k = some line) :
    parseAuthorizedKey o line = .ok k [] [] (some []) := by
  -- the line
  unfold marshalAuthorizedKey at hl
  cases ht : k.type with
  | none => rw [ht] at hl; cases hl
  | some t =>
    rw [ht, hm] at hl
    simp only [Option.some.injEq] at hl
    obtain ⟨a, tr, hta, h35, htc⟩ := cleanName_spec t (anykey_type_clean k t ht)
    -- m is not empty (parsePublicKey [] fails)
    have hmne : ∃ m0 mr, m = m0 :: mr := by
      cases m with
      | nil =>
        have hn : C41.parsePublicKey o [] = none := rfl
        rw [hn] at hp; cases hp
      | cons m0 mr => exact ⟨m0, mr, rfl⟩
    obtain ⟨m0, mr, hmc⟩ := hmne
    have hbc : ∀ c ∈ b64Encode m, isAsciiSpace c = false := b64Encode_nonspace _ m (Nat.le_refl _)
    have hbne : b64Encode m ≠ [] := by rw [hmc]; exact b64Encode_ne_nil m0 mr
    obtain ⟨z, br, hbr⟩ : ∃ z br, (b64Encode m).reverse = z :: br := by
      cases hrev : (b64Encode m).reverse with
      | nil => exact absurd (List.reverse_eq_nil_iff.mp hrev) hbne
      | cons z br => exact ⟨z, br, rfl⟩
    have hz : isAsciiSpace z = false := hbc z (by
      have : z ∈ (b64Encode m).reverse := by rw [hbr]; exact List.mem_cons_self ..
      exact List.mem_reverse.mp this)
    obtain ⟨b0, bt, hb0⟩ : ∃ b0 bt, b64Encode m = b0 :: bt := by
      cases hb : b64Encode m with
      | nil => exact absurd hb hbne
      | cons b0 bt => exact ⟨b0, bt, rfl⟩
    -- L = the line without its newline
    let L := t ++ 32 :: b64Encode m
    have hline : line = L ++ [10] := by rw [← hl]; simp [L]
    have hLc : ∀ c ∈ L, c ≠ 10 ∧ c ≠ 13 := by
      intro c hc
      simp only [L, List.mem_append, List.mem_cons] at hc
      rcases hc with hc | rfl | hc
      · exact ⟨ne10_of_nonspace c (htc c hc), ne13_of_nonspace c (htc c hc)⟩
      · exact ⟨by decide, by decide⟩
      · exact ⟨ne10_of_nonspace c (hbc c hc), ne13_of_nonspace c (hbc c hc)⟩
    have hLcons : L = a :: (tr ++ 32 :: b64Encode m) := by simp [L, hta]
    have hLrev : (a :: (tr ++ 32 :: b64Encode m)).reverse = z :: (br ++ 32 :: t.reverse) := by
      rw [← hLcons]; simp [L, hbr]
    have haS : isAsciiSpace a = false := htc a (by rw [hta]; exact List.mem_cons_self ..)
    -- the key field
    have hkf : parseKeyField o (32 :: b64Encode m) = some (k, []) := by
      unfold parseKeyField
      have htrim : trimSpace (32 :: b64Encode m) = b64Encode m := by
        unfold trimSpace trimLeft
        have h32 : isAsciiSpace 32 = true := by decide
        rw [List.dropWhile_cons, if_pos h32, hb0, dropWhile_head _ b0 bt (by rw [hb0] at hbc; exact hbc b0 (List.mem_cons_self ..))]
        rw [← hb0, hbr, dropWhile_head _ z br hz, ← hbr, List.reverse_reverse]
      simp only [htrim, splitSpTab_none _ (fun c hc => spTab_space c (hbc c hc)), b64_roundtrip, hp]
      rfl
    -- one line
    have hal : authorizedLine o L (some []) = some (.ok k [] [] (some [])) := by
      unfold authorizedLine
      rw [cutCR_id L (fun c hc => (hLc c hc).2), hLcons, trimSpace_id a z _ _ hLrev haS hz, ← hLcons]
      have hsp : splitSpTab L = some (t, 32 :: b64Encode m) :=
        splitSpTab_append t _ 32 (by decide) (fun c hc => spTab_space c (htc c hc))
      rw [hLcons]
      simp only [h35, ↓reduceIte]
      rw [← hLcons, hsp]
      simp only [hkf, ht, ↓reduceIte]
    unfold parseAuthorizedKey
    rw [hline, parseAuthorizedKeyGo]
    have hne : (L ++ [10]).isEmpty = false := by simp [L]
    rw [hne]
    simp only [Bool.false_eq_true, ↓reduceIte, cutLine_append L (fun c hc => (hLc c hc).1), hal]


theorem plain_not_arm (o : PtOracle) (k : PubKey) (hk : KeyWF o k) : C41.certArms.contains k.type = false := by
  cases k with
  | ecdsa bits pt =>
    obtain ⟨hb, _, _⟩ := hk
    rcases hb with hb | hb | hb <;> subst hb <;>
      (show C41.certArms.contains (nm "ecdsa-sha2-" ++ curveName _) = false; decide)
  | rsa e n => show C41.certArms.contains algoRSA = false; decide
  | dsa p q g y => show C41.certArms.contains algoDSA = false; decide
  | skecdsa pt app => show C41.certArms.contains algoSKECDSA = false; decide
  | ed25519 kb => show C41.certArms.contains algoED25519 = false; decide
  | sked25519 kb app => show C41.certArms.contains algoSKED25519 = false; decide

theorem parsePublicKey_plain (o : PtOracle) (k : PubKey) (hk : KeyWF o k) :
    C41.parsePublicKey o k.marshal = some (.plain k) := by
  unfold C41.parsePublicKey
  have hs : parseString k.marshal = some (k.type, k.body) := by
    have := parseString_putString k.type (type_length k) k.body
    simpa [PubKey.marshal] using this
  rw [hs]
  simp only [plain_not_arm o k hk, Bool.false_eq_true, ↓reduceIte, parsePlainKey_marshal o k hk, Option.map_some]

/-- every well-formed plain key of every kind survives MarshalAuthorizedKey → ParseAuthorizedKey -/
theorem authorized_roundtrip_plain (o : PtOracle) (k : PubKey) (hk : KeyWF o k) (line : Bytes)
    (hl : marshalAuthorizedKey (.plain k) = some line) :
    parseAuthorizedKey o line = .ok (.plain k) [] [] (some []) :=
  authorized_roundtrip o (.plain k) k.marshal line rfl (parsePublicKey_plain o k hk) hl

/-- … and so does every well-formed certificate -/
theorem authorized_roundtrip_cert (o : PtOracle) (c : C41.Cert) (s : C41.Sig) (hc : C41.CertWF o c s)
    (b line : Bytes) (hb : c.marshal = some b) (hl : marshalAuthorizedKey (.cert c) = some line) :
    parseAuthorizedKey o line = .ok (.cert c) [] [] (some []) :=
  authorized_roundtrip o (.cert c) b line hb (C41.marshal_parse o c s hc b hb) hl

/-- non-vacuity: an Ed25519 key -/
example : ∃ line, marshalAuthorizedKey (.plain (.ed25519 (List.replicate 32 1))) = some line ∧
    parseAuthorizedKey (fun _ _ => false) line = .ok (.plain (.ed25519 (List.replicate 32 1))) [] [] (some []) :=
  ⟨_, rfl, authorized_roundtrip_plain _ _ (by show (List.replicate 32 (1 : UInt8)).length = 32; decide) _ rfl⟩


/-! ## a key is returned only when the declared type matches the blob -/

/-- ParseAuthorizedKey, one line: a returned key `k` was decoded from the field after a declared type
    token `ty` with `ty = k.Type()`; the token is the first blank-delimited word of the (trimmed) line
    with no options returned, or the first word after the options field, with exactly the scanner's
    candidate options returned -/
theorem authorizedLine_type_match (o : PtOracle) (line : Bytes) (rest : Option Bytes)
    (k : C41.AnyKey) (c : Bytes) (opts : List Bytes) (r : Option Bytes)
    (h : authorizedLine o line rest = some (.ok k c opts r)) :
    ∃ ty after, some ty = k.type ∧ parseKeyField o after = some (k, c) ∧ r = rest ∧
      ((splitSpTab (trimSpace (cutCR line)) = some (ty, after) ∧ opts = []) ∨
       (splitSpTab ((scanOptions (trimSpace (cutCR line)) {}).2.dropWhile isSpTab) = some (ty, after) ∧
        opts = (scanOptions (trimSpace (cutCR line)) {}).1)) := by
  unfold authorizedLine at h
  generalize trimSpace (cutCR line) = inp at h ⊢
  cases inp with
  | nil => simp at h
  | cons c0 t =>
    simp only at h
    split at h
    · cases h
    · cases hs : splitSpTab (c0 :: t) with
      | none => rw [hs] at h; cases h
      | some p =>
        obtain ⟨ty, after⟩ := p
        rw [hs] at h
        simp only at h
        -- first attempt
        cases hk : parseKeyField o after with
        | some q =>
          obtain ⟨k1, c1⟩ := q
          simp only [hk] at h
          by_cases hty : some ty = k1.type
          · simp only [hty, ↓reduceIte, Option.some.injEq, AKResult.ok.injEq] at h
            obtain ⟨rfl, rfl, rfl, rfl⟩ := h
            exact ⟨ty, after, hty, hk, rfl, Or.inl ⟨rfl, rfl⟩⟩
          · simp only [hty, ↓reduceIte] at h
            split at h
            · cases h
            · split at h
              · cases h
              · rename_i ty2 after2 hs2
                split at h
                · rename_i k2 c2 hk2
                  split at h
                  · rename_i hty2
                    simp only [Option.some.injEq, AKResult.ok.injEq] at h
                    obtain ⟨rfl, rfl, rfl, rfl⟩ := h
                    exact ⟨ty2, after2, hty2, hk2, rfl, Or.inr ⟨hs2, rfl⟩⟩
                  · cases h
                · cases h
        | none =>
          simp only [hk] at h
          split at h
          · cases h
          · split at h
            · cases h
            · rename_i ty2 after2 hs2
              split at h
              · rename_i k2 c2 hk2
                split at h
                · rename_i hty2
                  simp only [Option.some.injEq, AKResult.ok.injEq] at h
                  obtain ⟨rfl, rfl, rfl, rfl⟩ := h
                  exact ⟨ty2, after2, hty2, hk2, rfl, Or.inr ⟨hs2, rfl⟩⟩
                · cases h
              · cases h

/-- ParseKnownHosts: a returned key has the type named in the field after the hosts field
    (field 1, or field 2 when a marker is present) -/
theorem knownHostsFields_type_match (o : PtOracle) (kf : List Bytes) (rest : Option Bytes)
    (marker : Bytes) (hosts : List Bytes) (k : C41.AnyKey) (c : Bytes) (r : Option Bytes)
    (h : knownHostsFields o kf rest = .ok marker hosts k c r) :
    ∃ pre hostsF want kp, kf = pre ++ hostsF :: want :: kp ∧ pre.length ≤ 1 ∧ k.type = some want ∧
      parseKeyField o (joinSp kp) = some (k, c) := by
  unfold knownHostsFields at h
  match kf, h with
  | [], h => cases h
  | [] :: _, h => cases h
  | (c0 :: m) :: tl, h =>
    simp only at h
    by_cases h64 : c0 = 64
    · simp only [h64, ↓reduceIte] at h
      match tl, h with
      | [], h => cases h
      | [_], h => cases h
      | hostsF :: want :: kp, h =>
        simp only at h
        cases hk : parseKeyField o (joinSp kp) with
        | none => rw [hk] at h; cases h
        | some q =>
          obtain ⟨k1, c1⟩ := q
          rw [hk] at h
          simp only at h
          by_cases ht : k1.type ≠ some want
          · rw [if_pos ht] at h; cases h
          · rw [if_neg ht] at h
            simp only [KHResult.ok.injEq] at h
            obtain ⟨_, _, rfl, rfl, _⟩ := h
            exact ⟨[(c0 :: m)], hostsF, want, kp, by simp, by simp, Decidable.not_not.mp ht, hk⟩
    · simp only [h64, ↓reduceIte] at h
      match tl, h with
      | [], h => cases h
      | want :: kp, h =>
        simp only at h
        cases hk : parseKeyField o (joinSp kp) with
        | none => rw [hk] at h; cases h
        | some q =>
          obtain ⟨k1, c1⟩ := q
          rw [hk] at h
          simp only at h
          by_cases ht : k1.type ≠ some want
          · rw [if_pos ht] at h; cases h
          · rw [if_neg ht] at h
            simp only [KHResult.ok.injEq] at h
            obtain ⟨_, _, rfl, rfl, _⟩ := h
            exact ⟨[], c0 :: m, want, kp, by simp, by simp, Decidable.not_not.mp ht, hk⟩


/-! ## non-vacuity examples -/

/-- `KeyWF` is satisfiable for an RSA key (so `parsePlain_body` / `parsePlainKey_marshal` apply) … -/
example : KeyWF (fun _ _ => false) (.rsa 65537 35) := by
  refine ⟨by decide, by decide, by decide +kernel, by decide +kernel, by decide +kernel, by decide +kernel⟩
/-- … and for an ECDSA key under an oracle that accepts its point -/
example : KeyWF (fun _ _ => true) (.ecdsa 384 [4, 1, 2]) := ⟨Or.inr (Or.inl rfl), rfl, by decide⟩

def exKey : C41.AnyKey := .plain (.ed25519 (List.replicate 32 1))
def exLine : Bytes := nm "no-pty,command=\"a, b\" ssh-ed25519 " ++ b64Encode ((exKey.marshal).getD []) ++ nm " me@host"

/-- an accepted authorized_keys line with options and a comment (hypothesis of `authorizedLine_type_match`) -/
example : authorizedLine (fun _ _ => false) exLine none =
    some (.ok exKey (nm "me@host") [nm "no-pty", nm "command=\"a, b\""] none) := by decide +kernel

/-- the same line with a different declared type is not accepted -/
example : authorizedLine (fun _ _ => false)
    (nm "ssh-rsa " ++ b64Encode ((exKey.marshal).getD [])) none = none := by decide +kernel

/-- an accepted known_hosts entry with a marker (hypothesis of `knownHostsFields_type_match`) -/
example : knownHostsFields (fun _ _ => false)
    [nm "@cert-authority", nm "*.example.com,h2", nm "ssh-ed25519", b64Encode ((exKey.marshal).getD [])] none =
    .ok (nm "cert-authority") [nm "*.example.com", nm "h2"] exKey [] none := by decide +kernel

/-- the whole-line statement, as a `Prop` (kept under its old name) -/
def authorized_roundtrip_full : Prop :=
  ∀ (o : PtOracle) (k : C41.AnyKey) (m line : Bytes),
    k.marshal = some m → C41.parsePublicKey o m = some k → marshalAuthorizedKey k = some line →
    ∃ r, parseAuthorizedKey o line = .ok k [] [] r ∧ (r = some [] ∨ r = none)

theorem authorized_roundtrip_full_holds : authorized_roundtrip_full :=
  fun o k m line hm hp hl => ⟨some [], authorized_roundtrip o k m line hm hp hl, Or.inl rfl⟩

end XC.C38
