/-
  C38 — property theorems: public key wire formats, authorized_keys / known_hosts lines.

  * per key kind `ParsePublicKey(Marshal(k)) = k` (over the abstract point-validity oracle):
    `parsePlain_body`, `parsePlainKey_marshal` (XC/Proofs/C38_Keys.lean) and, for certificates,
    `XC.C41.marshal_parse` (XC/Proofs/C41.lean); `mpintVal_mpintBytes`, `parseString_inv` underneath;
  * base64: `b64_roundtrip` (Decode ∘ Encode = id) — the transport of MarshalAuthorizedKey;
  * the options scanner of ParseAuthorizedKey equals a structurally recursive specification
    (`scanOptions_spec`): blank outside quotes ends the field, comma outside quotes separates,
    `\"` does not toggle, empty pieces are dropped;
  * ParseKnownHosts never indexes out of range (`parseKnownHosts_no_panic`); all other parsers are
    total functions of the model with no panic outcome at all.
  Not proved (differential only: `back=1` on every `pub` op): the whole-line statement
  `authorized_roundtrip_full`.
-/
import XC.Model.C38
import XC.Proofs.C41
namespace XC.C38
open XC

/-! ## base64 -/

theorem b64Val_b64Char : ∀ v, v < 64 → b64Val (b64Char v) = some v := by decide +kernel
theorem b64Char_ne_pad : ∀ v, v < 64 → b64Char v ≠ 61 := by decide +kernel

theorem b64Last_enc3 (a b c : UInt8) :
    b64Last (b64Char (a.toNat / 4)) (b64Char (a.toNat % 4 * 16 + b.toNat / 16))
      (b64Char (b.toNat % 16 * 4 + c.toNat / 64)) (b64Char (c.toNat % 64)) = some [a, b, c] := by
  have ha := u8_lt a; have hb := u8_lt b; have hc := u8_lt c
  have n3 := b64Char_ne_pad (b.toNat % 16 * 4 + c.toNat / 64) (by omega)
  have n4 := b64Char_ne_pad (c.toNat % 64) (by omega)
  simp only [b64Last, b64Val_b64Char (a.toNat / 4) (by omega),
    b64Val_b64Char (a.toNat % 4 * 16 + b.toNat / 16) (by omega),
    b64Val_b64Char (b.toNat % 16 * 4 + c.toNat / 64) (by omega),
    b64Val_b64Char (c.toNat % 64) (by omega), n3, n4, false_and, and_false, ↓reduceIte]
  have e1 : UInt8.ofNat (a.toNat / 4 * 4 + (a.toNat % 4 * 16 + b.toNat / 16) / 16) = a := by
    rw [← u8_ofNat_toNat a]; apply u8_ofNat_eq; simp only [u8_ofNat_toNat]; omega
  have e2 : UInt8.ofNat ((a.toNat % 4 * 16 + b.toNat / 16) % 16 * 16 + (b.toNat % 16 * 4 + c.toNat / 64) / 4) = b := by
    rw [← u8_ofNat_toNat b]; apply u8_ofNat_eq; simp only [u8_ofNat_toNat]; omega
  have e3 : UInt8.ofNat ((b.toNat % 16 * 4 + c.toNat / 64) % 4 * 64 + c.toNat % 64) = c := by
    rw [← u8_ofNat_toNat c]; apply u8_ofNat_eq; simp only [u8_ofNat_toNat]; omega
  rw [e1, e2, e3]

/-- `StdEncoding.Decode(StdEncoding.Encode(x)) = x` for every byte string -/
theorem b64Decode_b64Encode : ∀ (n : Nat) (x : Bytes), x.length ≤ n → b64Decode (b64Encode x) = some x := by
  intro n
  induction n with
  | zero => intro x hx; cases x with
    | nil => rfl
    | cons a t => simp at hx
  | succ n ih =>
    intro x hx
    match x, hx with
    | [], _ => rfl
    | [a], _ =>
      have ha := u8_lt a
      simp only [b64Encode, b64Decode, List.isEmpty_nil, ↓reduceIte, b64Last,
        b64Val_b64Char (a.toNat / 4) (by omega), b64Val_b64Char (a.toNat % 4 * 16) (by omega), and_self]
      have e1 : UInt8.ofNat (a.toNat / 4 * 4 + a.toNat % 4 * 16 / 16) = a := by
        rw [← u8_ofNat_toNat a]; apply u8_ofNat_eq; simp only [u8_ofNat_toNat]; omega
      rw [e1]
    | [a, b], _ =>
      have ha := u8_lt a; have hb := u8_lt b
      have n3 := b64Char_ne_pad (b.toNat % 16 * 4) (by omega)
      simp only [b64Encode, b64Decode, List.isEmpty_nil, ↓reduceIte, b64Last,
        b64Val_b64Char (a.toNat / 4) (by omega), b64Val_b64Char (a.toNat % 4 * 16 + b.toNat / 16) (by omega),
        b64Val_b64Char (b.toNat % 16 * 4) (by omega), n3, false_and]
      have e1 : UInt8.ofNat (a.toNat / 4 * 4 + (a.toNat % 4 * 16 + b.toNat / 16) / 16) = a := by
        rw [← u8_ofNat_toNat a]; apply u8_ofNat_eq; simp only [u8_ofNat_toNat]; omega
      have e2 : UInt8.ofNat ((a.toNat % 4 * 16 + b.toNat / 16) % 16 * 16 + b.toNat % 16 * 4 / 4) = b := by
        rw [← u8_ofNat_toNat b]; apply u8_ofNat_eq; simp only [u8_ofNat_toNat]; omega
      rw [e1, e2]
    | a :: b :: c :: r, hx =>
      have ha := u8_lt a; have hb := u8_lt b; have hc := u8_lt c
      rw [b64Encode, b64Decode]
      by_cases hr : (b64Encode r).isEmpty = true
      · have hr' : r = [] := by
          cases r with
          | nil => rfl
          | cons a1 t1 =>
            cases t1 with
            | nil => simp [b64Encode] at hr
            | cons a2 t2 =>
              cases t2 with
              | nil => simp [b64Encode] at hr
              | cons a3 t3 => simp [b64Encode] at hr
        subst hr'
        simp only [b64Encode, List.isEmpty_nil, ↓reduceIte]
        exact b64Last_enc3 a b c
      · have hlen : r.length ≤ n := by simp only [List.length_cons] at hx; omega
        simp only [hr, Bool.false_eq_true, ↓reduceIte, b64Val_b64Char (a.toNat / 4) (by omega),
          b64Val_b64Char (a.toNat % 4 * 16 + b.toNat / 16) (by omega),
          b64Val_b64Char (b.toNat % 16 * 4 + c.toNat / 64) (by omega),
          b64Val_b64Char (c.toNat % 64) (by omega), ih r hlen]
        have e1 : UInt8.ofNat (a.toNat / 4 * 4 + (a.toNat % 4 * 16 + b.toNat / 16) / 16) = a := by
          rw [← u8_ofNat_toNat a]; apply u8_ofNat_eq; simp only [u8_ofNat_toNat]; omega
        have e2 : UInt8.ofNat ((a.toNat % 4 * 16 + b.toNat / 16) % 16 * 16 + (b.toNat % 16 * 4 + c.toNat / 64) / 4) = b := by
          rw [← u8_ofNat_toNat b]; apply u8_ofNat_eq; simp only [u8_ofNat_toNat]; omega
        have e3 : UInt8.ofNat ((b.toNat % 16 * 4 + c.toNat / 64) % 4 * 64 + c.toNat % 64) = c := by
          rw [← u8_ofNat_toNat c]; apply u8_ofNat_eq; simp only [u8_ofNat_toNat]; omega
        rw [e1, e2, e3]

theorem b64_roundtrip (x : Bytes) : b64Decode (b64Encode x) = some x :=
  b64Decode_b64Encode x.length x (Nat.le_refl _)


/-! ## the options scanner against a structurally recursive specification -/

/-- sshd's rule for a double quote: it toggles the quoted state unless preceded by a backslash -/
def qstep (q : Bool) (prev : Option UInt8) (b : UInt8) : Bool :=
  if b = 34 ∧ prev ≠ some 92 then !q else q

/-- specification: walk the line; outside quotes a blank ends the options field and a comma ends an
    option; returns (bytes of the option being read, the following options, rest of the line starting
    at the terminating blank — empty if the line ends first) -/
def optSpec (q : Bool) (prev : Option UInt8) : Bytes → Bytes × List Bytes × Bytes
  | [] => ([], [], [])
  | b :: r =>
    if !q && isSpTab b then ([], [], b :: r)
    else if b = 44 ∧ !q then
      let p := optSpec q (some b) r
      ([], p.1 :: p.2.1, p.2.2)
    else
      let p := optSpec (qstep q prev b) (some b) r
      (b :: p.1, p.2.1, p.2.2)

def dropEmpty (l : List Bytes) : List Bytes := l.filter (fun x => !x.isEmpty)

theorem dropEmpty_cons (x : Bytes) (l : List Bytes) : dropEmpty (x :: l) = dropEmpty [x] ++ dropEmpty l := by
  simp only [dropEmpty, List.filter_cons, List.filter_nil]
  cases x.isEmpty <;> rfl

theorem flush_reverse (s : Scan) : s.flush.reverse = s.acc.reverse ++ dropEmpty [s.cur.reverse] := by
  unfold Scan.flush dropEmpty
  cases hc : s.cur with
  | nil => simp
  | cons a t => simp

theorem scan_end (b : UInt8) (r : Bytes) (s : Scan) (h : (!s.inQuote && isSpTab b) = true) :
    scanOptions (b :: r) s = (s.flush.reverse, b :: r) := by
  rw [scanOptions]; simp only [h, ↓reduceIte]

theorem scan_comma (b : UInt8) (r : Bytes) (s : Scan) (h : ¬ (!s.inQuote && isSpTab b) = true)
    (hc : b = 44 ∧ (!s.inQuote) = true) :
    scanOptions (b :: r) s = scanOptions r { s with acc := s.flush, cur := [], prev := some b } := by
  obtain ⟨hb, hq⟩ := hc
  subst hb
  have h44 : isSpTab 44 = false := by decide
  rw [scanOptions]; simp only [hq, h44, Bool.and_false, and_self, ↓reduceIte, Bool.false_eq_true]

theorem scan_other (b : UInt8) (r : Bytes) (s : Scan) (h : ¬ (!s.inQuote && isSpTab b) = true)
    (hc : ¬ (b = 44 ∧ (!s.inQuote) = true)) :
    scanOptions (b :: r) s =
      scanOptions r { s with inQuote := qstep s.inQuote s.prev b, cur := b :: s.cur, prev := some b } := by
  rw [scanOptions]; simp only [h, hc, ↓reduceIte, Bool.false_eq_true, qstep]

theorem spec_end (b : UInt8) (r : Bytes) (q : Bool) (prev : Option UInt8) (h : (!q && isSpTab b) = true) :
    optSpec q prev (b :: r) = ([], [], b :: r) := by
  rw [optSpec]; simp only [h, ↓reduceIte]

theorem spec_comma (b : UInt8) (r : Bytes) (q : Bool) (prev : Option UInt8) (h : ¬ (!q && isSpTab b) = true)
    (hc : b = 44 ∧ (!q) = true) :
    optSpec q prev (b :: r) = ([], (optSpec q (some b) r).1 :: (optSpec q (some b) r).2.1, (optSpec q (some b) r).2.2) := by
  obtain ⟨hb, hq⟩ := hc
  subst hb
  have h44 : isSpTab 44 = false := by decide
  rw [optSpec]; simp only [hq, h44, Bool.and_false, and_self, ↓reduceIte, Bool.false_eq_true]

theorem spec_other (b : UInt8) (r : Bytes) (q : Bool) (prev : Option UInt8) (h : ¬ (!q && isSpTab b) = true)
    (hc : ¬ (b = 44 ∧ (!q) = true)) :
    optSpec q prev (b :: r) =
      (b :: (optSpec (qstep q prev b) (some b) r).1, (optSpec (qstep q prev b) (some b) r).2.1,
       (optSpec (qstep q prev b) (some b) r).2.2) := by
  rw [optSpec]; simp only [h, hc, ↓reduceIte, Bool.false_eq_true]

/-- The Go loop (indices, `optionStart`, `in[i-1]`, append) computes the specification: when the
    options field is terminated by an unquoted blank, the candidate options are exactly the
    non-empty comma-separated pieces, and the scan stops at that blank. -/
theorem scanOptions_spec : ∀ (inp : Bytes) (s : Scan), (optSpec s.inQuote s.prev inp).2.2 ≠ [] →
    scanOptions inp s =
      (s.acc.reverse ++ dropEmpty ((s.cur.reverse ++ (optSpec s.inQuote s.prev inp).1) :: (optSpec s.inQuote s.prev inp).2.1),
       (optSpec s.inQuote s.prev inp).2.2) := by
  intro inp
  induction inp with
  | nil => intro s h; exact absurd rfl h
  | cons b r ih =>
    intro s h
    by_cases hEnd : (!s.inQuote && isSpTab b) = true
    · rw [scan_end b r s hEnd, spec_end b r _ _ hEnd, flush_reverse]
      simp only [List.append_nil]
    · by_cases hComma : b = 44 ∧ (!s.inQuote) = true
      · rw [spec_comma b r _ _ hEnd hComma] at h ⊢
        rw [scan_comma b r s hEnd hComma, ih _ h, flush_reverse]
        simp only [List.reverse_nil, List.nil_append, List.append_nil, List.append_assoc]
        simp only [dropEmpty, ← List.filter_append, List.singleton_append]
      · rw [spec_other b r _ _ hEnd hComma] at h ⊢
        rw [scan_other b r s hEnd hComma, ih _ h]
        simp only [List.reverse_cons, List.append_assoc, List.singleton_append]

/-- non-vacuity / example: `command="a, b",no-pty ssh-ed25519 …` -/
example : (scanOptions (nm "command=\"a, b\",,no-pty ssh-rsa") {}).1 = [nm "command=\"a, b\"", nm "no-pty"] := by
  decide +kernel


/-! ## ParseKnownHosts: the index expressions of the Go code never go out of range -/

theorem fieldsGo_nonempty : ∀ (b cur : Bytes) (x : Bytes), x ∈ fieldsGo b cur → x ≠ [] := by
  intro b
  induction b with
  | nil =>
    intro cur x hx
    simp only [fieldsGo] at hx
    cases hc : cur with
    | nil => simp [hc] at hx
    | cons a t => simp [hc] at hx; subst hx; simp
  | cons c r ih =>
    intro cur x hx
    simp only [fieldsGo] at hx
    by_cases hs : isAsciiSpace c = true
    · simp only [hs, ↓reduceIte] at hx
      cases hc : cur with
      | nil => simp only [hc, List.isEmpty_nil, ↓reduceIte] at hx; exact ih [] x hx
      | cons a t =>
        simp only [hc, List.isEmpty_cons, Bool.false_eq_true, ↓reduceIte, List.mem_cons] at hx
        rcases hx with hx | hx
        · subst hx; simp
        · exact ih [] x hx
    · simp only [hs, Bool.false_eq_true, ↓reduceIte] at hx
      exact ih (c :: cur) x hx

/-- `keyFields[0][0]`, `keyFields[1]`, `keyFields[2:]` are always in range: the panic outcome of the
    model is unreachable once `bytes.Fields` returned at least three (non-empty) fields -/
theorem knownHostsFields_no_panic (o : PtOracle) (kf : List Bytes) (rest : Option Bytes)
    (hl : 3 ≤ kf.length) (hne : ∀ x ∈ kf, x ≠ []) : knownHostsFields o kf rest ≠ .panic := by
  unfold knownHostsFields
  match kf, hl, hne with
  | [], hl, _ => simp at hl
  | [] :: _, _, hne => exact absurd rfl (hne [] (List.mem_cons_self ..))
  | (c0 :: m) :: tl, hl, _ =>
    simp only [List.length_cons] at hl
    by_cases h64 : c0 = 64
    · simp only [h64, ↓reduceIte]
      match tl, hl with
      | [], hl => simp at hl
      | [_], hl => simp at hl
      | hosts :: want :: kp, _ =>
        simp only
        split <;> (try split) <;> simp
    · simp only [h64, ↓reduceIte]
      match tl, hl with
      | [], hl => simp at hl
      | want :: kp, _ =>
        simp only
        split <;> (try split) <;> simp

theorem knownHostsLine_no_panic (o : PtOracle) (line : Bytes) (rest : Option Bytes) :
    knownHostsLine o line rest ≠ some .panic := by
  unfold knownHostsLine
  generalize trimSpace (cutCR line) = inp
  cases inp with
  | nil => simp
  | cons c t =>
    simp only
    split
    · simp
    · split
      · simp
      · split
        · simp
        · rename_i hl
          simp only [Option.some.injEq, ne_eq]
          exact knownHostsFields_no_panic o _ rest (by omega) (fieldsGo_nonempty (c :: t) [])

/-- every line, every input: ParseKnownHosts never panics -/
theorem parseKnownHosts_no_panic (o : PtOracle) : ∀ (f : Nat) (inp : Bytes), parseKnownHostsGo o f inp ≠ .panic := by
  intro f
  induction f with
  | zero => intro inp; simp [parseKnownHostsGo]
  | succ f ih =>
    intro inp
    unfold parseKnownHostsGo
    split
    · simp
    · simp only
      split
      · rename_i r h
        intro hp; rw [hp] at h
        exact knownHostsLine_no_panic o _ _ h
      · split
        · simp
        · exact ih _


/-! ## whole-line round trip (statement only) -/

/-- `ParseAuthorizedKey(MarshalAuthorizedKey(k))` returns `k`, no comment, no options, empty rest.
    Not proved as a whole (it composes `b64_roundtrip`, the key round trips above and the line
    scanner on a line without blanks in the type name); checked on every `pub` op (`back=1`). -/
def authorized_roundtrip_full : Prop :=
  ∀ (o : PtOracle) (k : C41.AnyKey) (m line : Bytes),
    k.marshal = some m → C41.parsePublicKey o m = some k → marshalAuthorizedKey k = some line →
    ∃ r, parseAuthorizedKey o line = .ok k [] [] r ∧ (r = some [] ∨ r = none)

end XC.C38
