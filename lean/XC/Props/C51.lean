/-
  C51 — property theorems over XC.Model.C51.
-/
import XC.Model.C51
namespace XC.C51

/-! ## Go's truncating division, made usable for `omega` -/

theorem tdiv_pos_spec (x d : Int) (hd : 0 < d) :
    (0 ≤ x → d * x.tdiv d ≤ x ∧ x < d * x.tdiv d + d) ∧
    (x < 0 → x ≤ d * x.tdiv d ∧ d * x.tdiv d - d < x) := by
  constructor
  · intro hx
    rw [Int.tdiv_eq_ediv_of_nonneg hx]
    constructor
    · exact Int.mul_ediv_self_le (by omega)
    · exact Int.lt_mul_ediv_self_add hd
  · intro hx
    have e : x = -(-x) := by omega
    have hq : x.tdiv d = -((-x) / d) := by
      rw [e, Int.neg_tdiv, Int.tdiv_eq_ediv_of_nonneg (by omega)]; simp
    rw [hq]
    have h1 : d * ((-x) / d) ≤ -x := Int.mul_ediv_self_le (by omega)
    have h2 : -x < d * ((-x) / d) + d := Int.lt_mul_ediv_self_add hd
    have h3 : d * -((-x) / d) = -(d * ((-x) / d)) := by rw [Int.mul_neg]
    omega

/-! ## 1. `Int63n` over the scripted source -/

theorem draw_lt (src : List Nat) : (draw src).1 < 9223372036854775808 := by
  cases src with
  | nil => simp [draw]
  | cons v r => simp only [draw]; omega

theorem reject_le (mx : Nat) (src : List Nat) : (reject mx src).1 ≤ mx := by
  induction src with
  | nil => simp [reject]
  | cons v r ih =>
    simp only [reject]
    split
    · simpa using ih
    · simp; omega

/-- `Int63n` panics exactly for a non-positive argument. -/
theorem int63n_none_iff (n : Int) (src : List Nat) : int63n n src = none ↔ n ≤ 0 := by
  unfold int63n
  by_cases h : n ≤ 0
  · simp [h]
  · simp only [h, if_false]
    split <;> simp

/-- For a positive argument the result lies in `[0, n)`, whatever the source yields. -/
theorem int63n_range (n : Int) (src : List Nat) (j : Int) (k : Nat)
    (h : int63n n src = some (j, k)) : 0 ≤ j ∧ j < n := by
  unfold int63n at h
  by_cases hn : n ≤ 0
  · simp [hn] at h
  · simp only [hn, if_false] at h
    have hpos : 0 < n.toNat := by omega
    have hcast : (n.toNat : Int) = n := Int.toNat_of_nonneg (by omega)
    split at h
    · simp only [Option.some.injEq, Prod.mk.injEq] at h
      obtain ⟨hj, _⟩ := h
      have : (draw src).1 &&& (n.toNat - 1) ≤ n.toNat - 1 := Nat.and_le_right
      omega
    · simp only [Option.some.injEq, Prod.mk.injEq] at h
      obtain ⟨hj, _⟩ := h
      have : (reject (9223372036854775807 - 9223372036854775808 % n.toNat) src).1 % n.toNat < n.toNat :=
        Nat.mod_lt _ hpos
      omega

/-! ## 2. `domainRenewal.next` -/

theorem clampDur_bounds (x : Int) : minDur ≤ clampDur x ∧ clampDur x ≤ maxDur := by
  unfold clampDur minDur maxDur
  split
  · omega
  · split <;> omega

theorem threshold_le (rb nb na : Int) : threshold rb nb na ≤ day30 := by
  unfold threshold
  split <;> omega

theorem threshold_ge (rb nb na : Int) : -3074457345618258603 ≤ threshold rb nb na := by
  unfold threshold
  split
  · simp only [day30]; omega
  · have hc := (clampDur_bounds (na - nb)).1
    have := tdiv_pos_spec (clampDur (na - nb)) 3 (by omega)
    simp only [minDur, day30] at *
    omega

/-- never negative (no hypothesis at all: the final `max(0, ·)`). -/
theorem next_nonneg (rb nb na now : Int) (src : List Nat) (d : Int) (k : Nat)
    (h : next rb nb na now src = some (d, k)) : 0 ≤ d := by
  unfold next at h
  simp only at h
  split at h
  · simp at h
  · simp only [Option.some.injEq, Prod.mk.injEq] at h
    omega

/-- `next` never panics: `Int63n` is only reached with a positive argument. -/
theorem next_total (rb nb na now : Int) (src : List Nat) :
    ∃ d k, next rb nb na now src = some (d, k) := by
  unfold next
  simp only
  by_cases hm : maxJitter (threshold rb nb na) > 0
  · simp only [hm, if_true]
    cases hi : int63n (maxJitter (threshold rb nb na)) src with
    | none => exact absurd ((int63n_none_iff _ _).1 hi) (by omega)
    | some p => exact ⟨_, _, rfl⟩
  · simp only [hm, if_false]
    exact ⟨_, _, rfl⟩

/-- the two int64 wraps inside `notAfter.Add(-(threshold - jitter))` never fire -/
theorem renewAt_exact (rb nb na j : Int) (hj0 : 0 ≤ j) (hj : j < hour) :
    renewAt na (threshold rb nb na) j = na - threshold rb nb na + j := by
  have h1 := threshold_le rb nb na
  have h2 := threshold_ge rb nb na
  unfold renewAt wrap64
  simp only [day30, hour] at *
  omega

/-- The renewal instant lies in the documented jitter window
    `[notAfter − threshold, notAfter − threshold + maxJitter)` whenever jitter is drawn, and exactly at
    `notAfter − threshold` otherwise; the returned delay is that instant minus `now`, saturated to a
    `Duration`, and floored at zero. -/
theorem next_window (rb nb na now : Int) (src : List Nat) (d : Int) (k : Nat)
    (h : next rb nb na now src = some (d, k)) :
    ∃ at_ : Int,
      d = max 0 (clampDur (at_ - now)) ∧
      na - threshold rb nb na ≤ at_ ∧
      (maxJitter (threshold rb nb na) > 0 → at_ < na - threshold rb nb na + maxJitter (threshold rb nb na)) ∧
      (maxJitter (threshold rb nb na) ≤ 0 → at_ = na - threshold rb nb na) := by
  unfold next at h
  simp only at h
  by_cases hm : maxJitter (threshold rb nb na) > 0
  · simp only [hm, if_true] at h
    cases hi : int63n (maxJitter (threshold rb nb na)) src with
    | none => simp [hi] at h
    | some p =>
      obtain ⟨j, k'⟩ := p
      simp only [hi, Option.some.injEq, Prod.mk.injEq] at h
      obtain ⟨hj0, hj⟩ := int63n_range _ _ _ _ hi
      have hmj : maxJitter (threshold rb nb na) ≤ hour := by unfold maxJitter; omega
      have e := renewAt_exact rb nb na j hj0 (by omega)
      refine ⟨na - threshold rb nb na + j, ?_, by omega, fun _ => by omega, fun hh => by omega⟩
      rw [← e]; exact h.1.symm
  · simp only [hm, if_false, Option.some.injEq, Prod.mk.injEq] at h
    have e := renewAt_exact rb nb na 0 (by omega) (by simp [hour])
    refine ⟨na - threshold rb nb na, ?_, by omega, fun hh => absurd hh hm, fun _ => rfl⟩
    rw [show na - threshold rb nb na = na - threshold rb nb na + 0 by omega, ← e]; exact h.1.symm

/-- The window is at most 10 % of the threshold and at most one hour wide, and with a positive
    threshold it ends before the certificate expires. -/
theorem window_shape (th : Int) :
    maxJitter th ≤ hour ∧ (0 ≤ th → 10 * maxJitter th ≤ th) ∧ (0 < th → maxJitter th < th ∨ th < 0) := by
  unfold maxJitter
  have := tdiv_pos_spec th 10 (by omega)
  simp only [hour]
  omega

/-- the threshold is what the documentation says -/
theorem threshold_spec (rb nb na : Int) :
    (rb > 0 → threshold rb nb na = min rb day30) ∧
    (rb ≤ 0 → 0 ≤ na - nb → na - nb ≤ maxDur →
       3 * threshold rb nb na ≤ na - nb ∧ threshold rb nb na ≤ day30 ∧
       (threshold rb nb na = day30 ∨ na - nb < 3 * threshold rb nb na + 3)) := by
  constructor
  · intro h; simp [threshold, h]
  · intro h h0 h1
    have hn : ¬ rb > 0 := by omega
    have hc : clampDur (na - nb) = na - nb := by
      have h1' : na - nb ≤ 9223372036854775807 := h1
      unfold clampDur minDur maxDur
      split
      · omega
      · split <;> omega
    simp only [threshold, hn, if_false, hc]
    have := tdiv_pos_spec (na - nb) 3 (by omega)
    simp only [day30]
    omega

/-- Regression statement for the repaired defect: without the `maxJitter > 0` guard `next` panics
    exactly when the threshold is below 10 ns. -/
theorem nextUnfixed_panics_iff (rb nb na now : Int) (src : List Nat) :
    nextUnfixed rb nb na now src = none ↔ threshold rb nb na < 10 := by
  unfold nextUnfixed
  simp only
  have hs := tdiv_pos_spec (threshold rb nb na) 10 (by omega)
  cases hi : int63n (maxJitter (threshold rb nb na)) src with
  | none =>
    have := (int63n_none_iff _ _).1 hi
    unfold maxJitter at this
    simp only [hour] at *
    simp; omega
  | some p =>
    have : ¬ maxJitter (threshold rb nb na) ≤ 0 := by
      intro hh; have := (int63n_none_iff _ src).2 hh; simp [hi] at this
    unfold maxJitter at this
    simp only [hour] at *
    simp; omega

example : nextUnfixed 5 0 1000000 0 [] = none := by decide
example : next 5 0 1000 0 [] = some (995, 0) := by decide
example : next 0 0 7776000000000000 0 [123456789] = some (5184000123456789, 1) := by decide

/-! ## 3. `validCert` and the `GetCertificate` pipeline -/

/-- `validCert` accepts exactly: inside the validity window (inclusive), right host name, not in the
    Let's Encrypt January-2022 batch, public key of a supported type that equals the private key's,
    and — unless a token certificate is asked for — of the key type the `certKey` names. -/
theorem validCert_spec (ck : CertKey) (c : Cert) (now : Int) :
    validCert ck c now = true ↔
      c.nb ≤ now ∧ now ≤ c.na ∧ c.hostOK = true ∧ ¬(c.issuerLE = true ∧ c.nb < leFixTime) ∧
      c.pub ≠ .other ∧ c.priv = c.pub ∧ c.keyMatch = true ∧
      (ck.isToken = true ∨ (c.pub = .rsa ↔ ck.isRSA = true)) := by
  unfold validCert
  obtain ⟨id, nb, na, host, le, pub, priv, km⟩ := c
  obtain ⟨dom, isRSA, isTok⟩ := ck
  by_cases h1 : now < nb
  · simp [h1]; omega
  by_cases h2 : now > na
  · simp [h1, h2]; omega
  simp only [h1, h2, if_false]
  cases host <;> cases le <;> cases pub <;> cases priv <;> cases km <;> cases isRSA <;> cases isTok <;>
    simp <;> omega

def isCacheOrCA : Ev → Bool
  | .get _ | .order _ | .put _ | .account .. | .csr .. => true
  | .policy _ => false

def isOrder : Ev → Bool
  | .order _ => true
  | _ => false

/-- result carries a certificate -/
def Res.cert? : Res → Option Cert
  | .served c | .issued c | .token c => some c
  | _ => none

theorem cacheGet_ok_valid (cache : Option Cache) (ck : CertKey) (now : Int) (c : Cert)
    (h : cacheGet cache ck now = .ok c) : validCert ck c now = true := by
  unfold cacheGet at h
  split at h
  · simp at h
  · split at h <;> try (simp at h)
    split at h
    · simp only [GetRes.ok.injEq] at h; subst h; assumption
    · simp at h

theorem polEv_no_cacheOrCA (w : World) (name : Bytes) : (polEv w name).all (fun e => !isCacheOrCA e) = true := by
  unfold polEv; cases w.whitelist <;> simp [isCacheOrCA]

/-- **policy_gate.** For a non-challenge hello nothing happens behind the host policy's back: if the
    policy does not accept the normalised name, no certificate is returned, `m.state` is unchanged and
    neither the cache nor the CA is touched (the policy is consulted *before* the cache lookup). -/
theorem policy_gate (w : World) (h : Hello) (name : Bytes) (now : Int)
    (hw : wantsTokenCert h = false) (hp : policyOK w name = false) :
    ((getCertificate w h (some name) now).1.all fun e => !isCacheOrCA e) = true ∧
    (getCertificate w h (some name) now).2.1.cert? = none ∧
    (getCertificate w h (some name) now).2.2 = w.state := by
  unfold getCertificate
  cases hn : nameOK h
  · simp [Res.cert?]
  · simp only [hw, hp, Bool.not_true, Bool.not_false, Bool.false_eq_true, if_false, if_true]
    refine ⟨polEv_no_cacheOrCA w name, ?_, ?_⟩ <;> first | rfl | trivial | simp [Res.cert?]

/-- the property's direction: a certificate came back for a non-challenge hello ⇒ the policy accepted
    the normalised name. -/
theorem served_implies_policy (w : World) (h : Hello) (name : Bytes) (now : Int) (c : Cert)
    (hw : wantsTokenCert h = false)
    (hr : (getCertificate w h (some name) now).2.1.cert? = some c) :
    policyOK w name = true := by
  cases hp : policyOK w name with
  | true => rfl
  | false => rw [(policy_gate w h name now hw hp).2.1] at hr; simp at hr

theorem tokenPath_valid (w : World) (name : Bytes) (now : Int) (c : Cert)
    (hr : (tokenPath w name now).2.1.cert? = some c) : validCert ⟨name, false, true⟩ c now = true := by
  unfold tokenPath at hr
  cases ht : w.tokens.lookup name with
  | some t => simp [ht, Res.cert?] at hr
  | none =>
    simp only [ht] at hr
    cases hg : cacheGet w.cache ⟨name, false, true⟩ now with
    | ok c' =>
      simp only [hg, Res.cert?, Option.some.injEq] at hr
      subst hr; exact cacheGet_ok_valid _ _ _ _ hg
    | miss => simp [hg, Res.cert?] at hr
    | err => simp [hg, Res.cert?] at hr

/-- the two ways `createCert` can end -/
theorem issue_cases (w : World) (ck : CertKey) (now : Int) :
    (issue w ck now).2 = (.errIssue, (ck.str, .failed) :: w.state) ∨
    ∃ c, w.ca ck = some c ∧ validCert ck c now = true ∧ (issue w ck now).2 = (.issued c, (ck.str, .ready c) :: w.state) := by
  unfold issue
  cases acctEv w.acct with
  | none => exact Or.inl rfl
  | some ae =>
    cases hca : w.ca ck with
    | none => exact Or.inl rfl
    | some c =>
      by_cases hv : validCert ck c now
      · exact Or.inr ⟨c, rfl, hv, by simp [hv]⟩
      · exact Or.inl (by simp [hv])

theorem issue_valid (w : World) (ck : CertKey) (now : Int) (c : Cert)
    (hr : (issue w ck now).2.1.cert? = some c) : validCert ck c now = true := by
  rcases issue_cases w ck now with h | ⟨c', _, hv, h⟩
  · rw [h] at hr; simp [Res.cert?] at hr
  · rw [h] at hr; simp only [Res.cert?, Option.some.injEq] at hr; subst hr; exact hv

theorem lookupOrIssue_valid (w : World) (ck : CertKey) (now : Int) (c : Cert)
    (hs : w.state.lookup ck.str = none)
    (hr : (lookupOrIssue w ck now).2.1.cert? = some c) : validCert ck c now = true := by
  unfold lookupOrIssue at hr
  simp only [hs] at hr
  cases hg : cacheGet w.cache ck now with
  | ok c' =>
    simp only [hg, Res.cert?, Option.some.injEq] at hr
    subst hr; exact cacheGet_ok_valid _ _ _ _ hg
  | err => simp [hg, Res.cert?] at hr
  | miss =>
    simp only [hg] at hr
    exact issue_valid w ck now c hr

/-- **served_cert_valid.** Whatever `GetCertificate` returns on a Manager whose in-memory state has no
    entry for the key was checked by `validCert` against the clock of this very call — cached,
    freshly issued and challenge certificates alike (see `validCert_spec` for what that means). -/
theorem served_cert_valid (w : World) (h : Hello) (a : Option Bytes) (now : Int) (c : Cert)
    (hst : ∀ name, a = some name → w.state.lookup (certKeyOf h name).str = none)
    (hr : (getCertificate w h a now).2.1.cert? = some c) :
    ∃ name, a = some name ∧
      validCert (if wantsTokenCert h then ⟨name, false, true⟩ else certKeyOf h name) c now = true := by
  unfold getCertificate at hr
  cases hn : nameOK h
  · simp [hn, Res.cert?] at hr
  simp only [hn, Bool.not_true, Bool.false_eq_true, if_false] at hr
  cases a with
  | none => simp [Res.cert?] at hr
  | some name =>
    refine ⟨name, rfl, ?_⟩
    simp only at hr
    cases hw : wantsTokenCert h
    · simp only [hw, Bool.false_eq_true, if_false] at hr ⊢
      cases hp : policyOK w name
      · simp [hp, Res.cert?] at hr
      · simp only [hp, Bool.not_true, Bool.false_eq_true, if_false] at hr
        exact lookupOrIssue_valid w _ now c (hst name rfl) hr
    · simp only [hw, if_true] at hr ⊢
      exact tokenPath_valid w name now c hr

/-- What the in-memory path does (observation O6): an entry of `m.state` is returned as it is, with
    no look at the clock.  So across a history the guarantee is "valid when it entered `m.state`". -/
theorem state_hit_unchecked (w : World) (h : Hello) (name : Bytes) (now : Int) (c : Cert)
    (hn : nameOK h = true) (hw : wantsTokenCert h = false) (hp : policyOK w name = true)
    (hs : w.state.lookup (certKeyOf h name).str = some (.ready c)) :
    getCertificate w h (some name) now = (polEv w name, .served c, w.state) := by
  simp [getCertificate, lookupOrIssue, hn, hw, hp, hs]

/-- …hence an expired certificate is served once it sits in `m.state` (observation O6): under the
    hypotheses of `state_hit_unchecked`, a clock past `NotAfter` changes nothing. -/
theorem state_serves_expired (w : World) (h : Hello) (name : Bytes) (now : Int) (c : Cert)
    (hn : nameOK h = true) (hw : wantsTokenCert h = false) (hp : policyOK w name = true)
    (hs : w.state.lookup (certKeyOf h name).str = some (.ready c)) (hexp : c.na < now) :
    (getCertificate w h (some name) now).2.1 = .served c ∧ validCert (certKeyOf h name) c now = false := by
  refine ⟨by rw [state_hit_unchecked w h name now c hn hw hp hs], ?_⟩
  cases hv : validCert (certKeyOf h name) c now with
  | false => rfl
  | true => have := ((validCert_spec _ _ _).1 hv).2.1; omega

theorem issue_state (w : World) (ck : CertKey) (now : Int) (k : Bytes) (c : Cert)
    (hin : (k, StateVal.ready c) ∈ (issue w ck now).2.2) :
    (k, StateVal.ready c) ∈ w.state ∨ (k = ck.str ∧ validCert ck c now = true) := by
  rcases issue_cases w ck now with h | ⟨c', _, hv, h⟩
  · rw [h] at hin; simp at hin; exact Or.inl hin
  · rw [h] at hin
    simp only [List.mem_cons, Prod.mk.injEq, StateVal.ready.injEq] at hin
    rcases hin with ⟨hk, hc⟩ | hin
    · subst hc; exact Or.inr ⟨hk, hv⟩
    · exact Or.inl hin

theorem lookupOrIssue_state (w : World) (ck : CertKey) (now : Int) (k : Bytes) (c : Cert)
    (hin : (k, StateVal.ready c) ∈ (lookupOrIssue w ck now).2.2) :
    (k, StateVal.ready c) ∈ w.state ∨ (k = ck.str ∧ validCert ck c now = true) := by
  unfold lookupOrIssue at hin
  cases hs : w.state.lookup ck.str with
  | some sv => cases sv <;> simp [hs] at hin <;> exact Or.inl hin
  | none =>
    simp only [hs] at hin
    cases hg : cacheGet w.cache ck now with
    | ok c' =>
      simp only [hg, List.mem_cons, Prod.mk.injEq, StateVal.ready.injEq] at hin
      rcases hin with ⟨hk, hc⟩ | hin
      · subst hc; exact Or.inr ⟨hk, cacheGet_ok_valid _ _ _ _ hg⟩
      · exact Or.inl hin
    | err => simp [hg] at hin; exact Or.inl hin
    | miss => simp only [hg] at hin; exact issue_state w ck now k c hin

/-- every `ready` entry a call adds to `m.state` passed `validCert` at the time of that call -/
theorem state_entries_valid_when_added (w : World) (h : Hello) (a : Option Bytes) (now : Int)
    (k : Bytes) (c : Cert)
    (hin : (k, StateVal.ready c) ∈ (getCertificate w h a now).2.2) :
    (k, StateVal.ready c) ∈ w.state ∨ ∃ name, a = some name ∧ k = (certKeyOf h name).str ∧
      validCert (certKeyOf h name) c now = true := by
  unfold getCertificate at hin
  cases hn : nameOK h
  · simp [hn] at hin; exact Or.inl hin
  simp only [hn, Bool.not_true, Bool.false_eq_true, if_false] at hin
  cases a with
  | none => exact Or.inl hin
  | some name =>
    simp only at hin
    cases hw : wantsTokenCert h
    · simp only [hw, Bool.false_eq_true, if_false] at hin
      cases hp : policyOK w name
      · simp [hp] at hin; exact Or.inl hin
      · simp only [hp, Bool.not_true, Bool.false_eq_true, if_false] at hin
        rcases lookupOrIssue_state w _ now k c hin with h1 | ⟨h1, h2⟩
        · exact Or.inl h1
        · exact Or.inr ⟨name, rfl, h1, h2⟩
    · simp only [hw, if_true] at hin
      unfold tokenPath at hin
      cases ht : w.tokens.lookup name with
      | some t => simp [ht] at hin; exact Or.inl hin
      | none =>
        simp only [ht] at hin
        cases hg : cacheGet w.cache ⟨name, false, true⟩ now <;> simp [hg] at hin <;> exact Or.inl hin

theorem getEv_no_order (w : World) (ck : CertKey) : (getEv w ck).filter isOrder = [] := by
  unfold getEv; cases w.cache <;> simp [isOrder]
theorem putEv_no_order (w : World) (ck : CertKey) : (putEv w ck).filter isOrder = [] := by
  unfold putEv; cases w.cache <;> simp [isOrder]
theorem polEv_no_order (w : World) (name : Bytes) : (polEv w name).filter isOrder = [] := by
  unfold polEv; cases w.whitelist <;> simp [isOrder]

theorem acctEv_no_order (a : Acct) (ae : List Ev) (h : acctEv a = some ae) : ae.filter isOrder = [] := by
  unfold acctEv at h
  split at h
  · simp at h; subst h; rfl
  · split at h
    · simp at h
    · simp at h; subst h; simp [isOrder]

theorem issue_orders (w : World) (ck : CertKey) (now : Int) :
    ((issue w ck now).1.filter isOrder).length ≤ 1 := by
  unfold issue
  cases ha : acctEv w.acct with
  | none => simp
  | some ae =>
    have := acctEv_no_order _ _ ha
    cases w.ca ck with
    | none => simp [List.filter_append, this, List.filter_cons, isOrder]
    | some c =>
      by_cases hv : validCert ck c now <;>
        simp [hv, isOrder, List.filter_cons, List.filter_append, this, putEv_no_order]

theorem lookupOrIssue_orders (w : World) (ck : CertKey) (now : Int) :
    ((lookupOrIssue w ck now).1.filter isOrder).length ≤ 1 ∧
    ((w.state.lookup ck.str).isSome → (lookupOrIssue w ck now).1.filter isOrder = []) := by
  unfold lookupOrIssue
  cases hs : w.state.lookup ck.str with
  | some sv => cases sv <;> simp
  | none =>
    cases hg : cacheGet w.cache ck now with
    | ok c => simp [getEv_no_order]
    | err => simp [getEv_no_order]
    | miss => simp [List.filter_append, getEv_no_order]; exact issue_orders w ck now

/-- A call sends at most one order, and none at all when `m.state` already has an entry for the key
    (the sequential face of "one creator per certKey"). -/
theorem order_needs_absent_state (w : World) (h : Hello) (a : Option Bytes) (now : Int) :
    ((getCertificate w h a now).1.filter isOrder).length ≤ 1 ∧
    (∀ name, a = some name → (w.state.lookup (certKeyOf h name).str).isSome →
      (getCertificate w h a now).1.filter isOrder = []) := by
  unfold getCertificate
  cases hn : nameOK h
  · simp
  simp only [Bool.not_true, Bool.false_eq_true, if_false]
  cases a with
  | none => simp
  | some name =>
    simp only
    cases hw : wantsTokenCert h
    · simp only [Bool.false_eq_true, if_false]
      cases hp : policyOK w name
      · simp [polEv_no_order]
      · simp only [Bool.not_true, Bool.false_eq_true, if_false, List.filter_append, polEv_no_order,
          List.nil_append]
        refine ⟨(lookupOrIssue_orders w _ now).1, ?_⟩
        intro nm he hsome
        cases he
        exact (lookupOrIssue_orders w _ now).2 hsome
    · simp only [if_true, tokenPath]
      cases ht : w.tokens.lookup name with
      | some t => simp
      | none => cases hg : cacheGet w.cache ⟨name, false, true⟩ now <;> simp [getEv_no_order]

/-! ### challenge certificates (tls-alpn-01) -/

theorem tokenPath_kinds (w : World) (name : Bytes) (now : Int) :
    (∀ c, (tokenPath w name now).2.1 = .tokenMem c → w.tokens.lookup name = some c) ∧
    (∀ c, (tokenPath w name now).2.1 = .token c → validCert ⟨name, false, true⟩ c now = true) ∧
    (∀ c, (tokenPath w name now).2.1 ≠ .served c ∧ (tokenPath w name now).2.1 ≠ .issued c) ∧
    (tokenPath w name now).2.2 = w.state ∧
    (∀ e ∈ (tokenPath w name now).1, ∃ k, e = Ev.get k) := by
  unfold tokenPath
  cases ht : w.tokens.lookup name with
  | some t => simp
  | none =>
    simp only
    have hev : ∀ e ∈ getEv w ⟨name, false, true⟩, ∃ k, e = Ev.get k := by
      intro e he; unfold getEv at he; cases hc : w.cache <;> simp [hc] at he; exact ⟨_, he⟩
    cases hg : cacheGet w.cache ⟨name, false, true⟩ now with
    | ok c' =>
      refine ⟨by simp, ?_, by simp, rfl, hev⟩
      intro c hc; simp only [Res.token.injEq] at hc; subst hc
      exact cacheGet_ok_valid _ _ _ _ hg
    | miss => exact ⟨by simp, by simp, by simp, rfl, hev⟩
    | err => exact ⟨by simp, by simp, by simp, rfl, hev⟩

theorem lookupOrIssue_no_token (w : World) (ck : CertKey) (now : Int) (c : Cert) :
    (lookupOrIssue w ck now).2.1 ≠ .token c ∧ (lookupOrIssue w ck now).2.1 ≠ .tokenMem c := by
  unfold lookupOrIssue
  cases hs : w.state.lookup ck.str with
  | some sv => cases sv <;> simp
  | none =>
    cases hg : cacheGet w.cache ck now with
    | ok c' => simp
    | err => simp
    | miss =>
      simp only
      rcases issue_cases w ck now with h | ⟨c', _, _, h⟩ <;> rw [h] <;> simp

/-- **token_path_only_for_challenge_names.** A challenge (tls-alpn-01) certificate is handed out only to
    a hello that offers exactly the `acme-tls/1` protocol, and only the one stored for that very name:
    the entry of `m.certTokens[name]` (the challenge being validated), or the cache entry
    `name+token` after it passed `validCert`. A challenge hello in turn never obtains a regular
    certificate, never reaches the CA or the host policy, and leaves `m.state` untouched — the host
    policy is bypassed for challenge certificates only. -/
theorem token_path_only_for_challenge_names (w : World) (h : Hello) (a : Option Bytes) (now : Int) :
    (∀ c, (getCertificate w h a now).2.1 = .tokenMem c ∨ (getCertificate w h a now).2.1 = .token c →
        wantsTokenCert h = true ∧ ∃ name, a = some name ∧
          (w.tokens.lookup name = some c ∨ validCert ⟨name, false, true⟩ c now = true)) ∧
    (wantsTokenCert h = true →
        (∀ c, (getCertificate w h a now).2.1 ≠ .served c ∧ (getCertificate w h a now).2.1 ≠ .issued c) ∧
        (getCertificate w h a now).2.2 = w.state ∧
        (∀ e ∈ (getCertificate w h a now).1, ∃ k, e = Ev.get k)) := by
  unfold getCertificate
  cases hn : nameOK h
  · simp
  simp only [Bool.not_true, Bool.false_eq_true, if_false]
  cases a with
  | none => simp
  | some name =>
    simp only
    cases hw : wantsTokenCert h
    · simp only [Bool.false_eq_true, if_false]
      refine ⟨?_, by simp⟩
      intro c hc
      cases hp : policyOK w name
      · simp [hp] at hc
      · simp only [hp, Bool.not_true, Bool.false_eq_true, if_false] at hc
        have := lookupOrIssue_no_token w (certKeyOf h name) now c
        rcases hc with hc | hc
        · exact absurd hc this.2
        · exact absurd hc this.1
    · simp only [if_true]
      have hk := tokenPath_kinds w name now
      refine ⟨?_, fun _ => ⟨hk.2.2.1, hk.2.2.2.1, hk.2.2.2.2⟩⟩
      intro c hc
      refine ⟨by trivial, name, rfl, ?_⟩
      rcases hc with hc | hc
      · exact Or.inl (hk.1 c hc)
      · exact Or.inr (hk.2.1 c hc)

/-! ### what the property demands of the in-memory path (`conform`) -/

theorem lookupOrIssue_kinds (w : World) (ck : CertKey) (now : Int) (c : Cert) :
    ((lookupOrIssue w ck now).2.1 = .issued c → validCert ck c now = true) ∧
    ((lookupOrIssue w ck now).2.1 = .served c →
        w.state.lookup ck.str = some (.ready c) ∨ validCert ck c now = true) := by
  unfold lookupOrIssue
  cases hs : w.state.lookup ck.str with
  | some sv =>
    cases sv with
    | ready c' => simp; intro hc; exact Or.inl hc
    | failed => simp
  | none =>
    cases hg : cacheGet w.cache ck now with
    | ok c' =>
      refine ⟨by simp, ?_⟩
      intro hc; simp only [Res.served.injEq] at hc; subst hc
      exact Or.inr (cacheGet_ok_valid _ _ _ _ hg)
    | err => simp
    | miss =>
      simp only
      refine ⟨?_, ?_⟩
      · intro hc
        exact issue_valid w ck now c (by rw [hc]; rfl)
      · intro hc
        rcases issue_cases w ck now with h | ⟨c', _, _, h⟩ <;> rw [h] at hc <;> simp at hc

theorem getCertificate_kinds (w : World) (h : Hello) (a : Option Bytes) (now : Int) (c : Cert) :
    ((getCertificate w h a now).2.1 = .issued c → ∃ name, a = some name ∧ validCert (certKeyOf h name) c now = true) ∧
    ((getCertificate w h a now).2.1 = .served c → ∃ name, a = some name ∧
        (w.state.lookup (certKeyOf h name).str = some (.ready c) ∨ validCert (certKeyOf h name) c now = true)) := by
  unfold getCertificate
  cases hn : nameOK h
  · simp
  simp only [Bool.not_true, Bool.false_eq_true, if_false]
  cases a with
  | none => simp
  | some name =>
    simp only
    cases hw : wantsTokenCert h
    · simp only [Bool.false_eq_true, if_false]
      cases hp : policyOK w name
      · simp
      · simp only [Bool.not_true, Bool.false_eq_true, if_false]
        have := lookupOrIssue_kinds w (certKeyOf h name) now c
        exact ⟨fun hc => ⟨name, rfl, this.1 hc⟩, fun hc => ⟨name, rfl, this.2 hc⟩⟩
    · simp only [if_true]
      have hk := (tokenPath_kinds w name now).2.2.1 c
      exact ⟨fun hc => absurd hc hk.2, fun hc => absurd hc hk.1⟩

/-- **served_cert_valid, full statement, for the behaviour the property demands.** With the stale-entry
    rule of `conform`, every regular certificate returned — from `m.state`, the cache or the CA, for any
    content of `m.state` — is valid at the clock of the call; challenge certificates from the cache
    likewise. (`getCertificate` itself satisfies this only when the state has no entry: see
    `served_cert_valid`, `state_serves_expired`.) -/
theorem conform_cert_valid (w : World) (h : Hello) (a : Option Bytes) (now : Int) (c : Cert)
    (hr : (conform w h a now).2.1.cert? = some c) :
    ∃ name, a = some name ∧
      (validCert (certKeyOf h name) c now = true ∨ validCert ⟨name, false, true⟩ c now = true) := by
  unfold conform at hr
  simp only at hr
  have hk := getCertificate_kinds w h a now
  have ht := token_path_only_for_challenge_names w h a now
  cases hres : (getCertificate w h a now).2.1 with
  | served c' =>
    cases a with
    | none => obtain ⟨name, hn, _⟩ := (hk c').2 hres; simp at hn
    | some name =>
      simp only [hres] at hr
      by_cases hv : validCert (certKeyOf h name) c' now
      · simp only [hv, if_true, hres, Res.cert?, Option.some.injEq] at hr
        subst hr
        exact ⟨name, rfl, Or.inl hv⟩
      · simp [hv, Res.cert?] at hr
  | issued c' =>
    simp only [hres] at hr
    have : c' = c := by
      cases a <;> simpa [hres, Res.cert?] using hr
    subst this
    obtain ⟨name, hn, hv⟩ := (hk c').1 hres
    exact ⟨name, hn, Or.inl hv⟩
  | token c' =>
    simp only [hres] at hr
    have : c' = c := by
      cases a <;> simpa [hres, Res.cert?] using hr
    subst this
    obtain ⟨_, name, hn, hv⟩ := ht.1 c' (Or.inr hres)
    refine ⟨name, hn, Or.inr ?_⟩
    rcases hv with hv | hv
    · -- a cache token certificate was validated; the in-memory alternative produces `.tokenMem`
      subst hn
      unfold getCertificate at hres
      cases hno : nameOK h
      · simp [hno] at hres
      · simp only [hno, Bool.not_true, Bool.false_eq_true, if_false] at hres
        cases hw : wantsTokenCert h
        · simp only [hw, Bool.false_eq_true, if_false] at hres
          cases hp : policyOK w name
          · simp [hp] at hres
          · simp only [hp, Bool.not_true, Bool.false_eq_true, if_false] at hres
            exact absurd hres (lookupOrIssue_no_token w _ now c').1
        · simp only [hw, if_true] at hres
          exact (tokenPath_kinds w name now).2.1 c' hres
    · exact hv
  | tokenMem c' => cases a <;> simp [hres, Res.cert?] at hr
  | errName => cases a <;> simp [hres, Res.cert?] at hr
  | errIdna => cases a <;> simp [hres, Res.cert?] at hr
  | errNoToken => cases a <;> simp [hres, Res.cert?] at hr
  | errPolicy => cases a <;> simp [hres, Res.cert?] at hr
  | errCache => cases a <;> simp [hres, Res.cert?] at hr
  | errIssue => cases a <;> simp [hres, Res.cert?] at hr
  | expiredNotServed => cases a <;> simp [hres, Res.cert?] at hr

/-- `conform` and the code differ exactly on a stale `m.state` entry; events and the new state never differ -/
theorem conform_vs_code (w : World) (h : Hello) (a : Option Bytes) (now : Int) :
    (conform w h a now).1 = (getCertificate w h a now).1 ∧
    (conform w h a now).2.2 = (getCertificate w h a now).2.2 ∧
    ((conform w h a now).2.1 ≠ (getCertificate w h a now).2.1 →
      ∃ name c, a = some name ∧ (getCertificate w h a now).2.1 = .served c ∧
        w.state.lookup (certKeyOf h name).str = some (.ready c) ∧ validCert (certKeyOf h name) c now = false) := by
  unfold conform
  simp only
  cases hres : (getCertificate w h a now).2.1 with
  | served c =>
    cases a with
    | none => simp [hres]
    | some name =>
      simp only
      by_cases hv : validCert (certKeyOf h name) c now
      · simp [hv, hres]
      · simp only [hv, Bool.false_eq_true, if_false, true_and]
        intro _
        refine ⟨name, c, rfl, rfl, ?_, by simpa using hv⟩
        obtain ⟨n', hn', hor⟩ := (getCertificate_kinds w h (some name) now c).2 hres
        simp only [Option.some.injEq] at hn'
        subst hn'
        rcases hor with h1 | h1
        · exact h1
        · exact absurd h1 hv
  | _ => cases a <;> simp [hres]

/-! ### non-vacuity: concrete worlds -/

/-- "a.b" -/
def exName : Bytes := [0x61, 0x2e, 0x62]
/-- a modern hello: ECDSA cipher suite, no signature/curve restrictions -/
def exHello : Hello := ⟨exName, [], none, none, [0xc02b]⟩
def exChallengeHello : Hello := ⟨exName, [alpnProto], none, none, [0xc02b]⟩
def exCert : Cert := ⟨1, 0, 100, true, false, .ec, .ec, true⟩
def exWorld (wl : Option (List Bytes)) (st : List (Bytes × StateVal)) (ca : Option Cert) (tok : List (Bytes × Cert)) : World :=
  { whitelist := wl, cache := some [(exName, .cert exCert)], state := st, ca := fun _ => ca, tokens := tok }

-- served from the cache while valid (hypotheses of served_cert_valid / served_implies_policy are satisfiable)
example : (getCertificate (exWorld (some [exName]) [] none []) exHello (some exName) 50).2.1 = .served exCert := by decide
-- the policy gate: same world, name not on the whitelist
example : (getCertificate (exWorld (some []) [] none []) exHello (some exName) 50) = ([.policy exName], .errPolicy, []) := by decide
-- expired in the cache: miss, then issuance by the CA (one order, cachePut)
example : (getCertificate (exWorld none [] (some { exCert with id := 0, na := 500 }) []) exHello (some exName) 200).2.1
    = .issued { exCert with id := 0, na := 500 } := by decide
-- observation O6: the same certificate sitting in m.state is served after its NotAfter …
example : (getCertificate (exWorld none [(exName, .ready exCert)] none []) exHello (some exName) 200).2.1 = .served exCert := by decide
-- … which `conform` refuses
example : (conform (exWorld none [(exName, .ready exCert)] none []) exHello (some exName) 200).2.1 = .expiredNotServed := by decide
-- a challenge hello gets the in-memory challenge certificate although the policy accepts nothing
example : (getCertificate (exWorld (some []) [] none [(exName, exCert)]) exChallengeHello (some exName) 200)
    = ([], .tokenMem exCert, []) := by decide
example : validCert (certKeyOf exHello exName) exCert 100 = true ∧ validCert (certKeyOf exHello exName) exCert 101 = false := by decide

/-! ## 4. one creator per `certKey` (all interleavings) -/

def Inv (s : Sys) : Prop :=
  s.issuing + s.timers ≤ 1 ∧ (s.issuing + s.timers = 1 → s.present = true)

theorem inv_step {s t : Sys} (hi : Inv s) (hs : Step s t) : Inv t := by
  obtain ⟨h1, h2⟩ := hi
  cases hs with
  | own hp =>
    refine ⟨?_, fun _ => rfl⟩
    show s.issuing + 1 + s.timers ≤ 1
    have : ¬ (s.issuing + s.timers = 1) := fun h => by simp [h2 h] at hp
    omega
  | wait hp => exact ⟨h1, h2⟩
  | load hp =>
    exact ⟨h1, fun _ => rfl⟩
  | done hp =>
    refine ⟨?_, ?_⟩
    · show s.issuing - 1 + s.timers ≤ 1; omega
    · show s.issuing - 1 + s.timers = 1 → s.present = true; intro; omega
  | fail hp =>
    refine ⟨?_, ?_⟩
    · show s.issuing - 1 + (s.timers + 1) ≤ 1; omega
    · show s.issuing - 1 + (s.timers + 1) = 1 → s.present = true
      intro; exact h2 (by omega)
  | expire hp =>
    refine ⟨?_, ?_⟩
    · show s.issuing + (s.timers - 1) ≤ 1; omega
    · show s.issuing + (s.timers - 1) = 1 → false = true; intro; omega
  | keep hp =>
    refine ⟨?_, ?_⟩
    · show s.issuing + (s.timers - 1) ≤ 1; omega
    · show s.issuing + (s.timers - 1) = 1 → s.present = true; intro; omega

theorem inv_reachable {s : Sys} (h : Reachable s) : Inv s := by
  induction h with
  | init => exact ⟨by simp [Sys.init], by simp [Sys.init]⟩
  | step _ hs ih => exact inv_step ih hs

/-- **single_issuance.** In every reachable state of the `certState`/`createCert` protocol — any
    number of goroutines, any interleaving of their critical sections, failures and retry timers —
    at most one issuance is in flight for a `certKey`. -/
theorem single_issuance {s : Sys} (h : Reachable s) : s.issuing ≤ 1 := by
  have := (inv_reachable h).1; omega

/-- …and an order goes out only when the key has no state entry (so a second order needs the first
    creator to have failed *and* its removal timer to have fired). -/
theorem order_only_when_absent {s t : Sys} (hs : Step s t) (ho : t.orders ≠ s.orders) :
    s.present = false ∧ t.orders = s.orders + 1 ∧ t.present = true := by
  cases hs <;> simp_all

/-- non-vacuity: two issuances for one key are reachable one after the other (fail, timer, retry) -/
example : Reachable ⟨true, 1, 0, 2⟩ := by
  have s1 : Reachable ⟨true, 1, 0, 1⟩ := .step .init (.own _ rfl)
  have s2 : Reachable ⟨true, 0, 1, 1⟩ := .step s1 (.fail _ (by decide))
  have s3 : Reachable ⟨false, 0, 0, 1⟩ := .step s2 (.expire _ (by decide))
  exact .step s3 (.own _ rfl)

end XC.C51
