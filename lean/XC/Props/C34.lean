/-
  C34 — client auth follows the server's method list and signs only accepted keys: theorems over
  XC.Model.C34.
-/
import XC.Proofs.C34
namespace XC.C34
open XC.C32 (underlyingAlgo algorithmsForKeyFormat)

/-! ## method selection -/

/-- `findNext`: the chosen method is the first configured method, in configuration order, that the
    server lists and that has not failed before -/
theorem selectNext_spec (cfg : Cfg) (tried methods : List String) (a : Method) :
    selectNext cfg tried methods = some a ↔
      ∃ pre post, cfg.auth = pre ++ a :: post ∧ a.name ∉ tried ∧ a.name ∈ methods ∧
        ∀ b ∈ pre, b.name ∈ tried ∨ b.name ∉ methods := by
  unfold selectNext
  rw [List.find?_eq_some_iff_append]
  constructor
  · rintro ⟨hx, pre, post, hc, hpre⟩
    simp at hx
    refine ⟨pre, post, hc, hx.1, hx.2, ?_⟩
    intro b hb
    have := hpre b hb
    simp at this
    rcases this with h | h
    · exact Or.inl h
    · exact Or.inr h
  · rintro ⟨pre, post, hc, h1, h2, hpre⟩
    refine ⟨by simp [h1, h2], pre, post, hc, ?_⟩
    intro b hb
    rcases hpre b hb with h | h <;> simp [h]

theorem selectNext_none (cfg : Cfg) (tried methods : List String) :
    selectNext cfg tried methods = none ↔ ∀ a ∈ cfg.auth, a.name ∈ tried ∨ a.name ∉ methods := by
  unfold selectNext
  simp only [List.find?_eq_none]
  constructor
  · intro h a ha
    have := h a ha
    simp at this
    by_cases ht : a.name ∈ tried
    · exact Or.inl ht
    · exact Or.inr (this ht)
  · intro h a ha
    rcases h a ha with h | h <;> simp [h]

/-- what `afterAuth` hands to the next iteration: the method it picked is either the first configured
    method listed in the method list now in force (the server's latest, or the previous one if this
    call produced none) and not among the failed ones, or the method the scripted AuthCallback returned
    on this invocation; that list and the failed ones are what the next segment records -/
theorem afterAuth_next {cfg : Cfg} {st st' : LoopSt} {name : String} {r : AuthOut} {a : Method}
    (h : (afterAuth cfg st name r).next = .inr (st', a)) :
    ((a ∈ cfg.auth ∧ a.name ∈ st'.lastMethods ∧ a.name ∉ st'.tried) ∨
      (∃ ds, cfg.authCb = some ds ∧ ds[st.cbCalls]? = some (.use a))) ∧
    st'.lastMethods = r.methods.getD st.lastMethods ∧
    st'.tried.length + st'.partialOk.length = st.tried.length + st.partialOk.length + 1 ∧
    st'.tried.length + st'.partialOk.length ≤ 64 ∧
    ¬ (r.res = .success ∧ r.err = none) ∧ r.err ≠ some .disconnect ∧
    (∀ x, (afterAuth cfg st name r).cbCtx = some x → x.1 = st'.lastMethods ∧ x.2.2 = st'.tried ∧ x.2.1 = st'.partialOk) ∧
    st'.pkCalls = st.pkCalls := by
  unfold afterAuth at h ⊢
  by_cases hd : r.err = some .disconnect
  · simp [hd] at h
  by_cases hs : effRes r = .success
  · simp [hd, hs] at h
  simp only [beq_iff_eq, hd, hs, if_false] at h ⊢
  by_cases hlen : (record st name (effRes r)).partialOk.length + (record st name (effRes r)).tried.length > 64
  · simp [hlen] at h
  simp only [hlen, if_false] at h ⊢
  have hrec : (record st name (effRes r)).tried.length + (record st name (effRes r)).partialOk.length =
      st.tried.length + st.partialOk.length + 1 := by
    unfold record; split <;> simp <;> omega
  have hpk : (record st name (effRes r)).pkCalls = st.pkCalls := by unfold record; split <;> rfl
  have hns : ¬ (r.res = .success ∧ r.err = none) := by
    rintro ⟨h3, h4⟩
    exact hs (by simp [effRes, h3, h4])
  have scan : ∀ (stx : LoopSt), stx.tried = (record st name (effRes r)).tried →
      pickNext cfg stx (r.methods.getD st.lastMethods) = .inr (st', a) →
      st' = stx ∧ a ∈ cfg.auth ∧ a.name ∈ r.methods.getD st.lastMethods ∧ a.name ∉ stx.tried := by
    intro stx htr hp
    unfold pickNext at hp
    cases hsel : selectNext cfg stx.tried (r.methods.getD st.lastMethods) with
    | none => simp [hsel] at hp
    | some b =>
      simp [hsel] at hp
      obtain ⟨rfl, rfl⟩ := hp
      obtain ⟨pre, post, hc, h1, h2, _⟩ := (selectNext_spec _ _ _ _).mp hsel
      exact ⟨rfl, by simp [hc], h2, h1⟩
  cases hcb : cfg.authCb with
  | none =>
    simp only [hcb] at h ⊢
    obtain ⟨rfl, a1, a2, a3⟩ := scan
      { record st name (effRes r) with lastMethods := r.methods.getD st.lastMethods } rfl h
    exact ⟨Or.inl ⟨a1, a2, a3⟩, rfl, hrec, by simp at hlen ⊢; omega, hns, hd, by simp, hpk⟩
  | some ds =>
    simp only [hcb] at h ⊢
    cases hdec : ds[st.cbCalls]?.getD .next with
    | fail => simp [hdec] at h
    | use m =>
      simp only [hdec] at h ⊢
      simp at h
      obtain ⟨rfl, rfl⟩ := h
      refine ⟨Or.inr ⟨ds, rfl, ?_⟩, rfl, hrec, by simp at hlen ⊢; omega, hns, hd, by simp, hpk⟩
      cases hq : ds[st.cbCalls]? with
      | none => simp [hq] at hdec
      | some d => simp [hq] at hdec; rw [hdec]
    | next =>
      simp only [hdec] at h ⊢
      obtain ⟨rfl, a1, a2, a3⟩ := scan
        { record st name (effRes r) with lastMethods := r.methods.getD st.lastMethods,
                                         cbCalls := (record st name (effRes r)).cbCalls + 1 } rfl h
      exact ⟨Or.inl ⟨a1, a2, a3⟩, rfl, hrec, by simp at hlen ⊢; omega, hns, hd, by simp, hpk⟩

/-! ## the main loop as a chain of segments -/

/-- relation between one `auth` call and the next one -/
def Link (cfg : Cfg) (s1 s2 : Seg) : Prop :=
  -- the method list in force is the server's latest (or stays if this call produced none)
  s2.allowed = s1.out.methods.getD s1.allowed ∧
  -- only listed, not yet failed, configured methods are attempted — unless AuthCallback chose the method
  ((s2.method ∈ s2.allowed ∧ s2.method ∉ s2.tried ∧ (∃ a ∈ cfg.auth, a.name = s2.method)) ∨
    (∃ (ds : List CbDecision) (k : Nat) (m : Method), cfg.authCb = some ds ∧ ds[k]? = some (CbDecision.use m) ∧ m.name = s2.method)) ∧
  -- nothing follows a success or a disconnect
  ¬ (s1.out.res = .success ∧ s1.out.err = none) ∧ s1.out.err ≠ some .disconnect ∧
  -- AuthCallback, when set, was shown exactly the list in force and the failed methods
  (∀ x, s1.cbCtx = some x → x.1 = s2.allowed ∧ x.2.2 = s2.tried)

def Adj {α : Type} (R : α → α → Prop) : List α → Prop
  | [] => True
  | [_] => True
  | a :: b :: rest => R a b ∧ Adj R (b :: rest)

/-- the segment one iteration appends -/
def segOf (cfg : Cfg) (sa : Option String) (st : LoopSt) (m : Option Method) (script : List Srv) : Seg :=
  ⟨nameOf m, st.lastMethods, st.tried, (callAuth cfg sa m script st.pkCalls).1, (callAuth cfg sa m script st.pkCalls).2.2,
    (afterAuth cfg { st with pkCalls := (callAuth cfg sa m script st.pkCalls).2.1 } (nameOf m)
      (callAuth cfg sa m script st.pkCalls).1).cbCtx⟩

theorem mainLoop_succ (cfg : Cfg) (sa : Option String) (fuel : Nat) (st : LoopSt) (m : Option Method)
    (script : List Srv) (segs : List Seg) :
    mainLoop cfg sa (fuel + 1) st m script segs =
      match (afterAuth cfg { st with pkCalls := (callAuth cfg sa m script st.pkCalls).2.1 } (nameOf m)
          (callAuth cfg sa m script st.pkCalls).1).next with
      | .inl res => (segs ++ [segOf cfg sa st m script], res)
      | .inr (st', nx) => mainLoop cfg sa fuel st' (some nx) (callAuth cfg sa m script st.pkCalls).1.rest
          (segs ++ [segOf cfg sa st m script]) := by
  rw [mainLoop]
  rfl

theorem mainLoop_chain (cfg : Cfg) (sa : Option String) :
    ∀ (fuel : Nat) (st : LoopSt) (m : Option Method) (script : List Srv) (segs out : List Seg) (res : Result),
    mainLoop cfg sa fuel st m script segs = (out, res) →
    ∃ extra, out = segs ++ extra ∧ Adj (Link cfg) extra ∧ extra.length ≤ fuel ∧
      (∀ s more, extra = s :: more → s.method = nameOf m ∧ s.allowed = st.lastMethods ∧ s.tried = st.tried) := by
  intro fuel
  induction fuel with
  | zero =>
    intro st m script segs out res h
    simp [mainLoop] at h
    exact ⟨[], by simp [h.1], trivial, by simp, by simp⟩
  | succ fuel ih =>
    intro st m script segs out res h
    rw [mainLoop_succ] at h
    generalize hseg : segOf cfg sa st m script = seg at h
    have hs1 : seg.method = nameOf m ∧ seg.allowed = st.lastMethods ∧ seg.tried = st.tried := by
      rw [← hseg]; exact ⟨rfl, rfl, rfl⟩
    cases ha : (afterAuth cfg { st with pkCalls := (callAuth cfg sa m script st.pkCalls).2.1 } (nameOf m)
        (callAuth cfg sa m script st.pkCalls).1).next with
    | inl res' =>
      simp [ha] at h
      refine ⟨[seg], by simp [h.1], trivial, by simp, ?_⟩
      intro s more hs
      simp at hs
      rw [← hs.1]; exact hs1
    | inr p =>
      obtain ⟨st', a⟩ := p
      simp [ha] at h
      obtain ⟨extra, he, hadj, hlen, hfirst⟩ := ih st' (some a) _ _ out res h
      obtain ⟨n1, n2, _, _, n5, n6, n7, _⟩ := afterAuth_next ha
      refine ⟨seg :: extra, by simp [he], ?_, by simp; omega, ?_⟩
      · cases extra with
        | nil => trivial
        | cons s more =>
          obtain ⟨f1, f2, f3⟩ := hfirst s more rfl
          have hout : seg.out = (callAuth cfg sa m script st.pkCalls).1 := by rw [← hseg]; rfl
          have hctx : seg.cbCtx = (afterAuth cfg { st with pkCalls := (callAuth cfg sa m script st.pkCalls).2.1 } (nameOf m)
              (callAuth cfg sa m script st.pkCalls).1).cbCtx := by rw [← hseg]; rfl
          refine ⟨⟨?_, ?_, by rw [hout]; exact n5, by rw [hout]; exact n6, ?_⟩, hadj⟩
          · rw [f2, n2, hout, hs1.2.1]
          · rcases n1 with ⟨a1, a2, a3⟩ | ⟨ds, d1, d2⟩
            · left
              refine ⟨by rw [f1, f2]; exact a2, by rw [f1, f3]; exact a3, a, a1, by rw [f1]; rfl⟩
            · right
              exact ⟨ds, _, a, d1, d2, by rw [f1]; rfl⟩
          · intro x hx
            rw [hctx] at hx
            obtain ⟨x1, x2, _⟩ := n7 x hx
            exact ⟨by rw [f2]; exact x1, by rw [f3]; exact x2⟩
      · intro s more hs
        simp at hs
        rw [← hs.1]; exact hs1

/-- the fuel of the executable loop is never the reason it stops: once `fuel` covers the 65 − k
    calls the `len(partialSuccess)+len(tried) > 64` guard still allows, more fuel changes nothing -/
theorem mainLoop_fuel (cfg : Cfg) (sa : Option String) :
    ∀ (fuel : Nat) (st : LoopSt) (m : Option Method) (script : List Srv) (segs : List Seg),
    st.tried.length + st.partialOk.length ≤ 64 → 66 ≤ fuel + (st.tried.length + st.partialOk.length) →
    mainLoop cfg sa fuel st m script segs = mainLoop cfg sa (fuel + 1) st m script segs := by
  intro fuel
  induction fuel with
  | zero => intro st m script segs h1 h2; omega
  | succ fuel ih =>
    intro st m script segs h1 h2
    rw [mainLoop_succ, mainLoop_succ]
    cases ha : (afterAuth cfg { st with pkCalls := (callAuth cfg sa m script st.pkCalls).2.1 } (nameOf m)
        (callAuth cfg sa m script st.pkCalls).1).next with
    | inl res => rfl
    | inr p =>
      obtain ⟨st', a⟩ := p
      obtain ⟨_, _, n3, n4, _⟩ := afterAuth_next ha
      simp only [] at n3 n4
      exact ih st' (some a) _ _ n4 (by omega)

theorem mainLoop_len (cfg : Cfg) (sa : Option String) :
    ∀ (fuel : Nat) (st : LoopSt) (m : Option Method) (script : List Srv) (segs : List Seg),
    st.tried.length + st.partialOk.length ≤ 64 →
    (mainLoop cfg sa fuel st m script segs).1.length + (st.tried.length + st.partialOk.length) ≤ segs.length + 65 := by
  intro fuel
  induction fuel with
  | zero => intro st m script segs h1; simp [mainLoop]; omega
  | succ fuel ih =>
    intro st m script segs h1
    rw [mainLoop_succ]
    cases ha : (afterAuth cfg { st with pkCalls := (callAuth cfg sa m script st.pkCalls).2.1 } (nameOf m)
        (callAuth cfg sa m script st.pkCalls).1).next with
    | inl res => simp; omega
    | inr p =>
      obtain ⟨st', a⟩ := p
      obtain ⟨_, _, n3, n4, _⟩ := afterAuth_next ha
      simp only [] at n3 n4
      have := ih st' (some a) (callAuth cfg sa m script st.pkCalls).1.rest (segs ++ [segOf cfg sa st m script]) n4
      simp at this ⊢
      omega

/-- when the loop ends with success, the last call succeeded; when it ends otherwise, it did not -/
theorem mainLoop_result (cfg : Cfg) (sa : Option String) :
    ∀ (fuel : Nat) (st : LoopSt) (m : Option Method) (script : List Srv) (segs out : List Seg) (res : Result),
    mainLoop cfg sa fuel st m script segs = (out, res) →
    (res = .ok ↔ ∃ last, out.getLast? = some last ∧ out ≠ segs ∧ effRes last.out = .success ∧ last.out.err ≠ some .disconnect) := by
  intro fuel
  induction fuel with
  | zero =>
    intro st m script segs out res h
    simp [mainLoop] at h
    obtain ⟨rfl, rfl⟩ := h
    simp
  | succ fuel ih =>
    intro st m script segs out res h
    rw [mainLoop_succ] at h
    have hout : (segOf cfg sa st m script).out = (callAuth cfg sa m script st.pkCalls).1 := rfl
    generalize hseg : segOf cfg sa st m script = seg at h hout
    generalize hr : (callAuth cfg sa m script st.pkCalls).1 = r at h hout
    generalize hst : ({ st with pkCalls := (callAuth cfg sa m script st.pkCalls).2.1 } : LoopSt) = stp at h
    cases ha : (afterAuth cfg stp (nameOf m) r).next with
    | inl res' =>
      simp [ha] at h
      obtain ⟨rfl, rfl⟩ := h
      simp [hout]
      unfold afterAuth at ha
      by_cases hd : r.err = some .disconnect
      · simp [hd] at ha; simp [← ha, hd]
      by_cases hs : effRes r = .success
      · simp [hd, hs] at ha; simp [← ha, hs, hd]
      · simp only [beq_iff_eq, hd, hs, if_false] at ha
        have : res' = .err := by
          unfold pickNext at ha
          (repeat' split at ha) <;> simp at ha <;> exact ha.symm
        simp [this, hs]
    | inr p =>
      obtain ⟨st', a⟩ := p
      simp [ha] at h
      have := ih st' (some a) r.rest _ out res h
      rw [this]
      obtain ⟨extra, he, _⟩ := mainLoop_chain cfg sa fuel st' (some a) r.rest _ out res h
      constructor
      · rintro ⟨last, h1, _, h3, h4⟩
        exact ⟨last, h1, by simp [he], h3, h4⟩
      · rintro ⟨last, h1, _, h3, h4⟩
        refine ⟨last, h1, ?_, h3, h4⟩
        intro heq
        obtain ⟨_, _, _, _, n5, _⟩ := afterAuth_next ha
        rw [heq] at h1
        simp at h1
        subst h1
        rw [hout] at h3
        unfold effRes at h3
        cases he : r.err with
        | some e => simp [he] at h3
        | none => simp [he] at h3; exact n5 ⟨h3, he⟩

/-! ## RetryableAuthMethod: the number of base `auth` calls -/

theorem retryIter_calls (cfg : Cfg) (sa : Option String) (b : Base) :
    ∀ (fuel : Nat) (script : List Srv) (pk : Nat) (evs : List Ev) (calls : Nat),
      (retryIter cfg sa b fuel script pk evs calls).2.2 ≤ calls + fuel := by
  intro fuel
  induction fuel with
  | zero => intro script pk evs calls; simp [retryIter]
  | succ k ih =>
    intro script pk evs calls
    unfold retryIter
    simp only []
    split
    · simp
    · have := ih (runBase cfg sa b script pk).1.rest (runBase cfg sa b script pk).2
        (evs ++ (runBase cfg sa b script pk).1.evs) (calls + 1)
      omega

/-- the documented bound: a method makes one base call, RetryableAuthMethod(m, n) with n > 0 at most
    n, and with n <= 0 at most one per packet the server still sends (plus one) -/
def Method.bound (m : Method) (scriptLen : Nat) : Nat :=
  match m.retry with
  | none => 1
  | some n => retryFuel n (List.replicate scriptLen Srv.banner)

theorem runMethod_calls (cfg : Cfg) (sa : Option String) (m : Method) (script : List Srv) (pk : Nat) :
    (runMethod cfg sa m script pk).2.2 ≤ m.bound script.length := by
  unfold runMethod Method.bound
  cases m.retry with
  | none => simp
  | some n =>
    simp only []
    have := retryIter_calls cfg sa m.base (retryFuel n script) script pk [] 0
    have hf : retryFuel n (List.replicate script.length Srv.banner) = retryFuel n script := by
      simp [retryFuel]
    omega

/-- every method the loop can ever call: the configured ones and those AuthCallback may return -/
def allMethods (cfg : Cfg) : List Method :=
  cfg.auth ++ (cfg.authCb.getD []).filterMap fun d => match d with
    | .use m => some m
    | _ => none

/-- no retry wrapper, or a positive retry count of at most R -/
def PosBound (R : Nat) (m : Method) : Prop :=
  m.retry = none ∨ ∃ n : Int, m.retry = some n ∧ 0 < n ∧ n.toNat ≤ R

theorem PosBound.calls {R : Nat} {m : Method} (h : PosBound R m) (L : Nat) : m.bound L ≤ max 1 R := by
  unfold Method.bound
  rcases h with h | ⟨n, h, hn, hR⟩
  · simp only [h]; omega
  · simp only [h, retryFuel, hn, if_true]; omega

theorem mainLoop_calls (cfg : Cfg) (sa : Option String) (R : Nat) (hall : ∀ m ∈ allMethods cfg, PosBound R m) :
    ∀ (fuel : Nat) (st : LoopSt) (m : Option Method) (script : List Srv) (segs : List Seg),
    (∀ a, m = some a → a ∈ allMethods cfg) → (∀ s ∈ segs, s.calls ≤ max 1 R) →
    ∀ s ∈ (mainLoop cfg sa fuel st m script segs).1, s.calls ≤ max 1 R := by
  intro fuel
  induction fuel with
  | zero => intro st m script segs _ h; simpa [mainLoop] using h
  | succ fuel ih =>
    intro st m script segs hm h
    rw [mainLoop_succ]
    have hnew : ∀ s ∈ segs ++ [segOf cfg sa st m script], s.calls ≤ max 1 R := by
      intro s hs
      simp at hs
      rcases hs with hs | rfl
      · exact h s hs
      · show (callAuth cfg sa m script st.pkCalls).2.2 ≤ max 1 R
        unfold callAuth
        cases m with
        | none => simp only []; omega
        | some a =>
          exact Nat.le_trans (runMethod_calls cfg sa a script st.pkCalls) ((hall a (hm a rfl)).calls _)
    cases ha : (afterAuth cfg { st with pkCalls := (callAuth cfg sa m script st.pkCalls).2.1 } (nameOf m)
        (callAuth cfg sa m script st.pkCalls).1).next with
    | inl res => exact hnew
    | inr p =>
      obtain ⟨st', a⟩ := p
      refine ih st' (some a) _ _ ?_ hnew
      intro a' ha'
      simp at ha'
      subst ha'
      obtain ⟨n1, _⟩ := afterAuth_next ha
      rcases n1 with ⟨a1, _, _⟩ | ⟨ds, d1, d2⟩
      · simp [allMethods, a1]
      · simp only [allMethods, List.mem_append, List.mem_filterMap]
        right
        refine ⟨.use a, ?_, rfl⟩
        rw [d1]
        exact List.mem_of_getElem? d2

/-! ## clientAuthenticate -/

theorem run_cases (cfg : Cfg) (script : List Srv) :
    ((run cfg script).segs = [] ∧ (run cfg script).res = .err) ∨
    ∃ sa rest, (run cfg script).segs = (mainLoop cfg sa 66 {} none rest []).1 ∧
      (run cfg script).res = (mainLoop cfg sa 66 {} none rest []).2 := by
  unfold run
  cases script with
  | nil => simp
  | cons p rest =>
    cases p <;> simp
    case serviceAccept => exact Or.inr ⟨none, rest, rfl, rfl⟩
    case extInfo sa =>
      cases rest with
      | nil => simp
      | cons q rest2 =>
        by_cases hq : q = .serviceAccept
        · simp [hq]; exact Or.inr ⟨sa, rest2, rfl, rfl⟩
        · simp [hq]

/-- **only_listed_methods.** The first call is "none"; every later call uses a configured method
    that is in the method list in force — the latest list the server sent — and has not failed
    before; and no call follows a success or a disconnect (`Link`). -/
theorem only_listed_methods (cfg : Cfg) (script : List Srv) :
    (∀ s more, (run cfg script).segs = s :: more → s.method = "none" ∧ s.allowed = [] ∧ s.tried = []) ∧
    Adj (Link cfg) (run cfg script).segs := by
  rcases run_cases cfg script with ⟨h, _⟩ | ⟨sa, rest, h, _⟩
  · rw [h]; exact ⟨by simp, trivial⟩
  · rw [h]
    generalize hml : mainLoop cfg sa 66 {} none rest [] = ml
    obtain ⟨o, r⟩ := ml
    obtain ⟨extra, he, hadj, _, hfirst⟩ := mainLoop_chain cfg sa 66 {} none rest [] o r hml
    simp only [List.nil_append] at he
    subst he
    exact ⟨fun s more hs => hfirst s more hs, hadj⟩

theorem Adj_imp {α : Type} {R S : α → α → Prop} (h : ∀ a b, R a b → S a b) : ∀ l : List α, Adj R l → Adj S l
  | [], _ => trivial
  | [_], _ => trivial
  | a :: b :: rest, ⟨h1, h2⟩ => ⟨h a b h1, Adj_imp h (b :: rest) h2⟩

/-- the statement's clause verbatim, for configurations without AuthCallback (the only documented way
    to use a method the server did not list): after the initial "none", every method tried is in the
    server's current list and has not failed before -/
theorem only_listed_methods_no_callback (cfg : Cfg) (script : List Srv) (hcb : cfg.authCb = none) :
    Adj (fun _ s2 => s2.method ∈ s2.allowed ∧ s2.method ∉ s2.tried ∧ ∃ a ∈ cfg.auth, a.name = s2.method)
      (run cfg script).segs := by
  refine Adj_imp ?_ _ (only_listed_methods cfg script).2
  intro s1 s2 hl
  rcases hl.2.1 with h | ⟨ds, _, _, h, _⟩
  · exact h
  · rw [hcb] at h; simp at h

/-- **attempts_bounded.** At most 65 `auth` calls are made, whatever the server sends -/
theorem attempts_bounded (cfg : Cfg) (script : List Srv) : (run cfg script).segs.length ≤ 65 := by
  rcases run_cases cfg script with ⟨h, _⟩ | ⟨sa, rest, h, _⟩
  · simp [h]
  · rw [h]
    have := mainLoop_len cfg sa 66 {} none rest [] (by simp)
    simpa using this

/-- **attempts_bounded, retries included.** If every method the loop can call (configured or handed
    out by AuthCallback) is plain or RetryableAuthMethod with 0 < maxTries ≤ R, then every one of the
    at most 65 loop iterations makes at most max(1, R) base `auth` calls — at most 65·max(1, R)
    authentication requests in total, whatever the server does.  (For maxTries ≤ 0 the code retries
    for as long as the server answers: `runMethod_calls` bounds it by the packets left.) -/
theorem attempts_bounded_with_retries (cfg : Cfg) (script : List Srv) (R : Nat)
    (hall : ∀ m ∈ allMethods cfg, PosBound R m) :
    (run cfg script).segs.length ≤ 65 ∧ ∀ s ∈ (run cfg script).segs, s.calls ≤ max 1 R := by
  refine ⟨attempts_bounded cfg script, ?_⟩
  rcases run_cases cfg script with ⟨h, _⟩ | ⟨sa, rest, h, _⟩
  · rw [h]; simp
  · rw [h]
    exact mainLoop_calls cfg sa R hall 66 {} none rest [] (by simp) (by simp)

/-- … and that bound is the code's own guard, not the fuel of the executable model -/
theorem fuel_irrelevant (cfg : Cfg) (sa : Option String) (script : List Srv) (n : Nat) :
    mainLoop cfg sa (66 + n) {} none script [] = mainLoop cfg sa 66 {} none script [] := by
  induction n with
  | zero => rfl
  | succ n ih =>
    rw [← ih, ← Nat.add_assoc]
    exact (mainLoop_fuel cfg sa (66 + n) {} none script [] (by simp) (by simp)).symm

/-- **stops_on_success.** The result is success exactly when the last call made ended in success;
    by `only_listed_methods` no call follows a successful one, so nothing is attempted afterwards -/
theorem stops_on_success (cfg : Cfg) (script : List Srv) :
    (run cfg script).res = .ok ↔
      ∃ last, (run cfg script).segs.getLast? = some last ∧ effRes last.out = .success ∧
        last.out.err ≠ some .disconnect := by
  rcases run_cases cfg script with ⟨h, h'⟩ | ⟨sa, rest, h, h'⟩
  · simp [h, h']
  · rw [h, h']
    generalize hml : mainLoop cfg sa 66 {} none rest [] = ml
    obtain ⟨o, r⟩ := ml
    have := mainLoop_result cfg sa 66 {} none rest [] o r hml
    simp only
    rw [this]
    constructor
    · rintro ⟨last, a, _, b, c⟩; exact ⟨last, a, b, c⟩
    · rintro ⟨last, a, b, c⟩
      refine ⟨last, a, ?_, b, c⟩
      intro hnil
      rw [hnil] at a
      simp at a

/-! ## pickSignatureAlgorithm -/

theorem keyFormat_mem (kf : String) : kf ∈ algorithmsForKeyFormat kf := by
  unfold algorithmsForKeyFormat
  split
  · rename_i h; simp at h; simp [h]
  · split
    · rename_i h; simp at h; simp [h]
    · simp

/-- the server's list as the client reads it: the names in server-sig-algs plus the certificate
    algorithm of each -/
def serverAlgos (names : List String) : List String :=
  names ++ names.filterMap certificateAlgo

/-- the signer's algorithms, in the signer's order, as algorithm names for this key type -/
def keyAlgos (s : Signer) : List String :=
  (asAlgorithms s).filterMap fun signerAlgo =>
    (algorithmsForKeyFormat s.keyFormat).find? (fun a => underlyingAlgo a == signerAlgo)

/-- **sigalg_rule** (documented preference rules): without server-sig-algs, or when no algorithm of
    the signer is in the server's list, the key format itself is used provided the signer supports
    its underlying algorithm, else there is no algorithm; otherwise the FIRST algorithm in the
    signer's own order that the server's (certificate-extended) list contains -/
theorem sigalg_rule (s : Signer) (names : Option (List String)) :
    pickFrom s names =
      match names.bind (fun l => findCommon (keyAlgos s) (serverAlgos l)) with
      | some a => some a
      | none => if underlyingAlgo s.keyFormat ∈ asAlgorithms s then some s.keyFormat else none := by
  unfold pickFrom fallbackAlgo keyAlgos serverAlgos
  cases names with
  | none => simp
  | some p =>
    simp only [Option.bind_some]
    split <;> simp_all

/-- the extension value is a comma-separated list -/
theorem pick_eq (s : Signer) (ext : Option String) :
    pickSignatureAlgorithm s ext = pickFrom s (ext.map (·.splitOn ",")) := rfl

theorem findCommon_spec (c sv : List String) (x : String) :
    findCommon c sv = some x ↔ ∃ pre post, c = pre ++ x :: post ∧ x ∈ sv ∧ ∀ y ∈ pre, y ∉ sv := by
  unfold findCommon
  rw [List.find?_eq_some_iff_append]
  constructor
  · rintro ⟨hx, pre, post, hc, hpre⟩
    refine ⟨pre, post, hc, by simpa using hx, ?_⟩
    intro y hy
    simpa using hpre y hy
  · rintro ⟨pre, post, hc, hx, hpre⟩
    refine ⟨by simpa using hx, pre, post, hc, ?_⟩
    intro y hy
    simpa using hpre y hy

/-- whatever is chosen is an algorithm of the key's own type that the signer can produce -/
theorem pick_sound (s : Signer) (ext : Option (List String)) (a : String)
    (h : pickFrom s ext = some a) :
    a ∈ algorithmsForKeyFormat s.keyFormat ∧ underlyingAlgo a ∈ asAlgorithms s := by
  rw [sigalg_rule] at h
  split at h
  · rename_i a' hc
    simp at h
    subst h
    cases ext with
    | none => simp at hc
    | some p =>
      simp only [Option.bind_some] at hc
      obtain ⟨pre, post, hk, _, _⟩ := (findCommon_spec _ _ _).mp hc
      have hmem : a' ∈ keyAlgos s := by rw [hk]; simp
      unfold keyAlgos at hmem
      rw [List.mem_filterMap] at hmem
      obtain ⟨sa, hsa, hf⟩ := hmem
      have h1 := List.mem_of_find?_eq_some hf
      have h2 := List.find?_some hf
      simp at h2
      exact ⟨h1, by rw [h2]; exact hsa⟩
  · split at h
    · rename_i hm
      simp at h
      subst h
      exact ⟨keyFormat_mem _, hm⟩
    · simp at h

/-- non-vacuity / the documented cases, on the real algorithm tables: an RSA key whose signer
    supports everything against a server listing only rsa-sha2-512; an RSA certificate (the server
    list names underlying algorithms only); a signer restricted to rsa-sha2-256 against a server
    without the extension (no algorithm); the signer's order beats the server's order -/
example : pickFrom ⟨4, "ssh-rsa", .multi ["rsa-sha2-256", "rsa-sha2-512", "ssh-rsa"]⟩ (some ["ssh-ed25519", "rsa-sha2-512"])
    = some "rsa-sha2-512" := by decide
example : pickFrom ⟨6, "ssh-rsa-cert-v01@openssh.com", .algOnly⟩ (some ["rsa-sha2-512", "rsa-sha2-256"])
    = some "rsa-sha2-256-cert-v01@openssh.com" := by decide
example : pickFrom ⟨4, "ssh-rsa", .multi ["rsa-sha2-256"]⟩ none = none := by decide
example : pickFrom ⟨4, "ssh-rsa", .multi ["rsa-sha2-512", "rsa-sha2-256"]⟩ (some ["rsa-sha2-256", "rsa-sha2-512"])
    = some "rsa-sha2-512" := by decide
example : pickFrom ⟨1, "ssh-ed25519", .plain⟩ (some ["rsa-sha2-256"]) = some "ssh-ed25519" := by decide

/-! ## signatures only for keys the server accepted in a query -/

theorem mainLoop_G (cfg : Cfg) (sa : Option String) :
    ∀ (fuel : Nat) (st : LoopSt) (m : Option Method) (script : List Srv) (segs : List Seg),
    (∀ s ∈ segs, G s.out.evs) → ∀ s ∈ (mainLoop cfg sa fuel st m script segs).1, G s.out.evs := by
  intro fuel
  induction fuel with
  | zero => intro st m script segs h; simpa [mainLoop] using h
  | succ fuel ih =>
    intro st m script segs h
    rw [mainLoop_succ]
    have hnew : ∀ s ∈ segs ++ [segOf cfg sa st m script], G s.out.evs := by
      intro s hs
      simp at hs
      rcases hs with hs | rfl
      · exact h s hs
      · exact callAuth_G cfg sa m script st.pkCalls
    cases (afterAuth cfg { st with pkCalls := (callAuth cfg sa m script st.pkCalls).2.1 } (nameOf m)
        (callAuth cfg sa m script st.pkCalls).1).next with
    | inl res => exact hnew
    | inr p => exact ih _ _ _ _ hnew

theorem flatten_G : ∀ (l : List (List Ev)), (∀ x ∈ l, G x) → G l.flatten
  | [], _ => G_nil
  | x :: xs, h => by
    simp only [List.flatten_cons]
    exact G_append (h x (by simp)) (flatten_G xs (fun y hy => h y (by simp [hy])))

theorem events_guarded (cfg : Cfg) (script : List Srv) : G (run cfg script).events := by
  unfold RunOut.events
  have hpre : G (run cfg script).pre := by
    intro p
    apply guarded_plain
    unfold run
    cases script with
    | nil => simp [plainEv]
    | cons q rest =>
      cases q <;> simp [plainEv]
      case extInfo sa =>
        cases rest with
        | nil => simp [plainEv]
        | cons q2 rest2 => simp only []; split <;> simp [plainEv]
  apply G_append hpre
  apply flatten_G
  intro x hx
  simp at hx
  obtain ⟨s, hs, rfl⟩ := hx
  rcases run_cases cfg script with ⟨h, _⟩ | ⟨sa, rest, h, _⟩
  · rw [h] at hs; simp at hs
  · rw [h] at hs
    exact mainLoop_G cfg sa 66 {} none rest [] (by simp) s hs

theorem lastOr_none_some {l : List Ev} {x : Ev} (h : lastOr none l = some x) : ∃ l', l = l' ++ [x] := by
  unfold lastOr at h
  cases hl : l.getLast? with
  | none => simp [hl] at h
  | some y =>
    simp [hl] at h
    subst h
    exact List.getLast?_eq_some_iff.mp hl

theorem guarded_at {p : Option Ev} {pre post : List Ev} {e : Ev} (h : guarded p (pre ++ e :: post) = true) :
    guardStep (lastOr p pre) e = true := by
  rw [guarded_append] at h
  simp [guarded] at h
  exact h.2.1

/-- **sign_only_after_pk_ok.** In every run, against every server behaviour, a signature request
    for key `k` is written only directly after the client has read an SSH_MSG_USERAUTH_PK_OK and
    accepted it (`ack`) for the same key `k` — and `confirmKeyAck_evs` says an accepted PK_OK
    carries exactly the queried key's bytes and an algorithm of that key's type. -/
theorem sign_only_after_pk_ok (cfg : Cfg) (script : List Srv) (pre post : List Ev) (u a f : String) (k : Nat)
    (h : (run cfg script).events = pre ++ Ev.wSign u a k f :: post) :
    ∃ pre' sp a', pre = pre' ++ [Ev.rd (.pkOk sp), Ev.ack a' k] := by
  have hg := events_guarded cfg script none
  rw [h] at hg
  have h1 := guarded_at hg
  -- the event before the signature is the acknowledgement of the same key
  cases hl : lastOr none pre with
  | none => simp [hl, guardStep] at h1
  | some e =>
    rw [hl] at h1
    cases e <;> simp [guardStep] at h1
    rename_i a' k'
    subst h1
    obtain ⟨pre1, rfl⟩ := lastOr_none_some hl
    -- and the event before that is the PK_OK that was read
    rw [List.append_assoc] at hg
    have h2 := guarded_at hg
    cases hl2 : lastOr none pre1 with
    | none => simp [hl2, guardStep] at h2
    | some e2 =>
      rw [hl2] at h2
      cases e2 <;> simp [guardStep] at h2
      rename_i pk
      cases pk <;> simp at h2
      rename_i sp
      obtain ⟨pre2, rfl⟩ := lastOr_none_some hl2
      exact ⟨pre2, sp, a', by simp⟩

/-! ## non-vacuity: concrete runs -/

def edSigner : Signer := ⟨1, "ssh-ed25519", .multi ["ssh-ed25519"]⟩
def cfgPwPk : Cfg := { user := "u", auth := [⟨.publickey [edSigner], none⟩, ⟨.password "pw", none⟩] }

/-- none → failure listing both → publickey (query, PK_OK echo, signature) → partial success listing
    password → password → success.  Three further segments, each on a listed, untried method; the
    signature follows the acknowledged PK_OK; the run stops at the success. -/
def demoScript : List Srv :=
  [.serviceAccept, .failure ["publickey", "password"] false, .pkOk .echo, .failure ["password"] true, .success, .banner]

example : (run cfgPwPk demoScript).res = .ok ∧ (run cfgPwPk demoScript).segs.map (·.method) = ["none", "publickey", "password"] ∧
    (run cfgPwPk demoScript).events.filter (fun e => match e with | .wSign .. => true | .ack .. => true | _ => false) =
      [.ack "ssh-ed25519" 1, .wSign "u" "ssh-ed25519" 1 "ssh-ed25519"] := by decide

/-- a PK_OK for another key: no signature is ever written -/
example : (run cfgPwPk [.serviceAccept, .failure ["publickey"] false, .pkOk .otherKey, .success]).events.all
    (fun e => match e with | .wSign .. => false | _ => true) = true := by decide

/-- a server that answers "partial success, try password" for ever: exactly 65 `auth` calls, then the client gives up -/
example : (run cfgPwPk (.serviceAccept :: List.replicate 80 (.failure ["password"] true))).segs.length = 65 ∧
    (run cfgPwPk (.serviceAccept :: List.replicate 80 (.failure ["password"] true))).res = .err := by decide

/-- RetryableAuthMethod(password, 3): three password requests inside one loop iteration -/
example : ((run { user := "u", auth := [⟨.password "pw", some 3⟩] }
    [.serviceAccept, .failure ["password"] false, .failure ["password"] false, .failure ["password"] false,
     .failure ["password"] false, .success]).segs.map (·.calls)) = [1, 3] := by decide

/-- AuthCallback handing out a method the server did not list (the documented exception) -/
example : ((run { user := "u", auth := [], authCb := some [.use ⟨.password "pw", none⟩] }
    [.serviceAccept, .failure ["publickey"] false, .success]).segs.map (·.method)) = ["none", "password"] := by decide

end XC.C34
