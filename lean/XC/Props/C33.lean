/-
  C33 — server authentication limits and bindings: property theorems.
  Model: XC.Model.C32 (the auth loop), spec-side definitions: XC.Model.C33
  (`countFailures`, `limit`, `SaSpec`).  Lemma layer: XC.Proofs.C33, XC.Proofs.C32Hist.
-/
import XC.Proofs.C33
import XC.Props.C32
namespace XC.C33
open XC.C32

/-- the loop-head guard says exactly: the configured limit (0 ↦ 6, negative ↦ none) has been
    reached by the failure counter, or 128 requests have been read -/
theorem tooMany_iff (cfg : Cfg) (st : St) :
    tooMany cfg st = true ↔ (∃ n, limit cfg = some n ∧ n ≤ st.failures) ∨ 128 ≤ st.attempts := by
  unfold tooMany limit Cfg.maxTries
  by_cases h0 : cfg.maxAuthTries = 0
  · simp [h0]
    omega
  · by_cases hneg : cfg.maxAuthTries < 0
    · simp [h0, hneg]
      omega
    · simp [h0, hneg]
      omega

/-- **counters_spec.** After any history the failure counter, the `none` counter and the attempt
    counter are the functions of the observable log / history that the property names: failures =
    outright rejections, the first `none` request being free if nothing failed before it; partial
    successes and accepted public key queries are attempts but not failures -/
theorem counters_spec (cfg : Cfg) (rs : List Req) (st : St) (evs : List Ev)
    (h : Steps cfg (St.init cfg) rs st evs) :
    st.failures = (countFailures evs).1 ∧ st.noneCount = (countFailures evs).2 ∧ st.attempts = rs.length := by
  obtain ⟨a, b, _⟩ := steps_counts h
  simp [St.init] at a b
  exact ⟨by rw [countFailures, ← a], by rw [countFailures, ← a], b⟩

/-- **max_tries.** After any history the server disconnects, without reading another request,
    exactly when the failures counted from the log have reached MaxAuthTries (default 6, negative =
    unlimited) or 128 requests have been read; otherwise the next request is read and processed. -/
theorem max_tries (cfg : Cfg) (rs : List Req) (st : St) (evs : List Ev)
    (h : Steps cfg (St.init cfg) rs st evs) :
    (tooMany cfg st = true ↔ (∃ n, limit cfg = some n ∧ n ≤ (countFailures evs).1) ∨ 128 ≤ rs.length) ∧
    (tooMany cfg st = true → ∀ more, loop cfg st more = ([Ev.sendDisconnect], .authErr)) ∧
    (tooMany cfg st = false → ∀ r more, loop cfg st (.req r :: more) =
      match step cfg (bump st) r with
      | .done e f => (e, f)
      | .cont st' e =>
        -- a follow-up packet (keyboard-interactive answer, GSS token / MIC) that this request did not
        -- read is read as the next request: the guards apply, then it fails to parse
        if consumedBy (bump st) r < r.follow.length then
          (if tooMany cfg st' then (e ++ [Ev.sendDisconnect], .authErr) else (e, .err))
        else (e ++ (loop cfg st' more).1, (loop cfg st' more).2)) := by
  obtain ⟨c1, _, c3⟩ := counters_spec cfg rs st evs h
  refine ⟨by rw [tooMany_iff, c1, c3], ?_, ?_⟩
  · intro ht more
    cases more <;> simp [loop, ht]
  · intro ht r more
    unfold bump
    rw [loop]
    simp only [ht, Bool.false_eq_true, if_false]
    cases step cfg { st with attempts := st.attempts + 1 } r
    · rfl
    · rfl

theorem steps_split {cfg : Cfg} {st st' : St} {a b : List Req} {evs : List Ev}
    (h : Steps cfg st (a ++ b) st' evs) :
    ∃ st1 e1 e2, Steps cfg st a st1 e1 ∧ Steps cfg st1 b st' e2 ∧ evs = e1 ++ e2 := by
  induction a generalizing st evs with
  | nil => exact ⟨st, [], evs, Steps.nil st, h, rfl⟩
  | cons r a ih =>
    cases h with
    | cons ht hs hf hrest =>
      obtain ⟨st1, e1, e2, s1, s2, rfl⟩ := ih hrest
      exact ⟨st1, _, e2, Steps.cons ht hs hf s1, s2, by simp⟩

/-- no request is read once a limit is reached: before every request of a history the guard was
    false, i.e. the failures logged so far were below the limit and fewer than 128 requests had been read -/
theorem below_limit_before (cfg : Cfg) (pre post : List Req) (r : Req) (st : St) (evs : List Ev)
    (h : Steps cfg (St.init cfg) (pre ++ r :: post) st evs) :
    ∃ st1 e1, Steps cfg (St.init cfg) pre st1 e1 ∧ pre.length < 128 ∧
      ∀ n, limit cfg = some n → (countFailures e1).1 < n := by
  obtain ⟨st1, e1, e2, s1, s2, _⟩ := steps_split h
  cases s2 with
  | cons ht _ _ _ =>
    obtain ⟨c1, _, c3⟩ := counters_spec cfg pre st1 e1 s1
    have hn : ¬ (tooMany cfg st1 = true) := by simp [ht]
    rw [tooMany_iff] at hn
    refine ⟨st1, e1, s1, by omega, ?_⟩
    intro n hl
    have : ¬ (n ≤ st1.failures) := fun hle => hn (Or.inl ⟨n, hl, hle⟩)
    omega

/-- **attempt_cap.** At most 128 requests are ever read -/
theorem attempt_cap (cfg : Cfg) (rs : List Req) (st : St) (evs : List Ev)
    (h : Steps cfg (St.init cfg) rs st evs) : rs.length ≤ 128 := by
  rcases List.eq_nil_or_concat rs with rfl | ⟨pre, r, rfl⟩
  · simp
  · rw [List.concat_eq_append] at h
    obtain ⟨_, _, _, hl, _⟩ := below_limit_before cfg pre [] r st evs h
    simp; omega

/-- … and a history of 128 processed requests is followed by a disconnect whatever comes next -/
theorem attempt_cap_disconnect (cfg : Cfg) (rs : List Req) (st : St) (evs : List Ev)
    (h : Steps cfg (St.init cfg) rs st evs) (hl : rs.length = 128) (more : List Read) :
    loop cfg st more = ([Ev.sendDisconnect], .authErr) := by
  obtain ⟨m1, m2, _⟩ := max_tries cfg rs st evs h
  exact m2 (m1.mpr (Or.inr (by omega))) more

/-- **no_user_change_after_partial.** Once a partial success has been returned, every later request
    that is processed (answered or accepted) names the user of the request that was current then -/
theorem no_user_change_after_partial (cfg : Cfg) (pre post : List Req) (st : St) (evs : List Ev)
    (h : Steps cfg (St.init cfg) (pre ++ post) st evs) :
    ∃ st1 e1, Steps cfg (St.init cfg) pre st1 e1 ∧
      (st1.partialRet = true → (∀ r ∈ post, r.user = st1.user) ∧ st.user = st1.user ∧ st.partialRet = true ∧
        ∀ r e p, step cfg (bump st) r = .done e (.ok p) → r.user = st1.user) := by
  obtain ⟨st1, e1, e2, s1, s2, _⟩ := steps_split h
  refine ⟨st1, e1, s1, ?_⟩
  intro hp
  obtain ⟨_, _, c⟩ := steps_counts s2
  obtain ⟨c1, c2, c3⟩ := c hp
  refine ⟨c3, c2, c1, ?_⟩
  intro r e p hs
  obtain ⟨_, hu, _⟩ := step_ok_sound hs
  rw [← c2]
  exact (hu (by simpa [bump] using c1)).symm

/-! ## source-address -/

theorem matchEntries_spec (es : List SAEntry) :
    matchEntries es = true ↔ ∃ pre x post, es = pre ++ x :: post ∧ isMatch x = true ∧ ∀ y ∈ pre, y ≠ .bad := by
  induction es with
  | nil => simp [matchEntries]
  | cons e es ih =>
    constructor
    · intro h
      cases e with
      | ipEq => exact ⟨[], .ipEq, es, rfl, rfl, by simp⟩
      | cidrIn => exact ⟨[], .cidrIn, es, rfl, rfl, by simp⟩
      | bad => simp [matchEntries] at h
      | ipNe =>
        simp only [matchEntries] at h
        obtain ⟨pre, x, post, rfl, hm, hpre⟩ := ih.mp h
        exact ⟨.ipNe :: pre, x, post, rfl, hm, by simpa using hpre⟩
      | cidrOut =>
        simp only [matchEntries] at h
        obtain ⟨pre, x, post, rfl, hm, hpre⟩ := ih.mp h
        exact ⟨.cidrOut :: pre, x, post, rfl, hm, by simpa using hpre⟩
    · rintro ⟨pre, x, post, heq, hm, hpre⟩
      cases pre with
      | nil =>
        simp at heq
        obtain ⟨rfl, rfl⟩ := heq
        cases e <;> simp [isMatch] at hm <;> simp [matchEntries]
      | cons y pre =>
        simp at heq
        obtain ⟨rfl, rfl⟩ := heq
        have hne : e ≠ .bad := hpre e (by simp)
        have hrest : matchEntries (pre ++ x :: post) = true :=
          ih.mpr ⟨pre, x, post, rfl, hm, fun z hz => hpre z (by simp [hz])⟩
        cases e <;> simp [matchEntries] at hne ⊢ <;> exact hrest

theorem saOk_spec (cfg : Cfg) (id : Nat) :
    cfg.saOk id = true ↔ ((cfg.perm id).sa = none ∨ ∃ es, (cfg.perm id).sa = some es ∧ SaSpec cfg.addr es) := by
  unfold Cfg.saOk SaSpec checkSourceAddress
  cases h : (cfg.perm id).sa with
  | none => simp
  | some es =>
    cases ha : cfg.addr <;> simp [matchEntries_spec]

/-- **source_address_enforced.** Success with permissions `p` implies: `p` has no source-address
    option, or the peer is a TCP address matched by an entry of the list with nothing unparsable
    before it.  For publickey the same holds for the permissions PublicKeyCallback returned, even
    when VerifiedPublicKeyCallback replaced them. -/
theorem source_address_enforced (cfg : Cfg) (reads : List Read) (evs : List Ev) (p : Nat)
    (h : run cfg reads = (evs, .ok p)) :
    ((cfg.perm p).sa = none ∨ ∃ es, (cfg.perm p).sa = some es ∧ SaSpec cfg.addr es) ∧
    ∀ g u k pk, lastKey evs = some (g, u, k, .accept pk) →
      ((cfg.perm pk).sa = none ∨ ∃ es, (cfg.perm pk).sa = some es ∧ SaSpec cfg.addr es) ∨
        ∃ (pre : List Req) (r : Req) (post : List Read), reads = pre.map Read.req ++ Read.req r :: post ∧ r.method ≠ "publickey" := by
  obtain ⟨_, r, _, _, _, _, hr, _, _, _, _, hsa, _⟩ := auth_sound cfg reads evs p h
  refine ⟨(saOk_spec cfg p).mp hsa, ?_⟩
  intro g u k pk hk
  obtain ⟨pre, r, post, st, e1, h1, _, h3⟩ := pk_success_is_last_callback cfg reads evs p h
  by_cases hm : r.method = "publickey"
  · obtain ⟨pk', a, b, _⟩ := h3 hm
    rw [a] at hk
    simp at hk
    left
    rw [← hk.2.2.2]
    exact (saOk_spec cfg pk').mp b
  · exact Or.inr ⟨pre, r, post, h1, hm⟩

/-! ## Go's list walk against OpenSSH's `addr_match_cidr_list` -/

theorem osshWalk_accept_iff (ret : OsshRes) (es : List Ossh) :
    osshWalk ret es = .accept ↔ (∀ e ∈ es, e ≠ .invalid) ∧ (ret = .accept ∨ .matches ∈ es) := by
  induction es generalizing ret with
  | nil => simp [osshWalk]
  | cons e es ih =>
    cases e
    · simp [osshWalk, ih]
    · simp only [osshWalk, ih]
      constructor
      · rintro ⟨h1, h2⟩
        exact ⟨by simpa using h1, by rcases h2 with h | h <;> simp [h]⟩
      · rintro ⟨h1, h2⟩
        refine ⟨fun e he => h1 e (by simp [he]), ?_⟩
        rcases h2 with h | h
        · exact Or.inl h
        · simp at h; exact Or.inr h
    · simp [osshWalk]

/-- **OpenSSH accepts** iff every entry is valid and some entry matches -/
theorem ossh_accepts_iff (es : List Ossh) :
    osshList es = .accept ↔ (∀ e ∈ es, e ≠ .invalid) ∧ .matches ∈ es := by
  simp [osshList, osshWalk_accept_iff]

/-- **Go accepts** (given a TCP peer) iff some entry matches and no entry BEFORE it is unparsable -/
theorem go_accepts_iff (es : List SAEntry) :
    matchEntries es = true ↔ ∃ pre x post, es = pre ++ x :: post ∧ isMatch x = true ∧ ∀ y ∈ pre, y ≠ .bad :=
  matchEntries_spec es

/-- whenever the entry-level verdicts agree, everything OpenSSH accepts Go accepts -/
theorem ossh_accept_imp_go (es : List Entry2) (hag : ∀ e ∈ es, e.agree = true)
    (h : osshList (es.map (·.ossh)) = .accept) : matchEntries (es.map (·.go)) = true := by
  rw [ossh_accepts_iff] at h
  obtain ⟨hvalid, hm⟩ := h
  rw [List.mem_map] at hm
  obtain ⟨e, he, hem⟩ := hm
  obtain ⟨pre, post, rfl⟩ := List.append_of_mem he
  rw [matchEntries_spec]
  refine ⟨pre.map (·.go), e.go, post.map (·.go), by simp, ?_, ?_⟩
  · have := hag e (by simp)
    simp [Entry2.agree, hem] at this
    exact this.1
  · intro y hy
    rw [List.mem_map] at hy
    obtain ⟨e', he', rfl⟩ := hy
    have hag' := hag e' (by simp [he'])
    have hv := hvalid e'.ossh (by simp; exact Or.inl ⟨e', he', rfl⟩)
    simp [Entry2.agree] at hag'
    intro hb
    have h2 := hag'.2
    simp [hb] at h2
    exact hv h2

/-- … and the two list rules coincide exactly when no invalid entry follows the first match:
    Go stops at the first match, OpenSSH keeps validating to the end -/
theorem go_eq_ossh (es : List Entry2) (hag : ∀ e ∈ es, e.agree = true) :
    (matchEntries (es.map (·.go)) = true ↔ osshList (es.map (·.ossh)) = .accept) ↔
      ¬ (matchEntries (es.map (·.go)) = true ∧ .invalid ∈ es.map (·.ossh)) := by
  constructor
  · intro h ⟨hg, hinv⟩
    have := (ossh_accepts_iff _).mp (h.mp hg)
    exact this.1 _ hinv rfl
  · intro h
    constructor
    · intro hg
      rw [ossh_accepts_iff]
      refine ⟨fun e he hinv => h ⟨hg, hinv ▸ he⟩, ?_⟩
      obtain ⟨pre, x, post, heq, hm, _⟩ := (matchEntries_spec _).mp hg
      have hx : x ∈ es.map (·.go) := by rw [heq]; simp
      rw [List.mem_map] at hx ⊢
      obtain ⟨e, he, rfl⟩ := hx
      have := hag e he
      simp [Entry2.agree, hm] at this
      exact ⟨e, he, this.1⟩
    · exact ossh_accept_imp_go es hag

/-- the divergence, concretely: "10.1.2.3,garbage" from 10.1.2.3 — Go admits, OpenSSH treats the
    option as invalid and denies -/
example : matchEntries [.ipEq, .bad] = true ∧ osshList [.matches, .invalid] = .error := by decide

/-! ## the last PublicKeyCallback invocation -/

/-- the last PublicKeyCallback invocation recorded in a log -/
def lastPkEv : List Ev → KeyAcc
  | [] => none
  | e :: es =>
    match lastPkEv es with
    | some x => some x
    | none => match e with
      | .cbPk g u k o => some (g, u, k, o)
      | _ => none

theorem scanKey_some_lastPkEv (acc : KeyAcc) (evs : List Ev) (x : Nat × String × Nat × Outcome)
    (h : scanKey acc evs = some x) : lastPkEv evs = some x ∨ (lastPkEv evs = none ∧ acc = some x) := by
  induction evs generalizing acc with
  | nil => right; exact ⟨rfl, by simpa [scanKey] using h⟩
  | cons e es ih =>
    simp only [scanKey, List.foldl_cons] at h
    rcases ih (keyUpd acc e) h with h1 | ⟨h1, h2⟩
    · left; simp [lastPkEv, h1]
    · simp only [lastPkEv, h1]
      cases e <;> simp [keyUpd] at h2 ⊢
      case cbPk g u k o => exact h2
      case sendFailure ms p => cases p <;> simp_all [keyUpd]
      all_goals exact h2

/-- **last_pk_callback_is_authenticating_key.** When a publickey request succeeds, the last
    PublicKeyCallback invocation in the log is for the user and the key bytes that authenticated,
    was made by the callback set then in force, and returned accept -/
theorem last_pk_callback_is_authenticating_key (cfg : Cfg) (reads : List Read) (evs : List Ev) (p : Nat)
    (h : run cfg reads = (evs, .ok p)) :
    ∃ (pre : List Req) (r : Req) (post : List Read) (st : St) (e1 : List Ev),
      reads = pre.map Read.req ++ Read.req r :: post ∧ Steps cfg (St.init cfg) pre st e1 ∧
      (r.method = "publickey" → ∃ pkPerms, lastPkEv evs = some (st.gen, r.user, r.pk.key, .accept pkPerms)) := by
  obtain ⟨pre, r, post, st, e1, h1, h2, h3⟩ := pk_success_is_last_callback cfg reads evs p h
  refine ⟨pre, r, post, st, e1, h1, h2, ?_⟩
  intro hm
  obtain ⟨pk, a, _⟩ := h3 hm
  refine ⟨pk, ?_⟩
  rcases scanKey_some_lastPkEv none evs _ a with h | ⟨_, h⟩
  · exact h
  · simp at h

/-! ## non-vacuity -/

def pwFail : Read := .req { user := "a", service := "ssh-connection", method := "password", cb := .reject }
def noneReq : Read := .req { user := "a", service := "ssh-connection", method := "none" }

/-- MaxAuthTries = 2: free `none`, two failures, disconnect instead of the second failure message;
    the accepted password that follows is never read -/
example : run { cfgDemo with maxAuthTries := 2 }
    [noneReq, pwFail, pwFail, .req { user := "a", service := "ssh-connection", method := "password", cb := .accept 1 }] =
    ([.log "none" .fail, .sendFailure ["password", "publickey", "keyboard-interactive"] false,
      .cbPw 0 "a" "" .reject, .log "password" .fail, .sendFailure ["password", "publickey", "keyboard-interactive"] false,
      .cbPw 0 "a" "" .reject, .log "password" .fail, .sendDisconnect], .authErr) := by
  decide

/-- a `none` that is not the first one is not free -/
example : (run { cfgDemo with maxAuthTries := 2 } [noneReq, noneReq, noneReq]).1.getLast? = some .sendDisconnect ∧
    countFailures (run { cfgDemo with maxAuthTries := 2 } [noneReq, noneReq, noneReq]).1 = (2, 3) := by
  decide

set_option maxRecDepth 20000 in
/-- unlimited tries: 128 rejected passwords are all answered, the 129th request is never read -/
example : (run { cfgDemo with maxAuthTries := -1 } (List.replicate 130 pwFail)).1.getLast? = some .sendDisconnect ∧
    ((run { cfgDemo with maxAuthTries := -1 } (List.replicate 130 pwFail)).1.filter
      (fun e => match e with | .cbPw .. => true | _ => false)).length = 128 := by decide

/-- partial success for user a, then the same request for user b: refused outright -/
example : (run cfgDemo
    [.req { user := "a", service := "ssh-connection", method := "password", cb := .partialOk ⟨true, false, false, false⟩ 0 },
     .req { user := "b", service := "ssh-connection", method := "password", cb := .accept 1 }]).2 = .err := by decide

/-- query key 1 (accepted), query key 2 (accepted), sign with key 2: the last PublicKeyCallback
    invocation of the log is the one for key 2 -/
example : lastPkEv (run cfgDemo
    [.req (pkDemo true), .req { pkDemo true with pk := { (pkDemo true).pk with key := 2 } },
     .req { pkDemo false with pk := { (pkDemo false).pk with key := 2 }, cb := .reject }]).1 =
    some (0, "a", 2, .accept 2) := by decide

example : SaSpec .tcp [.ipNe, .cidrOut, .cidrIn, .bad] := ⟨rfl, [.ipNe, .cidrOut], .cidrIn, [.bad], rfl, rfl, by simp⟩
example : ¬ SaSpec .tcp [.ipNe, .bad, .cidrIn] := by
  intro ⟨_, h⟩
  have := (matchEntries_spec [.ipNe, .bad, .cidrIn]).mpr h
  simp [matchEntries] at this

end XC.C33
