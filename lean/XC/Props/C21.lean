/-
  C21 — PKCS#12 decoding: property theorems over XC.Model.C21 (core Lean only).
  KDF arithmetic, fillWithRepeats and output length are proved in Proofs/C21_Kdf
  (`pbkdf_add_eq`, `addBlockGo_spec`, `fill_len`, `fill_len_multiple`, `fill_get`, `pbkdf_length`).
-/
import XC.Model.C21
import XC.Model.C21_File
import XC.Proofs.C21_Kdf
namespace XC.C21
open XC

/-! ## BMP strings -/

def encUnits (rs : List Nat) : Bytes := rs.flatMap (fun r => [UInt8.ofNat (r / 256), UInt8.ofNat (r % 256)])

theorem encUnits_length (rs : List Nat) : (encUnits rs).length = 2 * rs.length := by
  induction rs with
  | nil => rfl
  | cons r rs ih =>
    have e : encUnits (r :: rs) = UInt8.ofNat (r / 256) :: UInt8.ofNat (r % 256) :: encUnits rs := by
      simp [encUnits]
    rw [e]; simp only [List.length_cons, ih]; omega

theorem units16_encUnits (rs : List Nat) (h : ∀ r ∈ rs, r < 0x10000) : units16 (encUnits rs) = rs := by
  induction rs with
  | nil => rfl
  | cons r rs ih =>
    have hr : r < 0x10000 := h r (by simp)
    have ih' := ih (fun x hx => h x (by simp [hx]))
    have e : encUnits (r :: rs) = UInt8.ofNat (r / 256) :: UInt8.ofNat (r % 256) :: encUnits rs := by
      simp [encUnits]
    rw [e]
    simp only [units16, ih', UInt8.toNat_ofNat']
    congr 1
    omega

def isSurrogate (r : Nat) : Prop := 0xd800 ≤ r ∧ r < 0xe000

theorem utf16Decode_id : ∀ (rs : List Nat), (∀ r ∈ rs, ¬ isSurrogate r) → utf16Decode rs = rs
  | [], _ => rfl
  | [a], h => by
    have := h a (by simp)
    unfold isSurrogate at this
    simp [utf16Decode, this]
  | a :: b :: rest, h => by
    have ha := h a (by simp)
    unfold isSurrogate at ha
    have : a < 0xd800 ∨ 0xe000 ≤ a := by omega
    simp only [utf16Decode]
    rw [if_pos this, utf16Decode_id (b :: rest) (fun r hr => h r (by simp [hr]))]

theorem stripTerminator_append (bs : Bytes) : stripTerminator (bs ++ [0, 0]) = bs := by
  unfold stripTerminator
  simp only [List.length_append, List.length_cons, List.length_nil]
  have e : bs.length + (0 + 1 + 1) - 2 = bs.length := by omega
  rw [e]
  simp

/-- **bmp_roundtrip.** Every string of BMP scalar values encodes (two bytes per rune, big-endian,
    plus the 00 00 terminator) and decodes back to itself. -/
theorem bmp_roundtrip (rs : List Nat) (h : ∀ r ∈ rs, r < 0x10000 ∧ ¬ isSurrogate r) :
    ∃ b, bmpString rs = some b ∧ b.length = 2 * rs.length + 2 ∧ decodeBMPString b = some rs := by
  have hany : rs.any needsSurrogates = false := by
    rw [List.any_eq_false]
    intro r hr
    have := (h r hr).1
    simp [needsSurrogates]; omega
  refine ⟨encUnits rs ++ [0, 0], ?_, ?_, ?_⟩
  · unfold bmpString; rw [hany]; rfl
  · simp [encUnits_length]
  · unfold decodeBMPString
    have hl : (encUnits rs ++ [0, 0]).length % 2 = 0 := by simp [encUnits_length]
    rw [if_neg (by omega), stripTerminator_append, units16_encUnits rs (fun r hr => (h r hr).1),
      utf16Decode_id rs (fun r hr => (h r hr).2)]

/-- **bmp_rejects_astral.** A string with any code point outside the BMP is refused. -/
theorem bmp_rejects_astral (rs : List Nat) (r : Nat) (hr : r ∈ rs) (h1 : 0x10000 ≤ r) (h2 : r ≤ 0x10FFFF) :
    bmpString rs = none := by
  unfold bmpString
  have : rs.any needsSurrogates = true := by
    rw [List.any_eq_true]
    exact ⟨r, hr, by simp [needsSurrogates]; omega⟩
  rw [this]; rfl

/-- and only those: for scalar values (≤ 0x10FFFF) refusal means an astral rune is present -/
theorem bmp_none_iff (rs : List Nat) : bmpString rs = none ↔ ∃ r ∈ rs, 0x10000 ≤ r ∧ r ≤ 0x10FFFF := by
  unfold bmpString
  cases h : rs.any needsSurrogates with
  | true =>
    rw [List.any_eq_true] at h
    obtain ⟨r, hr, hn⟩ := h
    simp only [needsSurrogates, Bool.and_eq_true, decide_eq_true_eq] at hn
    simp only [if_true, true_iff]
    exact ⟨r, hr, hn.1, hn.2⟩
  | false =>
    rw [List.any_eq_false] at h
    simp only [Bool.false_eq_true, if_false, reduceCtorEq, false_iff]
    rintro ⟨r, hr, h1, h2⟩
    have := h r hr
    simp [needsSurrogates] at this
    omega

example : bmpString [0x41, 0xe9, 0x5bc6] = some [0, 0x41, 0, 0xe9, 0x5b, 0xc6, 0, 0] := by decide
example : bmpString [0x41, 0x1d11e] = none := by decide
example : decodeBMPString [0xd8, 0x34, 0xdd, 0x1e, 0, 0] = some [0x1d11e] := by decide
example : decodeBMPString [0, 0x41, 0] = none := by decide

/-! ## PKCS#7 unpadding in pbDecrypt -/

/-- **unpad_iff.** The padding check accepts exactly the strings that end in k copies of the byte k
    with 1 ≤ k ≤ blockSize, and removes exactly those k bytes. -/
theorem unpad_iff (bs : Nat) (dec d : Bytes) :
    unpad bs dec = .ok d ↔ ∃ k, 1 ≤ k ∧ k ≤ bs ∧ k ≤ 255 ∧ dec = d ++ List.replicate k (UInt8.ofNat k) := by
  constructor
  · intro h
    unfold unpad at h
    cases hl : dec.getLast? with
    | none => simp [hl] at h
    | some last =>
      simp only [hl] at h
      by_cases c1 : last.toNat = 0 ∨ last.toNat > bs
      · rw [if_pos c1] at h; cases h
      rw [if_neg c1] at h
      by_cases c2 : dec.length < last.toNat
      · rw [if_pos c2] at h; cases h
      rw [if_neg c2] at h
      by_cases c3 : List.drop (dec.length - last.toNat) dec = List.replicate last.toNat last
      · rw [if_pos c3] at h
        injection h with h
        refine ⟨last.toNat, by omega, by omega, by have := last.toNat_lt; omega, ?_⟩
        have e : UInt8.ofNat last.toNat = last := by simp
        rw [e, ← c3, ← h, List.take_append_drop]
      · rw [if_neg c3] at h; cases h
  · rintro ⟨k, k1, k2, k3, rfl⟩
    unfold unpad
    have hk : (UInt8.ofNat k).toNat = k := by rw [UInt8.toNat_ofNat']; omega
    have hne : List.replicate k (UInt8.ofNat k) ≠ [] := by
      intro e; have := congrArg List.length e; simp at this; omega
    have hl : (d ++ List.replicate k (UInt8.ofNat k)).getLast? = some (UInt8.ofNat k) := by
      rw [List.getLast?_append, List.getLast?_replicate, if_neg (by omega)]
      rfl
    simp only [hl, hk]
    rw [if_neg (by omega), if_neg (by simp)]
    have e : (d ++ List.replicate k (UInt8.ofNat k)).length - k = d.length := by simp
    rw [e]
    simp

/-- the index `decrypted[len(decrypted)-1]` cannot fail on a non-empty buffer -/
theorem unpad_no_panic (bs : Nat) (dec : Bytes) (h : dec ≠ []) : unpad bs dec ≠ .panic := by
  unfold unpad
  cases hl : dec.getLast? with
  | none => rw [List.getLast?_eq_none_iff] at hl; exact absurd hl h
  | some last =>
    simp only
    split
    · simp
    split
    · simp
    split <;> simp

/-- **unpad_no_panic** for the whole tail of pbDecrypt: with a non-zero block size and any
    length-preserving CBC decryption, every input (empty, ragged, badly padded) gives an error or a
    plaintext — never a panic. -/
theorem pbDecryptTail_no_panic (bs : Nat) (decrypt : Bytes → Bytes) (hbs : 0 < bs)
    (hlen : ∀ x, (decrypt x).length = x.length) (enc : Bytes) : pbDecryptTail bs decrypt enc ≠ .panic := by
  unfold pbDecryptTail
  split
  · simp
  rename_i h0
  rw [if_neg (by omega)]
  split
  · simp
  apply unpad_no_panic
  intro e
  have := hlen enc
  rw [e] at this
  simp at this
  omega

/-- accepted ⇒ the plaintext is shorter than the ciphertext by 1..blockSize bytes -/
theorem pbDecryptTail_ok_len (bs : Nat) (decrypt : Bytes → Bytes) (hlen : ∀ x, (decrypt x).length = x.length)
    (enc d : Bytes) (h : pbDecryptTail bs decrypt enc = .ok d) :
    d.length < enc.length ∧ enc.length ≤ d.length + bs := by
  unfold pbDecryptTail at h
  split at h
  · cases h
  split at h
  · cases h
  split at h
  · cases h
  obtain ⟨k, k1, k2, _, e⟩ := (unpad_iff bs _ d).1 h
  have := hlen enc
  rw [e] at this
  simp at this
  omega

example : unpad 8 [1, 2, 3, 4, 5, 3, 3, 3] = .ok [1, 2, 3, 4, 5] := by decide
example : unpad 8 [1, 2, 3, 4, 5, 3, 2, 3] = .errPadding := by decide
example : unpad 8 [9, 9, 9, 9, 9, 9, 9, 9, 9] = .errPadding := by decide
example : pbDecryptTail 8 id [] = .errEmpty ∧ pbDecryptTail 8 id [1, 2, 3] = .errBlockSize := by decide

/-! ## MAC verdict -/

/-- verifyMac succeeds exactly when the algorithm is SHA-1, the iteration count is within
    0..2^20 and the stored digest is HMAC-SHA1 under the ID-3 key; a differing digest (of any length)
    with otherwise valid fields is ErrIncorrectPassword -/
theorem verifyMac_ok_iff (sha1 : Bool) (salt : Bytes) (it : Int) (digest msg pw : Bytes) :
    verifyMac sha1 salt it digest msg pw = .ok ↔
      sha1 = true ∧ 0 ≤ it ∧ it ≤ 2 ^ 20 ∧ digest = Prim.hmacSha1 (pbkdf salt pw it.toNat 3 20) msg := by
  unfold verifyMac maxIterations
  cases sha1 <;> simp
  by_cases h : it < 0 ∨ 1048576 < it
  · rw [if_pos h]; simp; omega
  · rw [if_neg h]
    by_cases hd : digest = Prim.hmacSha1 (pbkdf salt pw it.toNat 3 20) msg
    · simp [hd]; omega
    · simp [hd]

theorem verifyMac_incorrect_iff (sha1 : Bool) (salt : Bytes) (it : Int) (digest msg pw : Bytes) :
    verifyMac sha1 salt it digest msg pw = .incorrectPassword ↔
      sha1 = true ∧ 0 ≤ it ∧ it ≤ 2 ^ 20 ∧ digest ≠ Prim.hmacSha1 (pbkdf salt pw it.toNat 3 20) msg := by
  unfold verifyMac maxIterations
  cases sha1 <;> simp
  by_cases h : it < 0 ∨ 1048576 < it
  · rw [if_pos h]; simp; omega
  · rw [if_neg h]
    by_cases hd : digest = Prim.hmacSha1 (pbkdf salt pw it.toNat 3 20) msg
    · simp [hd]
    · simp [hd]; omega

/-- the retry of getSafeContents: the final verdict is "ok" iff the MAC verifies under the given
    password, or the given password is the BMP encoding of "" (00 00) and it verifies under the
    empty byte string; the password used afterwards is the one that verified -/
theorem verifyWithRetry_ok_iff (sha1 : Bool) (salt : Bytes) (it : Int) (digest msg pw pw' : Bytes) :
    verifyWithRetry sha1 salt it digest msg pw = (.ok, pw') ↔
      (verifyMac sha1 salt it digest msg pw = .ok ∧ pw' = pw) ∨
      (verifyMac sha1 salt it digest msg pw = .incorrectPassword ∧ pw = [0, 0] ∧
        verifyMac sha1 salt it digest msg [] = .ok ∧ pw' = []) := by
  unfold verifyWithRetry
  cases h : verifyMac sha1 salt it digest msg pw with
  | ok => simp; exact eq_comm
  | notImplemented => simp
  | incorrectPassword =>
    by_cases hp : pw = [0, 0]
    · simp [hp]
    · simp [hp]

/-! ## the DER walk of the Lean reader -/

/-- what a successful `tlv` returns, by length form -/
theorem tlv_cases {bs : Bytes} {t : UInt8} {c rest : Bytes} (h : tlv bs = some (t, c, rest)) :
    ∃ l r, bs = t :: l :: r ∧
      ((l < 0x80 ∧ l.toNat ≤ r.length ∧ c = r.take l.toNat ∧ rest = r.drop l.toNat) ∨
       (¬ l < 0x80 ∧ l.toNat - 0x80 ≤ r.length ∧
          natOfBE (r.take (l.toNat - 0x80)) ≤ (r.drop (l.toNat - 0x80)).length ∧
          c = (r.drop (l.toNat - 0x80)).take (natOfBE (r.take (l.toNat - 0x80))) ∧
          rest = (r.drop (l.toNat - 0x80)).drop (natOfBE (r.take (l.toNat - 0x80))))) := by
  match bs with
  | [] => simp [tlv] at h
  | [_] => simp [tlv] at h
  | tag :: l :: r =>
    simp only [tlv] at h
    by_cases ht : tag &&& 0x1f = 0x1f
    · rw [if_pos ht] at h; cases h
    rw [if_neg ht] at h
    by_cases hl : l < 0x80
    · rw [if_pos hl] at h
      by_cases h2 : r.length < l.toNat
      · rw [if_pos h2] at h; cases h
      · rw [if_neg h2] at h
        simp only [Option.some.injEq, Prod.mk.injEq] at h
        obtain ⟨rfl, rfl, rfl⟩ := h
        exact ⟨l, r, rfl, Or.inl ⟨hl, by omega, rfl, rfl⟩⟩
    · rw [if_neg hl] at h
      by_cases h2 : l.toNat - 0x80 = 0 ∨ l.toNat - 0x80 > 4 ∨ r.length < l.toNat - 0x80
      · rw [if_pos h2] at h; cases h
      · rw [if_neg h2] at h
        by_cases h3 : (r.drop (l.toNat - 0x80)).length < natOfBE (r.take (l.toNat - 0x80))
        · rw [if_pos h3] at h; cases h
        · rw [if_neg h3] at h
          simp only [Option.some.injEq, Prod.mk.injEq] at h
          obtain ⟨rfl, rfl, rfl⟩ := h
          exact ⟨l, r, rfl, Or.inr ⟨hl, by omega, by omega, rfl, rfl⟩⟩

/-- a TLV read consumes at least the two header bytes: contents and rest are strictly shorter
    than the input (this is what makes `tlvs` with fuel = length complete) -/
theorem tlv_progress {bs : Bytes} {t : UInt8} {c rest : Bytes} (h : tlv bs = some (t, c, rest)) :
    c.length + rest.length + 2 ≤ bs.length := by
  obtain ⟨l, r, rfl, h | h⟩ := tlv_cases h
  · obtain ⟨_, h1, hc, hr⟩ := h
    rw [hc, hr]
    simp only [List.length_take, List.length_drop, List.length_cons]; omega
  · obtain ⟨_, h1, h2, hc, hr⟩ := h
    rw [hc, hr]
    simp only [List.length_take, List.length_drop, List.length_cons] at h2 ⊢; omega

/-- header ++ contents ++ rest is the input: the walk never invents or skips bytes -/
theorem tlv_suffix {bs : Bytes} {t : UInt8} {c rest : Bytes} (h : tlv bs = some (t, c, rest)) :
    ∃ hdr, bs = hdr ++ c ++ rest := by
  obtain ⟨l, r, rfl, h | h⟩ := tlv_cases h
  · obtain ⟨_, _, hc, hr⟩ := h
    exact ⟨[t, l], by rw [hc, hr]; simp⟩
  · obtain ⟨_, _, _, hc, hr⟩ := h
    exact ⟨t :: l :: r.take (l.toNat - 0x80), by
      rw [hc, hr]
      simp only [List.cons_append, List.append_assoc, List.take_append_drop]⟩

theorem tlvs_fuel_eq : ∀ (f1 f2 : Nat) (bs : Bytes), bs.length ≤ f1 → bs.length ≤ f2 → tlvs f1 bs = tlvs f2 bs := by
  intro f1
  induction f1 with
  | zero =>
    intro f2 bs h _
    have : bs = [] := List.eq_nil_of_length_eq_zero (by omega)
    subst this
    cases f2 <;> rfl
  | succ f ih =>
    intro f2 bs h1 h2
    cases bs with
    | nil => cases f2 <;> rfl
    | cons b tl =>
      cases f2 with
      | zero => simp at h2
      | succ g =>
        simp only [tlvs, List.isEmpty_cons, Bool.false_eq_true, if_false]
        cases ht : tlv (b :: tl) with
        | none => rfl
        | some r =>
          obtain ⟨t, c, rest⟩ := r
          have hp := tlv_progress ht
          simp only [List.length_cons] at hp h1 h2
          simp only
          rw [ih g rest (by omega) (by omega)]

/-- **der_walk_total.** `tlvs` is structurally recursive on its fuel, and fuel = input length is
    always enough: more fuel never changes the answer. So `children bs = none` means a malformed TLV
    (bad length form, contents longer than the input), never an exhausted budget. -/
theorem tlvs_fuel_irrelevant (fuel : Nat) (bs : Bytes) (h : bs.length ≤ fuel) : tlvs fuel bs = tlvs bs.length bs :=
  tlvs_fuel_eq fuel bs.length bs h (Nat.le_refl _)

theorem children_eq (fuel : Nat) (bs : Bytes) (h : bs.length ≤ fuel) : tlvs fuel bs = children bs :=
  tlvs_fuel_irrelevant fuel bs h

/-! ## the reader's MAC decision is verifyMac -/

/-- **reader_mac_decision.** The reader reports a verified MAC exactly when the password encodes,
    the outer structure is the known one with version 3 and a `data` authSafe, and `verifyWithRetry`
    — hence `verifyMac_ok_iff` — says ok on the fields the DER walk extracted. -/
theorem openPfx_macOk_iff (file : Bytes) (rs : List Nat) (pw' : Bytes) :
    openPfx file rs = some (.macOk pw') ↔
      ∃ pw m, bmpString rs = some pw ∧ parsePfxMac file = some m ∧ m.version = 3 ∧ m.authSafeIsData = true ∧
        verifyWithRetry m.oidIsSha1 m.salt m.iterations m.digest m.content pw = (.ok, pw') := by
  unfold openPfx
  cases hb : bmpString rs with
  | none => simp
  | some pw =>
    cases hm : parsePfxMac file with
    | none => simp
    | some m =>
      simp only
      constructor
      · intro h
        by_cases hc : m.version ≠ 3 ∨ (!m.authSafeIsData) = true
        · rw [if_pos hc] at h; cases h
        · rw [if_neg hc] at h
          have h1 : m.version = 3 := Classical.not_not.mp (fun hn => hc (Or.inl hn))
          have h2 : m.authSafeIsData = true := by
            cases hh : m.authSafeIsData with
            | true => rfl
            | false => exact absurd (Or.inr (by simp [hh])) hc
          refine ⟨pw, m, rfl, rfl, h1, h2, ?_⟩
          cases hv : verifyWithRetry m.oidIsSha1 m.salt m.iterations m.digest m.content pw with
          | mk r p =>
            rw [hv] at h
            cases r <;> simp at h
            rw [h]
      · rintro ⟨pw1, m1, e1, e2, h1, h2, hv⟩
        cases e1; cases e2
        rw [if_neg (by simp [h1, h2]), hv]

/-- **MAC binding.** If the reader accepts the MAC, the stored digest is HMAC-SHA1 — under the key
    derived (ID 3) from the password it will use for the bags — of exactly the bytes it will parse as
    the authenticated safe, with SHA-1 named and the iteration count within 0..2^20. A corrupted
    content, salt, count or digest can only be accepted through an HMAC-SHA1 coincidence. -/
theorem openPfx_mac_binding (file : Bytes) (rs : List Nat) (pw' : Bytes)
    (h : openPfx file rs = some (.macOk pw')) :
    ∃ m, parsePfxMac file = some m ∧ m.oidIsSha1 = true ∧ 0 ≤ m.iterations ∧ m.iterations ≤ 2 ^ 20 ∧
      m.digest = Prim.hmacSha1 (pbkdf m.salt pw' m.iterations.toNat 3 20) m.content := by
  obtain ⟨pw, m, _, hm, _, _, hv⟩ := (openPfx_macOk_iff file rs pw').1 h
  refine ⟨m, hm, ?_⟩
  rcases (verifyWithRetry_ok_iff _ _ _ _ _ _ _).1 hv with ⟨h1, rfl⟩ | ⟨_, _, h1, rfl⟩
  · exact (verifyMac_ok_iff _ _ _ _ _ _).1 h1
  · exact (verifyMac_ok_iff _ _ _ _ _ _).1 h1

/-! ## the whole KDF against RFC 7292 App. B.2 -/

/-- step 6.C of the RFC on all k blocks of I: I_j := (I_j + B + 1) mod 2^(8v) -/
def addAllSpec (v : Nat) (b : Bytes) (i : Bytes) : Nat → Bytes
  | 0 => i
  | k+1 => addBlockSpec v (i.take v) b ++ addAllSpec v b (i.drop v) k

/-- steps 6.A–6.C of the RFC, `k` rounds left -/
def pbkdfLoopSpec (h : Bytes → Bytes) (v : Nat) (d : Bytes) (r : Nat) : Nat → Bytes → Bytes
  | 0, _ => []
  | k+1, i =>
    let ai := hashIter h (h (d ++ i)) (r - 1)
    if k = 0 then ai
    else ai ++ pbkdfLoopSpec h v d r k (addAllSpec v (makeB ai v) i (i.length / v))

/-- RFC 7292 App. B.2 with u = 20: D = v copies of ID; I = S ‖ P; c = ⌈n/u⌉; A = A_1 ‖ … ‖ A_c; first n bytes -/
def pbkdfSpec (h : Bytes → Bytes) (v : Nat) (salt password : Bytes) (r : Nat) (id : UInt8) (size : Nat) : Bytes :=
  (pbkdfLoopSpec h v (List.replicate v id) r ((size + 20 - 1) / 20)
    (fillWithRepeats salt v ++ fillWithRepeats password v)).take size

theorem addAllGo_eq_spec (v : Nat) (b : Bytes) : ∀ k i, addAllGo v b i k = addAllSpec v b i k
  | 0, _ => rfl
  | k+1, i => by simp only [addAllGo, addAllSpec, pbkdf_add_eq, addAllGo_eq_spec v b k]

theorem pbkdfLoop_eq_spec (h : Bytes → Bytes) (v : Nat) (d : Bytes) (r : Nat) :
    ∀ c i, pbkdfLoop h v d r c i = pbkdfLoopSpec h v d r c i
  | 0, _ => rfl
  | c+1, i => by
    simp only [pbkdfLoop, pbkdfLoopSpec, addAllGo_eq_spec, pbkdfLoop_eq_spec h v d r c]

/-- **pbkdf_eq_spec.** The whole derivation as coded (math/big detour included) is RFC 7292 App. B.2
    for every salt, password, iteration count, ID and size (over the SHA-1 stand-in). -/
theorem pbkdf_eq_spec (salt password : Bytes) (r : Nat) (id : UInt8) (size : Nat) :
    pbkdf salt password r id size = pbkdfSpec Prim.sha1 64 salt password r id size := by
  unfold pbkdf pbkdfWith pbkdfSpec
  simp only [pbkdfLoop_eq_spec]

/-! ## wrong password -/

/-- **wrong_password.** If the outer structure is the known one (version 3, `data`, SHA-1, count in
    range) and the stored digest is not the HMAC under the key derived from the given password — nor,
    when the given password is "" (00 00), under the zero-length password — the reader's verdict is
    ErrIncorrectPassword. -/
theorem openPfx_wrong_password (file : Bytes) (rs : List Nat) (pw : Bytes) (m : PfxMac)
    (hb : bmpString rs = some pw) (hm : parsePfxMac file = some m) (h3 : m.version = 3)
    (hd : m.authSafeIsData = true) (hs : m.oidIsSha1 = true) (hi0 : 0 ≤ m.iterations) (hi1 : m.iterations ≤ 2 ^ 20)
    (hne : m.digest ≠ Prim.hmacSha1 (pbkdf m.salt pw m.iterations.toNat 3 20) m.content)
    (hne0 : pw = [0, 0] → m.digest ≠ Prim.hmacSha1 (pbkdf m.salt [] m.iterations.toNat 3 20) m.content) :
    openPfx file rs = some .incorrectPassword := by
  have v1 : verifyMac m.oidIsSha1 m.salt m.iterations m.digest m.content pw = .incorrectPassword :=
    (verifyMac_incorrect_iff _ _ _ _ _ _).2 ⟨hs, hi0, hi1, hne⟩
  unfold openPfx
  rw [hb, hm]
  simp only
  rw [if_neg (by simp [h3, hd])]
  unfold verifyWithRetry
  rw [v1]
  simp only
  by_cases hp : pw = [0, 0]
  · have v2 : verifyMac m.oidIsSha1 m.salt m.iterations m.digest m.content [] = .incorrectPassword :=
      (verifyMac_incorrect_iff _ _ _ _ _ _).2 ⟨hs, hi0, hi1, hne0 hp⟩
    rw [if_pos hp, v2]
  · rw [if_neg hp]

/-- and conversely the verdict ErrIncorrectPassword is only ever produced by a MAC mismatch -/
theorem openPfx_incorrect_only_if (file : Bytes) (rs : List Nat) (h : openPfx file rs = some .incorrectPassword) :
    ∃ pw m, bmpString rs = some pw ∧ parsePfxMac file = some m ∧
      m.digest ≠ Prim.hmacSha1 (pbkdf m.salt pw m.iterations.toNat 3 20) m.content := by
  unfold openPfx at h
  cases hb : bmpString rs with
  | none => simp [hb] at h
  | some pw =>
    cases hm : parsePfxMac file with
    | none => simp [hb, hm] at h
    | some m =>
      refine ⟨pw, m, rfl, rfl, ?_⟩
      simp only [hb, hm] at h
      by_cases hc : m.version ≠ 3 ∨ (!m.authSafeIsData) = true
      · rw [if_pos hc] at h; cases h
      · rw [if_neg hc] at h
        intro hd
        have hx : verifyMac m.oidIsSha1 m.salt m.iterations m.digest m.content pw ≠ .incorrectPassword := by
          intro hv
          exact ((verifyMac_incorrect_iff _ _ _ _ _ _).1 hv).2.2.2 hd
        unfold verifyWithRetry at h
        cases hv : verifyMac m.oidIsSha1 m.salt m.iterations m.digest m.content pw with
        | ok => simp [hv] at h
        | notImplemented => simp [hv] at h
        | incorrectPassword => exact hx hv

/-! ## non-vacuity: concrete instances for the theorems above -/
-- step 6.C: the three length branches on a 2-byte toy width
example : bigBytes 65537 = [1, 0, 1] ∧ bigBytes 1 = [1] ∧ bigBytes 258 = [1, 2] := by
  simp [bigBytes, minimalLE]
example : adjustLen 2 [1, 0, 1] = [0, 1] ∧ adjustLen 2 [1] = [0, 1] ∧ adjustLen 2 [1, 2] = [1, 2] := by decide
example : addBlockSpec 2 [0xff, 0xff] [0, 1] = [0, 1] ∧ addBlockSpec 2 [0, 0] [0, 0] = [0, 1] := by decide
example : addBlockGo 2 [0xff, 0xff] [0, 1] = [0, 1] := by rw [pbkdf_add_eq]; decide
-- fillWithRepeats
example : (fillWithRepeats [1, 2, 3] 4).length = 4 := by rw [fill_len _ _ (by decide)]; rfl
example : fillWithRepeats [1, 2, 3] 4 = [1, 2, 3, 1] := by decide
example : (fillWithRepeats [1, 2, 3, 4] 2).length = 4 := fill_len_multiple _ 2 2 (by decide) (by decide) rfl
-- BMP
example : ∃ b, bmpString [0x41, 0x5bc6] = some b ∧ b.length = 6 ∧ decodeBMPString b = some [0x41, 0x5bc6] :=
  bmp_roundtrip _ (by intro r hr; simp at hr; rcases hr with rfl | rfl <;> simp [isSurrogate])
example : bmpString [0x41, 0x1d11e, 0x42] = none := bmp_rejects_astral _ 0x1d11e (by decide) (by decide) (by decide)
-- padding
example : pbDecryptTail 8 id [9, 9, 9, 9, 9, 9, 9, 1] ≠ .panic :=
  pbDecryptTail_no_panic 8 id (by decide) (fun _ => rfl) _
-- MAC verdict: both outcomes occur
example : verifyMac true [] 1 (Prim.hmacSha1 (pbkdf [] [0, 0] 1 3 20) [7]) [7] [0, 0] = .ok :=
  (verifyMac_ok_iff _ _ _ _ _ _).2 ⟨rfl, by decide, by decide, rfl⟩
example : verifyMac true [] (2 ^ 20 + 1) [] [] [] = .notImplemented := by decide
-- DER walk
example : tlv [0x30, 0x02, 0x05, 0x00, 0xff] = some (0x30, [0x05, 0x00], [0xff]) := by decide
example : tlv [0x1f, 0x02, 0x05, 0x00] = none ∧ tlv [0x30, 0x05, 0x00] = none := by decide
example : children [0x02, 0x01, 0x03, 0x04, 0x00] = some [(0x02, [0x03]), (0x04, [])] := by decide

/-! ## the container-level statement

  `Model/C21_File.lean` is an independent reader (DER walk, MAC, 3DES/RC2-40 CBC with the App. B KDF,
  unpadding, bag extraction) that the driver runs on every OpenSSL-written file; its agreement with
  pkcs12.Decode / ToPEM and with the digests of the original key and certificate is differential.
  The full statement is a round trip against a conforming writer, which is not modelled: -/

/-- for every `writer` that produces legacy PFX files (PBE-SHA1-3DES / RC2-40 bags, HMAC-SHA1 MAC)
    from a PKCS#8 key, a certificate and a BMP password: the reader returns exactly that key and
    certificate with the right password and `incorrectPassword` with any password whose P string
    differs. Not proved (needs decrypt ∘ encrypt = id for DES/RC2 and DER write/read lemmas). -/
def C21_full (writer : (pkcs8 cert : Bytes) → (pw : List Nat) → Bytes)
    (keyOut : Bytes → Option Bytes) : Prop :=
  ∀ (pkcs8 cert : Bytes) (pw : List Nat), (∀ r ∈ pw, r < 0x10000 ∧ ¬ isSurrogate r) →
    ∃ enc pwUsed, bmpString pw = some enc ∧ openPfx (writer pkcs8 cert pw) pw = some (.macOk pwUsed) ∧
      ∃ bc bk c k, readBags (writer pkcs8 cert pw) pwUsed = .ok [bc, bk] ∧
        decodeBag bc pwUsed = .ok (some c) ∧ decodeBag bk pwUsed = .ok (some k) ∧
        c.type = "CERTIFICATE" ∧ c.bytes = cert ∧ k.type = "PRIVATE-KEY" ∧ some k.bytes = keyOut pkcs8

end XC.C21
