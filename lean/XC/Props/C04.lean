/-
  C04 — Poly1305 tags equal the mathematical definition.

  Statement (properties.jsonl): for every 32-byte key and message, the tag produced by one-shot Sum or by any
  sequence of Write calls equals ((Σ (block_i + 2^(8·len_i)) · r^(n-i)) mod 2^130-5 + s) mod 2^128 with r
  clamped; Verify accepts exactly that tag.

  The model (XC.Model.C04) is the limb code of internal/poly1305/sum_generic.go (Add64/Mul64/Sub64 carries,
  overflow panics as `none`), the Write/Sum buffer and the `finalized` flag.  The spec is `tagSpec` (arithmetic
  on Nat).  Everything below is proved for all keys, all messages, all chunkings and all call histories.
-/
import XC.Proofs.C04_Spec
namespace XC.C04

/-! ### the arithmetic core -/

/-- One loop iteration of `updateGeneric`: with the accumulator invariant (`h2 ≤ 4`) and clamped `r`
    none of the three `panic("unexpected overflow")` sites is reached, the new accumulator is
    `(h + block)·r` modulo `2^130-5`, and the invariant is re-established. -/
theorem update_block_correct (h : H) (r0 r1 m0 m1 hb : UInt64) (hi : Inv h) (hc : Clamped r0 r1)
    (hhb : hb.toNat ≤ 1) :
    ∃ g, updateBlock h r0 r1 m0 m1 hb = some g ∧ Inv g ∧
      g.val % p = ((h.val + (m0.toNat + 2 ^ 64 * m1.toNat + 2 ^ 128 * hb.toNat)) * rVal r0 r1) % p :=
  updateBlock_correct h r0 r1 m0 m1 hb hi hc hhb

example : updateBlock ⟨5, 7, 4⟩ rMask0 rMask1 0xFFFFFFFFFFFFFFFF 0xFFFFFFFFFFFFFFFF 1 ≠ none := by decide

/-- non-vacuity: the hypotheses hold for the extreme state (h2 = 4, limbs all ones) with `r` at its clamped maximum -/
example : Inv ⟨0xFFFFFFFFFFFFFFFF, 0xFFFFFFFFFFFFFFFF, 4⟩ ∧ Clamped rMask0 rMask1 ∧ (1 : UInt64).toNat ≤ 1 := by
  unfold Inv Clamped; decide

/-- the exact limb result, not only its residue: `T mod 2^130 + 5·(T div 2^130)` for the 4-limb product `T` -/
theorem update_block_limbs (h : H) (r0 r1 m0 m1 hb : UInt64) (hi : Inv h) (hc : Clamped r0 r1)
    (hhb : hb.toNat ≤ 1) :
    let T := (h.val + (m0.toNat + 2 ^ 64 * m1.toNat + 2 ^ 128 * hb.toNat)) * rVal r0 r1
    ∃ g, updateBlock h r0 r1 m0 m1 hb = some g ∧ g.val = T % 2 ^ 130 + 5 * (T / 2 ^ 130) ∧ Inv g :=
  updateBlock_limbs h r0 r1 m0 m1 hb hi hc hhb

/-- the overflow panics of `updateGeneric` are dead code: from any state satisfying the invariant,
    with `r` clamped, no message makes it panic -/
theorem no_overflow_panic (h : H) (r0 r1 : UInt64) (hi : Inv h) (hc : Clamped r0 r1) (msg : Bytes) :
    (updateGeneric h r0 r1 msg).isSome = true := by
  obtain ⟨g, hg, _⟩ := updateGeneric_correct r0 r1 hc _ msg h rfl hi
  simp [hg]

/-- the invariant gives what `finalize` needs: a single conditional subtraction of `p` suffices -/
theorem inv_lt_two_p (h : H) (hi : Inv h) : h.val < 2 * p := hi.val_lt

/-- `finalize`: borrow chain + `select64` + addition of `s` = `((h mod p) + s) mod 2^128`, little-endian -/
theorem finalize_correct (h : H) (s0 s1 : UInt64) (hv : h.val < 2 * p) :
    finalize h s0 s1 = natToLE 16 ((h.val % p + (s0.toNat + 2 ^ 64 * s1.toNat)) % 2 ^ 128) :=
  finalize_spec h s0 s1 hv

/-- the subtraction really happens for `h ∈ [p, 2^130)`: e.g. `h = p` gives tag `s`, not `p + s` -/
example : finalize ⟨p0, p1, p2⟩ 0 0 = zeros 16 := by decide

/-- `initialize` computes the RFC 8439 clamp of the first 16 key bytes and `s` = the last 16 -/
theorem initialize_correct (key : Bytes) (hk : key.length = 32) :
    rVal (initMac key).r0 (initMac key).r1 = rOf key ∧
    (initMac key).s0.toNat + 2 ^ 64 * (initMac key).s1.toNat = sOf key ∧
    Clamped (initMac key).r0 (initMac key).r1 :=
  ⟨(rOf_eq key (by omega)).symm, (sOf_eq key hk).symm, clamped_init key⟩

/-! ### Write / Sum: any chunking = the spec of the concatenation -/

theorem tracks_init (key : Bytes) :
    Tracks (initMac key).r0 (initMac key).r1 (initMac key).s0 (initMac key).s1 (initMac key) [] := by
  refine ⟨rfl, rfl, rfl, rfl, by simp [initMac], by simp [Inv, initMac], [], by simp [initMac], rfl, ?_⟩
  rw [updateGeneric_nil]; rfl

/-- feed a list of chunks through `Mac.write` (`none` = panic) -/
def writeAll (m : Mac) : List Bytes → Option Mac
  | [] => some m
  | c :: cs => (m.write c).bind (fun m' => writeAll m' cs)

theorem writeAll_tracks (r0 r1 s0 s1 : UInt64) (hc : Clamped r0 r1) (chunks : List Bytes) :
    ∀ (m : Mac) (M : Bytes), Tracks r0 r1 s0 s1 m M →
      ∃ m', writeAll m chunks = some m' ∧ Tracks r0 r1 s0 s1 m' (M ++ chunks.flatten) := by
  induction chunks with
  | nil => intro m M ht; exact ⟨m, rfl, by simpa using ht⟩
  | cons c cs ih =>
    intro m M ht
    obtain ⟨m1, h1, t1⟩ := write_tracks r0 r1 s0 s1 hc m M c ht
    obtain ⟨m2, h2, t2⟩ := ih m1 (M ++ c) t1
    exact ⟨m2, by simp [writeAll, h1, h2], by simpa [List.append_assoc] using t2⟩

theorem sum_tracks_spec (key : Bytes) (hk : key.length = 32) (m : Mac) (M : Bytes)
    (ht : Tracks (initMac key).r0 (initMac key).r1 (initMac key).s0 (initMac key).s1 m M) :
    m.sum = some (tagSpec key M) := by
  rw [sum_tracks _ _ _ _ (clamped_init key) m M ht, tagSpec, polySpec, rOf_eq key (by omega), sOf_eq key hk]

/-- **main theorem**: for every 32-byte key and every sequence of Writes, Sum returns the tag of the
    mathematical definition applied to the concatenation of the chunks — no panic, any chunking. -/
theorem mac_writes_eq_spec (key : Bytes) (hk : key.length = 32) (chunks : List Bytes) :
    (writeAll (initMac key) chunks).bind Mac.sum = some (tagSpec key chunks.flatten) := by
  obtain ⟨m', hw, ht⟩ := writeAll_tracks _ _ _ _ (clamped_init key) chunks _ _ (tracks_init key)
  rw [hw]
  simpa using sum_tracks_spec key hk m' _ ht

/-- non-vacuity: a concrete key and a chunking that straddles a block boundary -/
example : (writeAll (initMac (zeros 32)) [zeros 15, [1, 2], zeros 20]).bind Mac.sum
    = some (tagSpec (zeros 32) (zeros 15 ++ [1, 2] ++ zeros 20)) := by
  have := mac_writes_eq_spec (zeros 32) (by simp [zeros]) [zeros 15, [1, 2], zeros 20]
  simpa using this

/-- any two chunkings of the same byte string give the same tag -/
theorem chunking_invariant (key : Bytes) (hk : key.length = 32) (c1 c2 : List Bytes)
    (h : c1.flatten = c2.flatten) :
    (writeAll (initMac key) c1).bind Mac.sum = (writeAll (initMac key) c2).bind Mac.sum := by
  rw [mac_writes_eq_spec key hk, mac_writes_eq_spec key hk, h]

/-- one-shot `Sum(out, msg, key)` -/
theorem sum_eq_spec (key msg : Bytes) (hk : key.length = 32) : sumOneShot key msg = some (tagSpec key msg) := by
  have := mac_writes_eq_spec key hk [msg]
  simp only [writeAll, List.flatten_cons, List.flatten_nil, List.append_nil] at this
  unfold sumOneShot
  cases hw : (initMac key).write msg with
  | none => simp [hw] at this
  | some m => simpa [hw] using this

theorem ctEq_iff (x y : Bytes) : ctEq x y = true ↔ x = y := by
  simp only [ctEq, Bool.and_eq_true, beq_iff_eq]
  constructor
  · exact fun h => h.2
  · exact fun h => ⟨by rw [h], h⟩

/-- one-shot `Verify` accepts exactly the spec tag -/
theorem verify_iff (tag key msg : Bytes) (hk : key.length = 32) :
    verifyOneShot tag key msg = some true ↔ tag = tagSpec key msg := by
  simp only [verifyOneShot, sum_eq_spec key msg hk, Option.map_some, Option.some.injEq, ctEq_iff]
  exact eq_comm

/-- non-vacuity of `verify_iff`: Verify accepts the spec tag of a concrete message and rejects a shorter string -/
example : verifyOneShot (tagSpec (zeros 32) [1, 2, 3]) (zeros 32) [1, 2, 3] = some true ∧
    verifyOneShot [] (zeros 32) [1, 2, 3] ≠ some true := by
  refine ⟨(verify_iff _ _ _ (by simp [zeros])).mpr rfl, ?_⟩
  intro h
  have := (verify_iff _ _ _ (by simp [zeros])).mp h
  have hl := natToLE_length 16 (polySpec (zeros 32) [1, 2, 3])
  rw [tagSpec] at this; rw [← this] at hl; simp at hl

theorem tagSpec_length (key msg : Bytes) : (tagSpec key msg).length = 16 := natToLE_length _ _

/-! ### the `MAC` object: every history of Write / Sum / Verify calls -/

/-- abstract machine: the bytes written so far and the `finalized` flag -/
def specStep (key : Bytes) (a : Bytes × Bool) : Call → (Bytes × Bool) × Out
  | .write q => if a.2 then (a, .panic) else ((a.1 ++ q, false), .wrote q.length)
  | .sum b => ((a.1, true), .tag (b ++ tagSpec key a.1))
  | .verify e => ((a.1, true), .ok (decide (e = tagSpec key a.1)))

def specRun (key : Bytes) (a : Bytes × Bool) : List Call → List Out
  | [] => []
  | c :: cs =>
    match specStep key a c with
    | (_, .panic) => [.panic]
    | (a', o) => o :: specRun key a' cs

theorem ctEq_decide (x y : Bytes) : ctEq x y = decide (x = y) := by
  rw [Bool.eq_iff_iff]; simp [ctEq_iff]

theorem run_refines_aux (key : Bytes) (hk : key.length = 32) (calls : List Call) :
    ∀ (m : MAC) (M : Bytes),
      Tracks (initMac key).r0 (initMac key).r1 (initMac key).s0 (initMac key).s1 m.mac M →
      m.run calls = specRun key (M, m.finalized) calls := by
  induction calls with
  | nil => intro m M _; rfl
  | cons c cs ih =>
    intro m M ht
    cases c with
    | write q =>
      by_cases hf : m.finalized = true
      · simp [MAC.run, MAC.step, specRun, specStep, hf]
      · obtain ⟨m1, h1, t1⟩ := write_tracks _ _ _ _ (clamped_init key) m.mac M q ht
        have hf' : m.finalized = false := by simpa using hf
        simp only [MAC.run, MAC.step, specRun, specStep, hf', h1, Bool.false_eq_true, if_false]
        rw [ih ⟨m1, false⟩ (M ++ q) t1]
    | sum b =>
      have hs := sum_tracks_spec key hk m.mac M ht
      simp only [MAC.run, MAC.step, specRun, specStep, hs]
      rw [ih { m with finalized := true } M ht]
    | verify e =>
      have hs := sum_tracks_spec key hk m.mac M ht
      simp only [MAC.run, MAC.step, specRun, specStep, hs]
      rw [ih { m with finalized := true } M ht, ctEq_decide]

/-- the same abstract machine when the caller recovers from panics: the state is unchanged by a panicking call -/
def specRunAll (key : Bytes) (a : Bytes × Bool) : List Call → List Out
  | [] => []
  | c :: cs => (specStep key a c).2 :: specRunAll key (specStep key a c).1 cs

theorem runAll_refines_aux (key : Bytes) (hk : key.length = 32) (calls : List Call) :
    ∀ (m : MAC) (M : Bytes),
      Tracks (initMac key).r0 (initMac key).r1 (initMac key).s0 (initMac key).s1 m.mac M →
      m.runAll calls = specRunAll key (M, m.finalized) calls := by
  induction calls with
  | nil => intro m M _; rfl
  | cons c cs ih =>
    intro m M ht
    cases c with
    | write q =>
      by_cases hf : m.finalized = true
      · have h1 : m.step (.write q) = (m, .panic) := by simp [MAC.step, hf]
        have h2 : specStep key (M, m.finalized) (.write q) = ((M, m.finalized), .panic) := by simp [specStep, hf]
        simp only [MAC.runAll, specRunAll, h1, h2]
        rw [ih m M ht]
      · obtain ⟨m1, hw, t1⟩ := write_tracks _ _ _ _ (clamped_init key) m.mac M q ht
        have hf' : m.finalized = false := by simpa using hf
        have h1 : m.step (.write q) = (⟨m1, m.finalized⟩, .wrote q.length) := by simp [MAC.step, hf', hw]
        have h2 : specStep key (M, m.finalized) (.write q) = ((M ++ q, false), .wrote q.length) := by
          simp [specStep, hf']
        simp only [MAC.runAll, specRunAll, h1, h2]
        rw [ih ⟨m1, m.finalized⟩ (M ++ q) t1, hf']
    | sum b =>
      have hs := sum_tracks_spec key hk m.mac M ht
      have h1 : m.step (.sum b) = ({ m with finalized := true }, .tag (b ++ tagSpec key M)) := by simp [MAC.step, hs]
      simp only [MAC.runAll, specRunAll, h1, specStep]
      rw [ih { m with finalized := true } M ht]
    | verify e =>
      have hs := sum_tracks_spec key hk m.mac M ht
      have h1 : m.step (.verify e) = ({ m with finalized := true }, .ok (decide (e = tagSpec key M))) := by
        simp [MAC.step, hs, ctEq_decide]
      simp only [MAC.runAll, specRunAll, h1, specStep]
      rw [ih { m with finalized := true } M ht]

/-- histories in which the caller recovers from the Write-after-Sum panic and keeps using the MAC: the object is
    unchanged by the panicking call, later Sum/Verify still answer for the bytes written before -/
theorem runAll_refines (key : Bytes) (hk : key.length = 32) (calls : List Call) :
    (new key).runAll calls = specRunAll key ([], false) calls :=
  runAll_refines_aux key hk calls (new key) [] (tracks_init key)

example : (new (zeros 32)).runAll [.write [1], .sum [], .write [2], .sum [9]]
    = [.wrote 1, .tag (tagSpec (zeros 32) [1]), .panic, .tag (9 :: tagSpec (zeros 32) [1])] := by
  rw [runAll_refines _ (by simp [zeros])]
  simp [specRunAll, specStep]

/-- **history refinement**: for every 32-byte key and every sequence of Write / Sum / Verify calls on one
    `MAC`, the outputs are those of the abstract machine: Sum returns `b ‖ tagSpec(key, bytes written)`,
    Verify accepts exactly that tag, Write after Sum/Verify panics, and nothing else panics. -/
theorem run_refines (key : Bytes) (hk : key.length = 32) (calls : List Call) :
    (new key).run calls = specRun key ([], false) calls :=
  run_refines_aux key hk calls (new key) [] (tracks_init key)

/-- non-vacuity of `run_refines`: Write, Sum, then Write panics; Verify of the right tag after Sum is accepted -/
example : (new (zeros 32)).run [.write [1], .sum [], .verify (tagSpec (zeros 32) [1]), .write [2]]
    = [.wrote 1, .tag (tagSpec (zeros 32) [1]), .ok true, .panic] := by
  rw [run_refines _ (by simp [zeros])]
  simp [specRun, specStep]

end XC.C04
