/-
  C07 — hash state marshaling is transparent and rejects corrupt states (BLAKE2b, BLAKE2s, legacy Keccak).
  Statements over XC.Model.C05 (`Digest.marshal`, `Digest.unmarshal` — the *repaired* UnmarshalBinary) and
  XC.Model.C07 (checked method semantics `writeE`/`sumE`, legacy Keccak sponge).
-/
import XC.Proofs.C07
import XC.Props.C05
namespace XC.C07
open XC.C05

variable {A : Alg}

/-! ## BLAKE2b / BLAKE2s -/

/-- `Safe` plus the array type of `key` (a `[BlockSize]byte`; Reset copies it into `block`) -/
def SafeState (d : Digest A) : Prop := Safe d ∧ d.key.length = A.bs

/-- **unmarshal_safe**: whatever bytes are fed to UnmarshalBinary, it returns an error or a state with
    `1 ≤ size ≤ Size`, `offset ≤ BlockSize` and a full-length block. -/
theorem unmarshal_safe (d d' : Digest A) (b : Bytes) (hk : d.key.length = A.bs)
    (h : d.unmarshal b = .ok d') : SafeState d' := by
  unfold Digest.unmarshal at h
  split at h
  · cases h
  · split at h
    · cases h
    · rename_i hlen
      simp only [] at h
      split at h
      · cases h
      · split at h
        · cases h
        · rename_i hs ho
          injection h with h
          subst h
          have hl : b.length = marshaledSize A := by omega
          unfold marshaledSize at hl
          refine ⟨⟨?_, ?_, ?_, ?_⟩, hk⟩
          · show 1 ≤ (b.getD (A.magic.length + A.hLen + A.cLen) 0).toNat; omega
          · show (b.getD (A.magic.length + A.hLen + A.cLen) 0).toNat ≤ A.maxSize; omega
          · show (b.getD (marshaledSize A - 1) 0).toNat ≤ A.bs; omega
          · show (List.take A.bs (List.drop (A.cLen + 1) (List.drop A.hLen (List.drop A.magic.length b)))).length = A.bs
            simp only [List.length_take, List.length_drop]
            omega

/-- **safe_no_panic**: on a safe state none of the bounds checks of Write and Sum fails, and the
    results are those of the total functions used in C05. -/
theorem safe_no_panic (d : Digest A) (hs : SafeState d) (p : Bytes) :
    writeE d p = .ok (d.write p) ∧ sumE d = .ok d.sum := by
  obtain ⟨⟨h1, h2, h3, h4⟩, _⟩ := hs
  constructor
  · unfold writeE
    rw [if_neg]; omega
  · unfold sumE
    rw [if_neg (by omega), if_neg (by omega)]

theorem safe_write (L : Laws A) (d : Digest A) (hs : SafeState d) (p : Bytes) : SafeState (d.write p) := by
  obtain ⟨⟨h1, h2, h3, h4⟩, hk⟩ := hs
  obtain ⟨t, ht⟩ := L.cof_surj d.c
  obtain ⟨_, _, hI, _⟩ := write_spec L d p t ⟨h3, h4⟩ ht
  obtain ⟨e1, e2, _⟩ := write_size d p
  exact ⟨⟨by rw [e1]; exact h1, by rw [e1]; exact h2, hI.1, hI.2⟩, by rw [e2]; exact hk⟩

theorem safe_reset (d : Digest A) (hs : SafeState d) : SafeState d.reset := by
  obtain ⟨⟨h1, h2, h3, h4⟩, hk⟩ := hs
  unfold Digest.reset
  simp only []
  split
  · exact ⟨⟨h1, h2, Nat.le_refl _, hk⟩, hk⟩
  · exact ⟨⟨h1, h2, Nat.zero_le _, h4⟩, hk⟩

/-- a history with Go's bounds checks: `none` = some call panicked -/
def runE (d : Digest A) : List Ev → Option (List Bytes)
  | [] => some []
  | .write p :: r => match writeE d p with
    | .ok d' => runE d' r
    | .error _ => none
  | .sum :: r => match sumE d with
    | .ok o => (runE d r).map (o :: ·)
    | .error _ => none
  | .reset :: r => runE d.reset r

/-- **no panic, ever**: from a safe state every Write/Sum/Reset history runs to completion and produces
    what the unchecked model produces -/
theorem safe_run (L : Laws A) (evs : List Ev) : ∀ (d : Digest A), SafeState d → runE d evs = some (run d evs) := by
  induction evs with
  | nil => intros; rfl
  | cons e r ih =>
    intro d hs
    cases e with
    | write p =>
      simp only [runE, run, (safe_no_panic d hs p).1]
      exact ih _ (safe_write L d hs p)
    | sum =>
      simp only [runE, run, (safe_no_panic d hs []).2, ih d hs]
      rfl
    | reset =>
      simp only [runE, run]
      exact ih _ (safe_reset d hs)

/-- the property clause for BLAKE2: UnmarshalBinary returns an error, or a state on which no history of
    Write / Sum / Reset panics -/
theorem unmarshal_then_no_panic (L : Laws A) (d : Digest A) (b : Bytes) (hk : d.key.length = A.bs) :
    (∃ e, d.unmarshal b = .error e) ∨
    (∃ d', d.unmarshal b = .ok d' ∧ ∀ evs, runE d' evs = some (run d' evs)) := by
  cases h : d.unmarshal b with
  | error e => exact Or.inl ⟨e, rfl⟩
  | ok d' => exact Or.inr ⟨d', rfl, fun evs => safe_run L evs d' (unmarshal_safe d d' b hk h)⟩

theorem newDigest_key_len (size : Nat) (key : Bytes) (d0 : Digest A) (h : newDigest A size key = some d0) :
    d0.key.length = A.bs := by
  unfold newDigest at h
  split at h
  · cases h
  · split at h
    · cases h
    · injection h with h
      subst h
      unfold Digest.reset
      simp only []
      split <;> (simp only []; rw [copyAt_length _ _ _ (by simp)]; exact zeros_length _)

/-! ### transparency -/

theorem getD_at (x y : Bytes) (v : UInt8) (n : Nat) (h : x.length = n) : (x ++ v :: y).getD n 0 = v := by
  subst h
  simp [List.getD_eq_getElem?_getD]

/-- **unmarshal_marshal**: UnmarshalBinary ∘ MarshalBinary restores exactly the fields MarshalBinary wrote
    (h, c, size, the whole block array including stale bytes, offset) into any receiver. -/
theorem unmarshal_marshal (K : CodecLaws A) (d fresh : Digest A) (m : Bytes)
    (hs : SafeState d) (hm : d.marshal = some m) :
    fresh.unmarshal m =
      .ok { fresh with h := d.h, c := d.c, size := d.size, block := d.block, offset := d.offset } := by
  obtain ⟨⟨h1, h2, h3, h4⟩, _⟩ := hs
  have hml := K.maxSize_lt
  have hbl := K.bs_lt
  unfold Digest.marshal at hm
  split at hm
  · cases hm
  · injection hm with hm
    have hm' : m = A.magic ++ (A.encH d.h ++ (A.encC d.c ++ (UInt8.ofNat d.size :: (d.block ++ [UInt8.ofNat d.offset])))) := by
      rw [← hm]; simp
    have hlen : m.length = marshaledSize A := by
      rw [hm']; simp [marshaledSize, K.encH_len, K.encC_len, h4]; omega
    have hsz : (m.getD (A.magic.length + A.hLen + A.cLen) 0).toNat = d.size := by
      have : m = (A.magic ++ A.encH d.h ++ A.encC d.c) ++ UInt8.ofNat d.size :: (d.block ++ [UInt8.ofNat d.offset]) := by
        rw [hm']; simp
      rw [this, getD_at _ _ _ _ (by simp [K.encH_len, K.encC_len]; omega)]
      simp [UInt8.toNat_ofNat']; omega
    have hoff : (m.getD (marshaledSize A - 1) 0).toNat = d.offset := by
      have : m = (A.magic ++ A.encH d.h ++ A.encC d.c ++ [UInt8.ofNat d.size] ++ d.block) ++ UInt8.ofNat d.offset :: [] := by
        rw [hm']; simp
      rw [this, getD_at _ _ _ _ (by simp [marshaledSize, K.encH_len, K.encC_len, h4]; omega)]
      simp [UInt8.toNat_ofNat']; omega
    have htake : m.take A.magic.length = A.magic := by
      rw [hm']; exact take_left_len _ _ _ rfl
    have hd1 : m.drop A.magic.length = A.encH d.h ++ (A.encC d.c ++ (UInt8.ofNat d.size :: (d.block ++ [UInt8.ofNat d.offset]))) := by
      rw [hm']; exact drop_left_len _ _ _ rfl
    unfold Digest.unmarshal
    have hmg : A.magic.length ≤ marshaledSize A := by unfold marshaledSize; omega
    rw [if_neg (by rw [htake]; simp; omega), if_neg (by omega)]
    simp only [hsz, hoff]
    rw [if_neg (by omega), if_neg (by omega)]
    simp only [hd1, K.decH_encH, drop_left_len _ _ _ (K.encH_len d.h), K.decC_encC]
    have hd3 : (A.encC d.c ++ UInt8.ofNat d.size :: (d.block ++ [UInt8.ofNat d.offset])).drop (A.cLen + 1) =
        d.block ++ [UInt8.ofNat d.offset] := by
      have : A.encC d.c ++ UInt8.ofNat d.size :: (d.block ++ [UInt8.ofNat d.offset]) =
          (A.encC d.c ++ [UInt8.ofNat d.size]) ++ (d.block ++ [UInt8.ofNat d.offset]) := by simp
      rw [this]; exact drop_left_len _ _ _ (by simp [K.encC_len])
    rw [hd3, take_left_len _ _ _ h4]

/-- **transparent**: a hash restored from MarshalBinary of `d` into a fresh unkeyed hash of the same kind
    is the same state, hence answers every later Write/Sum/Reset history identically. -/
theorem transparent (K : CodecLaws A) (d fresh : Digest A) (m : Bytes)
    (hs : SafeState d) (hm : d.marshal = some m) (hk : fresh.key = d.key) (hkl : fresh.keyLen = 0) :
    fresh.unmarshal m = .ok d ∧ ∀ d', fresh.unmarshal m = .ok d' → ∀ evs, run d' evs = run d evs := by
  have hdk : d.keyLen = 0 := by
    unfold Digest.marshal at hm
    split at hm
    · cases hm
    · rename_i h; simpa using h
  have h := unmarshal_marshal K d fresh m hs hm
  have e : ({ fresh with h := d.h, c := d.c, size := d.size, block := d.block, offset := d.offset } : Digest A) = d := by
    cases d; cases fresh; simp_all
  rw [e] at h
  refine ⟨h, ?_⟩
  intro d' hd' evs
  rw [h] at hd'
  injection hd' with hd'
  rw [hd']

/-- a keyed hash (a MAC) refuses to marshal -/
theorem keyed_not_marshaled (d : Digest A) (h : d.keyLen ≠ 0) : d.marshal = none := by
  simp [Digest.marshal, h]

/-! ### the checks are necessary (the defect that was repaired) -/

def badSize (A : Alg) : Bytes := A.magic ++ zeros A.hLen ++ zeros A.cLen ++ [255] ++ zeros A.bs ++ [0]
def badOffset (A : Alg) : Bytes := A.magic ++ zeros A.hLen ++ zeros A.cLen ++ [1] ++ zeros A.bs ++ [255]

def panicsAfter (r : Except UErr (Digest A)) (f : Digest A → Bool) : Bool :=
  match r with
  | .ok d => f d
  | .error _ => false

def sumPanics (d : Digest A) : Bool := match sumE d with | .error _ => true | .ok _ => false
def writePanics (d : Digest A) : Bool := match writeE d [1] with | .error _ => true | .ok _ => false

set_option maxRecDepth 8000 in
/-- without the range checks a 213-byte (b2b) / 109-byte (b2s) string yields a state whose Sum / Write
    panic — the pre-repair behaviour (known_findings: fixed C07) -/
theorem unchecked_unsafe_b (d : Digest B) :
    panicsAfter (unmarshalUnchecked d (badSize B)) sumPanics = true ∧
    panicsAfter (unmarshalUnchecked d (badOffset B)) writePanics = true ∧
    panicsAfter (unmarshalUnchecked d (badOffset B)) sumPanics = true := by
  refine ⟨?_, ?_, ?_⟩ <;> rfl

set_option maxRecDepth 8000 in
theorem unchecked_unsafe_s (d : Digest S) :
    panicsAfter (unmarshalUnchecked d (badSize S)) sumPanics = true ∧
    panicsAfter (unmarshalUnchecked d (badOffset S)) writePanics = true := by
  refine ⟨?_, ?_⟩ <;> rfl

set_option maxRecDepth 8000 in
/-- … and the repaired code rejects exactly those strings -/
theorem checked_rejects (d : Digest B) (d' : Digest S) :
    d.unmarshal (badSize B) = .error .size ∧ d.unmarshal (badOffset B) = .error .offset ∧
    d'.unmarshal (badSize S) = .error .size ∧ d'.unmarshal (badOffset S) = .error .offset := by
  refine ⟨?_, ?_, ?_, ?_⟩ <;> rfl

/-! ## legacy Keccak -/

/-- the invariant of the sponge struct: `a` is `[200]byte`, `n ≤ rate < 200`, direction is one of the two
    enum values -/
def KSafe (d : KState) : Prop :=
  d.n ≤ d.rate ∧ d.rate < 200 ∧ 0 < d.rate ∧ d.a.length = 200 ∧ d.dir ≤ 1

theorem u64toLE_length (n : Nat) (w : UInt64) : (u64toLE n w).length = n := by
  induction n generalizing w with
  | zero => rfl
  | succ n ih => simp [u64toLE, ih]

theorem keccakF_length (st : Bytes) : (keccakF st).length = 200 := by
  simp [keccakF, bytesOfLanes, List.length_flatMap, u64toLE_length]
  decide

theorem xorAt_length (a : Bytes) (off : Nat) (p : Bytes) (h : off + p.length ≤ a.length) :
    (xorAt a off p).length = a.length := by
  simp only [xorAt, List.length_append, List.length_take, xorBytes_length, List.length_drop]
  omega

theorem k_absorb_safe (d : KState) (p : Bytes) (hs : KSafe d) :
    ∃ d', d.absorb p = .ok d' ∧ KSafe d' ∧ d'.dir = d.dir ∧ d'.rate = d.rate ∧ d'.outputLen = d.outputLen := by
  fun_induction KState.absorb d p with
  | case1 d p hp => exact ⟨d, rfl, hs, rfl, rfl, rfl⟩
  | case2 d p hp hb =>
    obtain ⟨h1, h2, h3, h4, h5⟩ := hs
    omega
  | case3 d p hp hb x a1 hx ih =>
    obtain ⟨h1, h2, h3, h4, h5⟩ := hs
    have : KSafe { d with a := keccakF a1, n := 0 } := ⟨Nat.zero_le _, h2, h3, keccakF_length _, h5⟩
    obtain ⟨d', e1, e2, e3, e4, e5⟩ := ih this
    exact ⟨d', e1, e2, e3, e4, e5⟩
  | case4 d p hp hb x a1 hx ih =>
    obtain ⟨h1, h2, h3, h4, h5⟩ := hs
    have hxle : x ≤ d.rate - d.n := Nat.min_le_left _ _
    have hlen : a1.length = 200 := by
      show (xorAt d.a d.n (p.take x)).length = 200
      rw [xorAt_length _ _ _ (by rw [List.length_take]; omega)]; exact h4
    have : KSafe { d with a := a1, n := d.n + x } := ⟨by show d.n + x ≤ d.rate; omega, h2, h3, hlen, h5⟩
    obtain ⟨d', e1, e2, e3, e4, e5⟩ := ih this
    exact ⟨d', e1, e2, e3, e4, e5⟩

theorem k_pad_safe (d : KState) (hs : KSafe d) :
    ∃ d', d.padAndPermute = .ok d' ∧ KSafe d' ∧ d'.dir = 1 ∧ d'.rate = d.rate := by
  obtain ⟨h1, h2, h3, h4, h5⟩ := hs
  unfold KState.padAndPermute
  rw [if_neg (by omega)]
  exact ⟨_, rfl, ⟨Nat.zero_le _, h2, h3, keccakF_length _, Nat.le_refl _⟩, rfl, rfl⟩

theorem k_squeeze_safe (d : KState) (k : Nat) (acc : Bytes) (hs : KSafe d) :
    ∃ r, d.squeeze k acc = .ok r ∧ KSafe r.1 ∧ r.1.dir = d.dir := by
  fun_induction KState.squeeze d k acc with
  | case1 d acc => exact ⟨(d, acc), rfl, hs, rfl⟩
  | case2 d k acc hk hb =>
    obtain ⟨h1, h2, h3, h4, h5⟩ := hs
    omega
  | case3 d k acc hk hb hn d1 x ih =>
    obtain ⟨h1, h2, h3, h4, h5⟩ := hs
    have hx : x ≤ d.rate := Nat.min_le_right _ _
    have : KSafe { d1 with n := x } := ⟨hx, h2, h3, keccakF_length _, h5⟩
    obtain ⟨r, e1, e2, e3⟩ := ih this
    exact ⟨r, e1, e2, e3⟩
  | case4 d k acc hk hb hn x ih =>
    obtain ⟨h1, h2, h3, h4, h5⟩ := hs
    have hx : x ≤ d.rate - d.n := Nat.min_le_right _ _
    have : KSafe { d with n := d.n + x } := ⟨by show d.n + x ≤ d.rate; omega, h2, h3, h4, h5⟩
    obtain ⟨r, e1, e2, e3⟩ := ih this
    exact ⟨r, e1, e2, e3⟩

/-- Read never panics on a safe sponge -/
theorem k_read_safe (d : KState) (k : Nat) (hs : KSafe d) : ∃ r, d.read k = .ok r ∧ KSafe r.1 := by
  unfold KState.read
  by_cases hd : d.dir = 0
  · obtain ⟨d', e1, e2, _, _⟩ := k_pad_safe d hs
    obtain ⟨r, e3, e4, _⟩ := k_squeeze_safe d' k [] e2
    refine ⟨r, ?_, e4⟩
    simp only [if_pos hd, e1]
    exact e3
  · obtain ⟨r, e3, e4, _⟩ := k_squeeze_safe d k [] hs
    refine ⟨r, ?_, e4⟩
    simp only [if_neg hd]
    exact e3

/-- **Keccak: no run-time panic.**  On a safe sponge Write and Sum either succeed (leaving a safe sponge) or
    raise the documented "after Read" panic, and the latter happens exactly when the sponge is squeezing —
    never a bounds error.  Reset always yields a safe absorbing sponge. -/
theorem k_no_runtime_panic (d : KState) (p : Bytes) (hs : KSafe d) :
    ((d.dir = 0 ∧ ∃ d', d.write p = .ok d' ∧ KSafe d') ∨ (d.dir = 1 ∧ d.write p = .error .api)) ∧
    ((d.dir = 0 ∧ ∃ o, d.sum = .ok o) ∨ (d.dir = 1 ∧ d.sum = .error .api)) ∧
    KSafe d.reset ∧ d.reset.dir = 0 := by
  have hdir : d.dir = 0 ∨ d.dir = 1 := by have := hs.2.2.2.2; omega
  refine ⟨?_, ?_, ?_, rfl⟩
  · rcases hdir with h0 | h1
    · obtain ⟨d', e1, e2, _⟩ := k_absorb_safe d p hs
      exact Or.inl ⟨h0, d', by simp [KState.write, h0, e1], e2⟩
    · exact Or.inr ⟨h1, by simp [KState.write, h1]⟩
  · rcases hdir with h0 | h1
    · obtain ⟨r, e1, _⟩ := k_read_safe d d.outputLen hs
      refine Or.inl ⟨h0, r.2, ?_⟩
      simp only [KState.sum, h0, ne_eq, not_true_eq_false, if_false, e1]
      rfl
    · exact Or.inr ⟨h1, by simp [KState.sum, h1]⟩
  · obtain ⟨h1, h2, h3, h4, h5⟩ := hs
    exact ⟨Nat.zero_le _, h2, h3, zeros_length _, Nat.zero_le _⟩

/-- **Keccak unmarshal_safe**: after UnmarshalBinary — whether it returned nil *or an error* (the receiver
    is partly overwritten before the later checks) — the receiver is a safe sponge. -/
theorem k_unmarshal_safe (d : KState) (b : Bytes) (hs : KSafe d) : KSafe (d.unmarshal b).2 := by
  obtain ⟨h1, h2, h3, h4, h5⟩ := hs
  unfold KState.unmarshal
  by_cases hl : b.length ≠ 207
  · rw [if_pos hl]; exact ⟨h1, h2, h3, h4, h5⟩
  rw [if_neg hl]
  by_cases hm : b.take 4 ≠ kMagic
  · rw [if_pos hm]; exact ⟨h1, h2, h3, h4, h5⟩
  rw [if_neg hm]
  simp only []
  by_cases hr : ((b.drop 4).getD 0 0).toNat ≠ d.rate
  · rw [if_pos hr]; exact ⟨h1, h2, h3, h4, h5⟩
  rw [if_neg hr]
  have hlen : ((b.drop 4).drop 1 |>.take 200).length = 200 := by
    simp only [List.length_take, List.length_drop]; omega
  by_cases hn : (((b.drop 4).drop 1 |>.drop 200).getD 0 0).toNat > d.rate
  · rw [if_pos hn]; exact ⟨h1, h2, h3, hlen, h5⟩
  rw [if_neg hn]
  by_cases hd : (((b.drop 4).drop 1 |>.drop 200).getD 1 0).toNat ≠ 0 ∧ (((b.drop 4).drop 1 |>.drop 200).getD 1 0).toNat ≠ 1
  · rw [if_pos hd]; exact ⟨by simpa using hn, h2, h3, hlen, h5⟩
  rw [if_neg hd]
  refine ⟨by simpa using hn, h2, h3, hlen, ?_⟩
  show (((b.drop 4).drop 1 |>.drop 200).getD 1 0).toNat ≤ 1
  omega

/-- **Keccak round trip**: UnmarshalBinary ∘ MarshalBinary restores (a, n, direction) into a sponge of the
    same rate -/
theorem k_unmarshal_marshal (d fresh : KState) (hs : KSafe d) (hr : fresh.rate = d.rate) :
    fresh.unmarshal d.marshal = (none, { fresh with a := d.a, n := d.n, dir := d.dir }) := by
  obtain ⟨h1, h2, h3, h4, h5⟩ := hs
  have hm : d.marshal = kMagic ++ (UInt8.ofNat d.rate :: (d.a ++ [UInt8.ofNat d.n, UInt8.ofNat d.dir])) := by
    simp [KState.marshal]
  have hlen : d.marshal.length = 207 := by rw [hm]; simp [kMagic, h4]
  have e1 : d.marshal.take 4 = kMagic := by rw [hm]; exact take_left_len _ _ 4 rfl
  have e2 : d.marshal.drop 4 = UInt8.ofNat d.rate :: (d.a ++ [UInt8.ofNat d.n, UInt8.ofNat d.dir]) := by
    rw [hm]; exact drop_left_len _ _ 4 rfl
  unfold KState.unmarshal
  rw [if_neg (by omega), if_neg (by rw [e1]; simp)]
  simp only [e2, List.drop_succ_cons, List.drop_zero, List.getD_cons_zero]
  have e3 : (UInt8.ofNat d.rate).toNat = fresh.rate := by
    simp [UInt8.toNat_ofNat']; omega
  rw [if_neg (by omega)]
  have e4 : (d.a ++ [UInt8.ofNat d.n, UInt8.ofNat d.dir]).take 200 = d.a := take_left_len _ _ 200 h4
  have e5 : (d.a ++ [UInt8.ofNat d.n, UInt8.ofNat d.dir]).drop 200 = [UInt8.ofNat d.n, UInt8.ofNat d.dir] :=
    drop_left_len _ _ 200 h4
  simp only [e4, e5]
  have e6 : (UInt8.ofNat d.n).toNat = d.n := by simp [UInt8.toNat_ofNat']; omega
  have e7 : (UInt8.ofNat d.dir).toNat = d.dir := by simp [UInt8.toNat_ofNat']; omega
  simp only [List.getD_cons_zero, List.getD_cons_succ, e6, e7]
  rw [if_neg (by omega), if_neg (by omega)]

/-- **Reset heals**: on any safe sponge — in particular one restored while squeezing — Reset cannot panic
    (it is three assignments) and yields an absorbing safe sponge on which Write and Sum succeed. -/
theorem k_reset_restores (d : KState) (p : Bytes) (hs : KSafe d) :
    KSafe d.reset ∧ d.reset.dir = 0 ∧ d.reset.n = 0 ∧
    (∃ d', d.reset.write p = .ok d' ∧ KSafe d') ∧ (∃ o, d.reset.sum = .ok o) := by
  obtain ⟨h1, h2, h3, _⟩ := k_no_runtime_panic d p hs
  obtain ⟨g1, g2, _, _⟩ := k_no_runtime_panic d.reset p h3
  refine ⟨h3, rfl, rfl, ?_, ?_⟩
  · rcases g1 with ⟨_, hw⟩ | ⟨hd, _⟩
    · exact hw
    · exact absurd hd (by show ¬ (0 : Nat) = 1; decide)
  · rcases g2 with ⟨_, hw⟩ | ⟨hd, _⟩
    · exact hw
    · exact absurd hd (by show ¬ (0 : Nat) = 1; decide)

/-- **The two clauses of the property meet on a squeezing sponge.**  Let `d` be a legacy Keccak state after a
    Read (direction = squeezing).  (a) MarshalBinary/UnmarshalBinary restore it exactly — the *transparency*
    clause; (b) on the original, Write and Sum raise the documented `panic("sha3: … after Read")`; hence
    (c) the restored copy must raise the same panic, so "UnmarshalBinary returns an error or a state on which
    Write and Sum never panic" cannot also hold for this input without breaking (a).  The code chooses (a);
    the panic is the API's, never a bounds error (`k_no_runtime_panic`), and Reset clears it
    (`k_reset_restores`). -/
theorem k_squeezing_clauses (d fresh : KState) (p : Bytes) (hs : KSafe d) (hdir : d.dir = 1)
    (hr : fresh.rate = d.rate) (ho : fresh.outputLen = d.outputLen) :
    fresh.unmarshal d.marshal = (none, d) ∧
    d.write p = .error .api ∧ d.sum = .error .api ∧
    (fresh.unmarshal d.marshal).2.write p = .error .api ∧ (fresh.unmarshal d.marshal).2.sum = .error .api ∧
    (∃ o, (fresh.unmarshal d.marshal).2.reset.sum = .ok o) := by
  have hrt := k_unmarshal_marshal d fresh hs hr
  have heq : ({ fresh with a := d.a, n := d.n, dir := d.dir } : KState) = d := by
    cases d; cases fresh; simp_all
  rw [heq] at hrt
  have hw : d.write p = .error .api := by simp [KState.write, hdir]
  have hsum : d.sum = .error .api := by simp [KState.sum, hdir]
  refine ⟨hrt, hw, hsum, ?_, ?_, ?_⟩
  · rw [hrt]; exact hw
  · rw [hrt]; exact hsum
  · rw [hrt]; exact (k_reset_restores d p hs).2.2.2.2

/-! ## transparency over whole histories -/

/-- every state reachable from a constructor by Writes is safe -/
theorem newDigest_safe (L : Laws A) (size : Nat) (key : Bytes) (d0 : Digest A) (h : newDigest A size key = some d0) :
    SafeState d0 := by
  obtain ⟨hI, hs, _, _, _, _⟩ := rel_new L size key d0 h
  have hk := newDigest_key_len size key d0 h
  have hsz : 1 ≤ size ∧ size ≤ A.maxSize := by
    unfold newDigest at h
    split at h
    · cases h
    · rename_i hn; omega
  exact ⟨⟨by rw [hs]; exact hsz.1, by rw [hs]; exact hsz.2, hI.1, hI.2⟩, hk⟩

theorem foldl_write_safe (L : Laws A) (chunks : List Bytes) : ∀ (d : Digest A), SafeState d →
    SafeState (chunks.foldl Digest.write d) ∧ (chunks.foldl Digest.write d).keyLen = d.keyLen ∧
    (chunks.foldl Digest.write d).key = d.key := by
  induction chunks with
  | nil => intro d h; exact ⟨h, rfl, rfl⟩
  | cons p r ih =>
    intro d h
    obtain ⟨a1, a2, a3⟩ := ih (d.write p) (safe_write L d h p)
    obtain ⟨_, e2, e3⟩ := write_size d p
    simp only [List.foldl_cons]
    exact ⟨a1, by rw [a2, e3], by rw [a3, e2]⟩

/-- **transparent, for every history of writes** (BLAKE2b / BLAKE2s): take an unkeyed hash of any digest size,
    Write any chunks, MarshalBinary, UnmarshalBinary into a fresh unkeyed hash (of any digest size — the size
    travels in the state): the copy *is* the original state, so every later Write/Sum/Reset history gives the
    same outputs on both -/
theorem transparent_history (L : Laws A) (K : CodecLaws A) (size size' : Nat) (d0 fresh : Digest A)
    (h0 : newDigest A size [] = some d0) (hf : newDigest A size' [] = some fresh) (chunks : List Bytes) :
    ∃ m, (chunks.foldl Digest.write d0).marshal = some m ∧
      fresh.unmarshal m = .ok (chunks.foldl Digest.write d0) ∧
      ∀ d', fresh.unmarshal m = .ok d' → ∀ evs, run d' evs = run (chunks.foldl Digest.write d0) evs := by
  have hs0 := newDigest_safe L size [] d0 h0
  obtain ⟨hs, hkl, hkey⟩ := foldl_write_safe L chunks d0 hs0
  have key0 : ∀ (sz : Nat) (d : Digest A), newDigest A sz [] = some d → d.keyLen = 0 ∧ d.key = copyAt (zeros A.bs) 0 [] := by
    intro sz d hd
    obtain ⟨_, _, e1, e2, _⟩ := rel_new L sz [] d hd
    exact ⟨by simpa using e1, e2⟩
  obtain ⟨k1, k2⟩ := key0 size d0 h0
  obtain ⟨f1, f2⟩ := key0 size' fresh hf
  have hm : ∃ m, (chunks.foldl Digest.write d0).marshal = some m := by
    unfold Digest.marshal
    rw [if_neg (by rw [hkl, k1]; simp)]
    exact ⟨_, rfl⟩
  obtain ⟨m, hm⟩ := hm
  obtain ⟨t1, t2⟩ := transparent K (chunks.foldl Digest.write d0) fresh m hs hm (by rw [f2, hkey, k2]) f1
  exact ⟨m, hm, t1, t2⟩

theorem newKeccak_safe : KSafe newKeccak256 ∧ KSafe newKeccak512 := by
  constructor <;> (refine ⟨?_, ?_, ?_, ?_, ?_⟩ <;> simp [newKeccak256, newKeccak512, zeros_length])

/-- Keccak: Writes keep the sponge safe and keep its kind (rate, output length) -/
theorem k_write_preserves (d d' : KState) (p : Bytes) (hs : KSafe d) (h : d.write p = .ok d') :
    KSafe d' ∧ d'.rate = d.rate ∧ d'.outputLen = d.outputLen := by
  unfold KState.write at h
  split at h
  · cases h
  · obtain ⟨d'', e1, e2, _, e4, e5⟩ := k_absorb_safe d p hs
    rw [e1] at h
    injection h with h
    subst h
    exact ⟨e2, e4, e5⟩

/-- **transparent (legacy Keccak)**: MarshalBinary then UnmarshalBinary into a fresh sponge of the same kind
    returns nil and reproduces the state exactly — for every safe state, in particular every state reached from
    NewLegacyKeccak256/512 by Writes (`newKeccak_safe`, `k_write_preserves`) or Reads (`k_read_safe`) -/
theorem k_transparent (d fresh : KState) (hs : KSafe d) (hr : fresh.rate = d.rate) (ho : fresh.outputLen = d.outputLen) :
    fresh.unmarshal d.marshal = (none, d) := by
  rw [k_unmarshal_marshal d fresh hs hr]
  congr 1
  cases d; cases fresh; simp_all

/-! non-vacuity: fresh unkeyed hashes exist for the hypotheses of `transparent_history` -/
example : (newDigest B 32 []).isSome = true ∧ (newDigest S 32 []).isSome = true := by decide

end XC.C07
