/-
  C35 — property theorems over the flow-control LTS.

  One channel, one stream (Model/C35.lean, this file):
      credit_conservation, never_exceeds_window, receiver_never_complains, myWindow_le_W,
      window_add_no_overflow, stream_integrity, adjust_unblocks
  One channel, SEVERAL streams on one window, wake semantics of sync.Cond (Model/C35_Multi.lean `stepC`,
  proofs in Proofs/C35_Multi.lean; hypotheses `Setup`: 2 ≤ W < 2^32, max packet 1..32768, one writer per code):
      credit_conservation_multi, never_exceeds_window_multi, receiver_never_complains_multi,
      stream_integrity_multi (other streams' packets interleave on the wire without harm),
      no_lost_wakeup        a writer sleeps in Cond.Wait only while the window is 0
      adjust_wakes_all      ONE adjust (Broadcast) wakes EVERY parked writer and leaves a positive window
      adjust_unblocks_all   window exhausted + reader drained ⇒ an adjust is in flight, handling it wakes all
                            writers and EVERY writer with data can then put a packet on the wire
      signal_loses_wakeup   with Cond.Signal (the seeded bug) a parked writer with window available is reachable
      adjust_must_be_atomic in the LTS `stepS` where the adjust goes on the wire before myWindow is credited a
                            COMPLIANT sender makes the receiver complain (witness): advertise+credit is one step
  SEVERAL channels on one connection (`stepM`, shared FIFO wires):
      proj_step, channel_run_of_connection_run   every channel of a connection run is a single-channel run
      credit_conservation_conn, never_exceeds_window_conn, stream_integrity_conn
-/
import XC.Model.C35
import XC.Proofs.C35_Multi
namespace XC.C35

/-- the threshold test of adjustWindow -/
def thr (r : Rcv) : Prop := r.winSize - r.myWindow > 3 * r.maxIncoming ∨ r.myWindow < r.winSize / 2

structure Inv (data : Bytes') (s : Sys) : Prop where
  /-- credit conservation: window the sender holds + payload in flight + adjusts in flight = receiver's window -/
  credit : s.win + sumLens s.dataWire + s.adjWire.sum = s.rcv.myWindow
  /-- receiver accounting: window + consumed-not-yet-returned + unread = initial window -/
  recvAcct : s.rcv.myWindow + s.rcv.myConsumed + s.rcv.pending = channelWindowSize
  consts : s.rcv.winSize = channelWindowSize ∧ s.rcv.maxIncoming = channelMaxPacket ∧ s.rcv.extPending = 0
  pend : s.rcv.pending = s.unread.length
  /-- wire predicate: what the sender may still send = credit granted on the wire − payload used -/
  wire : s.win + s.adjWire.sum + s.used = s.granted
  stream : s.readSoFar ++ s.unread ++ s.dataWire.flatten = s.sent ∧ s.sent ++ s.toSend = data
  ok : s.complained = false ∧ s.overflowed = false
  pkts : ∀ p ∈ s.dataWire, 0 < p.length ∧ p.length ≤ channelMaxPacket
  drained : s.rcv.pending = 0 → s.rcv.myConsumed = 0 ∨ ¬ thr s.rcv
  adjPos : ∀ a ∈ s.adjWire, 0 < a

theorem sumLens_append (a b : List Bytes') : sumLens (a ++ b) = sumLens a + sumLens b := by
  simp [sumLens]

theorem inv_init (data : Bytes') (mp : Nat) : Inv data (Sys.init data mp) := by
  constructor <;> simp [Sys.init, Rcv.init, sumLens, channelWindowSize, channelMaxPacket]


theorem inv_send {data : Bytes'} {s s' : Sys} (hmp : 0 < s.maxPayload ∧ s.maxPayload ≤ channelMaxPacket)
    (hi : Inv data s) (h : step s .send = some s') : Inv data s' ∧ s'.maxPayload = s.maxPayload := by
  simp only [step] at h
  split at h
  · cases h
  · rename_i hne
    simp only [nextPacket, reserve, minPayloadSize] at h
    split at h
    · cases h
    · rename_i p n win' heq
      split at heq
      · cases heq
      · rename_i hw
        simp only [Option.some.injEq, Prod.mk.injEq] at heq
        obtain ⟨hn, hwin⟩ := heq
        cases h
        have hlen : 0 < s.toSend.length := by
          cases hts : s.toSend with
          | nil => simp [hts] at hne
          | cons a t => simp
        have hnle : n ≤ s.toSend.length ∧ n ≤ s.win ∧ 0 < n ∧ n ≤ s.maxPayload := by
          subst hn
          split <;> split <;> omega
        have htake : (s.toSend.take n).length = n := by simp [List.length_take]; omega
        refine ⟨?_, rfl⟩
        constructor
        · have hsum : sumLens (s.dataWire ++ [s.toSend.take n]) = sumLens s.dataWire + n := by
            rw [sumLens_append]; simp [sumLens, htake]
          simp only [hsum]
          have := hi.credit
          omega
        · exact hi.recvAcct
        · exact hi.consts
        · exact hi.pend
        · have := hi.wire; simp only; omega
        · refine ⟨?_, ?_⟩
          · simp only [List.flatten_append, List.flatten_cons, List.flatten_nil, List.append_nil]
            rw [← hi.stream.1]; simp [List.append_assoc]
          · simp only [List.append_assoc, List.take_append_drop]; exact hi.stream.2
        · exact hi.ok
        · intro q hq
          simp only [List.mem_append, List.mem_singleton] at hq
          rcases hq with hq | rfl
          · exact hi.pkts q hq
          · rw [htake]; omega
        · exact hi.drained
        · exact hi.adjPos


theorem inv_deliverData {data : Bytes'} {s s' : Sys} (hi : Inv data s) (h : step s .deliverData = some s') :
    Inv data s' ∧ s'.maxPayload = s.maxPayload := by
  simp only [step] at h
  split at h
  · cases h
  · rename_i p rest hw
    have hp := hi.pkts p (by simp [hw])
    have hcred := hi.credit
    obtain ⟨hW, hM, hE⟩ := hi.consts
    simp only [hw, sumLens, List.map_cons, List.sum_cons] at hcred
    have hok : handleData s.rcv 0 p.length p.length =
        .ok ({ s.rcv with myWindow := s.rcv.myWindow - p.length, pending := s.rcv.pending + p.length }, 0) := by
      unfold handleData
      have h1 : ¬ p.length = 0 := by omega
      have h2 : ¬ p.length > s.rcv.maxIncoming := by rw [hM]; omega
      have h3 : ¬ s.rcv.myWindow < p.length := by omega
      simp [h1, h2, h3]
    rw [hok] at h
    cases h
    refine ⟨?_, rfl⟩
    constructor
    · simp only [sumLens]; omega
    · have := hi.recvAcct; simp only; omega
    · exact ⟨hW, hM, hE⟩
    · have := hi.pend; simp only [List.length_append]; omega
    · exact hi.wire
    · refine ⟨?_, hi.stream.2⟩
      rw [← hi.stream.1, hw]; simp [List.append_assoc]
    · exact hi.ok
    · intro q hq; exact hi.pkts q (by simp [hw, hq])
    · intro h0; simp only at h0; omega
    · exact hi.adjPos

theorem inv_deliverAdj {data : Bytes'} {s s' : Sys} (hi : Inv data s) (h : step s .deliverAdj = some s') :
    Inv data s' ∧ s'.maxPayload = s.maxPayload := by
  simp only [step] at h
  split at h
  · cases h
  · rename_i a rest hw
    have hcred := hi.credit
    have hacct := hi.recvAcct
    simp only [hw, List.sum_cons] at hcred
    have hno : addWin s.win a = some (s.win + a) := by
      unfold addWin
      by_cases h0 : a = 0
      · simp [h0]
      · have : s.win + a ≤ channelWindowSize := by omega
        have : s.win + a < 4294967296 := by simp [channelWindowSize, channelMaxPacket] at this; omega
        rw [Nat.mod_eq_of_lt this]
        simp [h0]
    rw [hno] at h
    cases h
    refine ⟨?_, rfl⟩
    constructor
    · simp only; omega
    · exact hacct
    · exact hi.consts
    · exact hi.pend
    · have := hi.wire; simp only [hw, List.sum_cons] at this ⊢; omega
    · exact hi.stream
    · exact hi.ok
    · exact hi.pkts
    · exact hi.drained
    · intro x hx; exact hi.adjPos x (by simp [hw, hx])

theorem inv_read {data : Bytes'} {s s' : Sys} (n : Nat) (hi : Inv data s) (h : step s (.read n) = some s') :
    Inv data s' ∧ s'.maxPayload = s.maxPayload := by
  simp only [step] at h
  split at h
  · cases h
  · rename_i hc
    simp only [Bool.or_eq_true, decide_eq_true_eq, not_or] at hc
    obtain ⟨hn0, hp0⟩ := hc
    obtain ⟨hW, hM, hE⟩ := hi.consts
    have hacct := hi.recvAcct
    have hpend := hi.pend
    have hcred := hi.credit
    have hwire := hi.wire
    -- k bytes are read
    have hk : 0 < bufRead s.rcv.pending n ∧ bufRead s.rcv.pending n ≤ s.rcv.pending := by
      unfold bufRead; split <;> omega
    generalize hkdef : bufRead s.rcv.pending n = k at hk
    simp only [readExt, hkdef, adjustWindow, Nat.zero_ne_one, if_false] at h
    have hk0 : ¬ k = 0 := by omega
    by_cases hthr : (s.rcv.winSize - s.rcv.myWindow > 3 * s.rcv.maxIncoming) ∨ (s.rcv.myWindow < s.rcv.winSize / 2)
    · have hb : (decide (s.rcv.winSize - s.rcv.myWindow > 3 * s.rcv.maxIncoming) || decide (s.rcv.myWindow < s.rcv.winSize / 2)) = true := by
        simpa using hthr
      simp only [hb, if_true, hk0, if_false] at h
      cases h
      refine ⟨?_, rfl⟩
      have hapos : ¬ (s.rcv.myConsumed + k = 0) := by omega
      constructor
      · simp only [hapos, if_false, List.sum_append, List.sum_cons, List.sum_nil]; omega
      · simp only; omega
      · exact ⟨hW, hM, hE⟩
      · simp only [List.length_drop]; omega
      · simp only [hapos, if_false, List.sum_append, List.sum_cons, List.sum_nil]; omega
      · refine ⟨?_, hi.stream.2⟩
        rw [← hi.stream.1]; simp [List.append_assoc]
      · exact hi.ok
      · exact hi.pkts
      · intro _; left; rfl
      · intro x hx
        simp only [hapos, if_false, List.mem_append, List.mem_singleton] at hx
        rcases hx with hx | rfl
        · exact hi.adjPos x hx
        · omega
    · have hb : (decide (s.rcv.winSize - s.rcv.myWindow > 3 * s.rcv.maxIncoming) || decide (s.rcv.myWindow < s.rcv.winSize / 2)) = false := by
        simpa using hthr
      simp only [hb, Bool.false_eq_true, if_false, hk0] at h
      cases h
      refine ⟨?_, rfl⟩
      constructor
      · simp only [if_true]; omega
      · simp only; omega
      · exact ⟨hW, hM, hE⟩
      · simp only [List.length_drop]; omega
      · simp only [if_true]; omega
      · refine ⟨?_, hi.stream.2⟩
        rw [← hi.stream.1]; simp [List.append_assoc]
      · exact hi.ok
      · exact hi.pkts
      · intro _; right; exact hthr
      · simpa using hi.adjPos


theorem inv_step {data : Bytes'} {s s' : Sys} (a : Act) (hmp : 0 < s.maxPayload ∧ s.maxPayload ≤ channelMaxPacket)
    (hi : Inv data s) (h : step s a = some s') : Inv data s' ∧ s'.maxPayload = s.maxPayload := by
  cases a with
  | send => exact inv_send hmp hi h
  | deliverData => exact inv_deliverData hi h
  | read n => exact inv_read n hi h
  | deliverAdj => exact inv_deliverAdj hi h

theorem inv_reachable {data : Bytes'} {mp : Nat} (hmp : 0 < mp ∧ mp ≤ channelMaxPacket) {s : Sys}
    (h : Reachable data mp s) : Inv data s := by
  have : Inv data s ∧ s.maxPayload = mp := by
    refine invariant_of_step (fun s => Inv data s ∧ s.maxPayload = mp) ⟨inv_init data mp, rfl⟩ ?_ s h
    intro s a s' ⟨hi, hm⟩ hst
    obtain ⟨hi', hm'⟩ := inv_step a (by rw [hm]; exact hmp) hi hst
    exact ⟨hi', hm'.trans hm⟩
  exact this.1


/-! ## the property theorems (hypothesis: the peer's max packet is what this implementation advertises, ≤ 32768, > 0) -/

variable {data : Bytes'} {mp : Nat}

/-- credit conservation, for every interleaving of writers, reader and both mux loops -/
theorem credit_conservation (hmp : 0 < mp ∧ mp ≤ channelMaxPacket) {s : Sys} (h : Reachable data mp s) :
    s.win + sumLens s.dataWire + s.adjWire.sum = s.rcv.myWindow ∧
    s.rcv.myWindow + s.rcv.myConsumed + s.unread.length = channelWindowSize := by
  have hi := inv_reachable hmp h
  exact ⟨hi.credit, by rw [← hi.pend]; exact hi.recvAcct⟩

/-- every data packet put on the wire fits the credit granted so far minus the credit used, and the peer's
    maximum packet size -/
theorem never_exceeds_window (hmp : 0 < mp ∧ mp ≤ channelMaxPacket) {s s' : Sys} (h : Reachable data mp s)
    (hst : step s .send = some s') :
    ∃ p, s'.dataWire = s.dataWire ++ [p] ∧ 0 < p.length ∧ p.length ≤ s.granted - s.used ∧ p.length ≤ mp ∧
      s'.used = s.used + p.length ∧ s'.used ≤ s'.granted := by
  have hi := inv_reachable hmp h
  have hm : s.maxPayload = mp := by
    have : Inv data s ∧ s.maxPayload = mp := by
      refine invariant_of_step (fun s => Inv data s ∧ s.maxPayload = mp) ⟨inv_init data mp, rfl⟩ ?_ s h
      intro s a s' ⟨hi, hm⟩ hst
      obtain ⟨hi', hm'⟩ := inv_step a (by rw [hm]; exact hmp) hi hst
      exact ⟨hi', hm'.trans hm⟩
    exact this.2
  have hi' := (inv_send (by rw [hm]; exact hmp) hi hst).1
  simp only [step] at hst
  split at hst
  · cases hst
  · rename_i hne
    simp only [nextPacket, reserve, minPayloadSize] at hst
    split at hst
    · cases hst
    · rename_i p n win' heq
      split at heq
      · cases heq
      · simp only [Option.some.injEq, Prod.mk.injEq] at heq
        obtain ⟨hn, hwin⟩ := heq
        have hlen : 0 < s.toSend.length := by
          cases hts : s.toSend with
          | nil => simp [hts] at hne
          | cons a t => simp
        have hnle : n ≤ s.toSend.length ∧ n ≤ s.win ∧ 0 < n ∧ n ≤ s.maxPayload := by
          subst hn
          split <;> split <;> omega
        have htake : (s.toSend.take n).length = n := by simp [List.length_take]; omega
        have hw := hi.wire
        have hw' := hi'.wire
        cases hst
        refine ⟨s.toSend.take n, rfl, ?_, ?_, ?_, ?_, ?_⟩
        · omega
        · rw [htake]; omega
        · rw [htake, ← hm]; omega
        · rw [htake]
        · simp only at hw' ⊢; omega

/-- a compliant sender never makes the receiver take its "remote side wrote too much" (or too-large) branch -/
theorem receiver_never_complains (hmp : 0 < mp ∧ mp ≤ channelMaxPacket) {s : Sys} (h : Reachable data mp s) :
    s.complained = false := (inv_reachable hmp h).ok.1

/-- myWindow never exceeds the initial window: `channelWindowSize - c.myWindow` cannot underflow, and
    myConsumed + adj cannot overflow a uint32 -/
theorem myWindow_le_W (hmp : 0 < mp ∧ mp ≤ channelMaxPacket) {s : Sys} (h : Reachable data mp s) :
    s.rcv.myWindow ≤ channelWindowSize ∧ s.rcv.myConsumed ≤ channelWindowSize := by
  have := (inv_reachable hmp h).recvAcct
  omega

/-- window.add never reports overflow for adjusts produced by this receiver; the sender's window stays ≤ 2 MiB -/
theorem window_add_no_overflow (hmp : 0 < mp ∧ mp ≤ channelMaxPacket) {s : Sys} (h : Reachable data mp s) :
    s.overflowed = false ∧ s.win ≤ channelWindowSize := by
  have hi := inv_reachable hmp h
  refine ⟨hi.ok.2, ?_⟩
  have := hi.credit
  have := hi.recvAcct
  omega

/-- bytes read = bytes written, in order: what was read, what is buffered, what is in flight and what is still
    to be sent concatenate to the written stream; in particular the bytes read are a prefix of it -/
theorem stream_integrity (hmp : 0 < mp ∧ mp ≤ channelMaxPacket) {s : Sys} (h : Reachable data mp s) :
    s.readSoFar ++ s.unread ++ s.dataWire.flatten ++ s.toSend = data ∧ s.readSoFar <+: data := by
  have hi := inv_reachable hmp h
  have h1 : s.readSoFar ++ s.unread ++ s.dataWire.flatten ++ s.toSend = data := by
    rw [hi.stream.1]; exact hi.stream.2
  refine ⟨h1, ?_⟩
  rw [← h1]
  simp only [List.append_assoc]
  exact List.prefix_append _ _

/-- progress: if a writer is blocked (window 0) and the reader has drained everything that was sent, then a
    window adjust is on its way, and handling it unblocks the writer (no fairness needed beyond "the mux loop
    handles the next packet") -/
theorem adjust_unblocks (hmp : 0 < mp ∧ mp ≤ channelMaxPacket) {s : Sys} (h : Reachable data mp s)
    (hblocked : s.win = 0) (hwire : s.dataWire = []) (hdrained : s.unread = []) :
    ∃ s', step s .deliverAdj = some s' ∧ 0 < s'.win := by
  have hi := inv_reachable hmp h
  have hc := hi.credit
  have ha := hi.recvAcct
  have hp := hi.pend
  obtain ⟨hW, hM, _⟩ := hi.consts
  simp only [hblocked, hwire, sumLens, List.map_nil, List.sum_nil, hdrained, List.length_nil] at hc hp
  have hpos : 0 < s.adjWire.sum := by
    rcases hi.drained hp with h0 | hnt
    · have : 0 < channelWindowSize := by simp [channelWindowSize, channelMaxPacket]
      omega
    · simp only [thr, hW, hM, not_or, Nat.not_lt] at hnt
      have : 0 < channelWindowSize / 2 := by simp [channelWindowSize, channelMaxPacket]
      omega
  cases hadj : s.adjWire with
  | nil => simp [hadj] at hpos
  | cons a rest =>
    have hapos := hi.adjPos a (by simp [hadj])
    have hle : a ≤ channelWindowSize := by
      simp only [hadj, List.sum_cons] at hc
      omega
    have hno : addWin s.win a = some (s.win + a) := by
      unfold addWin
      have h0 : ¬ a = 0 := by omega
      have : s.win + a < 4294967296 := by
        simp [channelWindowSize, channelMaxPacket] at hle; omega
      rw [Nat.mod_eq_of_lt this]
      simp [h0, hblocked]
    refine ⟨{ s with win := s.win + a, adjWire := rest }, ?_, ?_⟩
    · simp [step, hadj, hno]
    · simp only; omega

/-- non-vacuity: a blocked sender with a drained reader is reachable only with an adjust in flight; and the
    model can actually send, deliver and read -/
example : ∃ s, Reachable [1, 2, 3] 2 s ∧ s.readSoFar = [1, 2] ∧ s.toSend = [3] :=
  ⟨_, .step (.read 5) (.step .deliverData (.step .send .init rfl) rfl) rfl, rfl, rfl⟩


/-! ## non-vacuity of the multi-stream / multi-channel theorems -/


/-- the set-up of the examples satisfies `Setup` -/
theorem setup_ex : Setup 2 9 [(0, [1, 2, 3]), (1, [9])] :=
  ⟨by decide, by decide, ⟨by decide, by decide⟩, by decide⟩

/-- non-vacuity of `adjust_unblocks_all`: window exhausted, both writers parked, wire empty, reader drained — reachable
    under Broadcast; the theorem then yields the adjust step after which both writers can send -/
example : ∃ s, ReachableC unparkAll signalInit s ∧ s.win = 0 ∧ s.dataWire = [] ∧ s.unread0 = [] ∧ s.unread1 = [] ∧
    (∀ st ∈ s.streams, st.parked = true) ∧
    ∃ s', stepC unparkAll s .deliverAdj = some s' ∧ 0 < s'.win ∧ ∀ st ∈ s'.streams, st.parked = false := by
  have h : ∃ s, runC unparkAll signalInit [.send 0, .send 0, .send 1, .deliverData, .read 0 2] = some s ∧ s.win = 0 ∧
      s.dataWire = [] ∧ s.unread0 = [] ∧ s.unread1 = [] ∧ (∀ st ∈ s.streams, st.parked = true) := by
    simp [runC, signalInit, SysC.init, stepC, nextPacket, reserve, minPayloadSize, handleData, Rcv.init,
      readExt, bufRead, adjustWindow, addWin, unparkAll, channelMaxPacket, channelWindowSize]
  obtain ⟨s, hr, h1, h2, h3, h4, h5⟩ := h
  have hreach : ReachableC unparkAll (SysC.init 2 9 [(0, [1, 2, 3]), (1, [9])]) s := reachableC_of_run .init _ hr
  obtain ⟨s', hs', hw, hun, _⟩ := adjust_unblocks_all setup_ex hreach h1 h2 h3 h4
  exact ⟨s, hreach, h1, h2, h3, h4, h5, s', hs', hw, hun⟩

/-- non-vacuity of `never_exceeds_window_multi`: a send step that puts a packet on the wire -/
example : ∃ s', stepC unparkAll signalInit (.send 0) = some s' ∧ s'.used ≠ signalInit.used := by
  simp [signalInit, SysC.init, stepC, nextPacket, reserve, minPayloadSize]

/-- non-vacuity of the multi-channel lifting: a connection with two channels; channel 1 sends while channel 0 is idle -/
example : ∃ m, ReachableM unparkAll (SysM.init 2 [(9, [(0, [1])]), (9, [(0, [7, 8])])]) m ∧
    m.dataWire = [(1, 0, [7, 8])] :=
  ⟨_, .step (.send 1 0) .init rfl, rfl⟩


end XC.C35
