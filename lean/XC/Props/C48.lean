/-
  C48 — property theorems over XC.Model.C48.
-/
import XC.Model.C48
namespace XC.C48

def Res.status? : Res → Option Nat
  | .ok f => some f.status
  | _ => none

/-- the envelope checks pass exactly when … -/
theorem envelope_none_iff (f : Facts) (cert : Option Int) :
    envelopeErr f cert = none ↔
      (f.outerOk = true ∧ f.outerRest = false ∧ f.status = 0 ∧ f.typeBasic = true ∧ f.basicOk = true ∧
       f.basicRest = false ∧ f.singles.length ≠ 0 ∧ (cert = none → f.singles.length ≤ 1)) := by
  unfold envelopeErr
  by_cases h1 : f.outerOk = true
  case neg => simp [h1]
  by_cases h2 : f.outerRest = true
  · simp [h1, h2]
  by_cases h3 : f.status = 0
  case neg => simp [h1, h2, h3]
  by_cases h4 : f.typeBasic = true
  case neg => simp [h1, h2, h3, h4]
  by_cases h5 : f.basicOk = true
  case neg => simp [h1, h2, h3, h4, h5]
  by_cases h6 : f.basicRest = true
  · simp [h1, h2, h3, h4, h5, h6]
  by_cases h7 : f.singles.length = 0
  · simp [h1, h2, h3, h4, h5, h6, h7]
  cases cert with
  | none =>
    by_cases h8 : f.singles.length > 1
    · simp [h1, h2, h3, h4, h5, h6, h7, h8]
    · simp [h1, h2, h3, h4, h5, h6, h7, h8]; omega
  | some c => simp [h1, h2, h3, h4, h5, h6, h7]

theorem envelope_err_not_ok (f : Facts) (cert : Option Int) (e : Res) (h : envelopeErr f cert = some e) :
    ∀ fl, e ≠ .ok fl := by
  intro fl he
  subst he
  unfold envelopeErr at h
  repeat (first | (split at h) | (simp at h))

theorem checkSingle_ok_iff (f : Facts) (s : Single) (issuer : Bool) (fl : Fields) :
    checkSingle f s issuer = .ok fl ↔
      ((f.ridTag = 1 ∨ f.ridTag = 2) ∧ f.ridOk = true ∧ (f.ncerts > 0 → f.certOk = true) ∧
       sigRule f issuer = true ∧ s.crit = false ∧ s.hash ≠ 0 ∧ fl = fieldsOf f s) := by
  unfold checkSingle
  by_cases h1 : (f.ridTag = 1 ∨ f.ridTag = 2) ∧ f.ridOk = true
  case neg =>
    simp only [h1, decide_false, Bool.not_false, if_true]
    constructor
    · intro h; simp at h
    · intro h; exact absurd ⟨h.1, h.2.1⟩ h1
  by_cases h2 : f.ncerts > 0 ∧ f.certOk = false
  · have : ¬ (f.ncerts > 0 → f.certOk = true) := by intro h; have := h h2.1; simp [h2.2] at this
    simp [h1, h2, this]
  have h2' : f.ncerts > 0 → f.certOk = true := by
    intro hn; cases hc : f.certOk with
    | true => rfl
    | false => exact absurd ⟨hn, hc⟩ h2
  have h2'' : ¬ (f.ncerts > 0 ∧ (!f.certOk) = true) := by
    intro ⟨a, b⟩; have := h2' a; simp [this] at b
  by_cases h3 : sigRule f issuer = true
  case neg => simp [h1, h2, h3]
  by_cases h4 : s.crit = true
  · simp [h1, h2, h3, h4]
  by_cases h5 : s.hash = 0
  · simp [h1, h2, h3, h4, h5]
  simp [h1, h2, h3, h4, h5]
  constructor
  · intro h; exact ⟨fun hn => by simpa using h2' (by omega), h.symm⟩
  · intro h; exact h.2.symm

/-- **accept_iff.** `ParseResponseForCert` returns a response exactly when: both ASN.1 layers parse
    with nothing left over, the status is `successful`, the type is basic, the number of
    SingleResponses is acceptable (≥ 1; exactly 1 when no certificate was supplied), a SingleResponse
    is selected (first / first with the certificate's serial), it carries no critical extension and a
    supported issuer hash, the responder id is a well-formed byName / byKey, an embedded certificate
    (if any) parses, and the signature rule holds; the fields returned are those of the selected
    SingleResponse. -/
theorem accept_iff (f : Facts) (cert : Option Int) (issuer : Bool) (fl : Fields) :
    parseResponse f cert issuer = .ok fl ↔
      (f.outerOk = true ∧ f.outerRest = false ∧ f.status = 0 ∧ f.typeBasic = true ∧ f.basicOk = true ∧
       f.basicRest = false ∧ f.singles.length ≠ 0 ∧ (cert = none → f.singles.length ≤ 1)) ∧
      ∃ s, select cert f.singles = some s ∧
        (f.ridTag = 1 ∨ f.ridTag = 2) ∧ f.ridOk = true ∧ (f.ncerts > 0 → f.certOk = true) ∧
        sigRule f issuer = true ∧ s.crit = false ∧ s.hash ≠ 0 ∧ fl = fieldsOf f s := by
  unfold parseResponse
  cases he : envelopeErr f cert with
  | some e =>
    have hne := envelope_err_not_ok f cert e he fl
    have : ¬ (f.outerOk = true ∧ f.outerRest = false ∧ f.status = 0 ∧ f.typeBasic = true ∧ f.basicOk = true ∧
       f.basicRest = false ∧ f.singles.length ≠ 0 ∧ (cert = none → f.singles.length ≤ 1)) := by
      intro h; rw [(envelope_none_iff f cert).mpr h] at he; simp at he
    constructor
    · intro h; exact absurd h hne
    · intro h; exact absurd h.1 this
  | none =>
    have henv := (envelope_none_iff f cert).mp he
    cases hs : select cert f.singles with
    | none =>
      constructor
      · intro h; simp at h
      · intro ⟨_, s, h, _⟩; simp at h
    | some s =>
      simp only
      rw [checkSingle_ok_iff]
      constructor
      · intro h; exact ⟨henv, s, rfl, h⟩
      · intro ⟨_, s', hs', h⟩
        injection hs' with hs'; subst hs'; exact h

/-- **issuer binding.** With an issuer supplied, a response is accepted only if it was signed by the
    issuer, or by an embedded certificate that the issuer signed. -/
theorem issuer_binding (f : Facts) (cert : Option Int) (fl : Fields)
    (h : parseResponse f cert true = .ok fl) :
    (f.ncerts = 0 ∧ f.sigByIssuer = true) ∨
    (f.ncerts > 0 ∧ f.sigByEmbedded = true ∧ f.embeddedByIssuer = true) := by
  obtain ⟨_, s, _, _, _, _, hs, _⟩ := (accept_iff f cert true fl).mp h
  unfold sigRule at hs
  by_cases hn : f.ncerts > 0
  · right; simp [hn] at hs; exact ⟨hn, hs⟩
  · left; simp [hn] at hs; exact ⟨by omega, hs⟩

/-- without an issuer an embedded certificate must still have signed the response (a response without
    certificates is then not checked at all — `Response.CheckSignatureFrom` is the caller's job) -/
theorem embedded_must_sign (f : Facts) (cert : Option Int) (issuer : Bool) (fl : Fields)
    (h : parseResponse f cert issuer = .ok fl) (hn : f.ncerts > 0) : f.sigByEmbedded = true := by
  obtain ⟨_, s, _, _, _, _, hs, _⟩ := (accept_iff f cert issuer fl).mp h
  simp [sigRule, hn] at hs
  exact hs.1

/-- non-vacuity of `issuer_binding`: both alternatives are reachable, and the unsigned case is rejected -/
example : parseResponse { singles := [{ serial := 5 }], sigByIssuer := true } none true
    = .ok (fieldsOf { singles := [{ serial := 5 }], sigByIssuer := true } { serial := 5 }) := by decide
example : (parseResponse { singles := [{ serial := 5 }], certs := [{ signedResp := true, byIssuer := true }] }
    none true).status? = some revokedSt := by decide
example : parseResponse { singles := [{ serial := 5 }], certs := [{ signedResp := true }] } none true = .errParse := by
  decide
/-- two embedded certificates, the first signed the response but only the second is issuer-signed: rejected -/
example : parseResponse { singles := [{ serial := 5 }], certs := [{ signedResp := true }, { byIssuer := true }] }
    none true = .errParse := by decide
example : parseResponse { singles := [{ serial := 5 }] } none true = .errParse := by decide

/-- the SingleResponse used for a given certificate is the *first* one with its serial number -/
theorem select_spec (c : Int) (ss : List Single) (s : Single) :
    select (some c) ss = some s ↔
      ∃ pre post, ss = pre ++ s :: post ∧ s.serial = c ∧ ∀ x ∈ pre, x.serial ≠ c := by
  unfold select
  simp only [List.find?_eq_some_iff_append, beq_iff_eq]
  constructor
  · rintro ⟨h1, pre, post, h2, h3⟩
    exact ⟨pre, post, h2, h1, fun x hx => by simpa using h3 x hx⟩
  · rintro ⟨pre, post, h2, h1, h3⟩
    exact ⟨h1, pre, post, h2, fun x hx => by simpa using h3 x hx⟩

/-- **status_mapping.** good ↦ Good, else unknown ↦ Unknown, else Revoked with the revocation time and
    reason; for Good / Unknown the revocation fields are the zero values. -/
theorem status_mapping (f : Facts) (cert : Option Int) (issuer : Bool) (fl : Fields)
    (h : parseResponse f cert issuer = .ok fl) :
    ∃ s, select cert f.singles = some s ∧ fl.serial = s.serial ∧
      fl.status = (if s.good then goodSt else if s.unknown then unknownSt else revokedSt) ∧
      (fl.status = revokedSt → fl.revokedAt = s.revokedAt ∧ fl.reason = s.reason) ∧
      (fl.status ≠ revokedSt → fl.revokedAt = zeroTime ∧ fl.reason = 0) := by
  obtain ⟨_, s, hs, _, _, _, _, _, _, hfl⟩ := (accept_iff f cert issuer fl).mp h
  subst hfl
  refine ⟨s, hs, rfl, rfl, ?_, ?_⟩
  · intro hr; simp only [fieldsOf] at hr ⊢; simp [hr]
  · intro hr; simp only [fieldsOf] at hr ⊢; simp [hr]

/-! ## CreateResponse ↦ ParseResponse -/

/-- what `ParseResponse` returns for a response made by `CreateResponse` from template `t` -/
def expected (t : Template) (serial : Int) (alg : Nat) (producedAt : Int) : Fields :=
  { status := if t.status = 0 then goodSt else if t.status = 2 then unknownSt else revokedSt,
    serial := serial, producedAt := producedAt, thisUpdate := t.thisUpdate, nextUpdate := t.nextUpdate,
    revokedAt := if t.status = 1 then t.revokedAt else zeroTime,
    reason := if t.status = 1 then t.reason else 0,
    hash := if t.issuerHash = 0 then 3 else t.issuerHash, sigAlg := alg, byName := true,
    hasCert := t.cert.isSome, nExt := t.exts.length }

def effHash (t : Template) : Nat := if t.issuerHash = 0 then 3 else t.issuerHash

/-! ### the OID tables are faithful -/

/-- `hashOIDs` read forwards then backwards is the identity on the four supported hashes, and
    `getHashAlgorithmFromOID` answers 0 exactly for OIDs outside the table -/
theorem hash_table_roundtrip (h : Nat) (hk : hashKnown h = true) :
    ∃ o, oidOfHash h = some o ∧ hashOfOid o = h := by
  simp only [hashKnown, Bool.or_eq_true, beq_iff_eq] at hk
  rcases hk with ((rfl | rfl) | rfl) | rfl <;> exact ⟨_, rfl, by decide⟩

theorem hashOfOid_known (o : Oid) : hashOfOid o = 0 ∨ hashKnown (hashOfOid o) = true := by
  unfold hashOfOid
  repeat' split
  all_goals simp [hashKnown]

theorem hashOfOid_some (o : Oid) (h : hashOfOid o ≠ 0) : oidOfHash (hashOfOid o) = some o := by
  unfold hashOfOid at *
  repeat' split at h
  all_goals simp_all [oidOfHash]

theorem sigAlgDetails_range {a : Nat} {x : Nat × Nat} (h : sigAlgDetails a = some x) : 1 ≤ a ∧ a ≤ 12 := by
  unfold sigAlgDetails at h
  split at h <;> simp_all

theorem signingParams_range {k : KeyType} {req alg : Nat} (h : signingParams k req = some alg) :
    1 ≤ alg ∧ alg ≤ 12 := by
  unfold signingParams at h
  cases k <;> simp only [] at h <;> (try simp at h)
  all_goals
    split at h
    · injection h with h; omega
    · cases hd : sigAlgDetails req with
      | none => simp [hd] at h
      | some x =>
        obtain ⟨pk, hh⟩ := x
        simp only [hd] at h
        have hr := sigAlgDetails_range hd
        split at h <;> simp at h
        omega

/-- `signatureAlgorithmDetails` read forwards then backwards is the identity on algorithms 1 … 12 -/
theorem sig_table_roundtrip : ∀ a, a < 13 → 1 ≤ a → sigAlgOfOid (oidOfSigAlg a) = a := by decide

/-- what a successful `CreateResponse` wrote -/
theorem createResponse_some (t : Template) (k : Nat) (typ : KeyType) (r : AbsResp)
    (hc : createResponse t k typ = some r) :
    ∃ serial alg, t.serial = some serial ∧ signingParams typ t.sigAlg = some alg ∧
      hashKnown (effHash t) = true ∧
      r = { single := { serial := serial, good := t.status = 0, unknown := t.status = 2,
                        crit := t.exts.any id, hashOid := (oidOfHash (effHash t)).getD [],
                        thisUpdate := t.thisUpdate, nextUpdate := t.nextUpdate,
                        revokedAt := if t.status = 1 then t.revokedAt else zeroTime,
                        reason := if t.status = 1 then t.reason else 0, nExt := t.exts.length },
            sigAlg := alg, signer := k, certs := t.cert.toList } := by
  unfold createResponse at hc
  simp only [] at hc
  change (if !hashKnown (effHash t) then none else _) = some r at hc
  by_cases hk : hashKnown (effHash t) = true
  case neg => simp [hk] at hc
  simp only [hk, Bool.not_true, Bool.false_eq_true, if_false] at hc
  cases hser : t.serial with
  | none => simp [hser] at hc
  | some serial =>
    simp only [hser] at hc
    split at hc
    · simp at hc
    · cases hsp : signingParams typ t.sigAlg with
      | none => simp [hsp] at hc
      | some alg =>
        simp only [hsp, Option.some.injEq] at hc
        exact ⟨serial, alg, rfl, rfl, hk, hc.symm⟩

/-- **create_parse_fields.** Over a faithful codec, a response created from `t` with key `k`, carrying no
    critical extension, and checked against an issuer for which the signature rule can hold (signed by
    the issuer itself, or `template.Certificate` holds the signing key and is signed by the issuer),
    parses to exactly the template's fields (status normalised into {Good, Revoked, Unknown};
    revocation time / reason only for Revoked; hash and signature algorithm through the OID tables). -/
theorem create_parse_fields (t : Template) (k : Nat) (typ : KeyType) (r : AbsResp) (pa : Int)
    (issuer : Option Nat) (hc : createResponse t k typ = some r) (hcrit : t.exts.any id = false)
    (hsig : match t.cert, issuer with
      | none, none => True
      | none, some i => k = i ∧ verifies r.sigAlg = true
      | some c, none => c.key = k ∧ verifies r.sigAlg = true
      | some c, some i => c.key = k ∧ c.signedBy = i ∧ verifies r.sigAlg = true) :
    ∃ serial, t.serial = some serial ∧
      parseResponse (factsOf r pa issuer) none issuer.isSome = .ok (expected t serial r.sigAlg pa) := by
  obtain ⟨serial, alg, hser, hsp, hk, rfl⟩ := createResponse_some t k typ r hc
  obtain ⟨o, ho, hho⟩ := hash_table_roundtrip _ hk
  have hrange := signingParams_range hsp
  have halg := sig_table_roundtrip alg (by omega) hrange.1
  have hne : effHash t ≠ 0 := by intro e; rw [e] at hk; simp [hashKnown] at hk
  refine ⟨serial, hser, ?_⟩
  rw [accept_iff]
  refine ⟨by simp [factsOf], _, rfl, Or.inl rfl, rfl, ?_, ?_, ?_, ?_, ?_⟩
  · -- an embedded certificate parses
    intro _; simp [Facts.certOk, factsOf]; cases t.cert <;> simp
  · -- signature rule
    cases hcert : t.cert with
    | none =>
      cases issuer with
      | none => simp [sigRule, Facts.ncerts, factsOf, hcert]
      | some i =>
        simp only [hcert] at hsig
        simp [sigRule, Facts.ncerts, factsOf, hcert, hsig.1, hsig.2]
    | some c =>
      cases issuer with
      | none =>
        simp only [hcert] at hsig
        simp [sigRule, Facts.ncerts, Facts.sigByEmbedded, factsOf, hcert, hsig.1, hsig.2]
      | some i =>
        simp only [hcert] at hsig
        simp [sigRule, Facts.ncerts, Facts.sigByEmbedded, Facts.embeddedByIssuer, factsOf, hcert, hsig.1, hsig.2.1,
          hsig.2.2]
  · exact hcrit
  · simp [Single.hash, ho, hho, hne]
  · -- the fields
    simp only [fieldsOf, expected, statusOf, factsOf, Single.hash, Facts.sigAlg, Facts.ncerts, ho, Option.getD_some,
      hho, halg, goodSt, unknownSt, revokedSt, effHash] at *
    cases t.cert <;>
    by_cases h0 : t.status = 0 <;> by_cases h2 : t.status = 2 <;> by_cases h1 : t.status = 1 <;>
      simp [h0, h1, h2] <;> omega

/-- a response signed by `k` with no certificate inside is rejected under any other issuer -/
theorem create_parse_wrong_issuer (t : Template) (k i : Nat) (typ : KeyType) (r : AbsResp) (pa : Int)
    (hc : createResponse t k typ = some r) (hcert : t.cert = none) (hki : k ≠ i) (fl : Fields) :
    parseResponse (factsOf r pa (some i)) none true ≠ .ok fl := by
  obtain ⟨serial, alg, hser, _, hk, rfl⟩ := createResponse_some t k typ r hc
  intro h
  rcases issuer_binding _ _ _ h with ⟨_, h2⟩ | ⟨h1, _⟩
  · simp [factsOf, hki] at h2
  · simp [factsOf, Facts.ncerts, hcert] at h1

/-- the round trip needs `Status ∈ {Good, Revoked, Unknown}`: `ServerFailed` (3) reads back as Revoked -/
example : (createResponse ⟨3, some 7, 0, 0, 0, 0, 0, 0, [], none⟩ 1 .rsa).map
    (fun r => (parseResponse (factsOf r 0 none) none false).status?) = some (some revokedSt) := by decide

/-- non-vacuity of `create_parse_fields`: a delegated responder (key 2, certificate signed by issuer 1) -/
example : (createResponse ⟨1, some 7, 10, 20, 5, 4, 5, 0, [false], some ⟨2, 1⟩⟩ 2 .ec256).map
    (fun r => parseResponse (factsOf r 60 (some 1)) none true) =
    some (.ok (expected ⟨1, some 7, 10, 20, 5, 4, 5, 0, [false], some ⟨2, 1⟩⟩ 7 10 60)) := by decide

/-! ## requests -/

/-- `ParseRequest(CreateRequest(cert, issuer, opts))` returns the hash in use, the issuer name / key
    hashes under it and the certificate's serial number; `CreateRequest` fails exactly for hashes other
    than SHA-1/256/384/512. -/
theorem request_roundtrip (optHash : Nat) (serial : Int) (hn hk : Nat → Bytes) :
    (match createRequest optHash serial hn hk with
     | none => hashKnown (if optHash = 0 then 3 else optHash) = false
     | some f => parseRequest f =
        .ok ⟨if optHash = 0 then 3 else optHash, hn (if optHash = 0 then 3 else optHash),
             hk (if optHash = 0 then 3 else optHash), serial⟩) := by
  unfold createRequest
  by_cases h : hashKnown (if optHash = 0 then 3 else optHash) = true
  · obtain ⟨o, ho, hho⟩ := hash_table_roundtrip _ h
    have hne : (if optHash = 0 then 3 else optHash) ≠ 0 := by
      intro e; rw [e] at h; simp [hashKnown] at h
    simp only [h, Bool.not_true, Bool.false_eq_true, if_false, parseRequest, ho, Option.getD_some, hho]
    simp [hne]
  · have h' : hashKnown (if optHash = 0 then 3 else optHash) = false := by simpa using h
    simp [h']

/-- `ParseRequest` accepts exactly: parses, nothing trailing, unsigned, ≥ 1 request, hash OID in `hashOIDs` -/
theorem parseRequest_accept_iff (f : ReqFacts) :
    (∃ r, parseRequest f = .ok r) ↔
      (f.ok = true ∧ f.rest = false ∧ f.hasSig = false ∧ f.n ≠ 0 ∧ hashOfOid f.hashOid ≠ 0) := by
  unfold parseRequest
  constructor
  · intro ⟨r, h⟩
    split at h; · simp at h
    split at h; · simp at h
    split at h; · simp at h
    split at h; · simp at h
    split at h; · simp at h
    rename_i h1 h2 h3 h4 h5
    simp at h1 h2 h3 h4
    exact ⟨h1, h2, h3, h4, h5⟩
  · intro ⟨h1, h2, h3, h4, h5⟩
    simp [h1, h2, h3, h4, h5]

/-! ## the embedded chain and `CheckSignatureFrom` -/

/-- **embedded_same_cert.** When a response with embedded certificates is accepted under an issuer, the
    certificate that was checked against the issuer is the very certificate (the first one) that
    verified the response signature; later certificates play no role. -/
theorem embedded_same_cert (f : Facts) (cert : Option Int) (fl : Fields)
    (h : parseResponse f cert true = .ok fl) (hn : f.certs ≠ []) :
    ∃ c rest, f.certs = c :: rest ∧ c.ok = true ∧ c.signedResp = true ∧ c.byIssuer = true := by
  obtain ⟨_, s, _, _, _, hok, hs, _⟩ := (accept_iff f cert true fl).mp h
  cases hc : f.certs with
  | nil => exact absurd hc hn
  | cons c rest =>
    have hlen : f.ncerts > 0 := by simp [Facts.ncerts, hc]
    have h1 := hok hlen
    simp only [sigRule, hlen, if_true, Facts.sigByEmbedded, Facts.embeddedByIssuer, Facts.certOk, hc,
      List.head?_cons, Bool.not_true, Bool.false_or, Bool.and_eq_true] at hs h1
    exact ⟨c, rest, rfl, h1, hs.1, hs.2⟩

/-- certificates after the first do not influence the result -/
theorem later_certs_irrelevant (f : Facts) (c : CertFact) (r1 r2 : List CertFact) (cert : Option Int)
    (issuer : Bool) :
    parseResponse { f with certs := c :: r1 } cert issuer = parseResponse { f with certs := c :: r2 } cert issuer := by
  have e1 : envelopeErr { f with certs := c :: r1 } cert = envelopeErr { f with certs := c :: r2 } cert := rfl
  have e2 : ∀ s, checkSingle { f with certs := c :: r1 } s issuer = checkSingle { f with certs := c :: r2 } s issuer := by
    intro s
    simp [checkSingle, sigRule, Facts.ncerts, Facts.certOk, Facts.sigByEmbedded, Facts.embeddedByIssuer, fieldsOf,
      Facts.sigAlg]
  unfold parseResponse
  rw [e1]
  cases envelopeErr { f with certs := c :: r2 } cert with
  | some e => rfl
  | none =>
    show (match select cert f.singles with | none => Res.errParse | some s => checkSingle _ s issuer) =
         (match select cert f.singles with | none => Res.errParse | some s => checkSingle _ s issuer)
    cases select cert f.singles with
    | none => rfl
    | some s => exact e2 s

/-- **two-step use.** Parsing without an issuer and then calling `Response.CheckSignatureFrom(issuer)` on
    a response that has no embedded certificate accepts exactly what the one-step call with the issuer
    accepts, with the same fields. -/
theorem parse_then_checkSignatureFrom (f : Facts) (cert : Option Int) (fl : Fields) (hn : f.certs = []) :
    (parseResponse f cert false = .ok fl ∧ checkSignatureFrom f = true) ↔
      parseResponse f cert true = .ok fl := by
  have hnc : ¬ f.ncerts > 0 := by simp [Facts.ncerts, hn]
  rw [accept_iff, accept_iff]
  simp only [sigRule, hnc, if_false, checkSignatureFrom, Bool.not_false, Bool.not_true, Bool.true_or, Bool.false_or]
  constructor
  · rintro ⟨⟨he, s, h1, h2, h3, h4, _, h6⟩, hs⟩
    exact ⟨he, s, h1, h2, h3, h4, hs, h6⟩
  · rintro ⟨he, s, h1, h2, h3, h4, hs, h6⟩
    exact ⟨⟨he, s, h1, h2, h3, h4, trivial, h6⟩, hs⟩

/-! ## modified signed bytes -/

/-- **a response whose signature does not verify is rejected when an issuer is given**: if neither the
    issuer's key nor the first embedded certificate's key verifies the signature over tbsResponseData
    (what any modification of the signed bytes causes, under the signature assumption), no response is
    returned — whatever else the bytes contain. -/
theorem bad_signature_rejected (f : Facts) (cert : Option Int) (fl : Fields)
    (hsig : f.sigByIssuer = false) (hemb : ∀ c ∈ f.certs.head?, c.signedResp = false) :
    parseResponse f cert true ≠ .ok fl := by
  intro h
  rcases issuer_binding f cert fl h with ⟨_, h2⟩ | ⟨h1, h2, _⟩
  · rw [hsig] at h2; cases h2
  · unfold Facts.sigByEmbedded at h2
    cases hc : f.certs.head? with
    | none => simp [hc] at h2
    | some c =>
      simp only [hc] at h2
      have := hemb c (by simp [hc])
      rw [this] at h2; cases h2

/-- non-vacuity: a response that is otherwise perfect -/
example : parseResponse { singles := [{ serial := 5, good := true }] } none true = .errParse ∧
    (parseResponse { singles := [{ serial := 5, good := true }], sigByIssuer := true } none true).status? = some goodSt := by
  decide

end XC.C48
