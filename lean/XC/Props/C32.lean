/-
  C32 — server user authentication is sound: property theorems over XC.Model.C32.
  (lemma layer: XC.Proofs.C32, XC.Proofs.C32Hist)

  The specification side is `Satisfied` / `PkGood` / `PkAccepted` (XC.Proofs.C32): a statement of
  what it means for one request to satisfy its authentication method that mentions neither the
  loop nor the order of the checks in the code.  The theorems hold for every request history and
  every scripted behaviour of the callbacks (each request carries the outcome its callback
  returns, universally quantified).
-/
import XC.Proofs.C32Hist
import XC.Proofs.C32Ev
import XC.Model.C32_Wire
namespace XC.C32

def lastKey (evs : List Ev) : KeyAcc := scanKey none evs

/-- **auth_sound.** If the server reports success with permissions `p`, then the history splits into
    requests that were all answered "continue" and one final request `r` which, in the state `st`
    those requests led to, satisfies its method:
    * `none` only with NoClientAuth, before any partial success, and NoClientAuthCallback (if set) accepted;
    * `password` / `keyboard-interactive` only if that callback of the callback set in force accepted
      (keyboard-interactive: after every Challenge call was answered by a well-formed INFO_RESPONSE
      with the right number of answers);
    * `gssapi-with-mic` only if it is configured in the set in force, Kerberos V5 was offered, the
      AcceptSecContext exchange ran to completion (token after every "continue", MIC at the end),
      the MIC verified (oracle) and AllowLogin accepted;
    * `publickey` only if the request is not a query, the key parses, the algorithm's underlying
      algorithm and the signature format are in PublicKeyAuthAlgorithms, the algorithm belongs to the
      key's type, algorithm and signature format are compatible, the signature verifies (oracle) and
      PublicKeyCallback accepted exactly this user and these key bytes (cached decision for the same
      user and key, or a fresh one), with VerifiedPublicKeyCallback (if set) accepting;
    in every case the service is ssh-connection, the user did not change after a partial success,
    and the source-address option of the returned permissions matches the peer. -/
theorem auth_sound (cfg : Cfg) (reads : List Read) (evs : List Ev) (p : Nat)
    (h : run cfg reads = (evs, .ok p)) :
    ∃ pre r post st e1 e2,
      reads = pre.map Read.req ++ Read.req r :: post ∧
      Steps cfg (St.init cfg) pre st e1 ∧ evs = e1 ++ e2 ∧
      r.service = "ssh-connection" ∧ (st.partialRet = true → st.user = r.user) ∧
      cfg.saOk p = true ∧ Satisfied cfg st r p := by
  obtain ⟨pre, r, post, st, e1, e2, h1, h2, _, h4, h5⟩ := loop_ok h
  obtain ⟨s1, s2, s3, s4⟩ := step_ok_sound h4
  refine ⟨pre, r, post, st, e1, e2, h1, h2, h5, s1, s2, s3, ?_⟩
  exact Satisfied_congr rfl rfl rfl s4

/-- **cache_sound.** In every reachable state the public key cache holds nothing, or exactly what
    the last PublicKeyCallback invocation of the log returned: that invocation was made by the
    callback set now in force, for the cached user and key bytes, no partial success came after it,
    and a cached "accept" is an accept whose source-address option matches the peer. -/
theorem cache_sound (cfg : Cfg) (rs : List Req) (st : St) (evs : List Ev)
    (h : Steps cfg (St.init cfg) rs st evs) : CacheInv cfg st (lastKey evs) :=
  steps_inv (init_inv cfg) h

/-- **pk_success_is_last_callback** (also `perms_final` for publickey). When a publickey request
    succeeds, the last PublicKeyCallback invocation in the whole log — with no partial success
    after it — was made by the callback set in force for this user and these key bytes and returned
    accept; the signature verified under the no-touch rule of *those* permissions; the permissions
    returned are the ones VerifiedPublicKeyCallback returned if it is set, else the ones that
    PublicKeyCallback invocation returned. -/
theorem pk_success_is_last_callback (cfg : Cfg) (reads : List Read) (evs : List Ev) (p : Nat)
    (h : run cfg reads = (evs, .ok p)) :
    ∃ pre r post st e1, reads = pre.map Read.req ++ Read.req r :: post ∧ Steps cfg (St.init cfg) pre st e1 ∧
      (r.method = "publickey" →
        ∃ pkPerms, lastKey evs = some (st.gen, r.user, r.pk.key, .accept pkPerms) ∧
          cfg.saOk pkPerms = true ∧ sigOk cfg r.pk pkPerms = true ∧
          ((cfg.verifiedCb = true ∧ r.vcb = .accept p) ∨ (cfg.verifiedCb = false ∧ p = pkPerms))) := by
  obtain ⟨pre, r, post, st, e1, e2, h1, h2, _, h4, h5⟩ := loop_ok h
  refine ⟨pre, r, post, st, e1, h1, h2, ?_⟩
  intro hm
  have hinv := cache_sound cfg pre st e1 h2
  obtain ⟨pk, a, b⟩ := step_ok_pk hinv h4 hm
  refine ⟨pk, ?_, b⟩
  rw [h5, lastKey, scanKey_append]
  exact a

/-- **perms_final** for the callback methods other than publickey: the permissions returned are
    exactly those of the accept returned by the callback invoked on the final request. -/
theorem perms_final (cfg : Cfg) (reads : List Read) (evs : List Ev) (p : Nat)
    (h : run cfg reads = (evs, .ok p)) :
    ∃ (pre : List Req) (r : Req) (post : List Read), reads = pre.map Read.req ++ Read.req r :: post ∧
      (r.method = "password" ∨ r.method = "keyboard-interactive" ∨ r.method = "gssapi-with-mic" ∨
        (r.method = "none" ∧ cfg.noClientAuthCb = true) → r.cb = .accept p) ∧
      (r.method = "none" ∧ cfg.noClientAuthCb = false → p = 0) := by
  obtain ⟨pre, r, post, st, e1, e2, h1, _, _, _, _, _, hs⟩ := auth_sound cfg reads evs p h
  refine ⟨pre, r, post, h1, ?_, ?_⟩
  · intro hm
    unfold Satisfied at hs
    rcases hs with ⟨m, _, _, hh⟩ | ⟨m, _, _, hh⟩ | ⟨m, _, _, hh⟩ | ⟨m, _, _, _, _, hh⟩ | ⟨m, _⟩
    · rcases hh with ⟨_, hh⟩ | ⟨hf, _⟩
      · exact hh
      · rcases hm with hm | hm | hm | ⟨_, hm⟩ <;> simp_all
    · exact hh
    · exact hh
    · exact hh
    · rcases hm with hm | hm | hm | ⟨hm, _⟩ <;> simp_all
  · intro ⟨hm, hcb⟩
    unfold Satisfied at hs
    rcases hs with ⟨m, _, _, hh⟩ | ⟨m, _⟩ | ⟨m, _⟩ | ⟨m, _⟩ | ⟨m, _⟩
    · rcases hh with ⟨hh, _⟩ | ⟨_, hh⟩
      · simp_all
      · exact hh
    all_goals simp_all

/-- **partial_switches.** A request that is answered "continue" either leaves the active callback
    set (and its tag `gen`) untouched, or it ended in a partial success: then the set switched to is
    the `Next` named by the PartialSuccessError returned, with nil permissions, for this very
    request — by the method's callback, by VerifiedPublicKeyCallback, or by the cached
    PublicKeyCallback decision for this user and key —, the key cache is emptied, and the client is
    told so with a failure message carrying the partial-success flag and exactly the methods of the
    new set. -/
theorem partial_switches (cfg : Cfg) (st st' : St) (r : Req) (evs : List Ev)
    (h : step cfg (bump st) r = .cont st' evs) :
    (st'.cbs = st.cbs ∧ st'.gen = st.gen ∧ st'.partialRet = st.partialRet) ∨
    (∃ nx g, PartialOrigin { bump st with user := r.user } r 0 nx g ∧ st'.cbs = nx ∧ st'.gen = g ∧
      st'.partialRet = true ∧ st'.cache = none ∧ methodsOf nx ≠ [] ∧
      evs.getLast? = some (Ev.sendFailure (methodsOf nx) true)) :=
  step_switch h

/-- **callbacks_from_active_set.** Whatever an iteration does (continue, succeed, fail hard), every
    callback it consults belongs to the callback set in force when the request arrived (tag
    `st.gen`, corresponding field non-nil) and is called for this request's user, password and key;
    PublicKeyCallback is invoked only on a cache miss for (user, key) and only for keys that parse;
    VerifiedPublicKeyCallback only for signature requests when it is configured;
    NoClientAuthCallback only with NoClientAuth and before any partial success; and no
    disconnect is sent from inside an iteration.  Together with `partial_switches`: after a partial
    success only the callbacks it named are consulted. -/
theorem callbacks_from_active_set (cfg : Cfg) (st : St) (r : Req) :
    ∀ e ∈ (step cfg st r).evs, evOk cfg st r e = true := by
  have := step_events_allowed cfg st r
  rw [List.all_eq_true] at this
  exact this

/-- success is only ever reported for a history that contains a request -/
theorem no_success_on_empty (cfg : Cfg) : (run cfg []).2 = .authErr := by
  unfold run loop
  split <;> rfl

/-! ## what the signature covers -/

theorem natToBE4_inj {a b : Nat} (ha : a < 2 ^ 32) (hb : b < 2 ^ 32) (h : natToBE 4 a = natToBE 4 b) : a = b := by
  unfold natToBE at h
  have h' : natToLE 4 a = natToLE 4 b := by
    have := congrArg List.reverse h
    simpa using this
  have := congrArg natOfLE h'
  rw [natOfLE_natToLE, natOfLE_natToLE] at this
  have e : (256 : Nat) ^ 4 = 2 ^ 32 := by decide
  rw [e, Nat.mod_eq_of_lt ha, Nat.mod_eq_of_lt hb] at this
  exact this

theorem natToBE_length (n v : Nat) : (natToBE n v).length = n := by
  simp [natToBE, natToLE_length]

/-- a length-prefixed string can be split off unambiguously -/
theorem sshStr_cancel {b1 b2 r1 r2 : Bytes} (h1 : b1.length < 2 ^ 32) (h2 : b2.length < 2 ^ 32)
    (h : sshStr b1 ++ r1 = sshStr b2 ++ r2) : b1 = b2 ∧ r1 = r2 := by
  unfold sshStr at h
  rw [List.append_assoc, List.append_assoc] at h
  have hl := List.append_inj h (by simp [natToBE_length])
  have hlen := natToBE4_inj h1 h2 hl.1
  have := List.append_inj hl.2 hlen
  exact this

/-- **signedData_injective.** The bytes covered by a publickey signature determine the session
    identifier, the user, the service, the method, the algorithm name and the key blob: a signature
    valid for one (session, request) is a signature over no other.  (Field lengths < 2^32, as on the wire.) -/
theorem signedData_injective {s1 u1 v1 m1 a1 k1 s2 u2 v2 m2 a2 k2 : Bytes}
    (hs1 : s1.length < 2 ^ 32) (hs2 : s2.length < 2 ^ 32) (hu1 : u1.length < 2 ^ 32) (hu2 : u2.length < 2 ^ 32)
    (hv1 : v1.length < 2 ^ 32) (hv2 : v2.length < 2 ^ 32) (hm1 : m1.length < 2 ^ 32) (hm2 : m2.length < 2 ^ 32)
    (ha1 : a1.length < 2 ^ 32) (ha2 : a2.length < 2 ^ 32) (hk1 : k1.length < 2 ^ 32) (hk2 : k2.length < 2 ^ 32)
    (h : signedData s1 u1 v1 m1 a1 k1 = signedData s2 u2 v2 m2 a2 k2) :
    s1 = s2 ∧ u1 = u2 ∧ v1 = v2 ∧ m1 = m2 ∧ a1 = a2 ∧ k1 = k2 := by
  unfold signedData at h
  obtain ⟨e1, h⟩ := sshStr_cancel hs1 hs2 h
  simp only [List.cons.injEq, true_and] at h
  obtain ⟨e2, h⟩ := sshStr_cancel hu1 hu2 h
  obtain ⟨e3, h⟩ := sshStr_cancel hv1 hv2 h
  obtain ⟨e4, h⟩ := sshStr_cancel hm1 hm2 h
  simp only [List.cons.injEq, true_and] at h
  obtain ⟨e5, h⟩ := sshStr_cancel ha1 ha2 h
  have h' : sshStr k1 ++ [] = sshStr k2 ++ [] := by simpa using h
  obtain ⟨e6, _⟩ := sshStr_cancel hk1 hk2 h'
  exact ⟨e1, e2, e3, e4, e5, e6⟩

example : signedData [1, 2] [97] [] [112] [] [9] =
    [0, 0, 0, 2, 1, 2, 50, 0, 0, 0, 1, 97, 0, 0, 0, 0, 0, 0, 0, 1, 112, 1, 0, 0, 0, 0, 0, 0, 0, 1, 9] := by decide

/-! ## non-vacuity: concrete histories that do succeed, one per method -/

def cfgDemo : Cfg :=
  { maxAuthTries := 0, noClientAuth := false, noClientAuthCb := false, cbs := ⟨true, true, true, false⟩,
    verifiedCb := false, bannerCb := none, pkAlgos := [], addr := .tcp,
    perms := [(1, ⟨none, false⟩), (2, ⟨some [.ipNe, .cidrIn], false⟩), (3, ⟨some [.bad, .ipEq], false⟩)] }

def pkDemo (q : Bool) : Req :=
  { user := "a", service := "ssh-connection", method := "publickey",
    pk := { isQuery := q, algo := "ssh-ed25519", key := 1, keyParses := true, keyType := "ssh-ed25519",
            sigFormat := "ssh-ed25519", sigValid := true, sigValidNT := true },
    cb := .accept 2 }

/-- query (callback accepts, permissions with a matching source-address) then signature: success
    from the cache, with the permissions of the query's callback -/
example : run cfgDemo [.req (pkDemo true), .req { pkDemo false with cb := .reject }] =
    ([.cbPk 0 "a" 1 (.accept 2), .sendPkOk "ssh-ed25519" 1, .log "publickey" .ok, .sendSuccess], .ok 2) := by
  decide

/-- the same signature request fails when the callback's permissions carry a source-address list
    whose first entry is unparsable -/
example : (run cfgDemo [.req { pkDemo false with cb := .accept 3 }]).2 = .authErr := by decide

example : (run cfgDemo [.req { user := "a", service := "ssh-connection", method := "password", cb := .accept 1 }]).2 = .ok 1 := by
  decide

/-- password → partial success naming only keyboard-interactive → keyboard-interactive accepted -/
example : run cfgDemo
    [.req { user := "a", service := "ssh-connection", method := "password", cb := .partialOk ⟨false, false, true, false⟩ 0 },
     .req { user := "a", service := "ssh-connection", method := "keyboard-interactive", cb := .accept 1 }] =
    ([.cbPw 0 "a" "" (.partialOk ⟨false, false, true, false⟩ 0), .log "password" .partialOk,
      .sendFailure ["keyboard-interactive"] true, .cbKbd 1 "a" (.accept 1), .log "keyboard-interactive" .ok,
      .sendSuccess], .ok 1) := by
  decide

/-- keyboard-interactive with two Challenge rounds (2 questions, then 0), both answered -/
example : run cfgDemo
    [.req { user := "a", service := "ssh-connection", method := "keyboard-interactive", kbdRounds := [2, 0],
            follow := [.infoResp 2, .infoResp 0], cb := .accept 1 }] =
    ([.cbKbd 0 "a" (.accept 1), .sendInfoReq 2, .sendInfoReq 0, .log "keyboard-interactive" .ok, .sendSuccess], .ok 1) := by
  decide

/-- … a wrong number of answers is an authentication failure although the callback would accept -/
example : (run cfgDemo
    [.req { user := "a", service := "ssh-connection", method := "keyboard-interactive", kbdRounds := [2],
            follow := [.infoResp 1], cb := .accept 1 }]).2 = .authErr := by
  decide

/-- gssapi-with-mic: two AcceptSecContext calls (the first continues and emits a token), MIC, AllowLogin -/
example : run { cfgDemo with cbs := ⟨false, false, false, true⟩ }
    [.req { user := "a", service := "ssh-connection", method := "gssapi-with-mic",
            gss := ⟨.krb, [⟨false, true, true⟩, ⟨false, false, false⟩], true⟩,
            follow := [.gssToken, .gssToken, .gssMic], cb := .accept 1 }] =
    ([.sendGssResponse, .gssAccept, .sendGssToken, .gssAccept, .gssVerifyMic, .cbGssAllow 0 "a" (.accept 1), .gssDelete,
      .log "gssapi-with-mic" .ok, .sendSuccess], .ok 1) := by
  decide

/-- … with a MIC that does not verify AllowLogin is never consulted -/
example : run { cfgDemo with cbs := ⟨false, false, false, true⟩ }
    [.req { user := "a", service := "ssh-connection", method := "gssapi-with-mic",
            gss := ⟨.krb, [⟨false, false, false⟩], false⟩, follow := [.gssToken, .gssMic], cb := .accept 1 }] =
    ([.sendGssResponse, .gssAccept, .gssVerifyMic, .gssDelete, .log "gssapi-with-mic" .fail,
      .sendFailure ["gssapi-with-mic"] false], .authErr) := by
  decide

/-- partial_switches / callbacks_from_active_set, concretely: one iteration ending in a partial success
    naming keyboard-interactive only — the callback set, its tag and the failure message all switch -/
example : (match step cfgDemo (bump (St.init cfgDemo))
      { user := "a", service := "ssh-connection", method := "password", cb := .partialOk ⟨false, false, true, false⟩ 0 } with
    | .cont st' evs => decide (st'.cbs = ⟨false, false, true, false⟩ ∧ st'.gen = 1 ∧ st'.partialRet = true ∧ st'.cache = none ∧
        evs.getLast? = some (.sendFailure ["keyboard-interactive"] true))
    | .done _ _ => false) = true := by decide

/-- cache_sound, concretely: after an accepted query the cache holds that decision and the log's
    last PublicKeyCallback record is the same (user, key, outcome) -/
example : (match step cfgDemo (bump (St.init cfgDemo)) (pkDemo true) with
    | .cont st evs => decide (st.cache = some ⟨"a", 1, .ok, 2⟩ ∧ lastKey evs = some (0, "a", 1, .accept 2))
    | .done _ _ => false) = true := by decide

example : (run { cfgDemo with noClientAuth := true }
    [.req { user := "a", service := "ssh-connection", method := "none" }]).2 = .ok 0 := by decide

end XC.C32
