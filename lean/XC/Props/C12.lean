/-
  C12 — legacy block ciphers: Decrypt ∘ Encrypt = id for ARBITRARY sub-keys / tables / S-boxes
  (so independent of the pinned constant tables), and the key-length acceptance tables.
  "Encrypt = published reference" is by construction of the models from the published algorithm
  descriptions + the differential run (and the published vectors in corpus/C12).
-/
import XC.Model.C12
import XC.Proofs.C12_Util
import XC.Proofs.C12_Feistel
import XC.Proofs.C12_Inv2
import XC.Proofs.C12_Ref
import XC.Proofs.C12_BfSpec
namespace XC.C12

/-! ## TEA (any round count) -/

/-- word level: for every key and every number of loop iterations -/
theorem tea_dec_enc (c : Tea.Cipher) (v : UInt32 × UInt32) : Tea.decryptW c (Tea.encryptW c v) = v := by
  unfold Tea.decryptW Tea.encryptW
  have := Tea.decLoop_encLoop c.key c.half 0 v
  rw [UInt32.zero_add] at this
  exact this

/-- byte level, 8-byte blocks -/
theorem tea_decrypt_encrypt (c : Tea.Cipher) (src : Bytes) (h : src.length = 8) :
    Tea.decrypt c (Tea.encrypt c src) = src := by
  unfold Tea.decrypt Tea.encrypt
  rw [split8_join8, tea_dec_enc, join8_split8 src h]

/-- NewCipherWithRounds accepts exactly 16-byte keys with an even round count (negative even counts
    included: they give the identity cipher, zero loop iterations) -/
theorem tea_newCipher_ok_iff (key : Bytes) (rounds : Int) :
    (Tea.newCipher key rounds).isSome ↔ key.length = 16 ∧ rounds % 2 = 0 := by
  unfold Tea.newCipher
  by_cases h1 : key.length = 16 <;> by_cases h2 : rounds % 2 = 0 <;> simp [h1, h2]

example : (Tea.newCipher (zeros 16) 64).isSome ∧ (Tea.newCipher (zeros 16) 63).isSome = false
    ∧ (Tea.newCipher (zeros 15) 64).isSome = false := by decide

/-- Encrypt = the published algorithm: for every accepted (16-byte key, even non-negative round count)
    the Go loop — `rounds/2` iterations, running `sum += delta` / `sum = delta*uint32(rounds/2)`, `sum -= delta` —
    equals the reference recursion "cycle i uses sum = i·delta", and Decrypt the reverse recursion -/
theorem tea_eq_reference (key : Bytes) (rounds : Int) (c : Tea.Cipher) (h0 : 0 ≤ rounds)
    (h : Tea.newCipher key rounds = some c) :
    2 * c.half = rounds.toNat ∧
    c.key = ⟨be32 key, be32 (key.drop 4), be32 (key.drop 8), be32 (key.drop 12)⟩ ∧
    ∀ v, Tea.encryptW c v = Tea.refEnc c.key c.half v ∧ Tea.decryptW c v = Tea.refDec c.key c.half v := by
  unfold Tea.newCipher at h
  split at h; · cases h
  split at h; · cases h
  rename_i hk hr
  injection h with h
  subst h
  refine ⟨?_, rfl, fun v => ⟨Tea.encLoop_eq_ref _ _ v, Tea.decLoop_eq_ref _ _ v⟩⟩
  simp only
  have : rounds % 2 = 0 := by simpa using hr
  omega

example : ∃ c, Tea.newCipher (zeros 16) 66 = some c := ⟨_, rfl⟩

/-! ## XTEA -/

/-- for an arbitrary round-key table (any length) -/
theorem xtea_dec_enc (tbl : List (UInt32 × UInt32)) (v : UInt32 × UInt32) :
    Xtea.decryptW tbl (Xtea.encryptW tbl v) = v :=
  foldl_inv Xtea.encStep Xtea.decStep Xtea.decStep_encStep tbl v

theorem xtea_enc_dec (tbl : List (UInt32 × UInt32)) (v : UInt32 × UInt32) :
    Xtea.encryptW tbl (Xtea.decryptW tbl v) = v := by
  have := foldl_inv Xtea.decStep Xtea.encStep Xtea.encStep_decStep tbl.reverse v
  simpa [Xtea.encryptW, Xtea.decryptW] using this

theorem xtea_decrypt_encrypt (tbl : List (UInt32 × UInt32)) (src : Bytes) (h : src.length = 8) :
    Xtea.decrypt tbl (Xtea.encrypt tbl src) = src := by
  unfold Xtea.decrypt Xtea.encrypt
  rw [split8_join8, xtea_dec_enc, join8_split8 src h]

/-- Encrypt / Decrypt through the precalculated 64-entry table = the published XTEA recursion with a
    running sum (32 cycles, sum from 0 resp. from delta·32), key words big-endian -/
theorem xtea_eq_reference (key : Bytes) (tbl : List (UInt32 × UInt32)) (h : Xtea.newCipher key = some tbl)
    (v : UInt32 × UInt32) :
    Xtea.encryptW tbl v = Xtea.refEnc (Xtea.keyWords key) 32 0 v ∧
    Xtea.decryptW tbl v = Xtea.refDec (Xtea.keyWords key) 32 (Xtea.delta * 32) v := by
  unfold Xtea.newCipher at h
  split at h; · cases h
  injection h with h
  subst h
  refine ⟨Xtea.enc_table_eq_ref _ 32 0 v, ?_⟩
  have := Xtea.dec_table_eq_ref (Xtea.keyWords key) 32 0 v
  rw [UInt32.zero_add] at this
  exact this

example : ∃ t, Xtea.newCipher (zeros 16) = some t := ⟨_, rfl⟩

theorem xtea_newCipher_ok_iff (key : Bytes) : (Xtea.newCipher key).isSome ↔ key.length = 16 := by
  unfold Xtea.newCipher
  by_cases h1 : key.length = 16 <;> simp [h1]

/-- the precalculated table has 64 entries (32 pairs) -/
theorem xtea_table_len (key : Bytes) : (Xtea.initCipher key).length = 32 := by
  have : ∀ k n s, (Xtea.tableLoop k n s).length = n := by
    intro k n; induction n with
    | zero => intro s; rfl
    | succ n ih => intro s; simp [Xtea.tableLoop, ih]
  exact this _ _ _

/-! ## Blowfish -/

/-- for an ARBITRARY state array (P-array and S-boxes): the 18 explicit lines of `decryptBlock`
    undo the 18 explicit lines of `encryptBlock` -/
theorem blowfish_dec_enc (c : Blowfish.Box) (l r : UInt32) :
    Blowfish.decryptBlock c (Blowfish.encryptBlock c l r).1 (Blowfish.encryptBlock c l r).2 = (l, r) := by
  rw [Blowfish.decryptBlock_eq_spec, Blowfish.encryptBlock_eq_spec]
  exact Blowfish.feistel_inv (Blowfish.F c) _ _ (Blowfish.pMid c) l r

theorem blowfish_enc_dec (c : Blowfish.Box) (l r : UInt32) :
    Blowfish.encryptBlock c (Blowfish.decryptBlock c l r).1 (Blowfish.decryptBlock c l r).2 = (l, r) := by
  rw [Blowfish.decryptBlock_eq_spec, Blowfish.encryptBlock_eq_spec]
  have := Blowfish.feistel_inv (Blowfish.F c) c[17]! c[0]! (Blowfish.pMid c).reverse l r
  rw [List.reverse_reverse] at this
  exact this

/-- the Go-shaped unrolled code is the 16-round Feistel network over `p[1..16]` with whitening
    `p[0]`, `p[17]` (Schneier's description) -/
theorem blowfish_encryptBlock_eq_feistel (c : Blowfish.Box) (l r : UInt32) :
    Blowfish.encryptBlock c l r = Blowfish.feistel (Blowfish.F c) c[0]! (Blowfish.pMid c) c[17]! l r :=
  Blowfish.encryptBlock_eq_spec c l r

theorem blowfish_decrypt_encrypt (c : Blowfish.Box) (src : Bytes) (h : src.length = 8) :
    Blowfish.decrypt c (Blowfish.encrypt c src) = src := by
  unfold Blowfish.decrypt Blowfish.encrypt
  simp only [split8_join8]
  have := blowfish_dec_enc c (split8 src).1 (split8 src).2
  rw [this]
  exact join8_split8 src h

/-- `getNextWord` (and its inlined copy): the wrapping position variable reads "the key bytes repeated
    cyclically, as big-endian 32-bit words" -/
theorem blowfish_getNextWord_cyclic (key : Array UInt8) (hn : 0 < key.size) (t : Nat) :
    nextWord key ((4 * t) % key.size) = (streamWord key t, (4 * (t + 1)) % key.size) :=
  nextWord_stream key hn t

/-- `ExpandKey` = Schneier's key schedule: P ^= cyclic key words, then 521 successive encryptions of
    the running block (from the zero block) written over P, S0, S1, S2, S3 in order -/
theorem blowfish_expandKey_eq_spec (key : Array UInt8) (hn : 0 < key.size) (c : Blowfish.Box) :
    Blowfish.expandKey key c = Blowfish.expandKeySpec key c := by
  unfold Blowfish.expandKey Blowfish.expandKeySpec
  rw [Blowfish.xorKey_eq_spec key hn, Blowfish.fill_eq_spec]

/-- `expandKeyWithSalt` = the same with the cyclic big-endian salt words xored into the running block
    before every encryption (bcrypt's eksblowfish) -/
theorem blowfish_expandKeyWithSalt_eq_spec (key salt : Array UInt8) (hk : 0 < key.size) (hs : 0 < salt.size)
    (c : Blowfish.Box) : Blowfish.expandKeyWithSalt key salt c = Blowfish.expandKeyWithSaltSpec key salt c := by
  unfold Blowfish.expandKeyWithSalt Blowfish.expandKeyWithSaltSpec
  rw [Blowfish.xorKey_eq_spec key hk, Blowfish.fillSalt_eq_spec salt hs]

/-- the code comment "ExpandKey is essentially expandKeyWithSalt with an all-zero salt", as a theorem -/
theorem blowfish_expandKey_is_zero_salt (key : Array UInt8) (n : Nat) (c : Blowfish.Box) :
    Blowfish.expandKeyWithSaltSpec key (Array.replicate (n + 1) 0) c = Blowfish.expandKeySpec key c := by
  unfold Blowfish.expandKeyWithSaltSpec Blowfish.expandKeySpec
  congr 1
  funext t
  have hc : ∀ p, cyc (Array.replicate (n + 1) (0 : UInt8)) p = 0 := by
    intro p
    unfold cyc
    have : p % (n + 1) < n + 1 := Nat.mod_lt _ (by omega)
    simp [this]
  simp [streamWord, hc]

/-- NewCipher: exactly key lengths 1..56 -/
theorem blowfish_newCipher_ok_iff (key : Bytes) :
    (Blowfish.newCipher key).isSome ↔ 1 ≤ key.length ∧ key.length ≤ 56 := by
  unfold Blowfish.newCipher
  split
  · rename_i h
    simp only [Bool.or_eq_true, decide_eq_true_eq] at h
    simp; omega
  · rename_i h
    simp only [Bool.or_eq_true, decide_eq_true_eq, not_or] at h
    simp; omega

/-- NewSaltedCipher: with an empty salt the 1..56 rule applies, otherwise any non-empty key
    (bcrypt passes up to 72+ bytes) -/
theorem blowfish_newSaltedCipher_ok_iff (key salt : Bytes) :
    (Blowfish.newSaltedCipher key salt).isSome ↔
      (salt = [] ∧ 1 ≤ key.length ∧ key.length ≤ 56) ∨ (salt ≠ [] ∧ 1 ≤ key.length) := by
  unfold Blowfish.newSaltedCipher
  cases salt with
  | nil => simp [blowfish_newCipher_ok_iff]
  | cons s ss =>
    by_cases h : key.length < 1
    · simp [h]
    · simp [h]; omega

/-! ## CAST5 -/

/-- for an ARBITRARY list of round keys (any number of rounds: 12 or 16 in RFC 2144) and
    arbitrary S-boxes inside `f` -/
theorem cast5_dec_enc (ks : List Cast5.RK) (v : UInt32 × UInt32) :
    Cast5.decryptW ks (Cast5.encryptW ks v) = v :=
  Cast5.crypt_inv Cast5.f ks v

theorem cast5_enc_dec (ks : List Cast5.RK) (v : UInt32 × UInt32) :
    Cast5.encryptW ks (Cast5.decryptW ks v) = v := by
  have := Cast5.crypt_inv Cast5.f ks.reverse v
  rw [List.reverse_reverse] at this
  exact this

theorem cast5_decrypt_encrypt (ks : List Cast5.RK) (src : Bytes) (h : src.length = 8) :
    Cast5.decrypt ks (Cast5.encrypt ks src) = src := by
  unfold Cast5.decrypt Cast5.encrypt
  rw [split8_join8, cast5_dec_enc, join8_split8 src h]

/-- this package accepts only 16-byte keys (RFC 2144 also allows 5..15 bytes with 12 rounds) -/
theorem cast5_newCipher_ok_iff (key : Bytes) : (Cast5.newCipher key).isSome ↔ key.length = 16 := by
  unfold Cast5.newCipher
  by_cases h1 : key.length = 16 <;> simp [h1]

/-- always 16 rounds, f1,f2,f3 cycling -/
theorem cast5_rounds (key : Bytes) :
    (Cast5.keySchedule key).map (·.kind) = [1,2,3,1,2,3,1,2,3,1,2,3,1,2,3,1] := by
  simp [Cast5.keySchedule, List.range, List.range.loop]

/-! ## Twofish -/

/-- for ARBITRARY S-box functions, whitening keys and round keys (any number of rounds) -/
theorem twofish_dec_enc (c : Twofish.Cipher) (x : Twofish.St) :
    Twofish.decryptW c (Twofish.encryptW c x) = x :=
  Twofish.decCore_encCore _ _ _ _ _ x

theorem twofish_decrypt_encrypt (c : Twofish.Cipher) (src : Bytes) (h : src.length = 16) :
    Twofish.decrypt c (Twofish.encrypt c src) = src := by
  unfold Twofish.decrypt Twofish.encrypt
  rw [split16le_join16le, twofish_dec_enc, join16le_split16le src h]

theorem twofish_newCipher_ok_iff (key : Bytes) :
    (Twofish.newCipher key).isSome ↔ key.length = 16 ∨ key.length = 24 ∨ key.length = 32 := by
  unfold Twofish.newCipher
  by_cases h1 : key.length = 16 <;> by_cases h2 : key.length = 24 <;> by_cases h3 : key.length = 32 <;>
    simp [h1, h2, h3]

theorem twofish_gf_table : ∀ b : Fin 256,
    (UInt32.ofNat b.val >>> 7 ≤ 1) ∧
    (Twofish.gfStep Twofish.mdsPolynomial (0, 0, UInt32.ofNat b.val)).2.2 < 256 ∧
    (Twofish.gfStep Twofish.rsPolynomial (0, 0, UInt32.ofNat b.val)).2.2 < 256 := by decide +kernel

/-- `gfMult`'s `P[B[1]>>7]` indexes a 2-element array: for both polynomials used the running `B[1]`
    stays below 256 (complete table over the 256 values), so the index is 0 or 1 in every one of the
    7 iterations — the multiplier cannot panic -/
theorem twofish_gfStep_inv (p : UInt32) (hp : p = Twofish.mdsPolynomial ∨ p = Twofish.rsPolynomial)
    (st : UInt32 × UInt8 × UInt32) (h : st.2.2 < 256) :
    (Twofish.gfStep p st).2.2 < 256 ∧ st.2.2 >>> 7 ≤ 1 := by
  obtain ⟨r, a, b⟩ := st
  have hb : b.toNat < 256 := by
    have := UInt32.lt_iff_toNat_lt.mp h
    simpa using this
  have e : b = UInt32.ofNat (⟨b.toNat, hb⟩ : Fin 256).val := by simp
  have key := twofish_gf_table ⟨b.toNat, hb⟩
  rw [← e] at key
  have indep : ∀ q, (Twofish.gfStep q (r, a, b)).2.2 = (Twofish.gfStep q (0, 0, b)).2.2 := fun _ => rfl
  rcases hp with hp | hp <;> subst hp <;> rw [indep] <;> simp [key]

/-! ## RC2 -/

/-- for ARBITRARY expanded keys (the mash lookup is any function, the mix keys any lists) -/
theorem rc2_dec_enc (k : Array UInt16) (s : Rc2.St) : Rc2.decryptW k (Rc2.encryptW k s) = s :=
  Rc2.decCore_encCore _ _ _ _ s

theorem rc2_decrypt_encrypt (k : Array UInt16) (src : Bytes) (h : src.length = 8) :
    Rc2.decrypt k (Rc2.encrypt k src) = src := by
  unfold Rc2.decrypt Rc2.encrypt
  rw [split8le16_join8le16, rc2_dec_enc, join8le16_split8le16 src h]

/-- RFC 2268 §2 key-expansion parameters: for an effective key length of T1 ≥ 1 bits, T8 is the number
    of bytes holding those bits and TM the mask of the `T1 - 8(T8-1)` (1 … 8) bits used in the top byte:
    TM = 2^(T1 - 8(T8-1)) - 1, i.e. 0xff when T1 is a multiple of 8 -/
theorem rc2_t8_tm_rfc (t1 : Nat) (h : 1 ≤ t1) :
    8 * (Rc2.t8Of t1 - 1) < t1 ∧ t1 ≤ 8 * Rc2.t8Of t1 ∧
    Rc2.tmOf t1 = 2 ^ (t1 - 8 * (Rc2.t8Of t1 - 1)) - 1 ∧ (t1 % 8 = 0 → Rc2.tmOf t1 = 255) := by
  unfold Rc2.tmOf Rc2.t8Of
  have e : 8 + t1 - 8 * ((t1 + 7) / 8) = t1 - 8 * ((t1 + 7) / 8 - 1) := by omega
  have hr : 1 ≤ t1 - 8 * ((t1 + 7) / 8 - 1) ∧ t1 - 8 * ((t1 + 7) / 8 - 1) ≤ 8 := by omega
  have h4 : t1 % 8 = 0 → 255 % 2 ^ (8 + t1 - 8 * ((t1 + 7) / 8)) = 255 := by
    intro hm
    have : 8 + t1 - 8 * ((t1 + 7) / 8) = 8 := by omega
    rw [this]
  refine ⟨by omega, by omega, ?_, h4⟩
  rw [e]
  generalize t1 - 8 * ((t1 + 7) / 8 - 1) = r at hr ⊢
  have : r = 1 ∨ r = 2 ∨ r = 3 ∨ r = 4 ∨ r = 5 ∨ r = 6 ∨ r = 7 ∨ r = 8 := by omega
  rcases this with h | h | h | h | h | h | h | h <;> subst h <;> decide

/-- `rc2.New` has no argument checks ("TODO(dgryski): error checking for key length"): it panics
    exactly for an empty key or an effective key length outside 1..1024 bits (t1 ≥ 0) -/
theorem rc2_expandKey_panics_iff (key : Bytes) (t1 : Nat) :
    (match Rc2.expandKey key t1 with | .panic => True | .ok _ => False) ↔
      key.length = 0 ∨ t1 = 0 ∨ t1 > 1024 := by
  unfold Rc2.expandKey Rc2.t8Of
  by_cases h1 : key.length = 0
  · simp [h1]
  · by_cases h2 : ((t1 + 7) / 8 == 0 || (t1 + 7) / 8 > 128) = true
    · simp only [h2]
      simp only [Bool.or_eq_true, beq_iff_eq, decide_eq_true_eq] at h2
      simp [h1]; omega
    · simp only [h2]
      simp only [Bool.or_eq_true, beq_iff_eq, decide_eq_true_eq, not_or] at h2
      simp [h1]; omega

end XC.C12
